(* C16: proofs about the concurrent model of the client's session management (Mux/Connect.v). Every statement is over every schedule
   and every number of goroutines: an invariant of all reachable states, then its consequences. *)
From Coq Require Import String List NArith ZArith Bool Arith Lia.
From SA Require Import Base.Tok Mux.Policy Mux.Policy_proofs Mux.Connect.
Import ListNotations.
Local Open Scope nat_scope.

(* ------------------------------------------------------------------------------------------------ the source *)
Lemma source_lock_first : sh_lock_first code_shape = true. Proof. reflexivity. Qed.
Lemma source_ret_unlocked1 : sh_ret_unlocked1 code_shape = true. Proof. reflexivity. Qed.
Lemma source_ret_unlocked2 : sh_ret_unlocked2 code_shape = true. Proof. reflexivity. Qed.
Lemma source_fail_lost : sh_fail_lost code_shape = true. Proof. reflexivity. Qed.
Lemma source_refusal_local : sh_refusal_local code_shape = true. Proof. reflexivity. Qed.
Lemma source_repl_lost : sh_repl_lost code_shape = true. Proof. reflexivity. Qed.
Lemma source_repl_reused : sh_repl_reused code_shape = true. Proof. reflexivity. Qed.
Lemma source_guard : sh_guard code_shape = true. Proof. reflexivity. Qed.
Lemma source_clear_stale : sh_clear_stale code_shape = true. Proof. reflexivity. Qed.
Lemma source_continue : sh_continue code_shape = true. Proof. reflexivity. Qed.
Lemma source_nil_check : sh_nil_check code_shape = true. Proof. reflexivity. Qed.
Lemma shape_eta sp : sp = {| sh_lock_first := sh_lock_first sp; sh_ret_unlocked1 := sh_ret_unlocked1 sp; sh_ret_unlocked2 := sh_ret_unlocked2 sp;
  sh_fail_lost := sh_fail_lost sp; sh_refusal_local := sh_refusal_local sp; sh_repl_lost := sh_repl_lost sp; sh_repl_reused := sh_repl_reused sp;
  sh_guard := sh_guard sp; sh_clear_stale := sh_clear_stale sp; sh_continue := sh_continue sp; sh_nil_check := sh_nil_check sp |}.
Proof. destruct sp; reflexivity. Qed.
Lemma code_shape_intended : code_shape = intended.
Proof.
  rewrite (shape_eta code_shape).
  rewrite source_lock_first, source_ret_unlocked1, source_ret_unlocked2, source_fail_lost, source_refusal_local,
    source_repl_lost, source_repl_reused, source_guard, source_clear_stale, source_continue, source_nil_check.
  reflexivity.
Qed.

(* the shape the theorems are about: everything as intended; the nil test of openStream either way (the code before 108185a had none) *)
Definition core (nc : bool) : shape :=
  {| sh_lock_first := true; sh_ret_unlocked1 := true; sh_ret_unlocked2 := true; sh_fail_lost := true; sh_refusal_local := true;
     sh_repl_lost := true; sh_repl_reused := true; sh_guard := true; sh_clear_stale := true; sh_continue := true; sh_nil_check := nc |}.
Lemma intended_core : intended = core true. Proof. reflexivity. Qed.

(* ------------------------------------------------------------------------------------------------ open() is Policy.open_from *)
Lemma open_loop_is_open_from must ups i : open_loop true must ups i = open_from must ups i.
Proof.
  revert i; induction ups as [|b ups IH]; intros i; cbn; [reflexivity|].
  destruct (connect_ok must b); [reflexivity|]. rewrite IH. reflexivity.
Qed.

(* without the `continue` a good upstream behind a failing one is never reached *)
Lemma open_loop_no_continue_stops must b ups i : connect_ok must b = false -> fst (open_loop false must (b :: ups) i) = None.
Proof. intros H. cbn. rewrite H. reflexivity. Qed.

(* ------------------------------------------------------------------------------------------------ lists *)
Lemma nth_error_upd_same {A} (l : list A) i a : i < List.length l -> nth_error (upd l i a) i = Some a.
Proof. revert i; induction l as [|b l IH]; intros [|i] H; cbn in *; try lia; [reflexivity | apply IH; lia]. Qed.
Lemma nth_error_upd_other {A} (l : list A) i k a : i <> k -> nth_error (upd l i a) k = nth_error l k.
Proof. revert i k; induction l as [|b l IH]; intros [|i] [|k] H; cbn; try reflexivity; try congruence. apply IH. congruence. Qed.
Lemma upd_length {A} (l : list A) i a : List.length (upd l i a) = List.length l.
Proof. revert i; induction l as [|b l IH]; intros [|i]; cbn; try reflexivity. rewrite IH. reflexivity. Qed.
Lemma nth_error_lt {A} (l : list A) i a : nth_error l i = Some a -> i < List.length l.
Proof. intros H. apply nth_error_Some. congruence. Qed.
Lemma nth_error_last {A} (l : list A) a : nth_error (l ++ [a]) (List.length l) = Some a.
Proof. rewrite nth_error_app2 by lia. rewrite Nat.sub_diag. reflexivity. Qed.
Lemma upd_last {A} (l : list A) a b : upd (l ++ [a]) (List.length l) b = l ++ [b].
Proof. induction l as [|c l IH]; cbn; [reflexivity | rewrite IH; reflexivity]. Qed.

(* ------------------------------------------------------------------------------------------------ the invariant *)
Definition holds (p : pc) : bool := match p with PIn1 | POut1 | PIn2 | POut2 => true | _ => false end.

Definition replaceable (x : shared) : bool := match sess x with None => true | Some c => c <=? cutmark x end.

Record sinv (x : shared) : Prop := {
  i_sess : forall c, sess x = Some c -> c = nsess x /\ 1 <= c;
  i_conn : match conn x, sess x with None, None => True | Some j, Some c => nth_error (sup x) (c - 1) = Some j | _, _ => False end;
  i_cut : cutmark x <= nsess x;
  i_cclosed : cclosed x = true -> exists c, sess x = Some c /\ c <= cutmark x;
  i_closed : forall id, In id (closed x) -> 1 <= id <= nsess x /\ sess x <> Some id;
  i_live : forall id, 1 <= id <= nsess x -> sess x <> Some id -> id <= cutmark x \/ In id (closed x);
  i_count : nsess x + (if replaceable x then 1 else 0) <= 1 + ncut x + nshut x;
  i_opens : nopen x = nsess x + nfail x
}.

Definition ginv (nc : bool) (x : shared) (i : nat) (g : gor) : Prop :=
  (holds (gpc g) = true -> lock x = Some i) /\
  match gpc g with
  | PStart | PIn1 => True
  | PWait1 => False
  | POut1 => (gerr g = ENil /\ gsess g = sess x /\ sess x <> None) \/ (gerr g = EOpen /\ sess x = None)
  | POpen1 => gerr g = ENil /\ exists c, gsess g = Some c /\ 1 <= c <= nsess x
  | PLock2 | PIn2 => greused g = true /\ exists c, gsess g = Some c /\ 1 <= c <= nsess x /\ (c <= cutmark x \/ In c (closed x))
  | POut2 => gerr g = ENil \/ (gerr g = EOpen /\ sess x = None)
  | POpen2 => gerr g = ENil
  | PDone => match gres g with CStream id => 1 <= id <= nsess x | CPanic => nc = false | CNone => False | _ => True end
  end.

Definition inv (nc : bool) (s : cst) : Prop :=
  sinv (sh s) /\
  (forall i g, nth_error (gs s) i = Some g -> ginv nc (sh s) i g) /\
  (forall i, lock (sh s) = Some i -> exists g, nth_error (gs s) i = Some g /\ holds (gpc g) = true).

(* how the shared state may move *)
Record ext (x x' : shared) : Prop := {
  e_nsess : nsess x <= nsess x';
  e_cut : cutmark x <= cutmark x';
  e_closed : forall id, In id (closed x) -> In id (closed x');
  e_must : must x' = must x
}.

Lemma ext_refl x : ext x x. Proof. split; auto. Qed.

Lemma ginv_frame nc x x' k h :
  ginv nc x k h -> ext x x' -> (holds (gpc h) = true -> lock x' = lock x /\ sess x' = sess x) -> ginv nc x' k h.
Proof.
  intros [Hl Hp] E Hf. destruct E as [En Ec Ecl _]. split.
  - intros Hh. destruct (Hf Hh) as [-> _]. auto.
  - destruct (gpc h) eqn:P; cbn in Hf; auto.
    + destruct (Hf eq_refl) as [_ ->]. exact Hp.
    + destruct Hp as [He (c & Hc & Hr)]. split; [exact He|]. exists c. split; [exact Hc | lia].
    + destruct Hp as [Hu (c & Hc & Hr & Hd)]. split; [exact Hu|]. exists c. split; [exact Hc|]. split; [lia|]. destruct Hd; [left; lia | right; auto].
    + destruct Hp as [Hu (c & Hc & Hr & Hd)]. split; [exact Hu|]. exists c. split; [exact Hc|]. split; [lia|]. destruct Hd; [left; lia | right; auto].
    + destruct (Hf eq_refl) as [_ ->]. exact Hp.
    + destruct (gres h); auto. lia.
Qed.

(* ------------------------------------------------------------------------------------------------ re-opening *)
Lemma nsess_app x j : List.length (sup x ++ [j]) = S (nsess x).
Proof. unfold nsess. rewrite app_length. cbn. lia. Qed.

Lemma reopen_cases nc x close :
  (exists j t, open_from (must x) (ups x) 0 = (Some j, t) /\ snd (reopen (core nc) x close) = ENil /\
     let x' := fst (reopen (core nc) x close) in
     conn x' = Some j /\ cclosed x' = false /\ sess x' = Some (S (nsess x)) /\ sup x' = sup x ++ [j] /\ phys x' = phys x ++ t /\
     nopen x' = S (nopen x) /\ nfail x' = nfail x) \/
  (exists t, open_from (must x) (ups x) 0 = (None, t) /\ snd (reopen (core nc) x close) = EOpen /\
     let x' := fst (reopen (core nc) x close) in
     conn x' = None /\ cclosed x' = false /\ sess x' = None /\ sup x' = sup x /\ phys x' = phys x ++ t /\
     nopen x' = S (nopen x) /\ nfail x' = S (nfail x)).
Proof.
  unfold reopen. cbn [sh_continue core]. rewrite open_loop_is_open_from.
  destruct (open_from (must x) (ups x) 0) as [[j|] t]; [left; exists j, t | right; exists t]; cbn; repeat split; reflexivity.
Qed.

Lemma reopen_frame nc x close :
  let x' := fst (reopen (core nc) x close) in
  must x' = must x /\ ups x' = ups x /\ lock x' = lock x /\ cutmark x' = cutmark x /\ ncut x' = ncut x /\ nshut x' = nshut x /\
  closed x' = (if close then match sess x with Some id => closed x ++ [id] | None => closed x end else closed x).
Proof.
  unfold reopen. destruct (open_loop _ _ _ _) as [[j|] t]; cbn; repeat split; reflexivity.
Qed.

Lemma reopen_sinv nc x close :
  sinv x -> replaceable x = true -> sinv (fst (reopen (core nc) x close)).
Proof.
  intros I R.
  destruct (reopen_frame nc x close) as (Fm & Fu & Fl & Fc & Fnc & Fns & Fcl).
  assert (Hcl : forall id, In id (closed (fst (reopen (core nc) x close))) -> In id (closed x) \/ sess x = Some id).
  { intros id. rewrite Fcl. destruct close; [|auto]. destruct (sess x); [|auto]. rewrite in_app_iff. cbn. intuition congruence. }
  assert (Hcl2 : forall id, In id (closed x) -> In id (closed (fst (reopen (core nc) x close)))).
  { intros id. rewrite Fcl. destruct close; [|auto]. destruct (sess x); [|auto]. rewrite in_app_iff. auto. }
  assert (Hdead : forall c, sess x = Some c -> c = nsess x /\ 1 <= c /\ c <= cutmark x).
  { intros c Hc. destruct (i_sess x I c Hc). unfold replaceable in R. rewrite Hc in R. apply Nat.leb_le in R. auto. }
  destruct (reopen_cases nc x close) as [(j & t & _ & _ & Hx) | (t & _ & _ & Hx)]; cbn zeta in Hx;
    destruct Hx as (Hconn & Hcc & Hs & Hsup & Hph & Hno & Hnf);
    set (x' := fst (reopen (core nc) x close)) in *.
  - assert (Hn : nsess x' = S (nsess x)) by (unfold nsess at 1; rewrite Hsup; apply nsess_app).
    constructor.
    + intros c Hc. rewrite Hs in Hc. inversion Hc; subst. rewrite Hn. lia.
    + rewrite Hconn, Hs, Hsup. cbn. rewrite Nat.sub_0_r. apply nth_error_last.
    + rewrite Fc, Hn. pose proof (i_cut x I). lia.
    + rewrite Hcc. discriminate.
    + intros id Hi. rewrite Hn, Hs. destruct (Hcl id Hi) as [H|H].
      * destruct (i_closed x I id H). split; [lia|]. intros E; inversion E; lia.
      * destruct (Hdead id H) as (? & ? & ?). split; [lia|]. intros E; inversion E; lia.
    + intros id Hr Hne. rewrite Hn in Hr. rewrite Hs in Hne. rewrite Fc.
      assert (Hid : id <= nsess x). { destruct (Nat.eq_dec id (S (nsess x))); [subst; congruence | lia]. }
      destruct (sess x) as [c|] eqn:Sx.
      * destruct (Nat.eq_dec id c) as [->|Hd]; [destruct (Hdead c eq_refl) as (? & ? & ?); left; lia|].
        destruct (i_live x I id) as [H|H]; [lia | rewrite Sx; congruence | left; exact H | right; apply Hcl2; exact H].
      * destruct (i_live x I id) as [H|H]; [lia | rewrite Sx; discriminate | left; exact H | right; apply Hcl2; exact H].
    + rewrite Hn, Fnc, Fns. pose proof (i_count x I) as Hc. rewrite R in Hc.
      unfold replaceable. rewrite Hs, Fc. pose proof (i_cut x I).
      destruct (S (nsess x) <=? cutmark x) eqn:E; [apply Nat.leb_le in E; lia | lia].
    + rewrite Hno, Hnf, Hn. pose proof (i_opens x I). lia.
  - assert (Hn : nsess x' = nsess x) by (unfold nsess; rewrite Hsup; reflexivity).
    constructor.
    + intros c Hc. rewrite Hs in Hc. discriminate.
    + rewrite Hconn, Hs. constructor.
    + rewrite Fc, Hn. apply (i_cut x I).
    + rewrite Hcc. discriminate.
    + intros id Hi. rewrite Hn, Hs. split; [|discriminate]. destruct (Hcl id Hi) as [H|H].
      * apply (i_closed x I id H).
      * destruct (Hdead id H) as (? & ? & ?). lia.
    + intros id Hr _. rewrite Hn in Hr. rewrite Fc.
      destruct (sess x) as [c|] eqn:Sx.
      * destruct (Nat.eq_dec id c) as [->|Hd]; [destruct (Hdead c eq_refl) as (? & ? & ?); left; lia|].
        destruct (i_live x I id) as [H|H]; [lia | rewrite Sx; congruence | left; exact H | right; apply Hcl2; exact H].
      * destruct (i_live x I id) as [H|H]; [lia | rewrite Sx; discriminate | left; exact H | right; apply Hcl2; exact H].
    + rewrite Hn, Fnc, Fns. pose proof (i_count x I) as Hc. rewrite R in Hc. unfold replaceable. rewrite Hs. lia.
    + rewrite Hno, Hnf, Hn. pose proof (i_opens x I). lia.
Qed.

Lemma reopen_ext nc x close : ext x (fst (reopen (core nc) x close)).
Proof.
  destruct (reopen_frame nc x close) as (Fm & Fu & Fl & Fc & Fnc & Fns & Fcl).
  split.
  - destruct (reopen_cases nc x close) as [(j & t & _ & _ & Hx) | (t & _ & _ & Hx)]; cbn zeta in Hx;
      destruct Hx as (_ & _ & _ & Hsup & _); unfold nsess; rewrite Hsup; [rewrite app_length; lia | lia].
  - rewrite Fc. lia.
  - intros id Hi. rewrite Fcl. destruct close; [|exact Hi]. destruct (sess x); [|exact Hi]. rewrite in_app_iff. auto.
  - exact Fm.
Qed.

Lemma set_lock_sinv x l : sinv x -> sinv (set_lock x l).
Proof. intros [? ? ? ? ? ? ? ?]. constructor; auto. Qed.
Lemma set_lock_ext x l : ext x (set_lock x l).
Proof. split; auto. Qed.

Lemma no_connection_replaceable x : sinv x -> no_connection x = true -> replaceable x = true.
Proof.
  intros I H. unfold no_connection in H. unfold replaceable. pose proof (i_conn x I) as Hc.
  destruct (conn x) as [j|].
  - destruct (i_cclosed x I H) as (c & Hs & Hd). rewrite Hs. apply Nat.leb_le. exact Hd.
  - destruct (sess x); [contradiction | reflexivity].
Qed.

Lemma connection_sess x : sinv x -> no_connection x = false -> exists c, sess x = Some c /\ c = nsess x /\ 1 <= c.
Proof.
  intros I H. unfold no_connection in H. pose proof (i_conn x I) as Hc.
  destruct (conn x) as [j|]; [|discriminate]. destruct (sess x) as [c|] eqn:E; [|contradiction].
  exists c. destruct (i_sess x I c E). auto.
Qed.

Lemma opt_eqb_eq a b : opt_eqb a b = true <-> a = b.
Proof.
  destruct a, b; cbn; split; intros H; try discriminate; try reflexivity.
  - apply Nat.eqb_eq in H. congruence.
  - inversion H. apply Nat.eqb_refl.
Qed.

Lemma dead_spec x id : dead x id = true <-> id <= cutmark x \/ In id (closed x).
Proof.
  unfold dead. rewrite orb_true_iff, Nat.leb_le, existsb_exists. split; intros [H|H]; auto.
  - destruct H as (y & Hy & E). apply Nat.eqb_eq in E. subst. auto.
  - right. exists id. split; [exact H | apply Nat.eqb_refl].
Qed.

(* a current session is dead only by a carrier cut: the client never closes the session it keeps *)
Lemma dead_current x c : sinv x -> sess x = Some c -> dead x c = true -> c <= cutmark x.
Proof.
  intros I Hs Hd. apply dead_spec in Hd. destruct Hd as [H|H]; [exact H|]. destruct (i_closed x I c H) as [_ Hn]. congruence.
Qed.

(* ------------------------------------------------------------------------------------------------ one goroutine step *)
Lemma gstep_inv nc x i g x' g' :
  sinv x -> ginv nc x i g -> gstep (core nc) x i g = Some (x', g') ->
  sinv x' /\ ginv nc x' i g' /\ ext x x' /\
  (forall k, k <> i -> lock x = Some k -> lock x' = lock x /\ sess x' = sess x) /\
  (lock x' = lock x \/ (lock x = None /\ lock x' = Some i /\ holds (gpc g') = true) \/ (lock x = Some i /\ lock x' = None /\ holds (gpc g') = false)) /\
  (holds (gpc g') = true -> lock x' = Some i).
Proof.
  intros I [Hl Hp] H. unfold gstep in H. cbn [sh_lock_first sh_ret_unlocked1 sh_ret_unlocked2 sh_guard sh_clear_stale core] in H.
  destruct (gpc g) eqn:P; cbn [negb orb] in H.
  - (* PStart: Lock *)
    destruct (lock x) eqn:L; [discriminate|]. inversion H; subst; clear H.
    split; [apply set_lock_sinv; exact I|]. split; [split; cbn; auto|]. split; [apply set_lock_ext|].
    split; [intros k _ Hk; discriminate|]. split; [right; left; cbn; auto | cbn; auto].
  - contradiction.
  - (* PIn1 *)
    specialize (Hl eq_refl).
    destruct (no_connection x) eqn:NC.
    + pose proof (no_connection_replaceable x I NC) as R.
      pose proof (reopen_sinv nc x false I R) as I'. pose proof (reopen_ext nc x false) as E'.
      destruct (reopen_frame nc x false) as (Fm & Fu & Fl & Fc & Fnc & Fns & Fcl).
      destruct (reopen_cases nc x false) as [(j & t & _ & He & Hx) | (t & _ & He & Hx)]; cbn zeta in Hx;
        destruct Hx as (Hconn & Hcc & Hs & Hsup & Hph & Hno & Hnf);
        destruct (reopen (core nc) x false) as [x1 e1]; cbn [fst snd] in *; subst e1; inversion H; subst; clear H;
        (split; [exact I'|]); (split; [split; cbn; [intros _; congruence|] |]).
      * left. rewrite Hs. repeat split; congruence.
      * split; [exact E'|]. split; [intros k Hk Hk'; congruence|]. split; [left; congruence | cbn; intros _; congruence].
      * right. auto.
      * split; [exact E'|]. split; [intros k Hk Hk'; congruence|]. split; [left; congruence | cbn; intros _; congruence].
    + inversion H; subst; clear H. destruct (connection_sess x' I NC) as (c & Hs & _).
      split; [exact I|]. split; [split; cbn; [auto | left; repeat split; congruence]|]. split; [apply ext_refl|].
      split; [auto|]. split; [left; reflexivity | cbn; auto].
  - (* POut1: Unlock *)
    specialize (Hl eq_refl).
    assert (Hk : forall k : nat, k <> i -> lock x = Some k -> lock (set_lock x None) = lock x /\ sess (set_lock x None) = sess x) by (intros k Hk Hk'; congruence).
    destruct Hp as [(He & Hs & Hn) | (He & Hs)]; rewrite He in H; inversion H; subst; clear H;
      (split; [apply set_lock_sinv; exact I|]).
    + split; [split; cbn; [discriminate|]|].
      * split; [exact He|]. destruct (sess x) as [c|] eqn:Sx; [|congruence]. exists c. split; [exact Hs|].
        destruct (i_sess x I c Sx). unfold nsess in *. cbn. lia.
      * split; [apply set_lock_ext|]. split; [exact Hk|]. split; [right; right; cbn; auto | cbn; discriminate].
    + split; [split; cbn; [discriminate | auto]|]. split; [apply set_lock_ext|]. split; [exact Hk|]. split; [right; right; cbn; auto | cbn; discriminate].
  - (* POpen1 *)
    destruct Hp as [He (c & Hc & Hr)].
    unfold open_stream in H. cbn [sh_nil_check sh_fail_lost sh_refusal_local core] in H.
    destruct (sess x) as [s|] eqn:Sx.
    + destruct (dead x s) eqn:D.
      * unfold replace_cond in H. cbn in H. destruct (greused g) eqn:U; cbn in H; inversion H; subst; clear H;
          (split; [exact I|]); (split; [|split; [apply ext_refl | split; [(intros ? ? ?; split; congruence) | split; [left; reflexivity | cbn; discriminate]]]]).
        -- split; cbn; [discriminate|]. split; [auto|]. exists c. split; [exact Hc|]. split; [exact Hr|].
           pose proof (dead_current x' s I Sx D). destruct (i_sess x' I s Sx). left. lia.
        -- split; cbn; [discriminate | auto].
      * destruct (goffered g); [|unfold replace_cond in H; cbn in H]; inversion H; subst; clear H;
          (split; [exact I|]); (split; [|split; [apply ext_refl | split; [(intros ? ? ?; split; congruence) | split; [left; reflexivity | cbn; discriminate]]]]).
        -- split; cbn; [discriminate|]. destruct (i_sess x' I s Sx). lia.
        -- split; cbn; [discriminate | auto].
    + destruct nc.
      * unfold replace_cond in H. cbn in H. destruct (greused g) eqn:U; cbn in H; inversion H; subst; clear H;
          (split; [exact I|]); (split; [|split; [apply ext_refl | split; [(intros ? ? ?; split; congruence) | split; [left; reflexivity | cbn; discriminate]]]]).
        -- split; cbn; [discriminate|]. split; [auto|]. exists c. split; [exact Hc|]. split; [exact Hr|].
           apply (i_live x' I c Hr). rewrite Sx. discriminate.
        -- split; cbn; [discriminate | auto].
      * inversion H; subst; clear H.
        split; [exact I|]. split; [split; cbn; [discriminate | reflexivity]|]. split; [apply ext_refl|]. split; [(intros ? ? ?; split; congruence)|]. split; [left; reflexivity | cbn; discriminate].
  - (* PLock2 *)
    destruct (lock x) eqn:L; [discriminate|]. inversion H; subst; clear H.
    split; [apply set_lock_sinv; exact I|]. split; [split; cbn; auto|]. split; [apply set_lock_ext|].
    split; [intros k _ Hk; discriminate|]. split; [right; left; cbn; auto | cbn; auto].
  - (* PIn2 *)
    specialize (Hl eq_refl). destruct Hp as [Hu (c & Hc & Hr & Hd)].
    destruct (opt_eqb (sess x) (gsess g)) eqn:G.
    + apply opt_eqb_eq in G. rewrite Hc in G.
      assert (R : replaceable x = true).
      { unfold replaceable. rewrite G. apply Nat.leb_le. destruct Hd as [Hd|Hd]; [exact Hd|]. destruct (i_closed x I c Hd). congruence. }
      pose proof (reopen_sinv nc x true I R) as I'. pose proof (reopen_ext nc x true) as E'.
      destruct (reopen_frame nc x true) as (Fm & Fu & Fl & Fc & Fnc & Fns & Fcl).
      destruct (reopen_cases nc x true) as [(j & t & _ & He & Hx) | (t & _ & He & Hx)]; cbn zeta in Hx;
        destruct Hx as (Hconn & Hcc & Hs & Hsup & Hph & Hno & Hnf);
        destruct (reopen (core nc) x true) as [x1 e1]; cbn [fst snd] in *; subst e1; inversion H; subst; clear H;
        (split; [exact I'|]); (split; [split; cbn; [intros _; congruence | auto] |]);
        (split; [exact E'|]); (split; [intros k Hk Hk'; congruence|]); (split; [left; congruence | cbn; intros _; congruence]).
    + inversion H; subst; clear H.
      split; [exact I|]. split; [split; cbn; auto|]. split; [apply ext_refl|]. split; [auto|]. split; [left; reflexivity | cbn; auto].
  - (* POut2 *)
    specialize (Hl eq_refl).
    assert (Hk : forall k : nat, k <> i -> lock x = Some k -> lock (set_lock x None) = lock x /\ sess (set_lock x None) = sess x) by (intros k Hk Hk'; congruence).
    destruct Hp as [He | (He & Hs)]; rewrite He in H; inversion H; subst; clear H;
      (split; [apply set_lock_sinv; exact I|]);
      (split; [split; cbn; [discriminate | auto]|]); (split; [apply set_lock_ext|]); (split; [exact Hk|]);
      (split; [right; right; cbn; auto | cbn; discriminate]).
  - (* POpen2 *)
    unfold open_stream in H. cbn [sh_nil_check sh_fail_lost sh_refusal_local core] in H.
    destruct (sess x) as [s|] eqn:Sx.
    + destruct (dead x s) eqn:D; [|destruct (goffered g)]; inversion H; subst; clear H;
        (split; [exact I|]); (split; [|split; [apply ext_refl | split; [(intros ? ? ?; split; congruence) | split; [left; reflexivity | cbn; discriminate]]]]);
        (split; cbn; [discriminate | auto]). destruct (i_sess x' I s Sx). lia.
    + destruct nc; inversion H; subst; clear H;
        (split; [exact I|]); (split; [|split; [apply ext_refl | split; [(intros ? ? ?; split; congruence) | split; [left; reflexivity | cbn; discriminate]]]]);
        (split; cbn; [discriminate | auto]).
  - discriminate.
Qed.

Lemma gstep_holds nc x i g x' g' :
  gstep (core nc) x i g = Some (x', g') -> holds (gpc g) = true -> lock x' = Some i -> holds (gpc g') = true.
Proof.
  unfold gstep. cbn [sh_lock_first sh_ret_unlocked1 sh_ret_unlocked2 sh_guard sh_clear_stale core].
  destruct (gpc g); cbn [holds negb orb]; try discriminate; intros H _.
  - destruct (no_connection x); [destruct (reopen (core nc) x false) as [x1 [| | |]] | ]; inversion H; subst; cbn; auto.
  - destruct (gerr g); inversion H; subst; cbn; discriminate.
  - destruct (opt_eqb (sess x) (gsess g)); [destruct (reopen (core nc) x true) as [x1 [| | |]] | ]; inversion H; subst; cbn; auto.
  - destruct (gerr g); inversion H; subst; cbn; discriminate.
Qed.

(* ------------------------------------------------------------------------------------------------ every step keeps the invariant *)
Lemma inv_env nc s x' :
  inv nc s -> sinv x' -> ext (sh s) x' -> lock x' = lock (sh s) -> (forall k, lock (sh s) = Some k -> sess x' = sess (sh s)) ->
  inv nc {| sh := x'; gs := gs s |}.
Proof.
  intros (I & G & L) I' E Hl Hs. split; [exact I'|]. split; cbn [sh gs].
  - intros i g Hg. apply (ginv_frame nc (sh s) x' i g (G i g Hg) E). intros Hh.
    destruct (G i g Hg) as [Hlk _]. specialize (Hlk Hh). split; [exact Hl | apply (Hs i Hlk)].
  - intros i Hi. rewrite Hl in Hi. exact (L i Hi).
Qed.

Lemma inv_step nc s e : inv nc s -> inv nc (cstep (core nc) s e).
Proof.
  intros Hinv. pose proof Hinv as (I & G & L). destruct e as [i | f offered | | | i b | ]; cbn [cstep].
  - (* a goroutine steps *)
    destruct (nth_error (gs s) i) as [g|] eqn:Ng; [|exact Hinv].
    destruct (gstep (core nc) (sh s) i g) as [[x' g']|] eqn:St; [|exact Hinv].
    destruct (gstep_inv nc (sh s) i g x' g' I (G i g Ng) St) as (I' & G' & E & Ho & Hlk & Hh).
    pose proof (nth_error_lt _ _ _ Ng) as Hlen.
    split; [exact I'|]. split; cbn [sh gs].
    + intros k h Hk. destruct (Nat.eq_dec i k) as [<-|Hne].
      * rewrite nth_error_upd_same in Hk by exact Hlen. inversion Hk; subst. exact G'.
      * rewrite nth_error_upd_other in Hk by exact Hne.
        apply (ginv_frame nc (sh s) x' k h (G k h Hk) E). intros Hhold.
        destruct (G k h Hk) as [Hlock _]. apply (Ho k); [congruence | auto].
    + intros k Hk. destruct (Nat.eq_dec i k) as [<-|Hne].
      * exists g'. split; [apply nth_error_upd_same; exact Hlen|].
        destruct Hlk as [Hsame | [(_ & _ & Hq) | (_ & Hq & _)]]; [|exact Hq|congruence].
        rewrite Hsame in Hk. destruct (L i Hk) as (g0 & Hg0 & Hh0). rewrite Ng in Hg0. inversion Hg0; subst g0.
        apply (gstep_holds nc (sh s) i g x' g' St Hh0). congruence.
      * rewrite nth_error_upd_other by exact Hne.
        destruct Hlk as [Hsame | [(_ & Hq & _) | (_ & Hq & _)]]; [|congruence|congruence].
        rewrite Hsame in Hk. exact (L k Hk).
  - (* a local connection arrives *)
    split; [exact I|]. split; cbn [sh gs].
    + intros k h Hk. destruct (Nat.lt_ge_cases k (List.length (gs s))) as [Hlt|Hge].
      * rewrite nth_error_app1 in Hk by exact Hlt. exact (G k h Hk).
      * rewrite nth_error_app2 in Hk by exact Hge.
        destruct (k - List.length (gs s)) as [|d]; cbn in Hk; [|destruct d; discriminate].
        inversion Hk; subst. destruct f; split; cbn; auto; discriminate.
    + intros k Hk. destruct (L k Hk) as (g0 & Hg0 & Hh0). exists g0. split; [|exact Hh0].
      rewrite nth_error_app1; [exact Hg0 | apply (nth_error_lt _ _ _ Hg0)].
  - (* carrier cut *)
    apply inv_env; [exact Hinv | | | reflexivity | reflexivity].
    + destruct I as [Is Ic Icut Icc Icl Il Icnt Io]. constructor; cbn; unfold nsess in *; cbn; auto.
      * intros Hc. destruct (Icc Hc) as (c & Hs & Hd). exists c. split; [exact Hs|]. destruct (Is c Hs). lia.
      * intros id Hr _. left. lia.
      * assert (R : replaceable {| must := must (sh s); ups := ups (sh s); conn := conn (sh s); cclosed := cclosed (sh s); sess := sess (sh s);
                                   lock := lock (sh s); sup := sup (sh s); cutmark := List.length (sup (sh s)); closed := closed (sh s); phys := phys (sh s);
                                   nopen := nopen (sh s); nfail := nfail (sh s); ncut := S (ncut (sh s)); nshut := nshut (sh s) |} = true).
        { unfold replaceable; cbn. destruct (sess (sh s)) as [c|] eqn:Sx; [|reflexivity]. destruct (Is c eq_refl). apply Nat.leb_le. lia. }
        rewrite R. destruct (replaceable (sh s)); lia.
    + split; cbn; auto. apply (i_cut _ I).
  - (* keep-alive expiry *)
    destruct (sess (sh s)) as [id|] eqn:Sx; [|exact Hinv]. destruct (id <=? cutmark (sh s)) eqn:D; [|exact Hinv].
    apply Nat.leb_le in D.
    apply inv_env; [exact Hinv | | | reflexivity | intros; cbn; congruence].
    + destruct I as [Is Ic Icut Icc Icl Il Icnt Io]. constructor; cbn; unfold nsess, replaceable in *; cbn; auto; try (rewrite Sx in *; auto).
      intros _. exists id. auto.
    + split; cbn; auto.
  - (* an upstream changes *)
    apply inv_env; [exact Hinv | | | reflexivity | reflexivity].
    + destruct I as [Is Ic Icut Icc Icl Il Icnt Io]. constructor; cbn; unfold nsess, replaceable in *; cbn; auto.
    + split; cbn; auto.
  - (* Shutdown *)
    destruct (lock (sh s)) eqn:Lk; [exact Hinv|].
    apply inv_env; [exact Hinv | | | cbn; congruence | intros k Hk; congruence].
    + destruct I as [Is Ic Icut Icc Icl Il Icnt Io]. constructor; cbn; unfold nsess, replaceable in *; cbn; auto; try discriminate.
      * intros id Hi. split; [|discriminate]. destruct (sess (sh s)) as [c|] eqn:Sx; [|apply (Icl id Hi)].
        apply in_app_iff in Hi. destruct Hi as [Hi|[<-|[]]]; [apply (Icl id Hi)|]. destruct (Is c eq_refl). lia.
      * intros id Hr _. destruct (sess (sh s)) as [c|] eqn:Sx.
        -- destruct (Nat.eq_dec id c) as [->|Hd]; [right; apply in_app_iff; cbn; auto|].
           destruct (Il id Hr) as [H|H]; [congruence | auto | right; apply in_app_iff; auto].
        -- apply (Il id Hr). discriminate.
      * destruct (match sess (sh s) with Some c => c <=? cutmark (sh s) | None => true end); lia.
    + split; cbn; auto. intros id Hi. destruct (sess (sh s)); [apply in_app_iff; auto | exact Hi].
Qed.

Lemma inv_run nc sch s : inv nc s -> inv nc (crun (core nc) s sch).
Proof. revert s; induction sch as [|e sch IH]; intros s H; cbn; [exact H | apply IH, inv_step, H]. Qed.

Lemma inv_init nc m u : inv nc (cst0 m u).
Proof.
  split; [|split].
  - constructor; cbn; auto; try discriminate; try lia; try (intros id []).
  - intros [|i] g H; discriminate.
  - intros i H; discriminate.
Qed.

(* reachable: by some schedule from the start (nothing connected, no goroutine) *)
Definition reach (nc : bool) (s : cst) : Prop := exists m u sch, s = crun (core nc) (cst0 m u) sch.

Lemma reach_inv nc s : reach nc s -> inv nc s.
Proof. intros (m & u & sch & ->). apply inv_run, inv_init. Qed.

Lemma crun_app sp s a b : crun sp s (a ++ b) = crun sp (crun sp s a) b.
Proof. revert s; induction a as [|e a IH]; intros s; cbn; [reflexivity | apply IH]. Qed.

Lemma reach_run nc s sch : reach nc s -> reach nc (crun (core nc) s sch).
Proof. intros (m & u & sch0 & ->). exists m, u, (sch0 ++ sch). rewrite crun_app. reflexivity. Qed.

(* ------------------------------------------------------------------------------------------------ what a step can do to the shared state *)
Definition phi (x : shared) : nat := nsess x + (if replaceable x then 1 else 0).

Lemma set_lock_id x : set_lock x (lock x) = x.
Proof. destruct x; reflexivity. Qed.

(* a goroutine step either touches nothing but the lock, or it is the re-open of a session that is gone or dead *)
Lemma gstep_shape nc x i g x' g' :
  sinv x -> ginv nc x i g -> gstep (core nc) x i g = Some (x', g') ->
  (exists l, x' = set_lock x l) \/ (replaceable x = true /\ exists close, x' = fst (reopen (core nc) x close)).
Proof.
  intros I [Hl Hp] H. unfold gstep in H. cbn [sh_lock_first sh_ret_unlocked1 sh_ret_unlocked2 sh_guard sh_clear_stale core] in H.
  destruct (gpc g) eqn:P; cbn [negb orb] in H.
  - destruct (lock x); inversion H; subst. left. eexists; reflexivity.
  - contradiction.
  - destruct (no_connection x) eqn:NC.
    + right. split; [apply no_connection_replaceable; assumption|]. exists false.
      destruct (reopen (core nc) x false) as [x1 [| | |]]; inversion H; subst; reflexivity.
    + inversion H; subst. left. exists (lock x'). symmetry. apply set_lock_id.
  - left. destruct (gerr g); inversion H; subst; eexists; reflexivity.
  - left. exists (lock x). rewrite set_lock_id.
    destruct (open_stream (core nc) x (goffered g)) as [id| lost e|]; [| destruct (replace_cond (core nc) lost (greused g)) |]; inversion H; reflexivity.
  - destruct (lock x); inversion H; subst. left. eexists; reflexivity.
  - destruct Hp as [Hu (c & Hc & Hr & Hd)]. destruct (opt_eqb (sess x) (gsess g)) eqn:G.
    + right. apply opt_eqb_eq in G. rewrite Hc in G. split.
      * unfold replaceable. rewrite G. apply Nat.leb_le. destruct Hd as [Hd|Hd]; [exact Hd|]. destruct (i_closed x I c Hd). congruence.
      * exists true. destruct (reopen (core nc) x true) as [x1 [| | |]]; inversion H; subst; reflexivity.
    + inversion H; subst. left. exists (lock x'). symmetry. apply set_lock_id.
  - left. destruct (gerr g); inversion H; subst; eexists; reflexivity.
  - left. exists (lock x). rewrite set_lock_id.
    destruct (open_stream (core nc) x (goffered g)) as [id| lost e|]; inversion H; reflexivity.
  - discriminate.
Qed.

Lemma reopen_phi nc x close : sinv x -> replaceable x = true -> phi (fst (reopen (core nc) x close)) = phi x.
Proof.
  intros I R. unfold phi. rewrite R.
  destruct (reopen_frame nc x close) as (_ & _ & _ & Fc & _).
  destruct (reopen_cases nc x close) as [(j & t & _ & _ & Hx) | (t & _ & _ & Hx)]; cbn zeta in Hx;
    destruct Hx as (_ & _ & Hs & Hsup & _); unfold replaceable, nsess; rewrite Hs, Hsup.
  - pose proof (i_cut x I) as Hcut. unfold nsess in Hcut.
    assert (E : (S (List.length (sup x)) <=? cutmark x) = false) by (apply Nat.leb_gt; lia).
    rewrite Fc, app_length. unfold nsess. rewrite E. cbn [List.length]. lia.
  - reflexivity.
Qed.

Lemma gstep_phi nc x i g x' g' : sinv x -> ginv nc x i g -> gstep (core nc) x i g = Some (x', g') -> phi x' = phi x.
Proof.
  intros I G H. destruct (gstep_shape nc x i g x' g' I G H) as [(l & ->) | (R & close & ->)]; [reflexivity | apply reopen_phi; assumption].
Qed.

(* events that are neither a carrier cut nor a Shutdown *)
Definition no_loss_ev (e : sev) : bool := match e with SCut | SShutdown => false | _ => true end.

Lemma step_phi nc s e : inv nc s -> no_loss_ev e = true -> phi (sh (cstep (core nc) s e)) = phi (sh s).
Proof.
  intros (I & G & L) He. destruct e as [i | f offered | | | i b | ]; cbn [cstep]; try discriminate; try reflexivity.
  - destruct (nth_error (gs s) i) as [g|] eqn:Ng; [|reflexivity].
    destruct (gstep (core nc) (sh s) i g) as [[x' g']|] eqn:St; [|reflexivity].
    apply (gstep_phi nc (sh s) i g x' g' I (G i g Ng) St).
  - destruct (sess (sh s)) as [id|] eqn:Sx; [|reflexivity]. destruct (id <=? cutmark (sh s)); [|reflexivity].
    unfold phi, replaceable, nsess. cbn. rewrite Sx. reflexivity.
Qed.

Lemma run_phi nc sch s : inv nc s -> forallb no_loss_ev sch = true -> phi (sh (crun (core nc) s sch)) = phi (sh s).
Proof.
  revert s; induction sch as [|e sch IH]; intros s Hi Hs; cbn; [reflexivity|].
  cbn in Hs. apply andb_true_iff in Hs. destruct Hs as [He Hs].
  rewrite IH; [apply step_phi; assumption | apply inv_step; assumption | assumption].
Qed.

Lemma nsess_mono_step nc s e : inv nc s -> nsess (sh s) <= nsess (sh (cstep (core nc) s e)).
Proof.
  intros (I & G & L). destruct e as [i | f offered | | | i b | ]; cbn [cstep]; auto.
  - destruct (nth_error (gs s) i) as [g|] eqn:Ng; [|auto].
    destruct (gstep (core nc) (sh s) i g) as [[x' g']|] eqn:St; [|auto].
    destruct (gstep_inv nc (sh s) i g x' g' I (G i g Ng) St) as (_ & _ & E & _). apply E.
  - destruct (sess (sh s)) as [id|]; [|auto]. destruct (id <=? cutmark (sh s)); auto.
  - destruct (lock (sh s)); auto.
Qed.

Lemma nsess_mono_run nc sch s : inv nc s -> nsess (sh s) <= nsess (sh (crun (core nc) s sch)).
Proof.
  revert s; induction sch as [|e sch IH]; intros s Hi; cbn; [auto|].
  etransitivity; [apply (nsess_mono_step nc s e Hi) | apply IH, inv_step, Hi].
Qed.

(* ------------------------------------------------------------------------------------------------ lock discipline *)
Lemma step_in nc x i g : gpc g = PIn1 \/ gpc g = PIn2 ->
  exists x' g', gstep (core nc) x i g = Some (x', g') /\ (gpc g' = POut1 \/ gpc g' = POut2).
Proof.
  unfold gstep. cbn [sh_lock_first sh_ret_unlocked1 sh_ret_unlocked2 sh_guard sh_clear_stale core]. intros [P|P]; rewrite P; cbn [negb orb].
  - destruct (no_connection x); [destruct (reopen (core nc) x false) as [x1 [| | |]] | ]; eexists; eexists; (split; [reflexivity | cbn; auto]).
  - destruct (opt_eqb (sess x) (gsess g)); [destruct (reopen (core nc) x true) as [x1 [| | |]] | ]; eexists; eexists; (split; [reflexivity | cbn; auto]).
Qed.

Lemma step_out sp x i g : gpc g = POut1 \/ gpc g = POut2 -> exists g', gstep sp x i g = Some (set_lock x None, g').
Proof.
  unfold gstep. intros [P|P]; rewrite P; destruct (gerr g); eexists; reflexivity.
Qed.

Lemma cstep_go sp s i g x' g' :
  nth_error (gs s) i = Some g -> gstep sp (sh s) i g = Some (x', g') -> cstep sp s (SGo i) = {| sh := x'; gs := upd (gs s) i g' |}.
Proof. intros Hg St. cbn. rewrite Hg, St. reflexivity. Qed.

Lemma holds_cases p : holds p = true -> (p = PIn1 \/ p = PIn2) \/ (p = POut1 \/ p = POut2).
Proof. destruct p; cbn; intros H; try discriminate; auto. Qed.

Lemma lock_discipline nc s : reach nc s ->
  (forall i j gi gj, nth_error (gs s) i = Some gi -> nth_error (gs s) j = Some gj ->
                     holds (gpc gi) = true -> holds (gpc gj) = true -> i = j) /\
  (forall i, lock (sh s) = Some i <-> exists g, nth_error (gs s) i = Some g /\ holds (gpc g) = true) /\
  (forall i g, nth_error (gs s) i = Some g -> gpc g = PDone -> lock (sh s) <> Some i) /\
  (forall i, lock (sh s) = Some i ->
     exists g, nth_error (gs s) i = Some g /\ gstep (core nc) (sh s) i g <> None /\
       (lock (sh (crun (core nc) s [SGo i])) = None \/ lock (sh (crun (core nc) s [SGo i; SGo i])) = None)).
Proof.
  intros R. destruct (reach_inv nc s R) as (I & G & L).
  split; [|split; [|split]].
  - intros i j gi gj Hi Hj Hhi Hhj. destruct (G i gi Hi) as [Li _]. destruct (G j gj Hj) as [Lj _].
    specialize (Li Hhi). specialize (Lj Hhj). congruence.
  - intros i. split; [apply L|]. intros (g & Hg & Hh). destruct (G i g Hg) as [Li _]. auto.
  - intros i g Hg Hd Hl. destruct (L i Hl) as (g0 & Hg0 & Hh). rewrite Hg in Hg0. inversion Hg0; subst. rewrite Hd in Hh. discriminate.
  - intros i Hl. destruct (L i Hl) as (g & Hg & Hh). exists g. split; [exact Hg|].
    destruct (holds_cases _ Hh) as [Hin|Hout].
    + destruct (step_in nc (sh s) i g Hin) as (x' & g' & St & Hp'). split; [congruence|]. right.
      cbn [crun]. rewrite (cstep_go _ s i g x' g' Hg St).
      destruct (step_out (core nc) x' i g' Hp') as (g'' & St').
      assert (Hn : nth_error (gs {| sh := x'; gs := upd (gs s) i g' |}) i = Some g').
      { cbn. apply nth_error_upd_same. apply (nth_error_lt _ _ _ Hg). }
      rewrite (cstep_go _ _ i g' _ g'' Hn St'). reflexivity.
    + destruct (step_out (core nc) (sh s) i g Hout) as (g' & St). split; [congruence|]. left.
      cbn [crun]. rewrite (cstep_go _ s i g _ g' Hg St). reflexivity.
Qed.

(* ------------------------------------------------------------------------------------------------ one session *)
Definition live (x : shared) (id : nat) : Prop := 1 <= id <= nsess x /\ dead x id = false.

Lemma one_live_session nc s id : reach nc s -> live (sh s) id -> sess (sh s) = Some id.
Proof.
  intros R [Hr Hd]. destruct (reach_inv nc s R) as (I & _ & _).
  destruct (sess (sh s)) as [c|] eqn:Sx.
  - destruct (Nat.eq_dec c id) as [->|Hne]; [reflexivity|]. exfalso.
    assert (Hx : dead (sh s) id = true). { apply dead_spec. apply (i_live _ I id Hr). rewrite Sx. congruence. }
    congruence.
  - exfalso. assert (Hx : dead (sh s) id = true). { apply dead_spec. apply (i_live _ I id Hr). rewrite Sx. discriminate. }
    congruence.
Qed.

(* everything of the shared state but the lock and the environment *)
Definition core_of (x : shared) :=
  (must x, conn x, cclosed x, sess x, sup x, (cutmark x, closed x, phys x, nopen x, nfail x, ncut x, nshut x)).

Definition quiet_ev (e : sev) : bool := match e with SGo _ | SSpawn _ _ | SSetUp _ _ => true | _ => false end.

Definition settled (g : gor) (c : nat) : Prop :=
  gres g = CFwd \/ (goffered g = true /\ gres g = CStream c) \/ (goffered g = false /\ gres g = CErr ERefused).

Lemma live_not_dead x c : sinv x -> sess x = Some c -> cutmark x < c -> dead x c = false /\ replaceable x = false /\ no_connection x = false.
Proof.
  intros I Hs Hc. split; [|split].
  - destruct (dead x c) eqn:D; [|reflexivity]. pose proof (dead_current x c I Hs D). lia.
  - unfold replaceable. rewrite Hs. apply Nat.leb_gt. exact Hc.
  - unfold no_connection. pose proof (i_conn x I) as Hcn. rewrite Hs in Hcn. destruct (conn x); [|contradiction].
    destruct (cclosed x) eqn:Cc; [|reflexivity]. destruct (i_cclosed x I Cc) as (c' & Hs' & Hd). rewrite Hs in Hs'. inversion Hs'; subst. lia.
Qed.

Lemma gstep_quiet nc x i g x' g' c :
  sinv x -> ginv nc x i g -> sess x = Some c -> cutmark x < c -> gstep (core nc) x i g = Some (x', g') ->
  (exists l, x' = set_lock x l) /\ (gpc g' = PDone -> settled g' c).
Proof.
  intros I G Hs Hc H. destruct (live_not_dead x c I Hs Hc) as (Hd & Hr & Hn).
  split.
  - destruct (gstep_shape nc x i g x' g' I G H) as [Hl | (R & _)]; [exact Hl | congruence].
  - destruct G as [Hl Hp]. unfold gstep in H. cbn [sh_lock_first sh_ret_unlocked1 sh_ret_unlocked2 sh_guard sh_clear_stale core] in H.
    destruct (gpc g) eqn:P; cbn [negb orb] in H.
    + destruct (lock x); inversion H; subst; cbn; discriminate.
    + contradiction.
    + rewrite Hn in H. inversion H; subst; cbn; discriminate.
    + destruct Hp as [(He & _) | (_ & Hx)]; [|congruence]. rewrite He in H. inversion H; subst; cbn; discriminate.
    + unfold open_stream in H. cbn [sh_nil_check sh_fail_lost sh_refusal_local core] in H. rewrite Hs, Hd in H.
      destruct (goffered g) eqn:Of; [|unfold replace_cond in H; cbn in H]; inversion H; subst; cbn; intros _; unfold settled; cbn; auto.
    + destruct (lock x); inversion H; subst; cbn; discriminate.
    + destruct Hp as [Hu (c' & Hc' & Hr' & Hd')]. destruct (opt_eqb (sess x) (gsess g)) eqn:Gd.
      * exfalso. apply opt_eqb_eq in Gd. rewrite Hc', Hs in Gd. inversion Gd; subst c'.
        assert (dead x c = true) by (apply dead_spec; exact Hd'). congruence.
      * inversion H; subst; cbn; discriminate.
    + destruct Hp as [He | (_ & Hx)]; [|congruence]. rewrite He in H. inversion H; subst; cbn; discriminate.
    + unfold open_stream in H. cbn [sh_nil_check sh_fail_lost sh_refusal_local core] in H. rewrite Hs, Hd in H.
      destruct (goffered g) eqn:Of; inversion H; subst; cbn; intros _; unfold settled; cbn; auto.
    + discriminate.
Qed.

Lemma done_stays sp s e i g : nth_error (gs s) i = Some g -> gpc g = PDone -> nth_error (gs (cstep sp s e)) i = Some g.
Proof.
  intros Hg Hd. destruct e as [k | f offered | | | k b | ]; cbn [cstep]; auto.
  - destruct (nth_error (gs s) k) as [h|] eqn:Nk; [|exact Hg].
    destruct (gstep sp (sh s) k h) as [[x' h']|] eqn:St; [|exact Hg]. cbn.
    destruct (Nat.eq_dec k i) as [->|Hne]; [|rewrite nth_error_upd_other by exact Hne; exact Hg].
    rewrite Hg in Nk. inversion Nk; subst h. unfold gstep in St. rewrite Hd in St. discriminate.
  - cbn. rewrite nth_error_app1; [exact Hg | apply (nth_error_lt _ _ _ Hg)].
  - destruct (sess (sh s)) as [id|]; [|exact Hg]. destruct (id <=? cutmark (sh s)); exact Hg.
  - destruct (lock (sh s)); exact Hg.
Qed.

Lemma done_stays_run sp sch s i g : nth_error (gs s) i = Some g -> gpc g = PDone -> nth_error (gs (crun sp s sch)) i = Some g.
Proof. revert s; induction sch as [|e sch IH]; intros s Hg Hd; cbn; [exact Hg | apply IH; [apply done_stays; assumption | exact Hd]]. Qed.

Lemma step_quiet nc s e c :
  inv nc s -> sess (sh s) = Some c -> cutmark (sh s) < c -> quiet_ev e = true ->
  let s1 := cstep (core nc) s e in
  core_of (sh s1) = core_of (sh s) /\
  forall i g1, nth_error (gs s1) i = Some g1 -> gpc g1 = PDone -> (forall g, nth_error (gs s) i = Some g -> gpc g <> PDone) -> settled g1 c.
Proof.
  intros (I & G & L) Hs Hc He. destruct e as [k | f offered | | | k b | ]; try discriminate; cbn [cstep].
  - destruct (nth_error (gs s) k) as [h|] eqn:Nk.
    2:{ split; [reflexivity|]. intros i g1 Hg1 Hd Hn. exfalso. apply (Hn g1 Hg1 Hd). }
    destruct (gstep (core nc) (sh s) k h) as [[x' h']|] eqn:St.
    2:{ split; [reflexivity|]. intros i g1 Hg1 Hd Hn. exfalso. apply (Hn g1 Hg1 Hd). }
    destruct (gstep_quiet nc (sh s) k h x' h' c I (G k h Nk) Hs Hc St) as ((l & ->) & Hq).
    split; [reflexivity|]. cbn [gs]. intros i g1 Hg1 Hd Hn.
    destruct (Nat.eq_dec k i) as [<-|Hne].
    + rewrite nth_error_upd_same in Hg1 by apply (nth_error_lt _ _ _ Nk). inversion Hg1; subst. auto.
    + rewrite nth_error_upd_other in Hg1 by exact Hne. exfalso. apply (Hn g1 Hg1 Hd).
  - split; [reflexivity|]. cbn [gs]. intros i g1 Hg1 Hd Hn.
    destruct (Nat.lt_ge_cases i (List.length (gs s))) as [Hlt|Hge].
    + rewrite nth_error_app1 in Hg1 by exact Hlt. exfalso. apply (Hn g1 Hg1 Hd).
    + rewrite nth_error_app2 in Hg1 by exact Hge.
      destruct (i - List.length (gs s)) as [|d]; cbn in Hg1; [|destruct d; discriminate].
      inversion Hg1; subst. destruct f; cbn in Hd; try discriminate. left. reflexivity.
  - split; [reflexivity|]. cbn [gs]. intros i g1 Hg1 Hd Hn. exfalso. apply (Hn g1 Hg1 Hd).
Qed.

Lemma core_of_live x x' c : core_of x' = core_of x -> sess x = Some c -> cutmark x < c -> sess x' = Some c /\ cutmark x' < c.
Proof. unfold core_of. intros E Hs Hc. inversion E. split; congruence. Qed.

Lemma quiet_run nc sch s c :
  inv nc s -> sess (sh s) = Some c -> cutmark (sh s) < c -> forallb quiet_ev sch = true ->
  let s' := crun (core nc) s sch in
  core_of (sh s') = core_of (sh s) /\
  forall i g', nth_error (gs s') i = Some g' -> gpc g' = PDone -> (forall g, nth_error (gs s) i = Some g -> gpc g <> PDone) -> settled g' c.
Proof.
  revert s; induction sch as [|e sch IH]; intros s Hi Hs Hc Hq; cbn [crun].
  - split; [reflexivity|]. intros i g' Hg Hd Hn. exfalso. apply (Hn g' Hg Hd).
  - cbn in Hq. apply andb_true_iff in Hq. destruct Hq as [He Hq].
    destruct (step_quiet nc s e c Hi Hs Hc He) as [Hco Hst]. cbn zeta in Hco, Hst.
    destruct (core_of_live _ _ c Hco Hs Hc) as [Hs1 Hc1].
    destruct (IH (cstep (core nc) s e) (inv_step nc s e Hi) Hs1 Hc1 Hq) as [Hco' Hst']. cbn zeta in Hco', Hst'.
    split; [congruence|]. intros i g' Hg Hd Hn.
    destruct (nth_error (gs (cstep (core nc) s e)) i) as [g1|] eqn:N1.
    + destruct (gpc g1) eqn:P1; try (apply (Hst' i g' Hg Hd); intros g0 Hg0; rewrite N1 in Hg0; inversion Hg0; subst; congruence).
      pose proof (done_stays_run (core nc) sch _ i g1 N1 P1) as Hk. rewrite Hg in Hk. inversion Hk; subst g'.
      apply (Hst i g1 N1 P1 Hn).
    + apply (Hst' i g' Hg Hd). intros g0 Hg0. rewrite N1 in Hg0. discriminate.
Qed.

(* ------------------------------------------------------------------------------------------------ transparent re-establishment *)
Definition go_spawn (e : sev) : bool := match e with SGo _ | SSpawn _ _ => true | _ => false end.

Definition live_cur (x : shared) : Prop := exists c, sess x = Some c /\ cutmark x < c.

(* what holds of a goroutine that entered Connect after the observation started, while a good upstream is there and nothing is cut *)
Definition fok (x : shared) (g : gor) : Prop :=
  match gpc g with
  | PStart | PIn1 | PWait1 => True
  | POut1 => gerr g = ENil /\ (greused g = false -> live_cur x)
  | POpen1 => (exists c0, gsess g = Some c0 /\ (sess x = Some c0 \/ live_cur x)) /\ (greused g = false -> live_cur x)
  | PLock2 | PIn2 => exists c0, gsess g = Some c0 /\ (sess x = Some c0 \/ live_cur x)
  | POut2 => gerr g = ENil /\ live_cur x
  | POpen2 => live_cur x
  | PDone => gres g = CFwd \/ (goffered g = false /\ gres g = CErr ERefused) \/
             (exists y, gres g = CStream y /\ sess x = Some y /\ cutmark x < y)
  end.

Definition compat (x x' : shared) : Prop :=
  (forall c, sess x = Some c -> sess x' = Some c \/ live_cur x') /\ (live_cur x -> sess x' = sess x /\ cutmark x' = cutmark x).

Lemma compat_live x x' : compat x x' -> live_cur x -> live_cur x'.
Proof. intros [_ H] L. destruct (H L) as [Hs Hc]. destruct L as (c & Sc & Lc). exists c. split; congruence. Qed.

Lemma compat_set_lock x l : compat x (set_lock x l).
Proof. split; cbn; auto. Qed.

Lemma fok_frame x x' g : fok x g -> compat x x' -> fok x' g.
Proof.
  intros H C. pose proof (compat_live x x' C) as CL. destruct C as [C1 C2]. unfold fok in *. destruct (gpc g); auto.
  - destruct H as [He Hr]. split; auto.
  - destruct H as [(c0 & Hg & Hs) Hr]. split; [|auto]. exists c0. split; [exact Hg|]. destruct Hs as [Hs|Hs]; [apply (C1 c0 Hs) | right; auto].
  - destruct H as (c0 & Hg & Hs). exists c0. split; [exact Hg|]. destruct Hs as [Hs|Hs]; [apply (C1 c0 Hs) | right; auto].
  - destruct H as (c0 & Hg & Hs). exists c0. split; [exact Hg|]. destruct Hs as [Hs|Hs]; [apply (C1 c0 Hs) | right; auto].
  - destruct H as [He Hl]. split; auto.
  - destruct H as [H | [H | (y & Hy & Hs & Hc)]]; auto. right; right. exists y.
    destruct (C2 (ex_intro _ y (conj Hs Hc))) as [E1 E2]. split; [exact Hy|]. split; congruence.
Qed.

(* with a good upstream a re-open succeeds: afterwards the current session is a new, live one on that upstream *)
Lemma reopen_good nc x close j t :
  sinv x -> open_from (must x) (ups x) 0 = (Some j, t) ->
  let x' := fst (reopen (core nc) x close) in
  snd (reopen (core nc) x close) = ENil /\ sess x' = Some (S (nsess x)) /\ live_cur x' /\ sup x' = sup x ++ [j] /\ phys x' = phys x ++ t /\
  must x' = must x /\ ups x' = ups x.
Proof.
  intros I Hg. destruct (reopen_frame nc x close) as (Fm & Fu & _ & Fc & _).
  destruct (reopen_cases nc x close) as [(j' & t' & Ho & He & Hx) | (t' & Ho & _)]; [|congruence].
  rewrite Hg in Ho. inversion Ho; subst j' t'. cbn zeta in *. destruct Hx as (_ & _ & Hs & Hsup & Hph & _).
  repeat split; auto. exists (S (nsess x)). split; [exact Hs|]. rewrite Fc. pose proof (i_cut x I). lia.
Qed.

Lemma not_live_replaceable x : replaceable x = true -> live_cur x -> False.
Proof. unfold replaceable. intros R (c & Hs & Hc). rewrite Hs in R. apply Nat.leb_le in R. lia. Qed.

(* any goroutine's step, while a good upstream is there *)
Lemma gstep_calm nc x i g x' g' j t :
  sinv x -> ginv nc x i g -> open_from (must x) (ups x) 0 = (Some j, t) -> gstep (core nc) x i g = Some (x', g') ->
  compat x x' /\ must x' = must x /\ ups x' = ups x /\
  ((sup x' = sup x /\ phys x' = phys x) \/ (replaceable x = true /\ sup x' = sup x ++ [j] /\ phys x' = phys x ++ t)).
Proof.
  intros I G Hg H. destruct (gstep_shape nc x i g x' g' I G H) as [(l & ->) | (R & close & ->)].
  - split; [apply compat_set_lock|]. cbn. auto.
  - destruct (reopen_good nc x close j t I Hg) as (_ & Hs & Hl & Hsup & Hph & Hm & Hu). cbn zeta in *.
    split; [|auto 6]. split.
    + intros c _. right. exact Hl.
    + intros L. exfalso. apply (not_live_replaceable x R L).
Qed.

(* the step of a goroutine that entered after the observation started *)
Lemma gstep_fok nc x i g x' g' j t :
  sinv x -> ginv nc x i g -> fok x g -> open_from (must x) (ups x) 0 = (Some j, t) -> gstep (core nc) x i g = Some (x', g') -> fok x' g'.
Proof.
  intros I [Hl Hp] F Hg H. unfold gstep in H. cbn [sh_lock_first sh_ret_unlocked1 sh_ret_unlocked2 sh_guard sh_clear_stale core] in H.
  unfold fok in F. destruct (gpc g) eqn:P; cbn [negb orb] in H.
  - destruct (lock x); inversion H; subst. cbn. exact Logic.I.
  - contradiction.
  - destruct (no_connection x) eqn:NC.
    + destruct (reopen_good nc x false j t I Hg) as (He & Hs & Hlv & _). cbn zeta in *.
      destruct (reopen (core nc) x false) as [x1 e1]. cbn [fst snd] in *. subst e1. inversion H; subst. unfold fok; cbn. auto.
    + inversion H; subst. unfold fok; cbn. split; [reflexivity | discriminate].
  - destruct F as [He Hr]. rewrite He in H. inversion H; subst. unfold fok; cbn.
    destruct Hp as [(_ & Hs & Hn) | (He' & _)]; [|congruence].
    split; [|exact Hr]. destruct (sess x) as [c0|] eqn:Sx; [|congruence]. exists c0. auto.
  - destruct F as [(c0 & Hc0 & Hs) Hr].
    assert (Hsome : exists c, sess x = Some c /\ (c = c0 \/ live_cur x)).
    { destruct Hs as [Hs | (c & Hs & Hc)]; [exists c0; auto | exists c; split; [exact Hs | right; exists c; auto]]. }
    destruct Hsome as (c & Sx & Hcc).
    unfold open_stream in H. cbn [sh_nil_check sh_fail_lost sh_refusal_local core] in H. rewrite Sx in H.
    destruct (dead x c) eqn:D.
    + pose proof (dead_current x c I Sx D) as Hd.
      assert (NL : ~ live_cur x). { intros (c' & Hs' & Hc'). rewrite Sx in Hs'. inversion Hs'; subst. lia. }
      destruct (greused g) eqn:U; [|exfalso; apply NL; auto].
      unfold replace_cond in H. cbn in H. inversion H; subst. unfold fok; cbn. exists c0. split; [exact Hc0|].
      destruct Hcc as [->|Hcc]; [left; exact Sx | contradiction].
    + assert (Hlt : cutmark x < c).
      { destruct (Nat.lt_ge_cases (cutmark x) c) as [Hlt|Hge]; [exact Hlt|]. exfalso.
        assert (dead x c = true) by (apply dead_spec; left; exact Hge). congruence. }
      destruct (goffered g) eqn:Of; [|unfold replace_cond in H; cbn in H]; inversion H; subst; unfold fok; cbn.
      * right; right. exists c. auto.
      * right; left. auto.
  - destruct (lock x); inversion H; subst. unfold fok; cbn. exact F.
  - destruct F as (c0 & Hc0 & Hs). destruct (opt_eqb (sess x) (gsess g)) eqn:Gd.
    + destruct (reopen_good nc x true j t I Hg) as (He & Hs' & Hlv & _). cbn zeta in *.
      destruct (reopen (core nc) x true) as [x1 e1]. cbn [fst snd] in *. subst e1. inversion H; subst. unfold fok; cbn. auto.
    + inversion H; subst. unfold fok; cbn. split; [reflexivity|].
      destruct Hs as [Hs|Hs]; [|exact Hs]. exfalso. rewrite Hs, Hc0 in Gd. cbn in Gd. rewrite Nat.eqb_refl in Gd. discriminate.
  - destruct F as [He Hlv]. rewrite He in H. inversion H; subst. unfold fok; cbn. exact Hlv.
  - destruct F as (c & Sx & Hc). destruct (live_not_dead x c I Sx Hc) as (Hd & _ & _).
    unfold open_stream in H. cbn [sh_nil_check sh_fail_lost sh_refusal_local core] in H. rewrite Sx, Hd in H.
    destruct (goffered g) eqn:Of; inversion H; subst; unfold fok; cbn.
    + right; right. exists c. auto.
    + right; left. auto.
  - discriminate.
Qed.

(* the state of a calm run relative to where it started (x0): the same sessions, or exactly one more, on the good upstream *)
Definition one_more (x0 x : shared) (j : nat) (t : list nat) : Prop :=
  must x = must x0 /\ ups x = ups x0 /\ phi x = phi x0 /\
  ((sup x = sup x0 /\ phys x = phys x0) \/ (replaceable x0 = true /\ sup x = sup x0 ++ [j] /\ phys x = phys x0 ++ t)).

Lemma calm_run nc sch : forall s x0 j t (F : nat -> Prop),
  inv nc s -> open_from (must x0) (ups x0) 0 = (Some j, t) -> forallb go_spawn sch = true ->
  one_more x0 (sh s) j t ->
  (forall i g, nth_error (gs s) i = Some g -> F i -> fok (sh s) g) ->
  (forall i, List.length (gs s) <= i -> F i) ->
  let s' := crun (core nc) s sch in
  inv nc s' /\ one_more x0 (sh s') j t /\ (forall i g, nth_error (gs s') i = Some g -> F i -> fok (sh s') g).
Proof.
  induction sch as [|e sch IH]; intros s x0 j t F Hi Hg Hq Hm Hf HF; cbn [crun]; [auto|].
  cbn in Hq. apply andb_true_iff in Hq. destruct Hq as [He Hq].
  assert (Hstep : inv nc (cstep (core nc) s e) /\ one_more x0 (sh (cstep (core nc) s e)) j t /\
                  (forall i g, nth_error (gs (cstep (core nc) s e)) i = Some g -> F i -> fok (sh (cstep (core nc) s e)) g) /\
                  (forall i, List.length (gs (cstep (core nc) s e)) <= i -> F i)).
  { split; [apply inv_step; exact Hi|].
    pose proof Hi as (I & G & L). destruct Hm as (Mm & Mu & Mp & Md).
    destruct e as [k | f offered | | | k b | ]; try discriminate; cbn [cstep].
    - destruct (nth_error (gs s) k) as [h|] eqn:Nk; [|repeat split; auto].
      destruct (gstep (core nc) (sh s) k h) as [[x' h']|] eqn:St; [|repeat split; auto].
      assert (Hg' : open_from (must (sh s)) (ups (sh s)) 0 = (Some j, t)) by (rewrite Mm, Mu; exact Hg).
      destruct (gstep_calm nc (sh s) k h x' h' j t I (G k h Nk) Hg' St) as (C & Cm & Cu & Cd).
      cbn [sh gs]. split; [|split].
      + split; [congruence|]. split; [congruence|]. split; [rewrite <- Mp; apply (gstep_phi nc (sh s) k h x' h' I (G k h Nk) St)|].
        destruct Cd as [(Cs & Cp) | (R & Cs & Cp)]; [destruct Md as [(Ms & Mph) | (R0 & Ms & Mph)]; [left | right]; split; try split; congruence|].
        destruct Md as [(Ms & Mph) | (R0 & Ms & Mph)].
        * right. (* the one re-open: x0 itself was replaceable *)
          assert (R0 : replaceable x0 = true).
          { destruct (replaceable x0) eqn:E; [reflexivity|]. exfalso. unfold phi in Mp. rewrite R, E in Mp. unfold nsess in Mp. rewrite Ms in Mp. lia. }
          split; [exact R0|]. split; congruence.
        * exfalso. unfold phi in Mp. rewrite R, R0 in Mp. unfold nsess in Mp. rewrite Ms, app_length in Mp. cbn in Mp. lia.
      + intros i g Hgi Fi. destruct (Nat.eq_dec k i) as [<-|Hne].
        * rewrite nth_error_upd_same in Hgi by apply (nth_error_lt _ _ _ Nk). inversion Hgi; subst.
          apply (gstep_fok nc (sh s) k h x' g j t I (G k h Nk) (Hf k h Nk Fi) Hg' St).
        * rewrite nth_error_upd_other in Hgi by exact Hne. apply (fok_frame (sh s) x' g (Hf i g Hgi Fi) C).
      + intros i Hlen. rewrite upd_length in Hlen. auto.
    - cbn [sh gs]. split; [repeat split; auto|]. split.
      + intros i g Hgi Fi. destruct (Nat.lt_ge_cases i (List.length (gs s))) as [Hlt|Hge].
        * rewrite nth_error_app1 in Hgi by exact Hlt. apply (Hf i g Hgi Fi).
        * rewrite nth_error_app2 in Hgi by exact Hge.
          destruct (i - List.length (gs s)) as [|d]; cbn in Hgi; [|destruct d; discriminate].
          inversion Hgi; subst. destruct f; unfold fok; cbn; auto.
      + intros i Hlen. rewrite app_length in Hlen. cbn in Hlen. apply HF. lia. }
  destruct Hstep as (Hi1 & Hm1 & Hf1 & HF1).
  apply (IH (cstep (core nc) s e) x0 j t F Hi1 Hg Hq Hm1 Hf1 HF1).
Qed.

Lemma reconnect_concurrent nc s sch j t :
  reach nc s -> open_from (must (sh s)) (ups (sh s)) 0 = (Some j, t) -> forallb go_spawn sch = true ->
  let s' := crun (core nc) s sch in
  forall i g', nth_error (gs s') i = Some g' -> gpc g' = PDone ->
    (forall g, nth_error (gs s) i = Some g -> gpc g = PStart) ->
    gres g' = CFwd \/ (goffered g' = false /\ gres g' = CErr ERefused) \/
    (exists y, gres g' = CStream y /\ sess (sh s') = Some y /\ cutmark (sh s') < y /\
       (replaceable (sh s) = true ->
          y = S (nsess (sh s)) /\ nth_error (sup (sh s')) (y - 1) = Some j /\ phys (sh s') = phys (sh s) ++ t /\ sup (sh s') = sup (sh s) ++ [j]) /\
       (replaceable (sh s) = false -> sess (sh s) = Some y /\ phys (sh s') = phys (sh s) /\ sup (sh s') = sup (sh s))).
Proof.
  intros R Hg Hq s' i g' Hgi Hd Hfresh.
  pose proof (reach_inv nc s R) as Hi.
  set (F := fun k => forall g, nth_error (gs s) k = Some g -> gpc g = PStart).
  destruct (calm_run nc sch s (sh s) j t F Hi Hg Hq) as (Hi' & Hm & Hf).
  - repeat split; auto.
  - intros k g Hk Fk. unfold fok. rewrite (Fk g Hk). exact Logic.I.
  - intros k Hlen g Hk. apply nth_error_lt in Hk. lia.
  - fold s' in Hi', Hm, Hf. specialize (Hf i g' Hgi Hfresh). unfold fok in Hf. rewrite Hd in Hf.
    destruct Hf as [H | [H | (y & Hy & Hs & Hc)]]; auto. right; right. exists y.
    split; [exact Hy|]. split; [exact Hs|]. split; [exact Hc|].
    destruct Hi' as (I' & _ & _). destruct Hi as (I & _ & _).
    destruct (i_sess _ I' y Hs) as [Hyn _].
    assert (R' : replaceable (sh s') = false) by (unfold replaceable; rewrite Hs; apply Nat.leb_gt; exact Hc).
    destruct Hm as (_ & _ & Mp & Md). unfold phi in Mp. rewrite R' in Mp.
    split; intros R0; rewrite R0 in Mp.
    + destruct Md as [(Ms & Mph) | (_ & Ms & Mph)]; [exfalso; unfold nsess in Mp; rewrite Ms in Mp; lia|].
      split; [lia|]. split; [|auto]. rewrite Ms, Hyn. unfold nsess. rewrite Ms, app_length. cbn.
      replace (List.length (sup (sh s)) + 1 - 1) with (List.length (sup (sh s))) by lia. apply nth_error_last.
    + destruct Md as [(Ms & Mph) | (R1 & _)]; [|congruence]. split; [|auto].
      unfold replaceable in R0. destruct (sess (sh s)) as [c|] eqn:Sx; [|discriminate].
      destruct (i_sess _ I c Sx) as [Hcn _]. f_equal. lia.
Qed.

(* ------------------------------------------------------------------------------------------------ one connection after the other: Policy.v *)
Fixpoint solo (sp : shape) (x : shared) (i : nat) (g : gor) (n : nat) : shared * gor :=
  match n with
  | O => (x, g)
  | S n' => match gstep sp x i g with Some (x', g') => solo sp x' i g' n' | None => (x, g) end
  end.

Lemma crun_solo sp l n : forall x g,
  crun sp {| sh := x; gs := l ++ [g] |} (repeat (SGo (List.length l)) n) =
  let (x', g') := solo sp x (List.length l) g n in {| sh := x'; gs := l ++ [g'] |}.
Proof.
  induction n as [|n IH]; intros x g; cbn [repeat crun solo]; [reflexivity|].
  cbn [cstep sh gs]. rewrite nth_error_last.
  destruct (gstep sp x (List.length l) g) as [[x' g']|] eqn:St.
  - rewrite upd_last. apply IH.
  - rewrite IH. destruct n; cbn [solo]; [reflexivity | rewrite St; reflexivity].
Qed.

Lemma solo_S sp x i g n x' g' : gstep sp x i g = Some (x', g') -> solo sp x i g (S n) = solo sp x' i g' n.
Proof. intros H. cbn [solo]. rewrite H. reflexivity. Qed.
Lemma solo_done sp x i g n : gpc g = PDone -> solo sp x i g n = (x, g).
Proof. intros H. destruct n; cbn [solo]; [reflexivity|]. unfold gstep. rewrite H. reflexivity. Qed.

(* single steps, as equations *)
Lemma st_lock1 nc x i g : lock x = None -> gpc g = PStart -> gstep (core nc) x i g = Some (set_lock x (Some i), g_at g PIn1).
Proof. intros L P. unfold gstep. rewrite P. cbn. rewrite L. reflexivity. Qed.
Lemma st_in1_reuse nc x i g : gpc g = PIn1 -> no_connection x = false ->
  gstep (core nc) x i g = Some (x, {| gpc := POut1; goffered := goffered g; greused := true; gsess := sess x; gerr := ENil; gres := gres g |}).
Proof. intros P N. unfold gstep. rewrite P. cbn. rewrite N. reflexivity. Qed.
Lemma st_in1_open nc x i g : gpc g = PIn1 -> no_connection x = true ->
  gstep (core nc) x i g = Some (fst (reopen (core nc) x false),
    {| gpc := POut1; goffered := goffered g; greused := false; gsess := sess (fst (reopen (core nc) x false));
       gerr := snd (reopen (core nc) x false); gres := gres g |}).
Proof. intros P N. unfold gstep. rewrite P. cbn. rewrite N. destruct (reopen (core nc) x false) as [x1 [| | |]]; reflexivity. Qed.
Lemma st_out_ok sp x i g : gpc g = POut1 \/ gpc g = POut2 -> gerr g = ENil -> sh_lock_first sp = true ->
  gstep sp x i g = Some (set_lock x None, g_at g (match gpc g with POut1 => POpen1 | _ => POpen2 end)).
Proof. intros [P|P] E Lf; unfold gstep; rewrite P, E; [rewrite Lf|]; reflexivity. Qed.
Lemma st_out_err sp x i g : gpc g = POut1 \/ gpc g = POut2 -> gerr g = EOpen -> sh_lock_first sp = true ->
  gstep sp x i g = Some (set_lock x None, g_done g (CErr EOpen)).
Proof. intros [P|P] E Lf; unfold gstep; rewrite P, E; [rewrite Lf|]; reflexivity. Qed.
Lemma st_open1_stream sp x i g id : gpc g = POpen1 -> open_stream sp x (goffered g) = OStream id -> gstep sp x i g = Some (x, g_done g (CStream id)).
Proof. intros P O. unfold gstep. rewrite P, O. reflexivity. Qed.
Lemma st_open1_lost nc x i g e : gpc g = POpen1 -> open_stream (core nc) x (goffered g) = OFail true e -> greused g = true ->
  gstep (core nc) x i g = Some (x, {| gpc := PLock2; goffered := goffered g; greused := greused g; gsess := gsess g; gerr := e; gres := gres g |}).
Proof. intros P O U. unfold gstep. rewrite P, O. unfold replace_cond. rewrite U. reflexivity. Qed.
Lemma st_lock2 sp x i g : lock x = None -> gpc g = PLock2 -> gstep sp x i g = Some (set_lock x (Some i), g_at g PIn2).
Proof. intros L P. unfold gstep. rewrite P, L. reflexivity. Qed.
Lemma st_in2_replace nc x i g : gpc g = PIn2 -> sess x = gsess g ->
  gstep (core nc) x i g = Some (fst (reopen (core nc) x true),
    {| gpc := POut2; goffered := goffered g; greused := greused g; gsess := gsess g; gerr := snd (reopen (core nc) x true); gres := gres g |}).
Proof.
  intros P G. unfold gstep. rewrite P. cbn. assert (E : opt_eqb (sess x) (gsess g) = true) by (apply opt_eqb_eq; exact G). rewrite E.
  destruct (reopen (core nc) x true) as [x1 [| | |]]; reflexivity.
Qed.
Lemma st_open2 sp x i g : gpc g = POpen2 ->
  gstep sp x i g = Some (x, g_done g (match open_stream sp x (goffered g) with OStream id => CStream id | OPanic => CPanic | OFail _ e => CErr e end)).
Proof. intros P. unfold gstep. rewrite P. destruct (open_stream sp x (goffered g)); reflexivity. Qed.

Lemma reopen_set_lock sp x l close :
  reopen sp (set_lock x l) close = (set_lock (fst (reopen sp x close)) l, snd (reopen sp x close)).
Proof. unfold reopen. cbn. destruct (open_loop _ _ _ _) as [[j|] t]; reflexivity. Qed.

Lemma set_lock_twice x a b : set_lock (set_lock x a) b = set_lock x b.
Proof. reflexivity. Qed.
Lemma set_lock_none x : lock x = None -> set_lock x None = x.
Proof. intros H. rewrite <- H. apply set_lock_id. Qed.

Lemma open_stream_live sp x c : sess x = Some c -> dead x c = false -> open_stream sp x true = OStream c.
Proof. intros S D. unfold open_stream. rewrite S, D. reflexivity. Qed.
Lemma open_stream_dead nc x c : sess x = Some c -> dead x c = true -> open_stream (core nc) x true = OFail true ELost.
Proof. intros S D. unfold open_stream. rewrite S, D. reflexivity. Qed.

Ltac side := solve [ reflexivity | eassumption | left; reflexivity | right; reflexivity
                   | apply open_stream_live; eassumption | apply open_stream_dead; eassumption ].
Ltac sstep lem := erewrite solo_S by (eapply lem; side).

(* Connect run alone, from a state in which the lock is free: the three ways it can go *)
Lemma solo_reuse nc x i c :
  lock x = None -> no_connection x = false -> sess x = Some c -> dead x c = false ->
  exists g', solo (core nc) x i (g_new true) 9 = (x, g') /\ gres g' = CStream c.
Proof.
  intros L N Sx D. eexists.
  sstep st_lock1. sstep st_in1_reuse. sstep st_out_ok.
  rewrite set_lock_twice, (set_lock_none x L). cbn [gpc].
  sstep st_open1_stream.
  rewrite solo_done by reflexivity. split; reflexivity.
Qed.

Definition final_res (sp : shape) (x1 : shared) (e : cerr) : cres :=
  match e with
  | ENil => match open_stream sp x1 true with OStream id => CStream id | OPanic => CPanic | OFail _ e' => CErr e' end
  | e' => CErr e'
  end.

Lemma reopen_err nc x close : snd (reopen (core nc) x close) = ENil \/ snd (reopen (core nc) x close) = EOpen.
Proof. destruct (reopen_cases nc x close) as [(j & t & _ & He & _) | (t & _ & He & _)]; auto. Qed.

Lemma solo_open nc x i :
  lock x = None -> no_connection x = true ->
  exists g', solo (core nc) x i (g_new true) 9 = (fst (reopen (core nc) x false), g') /\
             gres g' = final_res (core nc) (fst (reopen (core nc) x false)) (snd (reopen (core nc) x false)).
Proof.
  intros L N. set (x1 := fst (reopen (core nc) x false)).
  assert (L1 : lock x1 = None) by (destruct (reopen_frame nc x false) as (_ & _ & Fl & _); unfold x1; congruence).
  assert (Pre : forall n, solo (core nc) x i (g_new true) (S (S n)) =
                solo (core nc) (set_lock x1 (Some i)) i
                  {| gpc := POut1; goffered := true; greused := false; gsess := sess x1; gerr := snd (reopen (core nc) x false); gres := CNone |} n).
  { intros n. sstep st_lock1. sstep st_in1_open. rewrite reopen_set_lock. reflexivity. }
  rewrite Pre. unfold final_res.
  destruct (reopen_err nc x false) as [E|E]; rewrite E.
  - destruct (open_stream (core nc) x1 true) as [id|lost e|] eqn:O; eexists;
      (sstep st_out_ok; rewrite set_lock_twice, (set_lock_none x1 L1); cbn [gpc]).
    + sstep st_open1_stream. rewrite solo_done by reflexivity. split; reflexivity.
    + (* the goroutine opened the session itself: reused is false, no replacement *)
      erewrite solo_S.
      2:{ unfold gstep. cbn [gpc g_at goffered greused]. rewrite O. unfold replace_cond. cbn [greused g_at sh_repl_lost sh_repl_reused core negb orb].
          rewrite andb_false_r. reflexivity. }
      rewrite solo_done by reflexivity. split; reflexivity.
    + erewrite solo_S.
      2:{ unfold gstep. cbn [gpc g_at goffered greused]. rewrite O. reflexivity. }
      rewrite solo_done by reflexivity. split; reflexivity.
  - eexists. sstep st_out_err. rewrite set_lock_twice, (set_lock_none x1 L1). rewrite solo_done by reflexivity. split; reflexivity.
Qed.

Lemma solo_replace nc x i c :
  lock x = None -> no_connection x = false -> sess x = Some c -> dead x c = true ->
  exists g', solo (core nc) x i (g_new true) 9 = (fst (reopen (core nc) x true), g') /\
             gres g' = final_res (core nc) (fst (reopen (core nc) x true)) (snd (reopen (core nc) x true)).
Proof.
  intros L N Sx D. set (x1 := fst (reopen (core nc) x true)).
  assert (L1 : lock x1 = None) by (destruct (reopen_frame nc x true) as (_ & _ & Fl & _); unfold x1; congruence).
  assert (Pre : forall n, solo (core nc) x i (g_new true) (S (S (S (S (S (S n)))))) =
                solo (core nc) (set_lock x1 (Some i)) i
                  {| gpc := POut2; goffered := true; greused := true; gsess := Some c; gerr := snd (reopen (core nc) x true); gres := CNone |} n).
  { intros n. sstep st_lock1. sstep st_in1_reuse. sstep st_out_ok.
    rewrite set_lock_twice, (set_lock_none x L). cbn [gpc].
    erewrite solo_S by (eapply st_open1_lost; [reflexivity | cbn; apply (open_stream_dead nc x c Sx D) | reflexivity]).
    sstep st_lock2.
    erewrite solo_S by (eapply st_in2_replace; reflexivity).
    rewrite reopen_set_lock. cbn. rewrite Sx. reflexivity. }
  rewrite Pre. unfold final_res.
  destruct (reopen_err nc x true) as [E|E]; rewrite E; eexists.
  - sstep st_out_ok. rewrite set_lock_twice, (set_lock_none x1 L1). cbn [gpc].
    sstep st_open2. rewrite solo_done by reflexivity. split; reflexivity.
  - sstep st_out_err. rewrite set_lock_twice, (set_lock_none x1 L1). rewrite solo_done by reflexivity. split; reflexivity.
Qed.

Definition srel (p : Policy.st) (s : cst) : Prop :=
  sinv (sh s) /\ lock (sh s) = None /\ cclosed (sh s) = false /\ Policy.phys p = phys (sh s) /\
  match Policy.session p, Policy.alive p with
  | Some i, true => exists c, sess (sh s) = Some c /\ cutmark (sh s) < c /\ nth_error (sup (sh s)) (c - 1) = Some i
  | Some i, false => exists c, sess (sh s) = Some c /\ c <= cutmark (sh s)
  | None, _ => sess (sh s) = None
  end.

Lemma nth_of_nth_error {A} (l : list A) n a d : nth_error l n = Some a -> nth n l d = a.
Proof. revert n; induction l as [|b l IH]; intros [|n] H; cbn in *; try discriminate; [congruence | auto]. Qed.

Lemma sinv_inv_nil nc x : sinv x -> lock x = None -> inv nc {| sh := x; gs := [] |}.
Proof.
  intros I L. split; [exact I|]. split; cbn.
  - intros [|i] g H; discriminate.
  - intros i H. congruence.
Qed.

(* the re-open as Policy.v sees it *)
Lemma reopen_rel nc x close l (p : Policy.st) :
  sinv x -> replaceable x = true -> lock x = None -> Policy.phys p = phys x ->
  let x1 := fst (reopen (core nc) x close) in
  let r := final_res (core nc) x1 (snd (reopen (core nc) x close)) in
  must x1 = must x /\ ups x1 = ups x /\
  match open_from (must x) (ups x) 0 with
  | (Some j, t) => res_of x1 r = RUp j /\ srel {| session := Some j; alive := true; Policy.phys := Policy.phys p ++ t |} {| sh := x1; gs := l |}
  | (None, t) => res_of x1 r = RFail /\ srel {| session := None; alive := false; Policy.phys := Policy.phys p ++ t |} {| sh := x1; gs := l |}
  end.
Proof.
  intros I R L Ph x1 r.
  pose proof (reopen_sinv nc x close I R) as I1. fold x1 in I1.
  destruct (reopen_frame nc x close) as (Fm & Fu & Fl & Fc & _). fold x1 in Fm, Fu, Fl, Fc.
  split; [exact Fm|]. split; [exact Fu|].
  destruct (reopen_cases nc x close) as [(j & t & Ho & He & Hx) | (t & Ho & He & Hx)]; cbn zeta in Hx; fold x1 in Hx;
    destruct Hx as (Hconn & Hcc & Hs & Hsup & Hph & _); rewrite Ho; unfold r; rewrite He; unfold final_res.
  - assert (Hlt : cutmark x1 < S (nsess x)) by (rewrite Fc; pose proof (i_cut x I); lia).
    destruct (live_not_dead x1 _ I1 Hs Hlt) as (Hd & _ & _).
    rewrite (open_stream_live _ x1 _ Hs Hd).
    assert (Hn : nth_error (sup x1) (S (nsess x) - 1) = Some j).
    { rewrite Hsup. cbn. rewrite Nat.sub_0_r. apply nth_error_last. }
    split; [cbn [res_of]; rewrite (nth_of_nth_error _ _ _ 0 Hn); reflexivity|].
    split; [exact I1|]. cbn [sh Policy.phys session alive]. repeat split; try congruence.
    exists (S (nsess x)). auto.
  - split; [reflexivity|]. split; [exact I1|]. cbn [sh Policy.phys session alive]. repeat split; congruence.
Qed.

Lemma seq_step nc m f u p s e :
  srel p s -> must (sh s) = m -> ups (sh s) = u ->
  let (p1, r) := Policy.step m f u p e in
  let (s1, r') := seq_event (core nc) f s e in
  r' = r /\ srel p1 s1 /\ must (sh s1) = m /\ ups (sh s1) = u.
Proof.
  intros (I & Lk & Cc & Ph & Rel) Hm Hu. destruct e; cbn [Policy.step seq_event].
  - (* a local connection *)
    unfold connect_steps. cbn [cstep]. rewrite (crun_solo (core nc) (gs s) 9 (sh s)).
    assert (Hfwd : f = FOk \/ (f <> FOk /\ (match f with FOk => g_fwd true | _ => g_new true end) = g_new true)) by (destruct f; auto; right; split; congruence).
    destruct Hfwd as [-> | (Hf & ->)].
    + (* the forward address answers: nothing else happens *)
      rewrite solo_done by reflexivity. cbn [sh gs]. rewrite nth_error_last. cbn.
      split; [reflexivity|]. split; [|auto]. split; [exact I|]. auto.
    + assert (Hpol : forall A (a b : A), match f with FOk => a | _ => b end = b) by (intros; destruct f; congruence).
      rewrite Hpol.
      pose proof (i_conn _ I) as Ic.
      destruct (Policy.session p) as [pi|] eqn:Ps; [destruct (Policy.alive p) eqn:Pa|].
      * (* a live session: reuse *)
        destruct Rel as (c & Hs & Hc & Hup). destruct (live_not_dead _ c I Hs Hc) as (Hd & _ & Hn).
        destruct (solo_reuse nc (sh s) (List.length (gs s)) c Lk Hn Hs Hd) as (g' & -> & Hr).
        cbn [sh gs]. rewrite nth_error_last, Hr. cbn [res_of]. rewrite (nth_of_nth_error _ _ _ 0 Hup).
        split; [reflexivity|]. split; [|auto]. split; [exact I|]. cbn [sh]. repeat split; auto. rewrite Ps, Pa. exists c. auto.
      * (* the session is lost: replaced under the second lock *)
        destruct Rel as (c & Hs & Hc).
        assert (Hd : dead (sh s) c = true) by (apply dead_spec; auto).
        assert (Hn : no_connection (sh s) = false).
        { unfold no_connection. rewrite Hs in Ic. destruct (conn (sh s)); [exact Cc | contradiction]. }
        assert (R : replaceable (sh s) = true) by (unfold replaceable; rewrite Hs; apply Nat.leb_le; exact Hc).
        destruct (solo_replace nc (sh s) (List.length (gs s)) c Lk Hn Hs Hd) as (g' & -> & Hr).
        cbn [sh gs]. rewrite nth_error_last, Hr.
        destruct (reopen_rel nc (sh s) true (gs s ++ [g']) p I R Lk Ph) as (Fm & Fu & Hrel). cbn zeta in Hrel.
        rewrite Hm, Hu in Hrel. destruct (open_from m u 0) as [[j|] t]; destruct Hrel as [Hres Hsr];
          (split; [exact Hres|]); (split; [exact Hsr|]); cbn [sh]; split; congruence.
      * (* no session: opened under the first lock *)
        assert (Hn : no_connection (sh s) = true).
        { unfold no_connection. rewrite Rel in Ic. destruct (conn (sh s)); [contradiction | reflexivity]. }
        assert (R : replaceable (sh s) = true) by (unfold replaceable; rewrite Rel; reflexivity).
        destruct (solo_open nc (sh s) (List.length (gs s)) Lk Hn) as (g' & -> & Hr).
        cbn [sh gs]. rewrite nth_error_last, Hr.
        destruct (reopen_rel nc (sh s) false (gs s ++ [g']) p I R Lk Ph) as (Fm & Fu & Hrel). cbn zeta in Hrel.
        rewrite Hm, Hu in Hrel.
        destruct (open_from m u 0) as [[j|] t]; destruct Hrel as [Hres Hsr];
          (split; [exact Hres|]); (split; [exact Hsr|]); cbn [sh]; split; congruence.
  - (* carrier cut *)
    split; [reflexivity|].
    pose proof (inv_step nc {| sh := sh s; gs := [] |} SCut (sinv_inv_nil nc (sh s) I Lk)) as (I' & _ & _). cbn [cstep sh gs] in I'.
    split; [|cbn; auto]. split; [exact I'|]. cbn [cstep sh]. cbn [lock cclosed phys sess cutmark sup session alive Policy.phys].
    repeat split; auto.
    destruct (Policy.session p) as [pi|]; [|destruct (Policy.alive p); exact Rel].
    assert (Hx : exists c, sess (sh s) = Some c) by (destruct (Policy.alive p); destruct Rel as (c & Hs & _); eauto).
    destruct Hx as (c & Hs). exists c. split; [exact Hs|]. destruct (i_sess _ I c Hs). lia.
Qed.

Lemma seq_refines_gen nc m f u evs : forall p s, srel p s -> must (sh s) = m -> ups (sh s) = u ->
  snd (seq_run (core nc) f s evs) = snd (Policy.run m f u p evs) /\
  srel (fst (Policy.run m f u p evs)) (fst (seq_run (core nc) f s evs)).
Proof.
  induction evs as [|e evs IH]; intros p s R Hm Hu; cbn [seq_run Policy.run]; [split; [reflexivity | exact R]|].
  pose proof (seq_step nc m f u p s e R Hm Hu) as H.
  destruct (Policy.step m f u p e) as [p1 r]. destruct (seq_event (core nc) f s e) as [s1 r'].
  destruct H as (-> & R1 & Hm1 & Hu1). specialize (IH p1 s1 R1 Hm1 Hu1).
  destruct (Policy.run m f u p1 evs) as [p2 rs]. destruct (seq_run (core nc) f s1 evs) as [s2 rs'].
  cbn [fst snd] in *. destruct IH as [-> R2]. split; [reflexivity | exact R2].
Qed.

Lemma srel_init m u : srel Policy.st0 (cst0 m u).
Proof.
  destruct (inv_init true m u) as (I & _ & _). split; [exact I|]. cbn. auto.
Qed.

(* one goroutine at a time, the faithful model is the policy model: same results, same physical connections *)
Lemma seq_refines nc m f u evs :
  snd (seq_run (core nc) f (cst0 m u) evs) = snd (Policy.run m f u Policy.st0 evs) /\
  phys (sh (fst (seq_run (core nc) f (cst0 m u) evs))) = Policy.phys (fst (Policy.run m f u Policy.st0 evs)).
Proof.
  destruct (seq_refines_gen nc m f u evs Policy.st0 (cst0 m u) (srel_init m u) eq_refl eq_refl) as [H (_ & _ & _ & Hp & _)].
  split; [exact H | symmetry; exact Hp].
Qed.

(* ------------------------------------------------------------------------------------------------ the shapes that do not work *)
(* a goroutine that returned with the lock: nobody is inside a locked region, so nobody will ever unlock *)
Definition stuck (s : cst) (i : nat) : Prop :=
  lock (sh s) = Some i /\ (exists g, nth_error (gs s) i = Some g /\ gpc g = PDone) /\
  (forall k g, nth_error (gs s) k = Some g -> holds (gpc g) = false).

Lemma gstep_stuck sp x k g x' g' i :
  lock x = Some i -> holds (gpc g) = false -> gstep sp x k g = Some (x', g') -> lock x' = Some i /\ holds (gpc g') = false.
Proof.
  intros L Hh H. unfold gstep in H. rewrite L in H. destruct (gpc g) eqn:P; cbn in Hh; try discriminate.
  - destruct (sh_lock_first sp); [discriminate|]. destruct (no_connection x); inversion H; subst; cbn; auto.
  - destruct (open_stream sp x (goffered g)) as [id|lost e|]; [| destruct (replace_cond sp lost (greused g)) |]; inversion H; subst; cbn; auto.
  - destruct (open_stream sp x (goffered g)) as [id|lost e|]; inversion H; subst; cbn; auto.
Qed.

Lemma stuck_step sp s i e : stuck s i -> stuck (cstep sp s e) i.
Proof.
  intros (L & (g0 & Hg0 & Hd0) & Hn). destruct e as [k | f offered | | | k b | ]; cbn [cstep].
  - destruct (nth_error (gs s) k) as [h|] eqn:Nk; [|repeat split; eauto].
    destruct (gstep sp (sh s) k h) as [[x' h']|] eqn:St; [|repeat split; eauto].
    destruct (gstep_stuck sp (sh s) k h x' h' i L (Hn k h Nk) St) as [L' Hh'].
    split; [exact L'|]. cbn [gs]. split.
    + exists g0. split; [|exact Hd0]. destruct (Nat.eq_dec k i) as [->|Hne]; [|rewrite nth_error_upd_other by exact Hne; exact Hg0].
      rewrite Hg0 in Nk. inversion Nk; subst h. unfold gstep in St. rewrite Hd0 in St. discriminate.
    + intros j g Hj. destruct (Nat.eq_dec k j) as [<-|Hne].
      * rewrite nth_error_upd_same in Hj by apply (nth_error_lt _ _ _ Nk). inversion Hj; subst. exact Hh'.
      * rewrite nth_error_upd_other in Hj by exact Hne. apply (Hn j g Hj).
  - split; [exact L|]. cbn [gs]. split.
    + exists g0. split; [|exact Hd0]. rewrite nth_error_app1; [exact Hg0 | apply (nth_error_lt _ _ _ Hg0)].
    + intros j g Hj. destruct (Nat.lt_ge_cases j (List.length (gs s))) as [Hlt|Hge].
      * rewrite nth_error_app1 in Hj by exact Hlt. apply (Hn j g Hj).
      * rewrite nth_error_app2 in Hj by exact Hge. destruct (j - List.length (gs s)) as [|d]; cbn in Hj; [|destruct d; discriminate].
        inversion Hj; subst. destruct f; reflexivity.
  - repeat split; eauto.
  - destruct (sess (sh s)) as [id|]; [|repeat split; eauto]. destruct (id <=? cutmark (sh s)); repeat split; eauto.
  - repeat split; eauto.
  - rewrite L. repeat split; eauto.
Qed.

Lemma stuck_forever sp sch : forall s i, stuck s i ->
  let s' := crun sp s sch in
  lock (sh s') = Some i /\ forall k g, nth_error (gs s') k = Some g -> gpc g = PStart -> sh_lock_first sp = true -> gstep sp (sh s') k g = None.
Proof.
  induction sch as [|e sch IH]; intros s i H; cbn [crun].
  - destruct H as (L & _ & _). split; [exact L|]. intros k g _ P Lf. unfold gstep. rewrite P, Lf, L. reflexivity.
  - apply IH. apply stuck_step. exact H.
Qed.

Definition go (i n : nat) : list sev := repeat (SGo i) n.
(* the first local connection, handled to its end: session 1 on upstream 0 *)
Definition first_conn : list sev := [SSpawn FNone true] ++ go 0 4.

(* (a) the error return of the re-open inside the second locked region: the session is lost while the server is away, the connection that
   notices it returns its error WITH the lock; from then on no Connect gets past its first Lock, whatever happens *)
Definition sch_lock_kept : list sev := first_conn ++ [SCut; SSetUp 0 BRefused; SSpawn FNone true] ++ go 1 6.
Lemma lock_kept_refuted :
  let s := crun (flip 2) (cst0 false [BOkSecure]) sch_lock_kept in
  stuck s 1 /\ (exists g, nth_error (gs s) 1 = Some g /\ gres g = CErr EOpen) /\
  forall sch', let s' := crun (flip 2) s sch' in
    lock (sh s') = Some 1 /\ forall k g, nth_error (gs s') k = Some g -> gpc g = PStart -> gstep (flip 2) (sh s') k g = None.
Proof.
  assert (H : stuck (crun (flip 2) (cst0 false [BOkSecure]) sch_lock_kept) 1).
  { vm_compute. split; [reflexivity|]. split; [eexists; split; reflexivity|].
    intros [|[|[|k]]] g Hk; cbn in Hk; inversion Hk; reflexivity. }
  split; [exact H|]. split; [vm_compute; eexists; split; reflexivity|].
  intros sch'. destruct (stuck_forever (flip 2) sch' _ 1 H) as [L N]. split; [exact L|]. intros k g Hk P. apply (N k g Hk P). reflexivity.
Qed.
(* the same on the first locked region: no upstream reachable at the very first connection *)
Lemma lock_kept_first_refuted :
  let s := crun (flip 1) (cst0 false [BRefused]) first_conn in
  stuck s 0 /\ forall sch', lock (sh (crun (flip 1) s sch')) = Some 0.
Proof.
  assert (H : stuck (crun (flip 1) (cst0 false [BRefused]) first_conn) 0).
  { vm_compute. split; [reflexivity|]. split; [eexists; split; reflexivity|].
    intros [|[|k]] g Hk; cbn in Hk; inversion Hk; reflexivity. }
  split; [exact H|]. intros sch'. apply (stuck_forever (flip 1) sch' _ 0 H).
Qed.

(* (b) the lock taken only to open, after an unlocked test: two connections arriving together each open a physical session; the first
   session stays alive with nobody owning it *)
Definition sch_two_opens : list sev := [SSpawn FNone true; SSpawn FNone true; SGo 0; SGo 1] ++ go 0 4 ++ go 1 4.
Lemma lock_after_check_refuted :
  let s := crun (flip 0) (cst0 false [BOkSecure]) sch_two_opens in
  nsess (sh s) = 2 /\ ncut (sh s) = 0 /\ nshut (sh s) = 0 /\ phys (sh s) = [0; 0] /\ sess (sh s) = Some 2 /\ live (sh s) 1 /\
  map gres (gs s) = [CStream 1; CStream 2].
Proof. vm_compute. repeat split; auto. Qed.

(* (c) a refused channel reported as session loss: the refusal replaces the live session; the stream handed out before is cut *)
Definition sch_refusal : list sev := first_conn ++ [SSpawn FNone false] ++ go 1 8.
Lemma refusal_replaces_refuted :
  let s := crun (flip 4) (cst0 false [BOkSecure]) sch_refusal in
  map gres (gs s) = [CStream 1; CErr ERefused] /\ closed (sh s) = [1] /\ stream_alive (sh s) 1 = false /\ ncut (sh s) = 0 /\
  nsess (sh s) = 2 /\ phys (sh s) = [0; 0].
Proof. vm_compute. repeat split; auto. Qed.
(* the same when the replacement condition does not ask for sessionLost *)
Lemma replace_on_any_error_refuted :
  let s := crun (flip 5) (cst0 false [BOkSecure]) sch_refusal in
  map gres (gs s) = [CStream 1; CErr ERefused] /\ closed (sh s) = [1] /\ stream_alive (sh s) 1 = false /\ ncut (sh s) = 0 /\ nsess (sh s) = 2.
Proof. vm_compute. repeat split; auto. Qed.
(* the code as it is, same schedule: nothing shared moves *)
Lemma refusal_local_example :
  let s := crun intended (cst0 false [BOkSecure]) sch_refusal in
  map gres (gs s) = [CStream 1; CErr ERefused] /\ closed (sh s) = [] /\ stream_alive (sh s) 1 = true /\ nsess (sh s) = 1 /\ phys (sh s) = [0].
Proof. vm_compute. repeat split; auto. Qed.

(* (d) no `ul.session == session` guard: two connections notice one loss, both replace; the first one's new stream is cut by the second *)
Definition sch_two_notice : list sev :=
  first_conn ++ [SCut; SSpawn FNone true; SSpawn FNone true] ++ go 1 4 ++ go 2 4 ++ go 1 4 ++ go 2 4.
Lemma no_guard_refuted :
  let s := crun (flip 7) (cst0 false [BOkSecure]) sch_two_notice in
  ncut (sh s) = 1 /\ nshut (sh s) = 0 /\ nsess (sh s) = 3 /\ map gres (gs s) = [CStream 1; CStream 2; CStream 3] /\
  closed (sh s) = [1; 2] /\ stream_alive (sh s) 2 = false.
Proof. vm_compute. repeat split; auto. Qed.
(* (e) the guard is there but the stale error is not cleared: the second connection fails although a live session exists *)
Lemma stale_error_refuted :
  let s := crun (flip 8) (cst0 false [BOkSecure]) sch_two_notice in
  map gres (gs s) = [CStream 1; CStream 2; CErr ELost] /\ sess (sh s) = Some 2 /\ live (sh s) 2.
Proof. vm_compute. repeat split; auto. Qed.
Lemma two_notice_example :
  let s := crun intended (cst0 false [BOkSecure]) sch_two_notice in
  map gres (gs s) = [CStream 1; CStream 2; CStream 2] /\ nsess (sh s) = 2 /\ closed (sh s) = [1] /\ phys (sh s) = [0; 0].
Proof. vm_compute. repeat split; auto. Qed.

(* openStream without the nil test (the code before 108185a): the session is lost while the server is away and two connections notice
   it; the first one's re-open fails, the second finds "somebody else has already replaced it" and calls OpenStream on nil *)
Definition sch_nil : list sev :=
  first_conn ++ [SCut; SSetUp 0 BRefused; SSpawn FNone true; SSpawn FNone true] ++ go 1 4 ++ go 2 4 ++ go 1 4 ++ go 2 4.
Lemma nil_session_refuted :
  map gres (gs (crun (flip 10) (cst0 false [BOkSecure]) sch_nil)) = [CStream 1; CErr EOpen; CPanic].
Proof. vm_compute. reflexivity. Qed.
Lemma nil_session_example :
  map gres (gs (crun intended (cst0 false [BOkSecure]) sch_nil)) = [CStream 1; CErr EOpen; CErr ELost].
Proof. vm_compute. reflexivity. Qed.

(* open without `continue`: the good second upstream is never tried *)
Lemma no_continue_refuted :
  map gres (gs (crun (flip 9) (cst0 false [BRefused; BOkSecure]) first_conn)) = [CErr EOpen] /\
  fst (open_from false [BRefused; BOkSecure] 0) = Some 1.
Proof. vm_compute. auto. Qed.

(* a stream that cannot be opened not reported as session loss (the code before 9cf0b81): no re-establishment after a cut *)
Lemma no_loss_report_refuted :
  let s := crun (flip 3) (cst0 false [BOkSecure]) (first_conn ++ [SCut; SSpawn FNone true] ++ go 1 9) in
  map gres (gs s) = [CStream 1; CErr ELost] /\ nsess (sh s) = 1.
Proof. vm_compute. auto. Qed.

(* nobody panics once openStream tests for nil *)
Lemma no_panic s : reach true s -> forall i g, nth_error (gs s) i = Some g -> gres g <> CPanic.
Proof.
  intros R i g Hg E. destruct (reach_inv true s R) as (_ & G & _). destruct (G i g Hg) as [_ Hp].
  assert (P : gpc g = PDone \/ gpc g <> PDone) by (destruct (gpc g); auto; right; discriminate).
  destruct P as [P|P].
  - rewrite P, E in Hp. discriminate.
  - (* the result is written only on return *) 
    clear Hp G. revert Hg E P. destruct R as (m & u & sch & ->). revert i g.
    assert (Hres : forall sch s, (forall i g, nth_error (gs s) i = Some g -> gpc g <> PDone -> gres g = CNone) ->
                   forall i g, nth_error (gs (crun (core true) s sch)) i = Some g -> gpc g <> PDone -> gres g = CNone).
    { clear. induction sch as [|e sch IH]; intros s H; cbn [crun]; [exact H|]. apply IH. clear IH.
      intros i g Hg P. destruct e as [k | f offered | | | k b | ]; cbn [cstep] in Hg; eauto.
      - destruct (nth_error (gs s) k) as [h|] eqn:Nk; [|eauto].
        destruct (gstep (core true) (sh s) k h) as [[x' h']|] eqn:St; [|eauto]. cbn [gs] in Hg.
        destruct (Nat.eq_dec k i) as [<-|Hne]; [|rewrite nth_error_upd_other in Hg by exact Hne; eauto].
        rewrite nth_error_upd_same in Hg by apply (nth_error_lt _ _ _ Nk). inversion Hg; subst h'.
        assert (Hh : gpc h <> PDone) by (intros E; unfold gstep in St; rewrite E in St; discriminate).
        pose proof (H k h Nk Hh) as Hn.
        unfold gstep in St. cbn [sh_lock_first sh_ret_unlocked1 sh_ret_unlocked2 sh_guard sh_clear_stale core] in St.
        destruct (gpc h); cbn [negb orb] in St;
          repeat match type of St with
                 | context [match ?e with _ => _ end] => destruct e
                 | context [if ?e then _ else _] => destruct e
                 end; try discriminate; inversion St; subst; cbn in P |- *; try congruence; exfalso; apply P; reflexivity.
      - cbn [gs] in Hg. destruct (Nat.lt_ge_cases i (List.length (gs s))) as [Hlt|Hge].
        + rewrite nth_error_app1 in Hg by exact Hlt. eauto.
        + rewrite nth_error_app2 in Hg by exact Hge. destruct (i - List.length (gs s)) as [|d]; cbn in Hg; [|destruct d; discriminate].
          inversion Hg; subst. destruct f; cbn in *; try reflexivity. exfalso; apply P; reflexivity.
      - destruct (sess (sh s)) as [id|]; [|eauto]. destruct (id <=? cutmark (sh s)); eauto.
      - destruct (lock (sh s)); eauto. }
    intros i g Hg E P. assert (Hn : gres g = CNone).
    { apply (Hres sch (cst0 m u)) with (i := i); [|exact Hg | exact P]. intros [|k] h Hh; discriminate. }
    congruence.
Qed.

(* a refusal is local *)
Lemma refusal_local nc s sch c :
  reach nc s -> sess (sh s) = Some c -> cutmark (sh s) < c -> forallb quiet_ev sch = true ->
  let s' := crun (core nc) s sch in
  sess (sh s') = Some c /\ closed (sh s') = closed (sh s) /\ phys (sh s') = phys (sh s) /\ nopen (sh s') = nopen (sh s) /\
  stream_alive (sh s') c = true /\
  forall i g', nth_error (gs s') i = Some g' -> gpc g' = PDone -> (forall g, nth_error (gs s) i = Some g -> gpc g <> PDone) ->
    goffered g' = false -> gres g' = CFwd \/ gres g' = CErr ERefused.
Proof.
  intros R Hs Hc Hq s'. pose proof (reach_inv nc s R) as Hi.
  destruct (quiet_run nc sch s c Hi Hs Hc Hq) as [Hco Hres]. fold s' in Hco, Hres.
  destruct (core_of_live _ _ c Hco Hs Hc) as [Hs' Hc'].
  assert (E : closed (sh s') = closed (sh s) /\ phys (sh s') = phys (sh s) /\ nopen (sh s') = nopen (sh s)).
  { unfold core_of in Hco. inversion Hco. auto. }
  destruct E as (E1 & E2 & E3).
  destruct (inv_run nc sch s Hi) as (I' & _ & _). fold s' in I'.
  split; [exact Hs'|]. split; [exact E1|]. split; [exact E2|]. split; [exact E3|]. split.
  - unfold stream_alive. destruct (live_not_dead _ c I' Hs' Hc') as (Hd & _). rewrite Hd. reflexivity.
  - intros i g' Hg Hd Hn Ho. destruct (Hres i g' Hg Hd Hn) as [H | [(Ho' & _) | (_ & H)]]; auto. congruence.
Qed.
