(* C14 / C17: streams.PipeData as a labelled transition system: two copy loops that each report their end once on a result
   channel, and a selector that consumes exactly one report and closes the opposite side (both sides on an error).
   Channel capacities come from the source (Gen/Shapes.v). *)
From Coq Require Import String List NArith ZArith Bool Arith.
From SA Require Import Base.Tok Gen.Shapes Mux.Lts.
Import ListNotations.

Inductive cphase := CRun | CSend | CDone.                   (* copying / wants to report / returned *)
Inductive sphase := SWait | SGotDown (eof : bool) | SGotUp (eof : bool) | SDone.

Record pstate := {
  cd : cphase; cu : cphase;     (* copier down->up, copier up->down *)
  sel : sphase;
  nd : nat; nu : nat;           (* reports waiting in downPipe / upPipe *)
  cl_down : bool; cl_up : bool; (* the two connections: closed? *)
  eof_d : bool; eof_u : bool;   (* did the copier end with EOF (true) or with an error (false) *)
}.

Definition pinit : pstate :=
  {| cd := CRun; cu := CRun; sel := SWait; nd := 0; nu := 0; cl_down := false; cl_up := false; eof_d := true; eof_u := true |}.

Definition cphase_eqb a b := match a, b with CRun, CRun | CSend, CSend | CDone, CDone => true | _, _ => false end.
Definition sphase_eqb a b :=
  match a, b with
  | SWait, SWait | SDone, SDone => true
  | SGotDown x, SGotDown y | SGotUp x, SGotUp y => Bool.eqb x y
  | _, _ => false
  end.
Definition pstate_eqb (a b : pstate) : bool :=
  cphase_eqb (cd a) (cd b) && cphase_eqb (cu a) (cu b) && sphase_eqb (sel a) (sel b) && Nat.eqb (nd a) (nd b) && Nat.eqb (nu a) (nu b)
  && Bool.eqb (cl_down a) (cl_down b) && Bool.eqb (cl_up a) (cl_up b) && Bool.eqb (eof_d a) (eof_d b) && Bool.eqb (eof_u a) (eof_u b).

Definition upd (s : pstate) cd' cu' sel' nd' nu' cld clu ed eu : pstate :=
  {| cd := cd'; cu := cu'; sel := sel'; nd := nd'; nu := nu'; cl_down := cld; cl_up := clu; eof_d := ed; eof_u := eu |}.

(* successor states. capd / capu: capacities of downPipe / upPipe. *)
Definition pnext (capd capu : nat) (s : pstate) : list pstate :=
  (* the environment: a peer closes its connection (the copier reading from it then sees EOF) *)
  (if cl_down s then [] else [upd s (cd s) (cu s) (sel s) (nd s) (nu s) true (cl_up s) (eof_d s) (eof_u s)]) ++
  (if cl_up s then [] else [upd s (cd s) (cu s) (sel s) (nd s) (nu s) (cl_down s) true (eof_d s) (eof_u s)]) ++
  (* copier down->up: its read ends when down is closed (EOF); its write fails when up is closed (error) *)
  (match cd s with
   | CRun => (if cl_down s then [upd s CSend (cu s) (sel s) (nd s) (nu s) (cl_down s) (cl_up s) true (eof_u s)] else []) ++
             (if cl_up s then [upd s CSend (cu s) (sel s) (nd s) (nu s) (cl_down s) (cl_up s) false (eof_u s)] else [])
   | CSend => (if Nat.ltb (nd s) capd then [upd s CDone (cu s) (sel s) (S (nd s)) (nu s) (cl_down s) (cl_up s) (eof_d s) (eof_u s)] else []) ++
              (* unbuffered channel: hand the report over only to a selector that is waiting in its select *)
              (match sel s with SWait => if Nat.eqb capd 0 then [upd s CDone (cu s) (SGotDown (eof_d s)) (nd s) (nu s) (cl_down s) (cl_up s) (eof_d s) (eof_u s)] else [] | _ => [] end)
   | CDone => []
   end) ++
  (match cu s with
   | CRun => (if cl_up s then [upd s (cd s) CSend (sel s) (nd s) (nu s) (cl_down s) (cl_up s) (eof_d s) true] else []) ++
             (if cl_down s then [upd s (cd s) CSend (sel s) (nd s) (nu s) (cl_down s) (cl_up s) (eof_d s) false] else [])
   | CSend => (if Nat.ltb (nu s) capu then [upd s (cd s) CDone (sel s) (nd s) (S (nu s)) (cl_down s) (cl_up s) (eof_d s) (eof_u s)] else []) ++
              (match sel s with SWait => if Nat.eqb capu 0 then [upd s (cd s) CDone (SGotUp (eof_u s)) (nd s) (nu s) (cl_down s) (cl_up s) (eof_d s) (eof_u s)] else [] | _ => [] end)
   | CDone => []
   end) ++
  (* the selector: one receive, then TryClose of the opposite side (both sides on an error), then return *)
  (match sel s with
   | SWait => (match nd s with S k => [upd s (cd s) (cu s) (SGotDown (eof_d s)) k (nu s) (cl_down s) (cl_up s) (eof_d s) (eof_u s)] | O => [] end) ++
              (match nu s with S k => [upd s (cd s) (cu s) (SGotUp (eof_u s)) (nd s) k (cl_down s) (cl_up s) (eof_d s) (eof_u s)] | O => [] end)
   | SGotDown e => [upd s (cd s) (cu s) SDone (nd s) (nu s) (if e then cl_down s else true) true (eof_d s) (eof_u s)]
   | SGotUp e => [upd s (cd s) (cu s) SDone (nd s) (nu s) true (if e then cl_up s else true) (eof_d s) (eof_u s)]
   | SDone => []
   end).

Definition all_done (s : pstate) : bool :=
  cphase_eqb (cd s) CDone && cphase_eqb (cu s) CDone && sphase_eqb (sel s) SDone.

(* number of goroutines of this PipeData call that can never finish *)
Definition stuck_threads (s : pstate) : nat :=
  (if cphase_eqb (cd s) CDone then 0 else 1) + (if cphase_eqb (cu s) CDone then 0 else 1) + (if sphase_eqb (sel s) SDone then 0 else 1).

Definition terminal (capd capu : nat) (s : pstate) : bool := match pnext capd capu s with [] => true | _ => false end.

Definition pclosure (capd capu : nat) : list pstate := close pstate pstate_eqb (pnext capd capu) 64 [pinit] [pinit].

(* ---- the copy loop with byte counters (io.CopyBuffer): read a chunk, write it, repeat; report on EOF or error *)
Inductive lphase := LRead | LWrite (n : nat) | LReportEof | LReportErr.
Record cstate := { rd : nat; wr : nat; ph : lphase }.
Inductive cev := ERead (n : nat) | EEof | EReadErr | EWriteOk | EWriteErr.
Definition cstep (c : cstate) (e : cev) : cstate :=
  match ph c, e with
  | LRead, ERead n => {| rd := rd c + n; wr := wr c; ph := LWrite n |}
  | LRead, EEof => {| rd := rd c; wr := wr c; ph := LReportEof |}
  | LRead, EReadErr => {| rd := rd c; wr := wr c; ph := LReportErr |}
  | LWrite n, EWriteOk => {| rd := rd c; wr := wr c + n; ph := LRead |}
  | LWrite n, EWriteErr => {| rd := rd c; wr := wr c; ph := LReportErr |}
  | _, _ => c
  end.
Definition crun (evs : list cev) : cstate := fold_left cstep evs {| rd := 0; wr := 0; ph := LRead |}.
