(* Proofs about Mux/Handler.v: ownership (frame, close log), independence, reclamation, no busy loop; refuted variants. *)
From Coq Require Import List NArith ZArith Bool Arith String Lia.
From SA Require Import Base.Tok Mux.Handler.
Import ListNotations.
Local Open Scope nat_scope.

(* ---------------------------------------------------------------------------------------------------------------- lists *)
Lemma nth_error_upd_same {A} (l : list A) i f : nth_error (upd l i f) i = option_map f (nth_error l i).
Proof. revert i; induction l as [|x r IH]; intros [|i]; simpl; auto. Qed.
Lemma nth_error_upd_other {A} (l : list A) i j f : i <> j -> nth_error (upd l i f) j = nth_error l j.
Proof. revert i j; induction l as [|x r IH]; intros [|i] [|j] H; simpl; auto; try congruence. Qed.
Lemma length_upd {A} (l : list A) i f : List.length (upd l i f) = List.length l.
Proof. revert i; induction l as [|x r IH]; intros [|i]; simpl; auto. Qed.

(* ---------------------------------------------------------------------------------------------------------------- shape_ok *)
Record shape_good (sh : shape) : Prop := {
  sg_err : sh_err_closes_own sh = true; sg_defer : sh_defer_closes_own sh = true;
  sg_quiet : sh_acc_quiet_returns sh = true; sg_ret : sh_acc_err_returns sh = true;
  sg_slots : sh_slots sh = 0; sg_lock : sh_dial_lock sh = false;
  sg_capd : 0 < sh_cap_down sh; sg_capu : 0 < sh_cap_up sh;
  sg_de_d : sh_de_d sh = false; sg_de_u : sh_de_u sh = true; sg_dx_d : sh_dx_d sh = true; sg_dx_u : sh_dx_u sh = true;
  sg_ue_d : sh_ue_d sh = true; sg_ue_u : sh_ue_u sh = false; sg_ux_d : sh_ux_d sh = true; sg_ux_u : sh_ux_u sh = true;
  sg_refused : sh_refused_closed sh = true; sg_lup : sh_lst_closes_up sh = true; sg_lconn : sh_lst_closes_conn sh = true;
  sg_dconn : sh_dir_closes_conn sh = true; sg_dup : sh_dir_closes_up sh = true
}.

Lemma shape_ok_good sh : shape_ok sh = true -> shape_good sh.
Proof.
  unfold shape_ok, shape_ok_server. intros H.
  repeat (apply andb_prop in H; destruct H as [H ?]).
  repeat match goal with
         | H : negb _ = true |- _ => apply negb_true_iff in H
         | H : Nat.eqb _ _ = true |- _ => apply Nat.eqb_eq in H
         | H : Nat.ltb _ _ = true |- _ => apply Nat.ltb_lt in H
         end.
  constructor; assumption.
Qed.

Lemma cap_pos sh sd : shape_good sh -> 0 < cap_of sh sd.
Proof. intros G; destruct sd; simpl; [apply (sg_capd sh G)|apply (sg_capu sh G)]. Qed.

(* ---------------------------------------------------------------------------------------------------------------- PipeData *)
Definition not_got (sd : side) (p : pcall) : Prop := forall r, p_got p <> Some (sd, r).

(* relation between a copy goroutine, its report channel and the report the select consumed *)
Definition side_inv (sd : side) (p : pcall) : Prop :=
  match cop_of sd p with
  | CNone => True
  | CRun | CSend _ => chan_of sd p = [] /\ not_got sd p
  | CDone => (exists r, chan_of sd p = [r] /\ not_got sd p) \/ (chan_of sd p = [] /\ exists r, p_got p = Some (sd, r))
  end.

Definition pc_inv (p : pcall) : Prop :=
  match p_pc p with
  | PIdle => p = p_idle
  | PStart => p = p_begin
  | PSelect => p_got p = None /\ p_cd p <> CNone /\ p_cu p <> CNone
  | PGot s r => p_got p = Some (s, r) /\ p_cd p <> CNone /\ p_cu p <> CNone
  | PRet e => (exists s r, p_got p = Some (s, r) /\ e = negb r) /\ p_cd p <> CNone /\ p_cu p <> CNone
  end.

Definition pinv (p : pcall) : Prop := pc_inv p /\ side_inv Down p /\ side_inv Up p.

Lemma pinv_idle : pinv p_idle.
Proof. repeat split. Qed.
Lemma pinv_begin : pinv p_begin.
Proof. repeat split. Qed.

Definition other (sd : side) : side := match sd with Down => Up | Up => Down end.

Lemma cop_set_same sd p c : cop_of sd (set_cop sd p c) = c. Proof. destruct sd; reflexivity. Qed.
Lemma cop_set_other sd p c : cop_of (other sd) (set_cop sd p c) = cop_of (other sd) p. Proof. destruct sd; reflexivity. Qed.
Lemma chan_set_cop sd sd' p c : chan_of sd' (set_cop sd p c) = chan_of sd' p. Proof. destruct sd, sd'; reflexivity. Qed.
Lemma got_set_cop sd p c : p_got (set_cop sd p c) = p_got p. Proof. destruct sd; reflexivity. Qed.
Lemma pc_set_cop sd p c : p_pc (set_cop sd p c) = p_pc p. Proof. destruct sd; reflexivity. Qed.

(* evidence that the copy loop reading from side sd ended with io.EOF *)
Definition eof_evid (sd : side) (p : pcall) : Prop :=
  cop_of sd p = CSend true \/ In true (chan_of sd p) \/ p_got p = Some (sd, true).

Ltac inv H := inversion H; subst; clear H.

(* a copy goroutine's step keeps the invariant; it starts claiming io.EOF only when its source read io.EOF *)
Lemma copier_step_pinv sh sd src ok p p' e : shape_good sh -> pinv p -> copier_step sh sd src ok p = Some (p', e) -> pinv p'.
Proof.
  intros G [Hpc [Hd Hu]] H. unfold copier_step in H.
  destruct (cop_of sd p) eqn:Ec; try discriminate.
  - (* CRun *)
    destruct (copier_run src ok) as [[c f]|] eqn:Er; try discriminate. inv H.
    assert (Hc : c = CRun \/ exists r, c = CSend r).
    { unfold copier_run in Er. destruct src; try discriminate; [destruct ok|..]; inv Er; eauto. }
    destruct sd; simpl in *; unfold pinv, pc_inv, side_inv, not_got in *; simpl in *; rewrite Ec in *;
      (split; [destruct (p_pc p); try (subst p; discriminate);
               repeat split; try tauto; try (destruct Hc as [->|[r ->]]; discriminate); try apply Hpc
              |split; [try assumption|try assumption]]);
      try (destruct Hc as [->|[r ->]]; assumption).
  - (* CSend *)
    pose proof (cap_pos sh sd G) as Hcap.
    assert (Hch : chan_of sd p = [] /\ not_got sd p).
    { destruct sd; simpl in *; [unfold side_inv in Hd; simpl in Hd; rewrite Ec in Hd; exact Hd|unfold side_inv in Hu; simpl in Hu; rewrite Ec in Hu; exact Hu]. }
    destruct Hch as [Hch Hng]. rewrite Hch in H. simpl in H.
    destruct (Nat.ltb 0 (cap_of sh sd)) eqn:El; [|apply Nat.ltb_ge in El; lia]. inv H.
    destruct sd; simpl in *; unfold pinv, pc_inv, side_inv, not_got in *; simpl in *; rewrite Ec in *;
      (split; [destruct (p_pc p); try (subst p; discriminate); repeat split; try tauto; try discriminate; try apply Hpc
              |split; try assumption; left; exists eof; split; [reflexivity|assumption]]).
Qed.

Lemma sel_step_pinv sh b p p' cl : pinv p -> sel_step sh b p = Some (p', cl) -> pinv p'.
Proof.
  intros [Hpc [Hd Hu]] H. unfold sel_step in H.
  destruct (p_pc p) eqn:Epc; try discriminate.
  - (* PStart *) inv H. unfold pc_inv in Hpc. rewrite Epc in Hpc. subst p. repeat split; simpl; try discriminate; unfold not_got; simpl; discriminate.
  - (* PSelect *)
    unfold pc_inv in Hpc. rewrite Epc in Hpc. destruct Hpc as [Hg [Hc1 Hc2]].
    unfold side_inv, not_got in Hd, Hu. simpl in Hd, Hu.
    destruct (p_dp p) as [|r q] eqn:Edp, (p_up p) as [|r' q'] eqn:Eup; try discriminate.
    + (* up only *) inv H.
      assert (q' = []) by (destruct (p_cu p); try tauto; try (destruct Hu as [Hu _]; discriminate); destruct Hu as [[x [Hx _]]|[Hx _]]; [inv Hx; reflexivity|discriminate]).
      subst q'. unfold pinv, pc_inv, side_inv, not_got; simpl. rewrite Edp.
      split; [repeat split; assumption|]. split.
      * destruct (p_cd p); try tauto; [destruct Hd as [Hd _]; split; [exact Hd|intros; discriminate]..|].
        destruct Hd as [[x [Hx _]]|[_ [x Hx]]]; [discriminate|congruence].
      * destruct (p_cu p); try tauto; try (destruct Hu as [Hu _]; discriminate). right. split; eauto.
    + (* down only *) inv H.
      assert (q = []) by (destruct (p_cd p); try tauto; try (destruct Hd as [Hd _]; discriminate); destruct Hd as [[x [Hx _]]|[Hx _]]; [inv Hx; reflexivity|discriminate]).
      subst q. unfold pinv, pc_inv, side_inv, not_got; simpl. rewrite Eup.
      split; [repeat split; assumption|]. split.
      * destruct (p_cd p); try tauto; try (destruct Hd as [Hd _]; discriminate). right. split; eauto.
      * destruct (p_cu p); try tauto; [destruct Hu as [Hu _]; split; [exact Hu|intros; discriminate]..|].
        destruct Hu as [[x [Hx _]]|[_ [x Hx]]]; [discriminate|congruence].
    + (* both *)
      assert (q = []) by (destruct (p_cd p); try tauto; try (destruct Hd as [Hd _]; discriminate); destruct Hd as [[x [Hx _]]|[Hx _]]; [inv Hx; reflexivity|discriminate]).
      assert (q' = []) by (destruct (p_cu p); try tauto; try (destruct Hu as [Hu _]; discriminate); destruct Hu as [[x [Hx _]]|[Hx _]]; [inv Hx; reflexivity|discriminate]).
      subst q q'.
      destruct b; inv H; unfold pinv, pc_inv, side_inv, not_got; simpl; rewrite ?Edp, ?Eup; (split; [repeat split; assumption|]); split.
      * destruct (p_cd p); try tauto; try (destruct Hd as [Hd _]; discriminate). left. exists r. split; [reflexivity|intros; discriminate].
      * destruct (p_cu p); try tauto; try (destruct Hu as [Hu _]; discriminate). right. split; eauto.
      * destruct (p_cd p); try tauto; try (destruct Hd as [Hd _]; discriminate). right. split; eauto.
      * destruct (p_cu p); try tauto; try (destruct Hu as [Hu _]; discriminate). left. exists r'. split; [reflexivity|intros; discriminate].
  - (* PGot *) inv H. unfold pc_inv in Hpc. rewrite Epc in Hpc. destruct Hpc as [Hg [Hc1 Hc2]].
    unfold pinv, pc_inv, side_inv, not_got in *; simpl in *. split; [repeat split; eauto|]. split; assumption.
Qed.

(* with room in the channels a copy goroutine never touches the select's state *)
Lemma copier_step_keeps sh sd src ok p p' e : shape_good sh -> pinv p -> copier_step sh sd src ok p = Some (p', e) ->
  p_got p' = p_got p /\ p_pc p' = p_pc p /\ cop_of (other sd) p' = cop_of (other sd) p /\ chan_of (other sd) p' = chan_of (other sd) p.
Proof.
  intros G [Hpc [Hd Hu]] H. unfold copier_step in H.
  destruct (cop_of sd p) eqn:Ec; try discriminate.
  - destruct (copier_run src ok) as [[c f]|]; try discriminate. inv H. destruct sd; simpl; auto.
  - pose proof (cap_pos sh sd G) as Hcap.
    assert (Hch : chan_of sd p = []).
    { destruct sd; simpl in *; [unfold side_inv in Hd; simpl in Hd; rewrite Ec in Hd; apply Hd|unfold side_inv in Hu; simpl in Hu; rewrite Ec in Hu; apply Hu]. }
    rewrite Hch in H. simpl in H. destruct (Nat.ltb 0 (cap_of sh sd)) eqn:El; [|apply Nat.ltb_ge in El; lia]. inv H.
    destruct sd; simpl; auto.
Qed.

(* a copy goroutine that is running moves as soon as its source has something to say; one that reports always has room *)
Lemma copier_run_moves sh sd src ok p : cop_of sd p = CRun -> src <> RBlock -> copier_step sh sd src ok p <> None.
Proof. intros Ec Hs. unfold copier_step. rewrite Ec. destruct src; try congruence; simpl; [destruct ok|..]; discriminate. Qed.
Lemma copier_send_moves sh sd src ok p r : shape_good sh -> pinv p -> cop_of sd p = CSend r -> copier_step sh sd src ok p <> None.
Proof.
  intros G [Hpc [Hd Hu]] Ec. unfold copier_step. rewrite Ec. pose proof (cap_pos sh sd G) as Hcap.
  assert (Hch : chan_of sd p = []).
  { destruct sd; simpl in *; [unfold side_inv in Hd; simpl in Hd; rewrite Ec in Hd; apply Hd|unfold side_inv in Hu; simpl in Hu; rewrite Ec in Hu; apply Hu]. }
  rewrite Hch. simpl. destruct (Nat.ltb 0 (cap_of sh sd)) eqn:El; [discriminate|apply Nat.ltb_ge in El; lia].
Qed.
Lemma copier_blocked sh sd src ok p : shape_good sh -> pinv p -> copier_step sh sd src ok p = None -> cop_live (cop_of sd p) = true ->
  cop_of sd p = CRun /\ src = RBlock.
Proof.
  intros G I H L. destruct (cop_of sd p) eqn:Ec; try discriminate.
  - split; [reflexivity|]. destruct src; try reflexivity; exfalso; eapply (copier_run_moves sh sd _ ok p Ec); try eassumption; discriminate.
  - exfalso. eapply copier_send_moves; eassumption.
Qed.

(* the select waits only while neither copy loop has reported *)
Lemma select_blocked sh p : pinv p -> p_pc p = PSelect -> sel_step sh false p = None ->
  cop_live (p_cd p) = true /\ cop_live (p_cu p) = true.
Proof.
  intros [Hpc [Hd Hu]] Epc H. unfold sel_step in H. rewrite Epc in H.
  unfold pc_inv in Hpc. rewrite Epc in Hpc. destruct Hpc as [Hg [Hc1 Hc2]].
  unfold side_inv, not_got in Hd, Hu. simpl in Hd, Hu.
  destruct (p_dp p) eqn:Edp, (p_up p) eqn:Eup; try discriminate.
  split.
  - destruct (p_cd p); try reflexivity; try congruence. destruct Hd as [[x [Hx _]]|[_ [x Hx]]]; [discriminate|congruence].
  - destruct (p_cu p); try reflexivity; try congruence. destruct Hu as [[x [Hx _]]|[_ [x Hx]]]; [discriminate|congruence].
Qed.

Lemma sel_step_moves sh b p : p_pc p = PStart \/ (exists s r, p_pc p = PGot s r) -> sel_step sh b p <> None.
Proof. intros [H|[s [r H]]]; unfold sel_step; rewrite H; discriminate. Qed.

(* where a claim of io.EOF comes from *)
Lemma copier_step_evid sh sd src ok p p' e sd' : shape_good sh -> pinv p -> copier_step sh sd src ok p = Some (p', e) ->
  eof_evid sd' p' -> eof_evid sd' p \/ (sd' = sd /\ src = REof).
Proof.
  intros G [Hpc [Hd Hu]] H Ev. unfold copier_step in H.
  destruct (cop_of sd p) eqn:Ec; try discriminate.
  - destruct (copier_run src ok) as [[c f]|] eqn:Er; try discriminate. inv H.
    unfold eof_evid in *. rewrite chan_set_cop, got_set_cop in Ev.
    destruct sd, sd'; simpl in *; try tauto;
      (destruct Ev as [Ev|Ev]; [|tauto]; subst c; right; split; [reflexivity|]; unfold copier_run in Er; destruct src; try discriminate; try reflexivity; destruct ok; discriminate).
  - pose proof (cap_pos sh sd G) as Hcap.
    assert (Hch : chan_of sd p = []).
    { destruct sd; simpl in *; [unfold side_inv in Hd; simpl in Hd; rewrite Ec in Hd; apply Hd|unfold side_inv in Hu; simpl in Hu; rewrite Ec in Hu; apply Hu]. }
    rewrite Hch in H. simpl in H. destruct (Nat.ltb 0 (cap_of sh sd)) eqn:El; [|apply Nat.ltb_ge in El; lia]. inv H.
    left. unfold eof_evid in *.
    destruct sd, sd'; simpl in *; rewrite ?Ec; try tauto;
      (destruct Ev as [Ev|[Ev|Ev]]; [discriminate| |tauto]); destruct Ev as [Ev|[]]; subst eof; tauto.
Qed.

Lemma sel_step_evid sh b p p' cl sd' : sel_step sh b p = Some (p', cl) -> eof_evid sd' p' -> eof_evid sd' p.
Proof.
  intros H Ev. unfold sel_step in H. destruct (p_pc p) eqn:Epc; try discriminate.
  - inv H. unfold eof_evid in *. destruct sd'; simpl in *; (destruct Ev as [Ev|Ev]; [discriminate|tauto]).
  - destruct (p_dp p) as [|r q] eqn:Edp, (p_up p) as [|r' q'] eqn:Eup; try discriminate;
      [| |destruct b]; inv H; unfold eof_evid in *; destruct sd'; simpl in *; rewrite ?Edp, ?Eup in *;
      repeat match goal with
             | H : _ \/ _ |- _ => destruct H
             | H : Some _ = Some _ |- _ => inv H
             end; simpl; try tauto; try discriminate.
  - inv H. unfold eof_evid in *. destruct sd'; simpl in *; tauto.
Qed.

(* ---------------------------------------------------------------------------------------------------------------- one connection *)
Definition pre_pipe (h : hpc) : bool := match h with HNone | HPeek | HNeg | HLock | HDial => true | _ => false end.
Definition post_pipe (h : hpc) : bool := match h with HDefer _ | HErrClose | HDone => true | _ => false end.
Definition pre_ack (h : hpc) : bool := match h with HNone | HPeek | HNeg => true | _ => false end.

Definition ret_closed (c : conn) : Prop :=
  match p_got (k_p c) with
  | Some (Down, true) => t_closed (k_t c) = true
  | Some (Up, true) => s_srv_closed (k_s c) = true
  | Some (_, false) => t_closed (k_t c) = true /\ s_srv_closed (k_s c) = true
  | None => False
  end.

Record cinv (sh : shape) (c : conn) : Prop := {
  ci_p : pinv (k_p c);
  ci_pre : pre_pipe (k_h c) = true -> k_p c = p_idle /\ t_ex (k_t c) = false;
  ci_pipe : k_h c = HPipe -> t_ex (k_t c) = true /\ p_pc (k_p c) <> PIdle;
  ci_post : post_pipe (k_h c) = true -> (k_p c = p_idle /\ t_ex (k_t c) = false) \/ (t_ex (k_t c) = true /\ exists e, p_pc (k_p c) = PRet e);
  ci_closed : k_h c = HErrClose \/ k_h c = HDone -> s_srv_closed (k_s c) = true;
  ci_ret : forall e, p_pc (k_p c) = PRet e -> ret_closed c;
  ci_mh : sh_mh_closes_up sh = true -> post_pipe (k_h c) = true -> t_ex (k_t c) = true -> t_closed (k_t c) = true;
  ci_tex : t_ex (k_t c) = false -> t_eof (k_t c) = false /\ t_err (k_t c) = false /\ t_closed (k_t c) = false /\ t_t2s (k_t c) = false;
  ci_fail : k_dialfail c = true -> post_pipe (k_h c) = true;
  ci_ack : pre_ack (k_h c) = true -> s_acked (k_s c) = false;
  ci_c2s : s_c2s (k_s c) = true -> s_acked (k_s c) = true;
  ci_lock : k_h c <> HLock;
  ci_evid : eof_evid Up (k_p c) -> t_eof (k_t c) = true
}.

Lemma cinv_new sh : cinv sh k_new.
Proof.
  constructor; simpl; try tauto; try discriminate; try (intros; discriminate); auto using pinv_idle.
  all: try (intros [H|H]; discriminate).
  unfold eof_evid; simpl. intros [H|[[]|H]]; discriminate.
Qed.

Definition close_own (c : conn) (r : res) : conn :=
  match r with RStream _ => close_stream c | RTarget _ => close_target c | RSess => c end.
Definition own_res (i : nat) (r : res) : Prop := r = RStream i \/ r = RTarget i.

Definition h_final (sh : shape) (d : dstate) (cl : bool) (i : nat) (b : bool) (c : conn) : option conn :=
  match h_local sh d cl true None i b c with
  | Some o => Some (fold_left close_own (o_closes o) (o_conn o))
  | None => None
  end.

Lemma h_local_good sh d cl lf last i b c o : shape_good sh -> k_h c <> HLock -> h_local sh d cl lf last i b c = Some o ->
  Forall (own_res i) (o_closes o) /\ o_lock o = LKeep /\ o_slot o = false /\ h_local sh d cl true None i b c = Some o.
Proof.
  intros G NL H. unfold h_local in *.
  pose proof (sg_err sh G) as E1. pose proof (sg_defer sh G) as E2. pose proof (sg_slots sh G) as E3. pose proof (sg_lock sh G) as E4.
  rewrite ?E1, ?E2, ?E3, ?E4 in *. simpl in *.
  destruct (k_h c) eqn:Eh; try discriminate; try congruence.
  - destruct (negb (is_none (s_prop (k_s c)))); [inv H; simpl; auto|].
    destruct (rd_down d cl c); try discriminate; inv H; simpl; auto.
  - destruct (s_prop (k_s c)) as [served|].
    + destruct (negb (wr_down_ok d cl c)); [inv H; simpl; auto|]. destruct served; inv H; simpl; auto.
    + destruct (rd_down d cl c); try discriminate; inv H; simpl; auto.
  - destruct (k_fate c) as [[|]|]; try discriminate; inv H; simpl; auto.
  - destruct (p_pc (k_p c)) eqn:Epc.
    1-4: destruct (sel_step sh b (k_p c)) as [[p' [c1 c2]]|]; try discriminate; inv H; simpl; repeat split; auto;
      unfold closes_res; simpl; destruct c1, c2; simpl; repeat apply Forall_cons; try apply Forall_nil; unfold own_res; auto.
    inv H; simpl. repeat split; auto. destruct (sh_mh_closes_up sh); repeat apply Forall_cons; try apply Forall_nil; unfold own_res; auto.
  - inv H; simpl. repeat split; auto. repeat apply Forall_cons; try apply Forall_nil; unfold own_res; auto.
  - inv H; simpl. repeat split; auto. repeat apply Forall_cons; try apply Forall_nil; unfold own_res; auto.
Qed.
Ltac cfin I Eh :=
  let I1 := fresh "I" in let I2 := fresh "I" in let I3 := fresh "I" in let I4 := fresh "I" in let I5 := fresh "I" in
  let I6 := fresh "I" in let I7 := fresh "I" in let I8 := fresh "I" in let I9 := fresh "I" in let I10 := fresh "I" in
  let I11 := fresh "I" in let I12 := fresh "I" in let I13 := fresh "I" in
  destruct I as [I1 I2 I3 I4 I5 I6 I7 I8 I9 I10 I11 I12 I13]; rewrite Eh in *; constructor; simpl in *;
  try assumption; try discriminate; try tauto; try (intros; discriminate); try (intros; congruence);
  try (intuition (try discriminate; try congruence); fail);
  try apply pinv_begin; try apply pinv_idle;
  try (unfold eof_evid; simpl; intuition (try discriminate; try congruence); fail).

Lemma close_stream_cinv sh c : cinv sh c -> cinv sh (close_stream c).
Proof.
  intros I. destruct I as [I1 I2 I3 I4 I5 I6 I7 I8 I9 I10 I11 I12 I13]. constructor; simpl in *; try assumption; try tauto.
  intros e He. specialize (I6 e He). unfold ret_closed in *. simpl. destruct (p_got (k_p c)) as [[[|] [|]]|]; tauto.
Qed.
Lemma close_target_cinv sh c : cinv sh c -> cinv sh (close_target c).
Proof.
  intros I. destruct I as [I1 I2 I3 I4 I5 I6 I7 I8 I9 I10 I11 I12 I13]. constructor; simpl in *; try assumption; try tauto.
  intros e He. specialize (I6 e He). unfold ret_closed in *. simpl.
    assert (Hx : t_ex (k_t c) = true).
    { destruct (t_ex (k_t c)) eqn:Ex; [reflexivity|]. destruct (I8 eq_refl) as [_ [_ [Hc _]]].
      destruct (p_got (k_p c)) as [[[|] [|]]|]; try tauto; try (destruct I6; congruence); try congruence.
      exfalso. destruct I1 as [Hpc _]. unfold pc_inv in Hpc. rewrite He in Hpc. destruct Hpc as [[s0 [r0 [Hg _]]] _].
      (* Up, true: the pipe ran, so the target exists *)
      destruct (k_h c) eqn:Eh; simpl in *;
        try (destruct (I2 eq_refl) as [Hp _]; rewrite Hp in He; discriminate);
        try (destruct (I3 eq_refl) as [Hp _]; congruence);
        try (destruct (I4 eq_refl) as [[Hp _]|[Hp _]]; [rewrite Hp in He; discriminate|congruence]). }
    rewrite Hx. destruct (p_got (k_p c)) as [[[|] [|]]|]; tauto.
Qed.
Lemma close_own_cinv sh c r : cinv sh c -> cinv sh (close_own c r).
Proof. destruct r; simpl; auto using close_stream_cinv, close_target_cinv. Qed.
Lemma fold_close_cinv sh rs c : cinv sh c -> cinv sh (fold_left close_own rs c).
Proof. revert c; induction rs as [|r rs IH]; simpl; intros c I; auto using close_own_cinv. Qed.

Lemma set_p_cinv sh c p' : cinv sh c -> pinv p' -> pre_pipe (k_h c) = false -> t_ex (k_t c) = true ->
  (k_h c = HPipe -> p_pc p' <> PIdle) -> (post_pipe (k_h c) = true -> exists e, p_pc p' = PRet e) ->
  (forall e, p_pc p' = PRet e -> ret_closed (set_p c p')) -> (eof_evid Up p' -> t_eof (k_t c) = true) -> cinv sh (set_p c p').
Proof.
  intros I H1 H2 Hx H3 H4 H5 H6.
  destruct I as [I1 I2 I3 I4 I5 I6 I7 I8 I9 I10 I11 I12 I13]. constructor; simpl in *; try assumption; try tauto; try congruence.
Qed.

Lemma h_final_cinv sh d cl i b c c' : shape_good sh -> cinv sh c -> h_final sh d cl i b c = Some c' -> cinv sh c'.
Proof.
  intros G I H. unfold h_final in H.
  destruct (h_local sh d cl true None i b c) as [o|] eqn:Hl; try discriminate. inv H.
  unfold h_local in Hl.
  pose proof (sg_err sh G) as E1. pose proof (sg_defer sh G) as E2. pose proof (sg_slots sh G) as E3. pose proof (sg_lock sh G) as E4.
  rewrite ?E1, ?E2, ?E3, ?E4 in *. simpl in *.
  destruct (k_h c) eqn:Eh; try discriminate.
  - (* HPeek *)
    destruct (negb (is_none (s_prop (k_s c)))).
    + inv Hl. simpl. cfin I Eh.
    + destruct (rd_down d cl c); try discriminate; inv Hl; simpl; cfin I Eh.
  - (* HNeg *)
    destruct (s_prop (k_s c)) as [served|].
    + destruct (negb (wr_down_ok d cl c)); [inv Hl; simpl; cfin I Eh|]. destruct served; inv Hl; simpl; cfin I Eh.
    + destruct (rd_down d cl c); try discriminate; inv Hl; simpl; cfin I Eh.
  - (* HLock *) exfalso. apply (ci_lock sh c I Eh).
  - (* HDial *)
    destruct (k_fate c) as [[|]|]; try discriminate; inv Hl; simpl; cfin I Eh.
  - (* HPipe *)
    pose proof (ci_pipe sh c I Eh) as [Htex Hnidle].
    destruct (p_pc (k_p c)) eqn:Epc; try congruence.
    + (* PStart *)
      destruct (sel_step sh b (k_p c)) as [[p' cz]|] eqn:Hs; try discriminate. inv Hl. simpl.
      pose proof (sel_step_pinv sh b _ _ _ (ci_p sh c I) Hs) as Ip'.
      pose proof (fun sd => sel_step_evid sh b _ _ _ sd Hs) as Ev.
      unfold sel_step in Hs. rewrite Epc in Hs. inv Hs. simpl in *.
      apply set_p_cinv; auto; rewrite ?Eh; simpl; try reflexivity; try discriminate; try (intros; discriminate).
      intros E. apply (ci_evid sh c I), Ev, E.
    + (* PSelect *)
      destruct (sel_step sh b (k_p c)) as [[p' cz]|] eqn:Hs; try discriminate. inv Hl. simpl.
      pose proof (sel_step_pinv sh b _ _ _ (ci_p sh c I) Hs) as Ip'.
      pose proof (fun sd => sel_step_evid sh b _ _ _ sd Hs) as Ev.
      assert (Hcz : cz = (false, false) /\ exists s r, p_pc p' = PGot s r).
      { unfold sel_step in Hs. rewrite Epc in Hs. destruct (p_dp (k_p c)), (p_up (k_p c)); try discriminate; [| |destruct b]; inv Hs; simpl; eauto. }
      destruct Hcz as [-> [s0 [r0 Hp']]]. simpl.
      apply set_p_cinv; auto; rewrite ?Eh; simpl; try reflexivity; try discriminate; try (intros; discriminate); try (intros; congruence).
      intros E. apply (ci_evid sh c I), Ev, E.
    + (* PGot *)
      pose proof (ci_p sh c I) as Ip. pose proof Ip as [Hpc _]. unfold pc_inv in Hpc. rewrite Epc in Hpc. destruct Hpc as [Hg [Hc1 Hc2]].
      assert (Ip' : pinv (set_ppc (k_p c) (PRet (negb eof)))).
      { eapply (sel_step_pinv sh b (k_p c)); [exact Ip|]. unfold sel_step. rewrite Epc. reflexivity. }
      assert (Ev : eof_evid Up (set_ppc (k_p c) (PRet (negb eof))) -> t_eof (k_t c) = true).
      { intros E. apply (ci_evid sh c I). unfold eof_evid in *. simpl in *. exact E. }
      unfold sel_step in Hl. rewrite Epc in Hl. inv Hl. unfold closes_res, closes_of. simpl.
      pose proof (sg_de_d sh G); pose proof (sg_de_u sh G); pose proof (sg_dx_d sh G); pose proof (sg_dx_u sh G).
      pose proof (sg_ue_d sh G); pose proof (sg_ue_u sh G); pose proof (sg_ux_d sh G); pose proof (sg_ux_u sh G).
      destruct s, eof; simpl;
        repeat match goal with H : _ sh = _ |- _ => rewrite H end; simpl.
      * change (cinv sh (set_p (close_target c) (set_ppc (k_p c) (PRet false)))).
        apply set_p_cinv; auto using close_target_cinv; simpl; rewrite ?Eh; simpl; try reflexivity; try discriminate; try (intros; discriminate); eauto.
        intros e _. unfold ret_closed. simpl. rewrite Hg. assumption.
      * change (cinv sh (set_p (close_target (close_stream c)) (set_ppc (k_p c) (PRet true)))).
        apply set_p_cinv; auto using close_target_cinv, close_stream_cinv; simpl; rewrite ?Eh; simpl; try reflexivity; try discriminate; try (intros; discriminate); eauto.
        intros e _. unfold ret_closed. simpl. rewrite Hg. auto.
      * change (cinv sh (set_p (close_stream c) (set_ppc (k_p c) (PRet false)))).
        apply set_p_cinv; auto using close_stream_cinv; simpl; rewrite ?Eh; simpl; try reflexivity; try discriminate; try (intros; discriminate); eauto.
        intros e _. unfold ret_closed. simpl. rewrite Hg. reflexivity.
      * change (cinv sh (set_p (close_target (close_stream c)) (set_ppc (k_p c) (PRet true)))).
        apply set_p_cinv; auto using close_target_cinv, close_stream_cinv; simpl; rewrite ?Eh; simpl; try reflexivity; try discriminate; try (intros; discriminate); eauto.
        intros e _. unfold ret_closed. simpl. rewrite Hg. auto.
    + (* PRet *)
      inv Hl. simpl.
      destruct (sh_mh_closes_up sh) eqn:Em; simpl.
      * pose proof (close_target_cinv sh c I) as I'. 
        change (cinv sh (set_h (close_target c) (HDefer err))).
        assert (Eh' : k_h (close_target c) = HPipe) by exact Eh.
        assert (Epc' : p_pc (k_p (close_target c)) = PRet err) by exact Epc.
        assert (Hc : t_closed (k_t (close_target c)) = true) by (simpl; exact Htex).
        assert (Hx : t_ex (k_t (close_target c)) = true) by exact Htex.
        revert I' Eh' Epc' Hc Hx. generalize (close_target c). intros c1 I' Eh' Epc' Hc Hx.
        destruct I' as [I1 I2 I3 I4 I5 I6 I7 I8 I9 I10 I11 I12 I13]. rewrite Eh' in *.
        constructor; simpl in *; try assumption; try discriminate; try tauto; try (intros; discriminate); try (intros; congruence); eauto.
        intros [X|X]; discriminate.
      * destruct I as [I1 I2 I3 I4 I5 I6 I7 I8 I9 I10 I11 I12 I13]. rewrite Eh in *.
        constructor; simpl in *; try assumption; try discriminate; try tauto; try (intros; discriminate); try (intros; congruence); eauto.
        intros [X|X]; discriminate.
  - (* HDefer *)
    inv Hl. simpl.
    change (cinv sh (set_h (close_stream c) (if err then HErrClose else HDone))).
    pose proof (close_stream_cinv sh c I) as I'.
    assert (Eh' : k_h (close_stream c) = HDefer err) by exact Eh.
    assert (Hc : s_srv_closed (k_s (close_stream c)) = true) by reflexivity.
    revert I' Eh' Hc. generalize (close_stream c). intros c1 I' Eh' Hc.
    destruct I' as [I1 I2 I3 I4 I5 I6 I7 I8 I9 I10 I11 I12 I13]. rewrite Eh' in *.
    destruct err; constructor; simpl in *; try assumption; try discriminate; try tauto; try (intros; discriminate); try (intros; congruence); eauto.
  - (* HErrClose *)
    inv Hl. simpl.
    change (cinv sh (set_h (close_stream c) HDone)).
    pose proof (close_stream_cinv sh c I) as I'.
    assert (Eh' : k_h (close_stream c) = HErrClose) by exact Eh.
    assert (Hc : s_srv_closed (k_s (close_stream c)) = true) by reflexivity.
    revert I' Eh' Hc. generalize (close_stream c). intros c1 I' Eh' Hc.
    destruct I' as [I1 I2 I3 I4 I5 I6 I7 I8 I9 I10 I11 I12 I13]. rewrite Eh' in *.
    constructor; simpl in *; try assumption; try discriminate; try tauto; try (intros; discriminate); try (intros; congruence); eauto.
Qed.
Lemma live_not_pre sh c sd : cinv sh c -> cop_live (cop_of sd (k_p c)) = true -> pre_pipe (k_h c) = false /\ t_ex (k_t c) = true.
Proof.
  intros I L. destruct (pre_pipe (k_h c)) eqn:Ep.
  - destruct (ci_pre sh c I Ep) as [Hp _]. rewrite Hp in L. destruct sd; discriminate.
  - split; [reflexivity|]. destruct (k_h c) eqn:Eh; try discriminate.
    + apply (ci_pipe sh c I Eh).
    + destruct (ci_post sh c I) as [[Hp _]|[Hx _]]; [rewrite Eh; reflexivity|rewrite Hp in L; destruct sd; discriminate|exact Hx].
    + destruct (ci_post sh c I) as [[Hp _]|[Hx _]]; [rewrite Eh; reflexivity|rewrite Hp in L; destruct sd; discriminate|exact Hx].
    + destruct (ci_post sh c I) as [[Hp _]|[Hx _]]; [rewrite Eh; reflexivity|rewrite Hp in L; destruct sd; discriminate|exact Hx].
Qed.

Lemma copier_step_live sh sd src ok p p' e : copier_step sh sd src ok p = Some (p', e) -> cop_live (cop_of sd p) = true.
Proof. unfold copier_step. destruct (cop_of sd p); try discriminate; reflexivity. Qed.

(* changes of the data fields only *)
Lemma data_cinv sh c s' t' : cinv sh c ->
  s_srv_closed s' = s_srv_closed (k_s c) -> s_acked s' = s_acked (k_s c) -> (s_c2s s' = true -> s_c2s (k_s c) = true) ->
  t_ex t' = t_ex (k_t c) -> t_closed t' = t_closed (k_t c) -> t_eof t' = t_eof (k_t c) -> t_err t' = t_err (k_t c) ->
  (t_t2s t' = true -> t_t2s (k_t c) = true) ->
  cinv sh (set_t (set_s c s') t').
Proof.
  intros I A1 A2 A3 B1 B2 B3 B4 B5.
  destruct I as [I1 I2 I3 I4 I5 I6 I7 I8 I9 I10 I11 I12 I13].
  constructor; simpl in *; rewrite ?A1, ?A2, ?B1, ?B2, ?B3, ?B4; try assumption; try tauto.
  - intros e He. specialize (I6 e He). unfold ret_closed in *. simpl. rewrite A1, B2. exact I6.
  - intros X. destruct (I8 X) as [P [Q [R S]]]. repeat split; try assumption. destruct (t_t2s t') eqn:E; [rewrite (B5 eq_refl) in S; discriminate|reflexivity].
Qed.

Lemma cop_local_cinv sh d cl sd c c' : shape_good sh -> cinv sh c -> cop_local sh d cl sd c = Some c' -> cinv sh c'.
Proof.
  intros G I H. unfold cop_local in H.
  destruct sd.
  - destruct (copier_step sh Down (rd_down d cl c) (wr_up_ok c) (k_p c)) as [[p' e]|] eqn:Hs; try discriminate.
    pose proof (copier_step_live _ _ _ _ _ _ _ Hs) as L. destruct (live_not_pre sh c Down I L) as [Np Hx].
    pose proof (copier_step_pinv _ _ _ _ _ _ _ G (ci_p sh c I) Hs) as Ip'.
    pose proof (copier_step_keeps _ _ _ _ _ _ _ G (ci_p sh c I) Hs) as [Kg [Kpc _]].
    assert (I' : cinv sh (set_p c p')).
    { apply set_p_cinv; auto.
      - intros Eh. rewrite Kpc. apply (ci_pipe sh c I Eh).
      - intros P. rewrite Kpc. destruct (ci_post sh c I P) as [[_ X]|[_ X]]; [congruence|exact X].
      - intros e0 He. rewrite Kpc in He. pose proof (ci_ret sh c I e0 He) as R. unfold ret_closed in *. simpl. rewrite Kg. exact R.
      - intros E. destruct (copier_step_evid _ _ _ _ _ _ _ Up G (ci_p sh c I) Hs E) as [E'|[X _]]; [apply (ci_evid sh c I E')|discriminate]. }
    inv H. destruct e; [exact I'| |].
    + apply (data_cinv sh (set_p c p')); simpl; auto; discriminate.
    + change (cinv sh (set_t (set_s (set_p c p') (s_with_c2s (k_s c) false)) (k_t (set_p c p')))).
      apply (data_cinv sh (set_p c p')); simpl; auto; discriminate.
  - destruct (copier_step sh Up (rd_up c) (wr_down_ok d cl c) (k_p c)) as [[p' e]|] eqn:Hs; try discriminate.
    pose proof (copier_step_live _ _ _ _ _ _ _ Hs) as L. destruct (live_not_pre sh c Up I L) as [Np Hx].
    pose proof (copier_step_pinv _ _ _ _ _ _ _ G (ci_p sh c I) Hs) as Ip'.
    pose proof (copier_step_keeps _ _ _ _ _ _ _ G (ci_p sh c I) Hs) as [Kg [Kpc _]].
    assert (I' : cinv sh (set_p c p')).
    { apply set_p_cinv; auto.
      - intros Eh. rewrite Kpc. apply (ci_pipe sh c I Eh).
      - intros P. rewrite Kpc. destruct (ci_post sh c I P) as [[_ X]|[_ X]]; [congruence|exact X].
      - intros e0 He. rewrite Kpc in He. pose proof (ci_ret sh c I e0 He) as R. unfold ret_closed in *. simpl. rewrite Kg. exact R.
      - intros E. destruct (copier_step_evid _ _ _ _ _ _ _ Up G (ci_p sh c I) Hs E) as [E'|[_ X]]; [apply (ci_evid sh c I E')|].
        unfold rd_up in X. destruct (t_closed (k_t c)); try discriminate. destruct (t_t2s (k_t c)); try discriminate.
        destruct (t_err (k_t c)); try discriminate. destruct (t_eof (k_t c)); [reflexivity|discriminate]. }
    inv H. destruct e; [exact I'| |].
    + change (cinv sh (set_t (set_s (set_p c p') (s_written (k_s c))) (t_with_t2s (k_t c) false))).
      apply (data_cinv sh (set_p c p')); simpl; auto; discriminate.
    + change (cinv sh (set_t (set_s (set_p c p') (k_s (set_p c p'))) (t_with_t2s (k_t c) false))).
      apply (data_cinv sh (set_p c p')); simpl; auto; discriminate.
Qed.
(* ---------------------------------------------------------------------------------------------------------------- the session *)
Lemma upd_upd {A} (l : list A) i f g : upd (upd l i f) i g = upd l i (fun x => g (f x)).
Proof. revert i; induction l as [|x r IH]; intros [|i]; simpl; auto. rewrite IH. reflexivity. Qed.
Lemma upd_ext {A} (l : list A) i f g : (forall x, f x = g x) -> upd l i f = upd l i g.
Proof. intros E. revert i; induction l as [|x r IH]; intros [|i]; simpl; auto. - rewrite E; reflexivity. - rewrite IH; reflexivity. Qed.
Lemma Forall_upd {A} (P : A -> Prop) (l : list A) i f : Forall P l -> (forall x, nth_error l i = Some x -> P (f x)) -> Forall P (upd l i f).
Proof.
  revert i; induction l as [|x r IH]; intros [|i] H Hf; simpl; auto.
  - inv H. constructor; auto.
  - inv H. constructor; auto.
Qed.
Lemma upd_nth_const {A} (l : list A) i x c : nth_error l i = Some x -> upd l i (fun _ => c) = upd l i (fun _ => c).
Proof. reflexivity. Qed.

Definition same_globals (s s' : sess) : Prop :=
  g_dead s' = g_dead s /\ g_closed s' = g_closed s /\ g_acc s' = g_acc s /\ g_last s' = g_last s /\ g_slots s' = g_slots s /\
  g_lock s' = g_lock s /\ g_acc_steps s' = g_acc_steps s.

Lemma fold_do_close_own i rs : Forall (own_res i) rs -> forall s,
  let s' := fold_left (do_close (AHand i)) rs s in
  g_conns s' = upd (g_conns s) i (fun c => fold_left close_own rs c) /\ same_globals s s' /\
  g_log s' = g_log s ++ map (fun r => (AHand i, r)) rs.
Proof.
  induction 1 as [|r rs Hr Hrs IH]; intros s; simpl.
  - split; [|split; [repeat split|rewrite app_nil_r; reflexivity]].
    clear. generalize (g_conns s) as l. intros l. revert i. induction l as [|x r IH]; intros [|i]; simpl; auto. rewrite <- IH. reflexivity.
  - specialize (IH (do_close (AHand i) s r)). simpl in IH. destruct IH as [A [B C]].
    destruct Hr as [-> | ->]; simpl in *.
    + rewrite A, upd_upd. split; [reflexivity|]. split; [exact B|]. rewrite C, <- app_assoc. reflexivity.
    + rewrite A, upd_upd. split; [reflexivity|]. split; [exact B|]. rewrite C, <- app_assoc. reflexivity.
Qed.

Lemma hand_step_spec sh s i b : shape_good sh -> forall c, nth_error (g_conns s) i = Some c -> k_h c <> HLock ->
  match h_final sh (g_dead s) (g_closed s) i b c with
  | None => hand_step sh s i b = None
  | Some c' => exists s' rs, hand_step sh s i b = Some s' /\ g_conns s' = upd (g_conns s) i (fun _ => c') /\ same_globals s s' /\
                             Forall (own_res i) rs /\ g_log s' = g_log s ++ map (fun r => (AHand i, r)) rs
  end.
Proof.
  intros G c Hn NL. unfold h_final, hand_step. rewrite Hn.
  destruct (h_local sh (g_dead s) (g_closed s) true None i b c) as [o|] eqn:H1.
  - destruct (h_local sh (g_dead s) (g_closed s) (lock_free s) (g_last s) i b c) as [o'|] eqn:H2.
    + destruct (h_local_good _ _ _ _ _ _ _ _ _ G NL H2) as [F [L [S H3]]]. rewrite H1 in H3. inv H3.
      eexists. exists (o_closes o'). split; [reflexivity|].
      unfold apply_hout. rewrite L, S.
      pose proof (fold_do_close_own i (o_closes o') F
        (with_lock_slots (with_conns s (upd (g_conns s) i (fun _ => o_conn o'))) (g_lock (with_conns s (upd (g_conns s) i (fun _ => o_conn o'))))
           (g_slots (with_conns s (upd (g_conns s) i (fun _ => o_conn o')))))) as [A [B C]].
      simpl in *. rewrite A, upd_upd. repeat split; try apply B; auto.
    + exfalso. unfold h_local in *. pose proof (sg_err sh G) as E1. pose proof (sg_lock sh G) as E4. rewrite ?E1, ?E4 in *.
      destruct (k_h c); try discriminate; try congruence.
  - destruct (h_local sh (g_dead s) (g_closed s) (lock_free s) (g_last s) i b c) as [o'|] eqn:H2; [|reflexivity].
    destruct (h_local_good _ _ _ _ _ _ _ _ _ G NL H2) as [_ [_ [_ H3]]]. congruence.
Qed.
Record sinv (sh : shape) (s : sess) : Prop := {
  si_conns : Forall (cinv sh) (g_conns s);
  si_acc : g_acc s <> ASlot;
  si_log : forallb own_close (g_log s) = true
}.

Lemma Forall_nth {A} (P : A -> Prop) l i x : Forall P l -> nth_error l i = Some x -> P x.
Proof. intros F H. rewrite Forall_forall in F. apply F. eapply nth_error_In; eauto. Qed.

Lemma first_pending_spec l k j : first_pending l k = Some j -> k <= j /\ exists c, nth_error l (j - k) = Some c /\ is_hnone c = true.
Proof.
  revert k; induction l as [|c r IH]; simpl; intros k H; try discriminate.
  destruct (is_hnone c) eqn:E.
  - inv H. split; [lia|]. rewrite Nat.sub_diag. exists c. auto.
  - destruct (IH _ H) as [L [c' [Hn Hc]]]. split; [lia|]. exists c'. split; [|exact Hc].
    replace (j - k) with (S (j - S k)) by lia. exact Hn.
Qed.

Lemma env_conn_spec s i f s' : env_conn s i f = Some s' ->
  exists c c', nth_error (g_conns s) i = Some c /\ f c = Some c' /\ s' = with_conns s (upd (g_conns s) i (fun _ => c')).
Proof.
  unfold env_conn. destruct (nth_error (g_conns s) i) as [c|]; try discriminate. destruct (f c) as [c'|] eqn:E; try discriminate.
  intros H; inv H. eauto.
Qed.

Ltac cinv_fields I :=
  let I1 := fresh "I" in let I2 := fresh "I" in let I3 := fresh "I" in let I4 := fresh "I" in let I5 := fresh "I" in
  let I6 := fresh "I" in let I7 := fresh "I" in let I8 := fresh "I" in let I9 := fresh "I" in let I10 := fresh "I" in
  let I11 := fresh "I" in let I12 := fresh "I" in let I13 := fresh "I" in
  destruct I as [I1 I2 I3 I4 I5 I6 I7 I8 I9 I10 I11 I12 I13].

Lemma sinv_env sh s i f s' : sinv sh s -> env_conn s i f = Some s' -> (forall c c', cinv sh c -> f c = Some c' -> cinv sh c') -> sinv sh s'.
Proof.
  intros [A B C] H Hf. destruct (env_conn_spec _ _ _ _ H) as [c [c' [Hn [Hc ->]]]].
  constructor; simpl; auto. apply Forall_upd; auto. intros x Hx. rewrite Hn in Hx. inv Hx. eapply Hf; eauto. eapply Forall_nth; eauto.
Qed.

Lemma set_s_cinv sh c s' : cinv sh c -> s_srv_closed s' = s_srv_closed (k_s c) -> s_acked s' = s_acked (k_s c) -> (s_c2s s' = true -> s_acked (k_s c) = true) ->
  cinv sh (set_s c s').
Proof.
  intros I A1 A2 A3. cinv_fields I. constructor; simpl in *; rewrite ?A1, ?A2; try assumption; try tauto.
  intros e He. specialize (I5 e He). unfold ret_closed in *. simpl. rewrite A1. exact I5.
Qed.

Lemma step_sinv sh s e : shape_good sh -> sinv sh s -> sinv sh (step sh s e).
Proof.
  intros G I. unfold step. destruct (step_opt sh s e) as [s'|] eqn:H; [|exact I].
  destruct e; simpl in H.
  - (* EOpen *) destruct (is_alive (g_dead s) && negb (g_closed s)); try discriminate. inv H. destruct I as [A B C].
    constructor; simpl; auto. apply Forall_app. split; [exact A|]. constructor; [apply cinv_new|constructor].
  - (* ESelect *) destruct (is_alive (g_dead s) && negb (g_closed s)); try discriminate.
    eapply sinv_env; eauto. intros c c' Ic; cbv beta.
    destruct (is_none (s_prop (k_s c)) && negb (s_cli_closed (k_s c)) && negb (s_acked (k_s c))); intros Hc; try discriminate. inv Hc.
    apply set_s_cinv; auto. simpl. apply (ci_c2s sh c Ic).
  - (* EAppClose *) eapply sinv_env; eauto. intros c c' Ic; cbv beta. destruct (s_cli_closed (k_s c)); intros Hc; try discriminate. inv Hc.
    apply set_s_cinv; auto. simpl. apply (ci_c2s sh c Ic).
  - (* EAppData *) destruct (is_alive (g_dead s) && negb (g_closed s)); try discriminate.
    eapply sinv_env; eauto. intros c c' Ic; cbv beta. destruct (s_acked (k_s c)) eqn:Ea; simpl; [|discriminate].
    destruct (negb (s_cli_closed (k_s c))); intros Hc; try discriminate. inv Hc. apply set_s_cinv; auto.
  - (* EDial *) eapply sinv_env; eauto. intros c c' Ic; cbv beta. destruct (is_none (k_fate c)); intros Hc; try discriminate. inv Hc.
    cinv_fields Ic. constructor; simpl in *; assumption.
  - (* ETgEof *) eapply sinv_env; eauto. intros c c' Ic; cbv beta. destruct (t_ex (k_t c)) eqn:Ex; simpl; [|discriminate].
    destruct (negb (t_eof (k_t c)) && negb (t_err (k_t c))); intros Hc; try discriminate. inv Hc.
    cinv_fields Ic. constructor; simpl in *; try assumption; try tauto; try congruence.
  - (* ETgErr *) eapply sinv_env; eauto. intros c c' Ic; cbv beta. destruct (t_ex (k_t c)) eqn:Ex; simpl; [|discriminate].
    destruct (negb (t_err (k_t c))); intros Hc; try discriminate. inv Hc.
    cinv_fields Ic. constructor; simpl in *; try assumption; try tauto; try congruence.
  - (* ETgData *) eapply sinv_env; eauto. intros c c' Ic; cbv beta. destruct (t_ex (k_t c)) eqn:Ex; simpl; [|discriminate].
    destruct (negb (t_eof (k_t c)) && negb (t_err (k_t c)) && negb (t_closed (k_t c))); intros Hc; try discriminate. inv Hc.
    cinv_fields Ic. constructor; simpl in *; try assumption; try tauto; try congruence.
  - (* EDie *) destruct (is_alive (g_dead s)); try discriminate. inv H. destruct I as [A B C]. constructor; simpl; auto.
  - (* SAccept *)
    destruct I as [A B C]. unfold acc_step in H. pose proof (sg_slots sh G) as E3.
    assert (Et : acc_top sh = AAccept) by (unfold acc_top; rewrite E3; reflexivity).
    destruct (g_acc s) eqn:Ea; try discriminate; try congruence.
    destruct ((g_closed s || negb (is_alive (g_dead s))) && (prefer_err || is_none (first_pending (g_conns s) 0))).
    + destruct (negb (g_closed s) && match g_dead s with DeadEof => true | _ => false end).
      * inv H. constructor; simpl; auto. destruct (sh_acc_quiet_returns sh); rewrite ?Et; discriminate.
      * inv H. destruct (sh_acc_err_closes_sess sh); constructor; simpl; auto; try (destruct (sh_acc_err_returns sh); rewrite ?Et; discriminate).
        rewrite forallb_app, C. reflexivity.
    + destruct (first_pending (g_conns s) 0) as [j|] eqn:Ef; try discriminate. inv H.
      destruct (first_pending_spec _ _ _ Ef) as [_ [c [Hn Hc]]]. rewrite Nat.sub_0_r in Hn.
      constructor; simpl; auto; [|rewrite Et; discriminate].
      apply Forall_upd; auto. intros x Hx. rewrite Hn in Hx. inv Hx.
      pose proof (Forall_nth _ _ _ _ A Hn) as Ic. unfold is_hnone in Hc. destruct (k_h x) eqn:Eh; try discriminate.
      cinv_fields Ic. rewrite Eh in *. constructor; simpl in *; try assumption; try tauto; try discriminate; try (intros; discriminate).
      intros [X|X]; discriminate.
  - (* SHand *)
    destruct (nth_error (g_conns s) i) as [c|] eqn:Hn; [|unfold hand_step in H; rewrite Hn in H; discriminate].
    destruct I as [A B C]. pose proof (Forall_nth _ _ _ _ A Hn) as Ic.
    pose proof (hand_step_spec sh s i pick_up G c Hn (ci_lock sh c Ic)) as Sp.
    destruct (h_final sh (g_dead s) (g_closed s) i pick_up c) as [c'|] eqn:Hf; [|congruence].
    destruct Sp as [s2 [rs [Hs [Hc [Hg [Fo Hl]]]]]]. rewrite H in Hs. inv Hs.
    destruct Hg as [_ [_ [Ha _]]].
    constructor; [rewrite Hc|rewrite Ha; exact B|].
    + apply Forall_upd; auto. intros x _. eapply h_final_cinv; eauto.
    + rewrite Hl, forallb_app, C. simpl. clear - Fo. induction Fo as [|r rs [->| ->] _ IH]; simpl; auto; unfold own_close; simpl; rewrite Nat.eqb_refl; exact IH.
  - (* SCopy *)
    unfold cop_step in H. destruct (nth_error (g_conns s) i) as [c|] eqn:Hn; try discriminate.
    destruct (cop_local sh (g_dead s) (g_closed s) sd c) as [c'|] eqn:Hc; try discriminate. inv H.
    destruct I as [A B C]. constructor; simpl; auto. apply Forall_upd; auto. intros x _.
    eapply cop_local_cinv; eauto. eapply Forall_nth; eauto.
Qed.

Lemma sinv_new sh : shape_good sh -> sinv sh (g_new sh).
Proof. intros G. constructor; simpl; auto. rewrite (sg_slots sh G). discriminate. Qed.

Lemma run_from_sinv sh evs : shape_good sh -> forall s, sinv sh s -> sinv sh (run_from sh s evs).
Proof. intros G. induction evs as [|e r IH]; simpl; intros s I; auto. apply IH. apply step_sinv; auto. Qed.
Lemma run_sinv sh evs : shape_good sh -> sinv sh (run sh evs).
Proof. intros G. apply run_from_sinv; auto. apply sinv_new; auto. Qed.
(* ---------------------------------------------------------------------------------------------------------------- reclamation *)
Lemma is_none_true {A} (o : option A) : is_none o = true -> o = None.
Proof. destruct o; simpl; congruence. Qed.

Lemma quiet_local sh s i c : shape_good sh -> sinv sh s -> nth_error (g_conns s) i = Some c -> conn_quiet sh s i = true ->
  h_final sh (g_dead s) (g_closed s) i false c = None /\ h_final sh (g_dead s) (g_closed s) i true c = None /\
  cop_local sh (g_dead s) (g_closed s) Down c = None /\ cop_local sh (g_dead s) (g_closed s) Up c = None.
Proof.
  intros G I Hn Q. unfold conn_quiet in Q.
  repeat (apply andb_prop in Q; destruct Q as [Q ?]).
  repeat match goal with H : is_none _ = true |- _ => apply is_none_true in H end.
  pose proof (Forall_nth _ _ _ _ (si_conns sh s I) Hn) as Ic.
  pose proof (hand_step_spec sh s i false G c Hn (ci_lock sh c Ic)) as S1.
  pose proof (hand_step_spec sh s i true G c Hn (ci_lock sh c Ic)) as S2.
  repeat split.
  - destruct (h_final sh (g_dead s) (g_closed s) i false c); [destruct S1 as [? [? [X _]]]; congruence|reflexivity].
  - destruct (h_final sh (g_dead s) (g_closed s) i true c); [destruct S2 as [? [? [X _]]]; congruence|reflexivity].
  - unfold cop_step in *. rewrite Hn in *. destruct (cop_local sh (g_dead s) (g_closed s) Down c); [discriminate|reflexivity].
  - unfold cop_step in *. rewrite Hn in *. destruct (cop_local sh (g_dead s) (g_closed s) Up c); [discriminate|reflexivity].
Qed.

Lemma cop_local_none sh d cl sd c : cop_local sh d cl sd c = None ->
  match sd with
  | Down => copier_step sh Down (rd_down d cl c) (wr_up_ok c) (k_p c) = None
  | Up => copier_step sh Up (rd_up c) (wr_down_ok d cl c) (k_p c) = None
  end.
Proof. unfold cop_local. destruct sd; [destruct (copier_step sh Down _ _ _) as [[? ?]|]|destruct (copier_step sh Up _ _ _) as [[? ?]|]]; congruence. Qed.

Lemma rd_down_ended d cl c : s_c2s (k_s c) = false -> (s_cli_closed (k_s c) || negb (is_alive d) || cl = true) -> rd_down d cl c = REof \/ rd_down d cl c = RErr.
Proof.
  intros Hc H. unfold rd_down. rewrite Hc. destruct (s_srv_closed (k_s c)); auto. destruct (s_cli_closed (k_s c)); auto.
  destruct cl; auto. destruct d; simpl in *; auto. discriminate.
Qed.

Theorem conn_reclaimed sh s i c : shape_good sh -> sinv sh s -> nth_error (g_conns s) i = Some c -> k_h c <> HNone ->
  ended s c = true -> dial_settled c = true -> conn_quiet sh s i = true -> released sh c = true.
Proof.
  intros G I Hn NN En Ds Q.
  destruct (quiet_local sh s i c G I Hn Q) as [Q1 [Q2 [Q3 Q4]]].
  pose proof (Forall_nth _ _ _ _ (si_conns sh s I) Hn) as Ic.
  apply cop_local_none in Q3. apply cop_local_none in Q4.
  set (d := g_dead s) in *. set (cl := g_closed s) in *.
  unfold h_final, h_local in Q1.
  pose proof (sg_err sh G) as E1. pose proof (sg_defer sh G) as E2. pose proof (sg_slots sh G) as E3. pose proof (sg_lock sh G) as E4.
  rewrite ?E1, ?E2, ?E3, ?E4 in Q1. simpl in Q1.
  assert (EndPre : pre_pipe (k_h c) = true -> pre_ack (k_h c) = true -> rd_down d cl c = REof \/ rd_down d cl c = RErr).
  { intros P A. destruct (ci_pre sh c Ic P) as [_ Hx]. destruct (ci_tex sh c Ic Hx) as [Te [Tr _]].
    assert (Hc2 : s_c2s (k_s c) = false).
    { destruct (s_c2s (k_s c)) eqn:E; [|reflexivity]. pose proof (ci_c2s sh c Ic E) as X1. pose proof (ci_ack sh c Ic A) as X2. congruence. }
    apply rd_down_ended; auto. unfold ended in En. rewrite Te, Tr in En.
    destruct (k_dialfail c) eqn:Ef; [pose proof (ci_fail sh c Ic Ef) as X; destruct (k_h c); discriminate|].
    rewrite !orb_false_r in En. fold d cl in En. destruct cl; [rewrite !orb_true_r; reflexivity|]. rewrite orb_false_r in En. rewrite En. reflexivity. }
  destruct (k_h c) eqn:Eh; try congruence.
  - (* HPeek *) exfalso. destruct (negb (is_none (s_prop (k_s c)))); try discriminate.
    destruct (EndPre eq_refl eq_refl) as [X|X]; rewrite X in Q1; discriminate.
  - (* HNeg *) exfalso. destruct (s_prop (k_s c)) as [sv|].
    + destruct (negb (wr_down_ok d cl c)); try discriminate. destruct sv; discriminate.
    + destruct (EndPre eq_refl eq_refl) as [X|X]; rewrite X in Q1; discriminate.
  - (* HDial *) exfalso. unfold dial_settled in Ds. rewrite Eh in Ds. destruct (k_fate c) as [[|]|]; discriminate.
  - (* HPipe *) exfalso.
    destruct (ci_pipe sh c Ic Eh) as [Hx Hni].
    destruct (p_pc (k_p c)) eqn:Epc; try congruence; try discriminate.
    + (* PStart *) unfold sel_step in Q1. rewrite Epc in Q1. discriminate.
    + (* PSelect *)
      assert (Hs : sel_step sh false (k_p c) = None) by (destruct (sel_step sh false (k_p c)) as [[? ?]|]; [discriminate|reflexivity]).
      destruct (select_blocked sh (k_p c) (ci_p sh c Ic) Epc Hs) as [L1 L2].
      destruct (copier_blocked sh Down _ _ _ G (ci_p sh c Ic) Q3 L1) as [_ B1].
      destruct (copier_blocked sh Up _ _ _ G (ci_p sh c Ic) Q4 L2) as [_ B2].
      unfold ended in En. fold d cl in En.
      unfold rd_down in B1. unfold rd_up in B2.
      destruct (s_srv_closed (k_s c)); try discriminate. destruct (s_c2s (k_s c)); try discriminate.
      destruct (s_cli_closed (k_s c)); try discriminate. destruct cl; try discriminate.
      destruct (t_closed (k_t c)); try discriminate. destruct (t_t2s (k_t c)); try discriminate.
      destruct (t_err (k_t c)); try discriminate. destruct (t_eof (k_t c)); try discriminate.
      destruct (k_dialfail c) eqn:Ef; [pose proof (ci_fail sh c Ic Ef) as X; rewrite Eh in X; discriminate|].
      destruct d; simpl in *; discriminate.
    + (* PGot *) unfold sel_step in Q1. rewrite Epc in Q1. discriminate.
  - (* HDone *)
    pose proof (ci_closed sh c Ic (or_intror Eh)) as Hsc.
    unfold released. rewrite Eh, Hsc. simpl.
    assert (Rd : rd_down d cl c = RErr) by (unfold rd_down; rewrite Hsc; reflexivity).
    assert (L1 : cop_live (p_cd (k_p c)) = false).
    { destruct (cop_live (p_cd (k_p c))) eqn:L; [|reflexivity]. exfalso.
      destruct (copier_blocked sh Down _ _ _ G (ci_p sh c Ic) Q3 L) as [_ B1]. congruence. }
    destruct (ci_post sh c Ic) as [[Hp Hx]|[Hx [e Hr]]]; [rewrite Eh; reflexivity| |].
    + rewrite Hp. simpl. unfold target_held. rewrite Hx. reflexivity.
    + rewrite L1. simpl.
      pose proof (ci_ret sh c Ic e Hr) as R. unfold ret_closed in R.
      pose proof (ci_p sh c Ic) as [Hpc [Sd Su]].
      unfold target_held. rewrite Hx. simpl.
      destruct (t_closed (k_t c)) eqn:Tc.
      * simpl. rewrite andb_true_r.
        destruct (cop_live (p_cu (k_p c))) eqn:L; [|reflexivity]. exfalso.
        destruct (copier_blocked sh Up _ _ _ G (ci_p sh c Ic) Q4 L) as [_ B2]. unfold rd_up in B2. rewrite Tc in B2. discriminate.
      * (* the target was never closed: the select consumed io.EOF from the up side *)
        destruct (p_got (k_p c)) as [[[|] [|]]|] eqn:Eg; try (destruct R; congruence); try congruence; try tauto.
        assert (Cu : p_cu (k_p c) = CDone).
        { unfold side_inv, not_got in Su. simpl in Su. destruct (p_cu (k_p c)) eqn:Ecu; try reflexivity.
          - unfold pc_inv in Hpc. rewrite Hr in Hpc. destruct Hpc as [_ [_ X]]. congruence.
          - destruct Su as [_ X]. exfalso. apply (X true). exact Eg.
          - destruct Su as [_ X]. exfalso. apply (X true). exact Eg. }
        rewrite Cu. simpl.
        assert (Te : t_eof (k_t c) = true) by (apply (ci_evid sh c Ic); right; right; exact Eg).
        rewrite Te. destruct (sh_mh_closes_up sh) eqn:Em; [|reflexivity].
        exfalso. pose proof (ci_mh sh c Ic Em) as X. rewrite Eh in X. specialize (X eq_refl Hx). congruence.
Qed.
Lemma sum_nat_zero {A} (f : A -> nat) l : (forall x, In x l -> f x = 0) -> sum_nat (map f l) = 0.
Proof. induction l as [|x r IH]; simpl; intros H; auto. rewrite (H x (or_introl eq_refl)), IH; auto. Qed.
Lemma count_zero (f : conn -> bool) l : (forall x, In x l -> f x = false) -> count f l = 0.
Proof. unfold count. induction l as [|x r IH]; simpl; intros H; auto. rewrite (H x (or_introl eq_refl)). apply IH. auto. Qed.

Lemma released_nothing sh c : released sh c = true ->
  goroutines_of c = 0 /\ stream_held c = false /\ (target_held c && negb (target_left_to_gc c)) = false.
Proof.
  unfold released, goroutines_of, stream_held, target_left_to_gc, h_live. intros H.
  repeat (apply andb_prop in H; destruct H as [H ?]).
  destruct (k_h c); try discriminate.
  repeat match goal with H : negb _ = true |- _ => apply negb_true_iff in H end.
  rewrite H2, H3, H1. simpl. split; [reflexivity|]. split; [apply andb_false_r|].
  apply orb_prop in H0. destruct H0 as [H0|H0].
  - apply negb_true_iff in H0. rewrite H0. reflexivity.
  - apply andb_prop in H0. destruct H0 as [_ Te]. rewrite Te. destruct (target_held c); reflexivity.
Qed.

Lemma hnone_nothing sh c : cinv sh c -> k_h c = HNone ->
  goroutines_of c = 0 /\ stream_held c = false /\ (target_held c && negb (target_left_to_gc c)) = false.
Proof.
  intros I Eh. destruct (ci_pre sh c I) as [Hp Hx]; [rewrite Eh; reflexivity|].
  unfold goroutines_of, stream_held, target_held, h_live, is_hnone. rewrite Eh, Hp, Hx. simpl. auto.
Qed.

Theorem session_reclaimed sh s : shape_good sh -> sinv sh s -> g_dead s <> Alive -> quiet sh s = true ->
  forallb dial_settled (g_conns s) = true ->
  g_acc s = AExited /\ (forall i c, nth_error (g_conns s) i = Some c -> k_h c <> HNone -> released sh c = true) /\ footprint s = 0.
Proof.
  intros G I D Q Ds. unfold quiet in Q.
  apply andb_prop in Q. destruct Q as [Q Qc]. apply andb_prop in Q. destruct Q as [_ Qa].
  assert (Ea : g_acc s = AExited).
  { apply is_none_true in Qa. unfold acc_step in Qa. destruct (g_acc s) eqn:Ea; auto.
    - exfalso. apply (si_acc sh s I Ea).
    - exfalso. destruct (g_dead s) eqn:Ed; try congruence; simpl in Qa; rewrite orb_true_r in Qa; simpl in Qa;
        repeat match goal with
               | H : context [if ?b then _ else _] |- _ => destruct b
               end; discriminate. }
  assert (R : forall i c, nth_error (g_conns s) i = Some c -> k_h c <> HNone -> released sh c = true).
  { intros i c Hn NN. apply (conn_reclaimed sh s i c G I Hn NN).
    - unfold ended. destruct (g_dead s); try congruence; simpl; rewrite !orb_true_r; reflexivity.
    - rewrite forallb_forall in Ds. apply Ds. eapply nth_error_In; eauto.
    - rewrite forallb_forall in Qc. apply Qc. apply in_seq. split; [lia|]. simpl. apply nth_error_Some. congruence. }
  split; [exact Ea|]. split; [exact R|].
  assert (N : forall c, In c (g_conns s) -> goroutines_of c = 0 /\ stream_held c = false /\ (target_held c && negb (target_left_to_gc c)) = false).
  { intros c Hin. destruct (In_nth_error _ _ Hin) as [i Hn].
    destruct (k_h c) eqn:Eh; try (apply (released_nothing sh); apply (R i c Hn); congruence).
    apply (hnone_nothing sh); auto. apply (Forall_nth _ _ _ _ (si_conns sh s I) Hn). }
  unfold footprint. rewrite Ea. rewrite sum_nat_zero, !count_zero; auto; intros x Hx; apply (N x Hx).
Qed.

(* ---------------------------------------------------------------------------------------------------------------- the accept loop ends *)
Lemma exited_stays sh s e : g_acc s = AExited -> g_acc (step sh s e) = AExited /\ g_acc_steps (step sh s e) = g_acc_steps s.
Proof.
  intros Ea. unfold step. destruct (step_opt sh s e) as [s'|] eqn:H; [|auto].
  destruct e; simpl in H;
    try match type of H with (if ?b then _ else _) = _ => revert H; destruct b; intros H; [|discriminate] end;
    try (apply env_conn_spec in H; destruct H as [c [c' [_ [_ ->]]]]; simpl; auto).
  - inv H. simpl. auto.
  - inv H. simpl. auto.
  - unfold acc_step in H. rewrite Ea in H. discriminate.
  - unfold hand_step in H. destruct (nth_error (g_conns s) i); try discriminate.
    destruct (h_local sh (g_dead s) (g_closed s) (lock_free s) (g_last s) i pick_up c) as [o|]; try discriminate. inv H.
    unfold apply_hout.
    assert (X : forall rs s0, g_acc (fold_left (do_close (AHand i)) rs s0) = g_acc s0 /\ g_acc_steps (fold_left (do_close (AHand i)) rs s0) = g_acc_steps s0).
    { induction rs as [|r rs IH]; simpl; auto. intros s0. destruct (IH (do_close (AHand i) s0 r)) as [A B]. rewrite A, B. destruct r; simpl; auto. }
    destruct (X (o_closes o) (with_lock_slots (with_conns s (upd (g_conns s) i (fun _ : conn => o_conn o)))
      match o_lock o with LKeep => g_lock (with_conns s (upd (g_conns s) i (fun _ : conn => o_conn o))) | LTake => Some i | LFree => None end
      (if o_slot o then Nat.pred (g_slots (with_conns s (upd (g_conns s) i (fun _ : conn => o_conn o)))) else g_slots (with_conns s (upd (g_conns s) i (fun _ : conn => o_conn o)))))) as [A B].
    rewrite A, B. simpl. auto.
Qed.

Theorem no_busy_loop sh s evs : g_acc s = AExited ->
  g_acc (run_from sh s evs) = AExited /\ g_acc_steps (run_from sh s evs) = g_acc_steps s /\ forall b, step_opt sh (run_from sh s evs) (SAccept b) = None.
Proof.
  revert s. induction evs as [|e r IH]; simpl; intros s Ea.
  - repeat split; auto. intros b. unfold acc_step. rewrite Ea. reflexivity.
  - destruct (exited_stays sh s e Ea) as [A B]. destruct (IH _ A) as [C [D E]]. rewrite B in D. auto.
Qed.

(* a terminal accept error ends the loop with its next step *)
Theorem accept_exits sh s : shape_good sh -> g_acc s = AAccept -> g_dead s <> Alive \/ g_closed s = true ->
  g_acc (step sh s (SAccept true)) = AExited /\
  (first_pending (g_conns s) 0 = None -> g_acc (step sh s (SAccept false)) = AExited).
Proof.
  intros G Ea F. pose proof (sg_quiet sh G) as E1. pose proof (sg_ret sh G) as E2.
  assert (Ff : (g_closed s || negb (is_alive (g_dead s))) = true).
  { destruct F as [F|F]; [destruct (g_dead s); try congruence; simpl; apply orb_true_r|rewrite F; reflexivity]. }
  unfold step; simpl. unfold acc_step. rewrite Ea, Ff, E1, E2. simpl. split.
  - destruct (negb (g_closed s) && match g_dead s with DeadEof => true | _ => false end); simpl; auto;
      destruct (sh_acc_err_closes_sess sh); reflexivity.
  - intros P. rewrite P. simpl.
    destruct (negb (g_closed s) && match g_dead s with DeadEof => true | _ => false end); simpl; auto;
      destruct (sh_acc_err_closes_sess sh); reflexivity.
Qed.
(* ---------------------------------------------------------------------------------------------------------------- ownership, independence *)
(* what an event of connection j does, as a function of that connection's own record and of the session's fate alone *)
Definition conn_step (sh : shape) (d : dstate) (cl : bool) (e : ev) (j : nat) (c : conn) : option conn :=
  match e with
  | ESelect _ b => if is_alive d && negb cl then
                     (if is_none (s_prop (k_s c)) && negb (s_cli_closed (k_s c)) && negb (s_acked (k_s c)) then Some (set_s c (s_with_prop (k_s c) (Some b))) else None)
                   else None
  | EAppClose _ => if s_cli_closed (k_s c) then None else Some (set_s c (s_with_cli_closed (k_s c)))
  | EAppData _ => if is_alive d && negb cl then
                    (if s_acked (k_s c) && negb (s_cli_closed (k_s c)) then Some (set_s c (s_with_c2s (k_s c) true)) else None)
                  else None
  | EDial _ b => if is_none (k_fate c) then Some (set_fate c (Some b)) else None
  | ETgEof _ => if t_ex (k_t c) && negb (t_eof (k_t c)) && negb (t_err (k_t c)) then Some (set_t c (t_with_eof (k_t c))) else None
  | ETgErr _ => if t_ex (k_t c) && negb (t_err (k_t c)) then Some (set_t c (t_with_err (k_t c))) else None
  | ETgData _ => if t_ex (k_t c) && negb (t_eof (k_t c)) && negb (t_err (k_t c)) && negb (t_closed (k_t c)) then Some (set_t c (t_with_t2s (k_t c) true)) else None
  | SHand _ b => h_final sh d cl j b c
  | SCopy _ sd => cop_local sh d cl sd c
  | _ => None
  end.

Lemma env_conn_local s i f c : nth_error (g_conns s) i = Some c ->
  env_conn s i f = match f c with Some c' => Some (with_conns s (upd (g_conns s) i (fun _ => c'))) | None => None end.
Proof. intros Hn. unfold env_conn. rewrite Hn. reflexivity. Qed.

Lemma step_local sh s e j c : shape_good sh -> sinv sh s -> ev_conn e = Some j -> nth_error (g_conns s) j = Some c ->
  match conn_step sh (g_dead s) (g_closed s) e j c with
  | None => step_opt sh s e = None
  | Some c' => exists s' rs, step_opt sh s e = Some s' /\ g_conns s' = upd (g_conns s) j (fun _ => c') /\ same_globals s s' /\
                             Forall (own_res j) rs /\ g_log s' = g_log s ++ map (fun r => (AHand j, r)) rs
  end.
Proof.
  intros G I Ev Hn.
  assert (Env : forall f, match f c with
                          | None => env_conn s j f = None
                          | Some c' => exists s' rs, env_conn s j f = Some s' /\ g_conns s' = upd (g_conns s) j (fun _ => c') /\ same_globals s s' /\
                                                     Forall (own_res j) rs /\ g_log s' = g_log s ++ map (fun r => (AHand j, r)) rs
                          end).
  { intros f. rewrite (env_conn_local s j f c Hn). destruct (f c) as [c'|]; [|reflexivity].
    eexists. exists []. split; [reflexivity|]. simpl. rewrite app_nil_r. repeat split; auto. }
  destruct e; simpl in Ev; try discriminate; inv Ev; simpl.
  - destruct (is_alive (g_dead s) && negb (g_closed s)); [|reflexivity]. apply (Env (fun c => if is_none (s_prop (k_s c)) && negb (s_cli_closed (k_s c)) && negb (s_acked (k_s c)) then Some (set_s c (s_with_prop (k_s c) (Some served))) else None)).
  - apply (Env (fun c => if s_cli_closed (k_s c) then None else Some (set_s c (s_with_cli_closed (k_s c))))).
  - destruct (is_alive (g_dead s) && negb (g_closed s)); [|reflexivity]. apply (Env (fun c => if s_acked (k_s c) && negb (s_cli_closed (k_s c)) then Some (set_s c (s_with_c2s (k_s c) true)) else None)).
  - apply (Env (fun c => if is_none (k_fate c) then Some (set_fate c (Some ok)) else None)).
  - apply (Env (fun c => if t_ex (k_t c) && negb (t_eof (k_t c)) && negb (t_err (k_t c)) then Some (set_t c (t_with_eof (k_t c))) else None)).
  - apply (Env (fun c => if t_ex (k_t c) && negb (t_err (k_t c)) then Some (set_t c (t_with_err (k_t c))) else None)).
  - apply (Env (fun c => if t_ex (k_t c) && negb (t_eof (k_t c)) && negb (t_err (k_t c)) && negb (t_closed (k_t c)) then Some (set_t c (t_with_t2s (k_t c) true)) else None)).
  - apply (hand_step_spec sh s j pick_up G c Hn). apply (ci_lock sh c). apply (Forall_nth _ _ _ _ (si_conns sh s I) Hn).
  - unfold cop_step. rewrite Hn. destruct (cop_local sh (g_dead s) (g_closed s) sd c) as [c'|]; [|reflexivity].
    eexists. exists []. split; [reflexivity|]. simpl. rewrite app_nil_r. repeat split; auto.
Qed.

Lemma step_absent sh s e j : ev_conn e = Some j -> nth_error (g_conns s) j = None -> step_opt sh s e = None.
Proof.
  intros Ev Hn. destruct e; simpl in Ev; try discriminate; inv Ev; simpl; unfold env_conn, hand_step, cop_step; rewrite Hn;
    try reflexivity; destruct (is_alive (g_dead s) && negb (g_closed s)); reflexivity.
Qed.

(* FRAME: an event of connection i - a step of its handler goroutine or of its copy loops, or something its peers do - leaves every other
   connection's record, and the session's own state, as they were; what it closes is its own *)
Theorem frame_step sh s e i : shape_good sh -> sinv sh s -> ev_conn e = Some i ->
  (forall j, j <> i -> nth_error (g_conns (step sh s e)) j = nth_error (g_conns s) j) /\ same_globals s (step sh s e) /\
  exists rs, Forall (own_res i) rs /\ g_log (step sh s e) = g_log s ++ map (fun r => (AHand i, r)) rs.
Proof.
  intros G I Ev. unfold step.
  destruct (nth_error (g_conns s) i) as [c|] eqn:Hn.
  - pose proof (step_local sh s e i c G I Ev Hn) as L.
    destruct (conn_step sh (g_dead s) (g_closed s) e i c) as [c'|].
    + destruct L as [s' [rs [-> [Hc [Hg [Fo Hl]]]]]]. split; [|split; [exact Hg|exists rs; auto]].
      intros j Hj. rewrite Hc. apply nth_error_upd_other. congruence.
    + rewrite L. split; [auto|]. split; [repeat split|]. exists []. simpl. rewrite app_nil_r. auto.
  - rewrite (step_absent sh s e i Ev Hn). split; [auto|]. split; [repeat split|]. exists []. simpl. rewrite app_nil_r. auto.
Qed.

(* ... for every history: every close ever made was made by the owner of what it closed *)
Theorem closes_are_own sh evs : shape_good sh -> forall x, In x (g_log (run sh evs)) -> fst x = owner (snd x).
Proof.
  intros G x Hx. pose proof (si_log sh _ (run_sinv sh evs G)) as L. rewrite forallb_forall in L. specialize (L x Hx).
  unfold own_close in L. destruct x as [[|a] [|r|r]]; simpl in *; try discriminate; auto; apply Nat.eqb_eq in L; congruence.
Qed.

(* INDEPENDENCE: what connection j can do next, and what becomes of it, is a function of j's own record and of the session's fate - of nothing
   that belongs to another connection *)
Definition view (s : sess) (j : nat) : option conn * dstate * bool := (nth_error (g_conns s) j, g_dead s, g_closed s).

Theorem independent sh s s' e j : shape_good sh -> sinv sh s -> sinv sh s' -> ev_conn e = Some j -> view s j = view s' j ->
  view (step sh s e) j = view (step sh s' e) j /\ enabled sh s e = enabled sh s' e.
Proof.
  intros G I I' Ev V. unfold view in V. inv V. unfold view, enabled, step.
  destruct (nth_error (g_conns s') j) as [c|] eqn:Hn'.
  - rename H0 into Hn. pose proof (step_local sh s e j c G I Ev Hn) as L. pose proof (step_local sh s' e j c G I' Ev Hn') as L'.
    rewrite H1, H2 in L.
    destruct (conn_step sh (g_dead s') (g_closed s') e j c) as [c'|].
    + destruct L as [t [rs [-> [Hc [Hg _]]]]]. destruct L' as [t' [rs' [-> [Hc' [Hg' _]]]]].
      destruct Hg as [A [B _]]. destruct Hg' as [A' [B' _]]. simpl.
      rewrite Hc, Hc', A, A', B, B', !nth_error_upd_same, Hn, Hn', H1, H2. auto.
    + rewrite L, L'. simpl. rewrite Hn, Hn', H1, H2. auto.
  - rename H0 into Hn. rewrite (step_absent sh s e j Ev Hn), (step_absent sh s' e j Ev Hn'). simpl. rewrite Hn, Hn', H1, H2. auto.
Qed.

(* the accept loop takes up the oldest waiting stream with its next step, whatever state the other connections are in *)
Theorem accept_serves sh s b j : shape_good sh -> g_acc s = AAccept -> g_dead s = Alive -> g_closed s = false ->
  first_pending (g_conns s) 0 = Some j ->
  exists c, nth_error (g_conns s) j = Some c /\ nth_error (g_conns (step sh s (SAccept b))) j = Some (set_h c HPeek) /\
            g_acc (step sh s (SAccept b)) = AAccept /\
            forall k, k <> j -> nth_error (g_conns (step sh s (SAccept b))) k = nth_error (g_conns s) k.
Proof.
  intros G Ea Ed Ec Fp. destruct (first_pending_spec _ _ _ Fp) as [_ [c [Hn _]]]. rewrite Nat.sub_0_r in Hn.
  exists c. split; [exact Hn|]. unfold step; simpl. unfold acc_step. rewrite Ea, Ed, Ec, Fp. simpl.
  unfold acc_top. rewrite (sg_slots sh G). simpl. rewrite nth_error_upd_same, Hn. simpl. repeat split; auto.
  intros k Hk. apply nth_error_upd_other. congruence.
Qed.
(* ---------------------------------------------------------------------------------------------------------------- reachability, quiescence *)
Definition reach (sh : shape) (s : sess) : Prop := exists evs, s = run sh evs.

Lemma run_from_app sh s a b : run_from sh s (a ++ b) = run_from sh (run_from sh s a) b.
Proof. unfold run_from. apply fold_left_app. Qed.
Lemma reach_new sh : reach sh (g_new sh). Proof. exists []. reflexivity. Qed.
Lemma reach_step sh s e : reach sh s -> reach sh (step sh s e).
Proof. intros [evs ->]. exists (evs ++ [e]). unfold run. rewrite run_from_app. reflexivity. Qed.
Lemma reach_run_from sh s evs : reach sh s -> reach sh (run_from sh s evs).
Proof. revert s; induction evs as [|e r IH]; simpl; intros s R; auto. apply IH, reach_step, R. Qed.
Lemma first_enabled_is_step sh s cands s' : first_enabled sh s cands = Some s' -> exists e, s' = step sh s e.
Proof.
  induction cands as [|e r IH]; simpl; try discriminate. destruct (step_opt sh s e) as [t|] eqn:H.
  - intros X; inv X. exists e. unfold step. rewrite H. reflexivity.
  - exact IH.
Qed.
Lemma reach_settle sh n s : reach sh s -> reach sh (settle sh n s).
Proof.
  revert s; induction n as [|n IH]; intros s R; [exact R|]. cbn [settle].
  destruct (first_enabled sh s (sched_cands s)) as [s'|] eqn:H; auto.
  destruct (first_enabled_is_step _ _ _ _ H) as [e ->]. apply IH, reach_step, R.
Qed.
Lemma reach_es sh s e : reach sh s -> reach sh (env_then_settle sh s e).
Proof. intros R. unfold env_then_settle. apply reach_settle, reach_step, R. Qed.
Lemma reach_sinv sh s : shape_good sh -> reach sh s -> sinv sh s.
Proof. intros G [evs ->]. apply run_sinv, G. Qed.

(* in a quiescent state no goroutine can take a step: whatever the scheduler tries, nothing changes until the environment acts *)
Lemma quiet_no_sched sh s e : quiet sh s = true -> is_sched e = true -> step_opt sh s e = None.
Proof.
  intros Q S. unfold quiet in Q. apply andb_prop in Q. destruct Q as [Q Qc]. apply andb_prop in Q. destruct Q as [Q1 Q2].
  apply is_none_true in Q1. apply is_none_true in Q2.
  destruct e; try discriminate; simpl.
  - destruct prefer_err; assumption.
  - destruct (Nat.ltb i (List.length (g_conns s))) eqn:L.
    + apply Nat.ltb_lt in L. rewrite forallb_forall in Qc. specialize (Qc i). rewrite in_seq in Qc. specialize (Qc (conj (Nat.le_0_l i) L)).
      unfold conn_quiet in Qc. repeat (apply andb_prop in Qc; destruct Qc as [Qc ?]).
      repeat match goal with H : is_none _ = true |- _ => apply is_none_true in H end. destruct pick_up; assumption.
    + apply Nat.ltb_ge in L. unfold hand_step. apply nth_error_None in L. rewrite L. reflexivity.
  - destruct (Nat.ltb i (List.length (g_conns s))) eqn:L.
    + apply Nat.ltb_lt in L. rewrite forallb_forall in Qc. specialize (Qc i). rewrite in_seq in Qc. specialize (Qc (conj (Nat.le_0_l i) L)).
      unfold conn_quiet in Qc. repeat (apply andb_prop in Qc; destruct Qc as [Qc ?]).
      repeat match goal with H : is_none _ = true |- _ => apply is_none_true in H end. destruct sd; assumption.
    + apply Nat.ltb_ge in L. unfold cop_step. apply nth_error_None in L. rewrite L. reflexivity.
Qed.
Theorem quiet_stuck sh s evs : quiet sh s = true -> forallb is_sched evs = true -> run_from sh s evs = s.
Proof.
  intros Q. induction evs as [|e r IH]; simpl; intros H; auto. apply andb_prop in H. destruct H as [H1 H2].
  unfold step. rewrite (quiet_no_sched sh s e Q H1). apply IH, H2.
Qed.

(* ---------------------------------------------------------------------------------------------------------------- refuted variants *)
Definition script (sh : shape) (evs : list ev) : sess := fold_left (env_then_settle sh) evs (g_new sh).
Lemma reach_script sh evs : reach sh (script sh evs).
Proof.
  unfold script. assert (X : forall s, reach sh s -> reach sh (fold_left (env_then_settle sh) evs s)).
  { induction evs as [|e r IH]; simpl; intros s R; auto. apply IH, reach_es, R. }
  apply X, reach_new.
Qed.
Definition cn (s : sess) (i : nat) : conn := nth i (g_conns s) k_new.
Definition is_hpipe (c : conn) : bool := match k_h c with HPipe => true | _ => false end.
Definition is_hdone (c : conn) : bool := match k_h c with HDone => true | _ => false end.
Definition res_eqb (a b : res) : bool :=
  match a, b with RSess, RSess => true | RStream i, RStream j | RTarget i, RTarget j => Nat.eqb i j | _, _ => false end.
Definition logged (s : sess) (a : actor) (r : res) : bool := existsb (fun x => actor_eqb (fst x) a && res_eqb (snd x) r) (g_log s).

(* 1. the error path closes a variable declared outside the loop: a dial that fails late takes down the stream accepted most recently - a
      healthy connection that nobody ended, which is then torn down altogether - while the same history leaves it alone in the code as it is *)
Definition late_fail_history : list ev := [EOpen; ESelect 0 true; EOpen; ESelect 1 true; EDial 1 true; EDial 0 false].
Theorem closes_latest_refuted :
  let s := script (variant DClosesLatest) late_fail_history in
  reach (variant DClosesLatest) s /\ logged s (AHand 0) (RStream 1) = true /\
  ended s (cn s 1) = false /\ is_hdone (cn s 1) = true /\ s_srv_closed (k_s (cn s 1)) = true /\ t_closed (k_t (cn s 1)) = true /\
  let t := script intended late_fail_history in
  is_hpipe (cn t 1) = true /\ s_srv_closed (k_s (cn t 1)) = false /\ logged t (AHand 0) (RStream 1) = false /\ logged t (AHand 0) (RStream 0) = true.
Proof. split; [apply reach_script|]. vm_compute. repeat split. Qed.

(* 3. the upstream side is closed only when the downstream copy loop ended with io.EOF: after an abrupt session end the target is never told,
      and the copy loop reading from it stays for ever *)
Definition cut_open_history : list ev := [EOpen; ESelect 0 true; EDial 0 true; EDie false].
Theorem up_only_on_eof_refuted :
  let s := script (variant DUpOnlyOnEof) cut_open_history in
  reach (variant DUpOnlyOnEof) s /\ quiet (variant DUpOnlyOnEof) s = true /\ g_dead s = DeadErr /\ forallb dial_settled (g_conns s) = true /\
  target_held (cn s 0) = true /\ cop_live (p_cu (k_p (cn s 0))) = true /\ released (variant DUpOnlyOnEof) (cn s 0) = false /\ footprint s = 2 /\
  footprint (script intended cut_open_history) = 0.
Proof. split; [apply reach_script|]. vm_compute. repeat split. Qed.

(* 5. a slot per accepted stream, given back on the normal return only: after as many error-terminated connections as there are slots the
      accept loop waits for a slot for ever, with a stream waiting, although nothing is open *)
Definition refusals_then_open : list ev := [EOpen; ESelect 0 false; EAppClose 0; EOpen; ESelect 1 false; EAppClose 1; EOpen; ESelect 2 true; EDial 2 true].
Theorem slot_leak_refuted :
  let s := script (variant DSlotLeak) refusals_then_open in
  reach (variant DSlotLeak) s /\ quiet (variant DSlotLeak) s = true /\ g_dead s = Alive /\ g_acc s = ASlot /\
  first_pending (g_conns s) 0 = Some 2 /\ is_hdone (cn s 0) = true /\ is_hdone (cn s 1) = true /\
  (forall evs, forallb is_sched evs = true -> run_from (variant DSlotLeak) s evs = s) /\
  is_hpipe (cn (script intended refusals_then_open) 2) = true.
Proof.
  split; [apply reach_script|]. split; [vm_compute; reflexivity|]. repeat split; try (vm_compute; reflexivity).
  intros evs H. apply quiet_stuck; auto.
Qed.

(* 6. `continue` on a terminal accept error: the loop takes step after step for ever on a dead session *)
Lemma continue_spins_step s : g_acc s = AAccept -> g_dead s = DeadErr ->
  let s' := step (variant DContinue) s (SAccept true) in
  g_acc s' = AAccept /\ g_dead s' = DeadErr /\ g_acc_steps s' = S (g_acc_steps s) /\ enabled (variant DContinue) s (SAccept true) = true.
Proof. intros Ea Ed. unfold enabled, step; simpl. unfold acc_step. rewrite Ea, Ed. simpl. rewrite orb_true_r. simpl. rewrite andb_false_r. simpl. repeat split; auto. Qed.
Theorem continue_spins_refuted : forall n,
  let s := run_from (variant DContinue) (step (variant DContinue) (g_new (variant DContinue)) (EDie false)) (repeat (SAccept true) n) in
  g_acc s = AAccept /\ g_acc_steps s = n /\ enabled (variant DContinue) s (SAccept true) = true.
Proof.
  intros n. cbv zeta.
  assert (X : forall s, g_acc s = AAccept -> g_dead s = DeadErr ->
              let t := run_from (variant DContinue) s (repeat (SAccept true) n) in g_acc t = AAccept /\ g_dead t = DeadErr /\ g_acc_steps t = n + g_acc_steps s).
  { induction n as [|n IH]; simpl; intros s Ea Ed; auto.
    destruct (continue_spins_step s Ea Ed) as [A [B [C _]]]. destruct (IH _ A B) as [P [Q R]]. rewrite C in R. repeat split; auto. rewrite R. lia. }
  destruct (X (step (variant DContinue) (g_new (variant DContinue)) (EDie false)) eq_refl eq_refl) as [A [B C]].
  split; [exact A|]. split; [rewrite C; simpl; lia|]. apply (continue_spins_step _ A B).
Qed.

(* 7. unbuffered report channels: the copy loop that reports second stays blocked on its send for ever - one goroutine per finished connection *)
Definition app_closes_history : list ev := [EOpen; ESelect 0 true; EDial 0 true; EAppClose 0].
Theorem unbuffered_refuted :
  let s := script (variant DCap0) app_closes_history in
  reach (variant DCap0) s /\ quiet (variant DCap0) s = true /\ ended s (cn s 0) = true /\ is_hdone (cn s 0) = true /\
  p_cu (k_p (cn s 0)) = CSend false /\ goroutines_of (cn s 0) = 1 /\ released (variant DCap0) (cn s 0) = false /\
  released intended (cn (script intended app_closes_history) 0) = true.
Proof. split; [apply reach_script|]. vm_compute. repeat split. Qed.

(* 8. the target is dialled under a session-wide lock: a connection whose own dial would return at once waits for another connection's slow
      dial; its enabledness depends on what the OTHER connection does *)
Definition slow_dial_history : list ev := [EOpen; ESelect 0 true; EOpen; ESelect 1 true; EDial 1 true].
Theorem dial_lock_refuted :
  let sh := variant DDialLock in
  let s := script sh slow_dial_history in
  let s' := step sh (step sh s (EDial 0 true)) (SHand 0 false) in
  reach sh s /\ reach sh s' /\ quiet sh s = true /\ k_h (cn s 1) = HLock /\ k_fate (cn s 1) = Some true /\
  view s 1 = view s' 1 /\ enabled sh s (SHand 1 false) = false /\ enabled sh s' (SHand 1 false) = true /\
  is_hpipe (cn (script intended slow_dial_history) 1) = true.
Proof.
  cbv zeta. split; [apply reach_script|]. split; [apply reach_step, reach_step, reach_script|]. vm_compute. repeat split.
Qed.
(* ================================================================================================================================
   The client: listener.HandleConnection *)
Definition l_pre (x : lpc) : bool := match x with LFwd | LConnect | LWait => true | _ => false end.

Definition l_ret_closed (l : lconn) : Prop :=
  match p_got (l_p l) with
  | Some (Down, true) => e_closed (l_upc l) = true
  | Some (Up, true) => e_closed (l_app l) = true
  | Some (_, false) => e_closed (l_upc l) = true /\ e_closed (l_app l) = true
  | None => False
  end.

Record linv (l : lconn) : Prop := {
  li_p : pinv (l_p l);
  li_app : e_ex (l_app l) = true;
  li_pre : l_pre (l_pc l) = true -> l_p l = p_idle /\ l_direct l = false;
  li_pipe : forall d, l_pc l = LPipe d -> p_pc (l_p l) <> PIdle /\ e_ex (l_upc l) = true /\ d = l_direct l;
  li_post : l_post (l_pc l) = true -> l_p l = p_idle \/ (exists e, p_pc (l_p l) = PRet e);
  li_ret : forall e, p_pc (l_p l) = PRet e -> l_ret_closed l /\ e_ex (l_upc l) = true;
  li_evd : eof_evid Down (l_p l) -> e_eof (l_app l) = true;
  li_evu : eof_evid Up (l_p l) -> e_eof (l_upc l) = true;
  li_done : l_pc l = LDone -> e_closed (l_app l) = true /\ (e_ex (l_upc l) = false \/ e_closed (l_upc l) = true);
  li_dclose : l_pc l = LDClose -> l_direct l = true /\ e_ex (l_upc l) = true /\ exists e, p_pc (l_p l) = PRet e;
  li_close : forall h, l_pc l = LClose h -> l_direct l = false /\
               (if h then e_ex (l_upc l) = true else l_p l = p_idle /\ (e_ex (l_upc l) = false \/ e_closed (l_upc l) = true));
  li_data : e_data (l_upc l) = true -> l_direct l = true \/ l_answer l = Some true;
  li_early : l_pc l = LFwd \/ l_pc l = LConnect -> e_ex (l_upc l) = false;
  li_wait : l_pc l = LWait -> e_ex (l_upc l) = true
}.

Ltac linv_fields I := destruct I as [Ip Iapp Ipre Ipipe Ipost Iret Ievd Ievu Idone Idclose Iclose Idata Iearly Iwait].

Lemma linv_new f : linv (l_new f).
Proof.
  constructor; simpl; auto using pinv_idle; try (intros; discriminate); try (destruct f; intros; discriminate).
  all: try (unfold eof_evid; simpl; intros [H|[[]|H]]; discriminate).
Qed.

Lemma close_app_linv l : linv l -> linv (lset_app l (e_close (l_app l))).
Proof.
  intros I. linv_fields I. constructor; simpl in *; try assumption.
  - intros e He. destruct (Iret e He) as [R X]. split; [|exact X]. unfold l_ret_closed in *. simpl. rewrite Iapp.
    destruct (p_got (l_p l)) as [[[|] [|]]|]; tauto.
  - intros X. specialize (Idone X). rewrite Iapp. tauto.
Qed.
Lemma close_upc_linv l : linv l -> linv (lset_upc l (e_close (l_upc l))).
Proof.
  intros I. linv_fields I. constructor; simpl in *; try assumption.
  - intros e He. destruct (Iret e He) as [R X]. split; [|exact X]. unfold l_ret_closed in *. simpl. rewrite X.
    destruct (p_got (l_p l)) as [[[|] [|]]|]; tauto.
  - intros X. destruct (Idone X) as [A [B|B]]; split; auto. destruct (e_ex (l_upc l)); auto.
  - intros h X. destruct (Iclose h X) as [A B]. split; [exact A|]. destruct h; [exact B|]. destruct B as [B1 [B2|B2]]; split; auto. destruct (e_ex (l_upc l)); auto.
Qed.
Lemma lclose_linv l x : linv l -> linv (lclose l x).
Proof.
  intros I. destruct x as [[|] [|]]; unfold lclose; simpl; auto using close_app_linv, close_upc_linv.
  apply (close_upc_linv (lset_app l (e_close (l_app l)))). apply close_app_linv, I.
Qed.

Lemma lset_p_linv l p' : linv l -> pinv p' -> l_pre (l_pc l) = false -> l_pc l <> LClose false -> e_ex (l_upc l) = true ->
  (forall d, l_pc l = LPipe d -> p_pc p' <> PIdle) -> (l_post (l_pc l) = true -> exists e, p_pc p' = PRet e) ->
  (forall e, p_pc p' = PRet e -> l_ret_closed (lset_p l p')) ->
  (eof_evid Down p' -> e_eof (l_app l) = true) -> (eof_evid Up p' -> e_eof (l_upc l) = true) -> linv (lset_p l p').
Proof.
  intros I H1 H2 H3 Hx H4 H5 H6 H7 H8. linv_fields I. constructor; simpl in *; try assumption; try congruence.
  - intros d Hd. destruct (Ipipe d Hd) as [_ [A B]]. repeat split; auto. apply (H4 d Hd).
  - intros P. right. auto.
  - intros e He. split; auto. apply (H6 e He).
  - intros X. destruct (Idclose X) as [A [B _]]. repeat split; auto. apply H5. rewrite X. reflexivity.
  - intros h X. destruct (Iclose h X) as [A B]. split; [exact A|]. destruct h; [exact B|congruence].
Qed.

Ltac lfin I Epc :=
  linv_fields I; rewrite Epc in *; constructor; simpl in *; try assumption; try discriminate; try (intros; discriminate);
  auto using pinv_begin, pinv_idle;
  try (unfold eof_evid; simpl; intros [H|[[]|H]]; discriminate);
  try (intros [X|X]; discriminate);
  try (intros d X; inv X; repeat split; auto; discriminate);
  try (intros e He; match goal with Hp : true = true -> l_p _ = p_idle /\ _ |- _ => destruct (Hp eq_refl) as [X _]; rewrite X in He; discriminate end).

Lemma l_hand_linv sh b l l' : shape_good sh -> linv l -> l_hand sh b l = Some l' -> linv l'.
Proof.
  intros G I H. unfold l_hand in H.
  destruct (l_pc l) eqn:Epc.
  - (* LFwd *) destruct (l_fwd l) as [[|]|]; try discriminate; inv H.
    + lfin I Epc.
    + lfin I Epc.
  - (* LConnect *) destruct (l_conn l) as [[|]|]; try discriminate; inv H.
    + lfin I Epc.
    + lfin I Epc.
      * intros _. left. apply Ipre. reflexivity.
      * intros h X. inv X. destruct (Ipre eq_refl) as [A B]. repeat split; auto.
  - (* LWait *)
    assert (Hr : forall l2, l2 = (if sh_refused_closed sh then lset_upc l (e_close (l_upc l)) else l) -> linv (lset_pc l2 (LClose false))).
    { intros l2 ->. rewrite (sg_refused sh G).
      pose proof (close_upc_linv l I) as I2.
      assert (E2 : l_pc (lset_upc l (e_close (l_upc l))) = LWait) by exact Epc.
      assert (C2 : e_ex (l_upc (lset_upc l (e_close (l_upc l)))) = false \/ e_closed (l_upc (lset_upc l (e_close (l_upc l)))) = true).
      { simpl. destruct (e_ex (l_upc l)); auto. }
      revert I2 E2 C2. generalize (lset_upc l (e_close (l_upc l))). intros l2 I2 E2 C2.
      lfin I2 E2.
      - intros _. left. apply Ipre. reflexivity.
      - intros h X. inv X. destruct (Ipre eq_refl) as [A B]. repeat split; auto. }
    destruct (l_answer l) as [[|]|] eqn:Ea.
    + inv H. lfin I Epc.
      intros d X. inv X. destruct (Ipre eq_refl) as [A B]. repeat split; auto. discriminate.
    + inv H. apply Hr. reflexivity.
    + destruct (e_rd (l_upc l)); try discriminate; inv H; apply Hr; reflexivity.
  - (* LPipe *)
    destruct (li_pipe l I direct Epc) as [Hni [Hx Hd]].
    destruct (p_pc (l_p l)) eqn:Ep; try congruence.
    + (* PStart *)
      destruct (sel_step sh b (l_p l)) as [[p' cz]|] eqn:Hs; try discriminate. inv H.
      pose proof (sel_step_pinv sh b _ _ _ (li_p l I) Hs) as Ip'.
      pose proof (fun sd => sel_step_evid sh b _ _ _ sd Hs) as Ev.
      unfold sel_step in Hs. rewrite Ep in Hs. inv Hs. unfold lclose. simpl.
      apply lset_p_linv; auto; rewrite ?Epc; simpl; try reflexivity; try discriminate; try (intros; discriminate).
      * intros E. apply (li_evd l I), (Ev Down), E.
      * intros E. apply (li_evu l I), (Ev Up), E.
    + (* PSelect *)
      destruct (sel_step sh b (l_p l)) as [[p' cz]|] eqn:Hs; try discriminate. inv H.
      pose proof (sel_step_pinv sh b _ _ _ (li_p l I) Hs) as Ip'.
      pose proof (fun sd => sel_step_evid sh b _ _ _ sd Hs) as Ev.
      assert (Hcz : cz = (false, false) /\ exists s r, p_pc p' = PGot s r).
      { unfold sel_step in Hs. rewrite Ep in Hs. destruct (p_dp (l_p l)), (p_up (l_p l)); try discriminate; [| |destruct b]; inv Hs; simpl; eauto. }
      destruct Hcz as [-> [s0 [r0 Hp']]]. unfold lclose. simpl.
      apply lset_p_linv; auto; rewrite ?Epc; simpl; try reflexivity; try discriminate; try (intros; discriminate); try (intros; congruence).
      * intros E. apply (li_evd l I), (Ev Down), E.
      * intros E. apply (li_evu l I), (Ev Up), E.
    + (* PGot *)
      pose proof (li_p l I) as Ip. pose proof Ip as [Hpc _]. unfold pc_inv in Hpc. rewrite Ep in Hpc. destruct Hpc as [Hg [Hc1 Hc2]].
      assert (Ip' : pinv (set_ppc (l_p l) (PRet (negb eof)))).
      { eapply (sel_step_pinv sh b (l_p l)); [exact Ip|]. unfold sel_step. rewrite Ep. reflexivity. }
      unfold sel_step in H. rewrite Ep in H. inv H. unfold closes_of.
      pose proof (sg_de_d sh G); pose proof (sg_de_u sh G); pose proof (sg_dx_d sh G); pose proof (sg_dx_u sh G).
      pose proof (sg_ue_d sh G); pose proof (sg_ue_u sh G); pose proof (sg_ux_d sh G); pose proof (sg_ux_u sh G).
      destruct s, eof; simpl;
        repeat match goal with H : _ sh = _ |- _ => rewrite H end; unfold lclose; simpl.
      * change (linv (lset_p (lset_upc l (e_close (l_upc l))) (set_ppc (l_p l) (PRet false)))).
        apply lset_p_linv; auto using close_app_linv, close_upc_linv; simpl; rewrite ?Epc; simpl; try reflexivity; try discriminate; try (intros; discriminate); eauto.
        -- intros e _. unfold l_ret_closed. simpl. rewrite Hg, ?Hx, ?(li_app l I). auto.
        -- intros E. apply (li_evd l I). unfold eof_evid in *. simpl in *. exact E.
        -- intros E. apply (li_evu l I). unfold eof_evid in *. simpl in *. exact E.
      * change (linv (lset_p (lset_upc (lset_app l (e_close (l_app l))) (e_close (l_upc l))) (set_ppc (l_p l) (PRet true)))).
        pose proof (close_upc_linv _ (close_app_linv l I)) as I2.
        apply lset_p_linv; auto using close_app_linv, close_upc_linv; simpl; rewrite ?Epc; simpl; try reflexivity; try discriminate; try (intros; discriminate); eauto.
        -- intros e _. unfold l_ret_closed. simpl. rewrite Hg, ?Hx, ?(li_app l I). auto.
        -- intros E. apply (li_evd l I). unfold eof_evid in *. simpl in *. exact E.
        -- intros E. apply (li_evu l I). unfold eof_evid in *. simpl in *. exact E.
      * change (linv (lset_p (lset_app l (e_close (l_app l))) (set_ppc (l_p l) (PRet false)))).
        apply lset_p_linv; auto using close_app_linv, close_upc_linv; simpl; rewrite ?Epc; simpl; try reflexivity; try discriminate; try (intros; discriminate); eauto.
        -- intros e _. unfold l_ret_closed. simpl. rewrite Hg, ?Hx, ?(li_app l I). auto.
        -- intros E. apply (li_evd l I). unfold eof_evid in *. simpl in *. exact E.
        -- intros E. apply (li_evu l I). unfold eof_evid in *. simpl in *. exact E.
      * change (linv (lset_p (lset_upc (lset_app l (e_close (l_app l))) (e_close (l_upc l))) (set_ppc (l_p l) (PRet true)))).
        pose proof (close_upc_linv _ (close_app_linv l I)) as I2.
        apply lset_p_linv; auto using close_app_linv, close_upc_linv; simpl; rewrite ?Epc; simpl; try reflexivity; try discriminate; try (intros; discriminate); eauto.
        -- intros e _. unfold l_ret_closed. simpl. rewrite Hg, ?Hx, ?(li_app l I). auto.
        -- intros E. apply (li_evd l I). unfold eof_evid in *. simpl in *. exact E.
        -- intros E. apply (li_evu l I). unfold eof_evid in *. simpl in *. exact E.
    + (* PRet *)
      inv H. destruct (l_direct l) eqn:Ed.
      * linv_fields I. rewrite Epc in *. constructor; simpl in *; rewrite ?Ed; try assumption; try discriminate; try (intros; discriminate); eauto.
        intros [X|X]; discriminate.
      * linv_fields I. rewrite Epc in *. constructor; simpl in *; rewrite ?Ed; try assumption; try discriminate; try (intros; discriminate); eauto.
        -- intros h X. inv X. auto.
        -- intros X. destruct (Idata X) as [Y|Y]; [congruence|auto].
        -- intros [X|X]; discriminate.
  - (* LClose *)
    inv H.
    pose proof (lclose_linv l (sh_lst_closes_conn sh, up_held && sh_lst_closes_up sh) I) as I2.
    rewrite (sg_lup sh G), (sg_lconn sh G), andb_true_r in *.
    destruct (li_close l I up_held Epc) as [Dn Hh].
    assert (E2 : l_pc (lclose l (true, up_held)) = LClose up_held) by (destruct up_held; exact Epc).
    assert (D2 : l_direct (lclose l (true, up_held)) = false) by (destruct up_held; exact Dn).
    assert (A2 : e_closed (l_app (lclose l (true, up_held))) = true) by (destruct up_held; simpl; apply (li_app l I)).
    assert (U2 : e_ex (l_upc (lclose l (true, up_held))) = false \/ e_closed (l_upc (lclose l (true, up_held))) = true).
    { destruct up_held; simpl; [right; exact Hh|]. destruct Hh as [_ X]. exact X. }
    revert I2 E2 D2 A2 U2. generalize (lclose l (true, up_held)). intros l2 I2 E2 D2 A2 U2.
    linv_fields I2. rewrite E2 in *. constructor; simpl in *; rewrite ?D2; try assumption; try discriminate; try (intros; discriminate); auto.
    + intros X. destruct (Idata X) as [Y|Y]; [congruence|auto].
    + intros [X|X]; discriminate.
  - (* LDClose *)
    inv H. rewrite (sg_dconn sh G), (sg_dup sh G).
    destruct (li_dclose l I Epc) as [Dd [Hx _]].
    pose proof (lclose_linv l (true, true) I) as I2.
    assert (E2 : l_pc (lclose l (true, true)) = LDClose) by exact Epc.
    assert (A2 : e_closed (l_app (lclose l (true, true))) = true) by (simpl; apply (li_app l I)).
    assert (U2 : e_closed (l_upc (lclose l (true, true))) = true) by (simpl; exact Hx).
    revert I2 E2 A2 U2. generalize (lclose l (true, true)). intros l2 I2 E2 A2 U2.
    linv_fields I2. rewrite E2 in *. constructor; simpl in *; try assumption; try discriminate; try (intros; discriminate); auto.
    intros [X|X]; discriminate.
  - (* LDone *) discriminate.
Qed.

Lemma l_live (sh : shape) l sd : linv l -> cop_live (cop_of sd (l_p l)) = true ->
  l_pre (l_pc l) = false /\ l_pc l <> LClose false /\ e_ex (l_upc l) = true.
Proof.
  intros I L.
  assert (Ni : l_p l <> p_idle) by (intros X; rewrite X in L; destruct sd; discriminate).
  assert (Hret : (exists e, p_pc (l_p l) = PRet e) -> e_ex (l_upc l) = true) by (intros [e He]; apply (li_ret l I e He)).
  destruct (l_pc l) eqn:Epc; simpl.
  - exfalso. apply Ni. apply (li_pre l I). rewrite Epc. reflexivity.
  - exfalso. apply Ni. apply (li_pre l I). rewrite Epc. reflexivity.
  - exfalso. apply Ni. apply (li_pre l I). rewrite Epc. reflexivity.
  - repeat split; try discriminate. apply (li_pipe l I direct Epc).
  - destruct (li_close l I up_held Epc) as [_ X]. destruct up_held; [repeat split; try discriminate; exact X|destruct X as [X _]; congruence].
  - repeat split; try discriminate. apply (li_dclose l I Epc).
  - repeat split; try discriminate. destruct (li_post l I) as [X|X]; [rewrite Epc; reflexivity|congruence|auto].
Qed.

Lemma ldata_linv l a u : linv l ->
  e_ex a = e_ex (l_app l) -> e_closed a = e_closed (l_app l) -> (e_eof (l_app l) = true -> e_eof a = true) ->
  e_ex u = e_ex (l_upc l) -> e_closed u = e_closed (l_upc l) -> (e_eof (l_upc l) = true -> e_eof u = true) -> (e_data u = true -> e_data (l_upc l) = true) ->
  linv (lset_upc (lset_app l a) u).
Proof.
  intros I A1 A2 A3 B1 B2 B3 B4. linv_fields I. constructor; simpl in *; rewrite ?A1, ?A2, ?B1, ?B2; try assumption; auto.
  intros e He. destruct (Iret e He) as [R X]. split; [|exact X]. unfold l_ret_closed in *. simpl. rewrite A2, B2. exact R.
Qed.

Lemma l_copy_linv sh sd l l' : shape_good sh -> linv l -> l_copy sh sd l = Some l' -> linv l'.
Proof.
  intros G I H. unfold l_copy in H. destruct sd.
  - destruct (copier_step sh Down (e_rd (l_app l)) (e_wr_ok (l_upc l)) (l_p l)) as [[p' e]|] eqn:Hs; try discriminate.
    pose proof (copier_step_live _ _ _ _ _ _ _ Hs) as L. destruct (l_live sh l Down I L) as [Np [Nc Hx]].
    pose proof (copier_step_pinv _ _ _ _ _ _ _ G (li_p l I) Hs) as Ip'.
    pose proof (copier_step_keeps _ _ _ _ _ _ _ G (li_p l I) Hs) as [Kg [Kpc _]].
    assert (I' : linv (lset_p l p')).
    { apply lset_p_linv; auto.
      - intros d Hd. rewrite Kpc. apply (li_pipe l I d Hd).
      - intros P. rewrite Kpc. destruct (li_post l I P) as [X|X]; [|exact X]. exfalso. rewrite X in L. discriminate.
      - intros e0 He. rewrite Kpc in He. destruct (li_ret l I e0 He) as [R _]. unfold l_ret_closed in *. simpl. rewrite Kg. exact R.
      - intros E. destruct (copier_step_evid _ _ _ _ _ _ _ Down G (li_p l I) Hs E) as [E'|[_ X]]; [apply (li_evd l I E')|].
        unfold e_rd in X. destruct (e_closed (l_app l)); try discriminate. destruct (e_data (l_app l)); try discriminate.
        destruct (e_err (l_app l)); try discriminate. destruct (e_eof (l_app l)); [reflexivity|discriminate].
      - intros E. destruct (copier_step_evid _ _ _ _ _ _ _ Up G (li_p l I) Hs E) as [E'|[X _]]; [apply (li_evu l I E')|discriminate]. }
    inv H. destruct e; [exact I'| |].
    + apply (ldata_linv (lset_p l p')); simpl; auto.
    + change (linv (lset_upc (lset_app (lset_p l p') (e_with_data (l_app l) false)) (l_upc (lset_p l p')))).
      apply (ldata_linv (lset_p l p')); simpl; auto.
  - destruct (copier_step sh Up (e_rd (l_upc l)) (e_wr_ok (l_app l)) (l_p l)) as [[p' e]|] eqn:Hs; try discriminate.
    pose proof (copier_step_live _ _ _ _ _ _ _ Hs) as L. destruct (l_live sh l Up I L) as [Np [Nc Hx]].
    pose proof (copier_step_pinv _ _ _ _ _ _ _ G (li_p l I) Hs) as Ip'.
    pose proof (copier_step_keeps _ _ _ _ _ _ _ G (li_p l I) Hs) as [Kg [Kpc _]].
    assert (I' : linv (lset_p l p')).
    { apply lset_p_linv; auto.
      - intros d Hd. rewrite Kpc. apply (li_pipe l I d Hd).
      - intros P. rewrite Kpc. destruct (li_post l I P) as [X|X]; [|exact X]. exfalso. rewrite X in L. discriminate.
      - intros e0 He. rewrite Kpc in He. destruct (li_ret l I e0 He) as [R _]. unfold l_ret_closed in *. simpl. rewrite Kg. exact R.
      - intros E. destruct (copier_step_evid _ _ _ _ _ _ _ Down G (li_p l I) Hs E) as [E'|[X _]]; [apply (li_evd l I E')|discriminate].
      - intros E. destruct (copier_step_evid _ _ _ _ _ _ _ Up G (li_p l I) Hs E) as [E'|[_ X]]; [apply (li_evu l I E')|].
        unfold e_rd in X. destruct (e_closed (l_upc l)); try discriminate. destruct (e_data (l_upc l)); try discriminate.
        destruct (e_err (l_upc l)); try discriminate. destruct (e_eof (l_upc l)); [reflexivity|discriminate]. }
    inv H. destruct e; [exact I'| |].
    + change (linv (lset_upc (lset_app (lset_p l p') (e_written (l_app l))) (e_with_data (l_upc l) false))).
      apply (ldata_linv (lset_p l p')); simpl; auto; discriminate.
    + change (linv (lset_upc (lset_app (lset_p l p') (l_app (lset_p l p'))) (e_with_data (l_upc l) false))).
      apply (ldata_linv (lset_p l p')); simpl; auto; discriminate.
Qed.

Lemma lstep_linv sh l e : shape_good sh -> linv l -> linv (lstep sh l e).
Proof.
  intros G I. unfold lstep. destruct (lstep_opt sh l e) as [l'|] eqn:H; [|exact I].
  destruct e; simpl in H; try (eapply l_hand_linv; eassumption); try (eapply l_copy_linv; eassumption);
    match type of H with (if ?b then _ else _) = _ => revert H; destruct b eqn:Eb; intros H; try discriminate end; inv H.
  - (* LAppClose *) change (linv (lset_upc (lset_app l (e_with_eof (l_app l))) (l_upc l))). apply ldata_linv; auto.
  - (* LAppErr *) change (linv (lset_upc (lset_app l (e_with_err (l_app l))) (l_upc l))). apply ldata_linv; auto.
  - (* LAppData *) change (linv (lset_upc (lset_app l (e_with_data (l_app l) true)) (l_upc l))). apply ldata_linv; auto.
  - (* LUpEof *) change (linv (lset_upc (lset_app l (l_app l)) (e_with_eof (l_upc l)))). apply ldata_linv; auto.
  - (* LUpErr *) change (linv (lset_upc (lset_app l (l_app l)) (e_with_err (l_upc l)))). apply ldata_linv; auto.
  - (* LUpData *)
    repeat (apply andb_prop in Eb; destruct Eb as [Eb ?]).
    linv_fields I. constructor; simpl in *; try assumption.
    intros _. destruct (l_direct l); [auto|]. destruct (l_answer l) as [[|]|]; try discriminate. auto.
  - (* LFwdFate *) linv_fields I. constructor; simpl in *; assumption.
  - (* LConnFate *) linv_fields I. constructor; simpl in *; assumption.
  - (* LAnswer *) linv_fields I. constructor; simpl in *; try assumption.
    intros X. destruct (Idata X) as [Y|Y]; [auto|]. apply is_none_true in Eb. congruence.
Qed.

Lemma lrun_linv sh evs : shape_good sh -> forall l, linv l -> linv (lrun sh l evs).
Proof. intros G. induction evs as [|e r IH]; simpl; intros l I; auto. apply IH, lstep_linv; auto. Qed.

Lemma l_copy_none sh sd l : l_copy sh sd l = None ->
  match sd with
  | Down => copier_step sh Down (e_rd (l_app l)) (e_wr_ok (l_upc l)) (l_p l) = None
  | Up => copier_step sh Up (e_rd (l_upc l)) (e_wr_ok (l_app l)) (l_p l) = None
  end.
Proof. unfold l_copy. destruct sd; [destruct (copier_step sh Down _ _ _) as [[? ?]|]|destruct (copier_step sh Up _ _ _) as [[? ?]|]]; congruence. Qed.

(* RECLAMATION on the client: when a local connection is over, nothing it asked for is still in flight, and its goroutines have taken their
   remaining steps, then - through the tunnel and piped directly to a forward address alike - both ends are closed and no goroutine is left *)
Theorem client_reclaimed sh l : shape_good sh -> linv l -> l_ended l = true -> l_settled l = true -> l_quiet sh l = true -> l_released l = true.
Proof.
  intros G I En St Q. unfold l_quiet in Q. repeat (apply andb_prop in Q; destruct Q as [Q ?]).
  repeat match goal with H : is_none _ = true |- _ => apply is_none_true in H end.
  rename Q into Q1. rename H1 into Q2. rename H0 into Q3. rename H into Q4.
  apply l_copy_none in Q3. apply l_copy_none in Q4.
  unfold l_hand in Q1.
  destruct (l_pc l) eqn:Epc.
  - exfalso. unfold l_settled in St. rewrite Epc in St. destruct (l_fwd l) as [[|]|]; discriminate.
  - exfalso. unfold l_settled in St. rewrite Epc in St. destruct (l_conn l) as [[|]|]; discriminate.
  - exfalso. unfold l_settled in St. rewrite Epc in St. destruct (l_answer l) as [[|]|] eqn:Ea; try discriminate.
    simpl in St. destruct (li_pre l I) as [_ Dn]; [rewrite Epc; reflexivity|].
    assert (Hd : e_data (l_upc l) = false).
    { destruct (e_data (l_upc l)) eqn:E; [|reflexivity]. destruct (li_data l I E); congruence. }
    unfold e_rd in Q1. rewrite Hd in Q1. destruct (e_closed (l_upc l)); try discriminate. destruct (e_err (l_upc l)); try discriminate.
    destruct (e_eof (l_upc l)); discriminate.
  - exfalso. destruct (li_pipe l I direct Epc) as [Hni [Hx Hd]].
    destruct (p_pc (l_p l)) eqn:Ep; try congruence; try discriminate.
    + unfold sel_step in Q1. rewrite Ep in Q1. discriminate.
    + assert (Hs : sel_step sh false (l_p l) = None) by (destruct (sel_step sh false (l_p l)) as [[? ?]|]; [discriminate|reflexivity]).
      destruct (select_blocked sh (l_p l) (li_p l I) Ep Hs) as [L1 L2].
      destruct (copier_blocked sh Down _ _ _ G (li_p l I) Q3 L1) as [_ B1].
      destruct (copier_blocked sh Up _ _ _ G (li_p l I) Q4 L2) as [_ B2].
      unfold l_ended in En. rewrite Epc in En. simpl in En. unfold e_rd in B1, B2.
      destruct (e_closed (l_app l)); try discriminate. destruct (e_data (l_app l)); try discriminate.
      destruct (e_err (l_app l)); try discriminate. destruct (e_eof (l_app l)); try discriminate.
      destruct (e_closed (l_upc l)); try discriminate. destruct (e_data (l_upc l)); try discriminate.
      destruct (e_err (l_upc l)); try discriminate. destruct (e_eof (l_upc l)); discriminate.
    + unfold sel_step in Q1. rewrite Ep in Q1. discriminate.
  - discriminate.
  - discriminate.
  - (* LDone *)
    destruct (li_done l I Epc) as [A B].
    assert (Ld : cop_live (p_cd (l_p l)) = false).
    { destruct (cop_live (p_cd (l_p l))) eqn:L; [|reflexivity]. exfalso.
      destruct (copier_blocked sh Down _ _ _ G (li_p l I) Q3 L) as [_ X]. unfold e_rd in X. rewrite A in X. discriminate. }
    unfold l_released. rewrite Epc, A, Ld. simpl.
    destruct B as [B|B].
    + rewrite B. simpl. rewrite andb_true_r.
      destruct (li_post l I) as [X|[e X]]; [rewrite Epc; reflexivity|rewrite X; reflexivity|].
      destruct (li_ret l I e X) as [_ Y]. congruence.
    + assert (Lu : cop_live (p_cu (l_p l)) = false).
      { destruct (cop_live (p_cu (l_p l))) eqn:L; [|reflexivity]. exfalso.
        destruct (copier_blocked sh Up _ _ _ G (li_p l I) Q4 L) as [_ X]. unfold e_rd in X. rewrite B in X. discriminate. }
      rewrite B, Lu. simpl. rewrite orb_true_r. reflexivity.
Qed.

Theorem client_run_reclaimed sh f evs : shape_good sh ->
  let l := lrun sh (l_new f) evs in
  l_ended l = true -> l_settled l = true -> l_quiet sh l = true -> l_released l = true.
Proof. intros G l. apply client_reclaimed; auto. apply lrun_linv; auto. apply linv_new. Qed.

(* once HandleConnection has returned and both copy loops are gone, nothing in the model ever closes anything again: an end that is open
   then stays open (in reality: until the collector finds it) *)
Lemma l_over_stays sh l e : l_pc l = LDone -> cop_live (p_cd (l_p l)) = false -> cop_live (p_cu (l_p l)) = false ->
  let l' := lstep sh l e in
  l_pc l' = LDone /\ cop_live (p_cd (l_p l')) = false /\ cop_live (p_cu (l_p l')) = false /\
  e_closed (l_app l') = e_closed (l_app l) /\ e_closed (l_upc l') = e_closed (l_upc l).
Proof.
  intros Epc L1 L2. unfold lstep. destruct (lstep_opt sh l e) as [l'|] eqn:H; [|auto].
  destruct e; simpl in H;
    try match type of H with (if ?b then _ else _) = _ => revert H; destruct b; intros H; try discriminate end;
    try (inv H; simpl; auto; fail).
  - unfold l_hand in H. rewrite Epc in H. discriminate.
  - exfalso. unfold l_copy in H. destruct sd.
    + destruct (copier_step sh Down (e_rd (l_app l)) (e_wr_ok (l_upc l)) (l_p l)) as [[p' x]|] eqn:Hs; try discriminate.
      pose proof (copier_step_live _ _ _ _ _ _ _ Hs) as L. simpl in L. congruence.
    + destruct (copier_step sh Up (e_rd (l_upc l)) (e_wr_ok (l_app l)) (l_p l)) as [[p' x]|] eqn:Hs; try discriminate.
      pose proof (copier_step_live _ _ _ _ _ _ _ Hs) as L. simpl in L. congruence.
Qed.
Lemma l_over_for_ever sh evs : forall l, l_pc l = LDone -> cop_live (p_cd (l_p l)) = false -> cop_live (p_cu (l_p l)) = false ->
  e_closed (l_app (lrun sh l evs)) = e_closed (l_app l) /\ e_closed (l_upc (lrun sh l evs)) = e_closed (l_upc l).
Proof.
  induction evs as [|e r IH]; simpl; intros l A B C; auto.
  destruct (l_over_stays sh l e A B C) as [A' [B' [C' [D E]]]]. destruct (IH _ A' B' C') as [F G]. rewrite F, G. auto.
Qed.

(* 9. ConnectDirectly closes nothing after its pipe (the code before the repair): PipeData closes the side opposite to the one that ended,
      so the end whose own peer hung up first is never closed - the local connection when the application closes first, the connection to
      the forward address when the target does - whatever happens afterwards *)
Definition app_closes_direct : list lev := [LFwdFate true; LHand false; LHand false; LAppClose; LCopy Down; LCopy Down; LHand false; LHand false; LHand false; LHand false; LCopy Up; LCopy Up].
Definition target_closes_direct : list lev := [LFwdFate true; LHand false; LHand false; LUpEof; LCopy Up; LCopy Up; LHand false; LHand false; LHand false; LHand false; LCopy Down; LCopy Down].
Theorem direct_left_open_refuted :
  let sh := variant DDirectOpen in
  let a := lrun sh (l_new true) app_closes_direct in
  let t := lrun sh (l_new true) target_closes_direct in
  l_quiet sh a = true /\ l_ended a = true /\ l_settled a = true /\ l_goroutines a = 0 /\ l_released a = false /\
  (forall evs, e_closed (l_app (lrun sh a evs)) = false) /\
  l_quiet sh t = true /\ l_ended t = true /\ l_settled t = true /\ l_goroutines t = 0 /\ l_released t = false /\
  (forall evs, e_closed (l_upc (lrun sh t evs)) = false) /\
  l_released (lrun intended (l_new true) app_closes_direct) = true /\ l_released (lrun intended (l_new true) target_closes_direct) = true.
Proof.
  cbv zeta. repeat split; try (vm_compute; reflexivity).
  - intros evs.
    assert (X : l_pc (lrun (variant DDirectOpen) (l_new true) app_closes_direct) = LDone /\
                cop_live (p_cd (l_p (lrun (variant DDirectOpen) (l_new true) app_closes_direct))) = false /\
                cop_live (p_cu (l_p (lrun (variant DDirectOpen) (l_new true) app_closes_direct))) = false) by (vm_compute; auto).
    destruct X as [A [B C]]. rewrite (proj1 (l_over_for_ever (variant DDirectOpen) evs _ A B C)). vm_compute. reflexivity.
  - intros evs.
    assert (X : l_pc (lrun (variant DDirectOpen) (l_new true) target_closes_direct) = LDone /\
                cop_live (p_cd (l_p (lrun (variant DDirectOpen) (l_new true) target_closes_direct))) = false /\
                cop_live (p_cu (l_p (lrun (variant DDirectOpen) (l_new true) target_closes_direct))) = false) by (vm_compute; auto).
    destruct X as [A [B C]]. rewrite (proj2 (l_over_for_ever (variant DDirectOpen) evs _ A B C)). vm_compute. reflexivity.
Qed.

(* 2. the client does not close a stream whose channel was refused: its end of the stream stays open for ever (and on the server the handler
      goroutine of that stream waits for another proposal for as long as the session lives) *)
Definition refused_client_history : list lev := [LConnFate true; LHand false; LAnswer false; LHand false; LHand false].
Theorem refused_left_open_refuted :
  let l := lrun (variant DRefusedOpen) (l_new false) refused_client_history in
  l_quiet (variant DRefusedOpen) l = true /\ l_ended l = true /\ l_settled l = true /\ l_pc l = LDone /\ e_ex (l_upc l) = true /\
  e_closed (l_upc l) = false /\ l_released l = false /\ l_released (lrun intended (l_new false) refused_client_history) = true.
Proof. vm_compute. repeat split. Qed.
Definition refused_server_history (n : nat) : list ev := flat_map (fun i => [EOpen; ESelect i false]) (seq 0 n).
Theorem refused_left_open_server_refuted :
  let s := script intended (refused_server_history 3) in
  reach intended s /\ quiet intended s = true /\ footprint s = 7 /\ count h_live (g_conns s) = 3 /\
  (forall evs, forallb is_sched evs = true -> run_from intended s evs = s) /\
  footprint (script intended (flat_map (fun i => [EOpen; ESelect i false; EAppClose i]) (seq 0 3))) = 1.
Proof.
  split; [apply reach_script|]. split; [vm_compute; reflexivity|]. repeat split; try (vm_compute; reflexivity).
  intros evs H. apply quiet_stuck; auto.
Qed.

(* 4. PipeData closes the side that has just ended instead of the other one. Wherever the caller closes both ends itself afterwards (the server's
      handler, HandleConnection through the tunnel, ConnectDirectly since its repair) this is made good; where nothing is closed after the pipe
      (ConnectDirectly before its repair) the local application is never told that its target hung up, and the copy loop reading from it stays -
      while the right close mapping, equally without closes after the pipe, ends the local connection and both copy loops *)
Definition target_hangs_up_direct : list lev := target_closes_direct.
Theorem wrong_side_refuted :
  let l := lrun (variant DWrongSide) (l_new true) target_hangs_up_direct in
  l_quiet (variant DWrongSide) l = true /\ l_ended l = true /\ l_settled l = true /\ l_pc l = LDone /\ l_direct l = true /\
  e_closed (l_app l) = false /\ e_eof (l_app l) = false /\ p_cd (l_p l) = CRun /\ l_goroutines l = 1 /\ l_released l = false /\
  let g := lrun (variant DDirectOpen) (l_new true) target_hangs_up_direct in
  l_quiet (variant DDirectOpen) g = true /\ e_closed (l_app g) = true /\ l_goroutines g = 0 /\ l_released_direct g = true.
Proof. vm_compute. repeat split. Qed.
(* the server's machine does not look at the client's switches: a shape that passes for the server is, as far as the server's steps go, the
   same shape with the client's switches in order *)
Definition client_fixed (sh : shape) : shape :=
  {| sh_err_closes_own := sh_err_closes_own sh; sh_defer_closes_own := sh_defer_closes_own sh; sh_acc_quiet_returns := sh_acc_quiet_returns sh;
     sh_acc_err_returns := sh_acc_err_returns sh; sh_acc_err_closes_sess := sh_acc_err_closes_sess sh; sh_slots := sh_slots sh;
     sh_slot_release_err := sh_slot_release_err sh; sh_dial_lock := sh_dial_lock sh; sh_mh_closes_up := sh_mh_closes_up sh;
     sh_cap_down := sh_cap_down sh; sh_cap_up := sh_cap_up sh;
     sh_de_d := sh_de_d sh; sh_de_u := sh_de_u sh; sh_dx_d := sh_dx_d sh; sh_dx_u := sh_dx_u sh;
     sh_ue_d := sh_ue_d sh; sh_ue_u := sh_ue_u sh; sh_ux_d := sh_ux_d sh; sh_ux_u := sh_ux_u sh;
     sh_refused_closed := true; sh_lst_closes_up := true; sh_lst_closes_conn := true; sh_dir_closes_conn := true; sh_dir_closes_up := true |}.
Lemma client_fixed_ok sh : shape_ok_server sh = true -> shape_ok (client_fixed sh) = true.
Proof. intros K. unfold shape_ok. change (shape_ok_server (client_fixed sh)) with (shape_ok_server sh). rewrite K. reflexivity. Qed.

(* ================================================================================================================================
   The statements as the property files quote them: over every event list, for every shape that passes shape_ok_server (the server's
   machine) resp. shape_ok (the client's) *)
Theorem frame_run sh evs e i : shape_ok_server sh = true -> ev_conn e = Some i ->
  let s := run sh evs in
  (forall j, j <> i -> nth_error (g_conns (step sh s e)) j = nth_error (g_conns s) j) /\ same_globals s (step sh s e) /\
  exists rs, Forall (own_res i) rs /\ g_log (step sh s e) = g_log s ++ map (fun r => (AHand i, r)) rs.
Proof.
  intros K Ev. pose proof (shape_ok_good _ (client_fixed_ok sh K)) as G. destruct sh.
  exact (frame_step _ _ e i G (run_sinv _ evs G) Ev).
Qed.

Theorem closes_are_own_run sh evs : shape_ok_server sh = true -> forall x, In x (g_log (run sh evs)) -> fst x = owner (snd x).
Proof. intros K. pose proof (shape_ok_good _ (client_fixed_ok sh K)) as G. destruct sh. exact (closes_are_own _ evs G). Qed.

Theorem independent_run sh evs evs' e j : shape_ok_server sh = true -> ev_conn e = Some j ->
  let s := run sh evs in let s' := run sh evs' in
  view s j = view s' j -> view (step sh s e) j = view (step sh s' e) j /\ enabled sh s e = enabled sh s' e.
Proof.
  intros K Ev. pose proof (shape_ok_good _ (client_fixed_ok sh K)) as G. destruct sh.
  exact (independent _ _ _ e j G (run_sinv _ evs G) (run_sinv _ evs' G) Ev).
Qed.

Theorem accept_serves_run sh evs b j : shape_ok_server sh = true ->
  let s := run sh evs in
  g_acc s = AAccept -> g_dead s = Alive -> g_closed s = false -> first_pending (g_conns s) 0 = Some j ->
  exists c, nth_error (g_conns s) j = Some c /\ nth_error (g_conns (step sh s (SAccept b))) j = Some (set_h c HPeek) /\
            g_acc (step sh s (SAccept b)) = AAccept /\
            forall k, k <> j -> nth_error (g_conns (step sh s (SAccept b))) k = nth_error (g_conns s) k.
Proof. intros K. pose proof (shape_ok_good _ (client_fixed_ok sh K)) as G. destruct sh. exact (accept_serves _ _ b j G). Qed.

Theorem conn_reclaimed_run sh evs i c : shape_ok_server sh = true ->
  let s := run sh evs in
  nth_error (g_conns s) i = Some c -> k_h c <> HNone -> ended s c = true -> dial_settled c = true -> conn_quiet sh s i = true ->
  released sh c = true.
Proof.
  intros K. pose proof (shape_ok_good _ (client_fixed_ok sh K)) as G. destruct sh.
  exact (conn_reclaimed _ _ i c G (run_sinv _ evs G)).
Qed.

Theorem session_reclaimed_run sh evs : shape_ok_server sh = true ->
  let s := run sh evs in
  g_dead s <> Alive -> quiet sh s = true -> forallb dial_settled (g_conns s) = true ->
  g_acc s = AExited /\ (forall i c, nth_error (g_conns s) i = Some c -> k_h c <> HNone -> released sh c = true) /\ footprint s = 0.
Proof.
  intros K. pose proof (shape_ok_good _ (client_fixed_ok sh K)) as G. destruct sh.
  exact (session_reclaimed _ _ G (run_sinv _ evs G)).
Qed.

Theorem accept_exits_run sh evs : shape_ok_server sh = true ->
  let s := run sh evs in
  g_acc s = AAccept -> g_dead s <> Alive \/ g_closed s = true ->
  g_acc (step sh s (SAccept true)) = AExited /\ (first_pending (g_conns s) 0 = None -> g_acc (step sh s (SAccept false)) = AExited).
Proof. intros K. pose proof (shape_ok_good _ (client_fixed_ok sh K)) as G. destruct sh. exact (accept_exits _ _ G). Qed.

Theorem client_reclaimed_run sh f evs : shape_ok sh = true ->
  let l := lrun sh (l_new f) evs in
  l_ended l = true -> l_settled l = true -> l_quiet sh l = true -> l_released l = true.
Proof. intros K. apply client_run_reclaimed, shape_ok_good, K. Qed.

(* a target connection is left to the garbage collector only when muxHandler does not close it and the target hung up first *)
Theorem released_target sh c : released sh c = true -> target_held c = true -> sh_mh_closes_up sh = false /\ t_eof (k_t c) = true.
Proof.
  unfold released. intros H T. repeat (apply andb_prop in H; destruct H as [H ?]). rewrite T in H0. simpl in H0.
  apply andb_prop in H0. destruct H0 as [A B]. apply negb_true_iff in A. auto.
Qed.
