From Coq Require Import String List NArith ZArith Bool Arith Lia.
From SA Require Import Base.Tok Mux.Routing.
Import ListNotations.

Lemma bytes_eqb_eq a b : bytes_eqb a b = true <-> a = b.
Proof.
  revert b; induction a as [|x a IH]; intros [|y b]; cbn; split; intro H; try discriminate; try reflexivity.
  - apply andb_prop in H as [H1 H2]. apply N.eqb_eq in H1. apply IH in H2. subst; reflexivity.
  - inversion H; subst. rewrite N.eqb_refl. cbn. apply IH. reflexivity.
Qed.

Lemma bytes_eqb_refl a : bytes_eqb a a = true.
Proof. apply bytes_eqb_eq; reflexivity. Qed.

Lemma find_chan_some tbl n c : find_chan tbl n = Some c -> In c tbl /\ fst c = n.
Proof.
  induction tbl as [|d tbl IH]; cbn; [discriminate|].
  destruct (bytes_eqb (fst d) n) eqn:E.
  - intros H; inversion H; subst. split; [left; reflexivity | apply bytes_eqb_eq; exact E].
  - intros H. destruct (IH H) as [H1 H2]. split; [right; exact H1 | exact H2].
Qed.

Lemma find_chan_none tbl n : find_chan tbl n = None <-> ~ exists t, In (n, t) tbl.
Proof.
  induction tbl as [|d tbl IH]; cbn.
  - split; [intros _ [t []] | reflexivity].
  - destruct (bytes_eqb (fst d) n) eqn:E.
    + split; [discriminate|]. intros H. exfalso. apply H. exists (snd d). left.
      apply bytes_eqb_eq in E. destruct d; cbn in *; subst; reflexivity.
    + rewrite IH. split; intros H [t Ht]; apply H; exists t.
      * destruct Ht as [Ht|Ht]; [|exact Ht]. subst d. cbn in E. rewrite bytes_eqb_refl in E. discriminate.
      * right; exact Ht.
Qed.

(* first entry named n in the table *)
Definition first_named (tbl : list chan) (n : bytes) : option nat :=
  match find_chan tbl n with Some c => Some (snd c) | None => None end.

Definition all_known (tbl : list chan) (allow : list bytes) : Prop :=
  forall n, In n allow -> find_chan tbl n <> None.

Lemma find_in_found tbl allow req :
  find_chan (found_chans tbl allow) req =
  if existsb (fun n => bytes_eqb n req && match find_chan tbl n with Some _ => true | None => false end) allow
  then find_chan tbl req else None.
Proof.
  unfold found_chans. induction allow as [|n allow IH]; cbn; [reflexivity|].
  destruct (find_chan tbl n) as [c|] eqn:F; cbn.
  - destruct (find_chan_some _ _ _ F) as [_ Hn].
    destruct (bytes_eqb n req) eqn:E; cbn.
    + apply bytes_eqb_eq in E; subst req. rewrite Hn, bytes_eqb_refl. rewrite F. reflexivity.
    + rewrite Hn, E. exact IH.
  - rewrite andb_false_r. cbn. exact IH.
Qed.

Lemma existsb_missing_false tbl allow :
  missing_chans tbl allow = false <-> all_known tbl allow.
Proof.
  unfold all_known, missing_chans. induction allow as [|n allow IH]; cbn.
  - split; [intros _ n [] | reflexivity].
  - destruct (find_chan tbl n) eqn:F; cbn.
    + rewrite IH. split; intros H m.
      * intros [->|Hm]; [rewrite F; discriminate | apply H; exact Hm].
      * intros Hm; apply H; right; exact Hm.
    + split; [discriminate|]. intros H. exfalso. apply (H n); [left; reflexivity | exact F].
Qed.

Opaque found_chans missing_chans.

(* filter without error: the served list routes exactly the allowed, configured names, first entry wins *)
Lemma route_filter tbl allow served req :
  filter_chans tbl allow = (served, false) ->
  route served req = (if match allow with [] => true | _ => existsb (fun n => bytes_eqb n req) allow end
                      then first_named tbl req else None).
Proof.
  unfold filter_chans, route, first_named. destruct allow as [|a allow].
  - intros H; inversion H; subst. reflexivity.
  - set (al := a :: allow) in *. intros H. injection H as Hs He. subst served. apply orb_false_iff in He as [Hmiss _].
    apply (proj1 (existsb_missing_false tbl al)) in Hmiss.
    rewrite find_in_found.
    assert (Hex : existsb (fun n => bytes_eqb n req && match find_chan tbl n with Some _ => true | None => false end) al
                  = existsb (fun n => bytes_eqb n req) al).
    { clearbody al. induction al as [|n al IH]; cbn; [reflexivity|].
      rewrite IH by (intros m Hm; apply Hmiss; right; exact Hm).
      destruct (find_chan tbl n) eqn:F; [rewrite andb_true_r; reflexivity|].
      exfalso. apply (Hmiss n); [left; reflexivity | exact F]. }
    rewrite Hex. destruct (existsb (fun n => bytes_eqb n req) al); reflexivity.
Qed.

Lemma existsb_in allow req : existsb (fun n => bytes_eqb n req) allow = true <-> In req allow.
Proof.
  rewrite existsb_exists. split.
  - intros [n [Hn E]]. apply bytes_eqb_eq in E; subst; exact Hn.
  - intros H; exists req; split; [exact H | apply bytes_eqb_refl].
Qed.

Lemma filter_err_iff tbl allow served err :
  filter_chans tbl allow = (served, err) ->
  (err = false <-> (allow = [] \/ (all_known tbl allow /\ served <> []))).
Proof.
  unfold filter_chans. destruct allow as [|a allow].
  - intros H; inversion H; subst. split; [left; reflexivity | reflexivity].
  - set (al := a :: allow) in *. intros H; injection H as Hs He. subst served.
    split.
    + intros E. rewrite E in He. apply orb_false_iff in He as [H1 H2]. right. split.
      * apply (proj1 (existsb_missing_false tbl al)); exact H1.
      * intro Hnil. rewrite Hnil in H2. discriminate.
    + intros [Hn | [Hk Hne]]; [discriminate Hn|]. rewrite <- He.
      apply orb_false_iff. split; [apply (proj2 (existsb_missing_false tbl al)); exact Hk|].
      destruct (found_chans tbl al); [exfalso; apply Hne; reflexivity | reflexivity].
Qed.

(* complete characterisation of what an endpoint does with a request *)
Lemma serve_dial k tbl allow req t :
  serve k tbl allow req = Dial t <->
  first_named tbl req = Some t /\ (allow = [] \/ (In req allow /\ all_known tbl allow)).
Proof.
  unfold serve, startup. destruct (filter_chans tbl allow) as [served err] eqn:F.
  destruct err.
  - (* start-up failed: nothing is dialled *)
    assert (Hno : ~ (allow = [] \/ all_known tbl allow /\ served <> [])).
    { intros H. apply (filter_err_iff _ _ _ _ F) in H. discriminate. }
    split.
    + destruct k; cbn; discriminate.
    + intros [Hf [Ha | [Hin Hk]]]; exfalso; apply Hno; [left; exact Ha|].
      right. split; [exact Hk|].
      unfold filter_chans in F. destruct allow as [|a allow]; [destruct Hin|].
      injection F as Hs He. intro Hnil.
      (* req is allowed and known, so it is in the found list *)
      assert (Hr : find_chan served req <> None).
      { rewrite <- Hs. rewrite find_in_found.
        assert (E : existsb (fun n => bytes_eqb n req && match find_chan tbl n with Some _ => true | None => false end) (a :: allow) = true).
        { apply existsb_exists. exists req. split; [exact Hin|]. rewrite bytes_eqb_refl. cbn.
          unfold first_named in Hf. destruct (find_chan tbl req); [reflexivity | discriminate]. }
        rewrite E. unfold first_named in Hf. destruct (find_chan tbl req); [discriminate | discriminate]. }
      rewrite Hnil in Hr. apply Hr. reflexivity.
  - rewrite (route_filter _ _ _ req F).
    destruct allow as [|a allow].
    + destruct (first_named tbl req) as [t'|]; split.
      * intros H; inversion H; subst. split; [reflexivity | left; reflexivity].
      * intros [H _]; inversion H; reflexivity.
      * discriminate.
      * intros [H _]; discriminate.
    + destruct (existsb (fun n => bytes_eqb n req) (a :: allow)) eqn:E.
      * apply existsb_in in E.
        assert (Hk : all_known tbl (a :: allow)).
        { destruct (proj1 (filter_err_iff _ _ _ _ F) eq_refl) as [Hn|[Hk _]]; [discriminate | exact Hk]. }
        destruct (first_named tbl req) as [t'|]; split.
        -- intros H; inversion H; subst. split; [reflexivity | right; split; assumption].
        -- intros [H _]; inversion H; reflexivity.
        -- discriminate.
        -- intros [H _]; discriminate.
      * split; [discriminate|]. intros [_ [Hn | [Hin _]]]; [discriminate|].
        apply existsb_in in Hin. rewrite Hin in E. discriminate.
Qed.

(* a refused or unserved request never causes a dial: serve has no other effect than its outcome; and a
   request is never routed to the target of a differently spelled name *)
Lemma serve_exact k tbl allow req t :
  serve k tbl allow req = Dial t -> exists c, In c tbl /\ fst c = req /\ snd c = t.
Proof.
  intros H. apply serve_dial in H as [Hf _]. unfold first_named in Hf.
  destruct (find_chan tbl req) as [c|] eqn:F; [|discriminate]. inversion Hf; subst.
  destruct (find_chan_some _ _ _ F) as [Hin Hn]. exists c. repeat split; assumption.
Qed.

Lemma first_named_unique tbl n t :
  NoDup (map fst tbl) -> In (n, t) tbl -> first_named tbl n = Some t.
Proof.
  unfold first_named. induction tbl as [|d tbl IH]; cbn; [intros _ []|].
  intros Hnd Hin. inversion Hnd as [|? ? Hni Hnd']; subst.
  destruct (bytes_eqb (fst d) n) eqn:E.
  - apply bytes_eqb_eq in E. destruct Hin as [->|Hin]; [reflexivity|].
    exfalso. apply Hni. rewrite E. change n with (fst (n, t)). apply in_map. exact Hin.
  - destruct Hin as [->|Hin]; [cbn in E; rewrite bytes_eqb_refl in E; discriminate|].
    apply IH; assumption.
Qed.

(* the http server: every websocket path routes by its own allow-list, independently of the other paths *)
Lemma http_paths tbl allows lists i al served req :
  startup_http tbl allows = Some lists ->
  nth_error allows i = Some al -> nth_error lists i = Some served ->
  route served req = (if match al with [] => true | _ => existsb (fun n => bytes_eqb n req) al end
                      then first_named tbl req else None).
Proof.
  unfold startup_http. destruct (existsb snd (map (filter_chans tbl) allows)) eqn:E; [discriminate|].
  intros H Ha Hl. injection H as H. subst lists.
  rewrite map_map in Hl. rewrite nth_error_map in Hl. rewrite Ha in Hl. cbn in Hl. injection Hl as Hl.
  destruct (filter_chans tbl al) as [sv err] eqn:F. cbn in Hl. subst sv.
  assert (err = false).
  { destruct err; [|reflexivity]. exfalso.
    assert (existsb snd (map (filter_chans tbl) allows) = true).
    { apply existsb_exists. exists (filter_chans tbl al). split.
      - apply in_map. eapply nth_error_In; exact Ha.
      - rewrite F; reflexivity. }
    rewrite E in H; discriminate. }
  subst err. apply (route_filter _ _ _ req F).
Qed.
