(* C02 / C15 / C14: an accept loop (the per-session stream accept loop of the server, and one level up the listener's
   connection accept loop) with the handler run inline or on its own goroutine - which of the two comes from the source. *)
From Coq Require Import String List NArith ZArith Bool Arith.
From SA Require Import Base.Tok.
Import ListNotations.

Inductive item := Pending | Served | Finished.        (* a logical stream (or a connecting peer): waiting to be accepted / being handled / done *)
Inductive loop := LWaiting | LHandling (j : nat) | LExited.

Record astate := { lp : loop; items : list item; dead : bool }.

Fixpoint first_pending (l : list item) (i : nat) : option nat :=
  match l with
  | [] => None
  | Pending :: _ => Some i
  | _ :: r => first_pending r (S i)
  end.

Fixpoint set_item (l : list item) (i : nat) (x : item) : list item :=
  match l, i with
  | [], _ => []
  | _ :: r, O => x :: r
  | y :: r, S i' => y :: set_item r i' x
  end.

(* one step of the loop's own thread. spawns: the handler runs on its own goroutine; spins: an error is answered with `continue` *)
Definition loop_step (spawns spins : bool) (s : astate) : astate :=
  match lp s with
  | LWaiting =>
    if dead s then (if spins then s else {| lp := LExited; items := items s; dead := dead s |})
    else match first_pending (items s) 0 with
         | Some j => {| lp := if spawns then LWaiting else LHandling j; items := set_item (items s) j Served; dead := dead s |}
         | None => s
         end
  | _ => s          (* handling inline: the loop's thread is inside the handler; only that item's own progress releases it *)
  end.

(* environment steps: a new item arrives; item j finishes (its peer closes / its data ends); the session dies *)
Inductive env := Arrive | Finish (j : nat) | Die.
Definition env_step (s : astate) (e : env) : astate :=
  match e with
  | Arrive => {| lp := lp s; items := items s ++ [Pending]; dead := dead s |}
  | Finish j =>
    match nth_error (items s) j with
    | Some Served => {| lp := match lp s with LHandling k => if Nat.eqb k j then LWaiting else lp s | x => x end;
                        items := set_item (items s) j Finished; dead := dead s |}
    | _ => s
    end
  | Die => {| lp := lp s; items := items s; dead := true |}
  end.

Inductive step_kind := SLoop | SEnv (e : env).
Definition astep (spawns spins : bool) (s : astate) (k : step_kind) : astate :=
  match k with SLoop => loop_step spawns spins s | SEnv e => env_step s e end.
Definition arun (spawns spins : bool) (ks : list step_kind) : astate :=
  fold_left (astep spawns spins) ks {| lp := LWaiting; items := []; dead := false |}.

Fixpoint iter_loop (spawns spins : bool) (n : nat) (s : astate) : astate :=
  match n with O => s | S k => iter_loop spawns spins k (loop_step spawns spins s) end.

Definition is_served (s : astate) (j : nat) : bool :=
  match nth_error (items s) j with Some Served | Some Finished => true | _ => false end.
