(* Proofs about Mux/Endpoint.v: the accept loop is never blocked on a peer, frame and independence of the per-peer session set-up, the
   handshake deadline (armed while a goroutine reads from its peer; a stalled peer is gone a bounded number of its own steps after its
   deadline has passed, whatever else happens), a well-behaved peer completes in a bounded number of its own steps; refuted variants. *)
From Coq Require Import List NArith ZArith Bool Arith String Lia.
From SA Require Import Base.Tok Mux.Endpoint.
Import ListNotations.
Local Open Scope nat_scope.

Ltac inv H := inversion H; subst; clear H.

(* ---------------------------------------------------------------------------------------------------------------- lists *)
Lemma nth_error_upd_same {A} (l : list A) i f : nth_error (upd l i f) i = option_map f (nth_error l i).
Proof. revert i; induction l as [|x r IH]; intros [|i]; simpl; auto. Qed.
Lemma nth_error_upd_other {A} (l : list A) i j f : i <> j -> nth_error (upd l i f) j = nth_error l j.
Proof. revert i j; induction l as [|x r IH]; intros [|i] [|j] H; simpl; auto; try congruence. Qed.
Lemma length_upd {A} (l : list A) i f : List.length (upd l i f) = List.length l.
Proof. revert i; induction l as [|x r IH]; intros [|i]; simpl; auto. Qed.
Lemma Forall_upd {A} (P : A -> Prop) (l : list A) i f : Forall P l -> (forall x, nth_error l i = Some x -> P x -> P (f x)) -> Forall P (upd l i f).
Proof.
  revert i; induction l as [|x r IH]; intros [|i] H Hf; simpl; auto.
  - inv H. constructor; auto.
  - inv H. constructor; auto.
Qed.
Lemma Forall_nth {A} (P : A -> Prop) (l : list A) i x : Forall P l -> nth_error l i = Some x -> P x.
Proof. intros H Hn. rewrite Forall_forall in H. apply H. eapply nth_error_In; eauto. Qed.

(* ---------------------------------------------------------------------------------------------------------------- shape_ok *)
Lemma shape_ok_intended sh : shape_ok sh = true -> sh = intended.
Proof.
  unfold shape_ok. intros H.
  repeat (apply andb_prop in H; destruct H as [H ?]).
  repeat match goal with
         | H : negb _ = true |- _ => apply negb_true_iff in H
         | H : Nat.eqb _ _ = true |- _ => apply Nat.eqb_eq in H
         end.
  destruct sh; simpl in *; subst; reflexivity.
Qed.

(* ---------------------------------------------------------------------------------------------------------------- the local step *)
(* the session set-up of one peer as a function of its own record alone (the code as it is: no lock, no semaphore, no bound, no shared
   deadline; the socket is alive) *)
Definition pstep (kd : kind) (p : peer) : option peer := option_map o_peer (h_local intended kd false true false p).

Definition held_none (p : peer) : Prop := p_slot p = false /\ p_token p = false.
Definition pc_ok (p : peer) : Prop := p_pc p <> HLock /\ p_pc p <> HTlsLoop.

Lemma set_held_id p : held_none p -> set_held p false false = p.
Proof. intros [H1 H2]. destruct p; simpl in *; subst; reflexivity. Qed.

(* the helpers that write to a peer: unfold, split on whether the write goes through *)
Ltac wr :=
  unfold write_101, send_opt, send, pop in *;
  repeat match goal with
         | |- context [if wr_ok ?k ?a ?b then _ else _] => destruct (wr_ok k a b)
         | |- context [match refusal_announce ?m with Some _ => _ | None => _ end] => destruct (refusal_announce m)
         | |- context [match refusal_upgrade ?m with Some _ => _ | None => _ end] => destruct (refusal_upgrade m)
         end; cbn.

Ltac rdcases H p := revert H; destruct (rd false p) as [|[| |[]| |[]]|]; intros H.

(* what a step of peer k's goroutine does beyond k's own record: nothing *)
Lemma h_local_effects kd lf tl p o : held_none p -> pc_ok p -> h_local intended kd false lf tl p = Some o ->
  o_lock o = LKeep /\ o_slot o = false /\ o_tok o = TKeep /\ o_shared o = SKeep /\ (o_loop o = OKeep \/ o_loop o = ORelease).
Proof.
  intros [Hs Ht] [Hl Htl] H. unfold h_local in H.
  destruct (p_pc p) eqn:Epc; try discriminate; try congruence; try rdcases H p; cbn in H;
    repeat match type of H with context [if ?b then _ else _] => destruct b end;
    try discriminate; inv H; unfold finish, plain, with_lock; cbn; wr; rewrite ?Hs, ?Ht; auto 10.
Qed.

Lemma h_local_indep kd lf tl p : pc_ok p -> h_local intended kd false lf tl p = h_local intended kd false true false p.
Proof.
  intros [Hl Htl]. unfold h_local. destruct (p_pc p); try reflexivity; try congruence.
Qed.

(* ---------------------------------------------------------------------------------------------------------------- invariants *)
(* the endpoint's own state in every reachable state of the code as it is: the loop is in Accept or has ended, nothing is held *)
Record ginv (s : est) : Prop := {
  gi_loop : loop_free (e_loop s) = true; gi_lock : e_lock s = None; gi_slots : e_slots s = 0; gi_tokens : e_tokens s = 0;
  gi_shared : e_shared s = false; gi_dead : e_sockdead s = false
}.
(* a goroutine that reads from its peer does so under the handshake deadline (where the connection type honours deadlines) *)
Definition fresh_pc (x : hpc) : bool := match x with HQueued | HStart => true | _ => false end.
Definition pinv (kd : kind) (p : peer) : Prop :=
  held_none p /\ pc_ok p /\ (reading (p_pc p) = true -> dl_works kd = true -> p_armed p = true) /\
  (fresh_pc (p_pc p) = true -> p_open p = true /\ p_armed p = false).
Definition sinv (kd : kind) (s : est) : Prop := ginv s /\ Forall (pinv kd) (e_peers s).

Record same_globals (s s' : est) : Prop := {
  sg_loop : e_loop s' = e_loop s; sg_errs : e_errs s' = e_errs s; sg_done : e_done s' = e_done s; sg_lock : e_lock s' = e_lock s;
  sg_slots : e_slots s' = e_slots s; sg_tokens : e_tokens s' = e_tokens s; sg_shared : e_shared s' = e_shared s;
  sg_dead : e_sockdead s' = e_sockdead s; sg_steps : e_steps s' = e_steps s
}.
Lemma same_globals_refl s : same_globals s s. Proof. constructor; reflexivity. Qed.
Lemma same_globals_peers s l : same_globals s (with_peers s l). Proof. constructor; reflexivity. Qed.

Lemma ginv_peers s l : ginv s -> ginv (with_peers s l).
Proof. intros [? ? ? ? ? ?]. constructor; assumption. Qed.

Lemma apply_hout_plain kd s k o : ginv s ->
  o_lock o = LKeep -> o_slot o = false -> o_tok o = TKeep -> o_shared o = SKeep -> (o_loop o = OKeep \/ o_loop o = ORelease) ->
  apply_hout intended kd s k o = with_peers s (upd (e_peers s) k (fun _ => o_peer o)).
Proof.
  intros G H1 H2 H3 H4 H5. unfold apply_hout. rewrite H1, H2, H3, H4. cbn.
  pose proof (gi_loop s G) as Hl.
  destruct s as [ps lp er dn lk sl tk shd sd st]; cbn in *.
  destruct H5 as [-> | ->]; destruct lp; try discriminate; reflexivity.
Qed.

Lemma peer_step_eq kd s k : sinv kd s -> peer_step intended kd s k = env_peer s k (pstep kd).
Proof.
  intros [G F]. unfold peer_step, env_peer, pstep.
  destruct (nth_error (e_peers s) k) as [p|] eqn:En; [|reflexivity].
  destruct (Forall_nth _ _ _ _ F En) as [Hh [Hpc _]].
  rewrite (gi_dead s G). rewrite (h_local_indep kd _ _ p Hpc).
  destruct (h_local intended kd false true false p) as [o|] eqn:Eh; [|reflexivity]. cbn.
  destruct (h_local_effects kd _ _ p o Hh Hpc Eh) as [H1 [H2 [H3 [H4 H5]]]].
  rewrite (apply_hout_plain kd s k o G H1 H2 H3 H4 H5). reflexivity.
Qed.

Lemma env_peer_spec s k f s' : env_peer s k f = Some s' ->
  exists p p', nth_error (e_peers s) k = Some p /\ f p = Some p' /\ s' = with_peers s (upd (e_peers s) k (fun _ => p')).
Proof.
  unfold env_peer. destruct (nth_error (e_peers s) k) as [p|]; [|discriminate].
  destruct (f p) as [p'|] eqn:Ef; [|discriminate]. intros H; inv H. eauto.
Qed.

(* the local step keeps the per-peer invariant *)
Lemma pstep_pinv kd p p' : pinv kd p -> pstep kd p = Some p' -> pinv kd p'.
Proof.
  intros [[Hs Ht] [[Hl Htl] [Ha _]]] H. unfold pstep, h_local in H.
  destruct (p_pc p) eqn:Epc; try discriminate; try congruence; try rdcases H p; cbn in H;
    repeat match type of H with context [if ?b then _ else _] => destruct b eqn:? end;
    try discriminate; inv H; unfold pinv, held_none, pc_ok, finish, plain, with_lock, after_start, after_arm; cbn; wr;
    repeat match goal with |- context [if ?b then _ else _] => destruct b eqn:? end; cbn;
    rewrite ?Hs, ?Ht; (split; [split; reflexivity|]); (split; [split; discriminate|]);
    (split; [|intros; discriminate]);
    intros Hr Hd; try discriminate; cbn in Ha; try (apply Ha; auto; fail); try (rewrite Hd; reflexivity).
Qed.

(* ---------------------------------------------------------------------------------------------------------------- the loop *)
(* the accept loop of the code as it is, written out: Accept; an error: continue; a connection: its own goroutine; again *)
Definition lstep (s : est) : option est :=
  match e_loop s with
  | LAccept =>
    if e_done s then Some (tick (with_loop s LExited))
    else if Nat.ltb 0 (e_errs s) then Some (tick (with_loop (with_errs s (Nat.pred (e_errs s))) LAccept))
    else match first_queued (e_peers s) 0 with
         | None => None
         | Some k =>
           match nth_error (e_peers s) k with
           | None => None
           | Some p =>
             Some (tick (with_loop (with_peers s (upd (e_peers s) k (fun q => if p_accerr p then set_pc (set_closed q) (HDone false) else set_pc q HStart))) LAccept))
           end
         end
  | _ => None
  end.

Lemma eff_spawn_intended kd : eff_spawn intended kd = true.
Proof. unfold eff_spawn. destruct (k_kind kd); reflexivity. Qed.
Lemma eff_slots_intended kd : eff_slots intended kd = 0.
Proof. unfold eff_slots. destruct (own_loop kd); reflexivity. Qed.

Lemma loop_step_eq kd s : ginv s -> loop_step intended kd s = lstep s.
Proof.
  intros G. unfold loop_step, lstep.
  pose proof (gi_loop s G) as Hl. destruct (e_loop s); try discriminate; try reflexivity.
  rewrite (gi_dead s G). destruct (e_done s); [reflexivity|].
  cbn [after_acc_err intended sh_acc_err_continue]. destruct (Nat.ltb 0 (e_errs s)); [reflexivity|].
  destruct (first_queued (e_peers s) 0) as [k|]; [|reflexivity].
  destruct (nth_error (e_peers s) k) as [p|]; [|reflexivity].
  cbn [sh_acc_err_closes sh_tls_on_loop intended]. rewrite andb_false_r. cbn [andb].
  destruct (p_accerr p).
  - reflexivity.
  - unfold hand_on. rewrite eff_spawn_intended, eff_slots_intended. reflexivity.
Qed.

Lemma first_queued_spec l i k : first_queued l i = Some k -> exists p, nth_error l (k - i) = Some p /\ is_queued p = true /\ i <= k.
Proof.
  revert i. induction l as [|x r IH]; intros i H; simpl in H; [discriminate|].
  destruct (is_queued x) eqn:Eq.
  - inv H. rewrite Nat.sub_diag. exists x. auto.
  - destruct (IH _ H) as [p [Hn [Hq Hle]]]. exists p. split; [|split; [assumption|lia]].
    replace (k - i) with (S (k - S i)) by lia. exact Hn.
Qed.

Lemma pinv_new kd pc a : (pc = HQueued \/ pc = HStart) -> pinv kd (new_peer pc a).
Proof. intros [-> | ->]; repeat split; cbn; try discriminate; reflexivity. Qed.

Lemma ginv_tick s : ginv s -> ginv (tick s). Proof. intros [? ? ? ? ? ?]; constructor; assumption. Qed.
Lemma ginv_errs s n : ginv s -> ginv (with_errs s n). Proof. intros [? ? ? ? ? ?]; constructor; assumption. Qed.
Lemma ginv_done s : ginv s -> ginv (with_done s). Proof. intros [? ? ? ? ? ?]; constructor; assumption. Qed.
Lemma ginv_loop s x : loop_free x = true -> ginv s -> ginv (with_loop s x). Proof. intros Hx [? ? ? ? ? ?]; constructor; assumption. Qed.

Lemma lstep_sinv kd s s' : sinv kd s -> lstep s = Some s' -> sinv kd s'.
Proof.
  intros [G F] H. unfold lstep in H. destruct (e_loop s); try discriminate.
  destruct (e_done s).
  - inv H. split; [apply ginv_tick, ginv_loop; auto|exact F].
  - destruct (Nat.ltb 0 (e_errs s)).
    + inv H. split; [apply ginv_tick, ginv_loop, ginv_errs; auto|exact F].
    + destruct (first_queued (e_peers s) 0) as [k|] eqn:Efq; [|discriminate].
      destruct (nth_error (e_peers s) k) as [p|] eqn:En; [|discriminate]. inv H.
      split; [apply ginv_tick, ginv_loop, ginv_peers; auto|].
      cbn. apply Forall_upd; [exact F|]. intros x Hx [[Hs Ht] [[Hl Htl] [Ha Hf]]].
      destruct (first_queued_spec _ _ _ Efq) as [q' [Hq' [Hqq _]]]. rewrite Nat.sub_0_r in Hq'. rewrite Hx in Hq'. inv Hq'.
      unfold is_queued in Hqq. destruct (p_pc q') eqn:Epq; try discriminate. destruct (Hf eq_refl) as [Ho Har].
      destruct (p_accerr p); repeat split; cbn; try assumption; try discriminate.
Qed.

(* ---------------------------------------------------------------------------------------------------------------- every step keeps the invariants *)
Lemma env_peer_sinv kd s k f s' : (forall p p', pinv kd p -> f p = Some p' -> pinv kd p') -> sinv kd s -> env_peer s k f = Some s' -> sinv kd s'.
Proof.
  intros Hf [G F] H. destruct (env_peer_spec _ _ _ _ H) as [p [p' [Hn [Hfp ->]]]].
  split; [apply ginv_peers; exact G|]. cbn. apply Forall_upd; [exact F|]. intros x Hx Hp.
  rewrite Hn in Hx. inv Hx. eapply Hf; eauto.
Qed.

Lemma step_opt_sinv kd s e s' : sinv kd s -> step_opt intended kd s e = Some s' -> sinv kd s'.
Proof.
  intros I H. destruct e; cbn [step_opt] in H.
  - (* EConnect *) destruct I as [G F]. unfold connect in H.
    destruct (k_kind kd);
      try (destruct (e_done s); [discriminate|]; inv H; split; [apply ginv_peers; exact G|cbn; apply Forall_app; split; [exact F|constructor; [apply pinv_new; auto|constructor]]]).
    + destruct (e_peers s); [|discriminate]. destruct accerr; [discriminate|]. cbn in H. inv H.
      split; [apply ginv_peers; exact G|cbn; constructor; [apply pinv_new; auto|constructor]].
    + destruct accerr; [discriminate|]. inv H.
      split; [apply ginv_peers; exact G|cbn; apply Forall_app; split; [exact F|constructor; [apply pinv_new; auto|constructor]]].
  - (* ESend *) eapply env_peer_sinv; [|exact I|exact H]. intros p p' [Hh [Hp [Ha Hfr]]] Hf. destruct (p_gone p); [discriminate|]. inv Hf. repeat split; try apply Hh; try apply Hp; try exact Ha; cbn in *; match goal with Hq : fresh_pc _ = true |- _ => apply (Hfr Hq) end.
  - (* EPartial *) eapply env_peer_sinv; [|exact I|exact H]. intros p p' [Hh [Hp [Ha Hfr]]] Hf. destruct (p_gone p || p_part p); [discriminate|]. inv Hf. repeat split; try apply Hh; try apply Hp; try exact Ha; cbn in *; match goal with Hq : fresh_pc _ = true |- _ => apply (Hfr Hq) end.
  - (* EPeerClose *) eapply env_peer_sinv; [|exact I|exact H]. intros p p' [Hh [Hp [Ha Hfr]]] Hf. destruct (p_gone p); [discriminate|]. inv Hf. repeat split; try apply Hh; try apply Hp; try exact Ha; cbn in *; match goal with Hq : fresh_pc _ = true |- _ => apply (Hfr Hq) end.
  - (* EExpire *) eapply env_peer_sinv; [|exact I|exact H]. intros p p' [Hh [Hp [Ha Hfr]]] Hf. destruct (p_armed p) eqn:Ear; [|discriminate]. destruct (negb (p_expired p)); [|discriminate]. inv Hf. repeat split; try apply Hh; try apply Hp; cbn in *; match goal with Hq : fresh_pc _ = true |- _ => destruct (Hfr Hq) as [_ Hx]; congruence end.
  - (* EExpireShared *) destruct I as [G F]. rewrite (gi_shared s G) in H. discriminate.
  - (* EAcceptErr *) destruct (has_loop kd && negb (e_done s)); [|discriminate]. inv H. destruct I as [G F]. split; [apply ginv_errs; exact G|exact F].
  - (* EShutdown *) destruct (has_loop kd && negb (e_done s)); [|discriminate]. inv H. destruct I as [G F]. split; [apply ginv_done; exact G|exact F].
  - (* SLoop *) rewrite (loop_step_eq kd s (proj1 I)) in H. eapply lstep_sinv; eauto.
  - (* SPeer *) rewrite (peer_step_eq kd s k I) in H. eapply env_peer_sinv; [|exact I|exact H]. intros p p'. apply pstep_pinv.
Qed.

Lemma step_sinv kd s e : sinv kd s -> sinv kd (step intended kd s e).
Proof. intros I. unfold step. destruct (step_opt intended kd s e) eqn:E; [eapply step_opt_sinv; eauto|exact I]. Qed.

Lemma sinv_new kd : sinv kd (e_new kd).
Proof. split; [constructor; cbn; try reflexivity; destruct (has_loop kd); reflexivity|constructor]. Qed.

Lemma run_from_sinv kd evs : forall s, sinv kd s -> sinv kd (run_from intended kd s evs).
Proof. induction evs as [|e r IH]; intros s I; cbn; [exact I|apply IH, step_sinv, I]. Qed.
Lemma run_sinv kd evs : sinv kd (run intended kd evs).
Proof. apply run_from_sinv, sinv_new. Qed.

(* ---------------------------------------------------------------------------------------------------------------- the loop is never blocked on a peer *)
Theorem loop_never_blocked_run sh kd evs : shape_ok sh = true ->
  let s := run sh kd evs in
  loop_free (e_loop s) = true /\ e_lock s = None /\ e_slots s = 0 /\ e_tokens s = 0 /\ e_shared s = false /\ e_sockdead s = false.
Proof.
  intros Hok. rewrite (shape_ok_intended sh Hok). cbn zeta. destruct (run_sinv kd evs) as [[? ? ? ? ? ?] _]. auto 10.
Qed.

(* with its next step the loop gives the oldest waiting connection a goroutine of its own and is back in Accept, whatever state the
   other peers are in *)
Theorem accept_serves_run sh kd evs j : shape_ok sh = true ->
  let s := run sh kd evs in
  e_loop s = LAccept -> e_done s = false -> e_errs s = 0 -> first_queued (e_peers s) 0 = Some j ->
  exists p, nth_error (e_peers s) j = Some p /\ p_pc p = HQueued /\
            nth_error (e_peers (step sh kd s SLoop)) j = Some (if p_accerr p then set_pc (set_closed p) (HDone false) else set_pc p HStart) /\
            e_loop (step sh kd s SLoop) = LAccept /\
            forall k, k <> j -> nth_error (e_peers (step sh kd s SLoop)) k = nth_error (e_peers s) k.
Proof.
  intros Hok. rewrite (shape_ok_intended sh Hok). cbn zeta. intros Hl Hd He Hq.
  pose proof (run_sinv kd evs) as [G F].
  destruct (first_queued_spec _ _ _ Hq) as [p [Hn [Hqd _]]]. rewrite Nat.sub_0_r in Hn.
  exists p. split; [exact Hn|]. split; [unfold is_queued in Hqd; destruct (p_pc p); try discriminate; reflexivity|].
  unfold step. cbn [step_opt]. rewrite (loop_step_eq kd _ G). unfold lstep. rewrite Hl, Hd, He, Hq, Hn. cbn.
  split; [rewrite nth_error_upd_same, Hn; cbn; destruct (p_accerr p); reflexivity|].
  split; [reflexivity|]. intros k Hk. apply nth_error_upd_other. congruence.
Qed.

(* ---------------------------------------------------------------------------------------------------------------- frame, independence *)
Definition ev_fun (kd : kind) (e : ev) : peer -> option peer :=
  match e with
  | ESend _ m => fun p => if p_gone p then None else Some (set_in p (p_in p ++ [m]) false)
  | EPartial _ => fun p => if p_gone p || p_part p then None else Some (set_in p (p_in p) true)
  | EPeerClose _ => fun p => if p_gone p then None else Some (set_gone p)
  | EExpire _ => fun p => if p_armed p && negb (p_expired p) then Some (set_dl p true true) else None
  | SPeer _ => pstep kd
  | _ => fun _ => None
  end.

Lemma step_opt_peer kd s e j : sinv kd s -> ev_peer e = Some j -> step_opt intended kd s e = env_peer s j (ev_fun kd e).
Proof.
  intros I H. destruct e; cbn in H; try discriminate; inv H; cbn [step_opt ev_fun]; try reflexivity.
  apply peer_step_eq, I.
Qed.

Definition view (s : est) (j : nat) : option peer := nth_error (e_peers s) j.

(* an event of peer i - a step of the goroutine that sets up its session, something the peer sends, its deadline passing - leaves the
   record of every other peer (its connection, its deadline, its goroutine's program counter, what it was sent) and the endpoint's own
   state exactly as they were *)
Theorem frame_run sh kd evs e i : shape_ok sh = true -> ev_peer e = Some i ->
  let s := run sh kd evs in
  (forall j, j <> i -> nth_error (e_peers (step sh kd s e)) j = nth_error (e_peers s) j) /\ same_globals s (step sh kd s e) /\
  List.length (e_peers (step sh kd s e)) = List.length (e_peers s).
Proof.
  intros Hok He. rewrite (shape_ok_intended sh Hok). cbn zeta.
  pose proof (run_sinv kd evs) as I. unfold step. rewrite (step_opt_peer kd _ e i I He).
  destruct (env_peer (run intended kd evs) i (ev_fun kd e)) as [s'|] eqn:E.
  - destruct (env_peer_spec _ _ _ _ E) as [p [p' [Hn [Hf ->]]]]. cbn.
    split; [intros j Hj; apply nth_error_upd_other; congruence|]. split; [apply same_globals_peers|apply length_upd].
  - split; [reflexivity|]. split; [apply same_globals_refl|reflexivity].
Qed.

(* what peer j's session set-up can do next, and what becomes of it, is a function of j's own record - of nothing that belongs to another
   peer or to the endpoint: two reachable states that agree on j's record agree on the result and the enabledness of every event of j *)
Theorem independent_run sh kd evs evs' e j : shape_ok sh = true -> ev_peer e = Some j ->
  let s := run sh kd evs in let s' := run sh kd evs' in
  view s j = view s' j -> view (step sh kd s e) j = view (step sh kd s' e) j /\ enabled sh kd s e = enabled sh kd s' e.
Proof.
  intros Hok He. rewrite (shape_ok_intended sh Hok). cbn zeta. unfold view, enabled, step. intros Hv.
  rewrite (step_opt_peer kd _ e j (run_sinv kd evs) He), (step_opt_peer kd _ e j (run_sinv kd evs') He).
  unfold env_peer. rewrite <- Hv. destruct (nth_error (e_peers (run intended kd evs)) j) as [p|] eqn:En.
  - destruct (ev_fun kd e p) as [p'|]; cbn.
    + rewrite !nth_error_upd_same, <- Hv, En. auto.
    + rewrite <- Hv, En. auto.
  - cbn. rewrite <- Hv, En. auto.
Qed.

(* a goroutine that is about to read from its peer does so under the handshake deadline *)
Theorem armed_while_reading_run sh kd evs j p : shape_ok sh = true -> dl_works kd = true ->
  nth_error (e_peers (run sh kd evs)) j = Some p -> reading (p_pc p) = true -> p_armed p = true.
Proof.
  intros Hok Hd Hn Hr. rewrite (shape_ok_intended sh Hok) in Hn.
  destruct (run_sinv kd evs) as [_ F]. destruct (Forall_nth _ _ _ _ F Hn) as [_ [_ [Ha _]]]. auto.
Qed.

Lemma option_eq_dec_j (o : option nat) (j : nat) : {o = Some j} + {o <> Some j}.
Proof. destruct o as [i|]; [destruct (Nat.eq_dec i j); [left; congruence|right; congruence]|right; discriminate]. Qed.

(* ---------------------------------------------------------------------------------------------------------------- events that are not peer j's leave j alone *)
Lemma step_other kd s e j p : sinv kd s -> nth_error (e_peers s) j = Some p -> is_queued p = false -> ev_peer e <> Some j ->
  nth_error (e_peers (step intended kd s e)) j = Some p.
Proof.
  intros I Hn Hq He. unfold step.
  destruct (ev_peer e) as [i|] eqn:Ei.
  - rewrite (step_opt_peer kd s e i I Ei). destruct (env_peer s i (ev_fun kd e)) as [s'|] eqn:E; [|exact Hn].
    destruct (env_peer_spec _ _ _ _ E) as [q [q' [_ [_ ->]]]]. cbn. rewrite nth_error_upd_other; [exact Hn|congruence].
  - destruct e; cbn in Ei; try discriminate; cbn [step_opt].
    + (* EConnect *) unfold connect. destruct (k_kind kd);
        try (destruct (e_done s); [exact Hn|]; cbn; rewrite nth_error_app1; [exact Hn|apply nth_error_Some; congruence]).
      * destruct (e_peers s) eqn:Ep; [destruct j; discriminate|rewrite <- Ep in Hn; exact Hn].
      * destruct accerr; [exact Hn|]. cbn. rewrite nth_error_app1; [exact Hn|apply nth_error_Some; congruence].
    + destruct (e_shared s && negb (e_sockdead s)); exact Hn.
    + destruct (has_loop kd && negb (e_done s)); exact Hn.
    + destruct (has_loop kd && negb (e_done s)); exact Hn.
    + (* SLoop *) rewrite (loop_step_eq kd s (proj1 I)). unfold lstep.
      destruct (e_loop s); try exact Hn. destruct (e_done s); [exact Hn|]. destruct (Nat.ltb 0 (e_errs s)); [exact Hn|].
      destruct (first_queued (e_peers s) 0) as [k|] eqn:Eq; [|exact Hn].
      destruct (nth_error (e_peers s) k) as [q|] eqn:Ek; [|exact Hn]. cbn.
      destruct (first_queued_spec _ _ _ Eq) as [q' [Hq' [Hqq _]]]. rewrite Nat.sub_0_r in Hq'.
      rewrite nth_error_upd_other; [exact Hn|]. intros ->. rewrite Hn in Hq'. inv Hq'. congruence.
Qed.

(* ---------------------------------------------------------------------------------------------------------------- a stalled peer is gone once its deadline has passed *)
(* how many of its own steps a peer is from "connection closed, goroutine ended" once nothing it sends can help it any more *)
Definition doom_rank (p : peer) : option nat :=
  match p_pc p with
  | HTlsAcc | HReadAnn | HReadUpg | HTlsHello => if timed_out p then Some 3 else None
  | HClear false => Some 2
  | HErrClose => Some 1
  | HDone false => if p_open p then None else Some 0
  | _ => None
  end.

Lemma doom_step kd p n : doom_rank p = Some (S n) -> exists p', pstep kd p = Some p' /\ doom_rank p' = Some n.
Proof.
  unfold doom_rank, pstep, h_local. intros H.
  destruct (p_pc p) eqn:Epc; try discriminate;
    try (destruct (timed_out p) eqn:Et; [|discriminate]; inv H; unfold rd; rewrite Et, orb_true_r; cbn;
         eexists; split; [reflexivity|]; cbn; wr; try reflexivity; unfold doom_rank; cbn; reflexivity).
  - destruct ok; [discriminate|]. inv H. cbn. eexists; split; [reflexivity|reflexivity].
  - inv H. cbn. eexists; split; [reflexivity|reflexivity].
  - match type of H with context [if ?b then _ else _] => destruct b end; try discriminate; destruct (p_open p); discriminate.
Qed.

Lemma doom_stuck kd p : doom_rank p = Some 0 -> pstep kd p = None.
Proof.
  unfold doom_rank, pstep, h_local. intros H.
  destruct (p_pc p) eqn:Epc; try discriminate; try (destruct (timed_out p); discriminate); try reflexivity.
  destruct ok; discriminate.
Qed.

Lemma doom_env kd e p p' r : is_sched e = false -> ev_fun kd e p = Some p' -> doom_rank p = Some r -> doom_rank p' = Some r.
Proof.
  intros Hs Hf Hr. destruct e; cbn in Hs; try discriminate; cbn in Hf; try discriminate.
  - destruct (p_gone p); [discriminate|]. inv Hf. exact Hr.
  - destruct (p_gone p || p_part p); [discriminate|]. inv Hf. exact Hr.
  - destruct (p_gone p); [discriminate|]. inv Hf. exact Hr.
  - destruct (p_armed p) eqn:Ea, (p_expired p) eqn:Ee; try discriminate. inv Hf.
    unfold doom_rank, timed_out in *. cbn. rewrite Ea, Ee in Hr. cbn in Hr.
    destruct (p_pc p); try discriminate; exact Hr.
Qed.

Definition is_step_of (j : nat) (e : ev) : bool := match e with SPeer k => Nat.eqb k j | _ => false end.
Definition own_steps (j : nat) (l : list ev) : nat := List.length (filter (is_step_of j) l).

Lemma doom_queued p r : doom_rank p = Some r -> is_queued p = false.
Proof. unfold doom_rank, is_queued. destruct (p_pc p); try discriminate; reflexivity. Qed.

Lemma doomed_run kd l : forall s j p r, sinv kd s -> nth_error (e_peers s) j = Some p -> doom_rank p = Some r ->
  exists p', nth_error (e_peers (run_from intended kd s l)) j = Some p' /\ doom_rank p' = Some (r - own_steps j l).
Proof.
  induction l as [|e l IH]; intros s j p r I Hn Hr.
  - exists p. rewrite Nat.sub_0_r. auto.
  - cbn [run_from fold_left]. change (fold_left (step intended kd) l (step intended kd s e)) with (run_from intended kd (step intended kd s e) l).
    pose proof (step_sinv kd s e I) as I'.
    destruct (option_eq_dec_j (ev_peer e) j) as [Hej|Hej].
    + (* an event of j *)
      assert (Hstep : step intended kd s e = match ev_fun kd e p with Some p' => with_peers s (upd (e_peers s) j (fun _ => p')) | None => s end).
      { unfold step. rewrite (step_opt_peer kd s e j I Hej). unfold env_peer. rewrite Hn. destruct (ev_fun kd e p); reflexivity. }
      destruct (is_sched e) eqn:Es.
      * (* SPeer j *)
        destruct e; cbn in Hej, Es; try discriminate. inv Hej. cbn [ev_fun] in Hstep.
        unfold own_steps. cbn [filter is_step_of]. rewrite Nat.eqb_refl. cbn [List.length]. fold (own_steps j l).
        destruct r as [|n].
        -- rewrite (doom_stuck kd p Hr) in Hstep. rewrite Hstep in *. destruct (IH s j p 0 I Hn Hr) as [p' [H1 H2]]. exists p'. split; [exact H1|exact H2].
        -- destruct (doom_step kd p n Hr) as [q [Hq Hrq]]. rewrite Hq in Hstep.
           assert (Hnq : nth_error (e_peers (step intended kd s (SPeer j))) j = Some q).
           { rewrite Hstep. cbn. rewrite nth_error_upd_same, Hn. reflexivity. }
           destruct (IH _ j q n I' Hnq Hrq) as [p' [H1 H2]]. exists p'. split; [exact H1|]. rewrite H2. f_equal.
      * assert (Hown : own_steps j (e :: l) = own_steps j l).
        { unfold own_steps. cbn [filter]. destruct e; cbn in Es; try discriminate; reflexivity. }
        rewrite Hown.
        destruct (ev_fun kd e p) as [q|] eqn:Ef.
        -- assert (Hnq : nth_error (e_peers (step intended kd s e)) j = Some q).
           { rewrite Hstep. cbn. rewrite nth_error_upd_same, Hn. reflexivity. }
           apply (IH _ j q r I' Hnq). eapply doom_env; eauto.
        -- rewrite Hstep in *. apply (IH s j p r I Hn Hr).
    + (* somebody else's *)
      assert (Hown : own_steps j (e :: l) = own_steps j l).
      { unfold own_steps. cbn [filter]. destruct e; try reflexivity. cbn [is_step_of]. destruct (Nat.eqb k j) eqn:Ek; [|reflexivity].
        apply Nat.eqb_eq in Ek. subst. cbn in Hej. congruence. }
      rewrite Hown. apply (IH _ j p r I'); [|exact Hr].
      apply step_other; auto. eapply doom_queued; eauto.
Qed.

Definition gone (s : est) (j : nat) : Prop := exists q, nth_error (e_peers s) j = Some q /\ p_open q = false /\ p_pc q = HDone false.

Lemma doom_zero p : doom_rank p = Some 0 -> p_open p = false /\ p_pc p = HDone false.
Proof.
  unfold doom_rank. destruct (p_pc p) eqn:E; try discriminate; try (destruct (timed_out p); discriminate).
  - destruct ok; discriminate.
  - match goal with |- context [if ?b then _ else _] => destruct b end; try discriminate. destruct (p_open p); [discriminate|auto].
Qed.

(* BOUNDED STALL. A peer whose goroutine is reading from it (anywhere in the handshake, the TLS hellos included) and whose deadline
   passes is gone - connection closed by the server, goroutine ended - after three steps of its own goroutine, whatever the peer still
   sends and whatever every other peer, the loop and the environment do meanwhile. *)
Theorem stall_bounded_run sh kd evs j p l : shape_ok sh = true ->
  let s := run sh kd evs in
  nth_error (e_peers s) j = Some p -> reading (p_pc p) = true -> p_armed p = true ->
  3 <= own_steps j l -> gone (run_from sh kd (step sh kd s (EExpire j)) l) j.
Proof.
  intros Hok. rewrite (shape_ok_intended sh Hok). cbn zeta. intros Hn Hr Ha Hl.
  pose proof (run_sinv kd evs) as I.
  set (s := run intended kd evs) in *.
  assert (Hex : exists q, nth_error (e_peers (step intended kd s (EExpire j))) j = Some q /\ doom_rank q = Some 3).
  { unfold step. cbn [step_opt]. unfold env_peer. rewrite Hn. rewrite Ha. cbn [andb].
    destruct (p_expired p) eqn:Ee; cbn [negb].
    - exists p. split; [exact Hn|]. unfold doom_rank, timed_out. rewrite Ha, Ee. cbn. destruct (p_pc p); try discriminate; reflexivity.
    - exists (set_dl p true true). split; [cbn; rewrite nth_error_upd_same, Hn; reflexivity|].
      unfold doom_rank, timed_out. cbn. destruct (p_pc p); try discriminate; reflexivity. }
  destruct Hex as [q [Hq Hrq]].
  destruct (doomed_run kd l _ j q 3 (step_sinv kd s (EExpire j) I) Hq Hrq) as [q' [Hq' Hr']].
  replace (3 - own_steps j l) with 0 in Hr' by lia.
  exists q'. split; [exact Hq'|apply doom_zero, Hr'].
Qed.

(* ---------------------------------------------------------------------------------------------------------------- a well-behaved peer completes *)
Fixpoint piter (kd : kind) (n : nat) (p : peer) : peer :=
  match n with
  | O => p
  | S k => match pstep kd p with Some p' => piter kd k p' | None => p end
  end.

Lemma piter_stuck kd n p : pstep kd p = None -> piter kd n p = p.
Proof. intros H. destruct n; cbn; [reflexivity|rewrite H; reflexivity]. Qed.
Lemma piter_add kd a b p : piter kd (a + b) p = piter kd b (piter kd a p).
Proof.
  revert p. induction a as [|a IH]; intros p; cbn; [reflexivity|].
  destruct (pstep kd p) as [p'|] eqn:E; [apply IH|]. rewrite piter_stuck; auto.
Qed.

Lemma pstep_not_queued kd p p' : pstep kd p = Some p' -> is_queued p' = false.
Proof.
  unfold pstep, h_local. intros H.
  destruct (p_pc p) eqn:Epc; try discriminate; try rdcases H p; cbn in H;
    repeat match type of H with context [if ?b then _ else _] => destruct b eqn:? end;
    try discriminate; inv H; unfold is_queued, finish, plain, with_lock, after_start, after_arm; cbn; wr;
    repeat match goal with |- context [if ?b then _ else _] => destruct b eqn:? end; rewrite ?Epc; reflexivity.
Qed.
Lemma piter_not_queued kd n : forall p, is_queued p = false -> is_queued (piter kd n p) = false.
Proof.
  induction n as [|n IH]; intros p H; cbn; [exact H|].
  destruct (pstep kd p) as [p'|] eqn:E; [apply IH; eapply pstep_not_queued; eauto|exact H].
Qed.

Definition others_or_own_steps (j : nat) (e : ev) : Prop := ev_peer e <> Some j \/ e = SPeer j.

(* while peer j's own events are only steps of its goroutine, its record after any history is its local function iterated: nothing
   anybody else does - stalled, slow, sending garbage, connecting in any number - enters *)
Lemma own_run kd l : forall s j p, sinv kd s -> nth_error (e_peers s) j = Some p -> is_queued p = false ->
  Forall (others_or_own_steps j) l -> nth_error (e_peers (run_from intended kd s l)) j = Some (piter kd (own_steps j l) p).
Proof.
  induction l as [|e l IH]; intros s j p I Hn Hq Hall; [exact Hn|].
  inv Hall. cbn [run_from fold_left]. change (fold_left (step intended kd) l (step intended kd s e)) with (run_from intended kd (step intended kd s e) l).
  pose proof (step_sinv kd s e I) as I'.
  destruct H1 as [Ho | ->].
  - assert (Hown : own_steps j (e :: l) = own_steps j l).
    { unfold own_steps. cbn [filter]. destruct e; try reflexivity. cbn [is_step_of]. destruct (Nat.eqb k j) eqn:Ek; [|reflexivity].
      apply Nat.eqb_eq in Ek. subst. cbn in Ho. congruence. }
    rewrite Hown. apply IH; auto. apply step_other; auto.
  - unfold own_steps. cbn [filter is_step_of]. rewrite Nat.eqb_refl. cbn [List.length piter]. fold (own_steps j l).
    assert (Hstep : step intended kd s (SPeer j) = match pstep kd p with Some p' => with_peers s (upd (e_peers s) j (fun _ => p')) | None => s end).
    { unfold step. cbn [step_opt]. rewrite (peer_step_eq kd s j I). unfold env_peer. rewrite Hn. destruct (pstep kd p); reflexivity. }
    destruct (pstep kd p) as [p'|] eqn:E.
    + apply IH; auto; [rewrite Hstep; cbn; rewrite nth_error_upd_same, Hn; reflexivity|eapply pstep_not_queued; eauto].
    + rewrite Hstep in *. rewrite <- (piter_stuck kd (own_steps j l) p E). apply IH; auto.
Qed.

Definition b2n (b : bool) : nat := if b then 1 else 0.
(* what a well-behaved peer sends, and how many steps of its goroutine that takes *)
Definition good_input (kd : kind) (st : bool) : list msg :=
  (if tls_early kd then [MHello] else []) ++ (if pre_ws kd then [MWs] else []) ++ (if tls_lazy kd then [MHello] else []) ++
  [MAnnounce; MUpgrade st] ++ (if st then [MHello] else []).
Definition good_steps (kd : kind) (st : bool) : nat := 6 + b2n (tls_early kd) + b2n (pre_ws kd) + b2n (tls_lazy kd) + b2n st.

Lemma good_local kd st p rest : (st = true -> starttls_offered kd = true) ->
  p_pc p = HStart -> p_in p = good_input kd st ++ rest -> p_gone p = false -> p_open p = true -> p_armed p = false ->
  let q := piter kd (good_steps kd st) p in
  p_pc q = HDone true /\ p_open q = true /\ p_in q = rest /\ p_gone q = false /\ pstep kd q = None.
Proof.
  intros Hst Hpc Hin Hg Ho Ha.
  destruct p as [pc inn part gn op ar ex sent tl sl tk ae]. cbn in Hpc, Hin, Hg, Ho, Ha. subst.
  destruct kd as [[] [] []], st; try (specialize (Hst eq_refl); discriminate Hst); vm_compute; auto.
Qed.

(* A WELL-BEHAVED PEER COMPLETES. A peer whose goroutine has been started and which sends what the handshake asks for (its TLS hello
   where the endpoint speaks TLS, the websocket upgrade on an http endpoint, the announcement, the upgrade request, its TLS hello
   after StartTLS) has its session established after `good_steps` steps of its own goroutine - in every reachable state, i.e. with any
   number of other peers stalled at any point, and whatever they, the loop and the environment do meanwhile. *)
Theorem good_completes_run sh kd evs j p st rest l : shape_ok sh = true ->
  let s := run sh kd evs in
  nth_error (e_peers s) j = Some p -> p_pc p = HStart -> p_in p = good_input kd st ++ rest -> p_gone p = false ->
  (st = true -> starttls_offered kd = true) ->
  Forall (others_or_own_steps j) l -> good_steps kd st <= own_steps j l ->
  exists q, nth_error (e_peers (run_from sh kd s l)) j = Some q /\ p_pc q = HDone true /\ p_open q = true /\ p_in q = rest.
Proof.
  intros Hok. rewrite (shape_ok_intended sh Hok). cbn zeta. intros Hn Hpc Hin Hg Hst Hall Hl.
  pose proof (run_sinv kd evs) as I.
  destruct (Forall_nth _ _ _ _ (proj2 I) Hn) as [_ [_ [_ Hf]]]. rewrite Hpc in Hf. destruct (Hf eq_refl) as [Ho Ha].
  assert (Hq : is_queued p = false) by (unfold is_queued; rewrite Hpc; reflexivity).
  rewrite (own_run kd l _ j p I Hn Hq Hall).
  destruct (good_local kd st p rest Hst Hpc Hin Hg Ho Ha) as [H1 [H2 [H3 [H4 H5]]]].
  replace (own_steps j l) with (good_steps kd st + (own_steps j l - good_steps kd st)) by lia.
  rewrite piter_add, (piter_stuck kd _ _ H5). eauto.
Qed.

(* ================================================================================================================================
   Refuted variants: the defects this code has been the target of, each on the variant that has it, with a computed witness - and the
   same history on the code as it is. *)
Definition pr (s : est) (k : nat) : peer := nth k (e_peers s) (new_peer HQueued false).
(* no goroutine can move *)
Definition quiet (sh : shape) (kd : kind) (s : est) : bool := forallb (fun e => is_none (step_opt sh kd s e)) (sched_cands s).
(* run every goroutine until nothing moves *)
Definition settled (sh : shape) (kd : kind) (evs : list ev) : est := let s := run sh kd evs in settle sh kd (settle_fuel s) s.

Lemma quiet_stuck sh kd s : quiet sh kd s = true -> forall evs, forallb is_sched evs = true -> run_from sh kd s evs = s.
Proof.
  intros Hq evs. induction evs as [|e r IH]; intros H; [reflexivity|].
  cbn in H. apply andb_prop in H. destruct H as [He Hr]. cbn [run_from fold_left].
  assert (Hs : step sh kd s e = s).
  { unfold step. unfold quiet in Hq. rewrite forallb_forall in Hq.
    destruct e; cbn in He; try discriminate.
    - specialize (Hq SLoop (or_introl eq_refl)). destruct (step_opt sh kd s SLoop); [discriminate|reflexivity].
    - destruct (Nat.lt_ge_cases k (List.length (e_peers s))) as [Hk|Hk].
      + assert (Hin : In (SPeer k) (sched_cands s)) by (right; apply in_map, in_seq; lia).
        specialize (Hq _ Hin). destruct (step_opt sh kd s (SPeer k)); [discriminate|reflexivity].
      + cbn [step_opt]. unfold peer_step. apply nth_error_None in Hk. rewrite Hk. reflexivity. }
  rewrite Hs. apply IH, Hr.
Qed.

Definition k_sock : kind := {| k_kind := KSocket; k_tls := false; k_cert := true |}.
Definition k_sock_tls : kind := {| k_kind := KSocket; k_tls := true; k_cert := true |}.
Definition k_packet : kind := {| k_kind := KPacket; k_tls := false; k_cert := true |}.
Definition k_http : kind := {| k_kind := KHttp; k_tls := false; k_cert := true |}.

(* a peer connects and says nothing; a second one connects and sends its whole handshake *)
Definition stall_then_good : list ev :=
  [EConnect false; SLoop; SPeer 0; SPeer 0; EConnect false; ESend 1 MAnnounce; ESend 1 (MUpgrade false)].
Definition stall_then_good_tls : list ev :=
  [EConnect false; SLoop; SPeer 0; SPeer 0; EConnect false; ESend 1 MHello; ESend 1 MAnnounce; ESend 1 (MUpgrade false)].

(* the handshake inline on the accept loop: the loop is inside peer 0's session set-up, blocked on what peer 0 sends; peer 1 - its
   whole handshake sent - stays in the listener's queue under every schedule, for ever *)
Theorem inline_refuted :
  let sh := variant DInline in
  let s := run sh k_sock stall_then_good in
  e_loop s = LBusy 0 /\ p_pc (pr s 0) = HReadAnn /\ p_pc (pr s 1) = HQueued /\ p_in (pr s 1) = [MAnnounce; MUpgrade false] /\
  (forall evs, forallb is_sched evs = true -> run_from sh k_sock s evs = s) /\
  let t := settled intended k_sock stall_then_good in
  p_pc (pr t 1) = HDone true /\ p_open (pr t 1) = true /\ e_loop t = LAccept /\ p_pc (pr t 0) = HReadAnn.
Proof.
  cbn zeta. split; [reflexivity|]. split; [reflexivity|]. split; [reflexivity|]. split; [reflexivity|].
  split; [apply quiet_stuck; vm_compute; reflexivity|]. vm_compute. auto.
Qed.

(* the TLS handshake of a TLS listener's connection completed on the accept loop: the same, with peer 0 silent inside its TLS hello *)
Theorem tls_on_loop_refuted :
  let sh := variant DTlsOnLoop in
  let s := run sh k_sock_tls stall_then_good_tls in
  e_loop s = LBusy 0 /\ p_pc (pr s 0) = HTlsLoop /\ p_pc (pr s 1) = HQueued /\ p_in (pr s 1) = [MHello; MAnnounce; MUpgrade false] /\
  (forall evs, forallb is_sched evs = true -> run_from sh k_sock_tls s evs = s) /\
  let t := settled intended k_sock_tls stall_then_good_tls in
  p_pc (pr t 1) = HDone true /\ p_open (pr t 1) = true /\ p_tls (pr t 1) = true /\ e_loop t = LAccept /\ p_pc (pr t 0) = HTlsAcc.
Proof.
  cbn zeta. split; [reflexivity|]. split; [reflexivity|]. split; [reflexivity|]. split; [reflexivity|].
  split; [apply quiet_stuck; vm_compute; reflexivity|]. vm_compute. auto 10.
Qed.

(* a process-wide lock held across the TLS handshake of StartTLS: peer 0 has its 101 and is silent inside its TLS hello, holding the
   lock; peer 1, which has sent everything up to its own hello, cannot move - and whether it can depends on what peer 0 does, not on
   anything of its own: independence fails *)
Definition starttls_pair : list ev :=
  [EConnect false; EConnect false; SLoop; SLoop; ESend 0 MAnnounce; ESend 0 (MUpgrade true); SPeer 0; SPeer 0; SPeer 0; SPeer 0; SPeer 0;
   ESend 1 MAnnounce; ESend 1 (MUpgrade true); ESend 1 MHello; SPeer 1; SPeer 1; SPeer 1; SPeer 1].
Theorem lock_hs_refuted :
  let sh := variant DLockHs in
  let s := run sh k_sock starttls_pair in
  let s' := run sh k_sock (starttls_pair ++ [ESend 0 MHello; SPeer 0]) in
  e_lock s = Some 0 /\ p_pc (pr s 0) = HTlsHello /\ p_sent (pr s 0) = [200; 101] /\ p_pc (pr s 1) = HLock /\
  quiet sh k_sock s = true /\ view s 1 = view s' 1 /\ enabled sh k_sock s (SPeer 1) = false /\ enabled sh k_sock s' (SPeer 1) = true /\
  let t := settled intended k_sock starttls_pair in
  p_pc (pr t 1) = HDone true /\ p_tls (pr t 1) = true /\ p_pc (pr t 0) = HTlsHello.
Proof. vm_compute. auto 20. Qed.

(* the deadline set on the socket all peers of the endpoint share: peer 0 has its session; peer 1 connects and says nothing; when the
   shared deadline passes the socket's reader is gone - peer 0's session is dead although nothing of peer 0's has happened and its
   record is what it was, and the loop never accepts again *)
Definition est_then_stall : list ev :=
  [EConnect false; SLoop; ESend 0 MAnnounce; ESend 0 (MUpgrade false); SPeer 0; SPeer 0; SPeer 0; SPeer 0; SPeer 0; SPeer 0;
   EConnect false; SLoop; SPeer 1; SPeer 1].
Theorem shared_deadline_refuted :
  let sh := variant DSharedDeadline in
  let s := run sh k_packet est_then_stall in
  let s' := step sh k_packet s EExpireShared in
  session_alive (e_sockdead s) (pr s 0) = true /\ p_pc (pr s 1) = HReadAnn /\ e_shared s = true /\
  view s' 0 = view s 0 /\ session_alive (e_sockdead s') (pr s' 0) = false /\
  (let u := settled sh k_packet (est_then_stall ++ [EExpireShared; EConnect false; ESend 2 MAnnounce; ESend 2 (MUpgrade false)]) in
   p_pc (pr u 2) = HQueued) /\
  let t := run intended k_packet est_then_stall in
  e_shared t = false /\ enabled intended k_packet t EExpireShared = false /\ session_alive (e_sockdead t) (pr t 0) = true.
Proof. vm_compute. auto 20. Qed.

(* n peers that have connected and say nothing, then one that sends its whole handshake *)
Fixpoint stalled_peers (n : nat) (i : nat) : list ev :=
  match n with
  | O => []
  | S k => [EConnect false; SLoop; SLoop; SPeer i; SPeer i] ++ stalled_peers k (S i)
  end.
Definition n_stalled_then_good (n : nat) : list ev :=
  stalled_peers n 0 ++ [EConnect false; SLoop; ESend n MAnnounce; ESend n (MUpgrade false)].

(* a fixed number of pending handshakes (a semaphore taken on the loop): n peers that say nothing use it up; the loop waits for a slot,
   the next peer - its whole handshake sent - has no goroutine, under every schedule *)
Definition slots_exhausted (n : nat) : bool :=
  let sh := variant (DSlots n) in
  let s := run sh k_packet (n_stalled_then_good n) in
  match e_loop s with LSlot k => Nat.eqb k n | _ => false end && Nat.eqb (e_slots s) n && quiet sh k_packet s &&
  is_queued (pr s n) && Nat.eqb (List.length (p_in (pr s n))) 2 &&
  is_est (p_pc (pr (settled intended k_packet (n_stalled_then_good n)) n)).
Theorem slots_refuted : forallb slots_exhausted (seq 1 24) = true /\
  let sh := variant (DSlots 16) in let s := run sh k_packet (n_stalled_then_good 16) in
  e_loop s = LSlot 16 /\ p_pc (pr s 16) = HQueued /\ (forall evs, forallb is_sched evs = true -> run_from sh k_packet s evs = s).
Proof.
  split; [vm_compute; reflexivity|]. cbn zeta. split; [vm_compute; reflexivity|]. split; [vm_compute; reflexivity|].
  apply quiet_stuck. vm_compute. reflexivity.
Qed.

(* http: a fixed number of requests in flight: n peers that have had their websocket upgrade answered and say nothing use it up; the
   next peer is turned away with 503 *)
Fixpoint ws_stalled (n : nat) (i : nat) : list ev :=
  match n with
  | O => []
  | S k => [EConnect false; SLoop; ESend i MWs; SPeer i; SPeer i; SPeer i] ++ ws_stalled k (S i)
  end.
Definition n_ws_stalled_then_good (n : nat) : list ev :=
  ws_stalled n 0 ++ [EConnect false; SLoop; ESend n MWs; ESend n MAnnounce; ESend n (MUpgrade false)].
Definition throttle_exhausted (n : nat) : bool :=
  let sh := variant (DThrottle n) in
  let s := settled sh k_http (n_ws_stalled_then_good n) in
  Nat.eqb (e_tokens s) n && quiet sh k_http s &&
  match p_sent (pr s n) with 503 :: _ => true | _ => false end && negb (is_est (p_pc (pr s n))) &&
  is_est (p_pc (pr (settled intended k_http (n_ws_stalled_then_good n)) n)).
Theorem throttle_refuted : forallb throttle_exhausted (seq 1 24) = true /\
  let s := settled (variant (DThrottle 16)) k_http (n_ws_stalled_then_good 16) in
  e_tokens s = 16 /\ p_sent (pr s 16) = [503; 400] /\ p_pc (pr s 16) = HDone false.
Proof. vm_compute. auto. Qed.

(* AcceptConnection leaves the connection open when the handshake fails: the refused peer's connection stays, with no goroutine that
   would ever close it *)
Definition refused_peer : list ev := [EConnect false; SLoop; ESend 0 (MBad BParse)].
Theorem no_close_refuted :
  let sh := variant DNoClose in
  let s := settled sh k_sock refused_peer in
  p_sent (pr s 0) = [400] /\ left_open (pr s 0) = true /\ goroutines s = 1 /\
  (forall evs, forallb is_sched evs = true -> run_from sh k_sock s evs = s) /\
  let t := settled intended k_sock refused_peer in p_sent (pr t 0) = [400] /\ p_open (pr t 0) = false /\ p_pc (pr t 0) = HDone false.
Proof.
  cbn zeta. split; [reflexivity|]. split; [reflexivity|]. split; [reflexivity|].
  split; [apply quiet_stuck; vm_compute; reflexivity|]. vm_compute. auto.
Qed.

(* no handshake deadline: a peer that says nothing keeps its connection and its goroutine for ever; no clock event exists for it *)
Definition silent_peer : list ev := [EConnect false; SLoop].
Theorem no_deadline_refuted :
  let sh := variant DNoDeadline in
  let s := settled sh k_sock silent_peer in
  p_pc (pr s 0) = HReadAnn /\ p_armed (pr s 0) = false /\ enabled sh k_sock s (EExpire 0) = false /\ goroutines s = 2 /\
  (forall evs, forallb is_sched evs = true -> run_from sh k_sock s evs = s) /\
  let t := settled intended k_sock silent_peer in
  p_armed (pr t 0) = true /\ enabled intended k_sock t (EExpire 0) = true /\
  let u := settled intended k_sock (silent_peer ++ [SPeer 0; SPeer 0; EExpire 0]) in p_open (pr u 0) = false /\ goroutines u = 1.
Proof.
  cbn zeta. split; [reflexivity|]. split; [reflexivity|]. split; [reflexivity|]. split; [reflexivity|].
  split; [apply quiet_stuck; vm_compute; reflexivity|]. vm_compute. auto.
Qed.

(* the deadline left on the established connection: the session is cut when the handshake's clock runs out *)
Definition good_peer : list ev := [EConnect false; SLoop; ESend 0 MAnnounce; ESend 0 (MUpgrade false)].
Theorem not_cleared_refuted :
  let sh := variant DNotCleared in
  let s := settled sh k_sock good_peer in
  p_pc (pr s 0) = HDone true /\ p_armed (pr s 0) = true /\ session_alive false (pr s 0) = true /\
  session_alive false (pr (step sh k_sock s (EExpire 0)) 0) = false /\
  let t := settled intended k_sock good_peer in
  p_pc (pr t 0) = HDone true /\ p_armed (pr t 0) = false /\ enabled intended k_sock t (EExpire 0) = false.
Proof. vm_compute. auto 10. Qed.

(* `continue` without closing the connection that came with an accept error *)
Theorem acc_err_no_close_refuted :
  let s := settled (variant DAccErrNoClose) k_packet [EConnect true] in
  left_open (pr s 0) = true /\ e_loop s = LAccept /\
  let t := settled intended k_packet [EConnect true] in p_open (pr t 0) = false /\ e_loop t = LAccept.
Proof. vm_compute. auto. Qed.

(* an accept error ends the loop: every later peer stays in the queue *)
Theorem acc_err_exits_refuted :
  let sh := variant DAccErrExits in
  let evs := [EAcceptErr; SLoop; EConnect false; ESend 0 MAnnounce; ESend 0 (MUpgrade false)] in
  let s := run sh k_sock evs in
  e_loop s = LExited /\ p_pc (pr s 0) = HQueued /\ (forall l, forallb is_sched l = true -> run_from sh k_sock s l = s) /\
  p_pc (pr (settled intended k_sock evs) 0) = HDone true.
Proof.
  cbn zeta. split; [reflexivity|]. split; [reflexivity|]. split; [apply quiet_stuck; vm_compute; reflexivity|]. vm_compute. reflexivity.
Qed.

(* a state on which the hypotheses of the general theorems meet: one peer silent inside its announcement, one between its two requests,
   one still in the queue, one about to start with its whole StartTLS handshake sent *)
Definition busy_endpoint : list ev :=
  [EConnect false; EConnect false; EConnect false; SLoop; SLoop; EPartial 0; SPeer 0; SPeer 0; ESend 1 MAnnounce; SPeer 1; SPeer 1; SPeer 1;
   ESend 2 MAnnounce; ESend 2 (MUpgrade true); ESend 2 MHello; SLoop; EConnect false].
