(* C16: the client's session management as a concurrent transition system.
     internal/client/upstream/upstream.go   Upstreams.Connect, open, openStream, Shutdown
     internal/client/listener/listener.go   HandleConnection / ConnectDirectly (the forward address first)
   Any number of goroutines execute Connect; each has a program counter over the atomic steps between the points where another
   goroutine can interleave (the two Lock calls, the two locked regions, the two Unlock calls, the two openStream calls) and its locals
   (reused, session, err). The shared state is what the Upstreams object holds (connection, session, mutex) plus ghost counters. The
   environment cuts the carrier, lets the multiplexer's keep-alive close a dead connection, changes what an upstream does, and runs
   Shutdown. A schedule (list of events: which goroutine steps, which environment event happens) drives `crun`; a goroutine that needs
   the lock while another holds it is not enabled, and an event that is not enabled leaves the state as it is.
   openStream reads the field ul.session at the moment it runs (not the value the goroutine saw under the lock): that is the code.
   smux.Client fails only for an invalid configuration (the configuration is a constant here), so creteSession always succeeds.
   No proofs in this file: it is extracted and run against the real Upstreams object (harness op c16c). *)
From Coq Require Import String List NArith ZArith Bool Arith.
From SA Require Import Base.Tok Mux.Policy.
From SA Require Gen.ConnectShape.
Import ListNotations.
Local Open Scope nat_scope.

(* ---- what the model takes from the source text (Gen/ConnectShape.v is rewritten from /repo on every run) *)
Record shape := {
  sh_lock_first : bool;      (* Connect: the first Lock precedes the test `ul.connection == nil || ul.connection.Closed()` *)
  sh_ret_unlocked1 : bool;   (* no return statement between the first Lock and its Unlock *)
  sh_ret_unlocked2 : bool;   (* no return statement between the second Lock and its Unlock *)
  sh_fail_lost : bool;       (* openStream: `return nil, true, err` when the stream cannot be opened *)
  sh_refusal_local : bool;   (* openStream: `return nil, false, ..` when the server refuses the channel *)
  sh_repl_lost : bool;       (* the replacement condition implies sessionLost *)
  sh_repl_reused : bool;     (* the replacement condition implies reused *)
  sh_guard : bool;           (* the re-open in the replacement branch happens only under `ul.session == session` *)
  sh_clear_stale : bool;     (* `err = nil` when somebody else has already replaced the session *)
  sh_continue : bool;        (* open: a failed upstream is skipped with `continue` *)
  sh_nil_check : bool        (* openStream refuses a nil session (with sessionLost = true) instead of calling OpenStream on it *)
}.

Definition intended : shape :=
  {| sh_lock_first := true; sh_ret_unlocked1 := true; sh_ret_unlocked2 := true; sh_fail_lost := true; sh_refusal_local := true;
     sh_repl_lost := true; sh_repl_reused := true; sh_guard := true; sh_clear_stale := true; sh_continue := true; sh_nil_check := true |}.

(* the intended shape with switch number k turned off (0 = sh_lock_first .. 10 = sh_nil_check): the variants the `_refuted` theorems are about *)
Definition flip (k : nat) : shape :=
  {| sh_lock_first := negb (Nat.eqb k 0); sh_ret_unlocked1 := negb (Nat.eqb k 1); sh_ret_unlocked2 := negb (Nat.eqb k 2);
     sh_fail_lost := negb (Nat.eqb k 3); sh_refusal_local := negb (Nat.eqb k 4); sh_repl_lost := negb (Nat.eqb k 5);
     sh_repl_reused := negb (Nat.eqb k 6); sh_guard := negb (Nat.eqb k 7); sh_clear_stale := negb (Nat.eqb k 8);
     sh_continue := negb (Nat.eqb k 9); sh_nil_check := negb (Nat.eqb k 10) |}.

(* rows of the truth table of the replacement condition: index 4*(err != nil) + 2*sessionLost + reused *)
Definition row (t : list bool) (e l r : bool) : bool :=
  nth ((if e then 4 else 0) + (if l then 2 else 0) + (if r then 1 else 0)) t false.
(* the condition holds only where `a` holds / never without an error *)
Definition table_implies (t : list bool) (a : bool -> bool -> bool -> bool) : bool :=
  forallb (fun elr => match elr with (e, l, r) => implb (row t e l r) (a e l r) end)
    [(false, false, false); (false, false, true); (false, true, false); (false, true, true);
     (true, false, false); (true, false, true); (true, true, false); (true, true, true)].

Definition code_shape : shape :=
  {| sh_lock_first := Gen.ConnectShape.connect_lock_around_check && Gen.ConnectShape.connect_first_block_as_modelled
                      && String.eqb Gen.ConnectShape.connect_first_cond "ul.connection == nil || ul.connection.Closed()"
                      && String.eqb Gen.ConnectShape.connect_lock_sequence "Lock;Unlock;Lock;Unlock";
     sh_ret_unlocked1 := N.eqb Gen.ConnectShape.connect_returns_under_lock_1 0;
     sh_ret_unlocked2 := N.eqb Gen.ConnectShape.connect_returns_under_lock_2 0;
     sh_fail_lost := Gen.ConnectShape.open_stream_lost_when_stream_fails && Gen.ConnectShape.open_stream_failures_return_no_stream;
     sh_refusal_local := negb Gen.ConnectShape.open_stream_lost_when_refused;
     sh_repl_lost := table_implies Gen.ConnectShape.connect_replace_table (fun e l r => e && l)
                     && row Gen.ConnectShape.connect_replace_table true true true;
     sh_repl_reused := table_implies Gen.ConnectShape.connect_replace_table (fun e l r => e && r);
     sh_guard := Gen.ConnectShape.connect_guard_compares_session && Gen.ConnectShape.connect_reads_session_under_lock
                 && Gen.ConnectShape.connect_replacement_closes_old
                 && Gen.ConnectShape.connect_second_open_stream;
     sh_clear_stale := Gen.ConnectShape.connect_else_clears_err;
     sh_continue := Gen.ConnectShape.open_continues_on_error && Gen.ConnectShape.open_loop_as_modelled
                    && Gen.ConnectShape.open_fails_after_loop && String.eqb Gen.ConnectShape.open_ranges_over "ul.Data";
     sh_nil_check := Gen.ConnectShape.open_stream_checks_nil_session && Gen.ConnectShape.open_stream_lost_when_no_session
                     && N.eqb Gen.ConnectShape.open_stream_session_field_reads 1 |}.

(* ---- open(): the upstreams in the order listed; `continue` on a failed one. Returns the index it settled on and the upstreams whose
   server a physical connection reached on the way (as Policy.open_from, which it equals when the `continue` is there). *)
Fixpoint open_loop (cont must : bool) (ups : list behaviour) (i : nat) : option nat * list nat :=
  match ups with
  | [] => (None, [])
  | b :: rest =>
    if connect_ok must b then (Some i, [i])
    else if cont then let (r, t) := open_loop cont must rest (S i) in (r, if touches b then i :: t else t)
    else (None, if touches b then [i] else [])
  end.

(* ---- shared state *)
Record shared := {
  must : bool;             (* ul.MustSecure (constant) *)
  ups : list behaviour;    (* environment: what each upstream of ul.Data does when dialled now *)
  conn : option nat;       (* ul.connection: the upstream object (its index), None = nil *)
  cclosed : bool;          (* ul.connection.Closed() *)
  sess : option nat;       (* ul.session: sessions are numbered 1, 2, .. in the order they were established; None = nil *)
  lock : option nat;       (* ul.mutex: the goroutine holding it *)
  (* ghost *)
  sup : list nat;          (* upstream of session k at position k-1; its length is the number of sessions established *)
  cutmark : nat;           (* sessions numbered <= cutmark have had their carrier cut (dead: OpenStream on them fails) *)
  closed : list nat;       (* sessions closed by the client (TryClose(ul.session)) *)
  phys : list nat;         (* one entry per physical connection that reached an upstream's server: the upstream's index *)
  nopen : nat;             (* calls of open() *)
  nfail : nat;             (* calls of open() that found no upstream *)
  ncut : nat;              (* carrier cuts *)
  nshut : nat              (* Shutdown calls *)
}.

Definition nsess (x : shared) : nat := List.length (sup x).

Definition dead (x : shared) (id : nat) : bool := (id <=? cutmark x) || existsb (Nat.eqb id) (closed x).

(* ---- goroutines *)
Inductive pc := PStart | PWait1 | PIn1 | POut1 | POpen1 | PLock2 | PIn2 | POut2 | POpen2 | PDone.
Inductive cerr := ENil | EOpen | ELost | ERefused.
Inductive cres := CNone | CFwd | CStream (id : nat) | CErr (e : cerr) | CPanic.

Record gor := {
  gpc : pc;
  goffered : bool;       (* the server offers the channel this local connection asks for *)
  greused : bool;        (* reused *)
  gsess : option nat;    (* session := ul.session *)
  gerr : cerr;           (* err *)
  gres : cres            (* what Connect returned (CFwd: the forward address took the connection, Connect was not called) *)
}.

Definition g_new (offered : bool) : gor :=
  {| gpc := PStart; goffered := offered; greused := true; gsess := None; gerr := ENil; gres := CNone |}.
Definition g_fwd (offered : bool) : gor :=
  {| gpc := PDone; goffered := offered; greused := true; gsess := None; gerr := ENil; gres := CFwd |}.

Definition g_at (g : gor) (p : pc) : gor :=
  {| gpc := p; goffered := goffered g; greused := greused g; gsess := gsess g; gerr := gerr g; gres := gres g |}.
Definition g_done (g : gor) (r : cres) : gor :=
  {| gpc := PDone; goffered := goffered g; greused := greused g; gsess := gsess g; gerr := gerr g; gres := r |}.

Definition set_lock (x : shared) (l : option nat) : shared :=
  {| must := must x; ups := ups x; conn := conn x; cclosed := cclosed x; sess := sess x; lock := l; sup := sup x; cutmark := cutmark x;
     closed := closed x; phys := phys x; nopen := nopen x; nfail := nfail x; ncut := ncut x; nshut := nshut x |}.

(* `ul.connection = nil; ul.session = nil; err = ul.open(..)`, after closing the current session and connection when `close` is set *)
Definition reopen (sp : shape) (x : shared) (close : bool) : shared * cerr :=
  let cl := if close then match sess x with Some id => closed x ++ [id] | None => closed x end else closed x in
  let (r, t) := open_loop (sh_continue sp) (must x) (ups x) 0 in
  match r with
  | Some j =>
    ({| must := must x; ups := ups x; conn := Some j; cclosed := false; sess := Some (S (nsess x)); lock := lock x; sup := sup x ++ [j];
        cutmark := cutmark x; closed := cl; phys := phys x ++ t; nopen := S (nopen x); nfail := nfail x; ncut := ncut x; nshut := nshut x |}, ENil)
  | None =>
    ({| must := must x; ups := ups x; conn := None; cclosed := false; sess := None; lock := lock x; sup := sup x;
        cutmark := cutmark x; closed := cl; phys := phys x ++ t; nopen := S (nopen x); nfail := S (nfail x); ncut := ncut x; nshut := nshut x |}, EOpen)
  end.

(* `ul.connection == nil || ul.connection.Closed()` *)
Definition no_connection (x : shared) : bool := match conn x with None => true | Some _ => cclosed x end.

Definition opt_eqb (a b : option nat) : bool :=
  match a, b with None, None => true | Some x, Some y => Nat.eqb x y | _, _ => false end.

(* openStream as one read of ul.session *)
Inductive osr := OStream (id : nat) | OFail (lost : bool) (e : cerr) | OPanic.
Definition open_stream (sp : shape) (x : shared) (offered : bool) : osr :=
  match sess x with
  | None => if sh_nil_check sp then OFail true ELost else OPanic
  | Some id =>
    if dead x id then OFail (sh_fail_lost sp) ELost
    else if offered then OStream id
    else OFail (negb (sh_refusal_local sp)) ERefused
  end.

(* `err != nil && sessionLost && reused`, as far as the source says so *)
Definition replace_cond (sp : shape) (lost reused : bool) : bool :=
  (lost || negb (sh_repl_lost sp)) && (reused || negb (sh_repl_reused sp)).

(* one step of goroutine number i; None: not enabled (waits for the lock, or has returned) *)
Definition gstep (sp : shape) (x : shared) (i : nat) (g : gor) : option (shared * gor) :=
  match gpc g with
  | PStart =>
    if sh_lock_first sp then
      match lock x with None => Some (set_lock x (Some i), g_at g PIn1) | Some _ => None end
    else
      (* the test is made without the lock; the lock is taken only to open *)
      if no_connection x
      then Some (x, {| gpc := PWait1; goffered := goffered g; greused := false; gsess := gsess g; gerr := gerr g; gres := gres g |})
      else Some (x, {| gpc := POpen1; goffered := goffered g; greused := true; gsess := sess x; gerr := ENil; gres := gres g |})
  | PWait1 =>
    match lock x with None => Some (set_lock x (Some i), g_at g PIn1) | Some _ => None end
  | PIn1 =>
    let '(x', reused, e) :=
      if negb (sh_lock_first sp) || no_connection x
      then let (x1, e1) := reopen sp x false in (x1, false, e1)
      else (x, true, ENil) in
    let g' := {| gpc := POut1; goffered := goffered g; greused := reused; gsess := sess x'; gerr := e; gres := gres g |} in
    match e with
    | ENil => Some (x', g')
    | _ => if sh_ret_unlocked1 sp then Some (x', g') else Some (x', g_done g' (CErr e))     (* a return that keeps the lock *)
    end
  | POut1 =>
    let x' := set_lock x None in
    (* (when the lock does not surround the test, `session := ul.session` is read after the Unlock) *)
    let g1 := if sh_lock_first sp then g
              else {| gpc := gpc g; goffered := goffered g; greused := greused g; gsess := sess x; gerr := gerr g; gres := gres g |} in
    match gerr g with
    | ENil => Some (x', g_at g1 POpen1)
    | e => Some (x', g_done g1 (CErr e))
    end
  | POpen1 =>
    match open_stream sp x (goffered g) with
    | OStream id => Some (x, g_done g (CStream id))
    | OPanic => Some (x, g_done g CPanic)
    | OFail lost e =>
      if replace_cond sp lost (greused g)
      then Some (x, {| gpc := PLock2; goffered := goffered g; greused := greused g; gsess := gsess g; gerr := e; gres := gres g |})
      else Some (x, g_done g (CErr e))
    end
  | PLock2 =>
    match lock x with None => Some (set_lock x (Some i), g_at g PIn2) | Some _ => None end
  | PIn2 =>
    if negb (sh_guard sp) || opt_eqb (sess x) (gsess g) then
      let (x', e) := reopen sp x true in
      let g' := {| gpc := POut2; goffered := goffered g; greused := greused g; gsess := gsess g; gerr := e; gres := gres g |} in
      match e with
      | ENil => Some (x', g')
      | _ => if sh_ret_unlocked2 sp then Some (x', g') else Some (x', g_done g' (CErr e))
      end
    else
      Some (x, {| gpc := POut2; goffered := goffered g; greused := greused g; gsess := gsess g;
                  gerr := if sh_clear_stale sp then ENil else gerr g; gres := gres g |})
  | POut2 =>
    let x' := set_lock x None in
    match gerr g with
    | ENil => Some (x', g_at g POpen2)
    | e => Some (x', g_done g (CErr e))
    end
  | POpen2 =>
    match open_stream sp x (goffered g) with
    | OStream id => Some (x, g_done g (CStream id))
    | OPanic => Some (x, g_done g CPanic)
    | OFail _ e => Some (x, g_done g (CErr e))
    end
  | PDone => None
  end.

(* ---- the whole system *)
Record cst := { sh : shared; gs : list gor }.

Inductive sev :=
| SGo (i : nat)                       (* goroutine i takes its next step, if it is enabled *)
| SSpawn (f : fwd) (offered : bool)   (* a local connection arrives: forwarded directly if the forward address answers, else Connect *)
| SCut                                (* the carrier of every session established so far is cut *)
| SExpire                             (* the multiplexer's keep-alive gives up on the dead current session and closes its connection *)
| SSetUp (i : nat) (b : behaviour)    (* upstream i behaves differently from now on (server away / back) *)
| SShutdown.                          (* Upstreams.Shutdown, once it has the lock *)

Fixpoint upd {A} (l : list A) (i : nat) (a : A) : list A :=
  match l, i with
  | [], _ => []
  | _ :: r, O => a :: r
  | b :: r, S i' => b :: upd r i' a
  end.

Definition cstep (sp : shape) (s : cst) (e : sev) : cst :=
  let x := sh s in
  match e with
  | SGo i =>
    match nth_error (gs s) i with
    | Some g => match gstep sp x i g with Some (x', g') => {| sh := x'; gs := upd (gs s) i g' |} | None => s end
    | None => s
    end
  | SSpawn f offered =>
    {| sh := x; gs := gs s ++ [match f with FOk => g_fwd offered | _ => g_new offered end] |}
  | SCut =>
    {| sh := {| must := must x; ups := ups x; conn := conn x; cclosed := cclosed x; sess := sess x; lock := lock x; sup := sup x;
                cutmark := nsess x; closed := closed x; phys := phys x; nopen := nopen x; nfail := nfail x; ncut := S (ncut x); nshut := nshut x |};
       gs := gs s |}
  | SExpire =>
    match sess x with
    | Some id =>
      if id <=? cutmark x
      then {| sh := {| must := must x; ups := ups x; conn := conn x; cclosed := true; sess := sess x; lock := lock x; sup := sup x;
                       cutmark := cutmark x; closed := closed x; phys := phys x; nopen := nopen x; nfail := nfail x; ncut := ncut x; nshut := nshut x |};
              gs := gs s |}
      else s
    | None => s
    end
  | SSetUp i b =>
    {| sh := {| must := must x; ups := upd (ups x) i b; conn := conn x; cclosed := cclosed x; sess := sess x; lock := lock x; sup := sup x;
                cutmark := cutmark x; closed := closed x; phys := phys x; nopen := nopen x; nfail := nfail x; ncut := ncut x; nshut := nshut x |};
       gs := gs s |}
  | SShutdown =>
    match lock x with
    | Some _ => s
    | None =>
      {| sh := {| must := must x; ups := ups x; conn := None; cclosed := false; sess := None; lock := None; sup := sup x;
                  cutmark := cutmark x; closed := match sess x with Some id => closed x ++ [id] | None => closed x end;
                  phys := phys x; nopen := nopen x; nfail := nfail x; ncut := ncut x; nshut := S (nshut x) |};
         gs := gs s |}
    end
  end.

Fixpoint crun (sp : shape) (s : cst) (sch : list sev) : cst :=
  match sch with
  | [] => s
  | e :: r => crun sp (cstep sp s e) r
  end.

Definition sh0 (m : bool) (u : list behaviour) : shared :=
  {| must := m; ups := u; conn := None; cclosed := false; sess := None; lock := None; sup := []; cutmark := 0; closed := [];
     phys := []; nopen := 0; nfail := 0; ncut := 0; nshut := 0 |}.
Definition cst0 (m : bool) (u : list behaviour) : cst := {| sh := sh0 m u; gs := [] |}.

(* a stream handed out on session id still works: its session was neither cut nor closed *)
Definition stream_alive (x : shared) (id : nat) : bool := negb (dead x id).

(* ---- one local connection after the other (the events of Policy.v): the connection is handled to its end before the next event *)
Definition connect_steps : nat := 9.
(* what Policy.v calls the result *)
Definition res_of (x : shared) (o : cres) : res :=
  match o with
  | CFwd => RFwd
  | CStream id => RUp (nth (id - 1) (sup x) 0)
  | _ => RFail
  end.
Definition seq_event (sp : shape) (f : fwd) (s : cst) (e : ev) : cst * res :=
  match e with
  | ECut => (cstep sp s SCut, RCut)
  | EConn =>
    let i := List.length (gs s) in
    let s' := crun sp (cstep sp s (SSpawn f true)) (repeat (SGo i) connect_steps) in
    (s', match nth_error (gs s') i with Some g => res_of (sh s') (gres g) | None => RFail end)
  end.
Fixpoint seq_run (sp : shape) (f : fwd) (s : cst) (evs : list ev) : cst * list res :=
  match evs with
  | [] => (s, [])
  | e :: r => let (s1, o) := seq_event sp f s e in let (s2, os) := seq_run sp f s1 r in (s2, o :: os)
  end.

(* ---- every schedule of one round: k goroutines are released together; all states reachable by goroutine steps are visited and the
   states in which no goroutine can move (all have returned, or the rest waits for a lock that is never released) are collected *)
Definition cerr_eqb (a b : cerr) : bool :=
  match a, b with ENil, ENil | EOpen, EOpen | ELost, ELost | ERefused, ERefused => true | _, _ => false end.
Definition cres_eqb (a b : cres) : bool :=
  match a, b with
  | CNone, CNone | CFwd, CFwd | CPanic, CPanic => true
  | CStream x, CStream y => Nat.eqb x y
  | CErr x, CErr y => cerr_eqb x y
  | _, _ => false
  end.
Definition pc_num (p : pc) : nat :=
  match p with PStart => 0 | PWait1 => 1 | PIn1 => 2 | POut1 => 3 | POpen1 => 4 | PLock2 => 5 | PIn2 => 6 | POut2 => 7 | POpen2 => 8 | PDone => 9 end.
Definition gor_eqb (a b : gor) : bool :=
  Nat.eqb (pc_num (gpc a)) (pc_num (gpc b)) && Bool.eqb (goffered a) (goffered b) && Bool.eqb (greused a) (greused b)
  && opt_eqb (gsess a) (gsess b) && cerr_eqb (gerr a) (gerr b) && cres_eqb (gres a) (gres b).
Fixpoint list_eqb {A} (eq : A -> A -> bool) (a b : list A) : bool :=
  match a, b with
  | [], [] => true
  | x :: a', y :: b' => eq x y && list_eqb eq a' b'
  | _, _ => false
  end.
(* (must and ups do not change inside a round) *)
Definition shared_eqb (a b : shared) : bool :=
  opt_eqb (conn a) (conn b) && Bool.eqb (cclosed a) (cclosed b) && opt_eqb (sess a) (sess b) && opt_eqb (lock a) (lock b)
  && list_eqb Nat.eqb (sup a) (sup b) && Nat.eqb (cutmark a) (cutmark b) && list_eqb Nat.eqb (closed a) (closed b)
  && list_eqb Nat.eqb (phys a) (phys b) && Nat.eqb (nopen a) (nopen b) && Nat.eqb (nfail a) (nfail b).
Definition cst_eqb (a b : cst) : bool := shared_eqb (sh a) (sh b) && list_eqb gor_eqb (gs a) (gs b).

(* the same up to the numbering of the goroutines: nothing observed of a round depends on which goroutine is which, and the holder of
   the lock is determined by the program counters (the one inside a locked region; if none is, one that returned without unlocking,
   and those never move again) *)
Fixpoint remove_g (g : gor) (l : list gor) : option (list gor) :=
  match l with
  | [] => None
  | h :: r => if gor_eqb g h then Some r else match remove_g g r with Some r' => Some (h :: r') | None => None end
  end.
Fixpoint perm_g (a b : list gor) : bool :=
  match a with
  | [] => match b with [] => true | _ => false end
  | g :: a' => match remove_g g b with Some b' => perm_g a' b' | None => false end
  end.
Definition is_some {A} (o : option A) : bool := match o with Some _ => true | None => false end.
Definition shared_sim (a b : shared) : bool :=
  opt_eqb (sess a) (sess b) && Bool.eqb (is_some (lock a)) (is_some (lock b)) && opt_eqb (conn a) (conn b) && Bool.eqb (cclosed a) (cclosed b)
  && list_eqb Nat.eqb (sup a) (sup b) && Nat.eqb (cutmark a) (cutmark b) && list_eqb Nat.eqb (closed a) (closed b)
  && list_eqb Nat.eqb (phys a) (phys b) && Nat.eqb (nopen a) (nopen b) && Nat.eqb (nfail a) (nfail b).
Definition cst_sim (a b : cst) : bool := shared_sim (sh a) (sh b) && perm_g (gs a) (gs b).

Definition mem_st (s : cst) (l : list cst) : bool := existsb (cst_sim s) l.

(* the successors of s by one step of each enabled goroutine *)
Definition succs_all (sp : shape) (s : cst) : list cst :=
  flat_map (fun ig => match gstep sp (sh s) (fst ig) (snd ig) with
                      | Some (x', g') => [{| sh := x'; gs := upd (gs s) (fst ig) g' |}]
                      | None => []
                      end) (combine (seq 0 (List.length (gs s))) (gs s)).
(* ... with the holder of the lock running first: while a goroutine is inside a locked region the others can only read ul.session
   (openStream) - a read made there sees what a read before the Lock or after the Unlock sees - or wait; postponing them until the
   Unlock loses no final state (compared with the full enumeration in Props/C16.v, c16_enumeration_reduction_example) *)
Definition succs (sp : shape) (s : cst) : list cst :=
  match lock (sh s) with
  | Some i =>
    match nth_error (gs s) i with
    | Some g => match gstep sp (sh s) i g with
                | Some (x', g') => [{| sh := x'; gs := upd (gs s) i g' |}]
                | None => succs_all sp s
                end
    | None => succs_all sp s
    end
  | None => succs_all sp s
  end.

Fixpoint add_new (l seen : list cst) : list cst * list cst :=
  match l with
  | [] => ([], seen)
  | s :: r => if mem_st s seen then add_new r seen
              else let (n, sn) := add_new r (s :: seen) in (s :: n, sn)
  end.

(* the boolean: every reachable state was visited (the fuel was enough) *)
Fixpoint explore_with (sc : cst -> list cst) (fuel : nat) (front seen term : list cst) : list cst * bool :=
  match fuel with
  | O => (term, match front with [] => true | _ => false end)
  | S f =>
    match front with
    | [] => (term, true)
    | s :: rest =>
      match sc s with
      | [] => explore_with sc f rest seen (s :: term)
      | ss => let (n, seen') := add_new ss seen in explore_with sc f (n ++ rest) seen' term
      end
    end
  end.

Definition explore_fuel : nat := 3000.
Definition outcomes (sp : shape) (s : cst) : list cst * bool := explore_with (succs sp) explore_fuel [s] [s] [].
Definition outcomes_full (sp : shape) (s : cst) : list cst * bool := explore_with (succs_all sp) explore_fuel [s] [s] [].

(* ---- harness protocol:  c16c <must> <n> b1..bn  ops..
     ops: round <k> c1..ck (ci = svc | nosvc)  |  cut  |  away <i>  |  back <i>  |  expire  |  shutdown
   For every round the model answers with EVERY outcome some schedule produces (started from every state the earlier rounds can
   leave behind): results sorted, physical connections per upstream so far, whether the session at the end of the round is the one
   from before the round, how many of this round's streams and of the streams kept from earlier rounds still work. *)
Record world := { w_st : cst; w_kept : list nat }.

Definition world_eqb (a b : world) : bool := cst_eqb (w_st a) (w_st b) && list_eqb Nat.eqb (w_kept a) (w_kept b).
Fixpoint dedup_w (l : list world) : list world :=
  match l with
  | [] => []
  | w :: r => if existsb (world_eqb w) r then dedup_w r else w :: dedup_w r
  end.

Definition res_rank (r : cres) : nat :=
  match r with
  | CStream _ => 0 | CErr ERefused => 1 | CErr EOpen => 2 | CErr ELost => 3 | CErr ENil => 4 | CPanic => 5 | CNone => 6 | CFwd => 7
  end.
Definition res_tok (x : shared) (g : gor) : tok :=
  match gpc g, gres g with
  | PDone, CStream id => TW (wd "up" ++ match nth (id - 1) (sup x) 0 with
                                         | 0 => wd "0" | 1 => wd "1" | 2 => wd "2" | 3 => wd "3" | 4 => wd "4" | _ => wd "x" end)
  | PDone, CErr ERefused => W "refused"
  | PDone, CErr EOpen => W "openfail"
  | PDone, CErr _ => W "lost"
  | PDone, CPanic => W "panic"
  | PDone, CFwd => W "fwd"
  | _, _ => W "hang"
  end.
Definition g_rank (g : gor) : nat := match gpc g with PDone => res_rank (gres g) | _ => 8 end.
(* insertion sort of the results by kind, then by session upstream *)
Fixpoint ins_g (x : shared) (g : gor) (l : list gor) : list gor :=
  match l with
  | [] => [g]
  | h :: r =>
    let kg := (g_rank g, match gres g with CStream id => nth (id - 1) (sup x) 0 | _ => 0 end) in
    let kh := (g_rank h, match gres h with CStream id => nth (id - 1) (sup x) 0 | _ => 0 end) in
    if (fst kg <? fst kh) || (Nat.eqb (fst kg) (fst kh) && (snd kg <=? snd kh)) then g :: l else h :: ins_g x g r
  end.
Definition sort_g (x : shared) (l : list gor) : list gor := fold_right (ins_g x) [] l.

Definition beh_c (t : tok) : behaviour := beh_of t.

Definition count_nat (l : list nat) (i : nat) : nat := List.length (filter (Nat.eqb i) l).

(* a reachable upstream counts its physical connections behind a relay; the others cannot (-1) - decided by the ORIGINAL behaviours *)
Definition phys_toks (orig : list behaviour) (x : shared) : list tok :=
  map (fun ib => if touches (snd ib) then Tnat (count_nat (phys x) (fst ib)) else TI (-1)) (combine (seq 0 (List.length orig)) orig).

Definition streams_of (l : list gor) : list nat :=
  flat_map (fun g => match gpc g, gres g with PDone, CStream id => [id] | _, _ => [] end) l.

Definition alt_toks (orig : list behaviour) (before : world) (after : cst) : list tok :=
  let x := sh after in
  let these := skipn (List.length (gs (w_st before))) (gs after) in      (* this round's goroutines *)
  let mine := streams_of these in
  [W "alt"] ++ map (res_tok x) (sort_g x these) ++ [W "phys"] ++ phys_toks orig x
  ++ [W "sid"; W (match sess x with
                  | None => "none"
                  | Some id => if opt_eqb (sess (sh (w_st before))) (Some id) then "same" else "new"
                  end)]
  ++ [W "live"; Tnat (List.length (filter (stream_alive x) mine)); Tnat (List.length (filter (stream_alive x) (w_kept before)))].

(* goroutines that have returned are forgotten between rounds; one that is stuck stays (it may hold the lock) *)
Definition settle (before : world) (after : cst) : world :=
  {| w_st := {| sh := sh after; gs := filter (fun g => negb (Nat.eqb (pc_num (gpc g)) 9)) (gs after) |};
     w_kept := w_kept before ++ streams_of (skipn (List.length (gs (w_st before))) (gs after)) |}.

Fixpoint tok_list_eqb (a b : list tok) : bool :=
  match a, b with
  | [], [] => true
  | TI x :: a', TI y :: b' => Z.eqb x y && tok_list_eqb a' b'
  | TW x :: a', TW y :: b' => bytes_eqb x y && tok_list_eqb a' b'
  | TB x :: a', TB y :: b' => bytes_eqb x y && tok_list_eqb a' b'
  | _, _ => false
  end.
Fixpoint dedup_t (l : list (list tok)) : list (list tok) :=
  match l with
  | [] => []
  | t :: r => if existsb (tok_list_eqb t) r then dedup_t r else t :: dedup_t r
  end.

Definition spawn_all (s : cst) (chans : list bool) : cst :=
  fold_left (fun s' c => {| sh := sh s'; gs := gs s' ++ [g_new c] |}) chans s.

Definition shape_eqb (a b : shape) : bool :=
  Bool.eqb (sh_lock_first a) (sh_lock_first b) && Bool.eqb (sh_ret_unlocked1 a) (sh_ret_unlocked1 b)
  && Bool.eqb (sh_ret_unlocked2 a) (sh_ret_unlocked2 b) && Bool.eqb (sh_fail_lost a) (sh_fail_lost b)
  && Bool.eqb (sh_refusal_local a) (sh_refusal_local b) && Bool.eqb (sh_repl_lost a) (sh_repl_lost b)
  && Bool.eqb (sh_repl_reused a) (sh_repl_reused b) && Bool.eqb (sh_guard a) (sh_guard b)
  && Bool.eqb (sh_clear_stale a) (sh_clear_stale b) && Bool.eqb (sh_continue a) (sh_continue b) && Bool.eqb (sh_nil_check a) (sh_nil_check b).

(* where the theorems say that the outcome of a round does not depend on the schedule (Props/C16.v: c16_single_session_shared when the
   current session lives, c16_reconnect_concurrent + c16_one_replacement_between when an upstream meets the requirement): there one
   schedule - one goroutine after the other - gives THE outcome *)
Definition schedule_independent (sp : shape) (x : shared) : bool :=
  shape_eqb sp intended &&
  (match sess x with Some c => negb (dead x c) | None => false end
   || is_some (fst (open_loop true (must x) (ups x) 0))).
Definition one_by_one (sp : shape) (s : cst) (from : nat) : cst :=
  fold_left (fun s' i => crun sp s' (repeat (SGo i) connect_steps)) (seq from (List.length (gs s) - from)) s.

(* `round 0`: the enumeration did not finish within its fuel in a state where the outcome may depend on the schedule (does not happen
   with the intended shape for the rounds generated) *)
Definition round_step (sp : shape) (orig : list behaviour) (ws : list world) (chans : list bool) : list world * list tok :=
  let per := map (fun w =>
                    let s0 := spawn_all (w_st w) chans in
                    let (ts, complete) := outcomes sp s0 in
                    if complete then (w, (ts, true))
                    else if schedule_independent sp (sh (w_st w)) then (w, ([one_by_one sp s0 (List.length (gs (w_st w)))], true))
                    else (w, (ts, false))) ws in
  let complete := forallb (fun wo => snd (snd wo)) per in
  let alts := dedup_t (flat_map (fun wo => map (alt_toks orig (fst wo)) (fst (snd wo))) per) in
  ((if complete then dedup_w (flat_map (fun wo => map (settle (fst wo)) (fst (snd wo))) per) else []),
   if complete then [W "round"; Tnat (List.length alts)] ++ concat alts else [W "round"; Tnat 0]).

(* the outcomes (as printed) of the reduced and of the full enumeration of one round are the same set *)
Definition subset_t (a b : list (list tok)) : bool := forallb (fun t => existsb (tok_list_eqb t) b) a.
Definition reduction_agrees (sp : shape) (orig : list behaviour) (w : world) (chans : list bool) : bool :=
  let s0 := spawn_all (w_st w) chans in
  let (r, cr) := outcomes sp s0 in
  let (f, cf) := outcomes_full sp s0 in
  let ar := map (alt_toks orig w) r in
  let af := map (alt_toks orig w) f in
  cr && cf && subset_t ar af && subset_t af ar.

Definition env_step (sp : shape) (e : sev) (ws : list world) : list world :=
  dedup_w (map (fun w => {| w_st := cstep sp (w_st w) e; w_kept := w_kept w |}) ws).

Fixpoint run_ops (fuel : nat) (sp : shape) (orig : list behaviour) (ws : list world) (ts : list tok) : list tok :=
  match fuel with
  | O => [W "model-error"]
  | S f =>
    match ts with
    | [] => []
    | t :: rest =>
      if is_word "round" t then
        match rest with
        | TI k :: rest' =>
          let chans := map (fun c => negb (is_word "nosvc" c)) (firstn (Z.to_nat k) rest') in
          let (ws', out) := round_step sp orig ws chans in
          out ++ run_ops f sp orig ws' (skipn (Z.to_nat k) rest')
        | _ => [W "model-error"]
        end
      else if is_word "cut" t then run_ops f sp orig (env_step sp SCut ws) rest
      else if is_word "expire" t then run_ops f sp orig (env_step sp SExpire ws) rest
      else if is_word "shutdown" t then run_ops f sp orig (env_step sp SShutdown ws) rest
      else if is_word "away" t then
        match rest with
        | TI i :: rest' => run_ops f sp orig (env_step sp (SSetUp (Z.to_nat i) BHsError) ws) rest'
        | _ => [W "model-error"]
        end
      else if is_word "back" t then
        match rest with
        | TI i :: rest' => run_ops f sp orig (env_step sp (SSetUp (Z.to_nat i) (nth (Z.to_nat i) orig BRefused)) ws) rest'
        | _ => [W "model-error"]
        end
      else [W "model-error"]
    end
  end.

Definition dispatch_c16c (ts : list tok) : list tok :=
  match ts with
  | op :: TI m :: TI n :: rest =>
    if is_word "c16c" op then
      let orig := map beh_c (firstn (Z.to_nat n) rest) in
      run_ops (S (List.length rest)) code_shape orig [{| w_st := cst0 (Z.eqb m 1) orig; w_kept := [] |}] (skipn (Z.to_nat n) rest)
    else [W "model-error"]
  | _ => [W "model-error"]
  end.

(* c16 <must> <fwd> <n> b1..bn ops..: one connection after the other, answered by the faithful model run one goroutine at a time
   (Props/C16.v c16_sequential_refines_policy: this is Policy.run) *)
Definition dispatch_c16_seq (ts : list tok) : list tok :=
  match ts with
  | op :: TI m :: f :: TI n :: rest =>
    let upl := map beh_of (firstn (Z.to_nat n) rest) in
    let evs := parse_evs (skipn (Z.to_nat n) rest) in
    let fw := if is_word "ok" f then FOk else if is_word "refused" f then FRefused else FNone in
    let (s, rs) := seq_run code_shape fw (cst0 (Z.eqb m 1) upl) evs in
    flat_map (fun r => match r with RFwd => [W "fwd"] | RUp i => [W "up"; Tnat i] | RFail => [W "fail"] | RCut => [] end) rs
    ++ [W "phys"] ++ phys_toks upl (sh s)
  | _ => [W "model-error"]
  end.

(* c16 (one connection after the other) and c16c (rounds of concurrent connections) *)
Definition dispatch_c16_all (ts : list tok) : list tok :=
  match ts with
  | op :: _ => if is_word "c16c" op then dispatch_c16c ts else if is_word "c16" op then dispatch_c16_seq ts else [W "model-error"]
  | [] => [W "model-error"]
  end.
