(* Predictions of the runtime models for the socket-level scenarios of C01, C02, C14, C15, C17 (harness: e2e.go, scenarios.go).
   The structural facts (capacities, goroutine per handler, continue on error) come from the source via Gen/Shapes.v. *)
From Coq Require Import String List NArith ZArith Bool Arith.
From SA Require Import Base.Tok Gen.Shapes Mux.Lts Mux.Pipe Mux.Accept.
Import ListNotations.
Local Open Scope nat_scope.

(* goroutines left behind by one PipeData call, from the LTS: the worst terminal state with both connections closed *)
Definition pipe_leak : nat :=
  let capd := N.to_nat pipe_chan_cap_down in
  let capu := N.to_nat pipe_chan_cap_up in
  fold_left Nat.max
    (map stuck_threads (filter (fun s => terminal capd capu s && cl_down s && cl_up s) (pclosure capd capu))) 0.

(* does the k-th later item get served while an earlier one idles?  (accept loop model, loop steps only) *)
Definition served_while_first_idles (spawns : bool) : bool :=
  let s := arun spawns false [SEnv Arrive; SLoop; SEnv Arrive] in
  is_served (iter_loop spawns false 3 s) 1.

Definition dead_loop_spins : bool :=
  let s := arun accept_stream_spawns accept_stream_continues_on_error [SEnv Die] in
  match lp (iter_loop accept_stream_spawns accept_stream_continues_on_error 2 s) with LExited => false | _ => true end.

Definition carrier_spawns (c : tok) : bool :=
  if is_word "kcp" c || is_word "kcp-starttls" c then packet_accept_spawns
  else if is_word "ws" c || is_word "wss" c || is_word "ws-starttls" c then true     (* net/http serves every request on its own goroutine *)
  else socket_accept_spawns.

(* one multiplexer frame fits one carrier message, on both ends *)
Definition frame_fits : bool :=
  (N.leb (server_max_frame + 8) buffer_size && N.leb (client_max_frame + 8) buffer_size)%N.

Definition dispatch_runtime (ts : list tok) : list tok :=
  match ts with
  | op :: rest =>
    if is_word "c01" op then
      match rest with
      | _ :: TI n :: _ =>
        let dir := last rest (TI 0) in
        (if is_word "up" dir || is_word "both" dir then [W "up"; TI n; TI (-1)] else []) ++
        (if is_word "down" dir || is_word "both" dir then [W "down"; TI n; TI (-1)] else [])
      | _ => [W "model-error"]
      end
    else if is_word "c02" op then
      match rest with
      | [_; TI k; sc] =>
        let ok := accept_stream_spawns || is_word "close-first" sc || served_while_first_idles accept_stream_spawns in
        [W "open1"; W "ok"] ++ repeat (W (if ok then "ok" else "not-served")) (Z.to_nat k - 1) ++ [W "iso"; TI 1]
      | _ => [W "model-error"]
      end
    else if is_word "c15" op then
      match rest with
      | [c; st; TI n] =>
        let ok := is_word "none" st || (carrier_spawns c && served_while_first_idles true) in
        repeat (W (if ok then "ok" else "not-served")) (Z.to_nat n)
      | _ => [W "model-error"]
      end
    else if is_word "c17" op then
      match rest with
      | [_; TI n; _] => [W "got"; TI n; W "diff"; TI (-1); W "eof"; TI 1]
      | _ => [W "model-error"]
      end
    else if is_word "c14" op then
      match rest with
      | [_; TI n; mode] =>
        (* two PipeData calls per logical connection: one on the client, one on the server *)
        [W "leak"; Tnat (2 * pipe_leak); W "busy"; Tbool ((is_word "cut" mode || is_word "garbage" mode) && dead_loop_spins); W "ok"; TI (2 * n)]
      | _ => [W "model-error"]
      end
    else [W "model-error"]
  | _ => [W "model-error"]
  end.
