(* C02 / C14: scripts for the handler model (Mux/Handler.v), as the harness op c02h runs them against the real code.
   `c02h raw <ops>`: the harness is the multiplexer client of a real server.ConnectionHandler (in-memory carrier, recording channels).
   Every operation of a script is followed by running all goroutines until nothing moves; the scripts are those whose outcome does not depend
   on the order (one cause at a time).  No proofs in this file (extracted). *)
From Coq Require Import List NArith ZArith Bool Arith String.
From SA Require Import Base.Tok Mux.Handler.
Import ListNotations.
Local Open Scope nat_scope.

Inductive sop :=
| OOpen (sel : option bool) (fate : option bool) (client_closes : bool)
      (* open a stream; propose a served / unserved channel (or nothing yet); the dial's outcome if known at once; the client closes a refused stream *)
| OSel (i : nat) (served : bool)
| ODial (i : nat) (ok : bool)
| OAppClose (i : nat) | OTgEof (i : nat) | OTgErr (i : nat)
| OProbe | OGor | ODie (orderly : bool)
| OManyRefused (n : nat).

Fixpoint parse_ops (fuel : nat) (ts : list tok) : option (list sop) :=
  match fuel with
  | O => None
  | S f =>
    match ts with
    | [] => Some []
    | t :: r =>
      let one (o : sop) (rest : list tok) := match parse_ops f rest with Some l => Some (o :: l) | None => None end in
      let idx (mk : nat -> sop) := match r with TI n :: r' => one (mk (Z.to_nat n)) r' | _ => None end in
      if is_word "oi" t then one (OOpen (Some true) (Some true) true) r
      else if is_word "of" t then one (OOpen (Some true) (Some false) true) r
      else if is_word "ol" t then one (OOpen (Some true) None true) r
      else if is_word "or" t then one (OOpen (Some false) None true) r
      else if is_word "orx" t then one (OOpen (Some false) None false) r
      else if is_word "on" t then one (OOpen None None true) r
      else if is_word "se" t then idx (fun i => OSel i true)
      else if is_word "su" t then idx (fun i => OSel i false)
      else if is_word "dk" t then idx (fun i => ODial i true)
      else if is_word "df" t then idx (fun i => ODial i false)
      else if is_word "ac" t then idx OAppClose
      else if is_word "te" t then idx OTgEof
      else if is_word "tr" t then idx OTgErr
      else if is_word "pr" t then one OProbe r
      else if is_word "gq" t then one OGor r
      else if is_word "cut" t then one (ODie false) r
      else if is_word "gb" t then one (ODie false) r
      else if is_word "eof" t then one (ODie true) r
      else if is_word "mr" t then idx OManyRefused
      else None
    end
  end.

Definition es (sh : shape) (s : sess) (e : ev) : sess := env_then_settle sh s e.

Definition conn_at (s : sess) (i : nat) : conn := nth i (g_conns s) k_new.

Definition sel_word (s : sess) (i : nat) : list tok :=
  let c := conn_at s i in
  [W "sel"; W (if s_acked (k_s c) then "ok" else if Nat.ltb 0 (s_nas (k_s c)) then "na" else "fail")].

Definition gor_toks (s : sess) : list tok :=
  [W "g"; Tnat (match g_acc s with AExited => 0 | _ => 1 end);
   Tnat (count h_live (g_conns s));
   Tnat (sum_nat (map (fun c => (if cop_live (p_cd (k_p c)) then 1 else 0) + (if cop_live (p_cu (k_p c)) then 1 else 0)) (g_conns s)))].

Definition session_over (s : sess) : bool := negb (is_alive (g_dead s)) || g_closed s.

(* one echo through connection j: a chunk from the client must reach the target, a chunk from the target must reach the client *)
Definition probe_one (sh : shape) (s : sess) (j : nat) : sess * bool :=
  let c := conn_at s j in
  if s_acked (k_s c) && t_ex (k_t c) && negb (s_cli_closed (k_s c)) then
    if s_srv_closed (k_s c) || session_over s then (s, false)
    else
      let s1 := es sh s (EAppData j) in
      let ok1 := Nat.ltb (t_s2t_n (k_t c)) (t_s2t_n (k_t (conn_at s1 j))) in
      if ok1 then
        let s2 := es sh s1 (ETgData j) in
        (s2, Nat.ltb (s_s2c_n (k_s (conn_at s1 j))) (s_s2c_n (k_s (conn_at s2 j))))
      else (s1, false)
  else (s, false).

Fixpoint probe_all (sh : shape) (s : sess) (js : list nat) : sess * list nat :=
  match js with
  | [] => (s, [])
  | j :: r => let (s1, ok) := probe_one sh s j in
              let (s2, l) := probe_all sh s1 r in
              (s2, if ok then j :: l else l)
  end.

Definition do_open (sh : shape) (s : sess) (sel : option bool) (fate : option bool) (client_closes : bool) : sess * list tok :=
  let i := List.length (g_conns s) in
  match step_opt sh s EOpen with
  | None => (s, [W "sel"; W "dead"])
  | Some _ =>
    let s1 := es sh s EOpen in
    match sel with
    | None => (s1, [W "opened"])
    | Some b =>
      let s2 := es sh s1 (ESelect i b) in
      let s3 := match fate with Some f => es sh s2 (EDial i f) | None => s2 end in
      let out := sel_word s3 i in
      let s4 := if negb b && client_closes then es sh s3 (EAppClose i) else s3 in
      (s4, out)
    end
  end.

Fixpoint many_refused (sh : shape) (n : nat) (s : sess) : sess :=
  match n with O => s | S k => many_refused sh k (fst (do_open sh s (Some false) None true)) end.

Definition run_sop (sh : shape) (s : sess) (o : sop) : sess * list tok :=
  match o with
  | OOpen sel fate cc => do_open sh s sel fate cc
  | OSel i b =>
    let s1 := es sh s (ESelect i b) in
    let s2 := if b then es sh s1 (EDial i true) else s1 in
    let out := sel_word s2 i in
    (if b then s2 else es sh s2 (EAppClose i), out)
  | ODial i b => (es sh s (EDial i b), [])
  | OAppClose i => (es sh s (EAppClose i), [])
  | OTgEof i => (es sh s (ETgEof i), [])
  | OTgErr i => (es sh s (ETgErr i), [])
  | OProbe => let (s1, l) := probe_all sh s (seq 0 (List.length (g_conns s))) in
              (s1, W "pr" :: Tnat (List.length l) :: map Tnat l)
  | OGor => (s, gor_toks s)
  | ODie b => (es sh s (EDie b), [])
  | OManyRefused n => (many_refused sh n s, [])
  end.

Fixpoint run_sops (sh : shape) (s : sess) (ops : list sop) : sess * list tok :=
  match ops with
  | [] => (s, [])
  | o :: r => let (s1, t1) := run_sop sh s o in
              let (s2, t2) := run_sops sh s1 r in
              (s2, t1 ++ t2)
  end.

Definition conn_toks (s : sess) (c : conn) : list tok :=
  [W "c";
   (if s_cli_closed (k_s c) then W "x" else Tbool (s_srv_closed (k_s c) || session_over s));
   W (if negb (t_ex (k_t c)) then "n" else if t_closed (k_t c) then "c" else "o")].

Definition end_toks (s : sess) : list tok := W "end" :: flat_map (conn_toks s) (g_conns s) ++ gor_toks s.

Definition dispatch_raw (sh : shape) (r : list tok) : list tok :=
  match parse_ops (S (List.length r)) r with
  | Some ops => let (s, out) := run_sops sh (g_new sh) ops in out ++ end_toks s
  | None => [W "model-error"]
  end.

(* ================================================================================================================================
   `c02h cli <ops>`: the real client (listener.HandleConnection over Upstreams) and the real server handler together. The two models run
   side by side; what one side does to the stream is handed to the other as an event of its environment (the client opens the stream and
   proposes, the server acknowledges or refuses, either side closes its end, chunks travel, the session dies). *)
Record cpair := {
  cp_l : lconn;
  cp_tunnel : bool;            (* through the tunnel (false: ConnectDirectly took it) *)
  cp_served : bool;            (* the channel the listener asks for is served *)
  cp_fate : option bool;       (* outcome of the server's dial, when the script fixes it at once *)
  cp_srv : option nat;         (* index of the server-side connection, once the stream is open *)
  cp_up_seen : nat;            (* chunks written by the client that the server has been told of *)
  cp_dn_seen : nat             (* chunks written by the server that the client has been told of *)
}.
Record cli := { cl_s : sess; cl_p : list cpair }.

Definition cp_with_l (p : cpair) (l : lconn) : cpair :=
  {| cp_l := l; cp_tunnel := cp_tunnel p; cp_served := cp_served p; cp_fate := cp_fate p; cp_srv := cp_srv p; cp_up_seen := cp_up_seen p; cp_dn_seen := cp_dn_seen p |}.
Definition cp_with_srv (p : cpair) (j : nat) : cpair :=
  {| cp_l := cp_l p; cp_tunnel := cp_tunnel p; cp_served := cp_served p; cp_fate := cp_fate p; cp_srv := Some j; cp_up_seen := cp_up_seen p; cp_dn_seen := cp_dn_seen p |}.
Definition cp_seen (p : cpair) (u d : nat) : cpair :=
  {| cp_l := cp_l p; cp_tunnel := cp_tunnel p; cp_served := cp_served p; cp_fate := cp_fate p; cp_srv := cp_srv p; cp_up_seen := u; cp_dn_seen := d |}.

Definition lsettle_fuel : nat := 24.
Definition settle_pair (sh : shape) (p : cpair) : cpair := cp_with_l p (lsettle sh lsettle_fuel (cp_l p)).
Definition settle_cli (sh : shape) (x : cli) : cli :=
  {| cl_s := settle sh (settle_fuel (cl_s x)) (cl_s x); cl_p := map (settle_pair sh) (cl_p x) |}.
Definition lev_on (sh : shape) (p : cpair) (e : lev) : cpair := cp_with_l p (lstep sh (cp_l p) e).

(* what one side has done that the other has not been told yet: at most one hand-over per call *)
Definition hand_over (sh : shape) (s : sess) (p : cpair) : option (sess * cpair) :=
  let l := cp_l p in
  if negb (cp_tunnel p) then None
  else match cp_srv p with
  | None =>
    if e_ex (l_upc l) then
      let j := List.length (g_conns s) in
      match step_opt sh s EOpen with
      | Some s1 =>
        let s2 := step sh s1 (ESelect j (cp_served p)) in
        let s3 := match cp_fate p with Some f => step sh s2 (EDial j f) | None => s2 end in
        Some (s3, cp_with_srv p j)
      | None => if e_err (l_upc l) then None else Some (s, lev_on sh p LUpErr)
      end
    else None
  | Some j =>
    let c := conn_at s j in
    if is_none (l_answer l) && s_acked (k_s c) then Some (s, lev_on sh p (LAnswer true))
    else if is_none (l_answer l) && Nat.ltb 0 (s_nas (k_s c)) then Some (s, lev_on sh p (LAnswer false))
    else if e_closed (l_upc l) && negb (s_cli_closed (k_s c)) then Some (step sh s (EAppClose j), p)
    else if s_srv_closed (k_s c) && negb (e_eof (l_upc l)) then Some (s, lev_on sh p LUpEof)
    else if session_over s && negb (e_err (l_upc l)) then Some (s, lev_on sh p LUpErr)
    else if Nat.ltb (cp_up_seen p) (e_n (l_upc l)) then Some (step sh s (EAppData j), cp_seen p (S (cp_up_seen p)) (cp_dn_seen p))
    else if Nat.ltb (cp_dn_seen p) (s_s2c_n (k_s c)) then Some (s, cp_seen (lev_on sh p LUpData) (cp_up_seen p) (S (cp_dn_seen p)))
    else None
  end.

Fixpoint hand_over_first (sh : shape) (s : sess) (done todo : list cpair) : option cli :=
  match todo with
  | [] => None
  | p :: r => match hand_over sh s p with
              | Some (s', p') => Some {| cl_s := s'; cl_p := rev done ++ p' :: r |}
              | None => hand_over_first sh s (p :: done) r
              end
  end.

Fixpoint cosettle (sh : shape) (fuel : nat) (x : cli) : cli :=
  match fuel with
  | O => x
  | S f => let y := settle_cli sh x in
           match hand_over_first sh (cl_s y) [] (cl_p y) with
           | Some z => cosettle sh f z
           | None => y
           end
  end.
Definition co_fuel (x : cli) : nat := 30 + 16 * List.length (cl_p x).
Definition co (sh : shape) (x : cli) : cli := cosettle sh (co_fuel x) x.

Definition pair_at (x : cli) (i : nat) : option cpair := nth_error (cl_p x) i.
Definition set_pair (x : cli) (i : nat) (p : cpair) : cli := {| cl_s := cl_s x; cl_p := upd (cl_p x) i (fun _ => p) |}.
Definition on_pair (sh : shape) (x : cli) (i : nat) (e : lev) : cli :=
  match pair_at x i with Some p => co sh (set_pair x i (lev_on sh p e)) | None => x end.
Definition on_srv (sh : shape) (x : cli) (i : nat) (mk : nat -> ev) : cli :=
  match pair_at x i with
  | Some p => match cp_srv p with Some j => co sh {| cl_s := step sh (cl_s x) (mk j); cl_p := cl_p x |} | None => x end
  | None => x
  end.
Definition srv_conn (x : cli) (p : cpair) : conn := match cp_srv p with Some j => conn_at (cl_s x) j | None => k_new end.

Inductive cop :=
| COpen (tunnel served : bool) (fate : option bool) (kind : nat)    (* kind: what the observation reports: 0 target handed out, 1 the local connection was not closed, 2 the forward target was reached *)
| CDial (i : nat) (ok : bool) | CAppClose (i : nat) | CTgEof (i : nat) | CTgErr (i : nat) | CProbe | CGor | CCut.

Fixpoint parse_cops (fuel : nat) (ts : list tok) : option (list cop) :=
  match fuel with
  | O => None
  | S f =>
    match ts with
    | [] => Some []
    | t :: r =>
      let one (o : cop) (rest : list tok) := match parse_cops f rest with Some l => Some (o :: l) | None => None end in
      let idx (mk : nat -> cop) := match r with TI n :: r' => one (mk (Z.to_nat n)) r' | _ => None end in
      if is_word "oi" t then one (COpen true true (Some true) 0) r
      else if is_word "of" t then one (COpen true true (Some false) 1) r
      else if is_word "ol" t then one (COpen true true None 0) r
      else if is_word "or" t then one (COpen true false None 1) r
      else if is_word "od" t then one (COpen false true None 2) r
      else if is_word "dk" t then idx (fun i => CDial i true)
      else if is_word "df" t then idx (fun i => CDial i false)
      else if is_word "ac" t then idx CAppClose
      else if is_word "te" t then idx CTgEof
      else if is_word "tr" t then idx CTgErr
      else if is_word "pr" t then one CProbe r
      else if is_word "gq" t then one CGor r
      else if is_word "cut" t then one CCut r
      else None
    end
  end.

Definition cli_gor (x : cli) : list tok :=
  let s := cl_s x in
  [W "g"; Tnat (match g_acc s with AExited => 0 | _ => 1 end); Tnat (count h_live (g_conns s));
   Tnat (sum_nat (map (fun c => (if cop_live (p_cd (k_p c)) then 1 else 0) + (if cop_live (p_cu (k_p c)) then 1 else 0)) (g_conns s)) +
         sum_nat (map (fun p => (if cop_live (p_cd (l_p (cp_l p))) then 1 else 0) + (if cop_live (p_cu (l_p (cp_l p))) then 1 else 0)) (cl_p x)));
   Tnat (List.length (filter (fun p => match l_pc (cp_l p) with LDone => false | _ => true end) (cl_p x)))].

Definition far_hung (x : cli) (p : cpair) : bool :=
  if cp_tunnel p then t_eof (k_t (srv_conn x p)) else e_eof (l_upc (cp_l p)).
Definition far_there (x : cli) (p : cpair) : bool :=
  if cp_tunnel p then t_ex (k_t (srv_conn x p)) else e_ex (l_upc (cp_l p)).
Definition far_got (x : cli) (p : cpair) : nat :=
  if cp_tunnel p then t_s2t_n (k_t (srv_conn x p)) else e_n (l_upc (cp_l p)).

Definition cprobe_one (sh : shape) (x : cli) (i : nat) : cli * bool :=
  match pair_at x i with
  | None => (x, false)
  | Some p =>
    let l := cp_l p in
    if e_eof (l_app l) || e_closed (l_app l) || far_hung x p || negb (far_there x p) then (x, false)
    else
      let x1 := on_pair sh x i LAppData in
      match pair_at x1 i with
      | None => (x1, false)
      | Some p1 =>
        if Nat.ltb (far_got x p) (far_got x1 p1) then
          let x2 := if cp_tunnel p1 then on_srv sh x1 i ETgData else on_pair sh x1 i LUpData in
          match pair_at x2 i with
          | Some p2 => (x2, Nat.ltb (e_n (l_app (cp_l p1))) (e_n (l_app (cp_l p2))))
          | None => (x2, false)
          end
        else (x1, false)
      end
  end.
Fixpoint cprobe_all (sh : shape) (x : cli) (is : list nat) : cli * list nat :=
  match is with
  | [] => (x, [])
  | i :: r => let (x1, ok) := cprobe_one sh x i in
              let (x2, l) := cprobe_all sh x1 r in
              (x2, if ok then i :: l else l)
  end.

Definition run_cop (sh : shape) (x : cli) (o : cop) : cli * list tok :=
  match o with
  | COpen tunnel served fate kind =>
    let i := List.length (cl_p x) in
    let l0 := l_new (negb tunnel) in
    let l1 := if tunnel then lstep sh l0 (LConnFate (negb (session_over (cl_s x)))) else lstep sh l0 (LFwdFate true) in
    let p := {| cp_l := l1; cp_tunnel := tunnel; cp_served := served; cp_fate := fate; cp_srv := None; cp_up_seen := 0; cp_dn_seen := 0 |} in
    let x1 := co sh {| cl_s := cl_s x; cl_p := cl_p x ++ [p] |} in
    let b := match pair_at x1 i with
             | Some q => match kind with
                         | 0 => t_ex (k_t (srv_conn x1 q))
                         | 1 => negb (e_closed (l_app (cp_l q)))
                         | _ => e_ex (l_upc (cp_l q))
                         end
             | None => false
             end in
    (x1, [W "up"; Tbool b])
  | CDial i ok => (on_srv sh x i (fun j => EDial j ok), [])
  | CAppClose i => (on_pair sh x i LAppClose, [])
  | CTgEof i => (match pair_at x i with
                 | Some p => if cp_tunnel p then on_srv sh x i ETgEof else on_pair sh x i LUpEof
                 | None => x
                 end, [])
  | CTgErr i => (on_srv sh x i ETgErr, [])
  | CProbe => let (x1, l) := cprobe_all sh x (seq 0 (List.length (cl_p x))) in (x1, W "pr" :: Tnat (List.length l) :: map Tnat l)
  | CGor => (x, cli_gor x)
  | CCut => (co sh {| cl_s := step sh (cl_s x) (EDie false); cl_p := cl_p x |}, [])
  end.

Fixpoint run_cops (sh : shape) (x : cli) (ops : list cop) : cli * list tok :=
  match ops with
  | [] => (x, [])
  | o :: r => let (x1, t1) := run_cop sh x o in
              let (x2, t2) := run_cops sh x1 r in
              (x2, t1 ++ t2)
  end.

Definition pair_toks (x : cli) (p : cpair) : list tok :=
  let l := cp_l p in
  [W "c"; Tbool (e_closed (l_app l));
   W (if cp_tunnel p then
        let c := srv_conn x p in
        if negb (t_ex (k_t c)) then "n" else if t_closed (k_t c) then "c" else "o"
      else if negb (e_ex (l_upc l)) then "n" else if e_closed (l_upc l) then "c" else "o")].

Definition dispatch_cli (sh : shape) (r : list tok) : list tok :=
  match parse_cops (S (List.length r)) r with
  | Some ops => let (x, out) := run_cops sh {| cl_s := g_new sh; cl_p := [] |} ops in
                out ++ W "end" :: flat_map (pair_toks x) (cl_p x) ++ cli_gor x
  | None => [W "model-error"]
  end.

Definition dispatch_c02h (ts : list tok) : list tok :=
  match ts with
  | _ :: m :: r => if is_word "raw" m then dispatch_raw code_shape r else if is_word "cli" m then dispatch_cli code_shape r else [W "model-error"]
  | _ => [W "model-error"]
  end.
