(* C02 / C14: the server's per-session handler and the piping of one logical connection, with every resource and its owner explicit.
     internal/server/communicator.go   HandleConnection (go acceptStream), acceptStream (the accept loop; one goroutine per stream, the
                                       error path of that goroutine), multiplexToUpstream (deferred close of its parameter, Peek, mux.Handle),
                                       muxHandler (OpenConnection, PipeData)
     internal/streams/pipes.go         PipeData (two report channels, two copy goroutines, one select, the closes of each case), pipeData
     internal/client/listener/listener.go   HandleConnection / ConnectDirectly (the client-side mirror: PipeData, then both ends closed)
     internal/client/upstream/upstream.go   openStream (a refused stream is closed)
   Resources: per logical connection a multiplexer stream (two ends), a target connection, the handler goroutine, two copy goroutines and
   two report channels; per session the accept-loop goroutine and the session itself. Every goroutine has a program counter over the
   statements of the Go code; a schedule (list of events) decides which goroutine takes its next step and what the environment does (a
   client opens a stream, proposes a channel, closes; a dial returns; a target hangs up or fails; the carrier ends). A close names the
   resource it acts on and is recorded with the goroutine that made it.
   What the model takes from the source text is in `shape` (Gen/HandlerShape.v is rewritten from /repo on every run).
   No proofs in this file: it is extracted and run against the real ConnectionHandler / listener (harness op c02h). *)
From Coq Require Import List NArith ZArith Bool Arith String.
From SA Require Import Base.Tok.
From SA Require Gen.HandlerShape.
Import ListNotations.
Local Open Scope nat_scope.

(* ---- what the model takes from the source text *)
Record shape := {
  sh_err_closes_own : bool;      (* acceptStream: the error path of the per-stream goroutine closes that goroutine's own parameter
                                    (false: a variable declared outside the loop - the stream accepted most recently) *)
  sh_defer_closes_own : bool;    (* multiplexToUpstream: the deferred close acts on its parameter *)
  sh_acc_quiet_returns : bool;   (* acceptStream: io.EOF / os.ErrClosed end the loop *)
  sh_acc_err_returns : bool;     (* acceptStream: any other error ends the loop (false: continue) *)
  sh_acc_err_closes_sess : bool; (* ... after closing the session *)
  sh_slots : nat;                (* capacity of a per-session semaphore taken before AcceptStream (0: there is none) *)
  sh_slot_release_err : bool;    (* ... given back on the error returns of multiplexToUpstream too *)
  sh_dial_lock : bool;           (* muxHandler: OpenConnection runs under a session-wide lock *)
  sh_mh_closes_up : bool;        (* muxHandler closes the target connection after PipeData, on every path *)
  sh_cap_down : nat;             (* capacities of the two report channels of PipeData *)
  sh_cap_up : nat;
  sh_de_d : bool; sh_de_u : bool;  (* select case downPipe, err == io.EOF: TryClose(down)? TryClose(up)? *)
  sh_dx_d : bool; sh_dx_u : bool;  (* select case downPipe, any other error *)
  sh_ue_d : bool; sh_ue_u : bool;  (* select case upPipe, err == io.EOF *)
  sh_ux_d : bool; sh_ux_u : bool;  (* select case upPipe, any other error *)
  sh_refused_closed : bool;      (* client, openStream: the stream is closed when channel selection fails *)
  sh_lst_closes_up : bool;       (* client, listener.HandleConnection: TryClose(up) at the end *)
  sh_lst_closes_conn : bool;     (* ... and TryClose(conn) *)
  sh_dir_closes_conn : bool;     (* client, ConnectDirectly: the local connection is closed when the pipe to the forward address is over *)
  sh_dir_closes_up : bool        (* ... and so is the connection to the forward address *)
}.

Definition intended : shape :=
  {| sh_err_closes_own := true; sh_defer_closes_own := true; sh_acc_quiet_returns := true; sh_acc_err_returns := true;
     sh_acc_err_closes_sess := true; sh_slots := 0; sh_slot_release_err := true; sh_dial_lock := false; sh_mh_closes_up := false;
     sh_cap_down := 1; sh_cap_up := 1;
     sh_de_d := false; sh_de_u := true; sh_dx_d := true; sh_dx_u := true;
     sh_ue_d := true; sh_ue_u := false; sh_ux_d := true; sh_ux_u := true;
     sh_refused_closed := true; sh_lst_closes_up := true; sh_lst_closes_conn := true;
     sh_dir_closes_conn := true; sh_dir_closes_up := true |}.

Definition code_shape : shape :=
  {| sh_err_closes_own := Gen.HandlerShape.accept_error_path_closes_own_param && Gen.HandlerShape.accept_goroutine_gets_accepted_stream;
     sh_defer_closes_own := Gen.HandlerShape.mux_deferred_close_on_param;
     sh_acc_quiet_returns := Gen.HandlerShape.accept_quiet_error_returns;
     sh_acc_err_returns := Gen.HandlerShape.accept_other_error_returns;
     sh_acc_err_closes_sess := Gen.HandlerShape.accept_other_error_closes_session;
     sh_slots := N.to_nat Gen.HandlerShape.accept_slot_capacity;
     sh_slot_release_err := Gen.HandlerShape.handler_slot_released_on_error_paths;
     sh_dial_lock := Gen.HandlerShape.mux_handler_locks_around_dial;
     sh_mh_closes_up := Gen.HandlerShape.mux_handler_closes_up_after_pipe;
     sh_cap_down := N.to_nat Gen.HandlerShape.pipe_cap_down;
     sh_cap_up := N.to_nat Gen.HandlerShape.pipe_cap_up;
     sh_de_d := Gen.HandlerShape.pipe_down_eof_closes_down; sh_de_u := Gen.HandlerShape.pipe_down_eof_closes_up;
     sh_dx_d := Gen.HandlerShape.pipe_down_err_closes_down; sh_dx_u := Gen.HandlerShape.pipe_down_err_closes_up;
     sh_ue_d := Gen.HandlerShape.pipe_up_eof_closes_down; sh_ue_u := Gen.HandlerShape.pipe_up_eof_closes_up;
     sh_ux_d := Gen.HandlerShape.pipe_up_err_closes_down; sh_ux_u := Gen.HandlerShape.pipe_up_err_closes_up;
     sh_refused_closed := Gen.HandlerShape.client_open_stream_closes_refused;
     sh_lst_closes_up := Gen.HandlerShape.listener_end_closes_up;
     sh_lst_closes_conn := Gen.HandlerShape.listener_end_closes_conn;
     sh_dir_closes_conn := Gen.HandlerShape.connect_directly_closes_conn;
     sh_dir_closes_up := Gen.HandlerShape.connect_directly_closes_direct |}.

(* the shapes the theorems are about: every switch as the code has it today, except that muxHandler may or may not close the target
   connection itself (it does since 1ffd47e), the session may or may not be closed on a terminal accept error, and the report channels may
   have any capacity above zero *)
Definition shape_ok_server (sh : shape) : bool :=
  sh_err_closes_own sh && sh_defer_closes_own sh && sh_acc_quiet_returns sh && sh_acc_err_returns sh &&
  Nat.eqb (sh_slots sh) 0 && negb (sh_dial_lock sh) && Nat.ltb 0 (sh_cap_down sh) && Nat.ltb 0 (sh_cap_up sh) &&
  negb (sh_de_d sh) && sh_de_u sh && sh_dx_d sh && sh_dx_u sh && sh_ue_d sh && negb (sh_ue_u sh) && sh_ux_d sh && sh_ux_u sh.
(* ... and the client's: a refused stream is closed, HandleConnection closes both ends, and so does ConnectDirectly *)
Definition shape_ok (sh : shape) : bool :=
  shape_ok_server sh && sh_refused_closed sh && sh_lst_closes_up sh && sh_lst_closes_conn sh && sh_dir_closes_conn sh && sh_dir_closes_up sh.

(* the defects this code has been the target of, each as the one switch it flips *)
Inductive defect :=
| DClosesLatest     (* the handler's error path closes the stream accepted most recently (a variable shared by all iterations) *)
| DRefusedOpen      (* the client leaves a refused stream open *)
| DUpOnlyOnEof      (* PipeData closes the upstream side only when the downstream copy loop ended with io.EOF *)
| DWrongSide        (* PipeData closes the side that has just ended instead of the other one (upPipe case) *)
| DSlotLeak         (* a per-session slot (two of them) taken per accepted stream and given back on the normal return only *)
| DContinue         (* a terminal accept error is answered with `continue` *)
| DCap0             (* unbuffered report channels *)
| DDialLock         (* the target is dialled under a session-wide lock *)
| DDirectOpen.      (* ConnectDirectly closes nothing after its pipe (the code before the repair) *)

Definition variant (v : defect) : shape :=
  {| sh_err_closes_own := match v with DClosesLatest => false | _ => true end;
     sh_defer_closes_own := true; sh_acc_quiet_returns := true;
     sh_acc_err_returns := match v with DContinue => false | _ => true end;
     sh_acc_err_closes_sess := true;
     sh_slots := match v with DSlotLeak => 2 | _ => 0 end;
     sh_slot_release_err := match v with DSlotLeak => false | _ => true end;
     sh_dial_lock := match v with DDialLock => true | _ => false end;
     sh_mh_closes_up := false;
     sh_cap_down := match v with DCap0 => 0 | _ => 1 end; sh_cap_up := match v with DCap0 => 0 | _ => 1 end;
     sh_de_d := false; sh_de_u := true;
     sh_dx_d := true; sh_dx_u := match v with DUpOnlyOnEof => false | _ => true end;
     sh_ue_d := match v with DWrongSide => false | _ => true end; sh_ue_u := match v with DWrongSide => true | _ => false end;
     sh_ux_d := true; sh_ux_u := true;
     sh_refused_closed := match v with DRefusedOpen => false | _ => true end;
     sh_lst_closes_up := true; sh_lst_closes_conn := true;
     (* (the wrong side closed shows only where nothing is closed after the pipe: the direct path before its repair) *)
     sh_dir_closes_conn := match v with DDirectOpen | DWrongSide => false | _ => true end;
     sh_dir_closes_up := match v with DDirectOpen | DWrongSide => false | _ => true end |}.

(* ================================================================================================================================
   PipeData as a component: its own thread (the select), two copy goroutines, two report channels. The two ends it pipes between are
   seen through what a Read on them would return now and whether a Write would succeed. *)
Inductive side := Down | Up.
Inductive rd := RBlock | RData | REof | RErr.
Inductive cpc := CNone | CRun | CSend (eof : bool) | CDone.      (* not started / inside io.CopyBuffer / at `errs <- ...` / returned *)
Inductive ppc := PIdle | PStart | PSelect | PGot (s : side) (eof : bool) | PRet (err : bool).
Inductive ceff := FNone | FMove | FDrop.                         (* what became of the chunk that was waiting at the source *)

Record pcall := {
  p_pc : ppc;
  p_cd : cpc;                    (* go pipeData(downPipe, down, up) *)
  p_cu : cpc;                    (* go pipeData(upPipe, up, down) *)
  p_dp : list bool;              (* content of downPipe: true = io.EOF, false = another error *)
  p_up : list bool;              (* content of upPipe *)
  p_got : option (side * bool)   (* the one report the select consumed *)
}.

Definition p_idle : pcall := {| p_pc := PIdle; p_cd := CNone; p_cu := CNone; p_dp := []; p_up := []; p_got := None |}.
Definition p_begin : pcall := {| p_pc := PStart; p_cd := CNone; p_cu := CNone; p_dp := []; p_up := []; p_got := None |}.

Definition side_eqb (a b : side) : bool := match a, b with Down, Down | Up, Up => true | _, _ => false end.

Definition cop_of (sd : side) (p : pcall) : cpc := match sd with Down => p_cd p | Up => p_cu p end.
Definition chan_of (sd : side) (p : pcall) : list bool := match sd with Down => p_dp p | Up => p_up p end.
Definition cap_of (sh : shape) (sd : side) : nat := match sd with Down => sh_cap_down sh | Up => sh_cap_up sh end.

Definition set_cop (sd : side) (p : pcall) (c : cpc) : pcall :=
  match sd with
  | Down => {| p_pc := p_pc p; p_cd := c; p_cu := p_cu p; p_dp := p_dp p; p_up := p_up p; p_got := p_got p |}
  | Up => {| p_pc := p_pc p; p_cd := p_cd p; p_cu := c; p_dp := p_dp p; p_up := p_up p; p_got := p_got p |}
  end.
Definition set_chan (sd : side) (p : pcall) (q : list bool) : pcall :=
  match sd with
  | Down => {| p_pc := p_pc p; p_cd := p_cd p; p_cu := p_cu p; p_dp := q; p_up := p_up p; p_got := p_got p |}
  | Up => {| p_pc := p_pc p; p_cd := p_cd p; p_cu := p_cu p; p_dp := p_dp p; p_up := q; p_got := p_got p |}
  end.
Definition set_ppc (p : pcall) (x : ppc) : pcall :=
  {| p_pc := x; p_cd := p_cd p; p_cu := p_cu p; p_dp := p_dp p; p_up := p_up p; p_got := p_got p |}.
Definition set_got (p : pcall) (sd : side) (r : bool) : pcall :=
  {| p_pc := PGot sd r; p_cd := p_cd p; p_cu := p_cu p; p_dp := p_dp p; p_up := p_up p; p_got := Some (sd, r) |}.

(* io.CopyBuffer: read a chunk, write it, again; a read that ends with io.EOF makes the loop report io.EOF, any other read error or a
   write error is reported as it is *)
Definition copier_run (src : rd) (dst_ok : bool) : option (cpc * ceff) :=
  match src with
  | RBlock => None
  | RData => if dst_ok then Some (CRun, FMove) else Some (CSend false, FDrop)
  | REof => Some (CSend true, FNone)
  | RErr => Some (CSend false, FNone)
  end.

Definition is_pselect (x : ppc) : bool := match x with PSelect => true | _ => false end.

(* one step of the copy goroutine that reads from side sd *)
Definition copier_step (sh : shape) (sd : side) (src : rd) (dst_ok : bool) (p : pcall) : option (pcall * ceff) :=
  match cop_of sd p with
  | CRun => match copier_run src dst_ok with Some (c, e) => Some (set_cop sd p c, e) | None => None end
  | CSend r =>
    if Nat.ltb (List.length (chan_of sd p)) (cap_of sh sd) then Some (set_cop sd (set_chan sd p (chan_of sd p ++ [r])) CDone, FNone)
    else if Nat.eqb (cap_of sh sd) 0 && is_pselect (p_pc p) then Some (set_cop sd (set_got p sd r) CDone, FNone)   (* unbuffered: hand-over to a waiting select *)
    else None
  | _ => None
  end.

(* which ends the select case closes: (down?, up?) *)
Definition closes_of (sh : shape) (sd : side) (eof : bool) : bool * bool :=
  match sd, eof with
  | Down, true => (sh_de_d sh, sh_de_u sh)
  | Down, false => (sh_dx_d sh, sh_dx_u sh)
  | Up, true => (sh_ue_d sh, sh_ue_u sh)
  | Up, false => (sh_ux_d sh, sh_ux_u sh)
  end.

(* one step of PipeData's own thread; `pick_up` decides when both channels hold a report (Go's select picks at random) *)
Definition sel_step (sh : shape) (pick_up : bool) (p : pcall) : option (pcall * (bool * bool)) :=
  match p_pc p with
  | PStart => Some ({| p_pc := PSelect; p_cd := CRun; p_cu := CRun; p_dp := p_dp p; p_up := p_up p; p_got := p_got p |}, (false, false))
  | PSelect =>
    match p_dp p, p_up p with
    | [], [] => None
    | r :: q, [] => Some (set_got (set_chan Down p q) Down r, (false, false))
    | [], r :: q => Some (set_got (set_chan Up p q) Up r, (false, false))
    | r :: q, r' :: q' => if pick_up then Some (set_got (set_chan Up p q') Up r', (false, false)) else Some (set_got (set_chan Down p q) Down r, (false, false))
    end
  | PGot sd r => Some (set_ppc p (PRet (negb r)), closes_of sh sd r)
  | PIdle | PRet _ => None
  end.

Definition cop_live (c : cpc) : bool := match c with CRun | CSend _ => true | _ => false end.

(* ================================================================================================================================
   The server: one logical connection *)
Inductive hpc :=
| HNone                  (* the stream waits in the multiplexer's accept queue *)
| HPeek                  (* multiplexToUpstream: first.reader.Peek(1) *)
| HNeg                   (* mux.Handle: reading the client's proposal *)
| HLock                  (* (only with sh_dial_lock) waiting for the session-wide lock *)
| HDial                  (* muxHandler: channel.OpenConnection() *)
| HPipe                  (* muxHandler: inside streams.PipeData *)
| HDefer (err : bool)    (* multiplexToUpstream returns: the deferred close *)
| HErrClose              (* the goroutine's error branch: streams.TryClose(stream) *)
| HDone.

Record strm := {
  s_prop : option bool;        (* a proposal the server has not read yet: Some served? *)
  s_cli_closed : bool;         (* the client closed its end (end-of-stream for the server once the data is read) *)
  s_srv_closed : bool;         (* the server closed its end *)
  s_c2s : bool;                (* a chunk from the client waits at the server end *)
  s_s2c_n : nat;               (* chunks written towards the client *)
  s_acked : bool;              (* the selection was acknowledged *)
  s_nas : nat                  (* proposals answered with "na" *)
}.
Record targ := {
  t_ex : bool;                 (* OpenConnection returned a connection *)
  t_closed : bool;             (* the server closed it *)
  t_eof : bool;                (* the target hung up *)
  t_err : bool;                (* the target connection failed *)
  t_t2s : bool;                (* a chunk from the target waits *)
  t_s2t_n : nat                (* chunks written to the target *)
}.
Record conn := {
  k_h : hpc;
  k_p : pcall;
  k_s : strm;
  k_t : targ;
  k_fate : option bool;        (* the outcome OpenConnection has (or will have): decided by the environment, possibly late *)
  k_dialfail : bool            (* OpenConnection returned an error *)
}.

Definition s_new : strm := {| s_prop := None; s_cli_closed := false; s_srv_closed := false; s_c2s := false; s_s2c_n := 0; s_acked := false; s_nas := 0 |}.
Definition t_new : targ := {| t_ex := false; t_closed := false; t_eof := false; t_err := false; t_t2s := false; t_s2t_n := 0 |}.
Definition k_new : conn := {| k_h := HNone; k_p := p_idle; k_s := s_new; k_t := t_new; k_fate := None; k_dialfail := false |}.

Definition set_h (c : conn) (h : hpc) : conn := {| k_h := h; k_p := k_p c; k_s := k_s c; k_t := k_t c; k_fate := k_fate c; k_dialfail := k_dialfail c |}.
Definition set_p (c : conn) (p : pcall) : conn := {| k_h := k_h c; k_p := p; k_s := k_s c; k_t := k_t c; k_fate := k_fate c; k_dialfail := k_dialfail c |}.
Definition set_s (c : conn) (s : strm) : conn := {| k_h := k_h c; k_p := k_p c; k_s := s; k_t := k_t c; k_fate := k_fate c; k_dialfail := k_dialfail c |}.
Definition set_t (c : conn) (t : targ) : conn := {| k_h := k_h c; k_p := k_p c; k_s := k_s c; k_t := t; k_fate := k_fate c; k_dialfail := k_dialfail c |}.
Definition set_fate (c : conn) (f : option bool) : conn := {| k_h := k_h c; k_p := k_p c; k_s := k_s c; k_t := k_t c; k_fate := f; k_dialfail := k_dialfail c |}.
Definition set_dialfail (c : conn) : conn := {| k_h := k_h c; k_p := k_p c; k_s := k_s c; k_t := k_t c; k_fate := k_fate c; k_dialfail := true |}.

Definition s_with_prop (s : strm) (x : option bool) : strm :=
  {| s_prop := x; s_cli_closed := s_cli_closed s; s_srv_closed := s_srv_closed s; s_c2s := s_c2s s; s_s2c_n := s_s2c_n s; s_acked := s_acked s; s_nas := s_nas s |}.
Definition s_with_cli_closed (s : strm) : strm :=
  {| s_prop := s_prop s; s_cli_closed := true; s_srv_closed := s_srv_closed s; s_c2s := s_c2s s; s_s2c_n := s_s2c_n s; s_acked := s_acked s; s_nas := s_nas s |}.
Definition s_with_srv_closed (s : strm) : strm :=
  {| s_prop := s_prop s; s_cli_closed := s_cli_closed s; s_srv_closed := true; s_c2s := s_c2s s; s_s2c_n := s_s2c_n s; s_acked := s_acked s; s_nas := s_nas s |}.
Definition s_with_c2s (s : strm) (b : bool) : strm :=
  {| s_prop := s_prop s; s_cli_closed := s_cli_closed s; s_srv_closed := s_srv_closed s; s_c2s := b; s_s2c_n := s_s2c_n s; s_acked := s_acked s; s_nas := s_nas s |}.
Definition s_written (s : strm) : strm :=
  {| s_prop := s_prop s; s_cli_closed := s_cli_closed s; s_srv_closed := s_srv_closed s; s_c2s := s_c2s s; s_s2c_n := S (s_s2c_n s); s_acked := s_acked s; s_nas := s_nas s |}.
Definition s_ack (s : strm) : strm :=
  {| s_prop := None; s_cli_closed := s_cli_closed s; s_srv_closed := s_srv_closed s; s_c2s := s_c2s s; s_s2c_n := s_s2c_n s; s_acked := true; s_nas := s_nas s |}.
Definition s_na (s : strm) : strm :=
  {| s_prop := None; s_cli_closed := s_cli_closed s; s_srv_closed := s_srv_closed s; s_c2s := s_c2s s; s_s2c_n := s_s2c_n s; s_acked := s_acked s; s_nas := S (s_nas s) |}.

Definition t_open (t : targ) : targ := {| t_ex := true; t_closed := t_closed t; t_eof := t_eof t; t_err := t_err t; t_t2s := t_t2s t; t_s2t_n := t_s2t_n t |}.
Definition t_with_closed (t : targ) : targ := {| t_ex := t_ex t; t_closed := t_ex t; t_eof := t_eof t; t_err := t_err t; t_t2s := t_t2s t; t_s2t_n := t_s2t_n t |}.
Definition t_with_eof (t : targ) : targ := {| t_ex := t_ex t; t_closed := t_closed t; t_eof := true; t_err := t_err t; t_t2s := t_t2s t; t_s2t_n := t_s2t_n t |}.
Definition t_with_err (t : targ) : targ := {| t_ex := t_ex t; t_closed := t_closed t; t_eof := t_eof t; t_err := true; t_t2s := t_t2s t; t_s2t_n := t_s2t_n t |}.
Definition t_with_t2s (t : targ) (b : bool) : targ := {| t_ex := t_ex t; t_closed := t_closed t; t_eof := t_eof t; t_err := t_err t; t_t2s := b; t_s2t_n := t_s2t_n t |}.
Definition t_written (t : targ) : targ := {| t_ex := t_ex t; t_closed := t_closed t; t_eof := t_eof t; t_err := t_err t; t_t2s := t_t2s t; t_s2t_n := S (t_s2t_n t) |}.

(* ---- the session *)
Inductive dstate := Alive | DeadEof | DeadErr.     (* the carrier: in order / ended orderly (reads give io.EOF) / cut or garbage (another error) *)
Inductive apc := ASlot | AAccept | AExited.
Inductive actor := AAcc | AHand (i : nat).
Inductive res := RSess | RStream (i : nat) | RTarget (i : nat).

Record sess := {
  g_conns : list conn;           (* logical connections in the order their streams were opened *)
  g_dead : dstate;
  g_closed : bool;               (* the session was closed by the accept loop *)
  g_acc : apc;
  g_last : option nat;           (* the stream accepted most recently (what a variable shared by all iterations would hold) *)
  g_slots : nat;                 (* slots taken *)
  g_lock : option nat;           (* holder of the session-wide lock *)
  g_log : list (actor * res);    (* every close, with the goroutine that made it *)
  g_acc_steps : nat              (* steps the accept loop has taken *)
}.

Definition g_new (sh : shape) : sess :=
  {| g_conns := []; g_dead := Alive; g_closed := false; g_acc := if Nat.eqb (sh_slots sh) 0 then AAccept else ASlot; g_last := None;
     g_slots := 0; g_lock := None; g_log := []; g_acc_steps := 0 |}.

Definition owner (r : res) : actor := match r with RSess => AAcc | RStream i => AHand i | RTarget i => AHand i end.
Definition actor_eqb (a b : actor) : bool := match a, b with AAcc, AAcc => true | AHand i, AHand j => Nat.eqb i j | _, _ => false end.
Definition own_close (x : actor * res) : bool := actor_eqb (fst x) (owner (snd x)).

Definition with_conns (s : sess) (l : list conn) : sess :=
  {| g_conns := l; g_dead := g_dead s; g_closed := g_closed s; g_acc := g_acc s; g_last := g_last s; g_slots := g_slots s; g_lock := g_lock s;
     g_log := g_log s; g_acc_steps := g_acc_steps s |}.
Definition with_dead (s : sess) (d : dstate) : sess :=
  {| g_conns := g_conns s; g_dead := d; g_closed := g_closed s; g_acc := g_acc s; g_last := g_last s; g_slots := g_slots s; g_lock := g_lock s;
     g_log := g_log s; g_acc_steps := g_acc_steps s |}.
Definition with_closed (s : sess) : sess :=
  {| g_conns := g_conns s; g_dead := g_dead s; g_closed := true; g_acc := g_acc s; g_last := g_last s; g_slots := g_slots s; g_lock := g_lock s;
     g_log := g_log s; g_acc_steps := g_acc_steps s |}.
Definition with_acc (s : sess) (a : apc) (last : option nat) (slots : nat) : sess :=
  {| g_conns := g_conns s; g_dead := g_dead s; g_closed := g_closed s; g_acc := a; g_last := last; g_slots := slots; g_lock := g_lock s;
     g_log := g_log s; g_acc_steps := S (g_acc_steps s) |}.
Definition with_lock_slots (s : sess) (l : option nat) (slots : nat) : sess :=
  {| g_conns := g_conns s; g_dead := g_dead s; g_closed := g_closed s; g_acc := g_acc s; g_last := g_last s; g_slots := slots; g_lock := l;
     g_log := g_log s; g_acc_steps := g_acc_steps s |}.
Definition with_log (s : sess) (x : actor * res) : sess :=
  {| g_conns := g_conns s; g_dead := g_dead s; g_closed := g_closed s; g_acc := g_acc s; g_last := g_last s; g_slots := g_slots s; g_lock := g_lock s;
     g_log := g_log s ++ [x]; g_acc_steps := g_acc_steps s |}.

Fixpoint upd {A} (l : list A) (i : nat) (f : A -> A) : list A :=
  match l, i with
  | [], _ => []
  | x :: r, O => f x :: r
  | x :: r, S k => x :: upd r k f
  end.

Definition close_stream (c : conn) : conn := set_s c (s_with_srv_closed (k_s c)).
Definition close_target (c : conn) : conn := set_t c (t_with_closed (k_t c)).

(* a close acts on the resource it names, and is recorded *)
Definition do_close (a : actor) (s : sess) (r : res) : sess :=
  let s1 := with_log s (a, r) in
  match r with
  | RSess => with_closed s1
  | RStream j => with_conns s1 (upd (g_conns s1) j close_stream)
  | RTarget j => with_conns s1 (upd (g_conns s1) j close_target)
  end.

(* ---- what the two ends of a server-side pipe would do now *)
Definition is_alive (d : dstate) : bool := match d with Alive => true | _ => false end.

(* the multiplexer stream, server end: buffered data first, then the client's end-of-stream, then the session's own fate *)
Definition rd_down (d : dstate) (closed : bool) (c : conn) : rd :=
  if s_srv_closed (k_s c) then RErr
  else if s_c2s (k_s c) then RData
  else if s_cli_closed (k_s c) then REof
  else if closed then RErr
  else match d with Alive => RBlock | DeadEof => REof | DeadErr => RErr end.
Definition wr_down_ok (d : dstate) (closed : bool) (c : conn) : bool := negb (s_srv_closed (k_s c)) && negb closed && is_alive d.
Definition rd_up (c : conn) : rd :=
  if t_closed (k_t c) then RErr
  else if t_t2s (k_t c) then RData
  else if t_err (k_t c) then RErr
  else if t_eof (k_t c) then REof
  else RBlock.
Definition wr_up_ok (c : conn) : bool := negb (t_closed (k_t c)) && negb (t_err (k_t c)) && negb (t_eof (k_t c)).

(* ---- the handler goroutine of stream i: `go func(stream net.Conn) { if err := ch.multiplexToUpstream(stream); err != nil { ...; TryClose(stream) } }(stream)` *)
Inductive lockop := LKeep | LTake | LFree.
Record hout := { o_conn : conn; o_closes : list res; o_lock : lockop; o_slot : bool (* a slot is given back *) }.
Definition hout_plain (c : conn) : hout := {| o_conn := c; o_closes := []; o_lock := LKeep; o_slot := false |}.

Definition is_none {A} (o : option A) : bool := match o with None => true | Some _ => false end.

Definition closes_res (i : nat) (x : bool * bool) : list res :=
  (if fst x then [RStream i] else []) ++ (if snd x then [RTarget i] else []).

(* depends on: the connection's own record, the session's fate, (with the lock variant) whether the lock is free, (with the shared
   variable variant) which stream was accepted last *)
Definition h_local (sh : shape) (d : dstate) (closed : bool) (lock_free : bool) (last : option nat) (i : nat) (pick_up : bool) (c : conn) : option hout :=
  match k_h c with
  | HNone | HDone => None
  | HPeek =>
    if negb (is_none (s_prop (k_s c))) then Some (hout_plain (set_h c HNeg))
    else match rd_down d closed c with
         | REof | RErr => Some (hout_plain (set_h c (HDefer true)))       (* "Stream closed before protocol selection" *)
         | _ => None
         end
  | HNeg =>
    match s_prop (k_s c) with
    | Some served =>
      if negb (wr_down_ok d closed c) then Some (hout_plain (set_h (set_s c (s_with_prop (k_s c) None)) (HDefer true)))   (* the answer cannot be written *)
      else if served then Some (hout_plain (set_h (set_s c (s_ack (k_s c))) (if sh_dial_lock sh then HLock else HDial)))
      else Some (hout_plain (set_s c (s_na (k_s c))))                    (* "na", and the next proposal is awaited *)
    | None =>
      match rd_down d closed c with
      | REof | RErr => Some (hout_plain (set_h c (HDefer true)))
      | _ => None
      end
    end
  | HLock => if lock_free then Some {| o_conn := set_h c HDial; o_closes := []; o_lock := LTake; o_slot := false |} else None
  | HDial =>
    match k_fate c with
    | None => None
    | Some true => Some {| o_conn := set_h (set_p (set_t c (t_open (k_t c))) p_begin) HPipe; o_closes := [];
                           o_lock := if sh_dial_lock sh then LFree else LKeep; o_slot := false |}
    | Some false => Some {| o_conn := set_h (set_dialfail c) (HDefer true); o_closes := [];
                            o_lock := if sh_dial_lock sh then LFree else LKeep; o_slot := false |}
    end
  | HPipe =>
    match p_pc (k_p c) with
    | PRet e => Some {| o_conn := set_h c (HDefer e); o_closes := if sh_mh_closes_up sh then [RTarget i] else []; o_lock := LKeep; o_slot := false |}
    | _ => match sel_step sh pick_up (k_p c) with
           | Some (p', cl) => Some {| o_conn := set_p c p'; o_closes := closes_res i cl; o_lock := LKeep; o_slot := false |}
           | None => None
           end
    end
  | HDefer e =>
    Some {| o_conn := set_h c (if e then HErrClose else HDone);
            o_closes := if sh_defer_closes_own sh then [RStream i] else [];
            o_lock := LKeep;
            o_slot := negb (Nat.eqb (sh_slots sh) 0) && (negb e || sh_slot_release_err sh) |}
  | HErrClose =>
    Some {| o_conn := set_h c HDone;
            o_closes := [RStream (if sh_err_closes_own sh then i else match last with Some j => j | None => i end)];
            o_lock := LKeep; o_slot := false |}
  end.

Definition lock_free (s : sess) : bool := is_none (g_lock s).

Definition apply_hout (s : sess) (i : nat) (o : hout) : sess :=
  let s1 := with_conns s (upd (g_conns s) i (fun _ => o_conn o)) in
  let s2 := with_lock_slots s1 (match o_lock o with LKeep => g_lock s1 | LTake => Some i | LFree => None end)
                               (if o_slot o then Nat.pred (g_slots s1) else g_slots s1) in
  fold_left (do_close (AHand i)) (o_closes o) s2.

Definition hand_step (sh : shape) (s : sess) (i : nat) (pick_up : bool) : option sess :=
  match nth_error (g_conns s) i with
  | None => None
  | Some c => match h_local sh (g_dead s) (g_closed s) (lock_free s) (g_last s) i pick_up c with
              | Some o => Some (apply_hout s i o)
              | None => None
              end
  end.

(* ---- the copy goroutines of connection i *)
Definition cop_local (sh : shape) (d : dstate) (closed : bool) (sd : side) (c : conn) : option conn :=
  match sd with
  | Down =>
    match copier_step sh Down (rd_down d closed c) (wr_up_ok c) (k_p c) with
    | Some (p', e) =>
      let c1 := set_p c p' in
      Some (match e with
            | FNone => c1
            | FMove => set_t (set_s c1 (s_with_c2s (k_s c1) false)) (t_written (k_t c1))
            | FDrop => set_s c1 (s_with_c2s (k_s c1) false)
            end)
    | None => None
    end
  | Up =>
    match copier_step sh Up (rd_up c) (wr_down_ok d closed c) (k_p c) with
    | Some (p', e) =>
      let c1 := set_p c p' in
      Some (match e with
            | FNone => c1
            | FMove => set_s (set_t c1 (t_with_t2s (k_t c1) false)) (s_written (k_s c1))
            | FDrop => set_t c1 (t_with_t2s (k_t c1) false)
            end)
    | None => None
    end
  end.

Definition cop_step (sh : shape) (s : sess) (i : nat) (sd : side) : option sess :=
  match nth_error (g_conns s) i with
  | None => None
  | Some c => match cop_local sh (g_dead s) (g_closed s) sd c with
              | Some c' => Some (with_conns s (upd (g_conns s) i (fun _ => c')))
              | None => None
              end
  end.

(* ---- the accept loop: `for true { stream, err := ch.session.AcceptStream(); ... go func(stream) {...}(stream) }` *)
Definition is_hnone (c : conn) : bool := match k_h c with HNone => true | _ => false end.
Fixpoint first_pending (l : list conn) (i : nat) : option nat :=
  match l with
  | [] => None
  | c :: r => if is_hnone c then Some i else first_pending r (S i)
  end.

Definition acc_top (sh : shape) : apc := if Nat.eqb (sh_slots sh) 0 then AAccept else ASlot.

(* `prefer_err`: AcceptStream selects between a waiting stream and the session's error at random when both are there *)
Definition acc_step (sh : shape) (s : sess) (prefer_err : bool) : option sess :=
  match g_acc s with
  | AExited => None
  | ASlot => if Nat.ltb (g_slots s) (sh_slots sh) then Some (with_acc s AAccept (g_last s) (S (g_slots s))) else None
  | AAccept =>
    let failing := g_closed s || negb (is_alive (g_dead s)) in
    let pend := first_pending (g_conns s) 0 in
    if failing && (prefer_err || is_none pend) then
      if negb (g_closed s) && match g_dead s with DeadEof => true | _ => false end then
        Some (with_acc s (if sh_acc_quiet_returns sh then AExited else acc_top sh) (g_last s) (g_slots s))
      else
        let s1 := if sh_acc_err_closes_sess sh then do_close AAcc s RSess else s in
        Some (with_acc s1 (if sh_acc_err_returns sh then AExited else acc_top sh) (g_last s) (g_slots s))
    else
      match pend with
      | Some j => Some (with_acc (with_conns s (upd (g_conns s) j (fun c => set_h c HPeek))) (acc_top sh) (Some j) (g_slots s))
      | None => None
      end
  end.

(* ---- events: the environment, and the scheduler's choice of the goroutine that takes its next step *)
Inductive ev :=
| EOpen                          (* a client opens a stream *)
| ESelect (i : nat) (served : bool)   (* ... and proposes a channel that is / is not served *)
| EAppClose (i : nat)            (* the client closes its end of stream i *)
| EAppData (i : nat)             (* the client writes a chunk *)
| EDial (i : nat) (ok : bool)    (* the outcome of OpenConnection for connection i is decided *)
| ETgEof (i : nat)               (* the target hangs up *)
| ETgErr (i : nat)               (* the target connection fails *)
| ETgData (i : nat)              (* the target writes a chunk *)
| EDie (orderly : bool)          (* the carrier ends: orderly (io.EOF) or not (cut, garbage) *)
| SAccept (prefer_err : bool)
| SHand (i : nat) (pick_up : bool)
| SCopy (i : nat) (sd : side).

Definition env_conn (s : sess) (i : nat) (f : conn -> option conn) : option sess :=
  match nth_error (g_conns s) i with
  | None => None
  | Some c => match f c with Some c' => Some (with_conns s (upd (g_conns s) i (fun _ => c'))) | None => None end
  end.

Definition step_opt (sh : shape) (s : sess) (e : ev) : option sess :=
  match e with
  | EOpen => if is_alive (g_dead s) && negb (g_closed s) then Some (with_conns s (g_conns s ++ [k_new])) else None
  | ESelect i b =>
    if is_alive (g_dead s) && negb (g_closed s) then
      env_conn s i (fun c => if is_none (s_prop (k_s c)) && negb (s_cli_closed (k_s c)) && negb (s_acked (k_s c))
                             then Some (set_s c (s_with_prop (k_s c) (Some b))) else None)
    else None
  | EAppClose i => env_conn s i (fun c => if s_cli_closed (k_s c) then None else Some (set_s c (s_with_cli_closed (k_s c))))
  | EAppData i =>
    if is_alive (g_dead s) && negb (g_closed s) then
      env_conn s i (fun c => if s_acked (k_s c) && negb (s_cli_closed (k_s c)) then Some (set_s c (s_with_c2s (k_s c) true)) else None)
    else None
  | EDial i b => env_conn s i (fun c => if is_none (k_fate c) then Some (set_fate c (Some b)) else None)
  | ETgEof i => env_conn s i (fun c => if t_ex (k_t c) && negb (t_eof (k_t c)) && negb (t_err (k_t c)) then Some (set_t c (t_with_eof (k_t c))) else None)
  | ETgErr i => env_conn s i (fun c => if t_ex (k_t c) && negb (t_err (k_t c)) then Some (set_t c (t_with_err (k_t c))) else None)
  | ETgData i => env_conn s i (fun c => if t_ex (k_t c) && negb (t_eof (k_t c)) && negb (t_err (k_t c)) && negb (t_closed (k_t c))
                                        then Some (set_t c (t_with_t2s (k_t c) true)) else None)
  | EDie orderly => if is_alive (g_dead s) then Some (with_dead s (if orderly then DeadEof else DeadErr)) else None
  | SAccept b => acc_step sh s b
  | SHand i b => hand_step sh s i b
  | SCopy i sd => cop_step sh s i sd
  end.

Definition step (sh : shape) (s : sess) (e : ev) : sess := match step_opt sh s e with Some s' => s' | None => s end.
Definition run_from (sh : shape) (s : sess) (evs : list ev) : sess := fold_left (step sh) evs s.
Definition run (sh : shape) (evs : list ev) : sess := run_from sh (g_new sh) evs.
Definition enabled (sh : shape) (s : sess) (e : ev) : bool := negb (is_none (step_opt sh s e)).

(* the connection an event belongs to *)
Definition ev_conn (e : ev) : option nat :=
  match e with
  | ESelect i _ | EAppClose i | EAppData i | EDial i _ | ETgEof i | ETgErr i | ETgData i | SHand i _ | SCopy i _ => Some i
  | EOpen | EDie _ | SAccept _ => None
  end.
Definition is_sched (e : ev) : bool := match e with SAccept _ | SHand _ _ | SCopy _ _ => true | _ => false end.

(* ---- quiescence, footprint *)
Definition conn_quiet (sh : shape) (s : sess) (i : nat) : bool :=
  is_none (hand_step sh s i false) && is_none (hand_step sh s i true) && is_none (cop_step sh s i Down) && is_none (cop_step sh s i Up).
Definition quiet (sh : shape) (s : sess) : bool :=
  is_none (acc_step sh s false) && is_none (acc_step sh s true) && forallb (conn_quiet sh s) (seq 0 (List.length (g_conns s))).

Definition h_live (c : conn) : bool := match k_h c with HNone | HDone => false | _ => true end.
Definition goroutines_of (c : conn) : nat :=
  (if h_live c then 1 else 0) + (if cop_live (p_cd (k_p c)) then 1 else 0) + (if cop_live (p_cu (k_p c)) then 1 else 0).
Definition stream_held (c : conn) : bool := negb (is_hnone c) && negb (s_srv_closed (k_s c)).
Definition target_held (c : conn) : bool := t_ex (k_t c) && negb (t_closed (k_t c)).
(* ... a target connection that is still held although its target has hung up and nobody will use it again *)
Definition target_left_to_gc (c : conn) : bool := target_held c && t_eof (k_t c) && negb (h_live c).
Definition sum_nat (l : list nat) : nat := fold_right Nat.add 0 l.
Definition count (f : conn -> bool) (l : list conn) : nat := List.length (filter f l).
Definition footprint (s : sess) : nat :=
  (match g_acc s with AExited => 0 | _ => 1 end) + sum_nat (map goroutines_of (g_conns s)) + count stream_held (g_conns s) +
  count (fun c => target_held c && negb (target_left_to_gc c)) (g_conns s).

(* why a logical connection is over *)
Definition ended (s : sess) (c : conn) : bool :=
  s_cli_closed (k_s c) || negb (is_alive (g_dead s)) || g_closed s || t_eof (k_t c) || t_err (k_t c) || k_dialfail c.
(* a dial that has not returned yet keeps its goroutine inside OpenConnection whatever else happens *)
Definition dial_settled (c : conn) : bool := match k_h c with HDial => negb (is_none (k_fate c)) | _ => true end.
Definition released (sh : shape) (c : conn) : bool :=
  match k_h c with HDone => true | _ => false end && negb (cop_live (p_cd (k_p c))) && negb (cop_live (p_cu (k_p c))) &&
  s_srv_closed (k_s c) && (negb (target_held c) || (negb (sh_mh_closes_up sh) && t_eof (k_t c))).

(* ---- run every goroutine until nothing moves (a fixed order; used by the correspondence scripts, whose outcomes do not depend on it) *)
Fixpoint first_enabled (sh : shape) (s : sess) (cands : list ev) : option sess :=
  match cands with
  | [] => None
  | e :: r => match step_opt sh s e with Some s' => Some s' | None => first_enabled sh s r end
  end.
Definition sched_cands (s : sess) : list ev :=
  SAccept false :: flat_map (fun i => [SHand i false; SCopy i Down; SCopy i Up]) (seq 0 (List.length (g_conns s))).
Fixpoint settle (sh : shape) (fuel : nat) (s : sess) : sess :=
  match fuel with
  | O => s
  | S f => match first_enabled sh s (sched_cands s) with Some s' => settle sh f s' | None => s end
  end.
Definition settle_fuel (s : sess) : nat := 40 + 24 * List.length (g_conns s).
Definition env_then_settle (sh : shape) (s : sess) (e : ev) : sess := let s1 := step sh s e in settle sh (settle_fuel s1) s1.

(* ================================================================================================================================
   The client: one local connection handled by listener.HandleConnection (ConnectDirectly first when a forward address is configured) *)
Inductive lpc :=
| LFwd                   (* ConnectDirectly: net.Dial(forward) *)
| LConnect               (* Upstreams.Connect: the session and the stream are opened, the proposal is written *)
| LWait                  (* ... ms.SelectProtoOrFail waits for the answer *)
| LPipe (direct : bool)  (* inside streams.PipeData *)
| LClose (up_held : bool)  (* HandleConnection's last two statements: TryClose(up); TryClose(conn) *)
| LDClose                (* ConnectDirectly returns: its deferred closes of both ends *)
| LDone.

Record lend := { e_ex : bool; e_closed : bool; e_eof : bool; e_err : bool; e_data : bool; e_n : nat }.
Definition e_new (ex : bool) : lend := {| e_ex := ex; e_closed := false; e_eof := false; e_err := false; e_data := false; e_n := 0 |}.
Definition e_open (e : lend) : lend := {| e_ex := true; e_closed := e_closed e; e_eof := e_eof e; e_err := e_err e; e_data := e_data e; e_n := e_n e |}.
Definition e_close (e : lend) : lend := {| e_ex := e_ex e; e_closed := e_ex e; e_eof := e_eof e; e_err := e_err e; e_data := e_data e; e_n := e_n e |}.
Definition e_with_eof (e : lend) : lend := {| e_ex := e_ex e; e_closed := e_closed e; e_eof := true; e_err := e_err e; e_data := e_data e; e_n := e_n e |}.
Definition e_with_err (e : lend) : lend := {| e_ex := e_ex e; e_closed := e_closed e; e_eof := e_eof e; e_err := true; e_data := e_data e; e_n := e_n e |}.
Definition e_with_data (e : lend) (b : bool) : lend := {| e_ex := e_ex e; e_closed := e_closed e; e_eof := e_eof e; e_err := e_err e; e_data := b; e_n := e_n e |}.
Definition e_written (e : lend) : lend := {| e_ex := e_ex e; e_closed := e_closed e; e_eof := e_eof e; e_err := e_err e; e_data := e_data e; e_n := S (e_n e) |}.
Definition e_rd (e : lend) : rd :=
  if e_closed e then RErr else if e_data e then RData else if e_err e then RErr else if e_eof e then REof else RBlock.
Definition e_wr_ok (e : lend) : bool := e_ex e && negb (e_closed e) && negb (e_err e) && negb (e_eof e).

Record lconn := {
  l_pc : lpc;
  l_p : pcall;
  l_app : lend;                  (* the local application's connection (PipeData's `down`) *)
  l_upc : lend;                  (* the multiplexer stream, client end - or the forward target (PipeData's `up`) *)
  l_fwd : option bool;           (* outcome of the forward dial *)
  l_conn : option bool;          (* can a stream be opened on the session? *)
  l_answer : option bool;        (* the server's answer to the proposal *)
  l_direct : bool                (* ConnectDirectly took the connection (it is piped to the forward address, not into the tunnel) *)
}.
Definition l_new (forward : bool) : lconn :=
  {| l_pc := if forward then LFwd else LConnect; l_p := p_idle; l_app := e_new true; l_upc := e_new false; l_fwd := None; l_conn := None; l_answer := None; l_direct := false |}.
Definition lset_pc (l : lconn) (x : lpc) : lconn := {| l_pc := x; l_p := l_p l; l_app := l_app l; l_upc := l_upc l; l_fwd := l_fwd l; l_conn := l_conn l; l_answer := l_answer l; l_direct := l_direct l |}.
Definition lset_p (l : lconn) (p : pcall) : lconn := {| l_pc := l_pc l; l_p := p; l_app := l_app l; l_upc := l_upc l; l_fwd := l_fwd l; l_conn := l_conn l; l_answer := l_answer l; l_direct := l_direct l |}.
Definition lset_app (l : lconn) (e : lend) : lconn := {| l_pc := l_pc l; l_p := l_p l; l_app := e; l_upc := l_upc l; l_fwd := l_fwd l; l_conn := l_conn l; l_answer := l_answer l; l_direct := l_direct l |}.
Definition lset_upc (l : lconn) (e : lend) : lconn := {| l_pc := l_pc l; l_p := l_p l; l_app := l_app l; l_upc := e; l_fwd := l_fwd l; l_conn := l_conn l; l_answer := l_answer l; l_direct := l_direct l |}.
Definition lset_fwd (l : lconn) (x : option bool) : lconn := {| l_pc := l_pc l; l_p := l_p l; l_app := l_app l; l_upc := l_upc l; l_fwd := x; l_conn := l_conn l; l_answer := l_answer l; l_direct := l_direct l |}.
Definition lset_conn (l : lconn) (x : option bool) : lconn := {| l_pc := l_pc l; l_p := l_p l; l_app := l_app l; l_upc := l_upc l; l_fwd := l_fwd l; l_conn := x; l_answer := l_answer l; l_direct := l_direct l |}.
Definition lset_answer (l : lconn) (x : option bool) : lconn := {| l_pc := l_pc l; l_p := l_p l; l_app := l_app l; l_upc := l_upc l; l_fwd := l_fwd l; l_conn := l_conn l; l_answer := x; l_direct := l_direct l |}.

Definition lset_direct (l : lconn) : lconn := {| l_pc := l_pc l; l_p := l_p l; l_app := l_app l; l_upc := l_upc l; l_fwd := l_fwd l; l_conn := l_conn l; l_answer := l_answer l; l_direct := true |}.

Inductive lev :=
| LAppClose | LAppErr | LAppData     (* the local application closes / its connection fails / it writes *)
| LUpEof | LUpErr | LUpData          (* the far side closes its end of the stream (or the forward target hangs up) / the session dies / data arrives *)
| LFwdFate (ok : bool) | LConnFate (ok : bool) | LAnswer (ok : bool)
| LHand (pick_up : bool) | LCopy (sd : side).

Definition lclose (l : lconn) (x : bool * bool) : lconn :=
  let l1 := if fst x then lset_app l (e_close (l_app l)) else l in
  if snd x then lset_upc l1 (e_close (l_upc l1)) else l1.

Definition l_hand (sh : shape) (pick_up : bool) (l : lconn) : option lconn :=
  match l_pc l with
  | LFwd => match l_fwd l with
            | None => None
            | Some true => Some (lset_direct (lset_pc (lset_p (lset_upc l (e_open (l_upc l))) p_begin) (LPipe true)))
            | Some false => Some (lset_pc l LConnect)
            end
  | LConnect => match l_conn l with
                | None => None
                | Some true => Some (lset_pc (lset_upc l (e_open (l_upc l))) LWait)
                | Some false => Some (lset_pc l (LClose false))
                end
  | LWait =>
    match l_answer l with
    | Some true => Some (lset_pc (lset_p l p_begin) (LPipe false))
    | Some false => Some (lset_pc (if sh_refused_closed sh then lset_upc l (e_close (l_upc l)) else l) (LClose false))
    | None => match e_rd (l_upc l) with
              | REof | RErr => Some (lset_pc (if sh_refused_closed sh then lset_upc l (e_close (l_upc l)) else l) (LClose false))
              | _ => None
              end
    end
  | LPipe direct =>
    match p_pc (l_p l) with
    | PRet _ => Some (lset_pc l (if direct then LDClose else LClose true))
    | _ => match sel_step sh pick_up (l_p l) with
           | Some (p', cl) => Some (lclose (lset_p l p') cl)
           | None => None
           end
    end
  | LClose up_held => Some (lset_pc (lclose l (sh_lst_closes_conn sh, up_held && sh_lst_closes_up sh)) LDone)
  | LDClose => Some (lset_pc (lclose l (sh_dir_closes_conn sh, sh_dir_closes_up sh)) LDone)
  | LDone => None
  end.

Definition l_copy (sh : shape) (sd : side) (l : lconn) : option lconn :=
  match sd with
  | Down =>
    match copier_step sh Down (e_rd (l_app l)) (e_wr_ok (l_upc l)) (l_p l) with
    | Some (p', e) =>
      let l1 := lset_p l p' in
      Some (match e with
            | FNone => l1
            | FMove => lset_upc (lset_app l1 (e_with_data (l_app l1) false)) (e_written (l_upc l1))
            | FDrop => lset_app l1 (e_with_data (l_app l1) false)
            end)
    | None => None
    end
  | Up =>
    match copier_step sh Up (e_rd (l_upc l)) (e_wr_ok (l_app l)) (l_p l) with
    | Some (p', e) =>
      let l1 := lset_p l p' in
      Some (match e with
            | FNone => l1
            | FMove => lset_app (lset_upc l1 (e_with_data (l_upc l1) false)) (e_written (l_app l1))
            | FDrop => lset_upc l1 (e_with_data (l_upc l1) false)
            end)
    | None => None
    end
  end.

Definition lstep_opt (sh : shape) (l : lconn) (e : lev) : option lconn :=
  match e with
  | LAppClose => if e_eof (l_app l) then None else Some (lset_app l (e_with_eof (l_app l)))
  | LAppErr => if e_err (l_app l) then None else Some (lset_app l (e_with_err (l_app l)))
  | LAppData => if e_eof (l_app l) || e_err (l_app l) || e_closed (l_app l) then None else Some (lset_app l (e_with_data (l_app l) true))
  | LUpEof => if e_ex (l_upc l) && negb (e_eof (l_upc l)) then Some (lset_upc l (e_with_eof (l_upc l))) else None
  | LUpErr => if e_ex (l_upc l) && negb (e_err (l_upc l)) then Some (lset_upc l (e_with_err (l_upc l))) else None
  | LUpData => if e_ex (l_upc l) && negb (e_eof (l_upc l)) && negb (e_err (l_upc l)) && negb (e_closed (l_upc l)) &&
                  (l_direct l || match l_answer l with Some true => true | _ => false end)      (* payload follows the acknowledgement *)
               then Some (lset_upc l (e_with_data (l_upc l) true)) else None
  | LFwdFate b => if is_none (l_fwd l) then Some (lset_fwd l (Some b)) else None
  | LConnFate b => if is_none (l_conn l) then Some (lset_conn l (Some b)) else None
  | LAnswer b => if is_none (l_answer l) then Some (lset_answer l (Some b)) else None
  | LHand b => l_hand sh b l
  | LCopy sd => l_copy sh sd l
  end.
Definition lstep (sh : shape) (l : lconn) (e : lev) : lconn := match lstep_opt sh l e with Some l' => l' | None => l end.
Definition lrun (sh : shape) (l : lconn) (evs : list lev) : lconn := fold_left (lstep sh) evs l.

Definition l_quiet (sh : shape) (l : lconn) : bool :=
  is_none (l_hand sh false l) && is_none (l_hand sh true l) && is_none (l_copy sh Down l) && is_none (l_copy sh Up l).
Definition l_post (x : lpc) : bool := match x with LClose _ | LDClose | LDone => true | _ => false end.
(* why a local connection is over: either side hung up or failed, or HandleConnection is past its PipeData (refused, no session, piped to the end) *)
Definition l_ended (l : lconn) : bool :=
  e_eof (l_app l) || e_err (l_app l) || e_eof (l_upc l) || e_err (l_upc l) || l_post (l_pc l).
(* a dial, a session set-up or a channel selection that is still in flight keeps its goroutine whatever else happens *)
Definition l_settled (l : lconn) : bool :=
  match l_pc l with
  | LFwd => negb (is_none (l_fwd l))
  | LConnect => negb (is_none (l_conn l))
  | LWait => negb (is_none (l_answer l)) || e_eof (l_upc l) || e_err (l_upc l)
  | _ => true
  end.
Definition l_goroutines (l : lconn) : nat :=
  (match l_pc l with LDone => 0 | _ => 1 end) + (if cop_live (p_cd (l_p l)) then 1 else 0) + (if cop_live (p_cu (l_p l)) then 1 else 0).
(* both ends closed, every goroutine gone *)
Definition l_released (l : lconn) : bool :=
  match l_pc l with LDone => true | _ => false end && negb (cop_live (p_cd (l_p l))) && negb (cop_live (p_cu (l_p l))) &&
  e_closed (l_app l) && (negb (e_ex (l_upc l)) || e_closed (l_upc l)).
(* what ConnectDirectly gave before it closed anything itself (PipeData alone): every goroutine gone, and an end still open only if it is
   the one whose peer hung up first *)
Definition l_released_direct (l : lconn) : bool :=
  match l_pc l with LDone => true | _ => false end && negb (cop_live (p_cd (l_p l))) && negb (cop_live (p_cu (l_p l))) &&
  (e_closed (l_app l) || e_eof (l_app l)) && (e_closed (l_upc l) || e_eof (l_upc l)).

Fixpoint lsettle (sh : shape) (fuel : nat) (l : lconn) : lconn :=
  match fuel with
  | O => l
  | S f => match l_hand sh false l with
           | Some l' => lsettle sh f l'
           | None => match l_copy sh Down l with
                     | Some l' => lsettle sh f l'
                     | None => match l_copy sh Up l with Some l' => lsettle sh f l' | None => l end
                     end
           end
  end.
