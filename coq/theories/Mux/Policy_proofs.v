From Coq Require Import String List NArith ZArith Bool Arith Lia.
From SA Require Import Base.Tok Mux.Policy.
Import ListNotations.
Local Open Scope nat_scope.

(* the upstreams before index i that a failed attempt still reaches, plus i itself *)
Definition touched (must : bool) (ups : list behaviour) (i : nat) : list nat :=
  map fst (filter (fun ib => touches (snd ib)) (combine (seq 0 i) (firstn i ups))) ++ [i].

Lemma direct_first must ups s evs :
  let (s', rs) := run must FOk ups s evs in
  phys s' = phys s /\ Forall (fun r => r = RFwd \/ r = RCut) rs.
Proof.
  revert s; induction evs as [|e evs IH]; intros s; cbn [run].
  - split; [reflexivity | constructor].
  - destruct e; cbn [step].
    + specialize (IH s). destruct (run must FOk ups s evs) as [s2 xs]. destruct IH as [H1 H2]. split; [exact H1 | constructor; [left; reflexivity | exact H2]].
    + specialize (IH {| session := session s; alive := false; phys := phys s |}).
      destruct (run must FOk ups _ evs) as [s2 xs]. destruct IH as [H1 H2]. split; [exact H1 | constructor; [right; reflexivity | exact H2]].
Qed.

Lemma open_from_shift must ups i :
  open_from must ups (S i) = (let (r, t) := open_from must ups i in (option_map S r, map S t)).
Proof.
  revert i; induction ups as [|b ups IH]; intros i; cbn; [reflexivity|].
  destruct (connect_ok must b); [reflexivity|].
  rewrite (IH (S i)). destruct (open_from must ups (S i)) as [r t]. cbn. destruct (touches b); reflexivity.
Qed.

Lemma touched_S must b ups i :
  touched must (b :: ups) (S i) = (if touches b then [0] else []) ++ map S (touched must ups i).
Proof.
  unfold touched. cbn [firstn seq]. rewrite <- seq_shift. cbn [combine].
  cbn [filter snd]. rewrite map_app. cbn [map].
  assert (E : map fst (filter (fun ib : nat * behaviour => touches (snd ib)) (combine (map S (seq 0 i)) (firstn i ups)))
              = map S (map fst (filter (fun ib : nat * behaviour => touches (snd ib)) (combine (seq 0 i) (firstn i ups))))).
  { generalize (seq 0 i) (firstn i ups). intros l1; induction l1 as [|x l1 IH]; intros [|y l2]; cbn; try reflexivity.
    destruct (touches y); cbn; rewrite IH; reflexivity. }
  destruct (touches b); cbn [map fst app]; rewrite E; reflexivity.
Qed.

Lemma first_good must ups i t :
  open_from must ups 0 = (Some i, t) <->
  (exists b, nth_error ups i = Some b /\ connect_ok must b = true) /\
  (forall k b, k < i -> nth_error ups k = Some b -> connect_ok must b = false) /\ t = touched must ups i.
Proof.
  revert i t; induction ups as [|b ups IH]; intros i t; cbn [open_from].
  - split; [discriminate|]. intros [[b [H _]] _]. destruct i; discriminate.
  - destruct (connect_ok must b) eqn:E.
    + split.
      * intros H; inversion H; subst. split; [exists b; split; [reflexivity | exact E]|]. split; [intros k b' Hk; lia | reflexivity].
      * intros [[b' [Hn Hc]] [Hmin Ht]]. destruct i.
        -- subst t. reflexivity.
        -- exfalso. specialize (Hmin 0 b (Nat.lt_0_succ _) eq_refl). rewrite E in Hmin; discriminate.
    + rewrite open_from_shift. destruct (open_from must ups 0) as [r t0] eqn:O. cbn.
      split.
      * intros H. destruct r as [j|]; cbn in H; [|destruct (touches b); discriminate].
        assert (Hi : i = S j) by (destruct (touches b); inversion H; reflexivity). subst i.
        destruct (proj1 (IH j t0) eq_refl) as [[b' [Hn Hc]] [Hmin Ht]].
        split; [exists b'; split; assumption|]. split.
        -- intros k b'' Hk Hn'. destruct k; [inversion Hn'; subst; exact E | apply (Hmin k b''); [lia | exact Hn']].
        -- rewrite touched_S. rewrite <- Ht. destruct (touches b); inversion H; reflexivity.
      * intros [[b' [Hn Hc]] [Hmin Ht]]. destruct i; [cbn in Hn; inversion Hn; subst; rewrite E in Hc; discriminate|].
        cbn in Hn.
        assert (Hj : (r, t0) = (Some i, touched must ups i)).
        { apply IH. split; [exists b'; split; assumption|]. split; [|reflexivity].
          intros k b'' Hk Hn'. apply (Hmin (S k) b''); [lia | exact Hn']. }
        rewrite touched_S in Ht. inversion Hj; subst. cbn [option_map]. destruct (touches b); reflexivity.
Qed.

Lemma none_good must ups t :
  open_from must ups 0 = (None, t) -> forall k b, nth_error ups k = Some b -> connect_ok must b = false.
Proof.
  revert t; induction ups as [|b ups IH]; intros t; cbn [open_from]; [intros _ [|k] b; discriminate|].
  destruct (connect_ok must b) eqn:E; [discriminate|].
  rewrite open_from_shift. destruct (open_from must ups 0) as [r t0] eqn:O. cbn.
  destruct r; cbn; [destruct (touches b); discriminate|]. intros _ k b' Hn.
  destruct k; [inversion Hn; subst; exact E | apply (IH t0 eq_refl k b' Hn)].
Qed.

Lemma single_session must f ups s i k :
  f <> FOk -> session s = Some i -> alive s = true ->
  let (s', rs) := run must f ups s (repeat EConn k) in
  s' = s /\ rs = repeat (RUp i) k.
Proof.
  intros Hf Hs Ha. induction k as [|k IH]; cbn [repeat run]; [split; reflexivity|].
  cbn [step]. destruct f; [| exfalso; apply Hf; reflexivity |]; rewrite Hs, Ha;
    destruct (run must _ ups s (repeat EConn k)) as [s2 xs]; destruct IH as [H1 H2]; subst; split; reflexivity.
Qed.

Lemma reconnect must f ups s :
  f <> FOk ->
  snd (step must f ups (fst (step must f ups s ECut)) EConn) = snd (step must f ups {| session := None; alive := false; phys := phys s |} EConn).
Proof.
  intros Hf. cbn [step fst]. destruct f; [| exfalso; apply Hf; reflexivity |]; cbn;
    destruct (session s); destruct (open_from must ups 0) as [[j|] t]; reflexivity.
Qed.

Lemma open_bounded must ups i : List.length (snd (open_from must ups i)) <= List.length ups.
Proof.
  revert i; induction ups as [|b ups IH]; intros i; cbn; [lia|].
  destruct (connect_ok must b); cbn; [lia|].
  specialize (IH (S i)). destruct (open_from must ups (S i)) as [r t]. cbn in *. destruct (touches b); cbn; lia.
Qed.
