(* C01: the websocket byte-stream adapter (internal/streams/websockettunnel_connection.go).
   Write cuts the caller's bytes into binary messages of at most BufferSize octets; Read hands out what is left of the previous
   message first and otherwise takes the next whole message, keeping what does not fit the caller's buffer.
   The websocket library is represented by a FIFO of whole messages (hypothesis: gorilla/websocket delivers binary messages
   complete and in order). Generic in the element type: the theorems are about positions, not values. *)
From Coq Require Import List Arith Lia.
Import ListNotations.

Section Adapter.
Variable A : Type.
Variable bufsize : nat.          (* buffers.BufferSize *)

(* Write: for { if len(p) > BufferSize { send p[:BufferSize]; p = p[BufferSize:] } else { send p; break } } *)
Fixpoint ws_write (fuel : nat) (p : list A) : list (list A) :=
  match fuel with
  | O => [p]
  | S f => if Nat.ltb bufsize (length p) then firstn bufsize p :: ws_write f (skipn bufsize p) else [p]
  end.

Definition write_fuel (p : list A) : nat := length p.   (* every round removes bufsize >= 1 octets *)

(* the receiving adapter: the rest of a message that did not fit the reader's buffer, and the messages not yet taken *)
Record rstate := { pending : list A; queue : list (list A) }.

(* Read(p) with len(p) = n; None: no message available (the real call would block) *)
Definition ws_read (s : rstate) (n : nat) : option (list A * rstate) :=
  match pending s with
  | _ :: _ => Some (firstn n (pending s), {| pending := skipn n (pending s); queue := queue s |})
  | [] =>
    match queue s with
    | [] => None
    | m :: q => Some (firstn n m, {| pending := skipn n m; queue := q |})
    end
  end.

(* a sequence of reads with the given buffer sizes; stops at the first read that would block *)
Fixpoint ws_reads (s : rstate) (ns : list nat) : list (list A) * rstate :=
  match ns with
  | [] => ([], s)
  | n :: r =>
    match ws_read s n with
    | None => ([], s)
    | Some (out, s') => let (outs, s'') := ws_reads s' r in (out :: outs, s'')
    end
  end.

Definition content (s : rstate) : list A := pending s ++ concat (queue s).

(* the version before the repair 4e88db5: a message larger than the caller's buffer was dropped with an error *)
Definition ws_read_old (s : rstate) (n : nat) : option (option (list A) * rstate) :=
  match queue s with
  | [] => None
  | m :: q => if Nat.ltb n (length m) then Some (None, {| pending := []; queue := q |})
              else Some (Some m, {| pending := []; queue := q |})
  end.

End Adapter.

Arguments ws_write {A}.
Arguments write_fuel {A}.
Arguments ws_read {A}.
Arguments ws_reads {A}.
Arguments content {A}.
Arguments pending {A}.
Arguments queue {A}.
Arguments Build_rstate {A}.
Arguments ws_read_old {A}.

(* ---- harness protocol:  c01ws <nw> w1..wnw <nr> r1..rnr   (write sizes, then the reader's buffer sizes)
   -> reads <l1> .. <lk> left <octets written and not yet read> same 1
   The octets themselves do not matter for the lengths: the model runs over unit. *)
From Coq Require Import ZArith String.
From SA Require Import Base.Tok.

Definition ws_bufsize : nat := Z.to_nat 32768.

Fixpoint take_nats (n : nat) (ts : list tok) : list nat * list tok :=
  match n, ts with
  | S k, TI z :: r => let (l, rest) := take_nats k r in (Z.to_nat z :: l, rest)
  | _, _ => ([], ts)
  end.

Definition dispatch_c01ws (ts : list tok) : list tok :=
  match ts with
  | _ :: TI nw :: r1 =>
    let (ws, r2) := take_nats (Z.to_nat nw) r1 in
    match r2 with
    | TI nr :: r3 =>
      let (rs, _) := take_nats (Z.to_nat nr) r3 in
      let msgs := flat_map (fun n => let p := repeat tt n in ws_write ws_bufsize (write_fuel p) p) ws in
      let (outs, s') := ws_reads {| pending := []; queue := msgs |} rs in
      [W "reads"] ++ List.map (fun o => Tnat (List.length o)) outs ++ [W "left"; Tnat (List.length (content s')); W "same"; TI 1]
    | _ => [W "model-error"]
    end
  | _ => [W "model-error"]
  end.
