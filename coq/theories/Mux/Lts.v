(* Finite labelled transition systems: a computed closure that contains the initial state and is closed under the step
   relation contains every reachable state; properties of reachable states then follow from a check over the closure. *)
From Coq Require Import List Bool.
Import ListNotations.

Section LTS.
  Variable S : Type.
  Variable eqb : S -> S -> bool.
  Hypothesis eqb_spec : forall a b, eqb a b = true <-> a = b.
  Variable next : S -> list S.          (* all successor states *)
  Variable init : S.

  Inductive reachable : S -> Prop :=
  | r_init : reachable init
  | r_step : forall s t, reachable s -> In t (next s) -> reachable t.

  Definition mem (x : S) (l : list S) : bool := existsb (eqb x) l.
  Lemma mem_in x l : mem x l = true <-> In x l.
  Proof.
    unfold mem. rewrite existsb_exists. split.
    - intros [y [Hy E]]. apply eqb_spec in E. subst; exact Hy.
    - intros H. exists x. split; [exact H | apply eqb_spec; reflexivity].
  Qed.

  Fixpoint nodup_b (l : list S) : list S :=
    match l with
    | [] => []
    | x :: r => if mem x r then nodup_b r else x :: nodup_b r
    end.

  (* breadth-first closure with fuel *)
  Fixpoint close (fuel : nat) (seen frontier : list S) : list S :=
    match fuel with
    | O => seen
    | Datatypes.S f =>
      let new := filter (fun t => negb (mem t seen)) (nodup_b (flat_map next frontier)) in
      match new with
      | [] => seen
      | _ => close f (seen ++ new) new
      end
    end.

  Definition closed (l : list S) : bool := mem init l && forallb (fun s => forallb (fun t => mem t l) (next s)) l.

  Lemma closed_reachable l : closed l = true -> forall s, reachable s -> In s l.
  Proof.
    unfold closed. intros H. apply andb_prop in H as [Hi Hc]. rewrite forallb_forall in Hc.
    intros s Hr. induction Hr as [|s t Hr IH Ht].
    - apply mem_in; exact Hi.
    - specialize (Hc s IH). rewrite forallb_forall in Hc. apply mem_in. apply Hc. exact Ht.
  Qed.

  Lemma check_all l (P : S -> bool) :
    closed l = true -> forallb P l = true -> forall s, reachable s -> P s = true.
  Proof. intros Hc Hp s Hr. rewrite forallb_forall in Hp. apply Hp. apply (closed_reachable l Hc s Hr). Qed.
End LTS.
