From Coq Require Import String List NArith ZArith Bool Arith Lia.
From SA Require Import Base.Tok Mux.Accept.
Import ListNotations.
Local Open Scope nat_scope.

(* number of items waiting before position j *)
Definition pending_before (l : list item) (j : nat) : nat :=
  length (filter (fun x => match x with Pending => true | _ => false end) (firstn j l)).

(* ---------- concrete sanity checks ---------- *)
Example ex_spawned :
  let s := {| lp := LWaiting; items := [Served; Pending; Finished; Pending; Pending]; dead := false |} in
  (pending_before (items s) 4, is_served (iter_loop true false 3 s) 4, is_served (iter_loop true false 2 s) 4)
  = (2, true, false).
Proof. vm_compute. reflexivity. Qed.

Example ex_inline :
  let s := arun false true [SEnv Arrive; SEnv Arrive; SLoop] in
  (nth_error (items s) 1, is_served (iter_loop false true 7 s) 1, lp s) = (Some Pending, false, LHandling 0).
Proof. vm_compute. reflexivity. Qed.

(* ---------- helpers ---------- *)
Lemma first_pending_S : forall l i, first_pending l (S i) = option_map S (first_pending l i).
Proof.
  induction l as [|a r IH]; intros i; simpl; [reflexivity|].
  destruct a; simpl; auto.
Qed.

Lemma nth_error_set_item_same : forall l i x y,
  nth_error l i = Some y -> nth_error (set_item l i x) i = Some x.
Proof.
  induction l as [|a r IH]; intros i x y H; destruct i; simpl in *; try discriminate; eauto.
Qed.

Lemma nth_error_set_item_other : forall l i k x,
  i <> k -> nth_error (set_item l k x) i = nth_error l i.
Proof.
  induction l as [|a r IH]; intros i k x H; destruct k; destruct i; simpl; auto; try congruence.
Qed.

Lemma length_set_item : forall l i x, length (set_item l i x) = length l.
Proof.
  induction l as [|a r IH]; intros i x; destruct i; simpl; auto.
Qed.

Lemma pending_before_cons_S : forall a r j,
  pending_before (a :: r) (S j) =
  (match a with Pending => 1 | _ => 0 end) + pending_before r j.
Proof.
  intros a r j. unfold pending_before. simpl. destruct a; simpl; reflexivity.
Qed.

(* the heart of lemma 1: what the first pending item is relative to a given pending position j *)
Lemma fp_step : forall l j,
  nth_error l j = Some Pending ->
  exists k, first_pending l 0 = Some k /\
    ((k = j /\ pending_before l j = 0) \/
     (k < j /\ nth_error (set_item l k Served) j = Some Pending /\
      S (pending_before (set_item l k Served) j) = pending_before l j)).
Proof.
  induction l as [|a r IH]; intros j H.
  - destruct j; discriminate.
  - destruct j as [|j'].
    + simpl in H. inversion H; subst a. exists 0. split; [reflexivity|].
      left. split; reflexivity.
    + simpl in H. destruct a.
      * exists 0. split; [reflexivity|]. right. split; [lia|]. split.
        -- simpl. exact H.
        -- simpl set_item. rewrite !pending_before_cons_S. lia.
      * destruct (IH j' H) as [k [Hk Hc]].
        exists (S k). split.
        -- simpl. rewrite first_pending_S, Hk. reflexivity.
        -- destruct Hc as [[E P]|[L [N P]]].
           ++ left. split; [congruence|]. rewrite pending_before_cons_S. simpl. exact P.
           ++ right. split; [lia|]. split; [simpl; exact N|].
              simpl set_item. rewrite !pending_before_cons_S. simpl. exact P.
      * destruct (IH j' H) as [k [Hk Hc]].
        exists (S k). split.
        -- simpl. rewrite first_pending_S, Hk. reflexivity.
        -- destruct Hc as [[E P]|[L [N P]]].
           ++ left. split; [congruence|]. rewrite pending_before_cons_S. simpl. exact P.
           ++ right. split; [lia|]. split; [simpl; exact N|].
              simpl set_item. rewrite !pending_before_cons_S. simpl. exact P.
Qed.

Lemma first_pending_is_pending : forall l k,
  first_pending l 0 = Some k -> nth_error l k = Some Pending.
Proof.
  induction l as [|a r IH]; intros k H; simpl in H; [discriminate|].
  destruct a.
  - inversion H; subst. reflexivity.
  - rewrite first_pending_S in H. destruct (first_pending r 0) eqn:E; simpl in H; [|discriminate].
    inversion H; subst. simpl. apply IH. reflexivity.
  - rewrite first_pending_S in H. destruct (first_pending r 0) eqn:E; simpl in H; [|discriminate].
    inversion H; subst. simpl. apply IH. reflexivity.
Qed.

(* ---------- 1 ---------- *)
Lemma spawned_serves_gen : forall spins n s j,
  lp s = LWaiting -> dead s = false -> nth_error (items s) j = Some Pending ->
  pending_before (items s) j = n ->
  is_served (iter_loop true spins (S n) s) j = true.
Proof.
  intros spins n. induction n as [|n IH]; intros s j Hl Hd Hn Hp.
  - destruct (fp_step _ _ Hn) as [k [Hk Hc]].
    simpl. unfold loop_step. rewrite Hl, Hd, Hk.
    destruct Hc as [[E _]|[_ [_ P]]]; [|lia].
    subst k. unfold is_served. simpl.
    rewrite (nth_error_set_item_same _ _ Served _ Hn). reflexivity.
  - destruct (fp_step _ _ Hn) as [k [Hk Hc]].
    destruct Hc as [[_ P]|[L [N P]]]; [lia|].
    change (iter_loop true spins (S (S n)) s)
      with (iter_loop true spins (S n) (loop_step true spins s)).
    assert (E : loop_step true spins s =
                {| lp := LWaiting; items := set_item (items s) k Served; dead := dead s |}).
    { unfold loop_step. rewrite Hl, Hd, Hk. reflexivity. }
    rewrite E. apply IH; simpl; auto. lia.
Qed.

Lemma spawned_serves : forall spins s j,
  lp s = LWaiting -> dead s = false -> nth_error (items s) j = Some Pending ->
  is_served (iter_loop true spins (S (pending_before (items s) j)) s) j = true.
Proof.
  intros. eapply spawned_serves_gen; eauto.
Qed.

(* ---------- 2 ---------- *)
Definition not_handling (s : astate) : Prop :=
  match lp s with LHandling _ => False | _ => True end.

Lemma loop_step_not_handling : forall spins s, not_handling s -> not_handling (loop_step true spins s).
Proof.
  intros spins s H. unfold not_handling, loop_step in *.
  destruct (lp s) eqn:E; simpl; try rewrite E; auto.
  destruct (dead s).
  - destruct spins; simpl; try rewrite E; auto.
  - destruct (first_pending (items s) 0); simpl; try rewrite E; auto.
Qed.

Lemma env_step_not_handling : forall e s, not_handling s -> not_handling (env_step s e).
Proof.
  intros e s H. unfold not_handling in *. destruct e; simpl; auto.
  destruct (nth_error (items s) j) as [[| |]|]; simpl; auto.
  destruct (lp s); auto. contradiction.
Qed.

Lemma fold_not_handling : forall spins ks s, not_handling s ->
  not_handling (fold_left (astep true spins) ks s).
Proof.
  induction ks as [|k ks IH]; intros s H; simpl; auto.
  apply IH. destruct k; simpl.
  - apply loop_step_not_handling; auto.
  - apply env_step_not_handling; auto.
Qed.

Lemma spawned_never_handling : forall spins ks, match lp (arun true spins ks) with LHandling _ => False | _ => True end.
Proof.
  intros spins ks. unfold arun.
  apply (fold_not_handling spins ks). exact I.
Qed.

(* ---------- 3 ---------- *)
Lemma iter_loop_handling_fix : forall spawns spins n s j, lp s = LHandling j -> iter_loop spawns spins n s = s.
Proof.
  induction n as [|n IH]; intros s j H; simpl; auto.
  assert (E : loop_step spawns spins s = s) by (unfold loop_step; rewrite H; reflexivity).
  rewrite E. eapply IH; eauto.
Qed.

Lemma inline_blocks_refuted : forall spins,
  exists ks, let s := arun false spins ks in
  nth_error (items s) 1 = Some Pending /\ forall n, is_served (iter_loop false spins n s) 1 = false.
Proof.
  intros spins. exists [SEnv Arrive; SEnv Arrive; SLoop].
  assert (E : arun false spins [SEnv Arrive; SEnv Arrive; SLoop] =
              {| lp := LHandling 0; items := [Served; Pending]; dead := false |}).
  { destruct spins; reflexivity. }
  simpl. rewrite E. split; [reflexivity|].
  intros n. rewrite (iter_loop_handling_fix false spins n _ 0); reflexivity.
Qed.

(* ---------- 4 ---------- *)
Lemma dead_session_exits : forall spawns s, lp s = LWaiting -> dead s = true -> lp (loop_step spawns false s) = LExited.
Proof.
  intros spawns s Hl Hd. unfold loop_step. rewrite Hl, Hd. reflexivity.
Qed.

Lemma dead_session_spins_refuted : forall spawns s n, lp s = LWaiting -> dead s = true ->
  lp (iter_loop spawns true n s) = LWaiting /\ iter_loop spawns true n s = s.
Proof.
  intros spawns s n Hl Hd.
  assert (E : iter_loop spawns true n s = s).
  { induction n as [|n IH]; simpl; auto.
    assert (E1 : loop_step spawns true s = s) by (unfold loop_step; rewrite Hl, Hd; reflexivity).
    rewrite E1. exact IH. }
  rewrite E. auto.
Qed.

(* ---------- 5 ---------- *)
Lemma served_stable : forall spawns spins s j, is_served s j = true -> is_served (loop_step spawns spins s) j = true.
Proof.
  intros spawns spins s j H. unfold loop_step.
  destruct (lp s); auto.
  destruct (dead s).
  - destruct spins; auto.
  - destruct (first_pending (items s) 0) as [k|] eqn:Hk; auto.
    unfold is_served in *. simpl.
    destruct (Nat.eq_dec j k) as [->|Hne].
    + rewrite (nth_error_set_item_same _ _ Served _ (first_pending_is_pending _ _ Hk)). reflexivity.
    + rewrite nth_error_set_item_other; auto.
Qed.

Print Assumptions spawned_serves.
Print Assumptions spawned_never_handling.
Print Assumptions inline_blocks_refuted.
Print Assumptions dead_session_exits.
Print Assumptions dead_session_spins_refuted.
Print Assumptions served_stable.
