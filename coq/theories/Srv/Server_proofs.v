(* C12 - proofs about Srv/Server.v: the handler never panics, keeps the table well formed, leaves the sessions of
   other addresses alone, and forms bounded answers. *)
From Coq Require Import String List NArith ZArith Bool Arith Lia.
From Coq Require Import ZifyN ZifyNat ZifyBool.
From SA Require Import Base.Tok Codec.Bits Codec.Codec Gen.Alphabets.
From SA Require Queue.Queues Wire.Name Wire.Requests Wire.Total_proofs.
From SA.Wrap Require Import Wrap Responses Wrap_proofs Responses_proofs.
From SA.Srv Require Import Server.
Import ListNotations.
Open Scope N_scope.
Local Notation length := List.length.

(* ------------------------------------------------------------------------------------------------ *)
(* tables *)

Lemma set_nth_length {A} (l : list A) i x : length (set_nth l i x) = length l.
Proof. revert i; induction l as [| y l IH]; intros [| i]; cbn [set_nth length]; try reflexivity. rewrite IH. reflexivity. Qed.

Lemma nth_set_nth_same {A} (l : list A) i x d : (i < length l)%nat -> nth i (set_nth l i x) d = x.
Proof.
  revert i; induction l as [| y l IH]; intros [| i] H; cbn [length] in H; try lia; cbn [set_nth nth]; [reflexivity |].
  apply IH. lia.
Qed.

Lemma nth_set_nth_other {A} (l : list A) i j x d : i <> j -> nth j (set_nth l i x) d = nth j l d.
Proof.
  revert i j; induction l as [| y l IH]; intros [| i] [| j] H; cbn [set_nth nth]; try reflexivity; try congruence.
  apply IH. congruence.
Qed.

Lemma slot_set_same l i v : (N.to_nat i < length l)%nat -> slot (set_nth l (N.to_nat i) v) i = v.
Proof. intros H. unfold slot. apply nth_set_nth_same. exact H. Qed.

Lemma slot_set_other l i j v : i <> j -> slot (set_nth l (N.to_nat i) v) j = slot l j.
Proof. intros H. unfold slot. apply nth_set_nth_other. lia. Qed.

Lemma slot_some_lt l i s : slot l i = Some s -> (N.to_nat i < length l)%nat.
Proof.
  unfold slot. intros H. destruct (Nat.lt_ge_cases (N.to_nat i) (length l)) as [L | G]; [exact L |].
  rewrite nth_overflow in H by exact G. discriminate.
Qed.

Lemma slot_set l i j v : (N.to_nat i < length l)%nat ->
  slot (set_nth l (N.to_nat i) v) j = if N.eqb i j then v else slot l j.
Proof.
  intros H. destruct (N.eqb_spec i j) as [-> | Hne]; [apply slot_set_same; exact H | apply slot_set_other; exact Hne].
Qed.

(* ------------------------------------------------------------------------------------------------ *)
(* frame: reflexive and transitive *)

Lemma frame_refl from st : frame from st st.
Proof. split; [reflexivity |]. split; intros i; left; reflexivity. Qed.

Lemma frame_trans from a b c : frame from a b -> frame from b c -> frame from a c.
Proof.
  intros [D1 [L1 O1]] [D2 [L2 O2]]. split; [congruence |]. split; intros i.
  - destruct (L2 i) as [E2 | [M2 M2']]; destruct (L1 i) as [E1 | [M1 M1']].
    + left. congruence.
    + right. rewrite E2. split; assumption.
    + right. rewrite <- E1. split; assumption.
    + right. split; assumption.
  - destruct (O2 i) as [E2 | X2]; [| right; exact X2].
    destruct (O1 i) as [E1 | X1]; [left; congruence | right; rewrite E2; exact X1].
Qed.

(* ------------------------------------------------------------------------------------------------ *)
(* well-formedness of updated tables *)

Lemma wf_set_live st i v : wf st -> (N.to_nat i < max_users)%nat -> (forall s, v = Some s -> session_ok i s) ->
  wf (set_live st i v).
Proof.
  intros [Hd [Hl [Ho [HL HO]]]] Hi Hv. unfold wf, set_live. cbn [st_dom st_live st_old].
  split; [exact Hd |]. split; [rewrite set_nth_length; exact Hl |]. split; [exact Ho |]. split; [| exact HO].
  intros j s. rewrite slot_set by (rewrite Hl; exact Hi).
  destruct (N.eqb_spec i j) as [<- | Hne]; [apply Hv | apply HL].
Qed.

Lemma wf_set_old st i v : wf st -> (N.to_nat i < max_users)%nat -> (forall s, v = Some s -> session_ok i s) ->
  wf (set_old st i v).
Proof.
  intros [Hd [Hl [Ho [HL HO]]]] Hi Hv. unfold wf, set_old. cbn [st_dom st_live st_old].
  split; [exact Hd |]. split; [exact Hl |]. split; [rewrite set_nth_length; exact Ho |]. split; [exact HL |].
  intros j s. rewrite slot_set by (rewrite Ho; exact Hi).
  destruct (N.eqb_spec i j) as [<- | Hne]; [apply Hv | apply HO].
Qed.

Lemma wf_live_lt st i s : wf st -> slot (st_live st) i = Some s -> (N.to_nat i < max_users)%nat.
Proof. intros [_ [Hl _]] H. rewrite <- Hl. eapply slot_some_lt; exact H. Qed.

Lemma frame_set_live from st i v :
  (N.to_nat i < length (st_live st))%nat -> mine from (slot (st_live st) i) -> mine from v -> frame from st (set_live st i v).
Proof.
  intros Hi Hm Hv. split; [reflexivity |]. split; intros j; [| left; reflexivity].
  unfold set_live. cbn [st_live]. rewrite slot_set by exact Hi.
  destruct (N.eqb_spec i j) as [<- | Hne]; [right; split; assumption | left; reflexivity].
Qed.

Lemma touch_ok i u now : session_ok i u -> session_ok i (touch u now).
Proof. intros H. exact H. Qed.

Lemma mark_closed_ok i u : session_ok i u -> session_ok i (mark_closed u).
Proof. intros H. exact H. Qed.

(* ------------------------------------------------------------------------------------------------ *)
(* validateAndGetUser *)

Lemma validate_spec st id from now st1 u e : wf st -> validate st id from now = (st1, u, e) ->
  wf st1 /\ frame from st st1 /\
  match e with
  | VOk => exists u0, slot (st_live st) id = Some u0 /\ s_addr u0 = from /\ u = Some (touch u0 now) /\
                      st1 = set_live st id (Some (touch u0 now)) /\ slot (st_live st1) id = Some (touch u0 now)
  | VBadIp => st1 = st /\ exists u0, u = Some u0 /\ slot (st_live st) id = Some u0 /\ s_addr u0 <> from
  | VBadConn => st1 = st /\ exists u0, u = Some u0 /\ slot (st_live st) id = None /\ slot (st_old st) id = Some u0 /\ s_addr u0 = from
  | VBadUser => st1 = st /\ u = None
  end.
Proof.
  intros Hwf H. unfold validate in H.
  destruct (slot (st_live st) id) as [u0 |] eqn:EL.
  - destruct (N.eqb_spec (s_addr u0) from) as [Ea | Ea]; cbn [negb] in H.
    + inversion H; subst st1 u e. clear H.
      pose proof (wf_live_lt st id u0 Hwf EL) as Hlt.
      assert (Hok : session_ok id u0) by (destruct Hwf as [_ [_ [_ [HL _]]]]; apply HL; exact EL).
      split; [| split].
      * apply wf_set_live; [exact Hwf | exact Hlt |]. intros s Hs. inversion Hs; subst s. apply touch_ok. exact Hok.
      * apply frame_set_live; [destruct Hwf as [_ [Hl _]]; rewrite Hl; exact Hlt | rewrite EL; exact Ea | exact Ea].
      * exists u0. repeat split; try reflexivity; try assumption.
        unfold set_live. cbn [st_live]. apply slot_set_same. destruct Hwf as [_ [Hl _]]. rewrite Hl. exact Hlt.
    + inversion H; subst st1 u e. split; [exact Hwf |]. split; [apply frame_refl |].
      split; [reflexivity |]. exists u0. repeat split; try reflexivity. exact Ea.
  - destruct (slot (st_old st) id) as [o |] eqn:EO.
    + destruct (N.eqb_spec (s_addr o) from) as [Ea | Ea]; inversion H; subst st1 u e.
      * split; [exact Hwf |]. split; [apply frame_refl |]. split; [reflexivity |]. exists o. repeat split; try reflexivity; assumption.
      * split; [exact Hwf |]. split; [apply frame_refl |]. split; reflexivity.
    + inversion H; subst st1 u e. split; [exact Hwf |]. split; [apply frame_refl |]. split; reflexivity.
Qed.

(* ------------------------------------------------------------------------------------------------ *)
(* queues: acknowledging only removes chunks *)

Lemma remove_first_seq_ok s l : Forall chunk_ok l -> Forall chunk_ok (Queues.remove_first_seq s l).
Proof.
  induction 1 as [| p l Hp Hl IH]; cbn [Queues.remove_first_seq]; [constructor |].
  destruct (N.eqb (Queues.p_seq p) s); [assumption | constructor; assumption].
Qed.

Lemma clean_ok q : Forall chunk_ok (Queues.out_q q) -> Forall chunk_ok (Queues.out_q (Queues.clean q)).
Proof.
  unfold Queues.clean. cbn [Queues.out_q]. generalize (Queues.out_q q) as l. generalize (Queues.out_acked q) as a.
  induction a as [| x a IH]; intros l H; cbn [fold_left]; [exact H |]. apply IH. apply remove_first_seq_ok. exact H.
Qed.

Lemma update_acked_ok q s : Forall chunk_ok (Queues.out_q q) -> Forall chunk_ok (Queues.out_q (Queues.update_acked q s)).
Proof.
  intros H. unfold Queues.update_acked. destruct (Queues.mem_seq s (Queues.out_acked q)); [exact H |].
  apply clean_ok. exact H.
Qed.

Lemma next_chunk_ok q q' p : Forall chunk_ok (Queues.out_q q) -> Queues.next_chunk q = (q', p) ->
  Forall chunk_ok (Queues.out_q q') /\ (forall c, p = Some c -> chunk_ok c).
Proof.
  intros H E. unfold Queues.next_chunk in E. inversion E; subst q' p. clear E.
  pose proof (clean_ok q H) as Hc. split; [exact Hc |].
  intros c Hc'. change (hd_error (Queues.out_q (Queues.clean q)) = Some c) in Hc'. revert Hc Hc'. destruct (Queues.out_q (Queues.clean q)) as [| x l]; intros Hc Hc'; cbn [hd_error] in Hc'; [discriminate Hc' |].
  inversion Hc'; subst c. inversion Hc. assumption.
Qed.

(* ------------------------------------------------------------------------------------------------ *)
(* newUser, closeConnection *)

Lemma first_free_spec l : forall i0 i, first_free l i0 = Some i ->
  exists k, i = i0 + N.of_nat k /\ (k < length l)%nat /\ nth k l None = None.
Proof.
  induction l as [| x l IH]; intros i0 i H; cbn [first_free] in H; [discriminate |].
  destruct x as [s |].
  - destruct (IH _ _ H) as [k [E [L N0]]]. exists (S k). cbn [length nth]. repeat split; [lia | lia | exact N0].
  - inversion H; subst i. exists O. cbn [length nth]. repeat split; lia.
Qed.

Lemma fresh_ok i from now : session_ok i (fresh i from now).
Proof.
  unfold session_ok, fresh. cbn [s_uid s_frag s_out]. split; [reflexivity |]. split; [vm_compute; split; discriminate |].
  unfold Queues.new_outq. cbn [Queues.out_q]. constructor.
Qed.

Lemma new_user_spec st from now st1 u : wf st -> new_user st from now = (st1, u) ->
  wf st1 /\ frame from st st1 /\ (forall s, u = Some s -> s_addr s = from).
Proof.
  intros Hwf H. unfold new_user in H.
  destruct (first_free (st_live st) 0) as [i |] eqn:EF.
  - inversion H; subst st1 u. clear H.
    destruct (first_free_spec _ _ _ EF) as [k [Ei [Hk Hn]]].
    assert (Hik : N.to_nat i = k) by lia.
    assert (Hlt : (N.to_nat i < max_users)%nat) by (destruct Hwf as [_ [Hl _]]; lia).
    split; [| split].
    + apply wf_set_live; [exact Hwf | exact Hlt |]. intros s Hs. inversion Hs. apply fresh_ok.
    + apply frame_set_live; [lia | | reflexivity]. unfold slot. rewrite Hik, Hn. exact I.
    + intros s Hs. inversion Hs. reflexivity.
  - inversion H; subst st1 u. split; [exact Hwf |]. split; [apply frame_refl |]. intros s Hs. discriminate.
Qed.

Lemma frame_set_old from st i c :
  (N.to_nat i < length (st_old st))%nat -> s_addr c = from -> s_closed c = true -> frame from st (set_old st i (Some c)).
Proof.
  intros Hi Hc Hcl. split; [reflexivity |]. split; intros j; [left; reflexivity |].
  unfold set_old. cbn [st_old]. rewrite slot_set by exact Hi.
  destruct (N.eqb_spec i j) as [<- | Hne]; [right; exists c; repeat split; assumption | left; reflexivity].
Qed.

Lemma close_spec st u now from : wf st -> s_addr u = from ->
  wf (close_conn st u now) /\ frame from st (close_conn st u now).
Proof.
  intros Hwf Ha. unfold close_conn.
  destruct (validate st (s_uid u) (s_addr u) now) as [[st1 cur] e] eqn:EV.
  rewrite Ha in EV. destruct (validate_spec _ _ _ _ _ _ _ Hwf EV) as [Hwf1 [Hf1 Hs]].
  destruct cur as [cur |]; [| split; assumption].
  destruct e; try (split; assumption).
  destruct Hs as [u0 [EL [Ea [Eu [Est ES1]]]]]. inversion Eu; subst cur.
  pose proof (wf_live_lt _ _ _ Hwf EL) as Hlt.
  assert (Hok : session_ok (s_uid u) (touch u0 now)).
  { destruct Hwf1 as [_ [_ [_ [HL _]]]]. apply HL. exact ES1. }
  set (st2 := set_live st1 (s_uid u) None).
  assert (Hwf2 : wf st2).
  { apply wf_set_live; [exact Hwf1 | exact Hlt | intros s Hs; discriminate]. }
  assert (Hf2 : frame from st1 st2).
  { apply frame_set_live; [destruct Hwf1 as [_ [Hl _]]; rewrite Hl; exact Hlt | rewrite ES1; exact Ea | exact I]. }
  split.
  - apply wf_set_old; [exact Hwf2 | exact Hlt |]. intros s Hs. inversion Hs. apply mark_closed_ok. exact Hok.
  - eapply frame_trans; [exact Hf1 |]. eapply frame_trans; [exact Hf2 |].
    apply frame_set_old; [destruct Hwf2 as [_ [_ [Ho _]]]; rewrite Ho; exact Hlt | exact Ea | reflexivity].
Qed.

(* ------------------------------------------------------------------------------------------------ *)
(* the six handlers *)

Definition req_pattern_len (req : Requests.request) : N :=
  match req with Requests.RUpTest _ p => nlen p | _ => 0 end.

Lemma nlen_cons {A} (x : A) l : N.of_nat (length (x :: l)) = 1 + N.of_nat (length l).
Proof. cbn [length]. lia. Qed.

Lemma nlen_app (a b : bytes) : nlen (a ++ b) = nlen a + nlen b.
Proof. unfold nlen. rewrite app_length. lia. Qed.

Lemma err_of_small e t : err_text (err_of e) = Some t -> nlen t <= 22.
Proof. destruct e; cbn [err_of err_text]; intros H; inversion H; vm_compute; discriminate. Qed.

Lemma frag_pattern_from_length n : forall v, length (frag_pattern_from n v) = n.
Proof. induction n as [| n IH]; intros v; cbn [frag_pattern_from length]; [reflexivity | rewrite IH; reflexivity]. Qed.

Lemma with_queues_ok i u q o : session_ok i u -> Forall chunk_ok (Queues.out_q o) -> session_ok i (with_queues u q o).
Proof. intros [H1 [H2 _]] H3. split; [exact H1 |]. split; [exact H2 | exact H3]. Qed.

Lemma with_options_ok i u up down frag lz mq : session_ok i u ->
  match frag with Some f => 1 <= f <= max_frag | None => True end ->
  session_ok i (with_options u up down frag lz mq).
Proof.
  intros [H1 [H2 H3]] Hf. split; [exact H1 |]. split; [| exact H3].
  unfold with_options. cbn [s_frag]. destruct frag; cbn [or_else]; assumption.
Qed.

(* replacing the session validateAndGetUser has just returned by an updated one of the same owner *)
Lemma update_live st from id u0 u2 : wf st -> slot (st_live st) id = Some u0 -> s_addr u0 = from ->
  session_ok id u2 -> s_addr u2 = from ->
  wf (set_live st id (Some u2)) /\ frame from st (set_live st id (Some u2)).
Proof.
  intros Hwf EL Ea Hok Ha. pose proof (wf_live_lt _ _ _ Hwf EL) as Hlt. split.
  - apply wf_set_live; [exact Hwf | exact Hlt |]. intros s Hs. inversion Hs; subst s. exact Hok.
  - apply frame_set_live; [destruct Hwf as [_ [Hl _]]; rewrite Hl; exact Hlt | rewrite EL; exact Ea | exact Ha].
Qed.

Ltac small_err := cbn [resp_data err_text]; vm_compute; discriminate.

Lemma handle_spec st req from now st1 r c : wf st -> handle st req from now = (st1, r, c) ->
  wf st1 /\ frame from st st1 /\ resp_ok r /\ nlen (resp_data r) <= N.max 65540 (1 + req_pattern_len req).
Proof.
  intros Hwf H. destruct req as [v | uid ack pkt | uid lz mq cl down up frag | uid size | uid pat | d]; cbn [handle] in H.
  - (* version *)
    destruct (v =? protocol_version).
    + destruct (new_user st from now) as [st2 [u |]] eqn:EN; inversion H; subst st1 r c;
        destruct (new_user_spec _ _ _ _ _ Hwf EN) as [W [F _]].
      * split; [exact W |]. split; [exact F |]. split; [exact I |]. cbn [resp_data err_text]. unfold nlen, le32. cbn [length app]. lia.
      * split; [exact W |]. split; [exact F |]. split; [exact I |]. small_err.
    + inversion H; subst st1 r c. split; [exact Hwf |]. split; [apply frame_refl |]. split; [exact I |]. small_err.
  - (* packet *)
    destruct (validate st uid from now) as [[st2 u] e] eqn:EV.
    destruct (validate_spec _ _ _ _ _ _ _ Hwf EV) as [W [F S]].
    assert (Herr : forall cc, (st2, RPkt (err_of e) 0 None, cc) = (st1, r, c) -> e <> VOk ->
                   wf st1 /\ frame from st st1 /\ resp_ok r /\ nlen (resp_data r) <= N.max 65540 (1 + 0)).
    { intros cc X Hne. inversion X; subst st1 r c. split; [exact W |]. split; [exact F |]. split; [exact I |].
      cbn [resp_data]. destruct (err_text (err_of e)) as [t |] eqn:Et.
      - pose proof (err_of_small _ _ Et). unfold nlen in *. cbv iota. rewrite nlen_cons. lia.
      - destruct e; try discriminate Et. congruence. }
    destruct e.
    + destruct S as [u0 [EL [Ea [Eu [Est ES2]]]]]. subst u.
      assert (Hok0 : session_ok uid (touch u0 now)) by (destruct W as [_ [_ [_ [HL _]]]]; apply HL; exact ES2).
      set (user := touch u0 now) in *.
      destruct (Queues.in_append (s_in user) (option_map mk_packet pkt)) as [i1 bad] eqn:EA.
      pose proof (update_acked_ok (s_out user) ack (proj2 (proj2 Hok0))) as Ho1.
      destruct bad.
      * inversion H; subst st1 r c.
        destruct (update_live st2 from uid user (with_queues user i1 (Queues.update_acked (s_out user) ack)) W ES2 Ea) as [W2 F2].
        { apply with_queues_ok; assumption. } { exact Ea. }
        split; [exact W2 |]. split; [eapply frame_trans; eassumption |]. split; [exact I |]. small_err.
      * destruct (Queues.next_chunk (Queues.update_acked (s_out user) ack)) as [o2 p] eqn:ENC.
        destruct (next_chunk_ok _ _ _ Ho1 ENC) as [Ho2 Hp].
        inversion H; subst st1 r c.
        destruct (update_live st2 from uid user (with_queues user i1 o2) W ES2 Ea) as [W2 F2].
        { apply with_queues_ok; assumption. } { exact Ea. }
        split; [exact W2 |]. split; [eapply frame_trans; eassumption |]. split; [exact I |].
        cbn [resp_data err_text]. destruct p as [pk |]; cbn [option_map packet_pair].
        -- specialize (Hp pk eq_refl). unfold chunk_ok, max_frag, nlen in Hp.
           unfold nlen, le16. cbn [length app fst snd]. lia.
        -- unfold nlen, le16. cbn [length app]. lia.
    + destruct S as [-> _]. apply (Herr (down_of u)); [destruct u; exact H | discriminate].
    + destruct S as [-> _]. apply (Herr (down_of u)); [destruct u; exact H | discriminate].
    + destruct S as [-> _]. apply (Herr (down_of u)); [destruct u; exact H | discriminate].
  - (* set options *)
    destruct (validate st uid from now) as [[st2 u] e] eqn:EV.
    destruct (validate_spec _ _ _ _ _ _ _ Hwf EV) as [W [F S]].
    assert (Herr : (st2, ROpt (err_of e), default_codec) = (st1, r, c) -> e <> VOk ->
                   wf st1 /\ frame from st st1 /\ resp_ok r /\ nlen (resp_data r) <= N.max 65540 (1 + 0)).
    { intros X Hne. inversion X; subst st1 r c. split; [exact W |]. split; [exact F |]. split; [exact I |].
      cbn [resp_data]. destruct (err_text (err_of e)) as [t |] eqn:Et.
      - pose proof (err_of_small _ _ Et). unfold nlen in *. cbv iota. rewrite nlen_cons. lia.
      - vm_compute. discriminate. }
    destruct e.
    + destruct S as [u0 [EL [Ea [Eu [Est ES2]]]]]. subst u.
      assert (Hok0 : session_ok uid (touch u0 now)) by (destruct W as [_ [_ [_ [HL _]]]]; apply HL; exact ES2).
      set (user := touch u0 now) in *.
      assert (Hclose : (close_conn st2 user now, ROpt ENone, default_codec) = (st1, r, c) ->
                       wf st1 /\ frame from st st1 /\ resp_ok r /\ nlen (resp_data r) <= N.max 65540 (1 + 0)).
      { intros X. inversion X; subst st1 r c. destruct (close_spec st2 user now from W Ea) as [W2 F2].
        split; [exact W2 |]. split; [eapply frame_trans; eassumption |]. split; [exact I |]. vm_compute. discriminate. }
      assert (Happly : (match frag with Some f => 1 <= f <= max_frag | None => True end) ->
                       (set_live st2 uid (Some (with_options user up down frag lz mq)), ROpt ENone, default_codec) = (st1, r, c) ->
                       wf st1 /\ frame from st st1 /\ resp_ok r /\ nlen (resp_data r) <= N.max 65540 (1 + 0)).
      { intros Hf X. inversion X; subst st1 r c.
        destruct (update_live st2 from uid user (with_options user up down frag lz mq) W ES2 Ea) as [W2 F2].
        { apply with_options_ok; assumption. } { exact Ea. }
        split; [exact W2 |]. split; [eapply frame_trans; eassumption |]. split; [exact I |]. vm_compute. discriminate. }
      assert (Hrest : match frag with
                      | Some f => if (f =? 0) || (max_frag <? f) then (st2, ROpt E_BADFRAG, default_codec)
                                  else (set_live st2 uid (Some (with_options user up down frag lz mq)), ROpt ENone, default_codec)
                      | None => (set_live st2 uid (Some (with_options user up down frag lz mq)), ROpt ENone, default_codec)
                      end = (st1, r, c) ->
                      wf st1 /\ frame from st st1 /\ resp_ok r /\ nlen (resp_data r) <= N.max 65540 (1 + 0)).
      { destruct frag as [f |]; [| apply Happly; exact I].
        destruct ((f =? 0) || (max_frag <? f)) eqn:Eg.
        - intros X. inversion X; subst st1 r c. split; [exact W |]. split; [exact F |]. split; [exact I |]. vm_compute. discriminate.
        - apply Happly. unfold max_frag in *. lia. }
      destruct cl as [[|] |]; [apply Hclose; exact H | apply Hrest; exact H | apply Hrest; exact H].
    + destruct S as [-> _]. apply Herr; [destruct u; exact H | discriminate].
    + destruct S as [-> _]. apply Herr; [destruct u; exact H | discriminate].
    + destruct S as [-> _]. apply Herr; [destruct u; exact H | discriminate].
  - (* fragment-size test *)
    destruct (validate st uid from now) as [[st2 u] e] eqn:EV.
    destruct (validate_spec _ _ _ _ _ _ _ Hwf EV) as [W [F S]].
    inversion H; subst st1 r c. split; [exact W |]. split; [exact F |].
    destruct e.
    + destruct (max_frag <? size) eqn:Es.
      * split; [exact I |]. vm_compute. discriminate.
      * split; [exact I |]. cbn [resp_data err_text]. unfold nlen, le32, frag_pattern. cbn [length app].
        rewrite frag_pattern_from_length. unfold max_frag in Es. lia.
    + split; [exact I |]. vm_compute. discriminate.
    + split; [exact I |]. vm_compute. discriminate.
    + split; [exact I |]. vm_compute. discriminate.
  - (* upstream-codec test *)
    destruct (validate st uid from now) as [[st2 u] e] eqn:EV.
    destruct (validate_spec _ _ _ _ _ _ _ Hwf EV) as [W [F S]].
    inversion H; subst st1 r c. split; [exact W |]. split; [exact F |]. split; [exact I |].
    cbn [resp_data req_pattern_len]. destruct (err_text (err_of e)) as [t |] eqn:Et.
    + pose proof (err_of_small _ _ Et). unfold nlen in *. cbv iota. rewrite nlen_cons. lia.
    + unfold nlen. cbv iota. rewrite nlen_cons. lia.
  - (* downstream-codec test *)
    inversion H; subst st1 r c. split; [exact Hwf |]. split; [apply frame_refl |]. split; [exact I |]. vm_compute. discriminate.
Qed.

(* ------------------------------------------------------------------------------------------------ *)
(* encoding and wrapping the response never panics *)

Lemma encode_resp_np c r s : resp_ok r -> encode_resp c r <> Panic s.
Proof.
  destruct r as [sv uid e | e ack pkt | e | e size d | e d | e d | e]; cbn [encode_resp resp_ok]; intros H; try discriminate.
  - destruct (err_text e); discriminate.
  - destruct e; [contradiction | discriminate | discriminate].
Qed.

Lemma prepare_hostname_np d dom s : prepare_hostname d dom <> Panic s.
Proof. unfold prepare_hostname. destruct (251 <? _)%nat; discriminate. Qed.

Lemma map_res_id_np {B} (l : list (res B)) : Forall (fun x => forall s, x <> Panic s) l -> forall s, map_res (fun x => x) l <> Panic s.
Proof.
  induction 1 as [| x l Hx Hl IH]; intros s; cbn [map_res]; [discriminate |].
  destruct x as [y | |]; cbn [bind].
  - destruct (map_res (fun x => x) l) as [ys | |] eqn:EL; cbn [bind]; try discriminate. intros _. eapply IH; reflexivity.
  - discriminate.
  - intros _. eapply Hx; reflexivity.
Qed.

Lemma mapi_Forall {A B} (P : B -> Prop) (f : N -> A -> B) l : (forall k x, P (f k x)) -> forall i, Forall P (mapi f i l).
Proof. intros H. induction l as [| x l IH]; intros i; cbn [mapi]; constructor; [apply H | apply IH]. Qed.

Lemma name_chunks_np site dom data s : (0 < longest_data_string dom)%Z -> name_chunks site dom data <> Panic s.
Proof.
  intros Hd. unfold name_chunks. destruct data; [discriminate |].
  destruct (longest_data_string dom <? 0)%Z eqn:E1; [lia |].
  destruct (longest_data_string dom =? 0)%Z eqn:E2; [lia | discriminate].
Qed.

Lemma wrap_np rt data dom q s : (0 < longest_data_string dom)%Z -> wrap rt data dom q <> Panic s.
Proof.
  intros Hd. unfold wrap.
  assert (HA : forall s', wrap_answers rt data dom <> Panic s').
  { intros s'. destruct rt; cbn [wrap_answers]; try discriminate.
    - unfold wrap_srv. destruct (name_chunks _ dom data) as [cs | |] eqn:EC; cbn [bind]; try discriminate.
      + apply map_res_id_np. apply mapi_Forall. intros k x s0.
        destruct (prepare_hostname x dom) eqn:EP; cbn [bind]; try discriminate. exfalso. eapply prepare_hostname_np; exact EP.
      + exfalso. eapply name_chunks_np; eassumption.
    - unfold wrap_mx. destruct (name_chunks _ dom data) as [cs | |] eqn:EC; cbn [bind]; try discriminate.
      + apply map_res_id_np. apply mapi_Forall. intros k x s0.
        destruct (prepare_hostname x dom) eqn:EP; cbn [bind]; try discriminate. exfalso. eapply prepare_hostname_np; exact EP.
      + exfalso. eapply name_chunks_np; eassumption.
    - unfold wrap_cname. destruct (name_chunks _ dom data) as [cs | |] eqn:EC; cbn [bind]; try discriminate.
      + apply map_res_id_np. apply mapi_Forall. intros k x s0.
        destruct (prepare_hostname (tag2 (u16 (k + 1)) ++ x) dom) eqn:EP; cbn [bind]; try discriminate.
        exfalso. eapply prepare_hostname_np; exact EP.
      + exfalso. eapply name_chunks_np; eassumption.
    - unfold wrap_a. destruct (255 <? _)%nat; discriminate. }
  destruct (wrap_answers rt data dom) as [a | |] eqn:EA; cbn [bind]; try discriminate.
  exfalso. eapply HA; reflexivity.
Qed.

Lemma reply_np st m c r s : wf st -> resp_ok r -> reply st m c r <> Panicked s.
Proof.
  intros [[_ Hd] _] Hr. unfold reply.
  destruct (encode_resp c r) as [p | |] eqn:EE; try discriminate.
  - destruct (rtype_of_code (qtype m)) as [rt |]; [| discriminate].
    destruct (wrap rt p (st_dom st) (qname m)) as [w | |] eqn:EW; try discriminate.
    exfalso. eapply wrap_np; eassumption.
  - exfalso. eapply encode_resp_np; eassumption.
Qed.

(* an answer carries a response of the handlers' making *)
Lemma reply_answered st m c r r' p w : reply st m c r = Answered r' p w -> r' = r /\ encode_resp c r = Ok p.
Proof.
  unfold reply. destruct (encode_resp c r) as [p0 | |]; try discriminate.
  destruct (rtype_of_code (qtype m)); [| discriminate].
  destruct (wrap _ p0 _ _); try discriminate. intros H. inversion H. split; reflexivity.
Qed.

(* ------------------------------------------------------------------------------------------------ *)
(* ComposeRequest never panics *)

Lemma concat_res_np (l : list (res bytes)) : Forall (fun x => forall s, x <> Panic s) l -> forall s, concat_res l <> Panic s.
Proof.
  induction 1 as [| x l Hx Hl IH]; intros s; cbn [concat_res]; [discriminate |].
  destruct x as [y | |]; cbn [bind].
  - destruct (concat_res l) as [ys | |] eqn:EL; cbn [bind]; try discriminate. intros _. eapply IH; reflexivity.
  - discriminate.
  - intros _. eapply Hx; reflexivity.
Qed.

Lemma strip_domain_np data dom s : Name.strip_domain data dom <> Panic s.
Proof.
  intros E. pose proof (Total_proofs.strip_domain_total data dom) as H. rewrite E in H. discriminate H.
Qed.

Lemma compose_np dom names s : compose dom names <> Panic s.
Proof.
  unfold compose. destruct names as [| n [| n2 rest]]; [discriminate | apply strip_domain_np |].
  apply concat_res_np. apply Forall_forall. intros x Hx. apply in_map_iff in Hx. destruct Hx as [y [<- _]].
  intros s0. destruct (length y <? 2)%nat; [discriminate | apply strip_domain_np].
Qed.

(* ------------------------------------------------------------------------------------------------ *)
(* the echoed pattern of an upstream-codec test is part of the request *)

Lemma decode_header_len c x rest uid : Requests.decode_header c x = Ok (rest, uid) -> (length rest + 4 <= length x)%nat.
Proof.
  unfold Requests.decode_header. destruct x as [| ? [| ? [| ? [| ? r]]]]; try discriminate.
  destruct (Requests.cmd_needs_uid c).
  - destruct r as [| a [| b r']]; try discriminate.
    destruct (Requests.undigit36 a), (Requests.undigit36 b); try discriminate.
    intros H. inversion H; subst. cbn [length]. lia.
  - intros H. inversion H; subst. cbn [length]. lia.
Qed.

Ltac kill H :=
  repeat (first
    [ discriminate H
    | match type of H with
      | bind ?x _ = _ => let E := fresh "E" in destruct x as [? | ? | ?] eqn:E; cbn [bind] in H
      | (let (_, _) := ?p in _) = _ => destruct p
      | (if ?b then _ else _) = _ => destruct b
      | match ?x with _ => _ end = _ => destruct x
      end ]).

Lemma decode_request_pattern e x uid p : Requests.decode_request e x = Ok (Requests.RUpTest uid p) -> nlen p + 4 <= nlen x.
Proof.
  unfold Requests.decode_request. destruct x as [| b x']; [discriminate |].
  destruct (find (fun c => Requests.is_of_type c b) Requests.commands) as [c |]; [| discriminate].
  destruct (Requests.cmd_new c) as [k |]; [| discriminate].
  unfold Requests.decode_kind.
  destruct (Requests.decode_header c (b :: x')) as [[rest uid'] | |] eqn:EH; cbn [bind]; try discriminate.
  pose proof (decode_header_len _ _ _ _ EH) as HL.
  destruct k; intros H.
  - kill H.
  - unfold Requests.decode_options, Requests.read_bool, Requests.read_codec, Requests.read_byte in H. kill H.
  - kill H.
  - kill H.
  - inversion H; subst. unfold nlen. lia.
  - unfold Requests.decode_packet in H. kill H.
Qed.

(* ------------------------------------------------------------------------------------------------ *)
(* onMessage *)

Definition step_good (from : N) (st : state) (req_len : N) (x : outcome * state) : Prop :=
  (forall s, fst x <> Panicked s) /\ wf (snd x) /\ frame from st (snd x) /\
  (forall r p w, fst x = Answered r p w ->
     resp_ok r /\ nlen (resp_data r) <= N.max 65540 req_len /\ exists c, encode_resp c r = Ok p).

Lemma error_reply_good from st m e n : wf st -> (exists i, e = EBad i /\ (i < 14)%nat) ->
  step_good from st n (reply st m default_codec (RError e), st).
Proof.
  intros Hwf [i [-> Hi]]. cbn [fst snd]. split; [| split; [| split]].
  - intros s. apply reply_np; [exact Hwf | exact I].
  - exact Hwf.
  - apply frame_refl.
  - intros r p w H. apply reply_answered in H. destruct H as [-> HE]. split; [exact I |].
    split; [| eexists; exact HE].
    assert (Hs : nlen (nth i bad_errors []) <= 10).
    { clear -Hi. do 14 (destruct i as [| i]; [vm_compute; discriminate |]). lia. }
    cbn [resp_data err_text]. lia.
Qed.

Lemma serve_spec st0 m from now up request : wf st0 ->
  step_good from st0 (nlen request) (serve st0 m from now up request).
Proof.
  intros Hwf. unfold serve.
  destruct (Requests.decode_request up request) as [req | e | s] eqn:ED.
  - destruct (handle st0 req from now) as [[st1 r] down] eqn:EH.
    destruct (handle_spec _ _ _ _ _ _ _ Hwf EH) as [W [F [R B]]]. cbn [fst snd].
    split; [intros s; apply reply_np; assumption |]. split; [exact W |]. split; [exact F |].
    intros r' p w H. apply reply_answered in H. destruct H as [-> HE]. split; [exact R |].
    split; [| eexists; exact HE].
    assert (req_pattern_len req + 1 <= N.max 1 (nlen request)).
    { destruct req; cbn [req_pattern_len]; try lia. apply decode_request_pattern in ED.
      (* the header takes at least four octets *)
      lia. }
    lia.
  - apply error_reply_good; [exact Hwf |]. exists 4%nat. split; [reflexivity | lia].
  - exfalso. pose proof (Total_proofs.request_total up request) as H. rewrite ED in H. discriminate H.
Qed.

Lemma step_good_frame from st st0 n x : frame from st st0 -> step_good from st0 n x -> step_good from st n x.
Proof.
  intros F [A [B [C D]]]. split; [exact A |]. split; [exact B |]. split; [eapply frame_trans; eassumption | exact D].
Qed.

Lemma ignored_good from st n : wf st -> step_good from st n (Ignored, st).
Proof.
  intros Hwf. cbn. split; [discriminate |]. split; [exact Hwf |]. split; [apply frame_refl |]. intros; discriminate.
Qed.

Lemma route_spec st m from now request : wf st -> step_good from st (nlen request) (route st m from now request).
Proof.
  intros Hwf. unfold route.
  assert (BC : step_good from st (nlen request) (reply st m default_codec (RError E_BADCOMMAND), st)).
  { apply error_reply_good; [exact Hwf |]. exists 3%nat. split; [reflexivity | lia]. }
  destruct request as [| b rest] eqn:ER; [exact BC |]. rewrite <- ER in *.
  destruct (find (fun c => Requests.is_of_type c b) Requests.commands) as [c |]; [| exact BC].
  destruct (Requests.decode_header c request) as [[rest' uid] | e | s] eqn:EH.
  - destruct (validate st uid from now) as [[st0 user] uerr] eqn:EV.
    destruct (validate_spec _ _ _ _ _ _ _ Hwf EV) as [W [F S]].
    apply (step_good_frame from st st0); [exact F |].
    destruct user as [u |].
    + destruct uerr; try (apply serve_spec; exact W).
      apply error_reply_good; [exact W |]. exists 7%nat. split; [reflexivity | lia].
    + assert (BU : step_good from st0 (nlen request) (reply st0 m default_codec (RError E_BADUSER), st0)).
      { apply error_reply_good; [exact W |]. exists 6%nat. split; [reflexivity | lia]. }
      destruct uerr; (destruct (Requests.cmd_needs_uid c); [exact BU | apply serve_spec; exact W]).
  - apply ignored_good. exact Hwf.
  - exfalso. pose proof (Total_proofs.decode_header_np c request) as H. rewrite EH in H. discriminate H.
Qed.

Theorem on_message_spec st m from now : wf st ->
  step_good from st (nlen (request_of st m)) (on_message st m from now).
Proof.
  intros Hwf. unfold on_message, request_of.
  destruct (d_questions m) as [| q qs] eqn:EQ; [apply ignored_good; exact Hwf |].
  destruct (compose (st_dom st) (map (fun q0 => present (q_labels q0)) (q :: qs))) as [request | e | s] eqn:EC.
  - apply route_spec. exact Hwf.
  - apply ignored_good. exact Hwf.
  - exfalso. eapply compose_np; exact EC.
Qed.

(* ------------------------------------------------------------------------------------------------ *)
(* the theorems of Props/C12.v *)

(* (1) no message, from any address, in any well-formed state, makes the handler panic *)
Theorem server_total : forall st m from now, wf st ->
  exists out st', on_message st m from now = (out, st') /\
                  (out = Ignored \/ exists r p w, out = Answered r p w).
Proof.
  intros st m from now Hwf. destruct (on_message_spec st m from now Hwf) as [NP _].
  destruct (on_message st m from now) as [out st'] eqn:E. exists out, st'. split; [reflexivity |].
  cbn [fst] in NP. destruct out as [| r p w | s]; [left; reflexivity | right; exists r, p, w; reflexivity |].
  exfalso. eapply NP; reflexivity.
Qed.

(* (2) the invariant: established by the initial state, preserved by every message *)
Lemma slot_repeat_none n i : slot (repeat None n) i = None.
Proof. unfold slot. destruct (nth_in_or_default (N.to_nat i) (repeat (@None session) n) None) as [H | H]; [apply repeat_spec in H |]; exact H. Qed.

Theorem wf_init : forall dom, dom_conf_ok dom -> wf (init dom).
Proof.
  intros dom Hd. unfold wf, init. cbn [st_dom st_live st_old]. split; [exact Hd |].
  split; [apply repeat_length |]. split; [apply repeat_length |].
  split; intros i s H; rewrite slot_repeat_none in H; discriminate.
Qed.

Theorem wf_preserved : forall st m from now, wf st -> wf (snd (on_message st m from now)).
Proof. intros st m from now Hwf. destruct (on_message_spec st m from now Hwf) as [_ [W _]]. exact W. Qed.

Theorem wf_run : forall ms st, wf st -> wf (run st ms).
Proof.
  induction ms as [| [[m from] now] ms IH]; intros st Hwf; [exact Hwf |].
  unfold run. cbn [fold_left fst snd]. apply IH. apply wf_preserved. exact Hwf.
Qed.

(* part of the invariant: the fragment size of every session, live or retired, is between 1 and 65535 *)
Theorem frag_positive : forall st i s, wf st ->
  slot (st_live st) i = Some s \/ slot (st_old st) i = Some s -> 1 <= s_frag s <= 65535.
Proof.
  intros st i s [_ [_ [_ [HL HO]]]] [H | H]; [apply HL in H | apply HO in H]; destruct H as [_ [H _]]; exact H.
Qed.

(* every state reachable from the initial one by any sequence of messages handles every further message *)
Corollary reachable_total : forall dom ms m from now, dom_conf_ok dom ->
  exists out st', on_message (run (init dom) ms) m from now = (out, st') /\
                  (out = Ignored \/ exists r p w, out = Answered r p w).
Proof. intros dom ms m from now Hd. apply server_total. apply wf_run. apply wf_init. exact Hd. Qed.

(* (3) frame: what a message from `from` leaves alone *)
Theorem sessions_undisturbed : forall st m from now out st', wf st -> on_message st m from now = (out, st') ->
  st_dom st' = st_dom st /\
  (* an established session of another address stays in its slot, with every field unchanged *)
  (forall i s, slot (st_live st) i = Some s -> s_addr s <> from -> slot (st_live st') i = Some s) /\
  (* no session of another address appears or moves: a slot that changes was free or the sender's, and is free or
     the sender's afterwards (the slot a version request allocates was free before) *)
  (forall i, slot (st_live st') i <> slot (st_live st) i ->
             mine from (slot (st_live st) i) /\ mine from (slot (st_live st') i)) /\
  (* a retired session of another address is left alone, unless the sender retires (closes) a session of its own
     into that slot *)
  (forall i s, slot (st_old st) i = Some s -> s_addr s <> from ->
               slot (st_old st') i = Some s \/
               (exists c, slot (st_old st') i = Some c /\ s_addr c = from /\ s_closed c = true)) /\
  (forall i s', slot (st_old st') i = Some s' -> s_addr s' <> from -> slot (st_old st) i = Some s').
Proof.
  intros st m from now out st' Hwf E.
  destruct (on_message_spec st m from now Hwf) as [_ [_ [[FD [FL FO]] _]]]. rewrite E in *. cbn [snd] in *.
  split; [exact FD |]. split; [| split; [| split]].
  - intros i s Hs Ha. destruct (FL i) as [Eq | [M _]]; [congruence |]. rewrite Hs in M. contradiction.
  - intros i Hne. destruct (FL i) as [Eq | MM]; [contradiction | exact MM].
  - intros i s Hs Ha. destruct (FO i) as [Eq | X]; [left; congruence | right; exact X].
  - intros i s' Hs Ha. destruct (FO i) as [Eq | [c [Ec [Hc _]]]]; [congruence |]. rewrite Hs in Ec. inversion Ec; subst. contradiction.
Qed.

(* (4) bounded answers *)

(* the output of a response's Encode: at most three header octets, then the data buffer through a codec *)
Lemma encode_resp_shape c r p : encode_resp c r = Ok p ->
  exists hdr c', p = hdr ++ encode c' (resp_data r) /\ (length hdr <= 3)%nat.
Proof.
  destruct r as [sv uid e | e ack pkt | e | e size d | e d | e d | e]; cbn [encode_resp resp_data]; intros H.
  - inversion H. exists (CODE_V :: enc_uid uid), Base32. split; [reflexivity | cbn [length enc_uid]; lia].
  - inversion H. exists [CODE_C], c. split; [reflexivity | cbn [length]; lia].
  - inversion H. exists [CODE_O], Base32. split; [reflexivity | cbn [length]; lia].
  - inversion H. exists [CODE_R], c. split; [reflexivity | cbn [length]; lia].
  - inversion H. exists [CODE_Z], Base32. split; [reflexivity | cbn [length]; lia].
  - destruct (err_text e); inversion H.
    + exists [CODE_Y; 101], Base32. split; [reflexivity | cbn [length]; lia].
    + exists [CODE_Y; 111], c. split; [reflexivity | cbn [length]; lia].
  - destruct (err_text e); inversion H. exists [CODE_E], Base32. split; [reflexivity | cbn [length]; lia].
Qed.

Theorem answer_bounded : forall st m from now r p w st', wf st ->
  on_message st m from now = (Answered r p w, st') ->
  nlen (resp_data r) <= N.max 65540 (nlen (request_of st m)) /\
  exists hdr c, p = hdr ++ encode c (resp_data r) /\ (length hdr <= 3)%nat.
Proof.
  intros st m from now r p w st' Hwf E.
  destruct (on_message_spec st m from now Hwf) as [_ [_ [_ B]]]. rewrite E in B. cbn [fst] in B.
  destruct (B r p w eq_refl) as [_ [Hb [c Hc]]]. split; [exact Hb |]. eapply encode_resp_shape; exact Hc.
Qed.

(* the composed request is no longer than the question names as the handler sees them *)
Definition text_len (names : list bytes) : nat := fold_right (fun n acc => (length n + acc)%nat) O names.

Lemma strip_loop_len : forall n data acc r, (length data <= n)%nat -> Name.strip_loop data acc = Ok r ->
  (length r <= length data + length acc)%nat.
Proof.
  induction n as [| n IH]; intros data acc r Hn H.
  - destruct data; [| cbn in Hn; lia]. cbn in H. inversion H. rewrite rev_length. lia.
  - destruct data as [| c t]; [cbn in H; inversion H; rewrite rev_length; cbn [length]; lia |].
    cbn [length] in Hn. cbn [Name.strip_loop] in H. cbn [length].
    destruct (c =? Name.c_dot); [apply IH in H; lia |].
    destruct (negb (c =? Name.c_bsl)); [apply IH in H; cbn [length] in *; lia |].
    destruct t as [| a t1]; [inversion H; rewrite rev_length; cbn [length]; lia |]. cbn [length] in Hn.
    destruct t1 as [| b [| d t']]; try (apply IH in H; cbn [length] in *; lia).
    destruct (Name.is_digit a && Name.is_digit b && Name.is_digit d); apply IH in H; cbn [length] in *; lia.
Qed.

Lemma strip_domain_len data dom r : Name.strip_domain data dom = Ok r -> (length r <= length data)%nat.
Proof.
  unfold Name.strip_domain. destruct (Name.all_ascii data && Name.all_ascii dom); [| discriminate].
  intros H. apply (strip_loop_len _ _ _ _ (le_n _)) in H. cbn [length] in H.
  assert ((length (Name.cut_domain data dom) <= length data)%nat); [| lia].
  unfold Name.cut_domain. destruct (Name.has_suffix _ _); [rewrite firstn_length; lia | lia].
Qed.

From Coq Require Import Permutation.

Lemma insert_q_perm x l : Permutation (insert_q x l) (x :: l).
Proof.
  induction l as [| y l IH]; [apply Permutation_refl |].
  cbn [insert_q]. destruct (fst y <? fst x)%Z; [| apply Permutation_refl].
  eapply Permutation_trans; [apply perm_skip; exact IH | apply perm_swap].
Qed.

Lemma sort_q_perm l : Permutation (sort_q l) l.
Proof.
  induction l as [| x l IH]; [apply Permutation_refl |].
  unfold sort_q in *. cbn [fold_right].
  eapply Permutation_trans; [apply insert_q_perm | apply perm_skip; exact IH].
Qed.

Lemma text_len_perm a b : Permutation a b -> text_len a = text_len b.
Proof. unfold text_len. induction 1; cbn [fold_right] in *; lia. Qed.

Lemma concat_res_len (f : bytes -> res bytes) : (forall n r, f n = Ok r -> (length r <= length n)%nat) ->
  forall l r, concat_res (map f l) = Ok r -> (length r <= text_len l)%nat.
Proof.
  intros Hf. induction l as [| n l IH]; intros r H; cbn [map concat_res] in H.
  - inversion H. cbn. lia.
  - destruct (f n) as [a | |] eqn:Ea; cbn [bind] in H; try discriminate.
    destruct (concat_res (map f l)) as [b | |] eqn:Eb; cbn [bind] in H; try discriminate.
    inversion H. rewrite app_length. cbn [text_len fold_right]. specialize (Hf _ _ Ea). specialize (IH _ eq_refl).
    unfold text_len in IH. lia.
Qed.

Lemma compose_len dom names r : compose dom names = Ok r -> (length r <= text_len names)%nat.
Proof.
  unfold compose. destruct names as [| n [| n2 rest]].
  - intros H. inversion H. cbn. lia.
  - intros H. apply strip_domain_len in H. cbn [text_len fold_right]. lia.
  - set (names := n :: n2 :: rest). intros H.
    apply concat_res_len in H.
    + erewrite text_len_perm in H; [exact H |].
      eapply Permutation_trans; [apply Permutation_map; apply sort_q_perm |].
      rewrite map_map. cbn [snd]. rewrite map_id. apply Permutation_refl.
    + intros x r0. destruct (length x <? 2)%nat.
      * intros X. inversion X. cbn. lia.
      * intros X. apply strip_domain_len in X. rewrite skipn_length in X. lia.
Qed.

Lemma escape_byte_len b : (length (Name.escape_byte b) <= 4)%nat.
Proof. unfold Name.escape_byte. destruct (Name.is_special b); [cbn; lia |]. destruct ((b <? 32) || (126 <? b)); cbn; lia. Qed.

Lemma escape_label_len l : (length (Name.escape_label l) <= 4 * length l)%nat.
Proof.
  induction l as [| b l IH]; [cbn; lia |]. unfold Name.escape_label in *. cbn [flat_map length]. rewrite app_length.
  pose proof (escape_byte_len b). lia.
Qed.

Lemma present_len ls : (length (present ls) <= 4 * name_wire_len ls)%nat.
Proof.
  unfold present. destruct ls as [| l0 ls0]; [cbn; lia |]. generalize (l0 :: ls0) as ls. clear.
  induction ls as [| l ls IH]; [cbn; lia |]. cbn [flat_map name_wire_len fold_right]. rewrite !app_length. cbn [length].
  pose proof (escape_label_len l). unfold name_wire_len in IH. lia.
Qed.

(* what the DNS library lets through: every question name takes at most 255 octets on the wire *)
Definition wire_sized (m : dmsg) : Prop := Forall (fun q => (name_wire_len (q_labels q) <= 255)%nat) (d_questions m).

Lemma request_len st m : wire_sized m -> nlen (request_of st m) <= 1020 * N.of_nat (length (d_questions m)).
Proof.
  intros Hw. unfold request_of.
  destruct (compose (st_dom st) (map (fun q => present (q_labels q)) (d_questions m))) as [r | |] eqn:E;
    [| unfold nlen; cbn [length]; lia | unfold nlen; cbn [length]; lia].
  apply compose_len in E.
  assert (H : (text_len (map (fun q => present (q_labels q)) (d_questions m)) <= 1020 * length (d_questions m))%nat).
  { clear - Hw. unfold wire_sized in Hw. induction Hw as [| q qs Hq _ IH]; [cbn; lia |].
    cbn [map text_len fold_right length]. pose proof (present_len (q_labels q)). unfold text_len in IH. lia. }
  unfold nlen. lia.
Qed.

(* the concrete bound: 65540 = 1 status octet + 4 octets of size + MaxDownstreamFragmentSize octets of test data
   (or 5 header octets + one queued chunk); only the echo of an upstream-codec test grows with the query, and a
   query of up to 64 questions stays below it *)
Theorem answer_bounded_wire : forall st m from now r p w st', wf st -> wire_sized m ->
  on_message st m from now = (Answered r p w, st') ->
  nlen (resp_data r) <= N.max 65540 (1020 * N.of_nat (length (d_questions m))).
Proof.
  intros st m from now r p w st' Hwf Hw E.
  destruct (answer_bounded _ _ _ _ _ _ _ _ Hwf E) as [B _]. pose proof (request_len st m Hw). lia.
Qed.

Corollary answer_bounded_one : forall st q from now r p w st', wf st -> (name_wire_len (q_labels q) <= 255)%nat ->
  on_message st {| d_questions := [q] |} from now = (Answered r p w, st') ->
  nlen (resp_data r) <= 65540.
Proof.
  intros st q from now r p w st' Hwf Hq E.
  assert (Hw : wire_sized {| d_questions := [q] |}) by (unfold wire_sized; cbn [d_questions]; constructor; [exact Hq | constructor]).
  pose proof (answer_bounded_wire _ _ _ _ _ _ _ _ Hwf Hw E) as H.
  unfold nlen in *. cbn [d_questions length] in H. lia.
Qed.

(* ------------------------------------------------------------------------------------------------ *)
(* (4b) a later Write on a session: OutQueue.Write with the stored fragment size cuts n octets into at most n
   chunks and ends (the fragment size is at least 1 in every well-formed state) *)

Lemma write_chunks_ok mtu : (1 <= mtu)%nat -> forall fuel q b, (length b <= fuel)%nat ->
  exists q', Queues.write_chunks fuel q b mtu = Some q' /\
             (length (Queues.out_q q') <= length (Queues.out_q q) + length b)%nat /\
             (N.of_nat mtu <= max_frag -> Forall chunk_ok (Queues.out_q q) -> Forall chunk_ok (Queues.out_q q')).
Proof.
  intros Hm. induction fuel as [| f IH]; intros q b Hb.
  - destruct b; [| cbn in Hb; lia]. exists q. cbn. split; [reflexivity |]. split; [lia | intros _ H; exact H].
  - destruct b as [| x b']; [exists q; cbn; split; [reflexivity |]; split; [lia | intros _ H; exact H] |].
    cbn [Queues.write_chunks]. set (b := x :: b') in *.
    destruct (Nat.ltb mtu (length b)) eqn:EL.
    + apply Nat.ltb_lt in EL.
      destruct (IH (Queues.add_chunk q (firstn mtu b)) (skipn mtu b)) as [q' [E [L C]]].
      { rewrite skipn_length. lia. }
      exists q'. split; [exact E |]. split.
      * unfold Queues.add_chunk in L. cbn [Queues.out_q] in L. rewrite app_length, skipn_length in L. cbn [length] in L. lia.
      * intros Hmax Hq. apply C; [exact Hmax |]. unfold Queues.add_chunk. cbn [Queues.out_q].
        apply Forall_app. split; [exact Hq |]. constructor; [| constructor].
        unfold chunk_ok, nlen. cbn [Queues.p_data]. rewrite firstn_length. lia.
    + apply Nat.ltb_ge in EL. exists (Queues.add_chunk q b). split; [reflexivity |]. split.
      * unfold Queues.add_chunk. cbn [Queues.out_q]. rewrite app_length. unfold b. cbn [length]. lia.
      * intros Hmax Hq. unfold Queues.add_chunk. cbn [Queues.out_q].
        apply Forall_app. split; [exact Hq |]. constructor; [| constructor].
        unfold chunk_ok, nlen. cbn [Queues.p_data]. lia.
Qed.

Theorem write_bounded : forall i s b, session_ok i s ->
  exists s', session_write s b = Some s' /\ session_ok i s' /\
             (length (Queues.out_q (s_out s')) <= length (Queues.out_q (s_out s)) + length b)%nat.
Proof.
  intros i s b [Hu [Hf Hq]]. unfold session_write.
  destruct (write_chunks_ok (N.to_nat (s_frag s)) ltac:(lia) (length b) (s_out s) b (le_n _)) as [q' [E [L C]]].
  rewrite E. eexists. split; [reflexivity |]. split.
  - apply with_queues_ok; [split; [exact Hu | split; assumption] |]. apply C; [unfold max_frag in *; lia | exact Hq].
  - cbn [with_queues s_out]. exact L.
Qed.

(* fragment size 0 is what used to make Write loop for ever: the model runs out of fuel *)
Example write_zero_diverges :
  session_write (with_options fixture_session None None (Some 0) None None) (wd "0123456789") = None.
Proof. vm_compute. reflexivity. Qed.

(* ------------------------------------------------------------------------------------------------ *)
(* (5) the client's side: Msg.Unpack (specification level), UnwrapDnsResponse, DecodeDnsResponseWithParams *)

Theorem client_total : forall c dom w,
  (forall s, unpack w <> Panic s) /\
  (forall m, exists p, unwrap m dom = Ok p) /\
  (forall data s, decode_resp c data <> Panic s) /\
  hd_error (client_side c dom w) <> Some (W "panic").
Proof.
  intros c dom w. split; [intros s; apply unpack_no_panic |]. split; [intros m; apply unwrap_total |].
  split; [intros data s; apply decode_resp_total |]. apply (client_side_total c dom w []).
Qed.

(* ------------------------------------------------------------------------------------------------ *)
(* the label-level reading of a question name agrees with the name model of Wire/Name.v *)

Lemma unpack_labels_present : forall fuel w budget ls rest acc,
  unpack_labels fuel w budget = Ok (ls, rest) ->
  Name.unpack_loop fuel w budget acc = Ok (acc ++ flat_map (fun l => Name.escape_label l ++ [Name.c_dot]) ls, rest).
Proof.
  induction fuel as [| f IH]; intros w budget ls rest acc H; cbn [unpack_labels] in H; [discriminate |].
  cbn [Name.unpack_loop]. destruct w as [| c t]; [discriminate |].
  destruct (c =? 0); [inversion H; cbn [flat_map]; rewrite app_nil_r; reflexivity |].
  destruct (N.land c 192 =? 0).
  - destruct (length t <? N.to_nat c)%nat; [discriminate |].
    destruct (budget - (Z.of_N c + 1) <=? 0)%Z; [discriminate |].
    destruct (unpack_labels f (skipn (N.to_nat c) t) (budget - (Z.of_N c + 1))) as [[ls' rest'] | |] eqn:E; cbn [bind] in H; try discriminate.
    inversion H; subst ls rest. cbn [fst snd].
    rewrite (IH _ _ _ _ (acc ++ Name.escape_label (firstn (N.to_nat c) t) ++ [Name.c_dot]) E).
    cbn [flat_map]. rewrite <- !app_assoc. reflexivity.
  - destruct (N.land c 192 =? 192); discriminate.
Qed.

Theorem unpack_labels_name : forall w ls rest,
  unpack_labels (length w) w 255 = Ok (ls, rest) -> Name.unpack_name_rest w = Ok (present ls, rest).
Proof.
  intros w ls rest H. unfold Name.unpack_name_rest.
  rewrite (unpack_labels_present _ _ _ _ _ [] H). cbn [app bind].
  unfold present. destruct ls as [| l ls']; [reflexivity |].
  destruct (flat_map (fun l0 => Name.escape_label l0 ++ [Name.c_dot]) (l :: ls')) eqn:E; [| reflexivity].
  exfalso. cbn [flat_map] in E. destruct (Name.escape_label l); discriminate.
Qed.

(* ------------------------------------------------------------------------------------------------ *)
(* non-vacuity *)

Lemma test_domain_ok : dom_conf_ok test_domain.
Proof. split; vm_compute; reflexivity. Qed.

Lemma fixture_session_ok : session_ok 0 fixture_session.
Proof.
  split; [reflexivity |]. split; [vm_compute; split; discriminate |].
  cbn. constructor; [vm_compute; discriminate | constructor].
Qed.

(* the fixture of the correspondence check: a well-formed state with one established session *)
Example fixture_wf : wf fixture /\ slot (st_live fixture) 0 = Some fixture_session.
Proof.
  split; [| reflexivity]. apply wf_set_live; [apply wf_init; exact test_domain_ok | unfold max_users; lia |].
  intros s H. inversion H. exact fixture_session_ok.
Qed.

Definition q_of (ls : list bytes) (qt : N) : dmsg := {| d_questions := [{| q_labels := ls; q_type := qt; q_class := 1 |}] |}.

(* an ordinary lookup of www.example.org (TXT) from a stranger: answered with BADCOMMAND, nothing changes *)
Example stray_badcommand :
  exists p w, on_message fixture (q_of [wd "www"; wd "example"; wd "org"] 16) 9 2 = (Answered (RError E_BADCOMMAND) p w, fixture).
Proof. eexists. eexists. vm_compute. reflexivity. Qed.

(* the same lookup with a query type the tunnel does not serve (ANY), and a bare command letter: ignored *)
Example stray_ignored :
  on_message fixture (q_of [wd "www"; wd "example"; wd "org"] 255) 9 2 = (Ignored, fixture) /\
  on_message fixture (q_of [wd "v"; wd "example"; wd "org"] 16) 9 2 = (Ignored, fixture) /\
  on_message fixture {| d_questions := [] |} 9 2 = (Ignored, fixture).
Proof. repeat split; vm_compute; reflexivity. Qed.

(* a name that ends in an escaped dot followed by the domain's text: StripDomain cuts inside the escape; answered *)
Example escaped_dot_answered :
  (exists p w, on_message fixture (q_of [wd "vaaa.example"; wd "org"] 10) 9 2 = (Answered (RError E_BADCODEC) p w, fixture)) /\
  on_message fixture (q_of [wd "v.example"; wd "org"] 10) 9 2 = (Ignored, fixture).
Proof. split; [eexists; eexists |]; vm_compute; reflexivity. Qed.

(* a stranger naming the established session in a packet request gets BADIP inside a packet response *)
Example stray_packet_badip :
  exists p w, on_message fixture (q_of [wd "caaa00" ++ encode Base32 [0; 0; 0]; wd "example"; wd "org"] 10) 9 2
              = (Answered (RPkt E_BADIP 0 None) p w, fixture).
Proof. eexists. eexists. vm_compute. reflexivity. Qed.

(* the owner asking for fragment size 0, or one above the limit: BADFRAG, nothing applied *)
Example owner_badfrag :
  (exists p w, on_message fixture (q_of [wd "oaaa00" ++ encode Base32 [255; 255; 255; 32; 32; 0; 0; 0; 0]; wd "example"; wd "org"] 10) 1 2
               = (Answered (ROpt E_BADFRAG) p w, set_live fixture 0 (Some (touch fixture_session 2)))) /\
  (exists p w, on_message fixture (q_of [wd "oaaa00" ++ encode Base32 [255; 255; 255; 32; 32; 0; 0; 1; 0]; wd "example"; wd "org"] 10) 1 2
               = (Answered (ROpt E_BADFRAG) p w, set_live fixture 0 (Some (touch fixture_session 2)))).
Proof. split; eexists; eexists; vm_compute; reflexivity. Qed.

(* the fixture is what the model itself reaches from the initial state: a version request from address 1, one chunk
   queued by the application, one packet request carrying "hello" *)
Definition version_msg : dmsg := q_of [wd "vaaa" ++ encode Base32 (le32 4096); wd "example"; wd "org"] 10.
Definition hello_msg : dmsg :=
  q_of [wd "caaa00" ++ encode Base32 (le16 65535 ++ [255] ++ le16 0 ++ wd "hello"); wd "example"; wd "org"] 10.
Definition queue_chunk (st : state) (i : N) (d : bytes) : state :=
  match slot (st_live st) i with
  | Some s => set_live st i (Some (with_queues s (s_in s) (Queues.add_chunk (s_out s) d)))
  | None => st
  end.

Example fixture_reached :
  snd (on_message (queue_chunk (snd (on_message (init test_domain) version_msg 1 0)) 0 (wd "downstream-chunk")) hello_msg 1 1)
  = fixture.
Proof. vm_compute. reflexivity. Qed.

Print Assumptions server_total.
Print Assumptions wf_preserved.
Print Assumptions sessions_undisturbed.
Print Assumptions answer_bounded.
Print Assumptions write_bounded.
Print Assumptions client_total.
