(* C12 - model of the DNS-tunnel server's message handler: internal/streams/dns/dns_server_connection.go
   (onMessage, validateAndGetUser, newUser, closeConnection, packet, version, setOptionsRequest,
   testDownstreamFragmentSize, testUpstreamEncoder, testDownstreamEncoder), commands.ComposeRequest for any number
   of questions, and the c12s harness protocol.  Definitions only; proofs are in Server_proofs.v.

   The pieces come from the other models: names and StripDomain (Wire/Name.v), the request decoder
   (Wire/Requests.v), the response encoders (Wrap/Responses.v), WrapDnsResponse and the DNS library's Pack/Unpack
   (Wrap/Wrap.v), the in/out queues (Queue/Queues.v). *)
From Coq Require Import String List NArith ZArith Bool Arith.
From SA Require Import Base.Tok Codec.Bits Codec.Codec Gen.Alphabets.
From SA Require Queue.Queues Wire.Name Wire.Requests Gen.Nego.
From SA.Wrap Require Import Wrap Responses.
Import ListNotations.
Open Scope N_scope.
Local Notation length := List.length.


(* ------------------------------------------------------------------------------------------------ *)
(* the message as the handler receives it from the DNS library *)

(* one entry of the question section: the name as its wire labels, type and class *)
Record question := { q_labels : list bytes; q_type : N; q_class : N }.

(* only the question section matters to onMessage *)
Record dmsg := { d_questions : list question }.

(* the presentation-format string UnpackDomainName makes of a name: every label escaped and followed by a
   dot; "." for the root *)
Definition present (ls : list bytes) : bytes :=
  match ls with
  | [] => [Name.c_dot]
  | _ => flat_map (fun l => Name.escape_label l ++ [Name.c_dot]) ls
  end.

Definition qname (m : dmsg) : bytes :=
  match d_questions m with q :: _ => present (q_labels q) | [] => [] end.
Definition qtype (m : dmsg) : N :=
  match d_questions m with q :: _ => q_type q | [] => 0 end.

(* ------------------------------------------------------------------------------------------------ *)
(* commands.ComposeRequest *)

(* order := Base32CharToInt(name[0]) + Base32CharToInt(name[1])*32, 0 for a name shorter than two octets *)
Definition order_of (name : bytes) : Z :=
  match name with
  | c0 :: c1 :: _ => (b32_to_int c0 + b32_to_int c1 * 32)%Z
  | _ => 0%Z
  end.

(* sort.Slice by order: a stable insertion sort (Go's algorithm up to 12 questions; beyond that Go's pdqsort
   agrees whenever the orders are pairwise distinct or the questions are identical) *)
Fixpoint insert_q (x : Z * bytes) (l : list (Z * bytes)) : list (Z * bytes) :=
  match l with
  | [] => [x]
  | y :: r => if (fst y <? fst x)%Z then y :: insert_q x r else x :: l
  end.
Definition sort_q (l : list (Z * bytes)) : list (Z * bytes) := fold_right insert_q [] l.

(* one question: StripDomain of the name; several: sorted by their order tag, every name of at least two
   octets loses the tag and is stripped, shorter ones are skipped; the parts are concatenated *)
Definition compose (dom : bytes) (names : list bytes) : res bytes :=
  match names with
  | [] => Ok []
  | [n] => Name.strip_domain n dom
  | _ =>
    let sorted := map snd (sort_q (map (fun n => (order_of n, n)) names)) in
    concat_res (map (fun n => if (length n <? 2)%nat then Ok [] else Name.strip_domain (skipn 2 n) dom) sorted)
  end.

(* ------------------------------------------------------------------------------------------------ *)
(* server state *)

(* userConnection: the fields the handler reads or writes *)
Record session := {
  s_uid : N;            (* UserId *)
  s_addr : N;           (* remoteAddress, an opaque identity (compared as strings in Go) *)
  s_last : N;           (* lastConnection *)
  s_closed : bool;
  s_in : Queues.inq;
  s_out : Queues.outq;
  s_up : codec;         (* Serializer.Upstream.Encoder *)
  s_down : codec;       (* Serializer.Downstream.Encoder *)
  s_frag : N;           (* Serializer.Downstream.FragmentSize *)
  s_lazy : bool;        (* Serializer.UseLazyMode *)
  s_multi : bool;       (* Serializer.UseMultiQuery *)
}.

(* ServerDnsListener: the tunnel domain, connections and oldConnections *)
Record state := { st_dom : bytes; st_live : list (option session); st_old : list (option session) }.

Definition max_users : nat := 1296.                 (* MaxUserCount = 36 * 36 *)
Definition protocol_version : N := 4096.            (* ProtocolVersion = 0x00001000 *)
Definition max_frag : N := 65535.                   (* MaxDownstreamFragmentSize = 0xFFFF *)
Definition default_frag : N := 1534.                (* DefaultSerializer.Downstream.FragmentSize *)
Definition default_codec : codec := Base32.         (* DefaultSerializer: Base32 both ways *)

Definition init (dom : bytes) : state :=
  {| st_dom := dom; st_live := repeat None max_users; st_old := repeat None max_users |}.

Definition slot (l : list (option session)) (i : N) : option session := nth (N.to_nat i) l None.

Fixpoint set_nth {A} (l : list A) (i : nat) (x : A) : list A :=
  match l, i with
  | [], _ => []
  | _ :: r, O => x :: r
  | y :: r, S i' => y :: set_nth r i' x
  end.

Definition set_live (st : state) (i : N) (v : option session) : state :=
  {| st_dom := st_dom st; st_live := set_nth (st_live st) (N.to_nat i) v; st_old := st_old st |}.
Definition set_old (st : state) (i : N) (v : option session) : state :=
  {| st_dom := st_dom st; st_live := st_live st; st_old := set_nth (st_old st) (N.to_nat i) v |}.

Definition touch (u : session) (now : N) : session :=
  {| s_uid := s_uid u; s_addr := s_addr u; s_last := now; s_closed := s_closed u; s_in := s_in u; s_out := s_out u;
     s_up := s_up u; s_down := s_down u; s_frag := s_frag u; s_lazy := s_lazy u; s_multi := s_multi u |}.

Definition mark_closed (u : session) : session :=
  {| s_uid := s_uid u; s_addr := s_addr u; s_last := s_last u; s_closed := true; s_in := s_in u; s_out := s_out u;
     s_up := s_up u; s_down := s_down u; s_frag := s_frag u; s_lazy := s_lazy u; s_multi := s_multi u |}.

Definition with_queues (u : session) (i : Queues.inq) (o : Queues.outq) : session :=
  {| s_uid := s_uid u; s_addr := s_addr u; s_last := s_last u; s_closed := s_closed u; s_in := i; s_out := o;
     s_up := s_up u; s_down := s_down u; s_frag := s_frag u; s_lazy := s_lazy u; s_multi := s_multi u |}.

Definition or_else {A} (o : option A) (d : A) : A := match o with Some x => x | None => d end.

(* the assignments of setOptionsRequest, each guarded by "!= nil" *)
Definition with_options (u : session) (up down : option codec) (frag : option N) (lz mq : option bool) : session :=
  {| s_uid := s_uid u; s_addr := s_addr u; s_last := s_last u; s_closed := s_closed u; s_in := s_in u; s_out := s_out u;
     s_up := or_else up (s_up u); s_down := or_else down (s_down u); s_frag := or_else frag (s_frag u);
     s_lazy := or_else lz (s_lazy u); s_multi := or_else mq (s_multi u) |}.

Inductive verr := VOk | VBadUser | VBadIp | VBadConn.

(* validateAndGetUser: lastConnection is refreshed only on success; nothing else is written *)
Definition validate (st : state) (id from now : N) : state * option session * verr :=
  match slot (st_live st) id with
  | None =>
    match slot (st_old st) id with
    | Some o => if s_addr o =? from then (st, Some o, VBadConn) else (st, None, VBadUser)
    | None => (st, None, VBadUser)
    end
  | Some u =>
    if negb (s_addr u =? from) then (st, Some u, VBadIp)
    else let u' := touch u now in (set_live st id (Some u'), Some u', VOk)
  end.

Fixpoint first_free (l : list (option session)) (i : N) : option N :=
  match l with
  | [] => None
  | None :: _ => Some i
  | Some _ :: r => first_free r (i + 1)
  end.

Definition fresh (i from now : N) : session :=
  {| s_uid := i; s_addr := from; s_last := now; s_closed := false; s_in := Queues.new_inq 0; s_out := Queues.new_outq 0;
     s_up := default_codec; s_down := default_codec; s_frag := default_frag; s_lazy := false; s_multi := false |}.

(* newUser: the lowest free slot, or BadServerFull.  (The accept channel the new connection is handed to holds
   MaxUserCount entries and is drained by the application's Accept loop: not modelled.) *)
Definition new_user (st : state) (from now : N) : state * option session :=
  match first_free (st_live st) 0 with
  | None => (st, None)
  | Some i => let u := fresh i from now in (set_live st i (Some u), Some u)
  end.

(* closeConnection(u) as setOptionsRequest calls it: u is the entry validateAndGetUser has just returned, so
   the identity test `user != u` fails and the session is retired *)
Definition close_conn (st : state) (u : session) (now : N) : state :=
  match validate st (s_uid u) (s_addr u) now with
  | (st1, Some cur, VOk) => set_old (set_live st1 (s_uid u) None) (s_uid u) (Some (mark_closed cur))
  | (st1, _, _) => st1
  end.

(* ------------------------------------------------------------------------------------------------ *)
(* answers *)

Inductive outcome :=
| Ignored                                              (* onMessage returns an error or nil: nothing is sent *)
| Answered (r : resp) (payload : bytes) (m : msg)     (* the response, its Encode output, the wrapped reply *)
| Panicked (site : bytes).

Definition E_BADVER : rerr := EBad 0.
Definition E_BADIP : rerr := EBad 2.
Definition E_BADCOMMAND : rerr := EBad 3.
Definition E_BADCODEC : rerr := EBad 4.
Definition E_BADFRAG : rerr := EBad 5.
Definition E_BADUSER : rerr := EBad 6.
Definition E_BADCONN : rerr := EBad 7.
Definition E_FULL : rerr := EBad 8.

Definition err_of (e : verr) : rerr :=
  match e with VOk => ENone | VBadUser => E_BADUSER | VBadIp => E_BADIP | VBadConn => E_BADCONN end.

(* Serializer.EncodeDnsResponseWithParams: resp.Encode with the downstream codec, msg.SetReply, WrapDnsResponse
   by the type of the first question.  An unsupported query type or a wrapping error is returned as an error
   (nothing is sent). *)
Definition reply (st : state) (m : dmsg) (c : codec) (r : resp) : outcome :=
  match encode_resp c r with
  | Panic s => Panicked s
  | Err _ => Ignored
  | Ok payload =>
    match rtype_of_code (qtype m) with
    | None => Ignored
    | Some rt =>
      match wrap rt payload (st_dom st) (qname m) with
      | Panic s => Panicked s
      | Err _ => Ignored
      | Ok w => Answered r payload w
      end
    end
  end.

(* testDownstreamFragmentSize: v := 107; data[i] = v; v = (v + 107) & 0xff *)
Fixpoint frag_pattern_from (n : nat) (v : N) : bytes :=
  match n with
  | O => []
  | S k => v :: frag_pattern_from k ((v + 107) mod 256)
  end.
Definition frag_pattern (n : nat) : bytes := frag_pattern_from n 107.

(* the text of errors.Wrapf(ErrInvalidSequenceNumber, "Received #%d but expected #%d. Acked: %v", ..): only its
   fixed part is modelled *)
Definition badseq_text : bytes := wd "invalid chunk sequence".

Definition mk_packet (p : N * bytes) : Queues.packet := {| Queues.p_seq := fst p; Queues.p_data := snd p |}.
Definition packet_pair (p : Queues.packet) : N * bytes := (Queues.p_seq p, Queues.p_data p).

Definition down_of (u : option session) : codec :=
  match u with Some s => s_down s | None => default_codec end.

(* the six handlers: new state, response, and the downstream codec the response is encoded with *)
Definition handle (st : state) (req : Requests.request) (from now : N) : state * resp * codec :=
  match req with
  | Requests.RDownTest d => (st, RDown ENone SA.Gen.Nego.download_codec_check, d)
  | Requests.RUpTest uid pattern =>
    let '(st1, _, e) := validate st uid from now in (st1, RUp (err_of e) pattern, default_codec)
  | Requests.RFragSize uid size =>
    let '(st1, u, e) := validate st uid from now in
    let r := match e with
             | VOk => if max_frag <? size then RFrag E_BADFRAG 0 [] else RFrag ENone size (frag_pattern (N.to_nat size))
             | _ => RFrag (err_of e) 0 []
             end in
    (st1, r, down_of u)
  | Requests.RSetOptions uid lz mq cl down up frag =>
    let '(st1, u, e) := validate st uid from now in
    match u, e with
    | Some user, VOk =>
      match cl with
      | Some true => (close_conn st1 user now, ROpt ENone, default_codec)
      | _ =>
        match frag with
        | Some f =>
          if (f =? 0) || (max_frag <? f) then (st1, ROpt E_BADFRAG, default_codec)
          else (set_live st1 uid (Some (with_options user up down frag lz mq)), ROpt ENone, default_codec)
        | None => (set_live st1 uid (Some (with_options user up down frag lz mq)), ROpt ENone, default_codec)
        end
      end
    | _, _ => (st1, ROpt (err_of e), default_codec)
    end
  | Requests.RVersion v =>
    if v =? protocol_version then
      match new_user st from now with
      | (st1, Some u) => (st1, RVer protocol_version (s_uid u) ENone, default_codec)
      | (st1, None) => (st1, RVer protocol_version 0 E_FULL, default_codec)
      end
    else (st, RVer protocol_version 0 E_BADVER, default_codec)
  | Requests.RPacket uid ack pkt =>
    let '(st1, u, e) := validate st uid from now in
    match u, e with
    | Some user, VOk =>
      let o1 := Queues.update_acked (s_out user) ack in
      let (i1, bad) := Queues.in_append (s_in user) (option_map mk_packet pkt) in
      if bad then (set_live st1 uid (Some (with_queues user i1 o1)), RPkt (ECustom badseq_text) 0 None, s_down user)
      else
        let (o2, p) := Queues.next_chunk o1 in
        (set_live st1 uid (Some (with_queues user i1 o2)),
         RPkt ENone ((Queues.in_next i1 + 65535) mod 65536) (option_map packet_pair p), s_down user)
    | _, _ => (st1, RPkt (err_of e) 0 None, down_of u)
    end
  end.

(* the tail of onMessage: DecodeDnsRequest with the upstream codec of the serializer in force, then the handler.
   The reply is built from the serializer's domain, which never changes. *)
Definition serve (st0 : state) (m : dmsg) (from now : N) (up : codec) (request : bytes) : outcome * state :=
  match Requests.decode_request up request with
  | Panic s => (Panicked s, st0)
  | Err _ => (reply st0 m default_codec (RError E_BADCODEC), st0)
  | Ok req => let '(st1, r, down) := handle st0 req from now in (reply st1 m down r, st1)
  end.

(* the command loop of onMessage on the composed request, and the checks that follow it *)
Definition route (st : state) (m : dmsg) (from now : N) (request : bytes) : outcome * state :=
  match request with
  | [] => (reply st m default_codec (RError E_BADCOMMAND), st)          (* IsOfType is false for every command *)
  | b :: _ =>
    match find (fun c => Requests.is_of_type c b) Requests.commands with
    | None => (reply st m default_codec (RError E_BADCOMMAND), st)
    | Some c =>
      match Requests.decode_header c request with
      | Panic s => (Panicked s, st)
      | Err _ => (Ignored, st)                                          (* return nil, err *)
      | Ok (_, uid) =>
        let '(st0, user, uerr) := validate st uid from now in
        match user, uerr with
        | None, _ =>
          if Requests.cmd_needs_uid c then (reply st0 m default_codec (RError E_BADUSER), st0)
          else serve st0 m from now default_codec request
        | Some _, VBadConn => (reply st0 m default_codec (RError E_BADCONN), st0)
        | Some u, _ => serve st0 m from now (s_up u) request                (* BadIp included: that user's serializer *)
        end
      end
    end
  end.

(* ServerDnsListener.onMessage *)
Definition on_message (st : state) (m : dmsg) (from now : N) : outcome * state :=
  match d_questions m with
  | [] => (Ignored, st)                                       (* "Message without a question -- ignoring" *)
  | qs =>
    match compose (st_dom st) (map (fun q => present (q_labels q)) qs) with
    | Panic s => (Panicked s, st)
    | Err _ => (Ignored, st)                                  (* names that are not ASCII: outside the model *)
    | Ok request => route st m from now request
    end
  end.

(* a later Write on the session by the application: OutQueue.Write with the stored fragment size *)
Definition session_write (s : session) (b : bytes) : option session :=
  match Queues.write_chunks (length b) (s_out s) b (N.to_nat (s_frag s)) with
  | Some o => Some (with_queues s (s_in s) o)
  | None => None                                              (* the loop never ends: fragment size 0 *)
  end.

(* the data buffer a response's Encode fills before it is encoded with a codec *)
Definition resp_data (r : resp) : bytes :=
  match r with
  | RVer sv uid e => le32 sv ++ match err_text e with Some t => 255 :: t | None => [0] end
  | RPkt e ack pkt =>
    match err_text e with
    | Some t => 255 :: t
    | None => match pkt with Some (seq, d) => 1 :: le16 ack ++ le16 seq ++ d | None => 0 :: le16 ack end
    end
  | ROpt e => match err_text e with Some t => 255 :: t | None => [0] end
  | RFrag e size d => match err_text e with Some t => 255 :: t | None => 0 :: le32 size ++ d end
  | RUp e d => match err_text e with Some t => 255 :: t | None => 0 :: d end
  | RDown e d => match err_text e with Some t => t | None => d end
  | RError e => match err_text e with Some t => t | None => [] end
  end.

(* ------------------------------------------------------------------------------------------------ *)
(* the DNS library's Msg.Unpack on the query: question section only, no compression pointers *)

(* UnpackDomainName, label by label; budget: maxDomainNameWireOctets = 255 *)
Fixpoint unpack_labels (fuel : nat) (w : bytes) (budget : Z) : res (list bytes * bytes) :=
  match fuel with
  | O => Err (wd "buf")
  | S f =>
    match w with
    | [] => Err (wd "buf")
    | c :: t =>
      if c =? 0 then Ok ([], t)
      else if N.land c 192 =? 0 then
        if (length t <? N.to_nat c)%nat then Err (wd "buf")
        else
          let budget' := (budget - (Z.of_N c + 1))%Z in
          if (budget' <=? 0)%Z then Err (wd "longdomain")
          else
            do lr <- unpack_labels f (skipn (N.to_nat c) t) budget' ;;
            Ok (firstn (N.to_nat c) t :: fst lr, snd lr)
      else if N.land c 192 =? 192 then Err (wd "pointer")
      else Err (wd "rdata")
    end
  end.

(* unpackQuestion: the message may end after the name or after the type; a truncated class is not an error *)
Definition unpack_question (w : bytes) : res (question * bytes) :=
  do lr <- unpack_labels (length w) w 255 ;;
  let ls := fst lr in
  match snd lr with
  | [] => Ok ({| q_labels := ls; q_type := 0; q_class := 0 |}, [])
  | [_] => Err (wd "overflow")
  | hi :: lo :: rest =>
    match rest with
    | chi :: clo :: rest' => Ok ({| q_labels := ls; q_type := hi * 256 + lo; q_class := chi * 256 + clo |}, rest')
    | _ => Ok ({| q_labels := ls; q_type := hi * 256 + lo; q_class := 0 |}, [])
    end
  end.

Fixpoint unpack_questions (n : nat) (w : bytes) : res (list question) :=
  match n with
  | O => Ok []
  | S n' =>
    do qr <- unpack_question w ;;
    do rest <- unpack_questions n' (snd qr) ;;
    Ok (fst qr :: rest)
  end.

(* ------------------------------------------------------------------------------------------------ *)
(* the c12s operation of /verif/harness/cmd/verifharness/c12.go *)

Definition test_domain : bytes := wd "example.org".

(* the fixture: user 0 owned by address 1; the packet "hello" has arrived (in.NextSeqNo = 1, acknowledgement
   65535 recorded); one downstream chunk (number 0) is queued and has been sent once *)
Definition fixture_session : session :=
  {| s_uid := 0; s_addr := 1; s_last := 1; s_closed := false;
     s_in := {| Queues.in_next := 1; Queues.in_buf := wd "hello"; Queues.in_future := []; Queues.in_acked := [0]; Queues.in_total := 5 |};
     s_out := {| Queues.out_next := 1; Queues.out_q := [{| Queues.p_seq := 0; Queues.p_data := wd "downstream-chunk" |}]; Queues.out_acked := [65535] |};
     s_up := Base32; s_down := Base32; s_frag := default_frag; s_lazy := false; s_multi := false |}.

Definition fixture : state := set_live (init test_domain) 0 (Some fixture_session).

(* sessionSnap: where the session object is, and the fields the harness prints *)
Definition snap (st : state) : list tok :=
  match slot (st_live st) 0, slot (st_old st) 0 with
  | Some s, _ => [W "live0"; TN (Queues.in_next (s_in s)); TN (Queues.out_next (s_out s)); Tnat (length (Queues.out_q (s_out s)));
                  TN (s_frag s); Tbool (s_closed s)]
  | None, Some s => [W "old0"; TN (Queues.in_next (s_in s)); TN (Queues.out_next (s_out s)); Tnat (length (Queues.out_q (s_out s)));
                     TN (s_frag s); Tbool (s_closed s)]
  | None, None => [W "gone"]
  end.

Definition tok_eqb (a b : tok) : bool :=
  match a, b with
  | TI x, TI y => Z.eqb x y
  | TB x, TB y => bytes_eqb x y
  | TW x, TW y => bytes_eqb x y
  | _, _ => false
  end.
Fixpoint toks_eqb (a b : list tok) : bool :=
  match a, b with
  | [], [] => true
  | x :: a', y :: b' => tok_eqb x y && toks_eqb a' b'
  | _, _ => false
  end.

(* errCode of the harness *)
Definition err_code (e : rerr) : bytes :=
  match e with
  | EBad 6 => wd "baduser" | EBad 2 => wd "badip" | EBad 7 => wd "badconn" | EBad 8 => wd "full"
  | EBad 0 => wd "badver" | EBad 3 => wd "badcommand" | EBad 4 => wd "badcodec"
  | ECustom t => if bytes_eqb t badseq_text then wd "badseq" else wd "other"
  | _ => wd "other"
  end.

(* what the harness reads off the answer: it goes through Pack and Unpack and UnwrapDnsResponse *)
Definition answer_kind (dom : bytes) (m : msg) : bytes :=
  match pack m with
  | Ok w =>
    match unpack w with
    | Ok m' =>
      match unwrap m' dom with
      | Ok [] => wd "empty"
      | Ok (b :: rest) =>
        if b =? 101 then
          match decode_error (b :: rest) with
          | Ok (RError e) => wd "error-" ++ err_code e
          | _ => wd "cmd-" ++ [b]
          end
        else wd "cmd-" ++ [b]
      | _ => wd "unpackable-answer"
      end
    | _ => wd "unpackable-answer"
    end
  | _ => wd "unpackable-answer"
  end.

Definition zu8 (z : Z) : N := Z.to_N (z mod 256)%Z.

Fixpoint labels_of (ts : list tok) : option (list bytes) :=
  match ts with
  | [] => Some []
  | TB l :: r => option_map (cons l) (labels_of r)
  | _ => None
  end.

(* the question section as the harness writes it: the length octet of a label is byte(len(label)) *)
Definition question_wire (qt qc : N) (ls : list bytes) : bytes :=
  flat_map (fun l => N.of_nat (length l) mod 256 :: l) ls ++ [0; (qt / 256) mod 256; qt mod 256; (qc / 256) mod 256; qc mod 256].

Definition c12s_obs (qt qc : N) (nq : nat) (owner : bool) (ls : list bytes) : list tok :=
  match unpack_questions nq (concat (repeat (question_wire qt qc ls) nq)) with
  | Panic s => [W "panic"; TW s]
  | Err e => if bytes_eqb e (wd "pointer") then [W "model-limit"] else [W "unpackable"]
  | Ok qs =>
    let m := {| d_questions := qs |} in
    let from := if owner then 1 else 9 in
    let '(out, st') := on_message fixture m from 2 in
    let head :=
        match out with
        | Ignored => [W "noanswer"]
        | Panicked s => [W "panic"; TW s]
        | Answered _ _ w => [W "answered"; TW (answer_kind test_domain w)]
        end in
    head ++ [W "same"; Tbool (toks_eqb (snap fixture) (snap st')); W "allocKiB"; TI 0]
  end.

Definition dispatch_c12s (ts : list tok) : list tok :=
  match ts with
  | _ :: TI qt :: TI qc :: TI nq :: TI owner :: rest =>
    match labels_of rest with
    | Some ls => c12s_obs (zu16 qt) (zu16 qc) (Z.to_nat nq) (Z.eqb owner 1) ls
    | None => [W "model-error"]
    end
  | _ => [W "model-error"]
  end.

(* c12s for the server, c10raw (Wrap/Responses.v) for the client *)
Definition dispatch_c12 (ts : list tok) : list tok :=
  match ts with
  | op :: _ =>
    if is_word "c12s" op then dispatch_c12s ts
    else if is_word "c10raw" op then dispatch_c10raw ts
    else [W "model-error"]
  | [] => [W "model-error"]
  end.

(* ------------------------------------------------------------------------------------------------ *)
(* vocabulary of the theorems (Server_proofs.v) *)

(* a queued downstream chunk is at most MaxDownstreamFragmentSize octets long *)
Definition chunk_ok (p : Queues.packet) : Prop := nlen (Queues.p_data p) <= max_frag.

(* the session in slot i: it carries user id i, its fragment size is between 1 and MaxDownstreamFragmentSize, its
   queued chunks were cut with such a size *)
Definition session_ok (i : N) (s : session) : Prop :=
  s_uid s = i /\ 1 <= s_frag s <= max_frag /\ Forall chunk_ok (Queues.out_q (s_out s)).

(* the configured tunnel domain: ASCII, and short enough for GetLongestDataString to leave room for data *)
Definition dom_conf_ok (dom : bytes) : Prop := Name.all_ascii dom = true /\ (0 < longest_data_string dom)%Z.

Definition wf (st : state) : Prop :=
  dom_conf_ok (st_dom st) /\
  length (st_live st) = max_users /\ length (st_old st) = max_users /\
  (forall i s, slot (st_live st) i = Some s -> session_ok i s) /\
  (forall i s, slot (st_old st) i = Some s -> session_ok i s).

(* whose slot: free, or held by a session of address `from` *)
Definition mine (from : N) (o : option session) : Prop :=
  match o with Some s => s_addr s = from | None => True end.

(* what a message from `from` may change: a live slot only if it is free or from's before and after; a retired slot
   only by putting a (closed) session of from's there; never the domain *)
Definition frame (from : N) (st st' : state) : Prop :=
  st_dom st' = st_dom st /\
  (forall i, slot (st_live st') i = slot (st_live st) i \/
             (mine from (slot (st_live st) i) /\ mine from (slot (st_live st') i))) /\
  (forall i, slot (st_old st') i = slot (st_old st) i \/
             (exists c, slot (st_old st') i = Some c /\ s_addr c = from /\ s_closed c = true)).

(* the responses the handlers form: never an ErrorResponse without an error *)
Definition resp_ok (r : resp) : Prop := match r with RError ENone => False | _ => True end.

(* the composed request of a message (empty when there is none) *)
Definition request_of (st : state) (m : dmsg) : bytes :=
  match compose (st_dom st) (map (fun q => present (q_labels q)) (d_questions m)) with Ok x => x | _ => [] end.

(* octets of a name on the wire: a length octet per label and the root octet *)
Definition name_wire_len (ls : list bytes) : nat := fold_right (fun l acc => (S (length l) + acc)%nat) 1%nat ls.

(* a run of messages: (message, source address, arrival time) *)
Definition run (st : state) (ms : list (dmsg * N * N)) : state :=
  fold_left (fun st x => snd (on_message st (fst (fst x)) (snd (fst x)) (snd x))) ms st.
