(* C06 - what "case-insensitively" means in the specification: the model of strings.ToLower / ToUpper against
   plain ASCII case folding. *)
From Coq Require Import String Ascii.
From Coq Require Import List ZArith NArith Bool Lia.
From SA Require Import Base.Tok.
From SA.Hs Require Import Parse Machine Grammar.
Import ListNotations.
Open Scope N_scope.

Definition ascii (x : bytes) : Prop := Forall (fun b => b < 128) x.

Lemma to_lower_ascii x : ascii x -> to_lower x = map lower1 x.
Proof.
  induction x as [|c t IH]; intros H; [reflexivity|]. inversion H as [|c' t' Hc Ht]; subst.
  specialize (IH Ht). cbn [to_lower].
  assert (E1 : (c =? 196) = false) by (apply N.eqb_neq; lia).
  assert (E2 : (c =? 226) = false) by (apply N.eqb_neq; lia).
  destruct t as [|d t']; [reflexivity|]. rewrite E1. cbn [andb].
  destruct t' as [|e t'']; [rewrite IH; reflexivity|]. rewrite E2. cbn [andb]. rewrite IH. reflexivity.
Qed.

Lemma to_upper_ascii x : ascii x -> to_upper x = map upper1 x.
Proof.
  induction x as [|c t IH]; intros H; [reflexivity|]. inversion H as [|c' t' Hc Ht]; subst.
  specialize (IH Ht). cbn [to_upper].
  assert (E1 : (c =? 196) = false) by (apply N.eqb_neq; lia).
  assert (E2 : (c =? 197) = false) by (apply N.eqb_neq; lia).
  destruct t as [|d t']; [reflexivity|]. rewrite E1, E2. cbn [andb]. rewrite IH. reflexivity.
Qed.

(* comparison of ToLower(x) with a literal that contains neither i nor k (nor a byte that starts their non-ASCII
   spellings) is plain ASCII case-insensitive comparison *)
Definition plain_lower_literal (target : bytes) : Prop :=
  Forall (fun b => b <> 105 /\ b <> 107 /\ b <> 196 /\ b <> 226) target.

Lemma to_lower_eq_literal : forall n x target, (length x <= n)%nat -> plain_lower_literal target ->
  (to_lower x = target <-> map lower1 x = target).
Proof.
  induction n as [|n IH]; intros x target Hn Ht.
  - destruct x; [simpl; tauto|simpl in Hn; lia].
  - destruct x as [|c t]; [simpl; tauto|]. simpl in Hn.
    assert (Hhead : forall a tg rest, a :: rest = target -> tg = target -> a <> 105 /\ a <> 107 /\ a <> 196 /\ a <> 226).
    { intros a tg rest H _. subst target. inversion Ht; assumption. }
    assert (Hdefault : (lower1 c :: to_lower t = target <-> map lower1 (c :: t) = target)).
    { cbn [map]. destruct target as [|a tg]; [split; discriminate|]. inversion Ht as [|a' tg' Ha Htg]; subst.
      specialize (IH t tg ltac:(lia) Htg). split; intros H; inversion H; subst; f_equal; apply IH; reflexivity. }
    cbn [to_lower]. destruct t as [|d t'].
    + cbn [map]. tauto.
    + destruct ((c =? 196) && (d =? 176)) eqn:E1.
      * apply andb_true_iff in E1. destruct E1 as [Ec Ed]. apply N.eqb_eq in Ec. subst c.
        split; intros H.
        -- destruct (Hhead _ target _ H eq_refl) as (H1 & _). congruence.
        -- cbn [map] in H. destruct (Hhead _ target _ H eq_refl) as (_ & _ & H3 & _). exfalso. apply H3. reflexivity.
      * destruct t' as [|e t'']; [exact Hdefault|].
        destruct ((c =? 226) && (d =? 132) && (e =? 170)) eqn:E2; [|exact Hdefault].
        apply andb_true_iff in E2. destruct E2 as [E2 _]. apply andb_true_iff in E2. destruct E2 as [Ec _].
        apply N.eqb_eq in Ec. subst c.
        split; intros H.
        -- destruct (Hhead _ target _ H eq_refl) as (_ & H2 & _). congruence.
        -- cbn [map] in H. destruct (Hhead _ target _ H eq_refl) as (_ & _ & _ & H4). exfalso. apply H4. reflexivity.
Qed.

(* "Connection: upgrade" is matched by plain ASCII case folding *)
Theorem connection_upgrade_ascii_fold : forall x,
  to_lower x = wd "upgrade" <-> map lower1 x = wd "upgrade".
Proof.
  intros x. apply (to_lower_eq_literal (length x) x); [lia|].
  unfold plain_lower_literal. vm_compute. repeat constructor; discriminate.
Qed.

(* "Security: StartTLS" is NOT only matched by ASCII case folding: U+017F (LATIN SMALL LETTER LONG S, bytes c5 bf)
   upper-cases to S, so the server treats this non-ASCII spelling as a StartTLS request (confirmed on the harness) *)
Example security_long_s : to_upper ([197; 191] ++ wd "tarttls") = wd "STARTTLS".
Proof. reflexivity. Qed.
Example security_long_s_not_ascii_fold : map upper1 ([197; 191] ++ wd "tarttls") <> wd "STARTTLS".
Proof. discriminate. Qed.

(* for an ASCII-only value it is ASCII case folding *)
Theorem security_starttls_ascii : forall x, ascii x ->
  (to_upper x = wd "STARTTLS" <-> map upper1 x = wd "STARTTLS").
Proof. intros x H. rewrite (to_upper_ascii x H). tauto. Qed.
