(* C06 - (1) the server establishes a session exactly for a well-formed announce offering a supported version
   followed by a matching upgrade request; (5) the bytes that follow are handed on. *)
From Coq Require Import String Ascii.
From Coq Require Import List ZArith NArith Bool Lia.
From SA Require Import Base.Tok.
From SA.Hs Require Import Parse Machine Parse_proofs Machine_proofs Grammar Grammar_proofs.
Import ListNotations.
Open Scope N_scope.

Lemma bytes_eqb_eq a b : bytes_eqb a b = true <-> a = b.
Proof.
  revert b. induction a as [|x a IH]; intros [|y b]; simpl; split; intros H; try reflexivity; try discriminate.
  - apply andb_true_iff in H. destruct H as [H1 H2]. apply N.eqb_eq in H1. apply IH in H2. subst. reflexivity.
  - inversion H; subst. rewrite N.eqb_refl. simpl. apply IH. reflexivity.
Qed.

Lemma bytes_eqb_refl a : bytes_eqb a a = true.
Proof. apply bytes_eqb_eq. reflexivity. Qed.

Lemma bytes_eqb_neq a b : bytes_eqb a b = false <-> a <> b.
Proof.
  split.
  - intros H E. apply bytes_eqb_eq in E. congruence.
  - intros H. destruct (bytes_eqb a b) eqn:E; [|reflexivity]. apply bytes_eqb_eq in E. congruence.
Qed.

(* with the single supported version: the negotiated version is that version iff the client lists it *)
Lemma negotiate_spec accepted v :
  (negotiate_in supported_versions accepted = v /\ v <> []) <-> (supported v /\ offers accepted v).
Proof.
  unfold supported, offers, supported_versions. cbn [negotiate_in In]. split.
  - intros [H Hne]. destruct (existsb (bytes_eqb protocol_version) accepted) eqn:E; [|congruence].
    subst v. split; [left; reflexivity|].
    apply existsb_exists in E. destruct E as (x & Hin & Hx). apply bytes_eqb_eq in Hx. subst x. exact Hin.
  - intros [[Hv|[]] Hin]. subst v.
    replace (existsb (bytes_eqb protocol_version) accepted) with true.
    + split; [reflexivity|discriminate].
    + symmetry. apply existsb_exists. exists protocol_version. split; [exact Hin|apply bytes_eqb_refl].
Qed.

(* Request.Read on a stream: succeeds exactly on a message whose first line has two spaces *)
Lemma read_request_complete r line h m u p rest F e :
  message r line h -> request_line line m u p -> (length (r ++ rest) < F)%nat ->
  read_request sr_reader F (mksr (r ++ rest) e) = (Ok (m, u, p, h), mksr rest e).
Proof.
  intros Hm Hl HF. unfold read_request. rewrite (read_header_complete r line h rest F e Hm HF).
  apply parse_request_line_spec in Hl. rewrite Hl. reflexivity.
Qed.

Lemma read_request_sound F s m u p h b' : (length s < F)%nat ->
  read_request sr_reader F (mksr s false) = (Ok (m, u, p, h), b') ->
  exists r rest line, s = r ++ rest /\ message r line h /\ request_line line m u p /\ b' = mksr rest false.
Proof.
  intros HF Hrun. unfold read_request in Hrun.
  destruct (read_header sr_reader F (mksr s false)) as [[[line h0]|er|pp] s1] eqn:Eh; [|discriminate|discriminate].
  destruct (parse_request_line line) as [[[m0 u0] p0]|er|pp] eqn:Ep; [|discriminate|discriminate].
  inversion Hrun; subst.
  destruct (read_header_sound F s line h b' HF Eh) as (r & rest & Hs & Hm & Hb).
  exists r, rest, line. split; [exact Hs|]. split; [exact Hm|].
  split; [apply parse_request_line_spec; exact Ep|exact Hb].
Qed.

(* ------------------------------------------------------------------ *)
(* (1) admission *)

Theorem admit_sound : forall tls c b v sec t rest,
  server_session_with tls c b = Established v sec t rest ->
  exists r1 r2 accepted security,
    b = r1 ++ r2 ++ rest /\ wf_announce r1 accepted /\ supported v /\ offers accepted v /\
    wf_upgrade v r2 security /\ starttls_consistent tls c security sec t.
Proof.
  intros tls c b v sec t rest H.
  unfold server_session_with, server_stream_with, server in H.
  set (F := fuel_for (length b)) in *.
  assert (HF : (length b < F)%nat) by (unfold F, fuel_for; lia).
  unfold sr_init in H.
  destruct (read_request sr_reader F (mksr b false)) as [[[[[m u] p] h]|er|pp] s1] eqn:E1;
    [|discriminate|discriminate].
  destruct (read_request_sound F b m u p h s1 HF E1) as (r1 & rest1 & line1 & Hb & Hm1 & Hl1 & Hs1).
  destruct (bytes_eqb m request_method) eqn:Em; cbn [negb] in H; [|discriminate].
  apply bytes_eqb_eq in Em. subst m.
  destruct (negotiate_version (hget k_accepts h)) as [|v0 vt] eqn:Env; [discriminate|].
  rewrite <- Env in H.
  assert (Hneg : negotiate_in supported_versions (split_field (hget k_accepts h)) = negotiate_version (hget k_accepts h)
                 /\ negotiate_version (hget k_accepts h) <> [])
    by (split; [reflexivity|rewrite Env; discriminate]).
  apply negotiate_spec in Hneg. destruct Hneg as [Hsup Hoff].
  set (nv := negotiate_version (hget k_accepts h)) in *.
  unfold server_upgrade in H. subst s1.
  assert (HF1 : (length rest1 < F)%nat) by (rewrite Hb, app_length in HF; lia).
  destruct (read_request sr_reader F (mksr rest1 false)) as [[[[[m2 u2] p2] h2]|er|pp] s2] eqn:E2;
    [|discriminate|discriminate].
  destruct (read_request_sound F rest1 m2 u2 p2 h2 s2 HF1 E2) as (r2 & rest2 & line2 & Hr1 & Hm2 & Hl2 & Hs2).
  subst s2. cbn [r_eof r_rest sr_reader sbytes seof] in H.
  destruct (bytes_eqb m2 (wd "GET")) eqn:Em2; cbn [negb] in H; [|discriminate].
  apply bytes_eqb_eq in Em2. subst m2.
  destruct (bytes_eqb (to_lower (hget k_connection h2)) (wd "upgrade")) eqn:Econn; cbn [negb] in H; [|discriminate].
  apply bytes_eqb_eq in Econn.
  destruct (bytes_eqb (hget k_upgrade h2) (upgrade_token nv)) eqn:Eup; cbn [negb] in H; [|discriminate].
  apply bytes_eqb_eq in Eup.
  destruct (bytes_eqb (to_upper (hget k_security h2)) (wd "STARTTLS")) eqn:Esec.
  - apply bytes_eqb_eq in Esec.
    destruct (negb (c_secure c) && c_cert c) eqn:Esup; [|discriminate].
    destruct tls; [|discriminate]. cbn [sout] in H. inversion H; subst.
    apply andb_true_iff in Esup. destruct Esup as [Hc1 Hc2]. apply negb_true_iff in Hc1.
    exists r1, r2, (split_field (hget k_accepts h)), (hget k_security h2).
    split; [reflexivity|].
    split; [exists line1, h, u, p; split; [exact Hm1|]; split; [exact Hl1|reflexivity]|].
    split; [exact Hsup|]. split; [exact Hoff|].
    split; [exists line2, h2, u2, p2; split; [exact Hm2|]; split; [exact Hl2|]; split; [exact Econn|];
            split; [exact Eup|reflexivity]|].
    right. repeat split; assumption.
  - apply bytes_eqb_neq in Esec.
    destruct (negb (c_secure c) && c_cert c && c_reqcc c) eqn:Ereq; [discriminate|].
    cbn [sout] in H. inversion H; subst.
    exists r1, r2, (split_field (hget k_accepts h)), (hget k_security h2).
    split; [reflexivity|].
    split; [exists line1, h, u, p; split; [exact Hm1|]; split; [exact Hl1|reflexivity]|].
    split; [exact Hsup|]. split; [exact Hoff|].
    split; [exists line2, h2, u2, p2; split; [exact Hm2|]; split; [exact Hl2|]; split; [exact Econn|];
            split; [exact Eup|reflexivity]|].
    left. repeat split; assumption.
Qed.

Theorem admit_complete : forall tls c r1 r2 rest accepted security v sec t,
  wf_announce r1 accepted -> supported v -> offers accepted v ->
  wf_upgrade v r2 security -> starttls_consistent tls c security sec t ->
  server_session_with tls c (r1 ++ r2 ++ rest) = Established v sec t rest.
Proof.
  intros tls c r1 r2 rest accepted security v sec t
         (line1 & h1 & u1 & p1 & Hm1 & Hl1 & Hacc) Hsup Hoff
         (line2 & h2 & u2 & p2 & Hm2 & Hl2 & Hconn & Hup & Hsec) Htls.
  unfold server_session_with, server_stream_with, server, sr_init.
  set (F := fuel_for (length (r1 ++ r2 ++ rest))).
  assert (HF : (length (r1 ++ r2 ++ rest) < F)%nat) by (unfold F, fuel_for; lia).
  rewrite (read_request_complete r1 line1 h1 request_method u1 p1 (r2 ++ rest) F false Hm1 Hl1 HF).
  rewrite bytes_eqb_refl. cbn [negb].
  destruct (proj2 (negotiate_spec accepted v) (conj Hsup Hoff)) as [Hneg Hne].
  unfold negotiate_version. rewrite <- Hacc, Hneg.
  destruct v as [|v0 vt]; [congruence|].
  unfold server_upgrade.
  assert (HF2 : (length (r2 ++ rest) < F)%nat) by (rewrite app_length in HF; lia).
  rewrite (read_request_complete r2 line2 h2 (wd "GET") u2 p2 rest F false Hm2 Hl2 HF2).
  rewrite bytes_eqb_refl. cbn [negb].
  rewrite Hconn, bytes_eqb_refl. cbn [negb].
  rewrite Hup, bytes_eqb_refl. cbn [negb].
  cbn [r_eof r_rest sr_reader sbytes seof].
  rewrite <- Hsec.
  destruct Htls as [(Hno & Hreq & -> & ->)|(Hyes & Hc1 & Hc2 & -> & -> & ->)].
  - apply bytes_eqb_neq in Hno. rewrite Hno, Hreq. reflexivity.
  - rewrite Hyes, bytes_eqb_refl, Hc1, Hc2. reflexivity.
Qed.

(* a server that demands client certificates on an unencrypted carrier establishes TLS sessions only: a peer that never asks for
   StartTLS - and so could not present a certificate - is not let in, whatever octets it sends *)
Theorem reqcc_needs_tls : forall tls c b v sec t rest,
  c_secure c = false -> c_cert c = true -> c_reqcc c = true ->
  server_session_with tls c b = Established v sec t rest -> sec = true /\ t = TechTls /\ tls = true.
Proof.
  intros tls c b v sec t rest H1 H2 H3 H.
  apply admit_sound in H. destruct H as (r1 & r2 & accepted & security & _ & _ & _ & _ & _ & Hc).
  destruct Hc as [(_ & Hreq & _ & _)|(_ & _ & _ & Htls & Hsec & Ht)].
  - rewrite H1, H2, H3 in Hreq. discriminate.
  - auto.
Qed.

Theorem admit_iff : forall tls c b v sec t rest,
  server_session_with tls c b = Established v sec t rest <->
  exists r1 r2 accepted security,
    b = r1 ++ r2 ++ rest /\ wf_announce r1 accepted /\ supported v /\ offers accepted v /\
    wf_upgrade v r2 security /\ starttls_consistent tls c security sec t.
Proof.
  intros. split; [apply admit_sound|].
  intros (r1 & r2 & accepted & security & -> & H1 & H2 & H3 & H4 & H5).
  eapply admit_complete; eassumption.
Qed.

(* the same for any segmentation of the client's bytes *)
Corollary admit_iff_segments : forall tls c segs o v sec t rest,
  server_run_with tls c segs = Ok o ->
  (sout o = Established v sec t rest <->
   exists r1 r2 accepted security,
     concat segs = r1 ++ r2 ++ rest /\ wf_announce r1 accepted /\ supported v /\ offers accepted v /\
     wf_upgrade v r2 security /\ starttls_consistent tls c security sec t).
Proof.
  intros tls c segs o v sec t rest Ho. rewrite server_run_stream in Ho.
  rewrite <- admit_iff. unfold server_session_with. rewrite Ho. reflexivity.
Qed.

(* ------------------------------------------------------------------ *)
(* (5) read-ahead: what follows the second header block is handed on, in order and exactly once *)

Theorem readahead : forall tls c segs o v sec t rest,
  server_run_with tls c segs = Ok o -> sout o = Established v sec t rest ->
  exists r1 r2 accepted security,
    wf_announce r1 accepted /\ wf_upgrade v r2 security /\ concat segs = r1 ++ r2 ++ rest.
Proof.
  intros tls c segs o v sec t rest Ho Hs.
  apply (admit_iff_segments tls c segs o v sec t rest Ho) in Hs.
  destruct Hs as (r1 & r2 & accepted & security & H0 & H1 & _ & _ & H4 & _).
  exists r1, r2, accepted, security. repeat split; assumption.
Qed.

(* and conversely: whatever follows a valid exchange comes out as `rest`, whatever the segmentation *)
Theorem readahead_complete : forall tls c segs r1 r2 rest accepted security v sec t,
  concat segs = r1 ++ r2 ++ rest ->
  wf_announce r1 accepted -> supported v -> offers accepted v ->
  wf_upgrade v r2 security -> starttls_consistent tls c security sec t ->
  exists o, server_run_with tls c segs = Ok o /\ statuses o = [200; 101] /\ sout o = Established v sec t rest.
Proof.
  intros tls c segs r1 r2 rest accepted security v sec t Hc H1 H2 H3 H4 H5.
  destruct (else_error tls c segs) as (o & Ho & Hshape). exists o. split; [exact Ho|].
  assert (Hs : sout o = Established v sec t rest).
  { apply (admit_iff_segments tls c segs o v sec t rest Ho).
    exists r1, r2, accepted, security. repeat split; assumption. }
  split; [|exact Hs]. unfold else_error_statement in Hshape. rewrite Hs in Hshape. exact Hshape.
Qed.

(* ------------------------------------------------------------------ *)
(* client role: the client establishes a session exactly after a well-formed 200 response followed by a
   well-formed 101 response (and a successful TLS handshake when it asked for StartTLS) *)

Lemma read_response_complete r line h proto code msg rest F e :
  message r line h -> response_line line proto code msg -> (length (r ++ rest) < F)%nat ->
  read_response sr_reader F (mksr (r ++ rest) e) = (Ok (code, h), mksr rest e).
Proof.
  intros Hm Hl HF. unfold read_response. rewrite (read_header_complete r line h rest F e Hm HF).
  apply parse_response_line_spec in Hl. rewrite Hl. reflexivity.
Qed.

Lemma read_response_sound F s code h b' : (length s < F)%nat ->
  read_response sr_reader F (mksr s false) = (Ok (code, h), b') ->
  exists r rest, s = r ++ rest /\ wf_response r code h /\ b' = mksr rest false.
Proof.
  intros HF Hrun. unfold read_response in Hrun.
  destruct (read_header sr_reader F (mksr s false)) as [[[line h0]|er|pp] s1] eqn:Eh; [|discriminate|discriminate].
  destruct (parse_response_line line) as [[[proto c0] msg]|er|pp] eqn:Ep; [|discriminate|discriminate].
  inversion Hrun; subst.
  destruct (read_header_sound F s line h b' HF Eh) as (r & rest & Hs & Hm & Hb).
  exists r, rest. split; [exact Hs|]. split; [|exact Hb].
  exists line, proto, msg. split; [exact Hm|]. apply parse_response_line_spec. exact Ep.
Qed.

Definition client_tls_consistent (tls_ok : bool) (secure : bool) (h1 : headers) (sec : bool) (t : tech) : Prop :=
  if client_starttls secure h1 then tls_ok = true /\ sec = true /\ t = TechTls
  else sec = secure /\ t = carrier_tech secure.

Theorem client_admit_iff : forall tls secure b1 b2 v sec t rest,
  client_session_with tls secure b1 b2 = Established v sec t rest <->
  exists resp1 resp2 extra h1 h2,
    b1 = resp1 ++ extra /\ extra ++ b2 = resp2 ++ rest /\
    wf_response resp1 200 h1 /\ v = hget k_protocol_version h1 /\
    wf_response resp2 101 h2 /\ client_tls_consistent tls secure h1 sec t.
Proof.
  intros tls secure b1 b2 v sec t rest.
  unfold client_session_with, client_stream_with, client, sr_init.
  set (F := fuel_for (length (b1 ++ b2))).
  assert (HF : (length b1 + length b2 < F)%nat) by (unfold F, fuel_for; rewrite app_length; lia).
  split.
  - intros H.
    destruct (read_response sr_reader F (mksr b1 false)) as [[[code h1]|er|pp] s1] eqn:E1;
      [|discriminate|discriminate].
    destruct (read_response_sound F b1 code h1 s1 ltac:(lia) E1) as (resp1 & extra & Hb1 & Hw1 & Hs1).
    destruct (code =? 200)%Z eqn:Ecode; cbn [negb] in H; [|discriminate].
    apply Z.eqb_eq in Ecode. subst code s1.
    unfold client_upgrade in H. cbn [r_feed sr_reader sbytes seof concat] in H. rewrite app_nil_r in H.
    assert (HF2 : (length (extra ++ b2) < F)%nat).
    { rewrite Hb1 in HF. rewrite !app_length in *. lia. }
    destruct (read_response sr_reader F (mksr (extra ++ b2) false)) as [[[code2 h2]|er|pp] s2] eqn:E2;
      [|discriminate|discriminate].
    destruct (read_response_sound F _ code2 h2 s2 HF2 E2) as (resp2 & rest2 & Hb2 & Hw2 & Hs2).
    destruct (code2 =? 101)%Z eqn:Ecode2; cbn [negb] in H; [|discriminate].
    apply Z.eqb_eq in Ecode2. subst code2 s2. cbn [r_eof r_rest sr_reader sbytes seof] in H.
    fold (client_starttls secure h1) in H.
    exists resp1, resp2, extra, h1, h2.
    unfold client_tls_consistent.
    destruct (client_starttls secure h1).
    + destruct tls; [|discriminate]. cbn [cout] in H. inversion H; subst.
      repeat split; assumption.
    + cbn [cout] in H. inversion H; subst. repeat split; assumption.
  - intros (resp1 & resp2 & extra & h1 & h2 & Hb1 & Hb2 & (line1 & proto1 & msg1 & Hm1 & Hl1) & Hv &
            (line2 & proto2 & msg2 & Hm2 & Hl2) & Htls).
    subst b1.
    rewrite (read_response_complete resp1 line1 h1 proto1 200 msg1 extra F false Hm1 Hl1)
      by (rewrite !app_length in *; lia).
    cbn [Z.eqb Pos.eqb negb].
    unfold client_upgrade. cbn [r_feed sr_reader sbytes seof concat]. rewrite app_nil_r. rewrite Hb2.
    rewrite (read_response_complete resp2 line2 h2 proto2 101 msg2 rest F false Hm2 Hl2).
    + cbn [Z.eqb Pos.eqb negb r_eof r_rest sr_reader sbytes seof].
      fold (client_starttls secure h1). unfold client_tls_consistent in Htls.
      destruct (client_starttls secure h1).
      * destruct Htls as (-> & -> & ->). subst v. reflexivity.
      * destruct Htls as (-> & ->). subst v. reflexivity.
    + rewrite <- Hb2. rewrite !app_length in *. lia.
Qed.

(* for every segmentation *)
Corollary client_admit_iff_segments : forall tls secure segs1 segs2 o v sec t rest,
  client_run_with tls secure segs1 segs2 = Ok o ->
  (cout o = Established v sec t rest <->
   exists resp1 resp2 extra h1 h2,
     concat segs1 = resp1 ++ extra /\ extra ++ concat segs2 = resp2 ++ rest /\
     wf_response resp1 200 h1 /\ v = hget k_protocol_version h1 /\
     wf_response resp2 101 h2 /\ client_tls_consistent tls secure h1 sec t).
Proof.
  intros tls secure segs1 segs2 o v sec t rest Ho. rewrite client_run_stream in Ho.
  rewrite <- client_admit_iff. unfold client_session_with. rewrite Ho. reflexivity.
Qed.
