(* C06 - the stream-level reader accepts exactly the grammar of Grammar.v. *)
From Coq Require Import String Ascii.
From Coq Require Import List ZArith NArith Bool Lia.
From SA Require Import Base.Tok.
From SA.Hs Require Import Parse Machine Parse_proofs Grammar.
Import ListNotations.
Open Scope N_scope.

(* ------------------------------------------------------------------ *)
(* lists *)

Lemma has_byte_firstn c n l : has_byte c l = false -> has_byte c (firstn n l) = false.
Proof.
  intros H. rewrite <- (firstn_skipn n l) in H. rewrite has_byte_app in H.
  apply orb_false_iff in H. tauto.
Qed.
Lemma has_byte_skipn c n l : has_byte c l = false -> has_byte c (skipn n l) = false.
Proof.
  intros H. rewrite <- (firstn_skipn n l) in H. rewrite has_byte_app in H.
  apply orb_false_iff in H. tauto.
Qed.

Lemma strip_cr_app a b : b <> [] -> strip_cr (a ++ b) = a ++ strip_cr b.
Proof.
  intros Hb. induction a as [|x a IH]; [reflexivity|].
  cbn [app]. destruct (a ++ b) as [|y z] eqn:E.
  - destruct a; [simpl in E; congruence|discriminate].
  - cbn [strip_cr]. rewrite <- IH. reflexivity.
Qed.

Lemma ends_with_cr_app_last a c : ends_with_cr (a ++ [c]) = (c =? 13).
Proof.
  unfold ends_with_cr. induction a as [|x a IH]; [reflexivity|].
  cbn [app]. destruct (a ++ [c]) as [|y z] eqn:E; [destruct a; discriminate|].
  cbn [last_byte]. exact IH.
Qed.

Lemma list_last_cases {A} (l : list A) : l = [] \/ exists a c, l = a ++ [c].
Proof.
  destruct l as [|x t]; [left; reflexivity|right].
  exists (removelast (x :: t)), (last (x :: t) x). apply app_removelast_last. discriminate.
Qed.

Lemma strip_cr_id l : ends_with_cr l = false -> strip_cr l = l.
Proof.
  destruct (list_last_cases l) as [->|(a & c & ->)]; [reflexivity|].
  rewrite ends_with_cr_app_last. intros H. rewrite strip_cr_app by discriminate.
  change (strip_cr [c]) with (if c =? 13 then [] else [c]). rewrite H. reflexivity.
Qed.

Lemma strip_cr_cr l : strip_cr (l ++ [CR]) = l.
Proof. rewrite strip_cr_app by discriminate. simpl. apply app_nil_r. Qed.

Lemma removelast_firstn_len {A} (n : nat) (l : list A) : (1 <= n <= length l)%nat ->
  removelast (firstn n l) = firstn (n - 1) l.
Proof.
  intros H. destruct n as [|n]; [lia|]. replace (S n - 1)%nat with n by lia.
  apply removelast_firstn. lia.
Qed.

(* ------------------------------------------------------------------ *)
(* reading one line from a stream *)

Lemma firstn_line (n : nat) (l rest : bytes) : (length l < n)%nat ->
  exists x, firstn n (l ++ LF :: rest) = l ++ LF :: x.
Proof.
  intros H. rewrite firstn_app. rewrite firstn_all2 by lia.
  destruct (n - length l)%nat as [|k] eqn:E; [lia|]. cbn [firstn]. eexists; reflexivity.
Qed.

Lemma rls_some : forall fuel F acc s e l rest,
  (length s < fuel)%nat -> cut_byte LF s = Some (l, rest) ->
  read_line_slice sr_reader fuel F None acc (mksr s e) = (Ok (acc ++ strip_cr l), mksr rest e).
Proof.
  induction fuel as [|f IH]; intros F acc s e l rest Hf Hcut; [lia|].
  pose proof bufsize_ge2 as Hb.
  destruct (cut_byte_some _ _ _ _ Hcut) as [Hs Hno].
  cbn [read_line_slice r_line sr_reader]. unfold sr_line. cbn [sbytes seof].
  destruct (Nat.lt_ge_cases (length l) bufsize) as [Hl|Hl].
  - destruct (firstn_line bufsize l rest Hl) as [x Hx]. rewrite Hs, Hx.
    rewrite (cut_byte_exact LF l x Hno). cbn [over_lim].
    f_equal. f_equal.
    replace (l ++ LF :: rest) with ((l ++ [LF]) ++ rest) by (rewrite <- app_assoc; reflexivity).
    replace (S (length l)) with (length (l ++ [LF])) by (rewrite app_length; simpl; lia).
    apply skipn_app_exact.
  - assert (Hw : firstn bufsize s = firstn bufsize l).
    { rewrite Hs. rewrite firstn_app. replace (bufsize - length l)%nat with 0%nat by lia.
      cbn [firstn]. apply app_nil_r. }
    rewrite Hw.
    assert (Hnow : cut_byte LF (firstn bufsize l) = None)
      by (apply cut_byte_none; apply has_byte_firstn; exact Hno).
    rewrite Hnow.
    assert (Hlen : (bufsize <= length s)%nat) by (rewrite Hs, app_length; lia).
    replace (bufsize <=? length s)%nat with true by (symmetry; apply Nat.leb_le; exact Hlen).
    destruct (ends_with_cr (firstn bufsize l)) eqn:Ecr; cbn [over_lim].
    + (* a fragment of bufsize-1 bytes; the CR stays *)
      assert (Hs' : skipn (bufsize - 1) s = skipn (bufsize - 1) l ++ LF :: rest).
      { rewrite Hs. rewrite skipn_app. replace (bufsize - 1 - length l)%nat with 0%nat by lia. reflexivity. }
      rewrite Hs'.
      rewrite (IH F (acc ++ removelast (firstn bufsize l)) _ e (skipn (bufsize - 1) l) rest).
      * f_equal. f_equal. rewrite <- app_assoc. f_equal.
        rewrite removelast_firstn_len by lia.
        rewrite <- (firstn_skipn (bufsize - 1) l) at 3.
        symmetry. apply strip_cr_app.
        intros Hnil. apply (f_equal (@length N)) in Hnil. rewrite skipn_length in Hnil. simpl in Hnil. lia.
      * rewrite <- Hs'. rewrite skipn_length. lia.
      * apply cut_byte_exact. apply has_byte_skipn. exact Hno.
    + assert (Hs' : skipn bufsize s = skipn bufsize l ++ LF :: rest).
      { rewrite Hs. rewrite skipn_app. replace (bufsize - length l)%nat with 0%nat by lia. reflexivity. }
      rewrite Hs'.
      rewrite (IH F (acc ++ firstn bufsize l) _ e (skipn bufsize l) rest).
      * f_equal. f_equal. rewrite <- app_assoc. f_equal.
        destruct (skipn bufsize l) as [|y z] eqn:Esk.
        -- cbn [strip_cr]. rewrite app_nil_r.
           assert (Hall : firstn bufsize l = l).
           { rewrite <- (firstn_skipn bufsize l) at 2. rewrite Esk. symmetry. apply app_nil_r. }
           rewrite Hall in *. symmetry. apply strip_cr_id. exact Ecr.
        -- rewrite <- (strip_cr_app (firstn bufsize l) (y :: z)) by discriminate.
           rewrite <- Esk, firstn_skipn. reflexivity.
      * rewrite <- Hs'. rewrite skipn_length. lia.
      * apply cut_byte_exact. apply has_byte_skipn. exact Hno.
Qed.

(* no line end in the stream: the reader runs into the end of input *)
Lemma rls_none : forall fuel F acc s e,
  (length s < fuel)%nat -> cut_byte LF s = None ->
  exists r, read_line_slice sr_reader fuel F None acc (mksr s e) = (r, mksr [] true) /\
            (forall line, r = Ok line -> s <> [] /\ line = acc ++ s).
Proof.
  induction fuel as [|f IH]; intros F acc s e Hf Hcut; [lia|].
  pose proof bufsize_ge2 as Hb.
  apply cut_byte_none in Hcut.
  cbn [read_line_slice r_line sr_reader]. unfold sr_line. cbn [sbytes seof].
  assert (Hnow : cut_byte LF (firstn bufsize s) = None)
    by (apply cut_byte_none; apply has_byte_firstn; exact Hcut).
  rewrite Hnow.
  destruct (bufsize <=? length s)%nat eqn:Efull.
  - apply Nat.leb_le in Efull.
    destruct (ends_with_cr (firstn bufsize s)) eqn:Ecr; cbn [over_lim].
    + destruct (IH F (acc ++ removelast (firstn bufsize s)) (skipn (bufsize - 1) s) e) as (r & Hr & Hline).
      * rewrite skipn_length. lia.
      * apply cut_byte_none. apply has_byte_skipn. exact Hcut.
      * exists r. split; [exact Hr|]. intros line Hl. destruct (Hline line Hl) as [H1 H2]. split.
        -- intros ->. simpl in Efull. lia.
        -- rewrite H2. rewrite <- app_assoc. f_equal. rewrite removelast_firstn_len by lia.
           apply firstn_skipn.
    + destruct (IH F (acc ++ firstn bufsize s) (skipn bufsize s) e) as (r & Hr & Hline).
      * rewrite skipn_length. lia.
      * apply cut_byte_none. apply has_byte_skipn. exact Hcut.
      * exists r. split; [exact Hr|]. intros line Hl. destruct (Hline line Hl) as [H1 H2]. split.
        -- intros ->. simpl in Efull. lia.
        -- rewrite H2. rewrite <- app_assoc. f_equal. apply firstn_skipn.
  - destruct s as [|c t].
    + exists (Err (wd "EOF")). split; [reflexivity|]. intros line H; discriminate.
    + cbn [over_lim]. exists (Ok (acc ++ c :: t)). split; [reflexivity|].
      intros line H; inversion H; subst. split; [discriminate|reflexivity].
Qed.

(* ------------------------------------------------------------------ *)
(* leading spaces *)

Lemma ltrim_app p a b : ltrim p (a ++ b) = match ltrim p a with [] => ltrim p b | t => t ++ b end.
Proof.
  induction a as [|x a IH]; [simpl; destruct (ltrim p b); reflexivity|].
  cbn [app ltrim]. destruct (p x); [exact IH|reflexivity].
Qed.

Lemma ltrim_split p s : exists pre, s = pre ++ ltrim p s /\ forallb p pre = true.
Proof.
  induction s as [|x s (pre & H1 & H2)]; [exists []; split; reflexivity|].
  cbn [ltrim]. destruct (p x) eqn:E.
  - exists (x :: pre). split; [simpl; f_equal; exact H1|simpl; rewrite E; exact H2].
  - exists []. split; reflexivity.
Qed.

Lemma ltrim_all p pre : forallb p pre = true -> ltrim p pre = [].
Proof.
  induction pre as [|x t IH]; [reflexivity|]. simpl. intros H. apply andb_true_iff in H. destruct H as [H1 H2].
  rewrite H1. apply IH. exact H2.
Qed.

Lemma ltrim_idem p s : ltrim p (ltrim p s) = ltrim p s.
Proof.
  induction s as [|x s IH]; [reflexivity|]. cbn [ltrim]. destruct (p x) eqn:E; [exact IH|].
  cbn [ltrim]. rewrite E. reflexivity.
Qed.

Lemma ltrim_nostart s : starts_sptab s = false -> ltrim is_sptab s = s.
Proof. destruct s as [|c t]; [reflexivity|]. simpl. intros ->. reflexivity. Qed.

Lemma starts_ltrim s : starts_sptab (ltrim is_sptab s) = false.
Proof.
  induction s as [|c t IH]; [reflexivity|]. cbn [ltrim]. destruct (is_sptab c) eqn:E; [exact IH|].
  simpl. exact E.
Qed.

Lemma trim_ltrim s : trim (ltrim is_sptab s) = trim s.
Proof. unfold trim. rewrite ltrim_idem. reflexivity. Qed.

(* Reader.skipSpace on a stream *)
Lemma skip_space_char : forall fuel sk s e, (length s < fuel)%nat ->
  skip_space sr_reader fuel sk (mksr s e) =
  (Ok (sk || starts_sptab s), match ltrim is_sptab s with [] => mksr [] true | t => mksr t e end).
Proof.
  induction fuel as [|f IH]; intros sk s e Hf; [lia|].
  cbn [skip_space r_peek r_drop sr_reader]. unfold sr_peek. cbn [sbytes seof].
  destruct s as [|c t].
  - simpl. rewrite orb_false_r. reflexivity.
  - cbn [starts_sptab ltrim]. destruct (is_sptab c) eqn:E.
    + cbn [tl sbytes seof]. rewrite (IH true t e) by (simpl in Hf; lia). rewrite orb_true_r. reflexivity.
    + rewrite orb_false_r. reflexivity.
Qed.

(* ------------------------------------------------------------------ *)
(* wire lines *)

Lemma wire_line_cut l w x : wire_line l w ->
  exists l', cut_byte LF (w ++ x) = Some (l', x) /\ strip_cr l' = l.
Proof.
  intros H. inversion H; subst.
  - exists (l ++ [CR]). split; [|apply strip_cr_cr].
    rewrite <- app_assoc. cbn [app].
    replace (l ++ CR :: LF :: x) with ((l ++ [CR]) ++ LF :: x) by (rewrite <- app_assoc; reflexivity).
    apply cut_byte_exact. rewrite has_byte_app. rewrite H0. reflexivity.
  - exists l. split; [|apply strip_cr_id; assumption].
    rewrite <- app_assoc. apply cut_byte_exact. assumption.
Qed.

Lemma wire_line_nonempty l w : wire_line l w -> w <> [].
Proof. intros H; inversion H; subst; destruct l; discriminate. Qed.

Lemma wire_line_length l w : wire_line l w -> (length l < length w)%nat.
Proof. intros H; inversion H; subst; rewrite app_length; simpl; lia. Qed.

Lemma wire_line_start l w x : wire_line l w -> l <> [] -> starts_sptab (w ++ x) = starts_sptab l.
Proof. intros H Hl; inversion H; subst; destruct l; [congruence|reflexivity|congruence|reflexivity]. Qed.

Lemma wire_line_empty_start w x : wire_line [] w -> starts_sptab (w ++ x) = false.
Proof. intros H; inversion H; subst; reflexivity. Qed.

Lemma ends_with_cr_ltrim l : ends_with_cr l = false -> ends_with_cr (ltrim is_sptab l) = false.
Proof.
  destruct (ltrim_split is_sptab l) as (pre & H1 & H2).
  destruct (list_last_cases (ltrim is_sptab l)) as [->|(a & c & E)]; [reflexivity|].
  rewrite E in *. rewrite H1. rewrite app_assoc. rewrite !ends_with_cr_app_last. tauto.
Qed.

(* a continuation line: after the leading spaces have been skipped, the rest of the line is read *)
Lemma wire_line_ltrim l w x : wire_line l w -> starts_sptab l = true ->
  exists w', ltrim is_sptab (w ++ x) = w' ++ x /\ wire_line (ltrim is_sptab l) w'.
Proof.
  intros H Hs.
  assert (Hno : has_byte LF l = false) by (inversion H; assumption).
  assert (Hno' : has_byte LF (ltrim is_sptab l) = false).
  { destruct (ltrim_split is_sptab l) as (pre & H1 & H2). rewrite H1 in Hno. rewrite has_byte_app in Hno.
    apply orb_false_iff in Hno. tauto. }
  inversion H; subst.
  - exists (ltrim is_sptab l ++ [CR; LF]). split; [|constructor; exact Hno'].
    rewrite <- !app_assoc. rewrite ltrim_app.
    destruct (ltrim is_sptab l); reflexivity.
  - exists (ltrim is_sptab l ++ [LF]). split; [|constructor; [exact Hno'|apply ends_with_cr_ltrim; assumption]].
    rewrite <- !app_assoc. rewrite ltrim_app.
    destruct (ltrim is_sptab l); reflexivity.
Qed.

Lemma wire_lines_app ls1 w1 ls2 w2 : wire_lines ls1 w1 -> wire_lines ls2 w2 -> wire_lines (ls1 ++ ls2) (w1 ++ w2).
Proof.
  intros H1 H2. induction H1; [exact H2|]. cbn [app]. rewrite <- app_assoc. constructor; assumption.
Qed.

Lemma wire_lines_app_inv ls1 ls2 w : wire_lines (ls1 ++ ls2) w ->
  exists w1 w2, w = w1 ++ w2 /\ wire_lines ls1 w1 /\ wire_lines ls2 w2.
Proof.
  revert w. induction ls1 as [|l ls1 IH]; intros w H.
  - exists [], w. repeat split; [constructor|exact H].
  - cbn [app] in H. inversion H as [|l' w0 ls' ws Hl Hls]; subst.
    destruct (IH _ Hls) as (w1 & w2 & E & G1 & G2). subst ws.
    exists (w0 ++ w1), w2. rewrite app_assoc. repeat split; [constructor; assumption|assumption].
Qed.

Definition conts_join (conts : list bytes) : bytes := concat (map (fun c => SP :: trim c) conts).

Lemma ltrim_length p s : (length (ltrim p s) <= length s)%nat.
Proof. destruct (ltrim_split p s) as (pre & H & _). rewrite H at 2. rewrite app_length. lia. Qed.

Lemma sptab_no_lf pre : forallb is_sptab pre = true -> has_byte LF pre = false.
Proof.
  induction pre as [|x t IH]; [reflexivity|].
  change (forallb is_sptab (x :: t)) with (is_sptab x && forallb is_sptab t).
  change (has_byte LF (x :: t)) with ((LF =? x) || has_byte LF t).
  intros H. apply andb_true_iff in H. destruct H as [H1 H2]. rewrite (IH H2), orb_false_r.
  destruct (LF =? x) eqn:E; [|reflexivity]. apply N.eqb_eq in E. subst x. discriminate.
Qed.

Lemma sptab_not_cr x : is_sptab x = true -> (x =? 13) = false.
Proof.
  unfold is_sptab, SP, TAB. intros H. destruct (x =? 13) eqn:E; [|reflexivity].
  apply N.eqb_eq in E. subst x. discriminate.
Qed.

Lemma trim_pre pre y : forallb is_sptab pre = true -> trim (pre ++ y) = trim y.
Proof. intros H. unfold trim. rewrite ltrim_app, (ltrim_all _ _ H). reflexivity. Qed.

Lemma ends_with_cr_true l : ends_with_cr l = true -> exists l0, l = l0 ++ [CR].
Proof.
  unfold ends_with_cr. destruct (last_byte l) as [c|] eqn:E; [|discriminate].
  intros H. apply N.eqb_eq in H. subst c. exists (removelast l). apply last_byte_split. exact E.
Qed.

(* the bytes of one continuation line, reconstructed from what the reader saw *)
Lemma cont_line_build s l rest :
  starts_sptab s = true -> cut_byte LF (ltrim is_sptab s) = Some (l, rest) ->
  exists c w, s = w ++ rest /\ wire_line c w /\ starts_sptab c = true /\ trim c = trim (strip_cr l).
Proof.
  intros Hst Hcut.
  destruct (ltrim_split is_sptab s) as (pre & Hs & Hpre).
  destruct (cut_byte_some _ _ _ _ Hcut) as [Ht Hno].
  assert (Hpre_ne : pre <> []).
  { intros ->. simpl in Hs. rewrite Hs in Hst. rewrite starts_ltrim in Hst. discriminate. }
  assert (Hstart : forall y, starts_sptab (pre ++ y) = true).
  { intros y. destruct pre as [|x t]; [congruence|]. simpl in *. apply andb_true_iff in Hpre. tauto. }
  destruct (ends_with_cr l) eqn:Ecr.
  - destruct (ends_with_cr_true l Ecr) as [l0 ->].
    exists (pre ++ l0), ((pre ++ l0) ++ [CR; LF]). repeat split.
    + rewrite Hs at 1. rewrite Ht. rewrite <- !app_assoc. reflexivity.
    + constructor. rewrite has_byte_app. rewrite (sptab_no_lf _ Hpre).
      rewrite has_byte_app in Hno. apply orb_false_iff in Hno. simpl. tauto.
    + apply Hstart.
    + rewrite strip_cr_cr. apply trim_pre. exact Hpre.
  - exists (pre ++ l), ((pre ++ l) ++ [LF]). repeat split.
    + rewrite Hs at 1. rewrite Ht. rewrite <- !app_assoc. reflexivity.
    + constructor.
      * rewrite has_byte_app. rewrite (sptab_no_lf _ Hpre). exact Hno.
      * destruct (list_last_cases l) as [->|(a & x & ->)].
        -- rewrite app_nil_r. destruct (list_last_cases pre) as [->|(a & x & ->)]; [congruence|].
           rewrite ends_with_cr_app_last. apply sptab_not_cr.
           rewrite forallb_app in Hpre. apply andb_true_iff in Hpre. destruct Hpre as [_ Hx]. simpl in Hx.
           apply andb_true_iff in Hx. tauto.
        -- rewrite app_assoc. rewrite ends_with_cr_app_last. rewrite ends_with_cr_app_last in Ecr. exact Ecr.
    + apply Hstart.
    + rewrite (strip_cr_id l Ecr). apply trim_pre. exact Hpre.
Qed.

Lemma match_nonempty {A B} (l : list A) (x : B) (f : list A -> B) : l <> [] ->
  match l with [] => x | _ :: _ => f l end = f l.
Proof. destruct l; [congruence|reflexivity]. Qed.

Lemma cont_loop_complete : forall conts fuel F buf wire tail e,
  wire_lines conts wire -> Forall (fun c => starts_sptab c = true) conts ->
  starts_sptab tail = false -> tail <> [] ->
  (length conts < fuel)%nat -> (length (wire ++ tail) < F)%nat ->
  cont_loop sr_reader fuel F buf (mksr (wire ++ tail) e) = (Ok (buf ++ conts_join conts), mksr tail e).
Proof.
  induction conts as [|c cs IH]; intros fuel F buf wire tail e Hw Hall Htail Hne Hfuel HF;
    (destruct fuel as [|f]; [simpl in Hfuel; lia|]); cbn [cont_loop].
  - inversion Hw; subst. cbn [app] in *.
    rewrite skip_space_char by exact HF. rewrite Htail. cbn [orb].
    rewrite (ltrim_nostart _ Htail).
    destruct tail as [|t0 tt]; [congruence|]. unfold conts_join. simpl. rewrite app_nil_r. reflexivity.
  - inversion Hw as [|c' w cs' ws Hwl Hwls]; subst. inversion Hall as [|c' cs' Hc Hcs]; subst.
    rewrite <- app_assoc in *.
    rewrite skip_space_char by exact HF.
    assert (Hcne : c <> []) by (intros ->; discriminate).
    rewrite (wire_line_start c w (ws ++ tail) Hwl Hcne), Hc. cbn [orb].
    destruct (wire_line_ltrim c w (ws ++ tail) Hwl Hc) as (w' & Hlt & Hwl').
    pose proof (ltrim_length is_sptab (w ++ ws ++ tail)) as Hlen.
    rewrite Hlt in *.
    pose proof (wire_line_nonempty _ _ Hwl') as Hw'ne.
    destruct (w' ++ ws ++ tail) as [|y0 yt] eqn:Ey; [destruct w'; [congruence|discriminate]|].
    rewrite <- Ey in *.
    destruct (wire_line_cut _ _ (ws ++ tail) Hwl') as (l' & Hcut & Hstrip).
    rewrite (rls_some F F [] _ e l' (ws ++ tail)) by (try exact Hcut; lia).
    cbn [app]. rewrite Hstrip, trim_ltrim.
    rewrite (IH f F _ ws tail e Hwls Hcs Htail Hne).
    + f_equal. f_equal. unfold conts_join. cbn [map concat]. rewrite <- !app_assoc. reflexivity.
    + simpl in Hfuel. lia.
    + pose proof (wire_line_length _ _ Hwl'). rewrite !app_length in *. lia.
Qed.

(* on an exhausted stream the continuation loop stops at once *)
Lemma cont_loop_empty fuel F buf e kv b' : (0 < F)%nat ->
  cont_loop sr_reader fuel F buf (mksr [] e) = (Ok kv, b') -> b' = mksr [] true /\ kv = buf.
Proof.
  intros HF. destruct fuel as [|f]; [discriminate|]. cbn [cont_loop].
  rewrite skip_space_char by (simpl; lia). simpl. intros H; inversion H; split; reflexivity.
Qed.

Lemma cont_loop_sound : forall fuel F buf s kv b',
  (length s < fuel)%nat -> (length s < F)%nat ->
  cont_loop sr_reader fuel F buf (mksr s false) = (Ok kv, b') ->
  (b' = mksr [] true /\ exists x, kv = buf ++ x) \/
  exists conts wire tail,
    s = wire ++ tail /\ wire_lines conts wire /\ Forall (fun c => starts_sptab c = true) conts /\
    starts_sptab tail = false /\ tail <> [] /\ kv = buf ++ conts_join conts /\ b' = mksr tail false.
Proof.
  induction fuel as [|f IH]; intros F buf s kv b' Hf HF Hrun; [lia|].
  cbn [cont_loop] in Hrun. rewrite skip_space_char in Hrun by exact HF. cbn [orb] in Hrun.
  destruct (starts_sptab s) eqn:Hst.
  - (* a continuation line *)
    destruct (ltrim is_sptab s) as [|c0 t0] eqn:El.
    + destruct (rls_none F F [] [] true ltac:(simpl; lia) eq_refl) as (r & Hr & Hline).
      rewrite Hr in Hrun. destruct r as [line|er|p]; [destruct (Hline line eq_refl); congruence| |discriminate].
      inversion Hrun; subst. left. split; [reflexivity|]. exists [SP]. reflexivity.
    + rewrite <- El in Hrun.
      pose proof (ltrim_length is_sptab s) as Hlen.
      destruct (cut_byte LF (ltrim is_sptab s)) as [[l rest]|] eqn:Ecut.
      * rewrite (rls_some F F [] (ltrim is_sptab s) false l rest ltac:(lia) Ecut) in Hrun. cbn [app] in Hrun.
        destruct (cut_byte_some _ _ _ _ Ecut) as [Hl _].
        assert (Hrest : (length rest < length s)%nat).
        { rewrite Hl in Hlen. rewrite app_length in Hlen. simpl in Hlen. lia. }
        destruct (IH F _ rest kv b' ltac:(lia) ltac:(lia) Hrun)
          as [[Hb (x & Hx)]|(conts & wire & tail & Hs & Hw & Hall & Ht & Hne & Hkv & Hb)].
        -- left. split; [exact Hb|]. exists ([SP] ++ trim (strip_cr l) ++ x).
           rewrite Hx. rewrite <- !app_assoc. reflexivity.
        -- right. destruct (cont_line_build s l rest Hst Ecut) as (c & w & Hsw & Hwl & Hcs & Htrim).
           exists (c :: conts), (w ++ wire), tail. repeat split; try assumption.
           ++ rewrite Hsw, Hs. rewrite app_assoc. reflexivity.
           ++ constructor; assumption.
           ++ constructor; assumption.
           ++ rewrite Hkv. unfold conts_join. cbn [map concat]. rewrite Htrim. rewrite <- !app_assoc. reflexivity.
      * destruct (rls_none F F [] (ltrim is_sptab s) false ltac:(lia) Ecut) as (r & Hr & Hline). rewrite Hr in Hrun.
        destruct r as [line|er|p]; [| |discriminate].
        -- assert (HF0 : (0 < F)%nat) by lia.
           destruct (cont_loop_empty _ _ _ _ _ _ HF0 Hrun) as [Hb Hkv]. left. split; [exact Hb|].
           exists ([SP] ++ trim line). rewrite Hkv. rewrite <- app_assoc. reflexivity.
        -- inversion Hrun; subst. left. split; [reflexivity|]. exists [SP]. reflexivity.
  - rewrite (ltrim_nostart _ Hst) in Hrun. destruct s as [|c0 t0].
    + inversion Hrun; subst. left. split; [reflexivity|]. exists []. symmetry. apply app_nil_r.
    + inversion Hrun; subst. right. exists [], [], (c0 :: t0). repeat split; try assumption.
      * constructor.
      * constructor.
      * discriminate.
      * unfold conts_join. simpl. symmetry. apply app_nil_r.
Qed.

(* ------------------------------------------------------------------ *)
(* header fields *)

Lemma has_byte_ltrim c p l : p c = false -> has_byte c (ltrim p l) = has_byte c l.
Proof.
  intros Hp. induction l as [|x t IH]; [reflexivity|]. cbn [ltrim].
  destruct (p x) eqn:E; [|reflexivity].
  change (has_byte c (x :: t)) with ((c =? x) || has_byte c t).
  destruct (c =? x) eqn:E2; [apply N.eqb_eq in E2; subst; congruence|]. exact IH.
Qed.

Lemma has_byte_rev c l : has_byte c (rev l) = has_byte c l.
Proof.
  induction l as [|x t IH]; [reflexivity|]. cbn [rev]. rewrite has_byte_app, IH.
  change (has_byte c [x]) with ((c =? x) || false). change (has_byte c (x :: t)) with ((c =? x) || has_byte c t).
  rewrite orb_false_r. apply orb_comm.
Qed.

Lemma rev'_rev {A} (l : list A) : rev' l = rev l.
Proof. unfold rev'. symmetry. apply rev_alt. Qed.

Lemma has_byte_trim c l : is_sptab c = false -> has_byte c (trim l) = has_byte c l.
Proof.
  intros Hc. unfold trim, rtrim. rewrite !rev'_rev.
  rewrite has_byte_rev, has_byte_ltrim, has_byte_rev, has_byte_ltrim by exact Hc. reflexivity.
Qed.

Lemma trim_colon_nonempty l : has_byte COLON l = true -> trim l <> [].
Proof.
  intros H. rewrite <- (has_byte_trim COLON l eq_refl) in H. destruct (trim l); [discriminate|discriminate].
Qed.

Lemma strip_cr_nil l : strip_cr l = [] -> l = [] \/ l = [CR].
Proof.
  destruct l as [|c t]; [left; reflexivity|]. destruct t as [|d u].
  - simpl. destruct (c =? CR) eqn:E; [|discriminate]. apply N.eqb_eq in E. subst. right; reflexivity.
  - discriminate.
Qed.

Lemma starts_strip_cr l : starts_sptab l = false -> starts_sptab (strip_cr l) = false.
Proof.
  destruct l as [|c t]; [reflexivity|]. destruct t as [|d u].
  - simpl. destruct (c =? CR); [reflexivity|]. simpl. tauto.
  - simpl. tauto.
Qed.

(* what was read up to a line end is the wire form of the resulting line *)
Lemma wire_line_of_cut l : has_byte LF l = false -> wire_line (strip_cr l) (l ++ [LF]).
Proof.
  intros Hno. destruct (ends_with_cr l) eqn:E.
  - destruct (ends_with_cr_true l E) as [l0 ->]. rewrite strip_cr_cr. rewrite <- app_assoc. constructor.
    rewrite has_byte_app in Hno. apply orb_false_iff in Hno. tauto.
  - rewrite (strip_cr_id l E). constructor; assumption.
Qed.

Lemma wire_lines_count ls w : wire_lines ls w -> (length ls <= length w)%nat.
Proof.
  induction 1; [simpl; lia|]. pose proof (wire_line_length _ _ H). rewrite app_length. simpl. lia.
Qed.

Lemma wire_lines_length_app ls w : wire_lines ls w -> forall x, (length x <= length (w ++ x))%nat.
Proof. intros _ x. rewrite app_length. lia. Qed.

(* after a complete field comes a line that does not start with SP / TAB *)
Lemma fields_tail_ok ls h w eolw rest : header_fields ls h -> wire_lines ls w -> wire_line [] eolw ->
  starts_sptab (w ++ eolw ++ rest) = false /\ w ++ eolw ++ rest <> [].
Proof.
  intros Hf Hw He. inversion Hf; subst.
  - inversion Hw; subst. cbn [app]. split; [apply wire_line_empty_start; exact He|].
    pose proof (wire_line_nonempty _ _ He). destruct eolw; [congruence|discriminate].
  - inversion Hw as [|l' w0 ls' ws Hwl Hwls]; subst.
    assert (Hne : l0 <> []) by (intros ->; discriminate).
    rewrite <- app_assoc. split.
    + rewrite (wire_line_start _ _ _ Hwl Hne). assumption.
    + pose proof (wire_line_nonempty _ _ Hwl). destruct w0; [congruence|discriminate].
Qed.

Lemma hdr_loop_complete : forall ls h, header_fields ls h ->
  forall fuel F m wire eolw rest e,
  wire_lines ls wire -> wire_line [] eolw ->
  (length ls < fuel)%nat -> (length (wire ++ eolw ++ rest) < F)%nat ->
  hdr_loop sr_reader fuel F m (mksr (wire ++ eolw ++ rest) e) = (Ok (m ++ h), mksr rest e).
Proof.
  induction 1 as [|l0 conts rest_ls k v key hs Hst Hcolon Hall Hcut Hkey Hval Hrest IH];
    intros fuel F m wire eolw rest e Hw He Hfuel HF;
    (destruct fuel as [|f]; [simpl in Hfuel; lia|]); cbn [hdr_loop]; unfold read_continued.
  - inversion Hw; subst. cbn [app] in *.
    destruct (wire_line_cut _ _ rest He) as (l' & Hc & Hs).
    rewrite (rls_some F F [] _ e l' rest HF Hc). cbn [app]. rewrite Hs. rewrite app_nil_r. reflexivity.
  - inversion Hw as [|l' w0 ls' ws Hwl Hwls]; subst.
    destruct (wire_lines_app_inv _ _ _ Hwls) as (wc & wr & -> & Hwc & Hwr).
    rewrite <- !app_assoc in *.
    destruct (wire_line_cut _ _ (wc ++ wr ++ eolw ++ rest) Hwl) as (l' & Hc & Hs).
    rewrite (rls_some F F [] _ e l' _ HF Hc). cbn [app]. rewrite Hs.
    assert (Hne : l0 <> []) by (intros ->; discriminate).
    destruct l0 as [|c0 t0] eqn:El0; [congruence|]. rewrite <- El0 in *. rewrite Hcolon.
    destruct (fields_tail_ok _ _ wr eolw rest Hrest Hwr He) as [Htl Htne].
    pose proof (wire_line_length _ _ Hwl) as Hlen0.
    pose proof (wire_lines_count _ _ Hwc) as Hcnt.
    rewrite (cont_loop_complete conts F F (trim l0) wc (wr ++ eolw ++ rest) e Hwc Hall Htl Htne).
    + change (trim l0 ++ conts_join conts) with (join_field l0 conts).
      destruct (join_field l0 conts) as [|j0 jt] eqn:Ej; [simpl in Hcut; discriminate|]. rewrite <- Ej in *.
      rewrite Hcut, Hkey, Hval.
      rewrite (IH f F _ wr eolw rest e Hwr He).
      * rewrite <- app_assoc. reflexivity.
      * simpl in Hfuel. rewrite app_length in Hfuel. lia.
      * rewrite !app_length in *. lia.
    + rewrite !app_length in *. lia.
    + rewrite !app_length in *. lia.
Qed.

Lemma hdr_loop_empty fuel F m e h b' : (0 < F)%nat -> hdr_loop sr_reader fuel F m (mksr [] e) <> (Ok h, b').
Proof.
  intros HF. destruct fuel as [|f]; [discriminate|]. cbn [hdr_loop]. unfold read_continued.
  destruct (rls_none F F [] [] e ltac:(simpl; lia) eq_refl) as (r & Hr & Hline). rewrite Hr.
  destruct r as [line|er|p]; [destruct (Hline line eq_refl); congruence|discriminate|discriminate].
Qed.

Lemma hdr_loop_sound : forall fuel F m s h b',
  (length s < fuel)%nat -> (length s < F)%nat -> starts_sptab s = false ->
  hdr_loop sr_reader fuel F m (mksr s false) = (Ok h, b') ->
  exists ls wire eolw rest h',
    s = wire ++ eolw ++ rest /\ wire_lines ls wire /\ wire_line [] eolw /\ header_fields ls h' /\
    h = m ++ h' /\ b' = mksr rest false.
Proof.
  induction fuel as [|f IH]; intros F m s h b' Hf HF Hst Hrun; [lia|].
  assert (HF0 : (0 < F)%nat) by lia.
  cbn [hdr_loop] in Hrun. unfold read_continued in Hrun.
  destruct (cut_byte LF s) as [[l rest1]|] eqn:Ecut.
  - rewrite (rls_some F F [] s false l rest1 HF Ecut) in Hrun. cbn [app] in Hrun.
    destruct (cut_byte_some _ _ _ _ Ecut) as [Hs Hno].
    assert (Hlen1 : (length rest1 < length s)%nat) by (rewrite Hs, app_length; simpl; lia).
    destruct (strip_cr l) as [|c0 t0] eqn:Eline.
    + (* the empty line ends the block *)
      inversion Hrun; subst h b'.
      exists [], [], (l ++ [LF]), rest1, []. repeat split.
      * rewrite <- app_assoc. exact Hs.
      * constructor.
      * pose proof (wire_line_of_cut l Hno) as Hwl. rewrite Eline in Hwl. exact Hwl.
      * constructor.
      * symmetry. apply app_nil_r.
    + rewrite <- Eline in *.
      destruct (has_byte COLON (strip_cr l)) eqn:Hcolon; [|discriminate].
      pose proof (trim_colon_nonempty _ Hcolon) as Htrim.
      destruct (cont_loop sr_reader F F (trim (strip_cr l)) (mksr rest1 false)) as [[kv|er|p] s1] eqn:Ecl;
        [|discriminate|discriminate].
      destruct (cont_loop_sound F F _ rest1 kv s1 ltac:(lia) ltac:(lia) Ecl)
        as [[Hb (x & Hx)]|(conts & wc & tail & Hr1 & Hwc & Hall & Htl & Htne & Hkv & Hb)].
      * (* the input ended inside the field *)
        exfalso. subst s1.
        destruct kv as [|k0 kt] eqn:Ekv; [destruct (trim (strip_cr l)); [congruence|discriminate]|].
        rewrite <- Ekv in *.
        destruct (cut_byte COLON kv) as [[k v]|]; [|discriminate].
        destruct (canonical_key k) as [key|]; [|discriminate].
        destruct (forallb valid_value_byte v); [|discriminate].
        exact (hdr_loop_empty _ _ _ _ _ _ HF0 Hrun).
      * subst s1.
        destruct kv as [|k0 kt] eqn:Ekv; [destruct (trim (strip_cr l)); [congruence|discriminate]|].
        rewrite <- Ekv in *.
        destruct (cut_byte COLON kv) as [[k v]|] eqn:Ek; [|discriminate].
        destruct (canonical_key k) as [key|] eqn:Ekey; [|discriminate].
        destruct (forallb valid_value_byte v) eqn:Eval; [|discriminate].
        assert (Hlent : (length tail <= length rest1)%nat) by (rewrite Hr1, app_length; lia).
        destruct (IH F _ tail h b' ltac:(lia) ltac:(lia) Htl Hrun)
          as (ls & wire & eolw & rest & h' & Ht & Hw & He & Hfs & Hh & Hb').
        exists (strip_cr l :: conts ++ ls), ((l ++ [LF]) ++ wc ++ wire), eolw, rest, ((key, ltrim is_sptab v) :: h').
        repeat split.
        -- rewrite Hs, Hr1, Ht. rewrite <- !app_assoc. reflexivity.
        -- constructor; [apply wire_line_of_cut; exact Hno|]. apply wire_lines_app; assumption.
        -- exact He.
        -- apply hf_cons with (k := k); try assumption.
           ++ apply starts_strip_cr. rewrite Hs in Hst. destruct l; [reflexivity|exact Hst].
           ++ unfold join_field. fold (conts_join conts). rewrite <- Hkv. exact Ek.
        -- rewrite Hh. rewrite <- app_assoc. reflexivity.
        -- exact Hb'.
  - (* no line end at all *)
    exfalso.
    destruct (rls_none F F [] s false HF Ecut) as (r & Hr & Hline). rewrite Hr in Hrun.
    destruct r as [line|er|p]; [|discriminate|discriminate].
    destruct line as [|c0 t0] eqn:Eline; [destruct (Hline _ eq_refl) as [H1 H2]; simpl in H2; congruence|].
    rewrite <- Eline in *.
    destruct (has_byte COLON line) eqn:Hcolon; [|discriminate].
    pose proof (trim_colon_nonempty _ Hcolon) as Htrim.
    destruct (cont_loop sr_reader F F (trim line) (mksr [] true)) as [[kv|er|p] s1] eqn:Ecl;
      [|discriminate|discriminate].
    destruct (cont_loop_empty _ _ _ _ _ _ HF0 Ecl) as [-> ->].
    destruct (trim line) as [|k0 kt] eqn:Ekv; [congruence|]. rewrite <- Ekv in *.
    destruct (cut_byte COLON (trim line)) as [[k v]|]; [|discriminate].
    destruct (canonical_key k) as [key|]; [|discriminate].
    destruct (forallb valid_value_byte v); [|discriminate].
    exact (hdr_loop_empty _ _ _ _ _ _ HF0 Hrun).
Qed.

(* ------------------------------------------------------------------ *)
(* ReadMIMEHeader and readHeader *)

Lemma sr_peek_nonempty c t e : sr_peek (mksr (c :: t) e) = (Ok (Some c), mksr (c :: t) e).
Proof. reflexivity. Qed.

Lemma read_mime_header_complete ls h F wire eolw rest e :
  header_fields ls h -> wire_lines ls wire -> wire_line [] eolw ->
  (length (wire ++ eolw ++ rest) < F)%nat ->
  read_mime_header sr_reader F (mksr (wire ++ eolw ++ rest) e) = (Ok h, mksr rest e).
Proof.
  intros Hf Hw He HF.
  destruct (fields_tail_ok _ _ _ _ rest Hf Hw He) as [Hst Hne].
  pose proof (wire_lines_count _ _ Hw) as Hcnt.
  pose proof (hdr_loop_complete ls h Hf F F [] wire eolw rest e Hw He
                ltac:(rewrite app_length in HF; lia) HF) as Hl.
  unfold read_mime_header. cbn [r_peek sr_reader].
  destruct (wire ++ eolw ++ rest) as [|c t] eqn:Es; [congruence|].
  rewrite !sr_peek_nonempty. simpl in Hst. rewrite Hst. exact Hl.
Qed.

Lemma read_mime_header_sound F s h b' : (length s < F)%nat ->
  read_mime_header sr_reader F (mksr s false) = (Ok h, b') ->
  exists ls wire eolw rest,
    s = wire ++ eolw ++ rest /\ wire_lines ls wire /\ wire_line [] eolw /\ header_fields ls h /\
    b' = mksr rest false.
Proof.
  intros HF Hrun. assert (HF0 : (0 < F)%nat) by lia.
  unfold read_mime_header in Hrun. cbn [r_peek sr_reader] in Hrun.
  destruct s as [|c t].
  - exfalso. cbn in Hrun. exact (hdr_loop_empty _ _ _ _ _ _ HF0 Hrun).
  - rewrite !sr_peek_nonempty in Hrun.
    destruct (is_sptab c) eqn:Ec.
    + exfalso. destruct (read_line_slice sr_reader F F (Some 80%nat) [] (mksr (c :: t) false)) as [[x|x|x] s2];
        discriminate.
    + destruct (hdr_loop_sound F F [] (c :: t) h b' HF HF Ec Hrun)
        as (ls & wire & eolw & rest & h' & Hs & Hw & He & Hf & Hh & Hb).
      simpl in Hh. subst h'. exists ls, wire, eolw, rest. repeat split; assumption.
Qed.

Lemma read_mime_header_empty F e h b' : (0 < F)%nat -> read_mime_header sr_reader F (mksr [] e) <> (Ok h, b').
Proof. intros HF. unfold read_mime_header. cbn. apply hdr_loop_empty. exact HF. Qed.

Lemma message_split r first h : message r first h ->
  exists w0 ls wire eolw, r = w0 ++ wire ++ eolw /\ wire_line first w0 /\ wire_lines ls wire /\
                          wire_line [] eolw /\ header_fields ls h.
Proof.
  intros (ls & Hw & Hf). inversion Hw as [|l' w0 ls' ws Hwl Hwls]; subst.
  destruct (wire_lines_app_inv _ _ _ Hwls) as (wire & we & -> & H1 & H2).
  inversion H2 as [|l'' eolw ls'' ws' He Hnil]; subst. inversion Hnil; subst. rewrite app_nil_r.
  exists w0, ls, wire, eolw. repeat split; assumption.
Qed.

Lemma message_build first h w0 ls wire eolw : wire_line first w0 -> wire_lines ls wire ->
  wire_line [] eolw -> header_fields ls h -> message (w0 ++ wire ++ eolw) first h.
Proof.
  intros H0 Hw He Hf. exists ls. split; [|exact Hf].
  constructor; [exact H0|]. apply wire_lines_app; [exact Hw|].
  rewrite <- (app_nil_r eolw). constructor; [exact He|constructor].
Qed.

(* readHeader succeeds exactly on a stream that begins with a message, and leaves what follows the message *)
Theorem read_header_complete r first h rest F e : message r first h -> (length (r ++ rest) < F)%nat ->
  read_header sr_reader F (mksr (r ++ rest) e) = (Ok (first, h), mksr rest e).
Proof.
  intros Hm HF. destruct (message_split _ _ _ Hm) as (w0 & ls & wire & eolw & -> & H0 & Hw & He & Hf).
  rewrite <- !app_assoc in *. unfold read_header.
  destruct (wire_line_cut _ _ (wire ++ eolw ++ rest) H0) as (l' & Hc & Hs).
  rewrite (rls_some F F [] _ e l' _ HF Hc). cbn [app]. rewrite Hs.
  rewrite (read_mime_header_complete ls h F wire eolw rest e Hf Hw He).
  - reflexivity.
  - rewrite app_length in HF. lia.
Qed.

Theorem read_header_sound F s first h b' : (length s < F)%nat ->
  read_header sr_reader F (mksr s false) = (Ok (first, h), b') ->
  exists r rest, s = r ++ rest /\ message r first h /\ b' = mksr rest false.
Proof.
  intros HF Hrun. assert (HF0 : (0 < F)%nat) by lia. unfold read_header in Hrun.
  destruct (cut_byte LF s) as [[l rest1]|] eqn:Ecut.
  - rewrite (rls_some F F [] s false l rest1 HF Ecut) in Hrun. cbn [app] in Hrun.
    destruct (cut_byte_some _ _ _ _ Ecut) as [Hs Hno].
    destruct (read_mime_header sr_reader F (mksr rest1 false)) as [[h0|er|p] s2] eqn:Emh;
      [|discriminate|discriminate].
    inversion Hrun; subst first h0 s2.
    destruct (read_mime_header_sound F rest1 h b' ltac:(rewrite Hs, app_length in HF; simpl in HF; lia) Emh)
      as (ls & wire & eolw & rest & Hr & Hw & He & Hf & Hb).
    exists ((l ++ [LF]) ++ wire ++ eolw), rest. repeat split.
    + rewrite Hs, Hr. rewrite <- !app_assoc. reflexivity.
    + apply message_build with (ls := ls); try assumption. apply wire_line_of_cut. exact Hno.
    + exact Hb.
  - exfalso. destruct (rls_none F F [] s false HF Ecut) as (r & Hr & _). rewrite Hr in Hrun.
    destruct r as [line|er|p]; [|discriminate|discriminate].
    destruct (read_mime_header sr_reader F (mksr [] true)) as [[h0|er|p] s2] eqn:Emh;
      [|discriminate|discriminate].
    exact (read_mime_header_empty _ _ _ _ HF0 Emh).
Qed.

(* ------------------------------------------------------------------ *)
(* the request line *)

Lemma index_from_cut c s : forall k,
  index_from s c k = match cut_byte c s with Some (a, _) => (k + zlen a)%Z | None => (-1)%Z end.
Proof.
  induction s as [|x t IH]; intros k; [reflexivity|]. cbn [index_from cut_byte].
  destruct (x =? c); [unfold zlen; simpl; lia|]. rewrite IH.
  destruct (cut_byte c t) as [[a b]|]; [|reflexivity]. rewrite zlen_cons. lia.
Qed.

Lemma slice_eq site s i j : (0 <= i)%Z -> (i <= j)%Z -> (j <= zlen s)%Z ->
  slice site s i j = Ok (firstn (Z.to_nat (j - i)) (skipn (Z.to_nat i) s)).
Proof.
  intros H1 H2 H3. unfold slice.
  replace ((0 <=? i)%Z && (i <=? j)%Z && (j <=? zlen s)%Z) with true
    by (symmetry; rewrite !andb_true_iff; repeat split; apply Z.leb_le; assumption).
  reflexivity.
Qed.

(* parseRequestLine splits at the first two spaces *)
Lemma parse_request_line_char line :
  parse_request_line line =
  match cut_byte SP line with
  | None => Err (wd "invalid-request-line")
  | Some (m, t) =>
    match cut_byte SP t with
    | None => Err (wd "invalid-request-line")
    | Some (u, p) => Ok (m, u, p)
    end
  end.
Proof.
  unfold parse_request_line, index_byte. rewrite index_from_cut.
  destruct (cut_byte SP line) as [[m t]|] eqn:E1.
  - destruct (cut_byte_some _ _ _ _ E1) as [Hl _].
    assert (Hzl : zlen line = (zlen m + 1 + zlen t)%Z).
    { rewrite Hl. unfold zlen. rewrite app_length. simpl. lia. }
    pose proof (zlen_nonneg m). pose proof (zlen_nonneg t).
    unfold slice_from, slice_to.
    rewrite slice_eq by lia.
    assert (Ht : firstn (Z.to_nat (zlen line - (0 + zlen m + 1))) (skipn (Z.to_nat (0 + zlen m + 1)) line) = t).
    { replace (Z.to_nat (0 + zlen m + 1)) with (length (m ++ [SP])) by (rewrite app_length; unfold zlen; simpl; lia).
      rewrite Hl. replace (m ++ SP :: t) with ((m ++ [SP]) ++ t) by (rewrite <- app_assoc; reflexivity).
      rewrite skipn_app_exact. apply firstn_all2. unfold zlen in *. rewrite !app_length. simpl. lia. }
    rewrite Ht. cbn [bind]. rewrite index_from_cut.
    destruct (cut_byte SP t) as [[u p]|] eqn:E2.
    + destruct (cut_byte_some _ _ _ _ E2) as [Htl _].
      assert (Hzt : zlen t = (zlen u + 1 + zlen p)%Z).
      { rewrite Htl. unfold zlen. rewrite app_length. simpl. lia. }
      pose proof (zlen_nonneg u). pose proof (zlen_nonneg p).
      replace ((0 + zlen m <? 0)%Z || (0 + zlen u <? 0)%Z) with false
        by (symmetry; apply orb_false_iff; split; apply Z.ltb_ge; lia).
      rewrite !slice_eq by lia. cbn [bind].
      f_equal. f_equal; [f_equal|].
      * rewrite Hl. cbn [skipn Z.to_nat]. replace (Z.to_nat (0 + zlen m - 0)) with (length m) by (unfold zlen; lia).
        rewrite firstn_app, Nat.sub_diag, firstn_all. simpl. apply app_nil_r.
      * replace (Z.to_nat (0 + zlen m + 1)) with (length (m ++ [SP])) by (rewrite app_length; unfold zlen; simpl; lia).
        rewrite Hl. replace (m ++ SP :: t) with ((m ++ [SP]) ++ t) by (rewrite <- app_assoc; reflexivity).
        rewrite skipn_app_exact. rewrite Htl.
        replace (Z.to_nat (0 + zlen u + (0 + zlen m + 1) - (0 + zlen m + 1))) with (length u) by (unfold zlen; lia).
        rewrite firstn_app, Nat.sub_diag, firstn_all. simpl. apply app_nil_r.
      * replace (Z.to_nat (0 + zlen u + (0 + zlen m + 1) + 1)) with (length ((m ++ [SP]) ++ (u ++ [SP])))
          by (rewrite !app_length; unfold zlen; simpl; lia).
        rewrite Hl, Htl.
        replace (m ++ SP :: u ++ SP :: p) with (((m ++ [SP]) ++ (u ++ [SP])) ++ p)
          by (rewrite <- !app_assoc; reflexivity).
        rewrite skipn_app_exact. apply firstn_all2. unfold zlen in *. rewrite !app_length. simpl. lia.
    + replace ((0 + zlen m <? 0)%Z || (-1 <? 0)%Z) with true by (rewrite orb_true_r; reflexivity). reflexivity.
  - unfold slice_from. rewrite slice_eq by (pose proof (zlen_nonneg line); lia). cbn [bind]. reflexivity.
Qed.

Lemma parse_request_line_spec line m u p :
  parse_request_line line = Ok (m, u, p) <-> request_line line m u p.
Proof.
  rewrite parse_request_line_char. unfold request_line. split.
  - destruct (cut_byte SP line) as [[m' t]|] eqn:E1; [|discriminate].
    destruct (cut_byte SP t) as [[u' p']|] eqn:E2; [|discriminate].
    intros H; inversion H; subst.
    destruct (cut_byte_some _ _ _ _ E1) as [-> H1]. destruct (cut_byte_some _ _ _ _ E2) as [-> H2].
    repeat split; assumption.
  - intros (-> & H1 & H2).
    rewrite (cut_byte_exact SP m _ H1). rewrite (cut_byte_exact SP u _ H2). reflexivity.
Qed.

(* ------------------------------------------------------------------ *)
(* the response line *)

Lemma parse_response_line_char line :
  parse_response_line line =
  match cut_byte SP line with
  | None => Err (wd "invalid-response-line")
  | Some (proto, t) =>
    match cut_byte SP t with
    | None => Err (wd "invalid-response-line")
    | Some (status, msg) => do sc <- parse_int32 status ;; Ok (proto, sc, msg)
    end
  end.
Proof.
  unfold parse_response_line, index_byte. rewrite index_from_cut.
  destruct (cut_byte SP line) as [[m t]|] eqn:E1.
  - destruct (cut_byte_some _ _ _ _ E1) as [Hl _].
    assert (Hzl : zlen line = (zlen m + 1 + zlen t)%Z).
    { rewrite Hl. unfold zlen. rewrite app_length. simpl. lia. }
    pose proof (zlen_nonneg m). pose proof (zlen_nonneg t).
    unfold slice_from, slice_to.
    rewrite slice_eq by lia.
    assert (Ht : firstn (Z.to_nat (zlen line - (0 + zlen m + 1))) (skipn (Z.to_nat (0 + zlen m + 1)) line) = t).
    { replace (Z.to_nat (0 + zlen m + 1)) with (length (m ++ [SP])) by (rewrite app_length; unfold zlen; simpl; lia).
      rewrite Hl. replace (m ++ SP :: t) with ((m ++ [SP]) ++ t) by (rewrite <- app_assoc; reflexivity).
      rewrite skipn_app_exact. apply firstn_all2. unfold zlen in *. rewrite !app_length. simpl. lia. }
    rewrite Ht. cbn [bind]. rewrite index_from_cut.
    destruct (cut_byte SP t) as [[u p]|] eqn:E2.
    + destruct (cut_byte_some _ _ _ _ E2) as [Htl _].
      assert (Hzt : zlen t = (zlen u + 1 + zlen p)%Z).
      { rewrite Htl. unfold zlen. rewrite app_length. simpl. lia. }
      pose proof (zlen_nonneg u). pose proof (zlen_nonneg p).
      replace ((0 + zlen m <? 0)%Z || (0 + zlen u <? 0)%Z) with false
        by (symmetry; apply orb_false_iff; split; apply Z.ltb_ge; lia).
      rewrite !slice_eq by lia. cbn [bind].
      assert (Hu : firstn (Z.to_nat (0 + zlen u + (0 + zlen m + 1) - (0 + zlen m + 1)))
                          (skipn (Z.to_nat (0 + zlen m + 1)) line) = u).
      { replace (Z.to_nat (0 + zlen m + 1)) with (length (m ++ [SP])) by (rewrite app_length; unfold zlen; simpl; lia).
        rewrite Hl. replace (m ++ SP :: t) with ((m ++ [SP]) ++ t) by (rewrite <- app_assoc; reflexivity).
        rewrite skipn_app_exact. rewrite Htl.
        replace (Z.to_nat (0 + zlen u + (0 + zlen m + 1) - (0 + zlen m + 1))) with (length u) by (unfold zlen; lia).
        rewrite firstn_app, Nat.sub_diag, firstn_all. simpl. apply app_nil_r. }
      rewrite Hu. destruct (parse_int32 u) as [sc|er|pp]; cbn [bind]; try reflexivity.
      f_equal. f_equal; [f_equal|].
      * rewrite Hl. cbn [skipn Z.to_nat]. replace (Z.to_nat (0 + zlen m - 0)) with (length m) by (unfold zlen; lia).
        rewrite firstn_app, Nat.sub_diag, firstn_all. simpl. apply app_nil_r.
      * replace (Z.to_nat (0 + zlen u + (0 + zlen m + 1) + 1)) with (length ((m ++ [SP]) ++ (u ++ [SP])))
          by (rewrite !app_length; unfold zlen; simpl; lia).
        rewrite Hl, Htl.
        replace (m ++ SP :: u ++ SP :: p) with (((m ++ [SP]) ++ (u ++ [SP])) ++ p)
          by (rewrite <- !app_assoc; reflexivity).
        rewrite skipn_app_exact. apply firstn_all2. unfold zlen in *. rewrite !app_length. simpl. lia.
    + replace ((0 + zlen m <? 0)%Z || (-1 <? 0)%Z) with true by (rewrite orb_true_r; reflexivity). reflexivity.
  - unfold slice_from. rewrite slice_eq by (pose proof (zlen_nonneg line); lia). cbn [bind]. reflexivity.
Qed.

Lemma parse_response_line_spec line proto code msg :
  parse_response_line line = Ok (proto, code, msg) <-> response_line line proto code msg.
Proof.
  rewrite parse_response_line_char. unfold response_line. split.
  - destruct (cut_byte SP line) as [[m' t]|] eqn:E1; [|discriminate].
    destruct (cut_byte SP t) as [[u' p']|] eqn:E2; [|discriminate].
    destruct (parse_int32 u') as [sc|er|pp] eqn:E3; cbn [bind]; [|discriminate|discriminate].
    intros H; inversion H; subst.
    destruct (cut_byte_some _ _ _ _ E1) as [-> H1]. destruct (cut_byte_some _ _ _ _ E2) as [-> H2].
    exists u'. repeat split; assumption.
  - intros (status & -> & H1 & H2 & H3).
    rewrite (cut_byte_exact SP proto _ H1). rewrite (cut_byte_exact SP status _ H2). rewrite H3. reflexivity.
Qed.
