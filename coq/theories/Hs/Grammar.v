(* C06 - the readable specification of a well-formed announce / upgrade request.
   Definitions only.  Grammar_proofs.v shows that the model's reader accepts exactly this grammar.

   A message on the wire is a sequence of lines, each ended by LF or CR LF:
       first line
       header field lines: a line that does not begin with SP / TAB and contains a colon,
                           followed by any number of continuation lines that begin with SP / TAB
       an empty line
   The value of a field is what follows the first colon of
       trim(first line) SP trim(continuation 1) SP trim(continuation 2) ...
   without its leading spaces and tabs; its name is canonicalised (Accepts-protocol-VERSION -> Accepts-Protocol-Version)
   unless it contains a space; a name must be non-empty and consist of token characters and spaces, a value of
   TAB, SP, visible ASCII and bytes >= 0x80. *)
From Coq Require Import String Ascii.
From Coq Require Import List ZArith NArith Bool.
From SA Require Import Base.Tok.
From SA.Hs Require Import Parse Machine.
Import ListNotations.
Open Scope N_scope.

(* the wire form of one line with content l: l CR LF, or l LF when l does not itself end in CR *)
Inductive wire_line : bytes -> bytes -> Prop :=
| wl_crlf : forall l, has_byte LF l = false -> wire_line l (l ++ [CR; LF])
| wl_lf : forall l, has_byte LF l = false -> ends_with_cr l = false -> wire_line l (l ++ [LF]).

Inductive wire_lines : list bytes -> bytes -> Prop :=
| wls_nil : wire_lines [] []
| wls_cons : forall l w ls ws, wire_line l w -> wire_lines ls ws -> wire_lines (l :: ls) (w ++ ws).

Definition starts_sptab (l : bytes) : bool :=
  match l with c :: _ => is_sptab c | [] => false end.

(* a field's first line and its continuation lines, joined *)
Definition join_field (l0 : bytes) (conts : list bytes) : bytes :=
  trim l0 ++ concat (map (fun c => SP :: trim c) conts).

(* the header lines (without the final empty line) and the header they denote *)
Inductive header_fields : list bytes -> headers -> Prop :=
| hf_nil : header_fields [] []
| hf_cons : forall l0 conts rest k v key hs,
    starts_sptab l0 = false ->
    has_byte COLON l0 = true ->
    Forall (fun c => starts_sptab c = true) conts ->
    cut_byte COLON (join_field l0 conts) = Some (k, v) ->
    canonical_key k = Some key ->
    forallb valid_value_byte v = true ->
    header_fields rest hs ->
    header_fields (l0 :: conts ++ rest) ((key, ltrim is_sptab v) :: hs).

(* r is exactly one message: first line, header lines, empty line *)
Definition message (r : bytes) (first : bytes) (h : headers) : Prop :=
  exists ls, wire_lines (first :: ls ++ [[]]) r /\ header_fields ls h.

(* "METHOD SP URL SP PROTO": the method ends at the first space, the URL at the second *)
Definition request_line (line m u p : bytes) : Prop :=
  line = m ++ SP :: u ++ SP :: p /\ has_byte SP m = false /\ has_byte SP u = false.

(* the announce request; `accepted` is the comma-separated list of Accepts-Protocol-Version *)
Definition wf_announce (r : bytes) (accepted : list bytes) : Prop :=
  exists line h u p,
    message r line h /\ request_line line request_method u p /\
    accepted = split_field (hget k_accepts h).

Definition supported (v : bytes) : Prop := In v supported_versions.
Definition offers (accepted : list bytes) (v : bytes) : Prop := In v accepted.

(* the upgrade request for version v; `security` is the value of its Security header ("" if absent) *)
Definition wf_upgrade (v : bytes) (r : bytes) (security : bytes) : Prop :=
  exists line h u p,
    message r line h /\ request_line line (wd "GET") u p /\
    to_lower (hget k_connection h) = wd "upgrade" /\
    hget k_upgrade h = upgrade_token v /\
    security = hget k_security h.

(* StartTLS is not requested, the server does not demand a client certificate it could only get through StartTLS, and the session keeps
   the carrier's security,
   or it is requested, the server can do it (insecure carrier, certificate) and the TLS handshake succeeds *)
Definition starttls_consistent (tls_ok : bool) (c : cfg) (security : bytes) (secure : bool) (t : tech) : Prop :=
  (to_upper security <> wd "STARTTLS" /\ negb (c_secure c) && c_cert c && c_reqcc c = false /\
   secure = c_secure c /\ t = carrier_tech (c_secure c)) \/
  (to_upper security = wd "STARTTLS" /\ c_secure c = false /\ c_cert c = true /\ tls_ok = true /\
   secure = true /\ t = TechTls).

(* the session a server establishes on the client byte string b *)
Definition server_session_with (tls_ok : bool) (c : cfg) (b : bytes) : outcome :=
  match server_stream_with tls_ok c b with
  | Ok o => sout o
  | _ => Refused false
  end.

(* ------------------------------------------------------------------ *)
(* client role *)

(* "PROTO SP STATUS SP MESSAGE" with STATUS a decimal int32 (strconv.ParseInt: optional sign, digits) *)
Definition response_line (line proto : bytes) (code : Z) (msg : bytes) : Prop :=
  exists status,
    line = proto ++ SP :: status ++ SP :: msg /\ has_byte SP proto = false /\ has_byte SP status = false /\
    parse_int32 status = Ok code.

Definition wf_response (r : bytes) (code : Z) (h : headers) : Prop :=
  exists line proto msg, message r line h /\ response_line line proto code msg.

(* the client asks for StartTLS iff the carrier is not secure and the server's Capabilities list contains it *)
Definition client_starttls (secure : bool) (h : headers) : bool :=
  negb secure &&
  existsb (fun c => bytes_eqb (to_upper c) (wd "STARTTLS")) (split_field (to_upper (hget k_capabilities h))).

(* b1: what the server sends before the client's second request, b2: after *)
Definition client_session_with (tls_ok : bool) (secure : bool) (b1 b2 : bytes) : outcome :=
  match client_stream_with tls_ok secure b1 b2 with
  | Ok o => cout o
  | _ => Refused false
  end.
