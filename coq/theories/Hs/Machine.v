(* C06 - the two handshake state machines of bokysan/socketace and the harness protocol.

   Modelled Go code
     internal/socketace/server.go   NewServerConnection, handshake, upgrade, negotiateVersion
     internal/socketace/client.go   NewClientConnection, handshake, upgrade, containsCapability
     internal/socketace/request.go  prepareFirstLine / String (what the client writes; net/http Header.Write)
   TLS is not modelled: `tls_ok` is the result of the TLS handshake that follows "101" with StartTLS.

   Definitions only; proofs are in Machine_proofs.v. *)
From Coq Require Import List ZArith NArith String Ascii Bool.
From SA Require Import Base.Tok.
From SA.Hs Require Import Parse.
Import ListNotations.
Open Scope N_scope.

(* ------------------------------------------------------------------ *)
(* constants of the protocol *)

Definition request_method : bytes := wd "X-SOCKETACE".
Definition protocol_version : bytes := wd "v2.0.0".                 (* version.ProtocolVersion *)
Definition supported_versions : list bytes := [protocol_version].   (* SupportedProtocolVersions *)
Definition app_version : bytes := wd "unknown".                     (* version.AppVersion() of an unstamped build *)
Definition k_accepts : bytes := wd "Accepts-Protocol-Version".
Definition k_connection : bytes := wd "Connection".
Definition k_upgrade : bytes := wd "Upgrade".
Definition k_security : bytes := wd "Security".
Definition k_protocol_version : bytes := wd "Protocol-Version".
Definition k_capabilities : bytes := wd "Capabilities".
Definition upgrade_token (v : bytes) : bytes := wd "socketace/" ++ v.

(* server.go negotiateVersion: the first supported version that occurs in the client's list *)
Fixpoint negotiate_in (supported accepted : list bytes) : bytes :=
  match supported with
  | [] => []
  | v :: t => if existsb (bytes_eqb v) accepted then v else negotiate_in t accepted
  end.
Definition negotiate_version (accepted : bytes) : bytes :=
  negotiate_in supported_versions (split_field accepted).

(* ------------------------------------------------------------------ *)
(* what the TLS layer does with the first bytes when the peer does not speak TLS (crypto/tls conn.go
   readRecordOrCCS, first record): true = it is still waiting for input when the stream ends.
   Only used for the harness' "eof-" marker of a FAILED TLS handshake; nothing is proved about it, and it is
   accurate only when the first five bytes do not look like a TLS record header. *)
Definition tls_waits (rest : bytes) : bool :=
  match rest with
  | typ :: v1 :: v2 :: n1 :: n2 :: body =>
    if typ =? 128 then false
    else if (negb (typ =? 21) && negb (typ =? 22)) || (16 <=? v1) then false
    else
      let n := n1 * 256 + n2 in
      if 18432 <? n then false
      else N.of_nat (List.length body) <? n
  | _ => true
  end.

(* ------------------------------------------------------------------ *)
(* observations *)

Inductive tech := TechNone | TechUnderlying | TechTls.

Inductive outcome :=
| Established (version : bytes) (secure : bool) (t : tech) (rest : bytes)
| Refused (eof : bool).      (* eof: the machine was still reading when the input ended *)

(* c_reqcc: the configuration demands a client certificate (ServerConfig.RequireClientCert) *)
Record cfg := mkcfg { c_secure : bool; c_cert : bool; c_reqcc : bool }.

Record sobs := mksobs { statuses : list N; sout : outcome }.
Record cobs := mkcobs { written : bytes; cout : outcome }.

Definition carrier_tech (secure : bool) : tech := if secure then TechUnderlying else TechNone.

(* ------------------------------------------------------------------ *)
(* what the client writes: Request.String() = first line, net/http Header.Write (keys sorted, values trimmed), CRLF *)

Definition crlf : bytes := [CR; LF].
Definition is_http_space (c : N) : bool := (c =? 32) || (c =? 9) || (c =? 10) || (c =? 13).
Definition header_line (k v : bytes) : bytes :=
  k ++ wd ": " ++ rtrim is_http_space (ltrim is_http_space v) ++ crlf.

Definition announce_request : bytes :=
  request_method ++ wd " / HTTP/1.1" ++ crlf ++
  header_line k_accepts protocol_version ++
  header_line (wd "User-Agent") (wd "socketace/" ++ app_version) ++
  crlf.

Definition upgrade_request (v : bytes) (starttls : bool) : bytes :=
  wd "GET / HTTP/1.1" ++ crlf ++
  header_line k_connection (wd "upgrade") ++
  (if starttls then header_line k_security (wd "StartTLS") else []) ++
  header_line k_upgrade (upgrade_token v) ++
  header_line (wd "User-Agent") (wd "socketace/" ++ app_version) ++
  crlf.

(* what the server writes on success: Response.String() (only the status codes are observed by the harness; these
   two definitions are used for the interoperability examples) *)
Definition ok_response (starttls : bool) (v : bytes) : bytes :=
  wd "HTTP/1.1 200 OK" ++ crlf ++
  (if starttls then header_line k_capabilities (wd "StartTLS") else []) ++
  header_line k_protocol_version v ++
  header_line (wd "Server") (wd "socketace/" ++ app_version) ++
  crlf.
Definition switching_response (v : bytes) : bytes :=
  wd "HTTP/1.1 101 Switching Protocols" ++ crlf ++
  header_line k_connection (wd "upgrade") ++
  header_line k_protocol_version v ++
  header_line (wd "Server") (wd "socketace/" ++ app_version) ++
  header_line k_upgrade (upgrade_token v) ++
  crlf.

(* ------------------------------------------------------------------ *)
(* the machines, over any reader *)

Section Machines.
Context {St : Type} (R : reader St).
Variable tls_ok : bool.

(* server.go upgrade, after a successful handshake that negotiated nv *)
Definition server_upgrade (c : cfg) (F : nat) (nv : bytes) (s1 : St) : res sobs :=
  let support_tls := negb (c_secure c) && c_cert c in
  match read_request R F s1 with
  | (Panic p, _) => Panic p
  | (Err _, s2) => Ok (mksobs [200] (Refused (r_eof R s2)))             (* closed without a response *)
  | (Ok (m, _, _, h), s2) =>
    if negb (bytes_eqb m (wd "GET")) then Ok (mksobs [200; 405] (Refused (r_eof R s2)))
    else if negb (bytes_eqb (to_lower (hget k_connection h)) (wd "upgrade"))
      then Ok (mksobs [200; 406] (Refused (r_eof R s2)))
    else if negb (bytes_eqb (hget k_upgrade h) (upgrade_token nv))
      then Ok (mksobs [200; 406] (Refused (r_eof R s2)))
    else if bytes_eqb (to_upper (hget k_security h)) (wd "STARTTLS") then
      if support_tls then
        (* 101 is written, then the TLS handshake runs on the same buffered connection *)
        if tls_ok then Ok (mksobs [200; 101] (Established nv true TechTls (r_rest R s2)))
        else Ok (mksobs [200; 101] (Refused (r_eof R s2 || tls_waits (r_rest R s2))))
      else Ok (mksobs [200; 503] (Refused (r_eof R s2)))
    else if support_tls && c_reqcc c then
      (* no StartTLS asked for: the client cannot present the certificate this server requires *)
      Ok (mksobs [200; 403] (Refused (r_eof R s2)))
    else
      Ok (mksobs [200; 101] (Established nv (c_secure c) (carrier_tech (c_secure c)) (r_rest R s2)))
  end.

(* NewServerConnection: handshake, then upgrade *)
Definition server (c : cfg) (F : nat) (s : St) : res sobs :=
  match read_request R F s with
  | (Panic p, _) => Panic p
  | (Err _, s1) => Ok (mksobs [400] (Refused (r_eof R s1)))
  | (Ok (m, _, _, h), s1) =>
    if negb (bytes_eqb m request_method) then Ok (mksobs [405] (Refused (r_eof R s1)))
    else
      let nv := negotiate_version (hget k_accepts h) in
      match nv with
      | [] => Ok (mksobs [409] (Refused (r_eof R s1)))
      | _ => server_upgrade c F nv s1        (* 200 is written *)
      end
  end.

(* client.go upgrade, after a successful handshake; more = the segments that arrive after the second request *)
Definition client_upgrade (secure : bool) (F : nat) (nv : bytes) (starttls : bool) (more : list bytes) (s1 : St)
  : res cobs :=
  let w := announce_request ++ upgrade_request nv starttls in
  match read_response R F (r_feed R more s1) with
  | (Panic p, _) => Panic p
  | (Err _, s2) => Ok (mkcobs w (Refused (r_eof R s2)))
  | (Ok (code, _), s2) =>
    if negb (code =? 101)%Z then Ok (mkcobs w (Refused (r_eof R s2)))
    else if starttls then
      if tls_ok then Ok (mkcobs w (Established nv true TechTls (r_rest R s2)))
      else Ok (mkcobs w (Refused (r_eof R s2 || tls_waits (r_rest R s2))))
    else Ok (mkcobs w (Established nv secure (carrier_tech secure) (r_rest R s2)))
  end.

(* NewClientConnection; s holds what arrives before the second request is written *)
Definition client (secure : bool) (F : nat) (more : list bytes) (s : St) : res cobs :=
  match read_response R F s with
  | (Panic p, _) => Panic p
  | (Err _, s1) => Ok (mkcobs announce_request (Refused (r_eof R s1)))
  | (Ok (code, h), s1) =>
    if negb (code =? 200)%Z then Ok (mkcobs announce_request (Refused (r_eof R s1)))
    else
      let nv := hget k_protocol_version h in
      let caps := split_field (to_upper (hget k_capabilities h)) in
      let starttls := negb secure && existsb (fun c => bytes_eqb (to_upper c) (wd "STARTTLS")) caps in
      client_upgrade secure F nv starttls more s1
  end.

End Machines.

(* ------------------------------------------------------------------ *)
(* runs *)

Definition total_len (segs : list bytes) : nat := List.length (List.concat segs).
(* every loop iteration consumes at least one byte or ends the loop *)
Definition fuel_for (n : nat) : nat := S (S n).

(* the server on a segmented input followed by end of input (segment-level reader) *)
Definition server_run_with (tls_ok : bool) (c : cfg) (segs : list bytes) : res sobs :=
  server rd_reader tls_ok c (fuel_for (total_len segs)) (rd_init segs).
(* the same as a function of the byte string (stream-level reader) *)
Definition server_stream_with (tls_ok : bool) (c : cfg) (b : bytes) : res sobs :=
  server sr_reader tls_ok c (fuel_for (List.length b)) (sr_init b).

(* the client; segs1 arrive before it writes its second request, segs2 after *)
Definition client_run_with (tls_ok : bool) (secure : bool) (segs1 segs2 : list bytes) : res cobs :=
  client rd_reader tls_ok secure (fuel_for (total_len (segs1 ++ segs2))) segs2 (rd_init segs1).
Definition client_stream_with (tls_ok : bool) (secure : bool) (b1 b2 : bytes) : res cobs :=
  client sr_reader tls_ok secure (fuel_for (List.length (b1 ++ b2))) [b2] (sr_init b1).

(* in the harness runs the peer never speaks TLS.
   Observation classes whose "eof-" / "-" marker is NOT modelled (everything else is): a refusal after "101", i.e.
   server: statuses [200; 101] with result err; client: starttls 1, requests 2, result err -- there the marker
   depends on how crypto/tls parses the bytes that follow (tls_waits is exact only when they do not look like a TLS
   record header).  The generator /verif/props/c06.py produces no such case. *)
Definition server_run := server_run_with false.
Definition client_run := client_run_with false.

(* ------------------------------------------------------------------ *)
(* harness protocol *)

Definition tech_word (t : tech) : tok :=
  match t with TechNone => W "none" | TechUnderlying => W "underlying" | TechTls => W "tls" end.

Definition outcome_toks (o : outcome) : list tok :=
  match o with
  | Established _ secure t rest => [W "result"; W "ok"; Tbool secure; W "tech"; tech_word t; W "rest"; TB rest]
  | Refused false => [W "result"; W "err"; W "-"]
  | Refused true => [W "result"; W "err"; W "eof-"]
  end.

Definition server_toks (r : res sobs) : list tok :=
  match r with
  | Ok o => W "status" :: map TN (statuses o) ++ outcome_toks (sout o)
  | Err e => [W "model-error"; TW e]
  | Panic p => [W "panic"; TW p]
  end.

(* strings.Count (non-overlapping occurrences) and strings.Contains, as the harness applies them to what the client wrote *)
Fixpoint is_prefix (p s : bytes) : bool :=
  match p, s with
  | [], _ => true
  | x :: p', y :: s' => (x =? y) && is_prefix p' s'
  | _, [] => false
  end.
Fixpoint count_sub (fuel : nat) (p s : bytes) : nat :=
  match fuel with
  | O => O
  | S f =>
    match s with
    | [] => O
    | _ :: t => if is_prefix p s then S (count_sub f p (skipn (List.length p) s)) else count_sub f p t
    end
  end.
Fixpoint contains_sub (p s : bytes) : bool :=
  match s with
  | [] => is_prefix p s
  | _ :: t => is_prefix p s || contains_sub p t
  end.

Definition client_toks (r : res cobs) : list tok :=
  match r with
  | Ok o =>
    [W "requests"; Tnat (count_sub (List.length (written o)) (crlf ++ crlf) (written o));
     W "starttls"; Tbool (contains_sub (wd "Security: StartTLS") (written o))] ++ outcome_toks (cout o)
  | Err e => [W "model-error"; TW e]
  | Panic p => [W "panic"; TW p]
  end.

Definition tok_eqb (a b : tok) : bool :=
  match a, b with
  | TI x, TI y => (x =? y)%Z
  | TB x, TB y => bytes_eqb x y
  | TW x, TW y => bytes_eqb x y
  | _, _ => false
  end.
Fixpoint toks_eqb (a b : list tok) : bool :=
  match a, b with
  | [], [] => true
  | x :: a', y :: b' => tok_eqb x y && toks_eqb a' b'
  | _, _ => false
  end.

(* the three segmentations of c06x *)
Definition bytewise (b : bytes) : list bytes := map (fun c => [c]) b.

Definition lcg (x : N) : N := (x * 2862933555777941757 + 3037000493) mod 18446744073709551616.
Fixpoint random_cut (fuel : nat) (x : N) (third : N) (b : bytes) : list bytes :=
  match fuel with
  | O => []
  | S f =>
    match b with
    | [] => []
    | _ =>
      let x' := lcg x in
      let n := N.to_nat (1 + (N.shiftr x' 33) mod third) in
      firstn n b :: random_cut f x' third (skipn n b)
    end
  end.
Definition alt_cut (seed : N) (b : bytes) : list bytes :=
  if (List.length b <=? 160)%nat then bytewise b
  else random_cut (List.length b) (lcg seed) (1 + N.of_nat (List.length b) / 3) b.

Fixpoint lf_cut (b : bytes) (cur : bytes) : list bytes :=
  match b with
  | [] => match cur with [] => [] | _ => [rev' cur] end
  | c :: t => if c =? LF then rev' (c :: cur) :: lf_cut t [] else lf_cut t (c :: cur)
  end.

Fixpoint take_bytes (n : nat) (ts : list tok) : option (list bytes) :=
  match n, ts with
  | O, [] => Some []
  | S k, TB b :: t => match take_bytes k t with Some l => Some (b :: l) | None => None end
  | _, _ => None
  end.

Definition dispatch_c06 (ts : list tok) : list tok :=
  match ts with
  | op :: TI sec :: TI cert :: TI n :: rest =>
    if is_word "c06s" op then
      match take_bytes (Z.to_nat n) rest with
      | Some segs => server_toks (server_run (mkcfg (sec =? 1)%Z (1 <=? cert)%Z (cert =? 2)%Z) segs)
      | None => [W "model-error"]
      end
    else [W "model-error"]
  | [op; TI sec; TI cert; TB b; TI seed] =>
    if is_word "c06x" op then
      let c := mkcfg (sec =? 1)%Z (1 <=? cert)%Z (cert =? 2)%Z in
      let one := server_toks (server_run c [b]) in
      let same :=
        match b with
        | [] => true
        | _ => toks_eqb one (server_toks (server_run c (alt_cut (Z.to_N seed) b))) &&
               toks_eqb one (server_toks (server_run c (lf_cut b [])))
        end in
      W "same" :: Tbool same :: one
    else [W "model-error"]
  | op :: TI sec :: TI n :: rest =>
    if is_word "c06c" op then
      match take_bytes (Z.to_nat n) rest with
      | Some [] => client_toks (client_run (sec =? 1)%Z [] [])
      | Some (c1 :: more) => client_toks (client_run (sec =? 1)%Z [c1] more)
      | None => [W "model-error"]
      end
    else [W "model-error"]
  | _ => [W "model-error"]
  end.
