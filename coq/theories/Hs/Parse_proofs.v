(* C06 - proofs about the parsing layer (Parse.v):
     1. the Go slice expressions of parseRequestLine / parseResponseLine never panic;
     2. the segment-level reader `rd` and the stream-level reader `sr` are observationally equal
        (every operation's result depends only on the concatenation of what is buffered and what is in transit);
     3. with fuel larger than the length of the input no loop runs out of fuel, and nothing panics. *)
From Coq Require Import String Ascii.
From Coq Require Import List ZArith NArith Bool Lia.
From SA Require Import Base.Tok.
From SA.Hs Require Import Parse.
Import ListNotations.
Open Scope N_scope.

(* ------------------------------------------------------------------ *)
(* small facts *)

Lemma bufsize_ge2 : (2 <= bufsize)%nat.
Proof. apply Nat.leb_le. vm_compute. reflexivity. Qed.
Global Opaque bufsize.

Lemma zlen_nonneg s : (0 <= zlen s)%Z.
Proof. unfold zlen. lia. Qed.

Lemma zlen_cons x t : zlen (x :: t) = (1 + zlen t)%Z.
Proof. unfold zlen. cbn [List.length]. lia. Qed.

Lemma index_from_range s c : forall k, (0 <= k)%Z ->
  index_from s c k = (-1)%Z \/ (k <= index_from s c k < k + zlen s)%Z.
Proof.
  induction s as [|x t IH]; intros k Hk; simpl.
  - left; reflexivity.
  - rewrite zlen_cons. pose proof (zlen_nonneg t). destruct (x =? c).
    + right. lia.
    + destruct (IH (k + 1)%Z ltac:(lia)) as [H0|H0].
      * left; exact H0.
      * right. lia.
Qed.

Lemma index_byte_range s c :
  index_byte s c = (-1)%Z \/ (0 <= index_byte s c < zlen s)%Z.
Proof. unfold index_byte. destruct (index_from_range s c 0%Z ltac:(lia)); [left|right]; lia. Qed.

Lemma slice_ok site s i j : (0 <= i)%Z -> (i <= j)%Z -> (j <= zlen s)%Z ->
  exists t, slice site s i j = Ok t /\ zlen t = (j - i)%Z.
Proof.
  intros H1 H2 H3. unfold slice.
  replace ((0 <=? i)%Z && (i <=? j)%Z && (j <=? zlen s)%Z) with true
    by (symmetry; rewrite !andb_true_iff; repeat split; apply Z.leb_le; assumption).
  eexists; split; [reflexivity|].
  unfold zlen in *. rewrite firstn_length, skipn_length. lia.
Qed.

Lemma res_not_panic_bind {A B} (r : res A) (k : A -> res B) :
  (forall p, r <> Panic p) -> (forall a, r = Ok a -> forall p, k a <> Panic p) ->
  forall p, bind r k <> Panic p.
Proof.
  intros Hr Hk p. destruct r; simpl.
  - apply Hk; reflexivity.
  - discriminate.
  - exfalso. eapply Hr; reflexivity.
Qed.

(* ------------------------------------------------------------------ *)
(* 1. request / response line: no panic *)

Theorem parse_request_line_total : forall line p, parse_request_line line <> Panic p.
Proof.
  intros line p. unfold parse_request_line.
  destruct (index_byte_range line SP) as [H1|H1].
  - rewrite H1. unfold slice_from.
    destruct (slice_ok "parseRequestLine" line (-1 + 1) (zlen line)) as (t & Ht & _);
      [lia | pose proof (zlen_nonneg line); lia | lia |].
    rewrite Ht. simpl. discriminate.
  - set (s1 := index_byte line SP) in *. unfold slice_from.
    destruct (slice_ok "parseRequestLine" line (s1 + 1) (zlen line)) as (t & Ht & Hlt); [lia|lia|lia|].
    rewrite Ht. simpl.
    destruct (index_byte_range t SP) as [H2|H2].
    + rewrite H2. replace ((s1 <? 0)%Z || (-1 <? 0)%Z) with true by (rewrite orb_true_r; reflexivity). discriminate.
    + set (s2 := index_byte t SP) in *.
      destruct ((s1 <? 0)%Z || (s2 <? 0)%Z); [discriminate|].
      unfold slice_to.
      destruct (slice_ok "parseRequestLine" line 0 s1) as (m & Hm & _); [lia|lia|lia|].
      destruct (slice_ok "parseRequestLine" line (s1 + 1) (s2 + (s1 + 1))) as (u & Hu & _); [lia|lia|lia|].
      destruct (slice_ok "parseRequestLine" line (s2 + (s1 + 1) + 1) (zlen line)) as (q & Hq & _); [lia|lia|lia|].
      rewrite Hm, Hu, Hq. simpl. discriminate.
Qed.

Lemma parse_int32_total : forall s p, parse_int32 s <> Panic p.
Proof.
  intros s p. unfold parse_int32.
  destruct s as [|c t]; [discriminate|].
  destruct (if (c =? 43) || (c =? 45) then t else c :: t) as [|d0 d]; [discriminate|].
  destruct (all_digits (d0 :: d)); [|discriminate].
  destruct (c =? 45).
  - destruct (digits_val (d0 :: d) 0 <=? 2147483648); discriminate.
  - destruct (digits_val (d0 :: d) 0 <=? 2147483647); discriminate.
Qed.

Theorem parse_response_line_total : forall line p, parse_response_line line <> Panic p.
Proof.
  intros line p. unfold parse_response_line.
  destruct (index_byte_range line SP) as [H1|H1].
  - rewrite H1. unfold slice_from.
    destruct (slice_ok "parseResponseLine" line (-1 + 1) (zlen line)) as (t & Ht & _);
      [lia | pose proof (zlen_nonneg line); lia | lia |].
    rewrite Ht. simpl. discriminate.
  - set (s1 := index_byte line SP) in *. unfold slice_from.
    destruct (slice_ok "parseResponseLine" line (s1 + 1) (zlen line)) as (t & Ht & Hlt); [lia|lia|lia|].
    rewrite Ht. simpl.
    destruct (index_byte_range t SP) as [H2|H2].
    + rewrite H2. replace ((s1 <? 0)%Z || (-1 <? 0)%Z) with true by (rewrite orb_true_r; reflexivity). discriminate.
    + set (s2 := index_byte t SP) in *.
      destruct ((s1 <? 0)%Z || (s2 <? 0)%Z); [discriminate|].
      unfold slice_to.
      destruct (slice_ok "parseResponseLine" line 0 s1) as (m & Hm & _); [lia|lia|lia|].
      destruct (slice_ok "parseResponseLine" line (s1 + 1) (s2 + (s1 + 1))) as (u & Hu & _); [lia|lia|lia|].
      destruct (slice_ok "parseResponseLine" line (s2 + (s1 + 1) + 1) (zlen line)) as (q & Hq & _); [lia|lia|lia|].
      rewrite Hu. simpl.
      pose proof (parse_int32_total u) as Hi.
      destruct (parse_int32 u) as [sc| |]; simpl; [|discriminate|exfalso; eapply Hi; reflexivity].
      rewrite Hm, Hq. simpl. discriminate.
Qed.

(* ------------------------------------------------------------------ *)
(* 2. the two readers *)

Lemma cut_byte_some c s l r : cut_byte c s = Some (l, r) -> s = l ++ c :: r /\ has_byte c l = false.
Proof.
  revert l r. induction s as [|x t IH]; intros l r H; simpl in H; [discriminate|].
  destruct (x =? c) eqn:E.
  - inversion H; subst. apply N.eqb_eq in E. subst. split; reflexivity.
  - destruct (cut_byte c t) as [[a b]|] eqn:E2; [|discriminate].
    inversion H; subst. destruct (IH a r eq_refl) as [H1 H2]. subst t. split; [reflexivity|].
    simpl. rewrite N.eqb_sym, E. exact H2.
Qed.

Lemma cut_byte_none c s : cut_byte c s = None <-> has_byte c s = false.
Proof.
  induction s as [|x t IH]; simpl; [tauto|].
  rewrite (N.eqb_sym c x). destruct (x =? c); simpl.
  - split; discriminate.
  - destruct (cut_byte c t) as [[a b]|]; split; intro H; try discriminate; try reflexivity.
    + apply IH in H. discriminate.
    + apply IH. reflexivity.
Qed.

Lemma cut_byte_app_some c s t l r : cut_byte c s = Some (l, r) -> cut_byte c (s ++ t) = Some (l, r ++ t).
Proof.
  revert l r. induction s as [|x u IH]; intros l r H; simpl in *; [discriminate|].
  destruct (x =? c); [inversion H; reflexivity|].
  destruct (cut_byte c u) as [[a b]|]; [|discriminate]. inversion H; subst.
  rewrite (IH a r eq_refl). reflexivity.
Qed.

Lemma cut_byte_app_none c s t : cut_byte c s = None ->
  cut_byte c (s ++ t) = match cut_byte c t with Some (l, r) => Some (s ++ l, r) | None => None end.
Proof.
  induction s as [|x u IH]; intros H; simpl in *.
  - destruct (cut_byte c t) as [[a b]|]; reflexivity.
  - destruct (x =? c); [discriminate|].
    destruct (cut_byte c u) as [[a b]|]; [discriminate|]. rewrite (IH eq_refl).
    destruct (cut_byte c t) as [[a b]|]; reflexivity.
Qed.

Lemma cut_byte_exact c l r : has_byte c l = false -> cut_byte c (l ++ c :: r) = Some (l, r).
Proof.
  intros H. apply cut_byte_none in H. rewrite (cut_byte_app_none c l (c :: r) H).
  simpl. rewrite N.eqb_refl. rewrite app_nil_r. reflexivity.
Qed.

Lemma has_byte_app c a b : has_byte c (a ++ b) = has_byte c a || has_byte c b.
Proof. unfold has_byte. apply existsb_app. Qed.

Lemma concat_drop_empty l : List.concat (drop_empty l) = List.concat l.
Proof. induction l as [|s t IH]; [reflexivity|]. destruct s; simpl; [exact IH|reflexivity]. Qed.

Lemma drop_empty_nonempty l s t : drop_empty l = s :: t -> s <> [].
Proof.
  induction l as [|x u IH]; simpl; [discriminate|]. destruct x; [exact IH|].
  intros H; inversion H; subst. discriminate.
Qed.

Lemma last_byte_split l c : last_byte l = Some c -> l = removelast l ++ [c].
Proof.
  induction l as [|x t IH]; [discriminate|]. destruct t as [|y u].
  - simpl. intros H; inversion H; reflexivity.
  - intros H. change (last_byte (y :: u) = Some c) in H. specialize (IH H).
    change (removelast (x :: y :: u)) with (x :: removelast (y :: u)).
    change ((x :: removelast (y :: u)) ++ [c]) with (x :: (removelast (y :: u) ++ [c])). f_equal. exact IH.
Qed.

Lemma last_byte_none l : last_byte l = None -> l = [].
Proof.
  induction l as [|x t IH]; [reflexivity|]. destruct t as [|y u]; [discriminate|].
  intros H. change (last_byte (y :: u) = None) in H. specialize (IH H). discriminate.
Qed.

Lemma firstn_app_le {A} (n : nat) (a b : list A) : (length a <= n)%nat -> firstn n (a ++ b) = a ++ firstn (n - length a) b.
Proof. intros H. rewrite firstn_app. rewrite (firstn_all2 a) by exact H. reflexivity. Qed.

Lemma skipn_app_exact {A} (a b : list A) : skipn (length a) (a ++ b) = b.
Proof. rewrite skipn_app. rewrite skipn_all. rewrite Nat.sub_diag. reflexivity. Qed.

(* the abstraction of a segment-level state: the bytes still to come, and the EOF flag *)
Definition stream (a : rd) : bytes := rbuf a ++ List.concat (rsegs a).
Definition abs (a : rd) : sr := mksr (stream a) (reof a).
Definition inv (a : rd) : Prop := (List.length (rbuf a) <= bufsize)%nat.

Lemma rd_fill_spec a : (List.length (rbuf a) < bufsize)%nat ->
  (List.concat (rsegs a) = [] /\ rd_fill a = Ok (true, mkrd (rbuf a) [] true)) \/
  (exists a', rd_fill a = Ok (false, a') /\ stream a' = stream a /\ reof a' = reof a /\ inv a' /\
              (List.length (rbuf a) < List.length (rbuf a'))%nat /\
              (List.length (List.concat (rsegs a')) < List.length (List.concat (rsegs a)))%nat).
Proof.
  intros Hlt. unfold rd_fill.
  replace (bufsize <=? List.length (rbuf a))%nat with false by (symmetry; apply Nat.leb_gt; exact Hlt).
  destruct (drop_empty (rsegs a)) as [|s t] eqn:E.
  - left. split; [|reflexivity]. rewrite <- concat_drop_empty, E. reflexivity.
  - right. eexists; split; [reflexivity|].
    pose proof (drop_empty_nonempty _ _ _ E) as Hs.
    pose proof (concat_drop_empty (rsegs a)) as Hc. rewrite E in Hc. simpl in Hc.
    set (k := (bufsize - List.length (rbuf a))%nat).
    assert (Hk : (1 <= k)%nat) by (unfold k; lia).
    assert (Hf : (1 <= List.length (firstn k s))%nat).
    { rewrite firstn_length. destruct s; [congruence|]. simpl List.length. lia. }
    unfold stream, inv. simpl.
    repeat split.
    + rewrite <- Hc. rewrite <- app_assoc. f_equal.
      destruct (List.length s <=? k)%nat eqn:E2.
      * apply Nat.leb_le in E2. rewrite firstn_all2 by exact E2. reflexivity.
      * simpl. rewrite app_assoc. rewrite firstn_skipn. reflexivity.
    + rewrite app_length, firstn_length. unfold k. lia.
    + rewrite app_length. lia.
    + rewrite <- Hc. rewrite app_length.
      destruct (List.length s <=? k)%nat eqn:E2.
      * apply Nat.leb_le in E2. rewrite firstn_all2 in Hf by exact E2. lia.
      * simpl. rewrite app_length, skipn_length. rewrite firstn_length in Hf. apply Nat.leb_gt in E2. lia.
Qed.

(* bufio.ReadLine gives the same fragment whatever the segmentation *)
Lemma rd_line_sim : forall fuel F0 a, inv a -> (List.length (List.concat (rsegs a)) < fuel)%nat ->
  sr_line F0 (abs a) = (fst (rd_line fuel a), abs (snd (rd_line fuel a))) /\ inv (snd (rd_line fuel a)).
Proof.
  induction fuel as [|f IH]; intros F0 a Hinv Hfuel; [lia|].
  pose proof bufsize_ge2 as Hb.
  cbn [rd_line]. unfold sr_line. cbn [abs sbytes seof].
  destruct (cut_byte LF (rbuf a)) as [[l rest]|] eqn:Ecut.
  - (* the line end is buffered *)
    destruct (cut_byte_some _ _ _ _ Ecut) as [Hbuf Hno].
    assert (Hw : cut_byte LF (firstn bufsize (stream a)) =
                 Some (l, rest ++ firstn (bufsize - List.length (rbuf a)) (List.concat (rsegs a)))).
    { unfold stream. rewrite firstn_app_le by exact Hinv. apply cut_byte_app_some. exact Ecut. }
    rewrite Hw. cbn [fst snd]. split.
    + f_equal. unfold abs, stream. cbn [rbuf rsegs reof]. f_equal.
      rewrite Hbuf. rewrite <- app_assoc. cbn [app].
      change (S (List.length l)) with (1 + List.length l)%nat.
      replace (l ++ LF :: rest ++ List.concat (rsegs a)) with ((l ++ [LF]) ++ rest ++ List.concat (rsegs a))
        by (rewrite <- app_assoc; reflexivity).
      replace (1 + List.length l)%nat with (List.length (l ++ [LF])) by (rewrite app_length; simpl; lia).
      apply skipn_app_exact.
    + unfold inv in *. cbn [rbuf]. rewrite Hbuf in Hinv. rewrite app_length in Hinv. simpl in Hinv. lia.
  - destruct (bufsize <=? List.length (rbuf a))%nat eqn:Efull.
    + (* buffer full: a fragment *)
      apply Nat.leb_le in Efull. unfold inv in Hinv.
      assert (Hlen : List.length (rbuf a) = bufsize) by lia.
      assert (Hw : firstn bufsize (stream a) = rbuf a).
      { unfold stream. rewrite firstn_app_le by lia. rewrite Hlen, Nat.sub_diag. simpl. apply app_nil_r. }
      rewrite Hw, Ecut.
      replace (bufsize <=? List.length (stream a))%nat with true
        by (symmetry; apply Nat.leb_le; unfold stream; rewrite app_length; lia).
      unfold ends_with_cr.
      destruct (last_byte (rbuf a)) as [c|] eqn:Elast.
      * pose proof (last_byte_split _ _ Elast) as Hsplit.
        assert (Hrl : List.length (removelast (rbuf a)) = (bufsize - 1)%nat).
        { rewrite Hsplit in Hlen. rewrite app_length in Hlen. simpl in Hlen. lia. }
        assert (Hskip : skipn (bufsize - 1) (stream a) = c :: List.concat (rsegs a)).
        { unfold stream. rewrite Hsplit. rewrite <- app_assoc. rewrite <- Hrl. rewrite skipn_app_exact. reflexivity. }
        destruct (c =? 13) eqn:Hc.
        -- apply N.eqb_eq in Hc. subst c. cbn [fst snd]. split; [|unfold inv; simpl; lia].
           rewrite Hskip. reflexivity.
        -- cbn [fst snd]. split; [|unfold inv; simpl; lia].
           unfold abs. cbn [rbuf rsegs reof]. f_equal. f_equal.
           unfold stream. cbn [rbuf rsegs app]. rewrite <- Hlen. apply skipn_app_exact.
      * apply last_byte_none in Elast. rewrite Elast in Hlen. simpl in Hlen. lia.
    + (* one more Read of the connection *)
      apply Nat.leb_gt in Efull.
      destruct (rd_fill_spec a Efull) as [[Hnil Hfill]|(a' & Hfill & Hst & Heof & Hinv' & Hgrow & Hshrink)].
      * rewrite Hfill. cbn [rbuf rsegs reof].
        assert (Hs : stream a = rbuf a) by (unfold stream; rewrite Hnil; apply app_nil_r).
        rewrite Hs. rewrite firstn_all2 by lia. rewrite Ecut.
        replace (bufsize <=? List.length (rbuf a))%nat with false by (symmetry; apply Nat.leb_gt; exact Efull).
        destruct (rbuf a) as [|c t] eqn:Eb; cbn [fst snd]; (split; [|unfold inv; simpl; lia]).
        -- reflexivity.
        -- reflexivity.
      * rewrite Hfill.
        destruct (IH F0 a' Hinv' ltac:(lia)) as [H1 H2].
        split; [|exact H2]. rewrite <- H1.
        unfold sr_line. unfold abs. cbn [sbytes seof]. rewrite Hst, Heof. reflexivity.
Qed.

Lemma rd_peek_sim a : inv a ->
  sr_peek (abs a) = (fst (rd_peek a), abs (snd (rd_peek a))) /\ inv (snd (rd_peek a)) /\
  (forall c, fst (rd_peek a) = Ok (Some c) -> exists t, rbuf (snd (rd_peek a)) = c :: t).
Proof.
  intros Hinv. pose proof bufsize_ge2 as Hb. unfold rd_peek, sr_peek. cbn [abs sbytes seof].
  destruct (rbuf a) as [|c t] eqn:Eb.
  - assert (Hlt : (List.length (rbuf a) < bufsize)%nat) by (rewrite Eb; simpl; lia).
    destruct (rd_fill_spec a Hlt) as [[Hnil Hfill]|(a' & Hfill & Hst & Heof & Hinv' & Hgrow & Hshrink)].
    + rewrite Hfill. cbn [fst snd rbuf]. rewrite Eb. unfold stream. rewrite Eb, Hnil. simpl.
      repeat split; try (unfold inv; simpl; lia). intros c H; discriminate.
    + rewrite Hfill. cbn [fst snd].
      assert (Habs : abs a' = abs a) by (unfold abs; rewrite Hst, Heof; reflexivity).
      rewrite Habs. rewrite <- Hst.
      destruct (rbuf a') as [|c t] eqn:Eb'; [rewrite Eb in Hgrow; simpl in Hgrow; lia|].
      unfold stream at 1. rewrite Eb'. cbn [app hd_error].
      repeat split; [exact Hinv'|]. intros c0 H; inversion H; subst. eexists; reflexivity.
  - unfold stream at 1. rewrite Eb. cbn [app fst snd].
    repeat split; [exact Hinv|]. intros c0 H; inversion H; subst. eexists; exact Eb.
Qed.

Lemma rd_drop_sim a c t : inv a -> rbuf a = c :: t ->
  r_drop sr_reader (abs a) = abs (r_drop rd_reader a) /\ inv (r_drop rd_reader a).
Proof.
  intros Hinv Hb. unfold inv in *. cbn [r_drop rd_reader sr_reader]. unfold abs, stream. cbn [rbuf rsegs reof sbytes seof].
  rewrite Hb in *. simpl in *. split; [reflexivity|lia].
Qed.

Lemma rd_feed_sim more a : r_feed sr_reader more (abs a) = abs (r_feed rd_reader more a) /\
  (inv a -> inv (r_feed rd_reader more a)).
Proof.
  cbn [r_feed rd_reader sr_reader]. unfold abs, stream, inv. cbn [rbuf rsegs reof sbytes seof].
  rewrite concat_app, app_assoc. split; [reflexivity|tauto].
Qed.

(* ------------------------------------------------------------------ *)
(* 3. stream level: progress, fuel, no panic *)

Definition slen (b : sr) : nat := length (sbytes b).

(* the result x of an operation started in b: no panic, and nothing is un-read *)
Definition good {A} (b : sr) (x : res A * sr) : Prop :=
  (forall p, fst x <> Panic p) /\ (slen (snd x) <= slen b)%nat.
(* ... and a successful operation has consumed at least one byte *)
Definition progress {A} (b : sr) (x : res A * sr) : Prop :=
  forall v, fst x = Ok v -> (slen (snd x) < slen b)%nat.

Lemma sr_line_good F0 b : good b (sr_line F0 b) /\ progress b (sr_line F0 b).
Proof.
  pose proof bufsize_ge2 as Hb. unfold good, progress, sr_line, slen.
  destruct (cut_byte LF (firstn bufsize (sbytes b))) as [[l r]|] eqn:Ecut.
  - cbn [fst snd sbytes]. rewrite skipn_length.
    apply cut_byte_some in Ecut. destruct Ecut as [Hw _].
    assert (length (firstn bufsize (sbytes b)) <= length (sbytes b))%nat by (rewrite firstn_length; lia).
    rewrite Hw in H. rewrite app_length in H. simpl in H.
    repeat split; try discriminate; try lia; try (intros; lia).
  - destruct (bufsize <=? length (sbytes b))%nat eqn:Efull.
    + apply Nat.leb_le in Efull.
      destruct (ends_with_cr (firstn bufsize (sbytes b)));
        cbn [fst snd sbytes]; rewrite skipn_length; (repeat split; try discriminate; try lia; intros; lia).
    + apply Nat.leb_gt in Efull.
      destruct (sbytes b) as [|c t]; cbn [fst snd sbytes length]; repeat split; try discriminate; try lia; try (intros; lia).
Qed.

Lemma rls_good : forall fuel F lim acc b, (slen b < fuel)%nat ->
  good b (read_line_slice sr_reader fuel F lim acc b) /\ progress b (read_line_slice sr_reader fuel F lim acc b).
Proof.
  induction fuel as [|f IH]; intros F lim acc b Hf; [lia|].
  cbn [read_line_slice r_line sr_reader].
  destruct (sr_line_good F b) as [[Hnp Hle] Hpr].
  destruct (sr_line F b) as [[[l more]|e|p] b1] eqn:E; cbn [fst snd] in *.
  - specialize (Hpr _ eq_refl); cbn [fst snd] in Hpr.
    destruct (over_lim lim (length acc + length l)).
    + unfold good, progress. cbn [fst snd]. repeat split; try discriminate; try lia.
    + destruct more.
      * destruct (IH F lim (acc ++ l) b1 ltac:(lia)) as [[H1 H2] H3].
        unfold good, progress in *. repeat split; try assumption; try lia.
      * unfold good, progress. cbn [fst snd]. repeat split; try discriminate; try lia; try (intros; lia).
  - unfold good, progress. cbn [fst snd]. repeat split; try discriminate; try lia.
  - exfalso. eapply Hnp; reflexivity.
Qed.

Lemma skip_space_good : forall fuel sk b, (slen b < fuel)%nat ->
  exists sk' b', skip_space sr_reader fuel sk b = (Ok sk', b') /\ (slen b' <= slen b)%nat /\
                 (sk = false -> sk' = true -> (slen b' < slen b)%nat).
Proof.
  induction fuel as [|f IH]; intros sk b Hf; [lia|].
  cbn [skip_space r_peek r_drop sr_reader]. unfold sr_peek.
  destruct (sbytes b) as [|c t] eqn:Eb.
  - exists sk, (mksr [] true). unfold slen. cbn [sbytes]. rewrite Eb. simpl.
    repeat split; try lia; try (intros; congruence).
  - destruct (is_sptab c).
    + destruct (IH true (mksr (tl (sbytes b)) (seof b))) as (sk' & b' & H1 & H2 & _).
      { unfold slen in *. cbn [sbytes]. rewrite Eb in *. simpl in *. lia. }
      exists sk', b'. split; [exact H1|]. unfold slen in *. cbn [sbytes] in H2. rewrite Eb in *. simpl in *.
      split; [lia|]. intros; lia.
    + exists sk, b. repeat split; try lia; try (intros; congruence).
Qed.

Lemma cont_loop_good : forall fuel F buf b, (slen b < fuel)%nat -> (slen b < F)%nat ->
  good b (cont_loop sr_reader fuel F buf b).
Proof.
  induction fuel as [|f IH]; intros F buf b Hf HF; [lia|].
  cbn [cont_loop].
  destruct (skip_space_good F false b HF) as (sk' & b1 & H1 & H2 & H3). rewrite H1.
  destruct sk'.
  - specialize (H3 eq_refl eq_refl).
    destruct (rls_good F F None [] b1 ltac:(lia)) as [[Hnp Hle] _].
    destruct (read_line_slice sr_reader F F None [] b1) as [[line|e|p] b2]; cbn [fst snd] in *.
    + destruct (IH F ((buf ++ [SP]) ++ trim line) b2 ltac:(lia) ltac:(lia)) as [G1 G2].
      unfold good. split; [exact G1|lia].
    + unfold good. cbn [fst snd]. split; [discriminate|lia].
    + exfalso. eapply Hnp; reflexivity.
  - unfold good. cbn [fst snd]. split; [discriminate|lia].
Qed.

Lemma read_continued_good F b : (slen b < F)%nat ->
  good b (read_continued sr_reader F b) /\ progress b (read_continued sr_reader F b).
Proof.
  intros HF. unfold read_continued.
  destruct (rls_good F F None [] b HF) as [[Hnp Hle] Hpr].
  destruct (read_line_slice sr_reader F F None [] b) as [[line|e|p] b1]; cbn [fst snd] in *.
  - specialize (Hpr _ eq_refl); cbn [fst snd] in Hpr.
    destruct line as [|c t].
    + unfold good, progress. cbn [fst snd]. repeat split; try discriminate; try lia; try (intros; lia).
    + destruct (has_byte COLON (c :: t)).
      * destruct (cont_loop_good F F (trim (c :: t)) b1 ltac:(lia) ltac:(lia)) as [G1 G2].
        unfold good, progress. repeat split; try assumption; try lia; try (intros; lia).
      * unfold good, progress. cbn [fst snd]. repeat split; try discriminate; try lia.
  - unfold good, progress. cbn [fst snd]. repeat split; try discriminate; try lia.
  - exfalso. eapply Hnp; reflexivity.
Qed.

Lemma hdr_loop_good : forall fuel F m b, (slen b < fuel)%nat -> (slen b < F)%nat ->
  good b (hdr_loop sr_reader fuel F m b).
Proof.
  induction fuel as [|f IH]; intros F m b Hf HF; [lia|].
  cbn [hdr_loop].
  destruct (read_continued_good F b HF) as [[Hnp Hle] Hpr].
  destruct (read_continued sr_reader F b) as [[kv|e|p] b1]; cbn [fst snd] in *.
  - specialize (Hpr _ eq_refl); cbn [fst snd] in Hpr.
    destruct kv as [|c t]; [unfold good; cbn [fst snd]; split; [discriminate|lia]|].
    destruct (cut_byte COLON (c :: t)) as [[k v]|]; [|unfold good; cbn [fst snd]; split; [discriminate|lia]].
    destruct (canonical_key k) as [key|]; [|unfold good; cbn [fst snd]; split; [discriminate|lia]].
    destruct (forallb valid_value_byte v); [|unfold good; cbn [fst snd]; split; [discriminate|lia]].
    destruct (IH F (m ++ [(key, ltrim is_sptab v)]) b1 ltac:(lia) ltac:(lia)) as [G1 G2].
    unfold good. split; [exact G1|lia].
  - unfold good. cbn [fst snd]. split; [discriminate|lia].
  - exfalso. eapply Hnp; reflexivity.
Qed.

Lemma sr_peek_good b : exists o b', sr_peek b = (Ok o, b') /\ slen b' = slen b.
Proof.
  unfold sr_peek, slen. destruct (sbytes b) as [|c t] eqn:E.
  - eexists _, _. split; [reflexivity|]. reflexivity.
  - eexists _, _. split; [reflexivity|]. rewrite E. reflexivity.
Qed.

Lemma read_mime_header_good F b : (slen b < F)%nat -> good b (read_mime_header sr_reader F b).
Proof.
  intros HF. unfold read_mime_header. cbn [r_peek sr_reader].
  destruct (sr_peek_good b) as (o0 & b0 & E0 & L0). rewrite E0.
  destruct (sr_peek_good b0) as (o1 & b1 & E1 & L1). rewrite E1.
  assert (Hh : good b (hdr_loop sr_reader F F [] b1)).
  { destruct (hdr_loop_good F F [] b1 ltac:(lia) ltac:(lia)) as [G1 G2]. split; [exact G1|lia]. }
  destruct o1 as [c|]; [|exact Hh].
  destruct (is_sptab c); [|exact Hh].
  destruct (rls_good F F (Some 80%nat) [] b1 ltac:(lia)) as [[Hnp Hle] _].
  destruct (read_line_slice sr_reader F F (Some 80%nat) [] b1) as [[line|e|p] b2]; cbn [fst snd] in *.
  - unfold good. cbn [fst snd]. split; [discriminate|lia].
  - unfold good. cbn [fst snd]. split; [discriminate|lia].
  - exfalso. eapply Hnp; reflexivity.
Qed.

Lemma read_header_good F b : (slen b < F)%nat -> good b (read_header sr_reader F b).
Proof.
  intros HF. unfold read_header.
  destruct (rls_good F F None [] b HF) as [[Hnp Hle] _].
  destruct (read_line_slice sr_reader F F None [] b) as [[line|e|p] b1]; cbn [fst snd] in *.
  - destruct (read_mime_header_good F b1 ltac:(lia)) as [G1 G2].
    destruct (read_mime_header sr_reader F b1) as [[h|e|p] b2]; cbn [fst snd] in *;
      [| |exfalso; eapply G1; reflexivity];
      unfold good; cbn [fst snd]; (split; [|lia]); discriminate.
  - unfold good. cbn [fst snd]. split; [discriminate|lia].
  - exfalso. eapply Hnp; reflexivity.
Qed.

Lemma read_request_good F b : (slen b < F)%nat -> good b (read_request sr_reader F b).
Proof.
  intros HF. unfold read_request.
  destruct (read_header_good F b HF) as [Hnp Hle].
  destruct (read_header sr_reader F b) as [[[line h]|e|p] b1]; cbn [fst snd] in *.
  - pose proof (parse_request_line_total line) as Hp.
    destruct (parse_request_line line) as [[[m u] q]|e|p]; [| |exfalso; eapply Hp; reflexivity];
      unfold good; cbn [fst snd]; (split; [|lia]); discriminate.
  - unfold good. cbn [fst snd]. split; [discriminate|lia].
  - exfalso. eapply Hnp; reflexivity.
Qed.

Lemma read_response_good F b : (slen b < F)%nat -> good b (read_response sr_reader F b).
Proof.
  intros HF. unfold read_response.
  destruct (read_header_good F b HF) as [Hnp Hle].
  destruct (read_header sr_reader F b) as [[[line h]|e|p] b1]; cbn [fst snd] in *.
  - pose proof (parse_response_line_total line) as Hp.
    destruct (parse_response_line line) as [[[m u] q]|e|p]; [| |exfalso; eapply Hp; reflexivity];
      unfold good; cbn [fst snd]; (split; [|lia]); discriminate.
  - unfold good. cbn [fst snd]. split; [discriminate|lia].
  - exfalso. eapply Hnp; reflexivity.
Qed.

(* ------------------------------------------------------------------ *)
(* 4. every textproto operation gives the same result on the segment-level reader and on the stream-level reader *)

Definition simr {A} (xa : res A * rd) (xb : res A * sr) : Prop :=
  xb = (fst xa, abs (snd xa)) /\ inv (snd xa).

Lemma slen_abs a : slen (abs a) = length (stream a).
Proof. reflexivity. Qed.

Lemma segs_le_stream a : (length (concat (rsegs a)) <= length (stream a))%nat.
Proof. unfold stream. rewrite app_length. lia. Qed.

Lemma simr_len {A} a (xa : res A * rd) (xb : res A * sr) :
  simr xa xb -> good (abs a) xb -> (length (stream (snd xa)) <= length (stream a))%nat.
Proof. intros [H1 _] [_ H2]. rewrite H1 in H2. cbn [snd] in H2. rewrite !slen_abs in H2. exact H2. Qed.

Lemma simr_same {A} (r : res A) a : inv a -> simr (r, a) (r, abs a).
Proof. intros H. split; [reflexivity|exact H]. Qed.

Lemma rls_sim : forall fuel F lim acc a, inv a -> (length (stream a) < F)%nat ->
  simr (read_line_slice rd_reader fuel F lim acc a) (read_line_slice sr_reader fuel F lim acc (abs a)).
Proof.
  induction fuel as [|f IH]; intros F lim acc a Hinv HF; [apply simr_same; exact Hinv|].
  cbn [read_line_slice r_line rd_reader sr_reader].
  pose proof (segs_le_stream a) as Hseg.
  destruct (rd_line_sim F F a Hinv ltac:(lia)) as [Hs Hinv1].
  destruct (sr_line_good F (abs a)) as [[_ Hle] _].
  rewrite Hs in *. cbn [fst snd] in Hle. rewrite !slen_abs in Hle.
  destruct (rd_line F a) as [[[l more]|e|p] a1]; cbn [fst snd] in *.
  - destruct (over_lim lim (length acc + length l)); [apply simr_same; exact Hinv1|].
    destruct more; [|apply simr_same; exact Hinv1].
    apply IH; [exact Hinv1|lia].
  - apply simr_same; exact Hinv1.
  - apply simr_same; exact Hinv1.
Qed.

Lemma skip_space_sim : forall fuel sk a, inv a ->
  simr (skip_space rd_reader fuel sk a) (skip_space sr_reader fuel sk (abs a)).
Proof.
  induction fuel as [|f IH]; intros sk a Hinv; [apply simr_same; exact Hinv|].
  cbn [skip_space].
  change (r_peek rd_reader a) with (rd_peek a). change (r_peek sr_reader (abs a)) with (sr_peek (abs a)).
  destruct (rd_peek_sim a Hinv) as (Hs & Hinv1 & Hc).
  rewrite Hs.
  destruct (rd_peek a) as [[[c|]|e|p] a1]; cbn [fst snd] in *; try (apply simr_same; exact Hinv1).
  destruct (is_sptab c); [|apply simr_same; exact Hinv1].
  destruct (Hc c eq_refl) as [t Ht].
  destruct (rd_drop_sim a1 c t Hinv1 Ht) as [Hd Hinv2].
  rewrite Hd. apply IH. exact Hinv2.
Qed.

Lemma cont_loop_sim : forall fuel F buf a, inv a -> (length (stream a) < F)%nat ->
  simr (cont_loop rd_reader fuel F buf a) (cont_loop sr_reader fuel F buf (abs a)).
Proof.
  induction fuel as [|f IH]; intros F buf a Hinv HF; [apply simr_same; exact Hinv|].
  cbn [cont_loop].
  destruct (skip_space_sim F false a Hinv) as [Hs Hinv1].
  destruct (skip_space_good F false (abs a) ltac:(rewrite slen_abs; exact HF)) as (sk' & b' & Hg & Hle & _).
  rewrite Hs in Hg |- *. 
  destruct (skip_space rd_reader F false a) as [r a1]; cbn [fst snd] in *.
  inversion Hg; subst r b'. rewrite !slen_abs in Hle.
  destruct sk'; [|apply simr_same; exact Hinv1].
  destruct (rls_sim F F None [] a1 Hinv1 ltac:(lia)) as [Hs2 Hinv2].
  destruct (rls_good F F None [] (abs a1) ltac:(rewrite slen_abs; lia)) as [[_ Hle2] _].
  rewrite Hs2 in Hle2 |- *. cbn [fst snd] in Hle2. rewrite !slen_abs in Hle2.
  destruct (read_line_slice rd_reader F F None [] a1) as [[line|e|p] a2]; cbn [fst snd] in *.
  - apply IH; [exact Hinv2|lia].
  - apply simr_same; exact Hinv2.
  - apply simr_same; exact Hinv2.
Qed.

Lemma read_continued_sim F a : inv a -> (length (stream a) < F)%nat ->
  simr (read_continued rd_reader F a) (read_continued sr_reader F (abs a)).
Proof.
  intros Hinv HF. unfold read_continued.
  destruct (rls_sim F F None [] a Hinv HF) as [Hs Hinv1].
  destruct (rls_good F F None [] (abs a) ltac:(rewrite slen_abs; lia)) as [[_ Hle] _].
  rewrite Hs in Hle |- *. cbn [fst snd] in Hle. rewrite !slen_abs in Hle.
  destruct (read_line_slice rd_reader F F None [] a) as [[line|e|p] a1]; cbn [fst snd] in *;
    try (apply simr_same; exact Hinv1).
  destruct line as [|c t]; [apply simr_same; exact Hinv1|].
  destruct (has_byte COLON (c :: t)); [|apply simr_same; exact Hinv1].
  apply cont_loop_sim; [exact Hinv1|lia].
Qed.

Lemma hdr_loop_sim : forall fuel F m a, inv a -> (length (stream a) < F)%nat ->
  simr (hdr_loop rd_reader fuel F m a) (hdr_loop sr_reader fuel F m (abs a)).
Proof.
  induction fuel as [|f IH]; intros F m a Hinv HF; [apply simr_same; exact Hinv|].
  cbn [hdr_loop].
  destruct (read_continued_sim F a Hinv HF) as [Hs Hinv1].
  destruct (read_continued_good F (abs a) ltac:(rewrite slen_abs; lia)) as [[_ Hle] _].
  rewrite Hs in Hle |- *. cbn [fst snd] in Hle. rewrite !slen_abs in Hle.
  destruct (read_continued rd_reader F a) as [[kv|e|p] a1]; cbn [fst snd] in *;
    try (apply simr_same; exact Hinv1).
  destruct kv as [|c t]; [apply simr_same; exact Hinv1|].
  destruct (cut_byte COLON (c :: t)) as [[k v]|]; [|apply simr_same; exact Hinv1].
  destruct (canonical_key k) as [key|]; [|apply simr_same; exact Hinv1].
  destruct (forallb valid_value_byte v); [|apply simr_same; exact Hinv1].
  apply IH; [exact Hinv1|lia].
Qed.

Lemma peek_sim2 a : inv a ->
  exists o a1, rd_peek a = (Ok o, a1) /\ sr_peek (abs a) = (Ok o, abs a1) /\ inv a1 /\
               length (stream a1) = length (stream a).
Proof.
  intros Hinv. destruct (rd_peek_sim a Hinv) as (Hs & Hinv1 & _).
  destruct (sr_peek_good (abs a)) as (o & b' & Hg & Hl).
  rewrite Hs in Hg. destruct (rd_peek a) as [r a1]; cbn [fst snd] in *.
  inversion Hg; subst. exists o, a1. rewrite Hs. repeat split; assumption.
Qed.

Lemma read_mime_header_sim F a : inv a -> (length (stream a) < F)%nat ->
  simr (read_mime_header rd_reader F a) (read_mime_header sr_reader F (abs a)).
Proof.
  intros Hinv HF. unfold read_mime_header. cbn [r_peek rd_reader sr_reader].
  destruct (peek_sim2 a Hinv) as (o0 & a0 & E0 & E0' & Hinv0 & L0). rewrite E0, E0'.
  destruct (peek_sim2 a0 Hinv0) as (o1 & a1 & E1 & E1' & Hinv1 & L1). rewrite E1, E1'.
  destruct o1 as [c|]; [|apply hdr_loop_sim; [exact Hinv1|lia]].
  destruct (is_sptab c); [|apply hdr_loop_sim; [exact Hinv1|lia]].
  destruct (rls_sim F F (Some 80%nat) [] a1 Hinv1 ltac:(lia)) as [Hs Hinv2].
  rewrite Hs.
  destruct (read_line_slice rd_reader F F (Some 80%nat) [] a1) as [[line|e|p] a2]; cbn [fst snd] in *;
    apply simr_same; exact Hinv2.
Qed.

Lemma read_header_sim F a : inv a -> (length (stream a) < F)%nat ->
  simr (read_header rd_reader F a) (read_header sr_reader F (abs a)).
Proof.
  intros Hinv HF. unfold read_header.
  destruct (rls_sim F F None [] a Hinv HF) as [Hs Hinv1].
  destruct (rls_good F F None [] (abs a) ltac:(rewrite slen_abs; lia)) as [[_ Hle] _].
  rewrite Hs in Hle |- *. cbn [fst snd] in Hle. rewrite !slen_abs in Hle.
  destruct (read_line_slice rd_reader F F None [] a) as [[line|e|p] a1]; cbn [fst snd] in *;
    try (apply simr_same; exact Hinv1).
  destruct (read_mime_header_sim F a1 Hinv1 ltac:(lia)) as [Hs2 Hinv2].
  rewrite Hs2.
  destruct (read_mime_header rd_reader F a1) as [[h|e|p] a2]; cbn [fst snd] in *;
    apply simr_same; exact Hinv2.
Qed.

Lemma read_request_sim F a : inv a -> (length (stream a) < F)%nat ->
  simr (read_request rd_reader F a) (read_request sr_reader F (abs a)).
Proof.
  intros Hinv HF. unfold read_request.
  destruct (read_header_sim F a Hinv HF) as [Hs Hinv1]. rewrite Hs.
  destruct (read_header rd_reader F a) as [[[line h]|e|p] a1]; cbn [fst snd] in *;
    try (apply simr_same; exact Hinv1).
  destruct (parse_request_line line) as [[[m u] q]|e|p]; apply simr_same; exact Hinv1.
Qed.

Lemma read_response_sim F a : inv a -> (length (stream a) < F)%nat ->
  simr (read_response rd_reader F a) (read_response sr_reader F (abs a)).
Proof.
  intros Hinv HF. unfold read_response.
  destruct (read_header_sim F a Hinv HF) as [Hs Hinv1]. rewrite Hs.
  destruct (read_header rd_reader F a) as [[[line h]|e|p] a1]; cbn [fst snd] in *;
    try (apply simr_same; exact Hinv1).
  destruct (parse_response_line line) as [[[m u] q]|e|p]; apply simr_same; exact Hinv1.
Qed.

(* the initial states *)
Lemma abs_init segs : abs (rd_init segs) = sr_init (concat segs).
Proof. reflexivity. Qed.
Lemma inv_init segs : inv (rd_init segs).
Proof. unfold inv, rd_init. simpl. lia. Qed.
