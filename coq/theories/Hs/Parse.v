(* C06 - parsing layer of the session handshake of bokysan/socketace.

   Modelled Go code
     internal/socketace/util.go       readHeader
     internal/socketace/request.go    parseRequestLine
     internal/socketace/response.go   parseResponseLine
     internal/util/mime/fieldsplitter.go  SplitField (regexp `\s*,\s*`)
   and, at specification level (Go 1.23),
     bufio.Reader (fill, ReadSlice/ReadLine, Peek(1), ReadByte/UnreadByte) over a sequence of transport segments,
     net/textproto Reader.ReadLine / readLineSlice / readContinuedLineSlice / skipSpace / ReadMIMEHeader /
       canonicalMIMEHeaderKey / validHeaderFieldByte / validHeaderValueByte / trim, MIMEHeader.Get,
     strconv.ParseInt(s, 10, 32), strings.Index (one-byte separator), strings.ToLower / ToUpper.

   Definitions only; proofs are in Parse_proofs.v.

   Two readers implement the same small interface (`reader`):
     - `rd`  : the segment-level reader: bufio's buffer (at most 4096 unread bytes) in front of a list of pending
               transport segments; every fill is ONE Read of the connection, which returns (part of) ONE segment;
     - `sr`  : the stream-level reader: the remaining byte string as a whole.
   All textproto code is written once, over the interface.  Parse_proofs.v shows that the two readers are
   observationally equal (this is what makes the outcome independent of segmentation).

   Modelling decisions (all differential-tested against the harness)
     * a zero-length transport read is skipped (bufio retries).  BOUNDARY: 100 consecutive zero-length reads make
       bufio give up with io.ErrNoProgress, which ReadLine turns into a premature end of the current line; the model
       does not have this, so its transport must not deliver 100 empty segments in a row.  TCP never does; the
       websocket carrier does for empty binary messages (confirmed on the harness: `c06s` with 100 empty chunks in
       the middle of a valid exchange is answered 400, with 99 it is admitted);
     * the limits maxMemory / maxHeaders of readMIMEHeader are math.MaxInt64 and never reached by a finite input
       shorter than 2^63 bytes: modelled as "no limit"; the limit 80 of the "malformed initial line" path is modelled;
     * the fast path of readContinuedLineSlice (Buffered() > 1 and next byte a letter / LF / CRLF) returns what the
       slow path returns in that situation without touching the connection; only the slow path is modelled;
     * upcomingHeaderKeys only produces an allocation hint, but its Peek(1) forces a buffer load: modelled;
     * errors carry a class word only; which error it was is not observable in the handshake;
     * the reader keeps a flag "a Read of the connection has returned EOF" (the harness' "eof-"). *)
From Coq Require Import List ZArith NArith String Ascii Bool.
From SA Require Import Base.Tok.
Import ListNotations.
Open Scope N_scope.

(* ------------------------------------------------------------------ *)
(* bytes *)

Definition LF : N := 10.
Definition CR : N := 13.
Definition SP : N := 32.
Definition TAB : N := 9.
Definition COLON : N := 58.
Definition COMMA : N := 44.

Definition is_sptab (c : N) : bool := (c =? SP) || (c =? TAB).
(* regexp \s in Go (RE2): [\t\n\f\r ] *)
Definition is_ws (c : N) : bool := (c =? 9) || (c =? 10) || (c =? 12) || (c =? 13) || (c =? 32).
Definition is_lower (c : N) : bool := (97 <=? c) && (c <=? 122).
Definition is_upper (c : N) : bool := (65 <=? c) && (c <=? 90).
Definition is_digit (c : N) : bool := (48 <=? c) && (c <=? 57).

Fixpoint ltrim (p : N -> bool) (s : bytes) : bytes :=
  match s with
  | c :: t => if p c then ltrim p t else s
  | [] => []
  end.
Definition rtrim (p : N -> bool) (s : bytes) : bytes := rev' (ltrim p (rev' s)).
(* textproto.trim: leading and trailing spaces and tabs *)
Definition trim (s : bytes) : bytes := rtrim is_sptab (ltrim is_sptab s).

(* bytes.Cut(s, [c]) : split around the first c *)
Fixpoint cut_byte (c : N) (s : bytes) : option (bytes * bytes) :=
  match s with
  | [] => None
  | x :: t =>
    if x =? c then Some ([], t)
    else match cut_byte c t with
         | Some (a, b) => Some (x :: a, b)
         | None => None
         end
  end.

Definition has_byte (c : N) (s : bytes) : bool := existsb (N.eqb c) s.

Fixpoint last_byte (s : bytes) : option N :=
  match s with
  | [] => None
  | [c] => Some c
  | _ :: t => last_byte t
  end.

Definition ends_with_cr (l : bytes) : bool :=
  match last_byte l with Some c => c =? 13 | None => false end.

(* drop one trailing CR (bufio.ReadLine: "\r\n" counts as the line end) *)
Fixpoint strip_cr (l : bytes) : bytes :=
  match l with
  | [] => []
  | [c] => if c =? CR then [] else [c]
  | c :: t => c :: strip_cr t
  end.

(* ------------------------------------------------------------------ *)
(* Go slice expressions and strings.Index, checked *)

Definition zlen (s : bytes) : Z := Z.of_nat (List.length s).

(* s[i:j] ; Go panics unless 0 <= i <= j <= len(s) *)
Definition slice (site : string) (s : bytes) (i j : Z) : res bytes :=
  if ((0 <=? i) && (i <=? j) && (j <=? zlen s))%Z
  then Ok (firstn (Z.to_nat (j - i)) (skipn (Z.to_nat i) s))
  else Panic (wd site).
Definition slice_from (site : string) (s : bytes) (i : Z) : res bytes := slice site s i (zlen s).
Definition slice_to (site : string) (s : bytes) (j : Z) : res bytes := slice site s 0 j.

Fixpoint index_from (s : bytes) (c : N) (k : Z) : Z :=
  match s with
  | [] => (-1)%Z
  | x :: t => if x =? c then k else index_from t c (k + 1)%Z
  end.
(* strings.Index(s, string(c)) *)
Definition index_byte (s : bytes) (c : N) : Z := index_from s c 0%Z.

(* request.go parseRequestLine *)
Definition parse_request_line (line : bytes) : res (bytes * bytes * bytes) :=
  let s1 := index_byte line SP in
  do t <- slice_from "parseRequestLine" line (s1 + 1) ;;
  let s2 := index_byte t SP in
  if ((s1 <? 0) || (s2 <? 0))%Z then Err (wd "invalid-request-line")
  else
    let s2' := (s2 + (s1 + 1))%Z in
    do m <- slice_to "parseRequestLine" line s1 ;;
    do u <- slice "parseRequestLine" line (s1 + 1) s2' ;;
    do p <- slice_from "parseRequestLine" line (s2' + 1) ;;
    Ok (m, u, p).

(* strconv.ParseInt(s, 10, 32): optional sign, at least one digit, digits only, value in [-2^31, 2^31-1].
   (ParseUint stops at the first overflow with a range error; every failure is an error.) *)
Fixpoint all_digits (s : bytes) : bool :=
  match s with [] => true | c :: t => is_digit c && all_digits t end.
Fixpoint digits_val (s : bytes) (acc : N) : N :=
  match s with [] => acc | c :: t => digits_val t (acc * 10 + (c - 48)) end.
Definition parse_int32 (s : bytes) : res Z :=
  match s with
  | [] => Err (wd "syntax")
  | c :: t =>
    let neg := c =? 45 in
    let d := if (c =? 43) || (c =? 45) then t else s in
    match d with
    | [] => Err (wd "syntax")
    | _ =>
      if all_digits d then
        let v := digits_val d 0 in
        if neg then (if v <=? 2147483648 then Ok (- Z.of_N v)%Z else Err (wd "range"))
        else (if v <=? 2147483647 then Ok (Z.of_N v) else Err (wd "range"))
      else Err (wd "syntax")
    end
  end.

(* response.go parseResponseLine *)
Definition parse_response_line (line : bytes) : res (bytes * Z * bytes) :=
  let s1 := index_byte line SP in
  do t <- slice_from "parseResponseLine" line (s1 + 1) ;;
  let s2 := index_byte t SP in
  if ((s1 <? 0) || (s2 <? 0))%Z then Err (wd "invalid-response-line")
  else
    let s2' := (s2 + (s1 + 1))%Z in
    do status <- slice "parseResponseLine" line (s1 + 1) s2' ;;
    do sc <- parse_int32 status ;;
    do proto <- slice_to "parseResponseLine" line s1 ;;
    do msg <- slice_from "parseResponseLine" line (s2' + 1) ;;
    Ok (proto, sc, msg).

(* ------------------------------------------------------------------ *)
(* strings.ToLower / ToUpper.
   ASCII letters are mapped; the only non-ASCII code points whose simple case mapping is an ASCII letter are
   U+0130 (lower: i), U+212A (lower: k), U+0131 (upper: I), U+017F (upper: S) (checked exhaustively against
   unicode.ToLower/ToUpper of Go 1.23); these are mapped too.  All other bytes >= 0x80 are left unchanged, whereas Go
   maps them to other NON-ASCII bytes: the model therefore agrees with Go on the ASCII bytes of the result and on
   the positions of non-ASCII material, which is all that comparison with an ASCII literal and splitting at ASCII
   separators can observe. *)
Definition lower1 (c : N) : N := if is_upper c then c + 32 else c.
Definition upper1 (c : N) : N := if is_lower c then c - 32 else c.

Fixpoint to_lower (s : bytes) : bytes :=
  match s with
  | [] => []
  | c :: t =>
    match t with
    | [] => [lower1 c]
    | d :: t' =>
      if (c =? 196) && (d =? 176) then 105 :: to_lower t'                      (* U+0130 -> i *)
      else
        match t' with
        | [] => lower1 c :: to_lower t
        | e :: t'' =>
          if (c =? 226) && (d =? 132) && (e =? 170) then 107 :: to_lower t''    (* U+212A -> k *)
          else lower1 c :: to_lower t
        end
    end
  end.

Fixpoint to_upper (s : bytes) : bytes :=
  match s with
  | [] => []
  | c :: t =>
    match t with
    | [] => [upper1 c]
    | d :: t' =>
      if (c =? 196) && (d =? 177) then 73 :: to_upper t'                       (* U+0131 -> I *)
      else if (c =? 197) && (d =? 191) then 83 :: to_upper t'                  (* U+017F -> S *)
      else upper1 c :: to_upper t
    end
  end.

(* ------------------------------------------------------------------ *)
(* mime.SplitField: regexp.MustCompile(`\s*,\s*`).Split(s, -1)
   = the pieces between commas, with the white space that touches a comma removed. *)
Fixpoint split_commas (s : bytes) (cur : bytes) : list bytes :=
  match s with
  | [] => [rev' cur]
  | c :: t => if c =? COMMA then rev' cur :: split_commas t [] else split_commas t (c :: cur)
  end.
Fixpoint fix_pieces (first : bool) (l : list bytes) : list bytes :=
  match l with
  | [] => []
  | [p] => [if first then p else ltrim is_ws p]
  | p :: t => rtrim is_ws (if first then p else ltrim is_ws p) :: fix_pieces false t
  end.
Definition split_field (s : bytes) : list bytes := fix_pieces true (split_commas s []).

(* ------------------------------------------------------------------ *)
(* MIME header keys and values *)

(* validHeaderFieldByte: RFC 7230 tchar *)
Definition valid_field_byte (c : N) : bool :=
  is_digit c || is_lower c || is_upper c ||
  existsb (N.eqb c) [33; 35; 36; 37; 38; 39; 42; 43; 45; 46; 94; 95; 96; 124; 126].
(* validHeaderValueByte: HTAB, SP, VCHAR, obs-text *)
Definition valid_value_byte (c : N) : bool :=
  (c =? 9) || ((32 <=? c) && (c <=? 126)) || (128 <=? c).

Fixpoint canon (upper : bool) (a : bytes) : bytes :=
  match a with
  | [] => []
  | c :: t =>
    let c' := if upper && is_lower c then c - 32 else if negb upper && is_upper c then c + 32 else c in
    c' :: canon (c' =? 45) t
  end.
(* canonicalMIMEHeaderKey: None = not ok *)
Definition canonical_key (a : bytes) : option bytes :=
  match a with
  | [] => None
  | _ =>
    if forallb (fun c => valid_field_byte c || (c =? SP)) a then
      if has_byte SP a then Some a else Some (canon true a)
    else None
  end.

Definition headers := list (bytes * bytes).
(* MIMEHeader.Get for an already canonical key: the first value *)
Fixpoint hget (key : bytes) (h : headers) : bytes :=
  match h with
  | [] => []
  | (k, v) :: t => if bytes_eqb k key then v else hget key t
  end.

(* ------------------------------------------------------------------ *)
(* the reader interface *)

Record reader (St : Type) := mkreader {
  (* bufio.Reader.ReadLine: one fragment and isPrefix; the nat is loop fuel *)
  r_line : nat -> St -> res (bytes * bool) * St;
  (* make sure one byte is buffered (Peek(1), or the fill of ReadByte) and look at it; None = the read error *)
  r_peek : St -> res (option N) * St;
  (* consume the byte just seen (ReadByte without UnreadByte) *)
  r_drop : St -> St;
  (* has a Read of the connection returned EOF *)
  r_eof : St -> bool;
  (* what the following Reads of the connection return: buffered bytes first, then what is still in transit *)
  r_rest : St -> bytes;
  (* more segments arrive *)
  r_feed : list bytes -> St -> St
}.
Arguments r_line {St}. Arguments r_peek {St}. Arguments r_drop {St}.
Arguments r_eof {St}. Arguments r_rest {St}. Arguments r_feed {St}.

(* ------------------------------------------------------------------ *)
(* segment-level reader: bufio.Reader of size 4096 over transport segments *)

Definition bufsize : nat := N.to_nat 4096.

Record rd := mkrd { rbuf : bytes; rsegs : list bytes; reof : bool }.

Fixpoint drop_empty (l : list bytes) : list bytes :=
  match l with
  | [] :: t => drop_empty t
  | _ => l
  end.

(* bufio fill: slide, then one Read into the free space; true = that Read returned EOF *)
Definition rd_fill (r : rd) : res (bool * rd) :=
  if (bufsize <=? List.length (rbuf r))%nat then Panic (wd "bufio.fill")
  else
    match drop_empty (rsegs r) with
    | [] => Ok (true, mkrd (rbuf r) [] true)
    | s :: t =>
      let k := (bufsize - List.length (rbuf r))%nat in
      Ok (false, mkrd (rbuf r ++ firstn k s)
                      (if (List.length s <=? k)%nat then t else skipn k s :: t)
                      (reof r))
    end.

(* bufio ReadSlice('\n') + ReadLine *)
Fixpoint rd_line (fuel : nat) (r : rd) : res (bytes * bool) * rd :=
  match fuel with
  | O => (Panic (wd "fuel"), r)
  | S f =>
    match cut_byte LF (rbuf r) with
    | Some (l, rest) => (Ok (strip_cr l, false), mkrd rest (rsegs r) (reof r))
    | None =>
      if (bufsize <=? List.length (rbuf r))%nat then
        (* ErrBufferFull: the whole buffer is a fragment; a trailing CR is put back *)
        if ends_with_cr (rbuf r)
        then (Ok (removelast (rbuf r), true), mkrd [CR] (rsegs r) (reof r))
        else (Ok (rbuf r, true), mkrd [] (rsegs r) (reof r))
      else
        match rd_fill r with
        | Ok (true, r') =>
          (* pending error: what is buffered is returned; nothing buffered = the error itself *)
          match rbuf r' with
          | [] => (Err (wd "EOF"), r')
          | l => (Ok (l, false), mkrd [] (rsegs r') (reof r'))
          end
        | Ok (false, r') => rd_line f r'
        | Err e => (Err e, r)
        | Panic p => (Panic p, r)
        end
    end
  end.

Definition rd_peek (r : rd) : res (option N) * rd :=
  match rbuf r with
  | c :: _ => (Ok (Some c), r)
  | [] =>
    match rd_fill r with
    | Ok (_, r') => (Ok (hd_error (rbuf r')), r')
    | Err e => (Err e, r)
    | Panic p => (Panic p, r)
    end
  end.

Definition rd_reader : reader rd :=
  mkreader rd rd_line rd_peek
    (fun r => mkrd (tl (rbuf r)) (rsegs r) (reof r))
    reof
    (fun r => rbuf r ++ List.concat (rsegs r))
    (fun segs r => mkrd (rbuf r) (rsegs r ++ segs) (reof r)).

Definition rd_init (segs : list bytes) : rd := mkrd [] segs false.

(* ------------------------------------------------------------------ *)
(* stream-level reader: the same operations as functions of the remaining byte string *)

Record sr := mksr { sbytes : bytes; seof : bool }.

Definition sr_line (_ : nat) (s : sr) : res (bytes * bool) * sr :=
  let w := firstn bufsize (sbytes s) in
  match cut_byte LF w with
  | Some (l, _) => (Ok (strip_cr l, false), mksr (skipn (S (List.length l)) (sbytes s)) (seof s))
  | None =>
    if (bufsize <=? List.length (sbytes s))%nat then
      if ends_with_cr w
      then (Ok (removelast w, true), mksr (skipn (bufsize - 1) (sbytes s)) (seof s))
      else (Ok (w, true), mksr (skipn bufsize (sbytes s)) (seof s))
    else
      match sbytes s with
      | [] => (Err (wd "EOF"), mksr [] true)
      | l => (Ok (l, false), mksr [] true)
      end
  end.

Definition sr_peek (s : sr) : res (option N) * sr :=
  match sbytes s with
  | c :: _ => (Ok (Some c), s)
  | [] => (Ok None, mksr [] true)
  end.

Definition sr_reader : reader sr :=
  mkreader sr sr_line sr_peek
    (fun s => mksr (tl (sbytes s)) (seof s))
    seof
    sbytes
    (fun segs s => mksr (sbytes s ++ List.concat segs) (seof s)).

Definition sr_init (b : bytes) : sr := mksr b false.

(* ------------------------------------------------------------------ *)
(* net/textproto over a reader *)

Section Textproto.
Context {St : Type} (R : reader St).

Definition over_lim (lim : option nat) (n : nat) : bool :=
  match lim with Some l => (l <? n)%nat | None => false end.

(* Reader.readLineSlice(lim): fragments are joined until isPrefix is false.
   F is the fuel handed to the reader, fuel the fuel of this loop. *)
Fixpoint read_line_slice (fuel F : nat) (lim : option nat) (acc : bytes) (s : St) : res bytes * St :=
  match fuel with
  | O => (Panic (wd "fuel"), s)
  | S f =>
    match r_line R F s with
    | (Ok (l, more), s') =>
      if over_lim lim (List.length acc + List.length l)%nat then (Err (wd "message-too-large"), s')
      else if more then read_line_slice f F lim (acc ++ l) s'
      else (Ok (acc ++ l), s')
    | (Err e, s') => (Err e, s')
    | (Panic p, s') => (Panic p, s')
    end
  end.

(* Reader.skipSpace: true = at least one space or tab was skipped *)
Fixpoint skip_space (fuel : nat) (skipped : bool) (s : St) : res bool * St :=
  match fuel with
  | O => (Panic (wd "fuel"), s)
  | S f =>
    match r_peek R s with
    | (Ok (Some c), s') => if is_sptab c then skip_space f true (r_drop R s') else (Ok skipped, s')
    | (Ok None, s') => (Ok skipped, s')
    | (Err e, s') => (Err e, s')
    | (Panic p, s') => (Panic p, s')
    end
  end.

(* the continuation loop of readContinuedLineSlice *)
Fixpoint cont_loop (fuel F : nat) (buf : bytes) (s : St) : res bytes * St :=
  match fuel with
  | O => (Panic (wd "fuel"), s)
  | S f =>
    match skip_space F false s with
    | (Ok true, s1) =>
      match read_line_slice F F None [] s1 with
      | (Ok line, s2) => cont_loop f F ((buf ++ [SP]) ++ trim line) s2
      | (Err _, s2) => (Ok (buf ++ [SP]), s2)          (* break *)
      | (Panic p, s2) => (Panic p, s2)
      end
    | (Ok false, s1) => (Ok buf, s1)
    | (Err e, s1) => (Err e, s1)
    | (Panic p, s1) => (Panic p, s1)
    end
  end.

(* Reader.readContinuedLineSlice(lim, mustHaveFieldNameColon); an empty result is the blank line *)
Definition read_continued (F : nat) (s : St) : res bytes * St :=
  match read_line_slice F F None [] s with
  | (Ok line, s1) =>
    match line with
    | [] => (Ok [], s1)
    | _ =>
      if has_byte COLON line then cont_loop F F (trim line) s1
      else (Err (wd "missing-colon"), s1)
    end
  | (Err e, s1) => (Err e, s1)
  | (Panic p, s1) => (Panic p, s1)
  end.

(* the loop of readMIMEHeader *)
Fixpoint hdr_loop (fuel F : nat) (m : headers) (s : St) : res headers * St :=
  match fuel with
  | O => (Panic (wd "fuel"), s)
  | S f =>
    match read_continued F s with
    | (Ok kv, s1) =>
      match kv with
      | [] => (Ok m, s1)
      | _ =>
        match cut_byte COLON kv with
        | None => (Err (wd "malformed-header-line"), s1)
        | Some (k, v) =>
          match canonical_key k with
          | None => (Err (wd "malformed-header-line"), s1)
          | Some key =>
            if forallb valid_value_byte v
            then hdr_loop f F (m ++ [(key, ltrim is_sptab v)]) s1
            else (Err (wd "malformed-header-line"), s1)
          end
        end
      end
    | (Err e, s1) => (Err e, s1)
    | (Panic p, s1) => (Panic p, s1)
    end
  end.

(* Reader.ReadMIMEHeader *)
Definition read_mime_header (F : nat) (s : St) : res headers * St :=
  (* upcomingHeaderKeys: r.R.Peek(1) forces a buffer load; its outcome is ignored *)
  match r_peek R s with
  | (Panic p, s0) => (Panic p, s0)
  | (_, s0) =>
    (* the first line cannot start with a space or tab *)
    match r_peek R s0 with
    | (Ok (Some c), s1) =>
      if is_sptab c then
        match read_line_slice F F (Some 80%nat) [] s1 with
        | (Ok _, s2) => (Err (wd "malformed-initial-line"), s2)
        | (Err e, s2) => (Err e, s2)
        | (Panic p, s2) => (Panic p, s2)
        end
      else hdr_loop F F [] s1
    | (Ok None, s1) => hdr_loop F F [] s1
    | (Err _, s1) => hdr_loop F F [] s1
    | (Panic p, s1) => (Panic p, s1)
    end
  end.

(* util.go readHeader *)
Definition read_header (F : nat) (s : St) : res (bytes * headers) * St :=
  match read_line_slice F F None [] s with
  | (Ok first, s1) =>
    match read_mime_header F s1 with
    | (Ok h, s2) => (Ok (first, h), s2)
    | (Err e, s2) => (Err e, s2)
    | (Panic p, s2) => (Panic p, s2)
    end
  | (Err e, s1) => (Err e, s1)
  | (Panic p, s1) => (Panic p, s1)
  end.

(* Request.Read: the header block is read before the request line is parsed *)
Definition read_request (F : nat) (s : St) : res (bytes * bytes * bytes * headers) * St :=
  match read_header F s with
  | (Ok (line, h), s1) =>
    match parse_request_line line with
    | Ok (m, u, p) => (Ok (m, u, p, h), s1)
    | Err e => (Err e, s1)
    | Panic p => (Panic p, s1)
    end
  | (Err e, s1) => (Err e, s1)
  | (Panic p, s1) => (Panic p, s1)
  end.

(* Response.Read *)
Definition read_response (F : nat) (s : St) : res (Z * headers) * St :=
  match read_header F s with
  | (Ok (line, h), s1) =>
    match parse_response_line line with
    | Ok (_, code, _) => (Ok (code, h), s1)
    | Err e => (Err e, s1)
    | Panic p => (Panic p, s1)
    end
  | (Err e, s1) => (Err e, s1)
  | (Panic p, s1) => (Panic p, s1)
  end.

End Textproto.
