(* C06 - proofs about the handshake machines (Machine.v). *)
From Coq Require Import String Ascii.
From Coq Require Import List ZArith NArith Bool Lia.
From SA Require Import Base.Tok.
From SA.Hs Require Import Parse Machine Parse_proofs.
Import ListNotations.
Open Scope N_scope.

(* ------------------------------------------------------------------ *)
(* the machines on the segment-level reader and on the stream-level reader *)

Lemma r_eof_abs a : r_eof sr_reader (abs a) = r_eof rd_reader a.
Proof. reflexivity. Qed.
Lemma r_rest_abs a : r_rest sr_reader (abs a) = r_rest rd_reader a.
Proof. reflexivity. Qed.

Lemma server_upgrade_sim tls c F nv a : inv a -> (length (stream a) < F)%nat ->
  server_upgrade rd_reader tls c F nv a = server_upgrade sr_reader tls c F nv (abs a).
Proof.
  intros Hinv HF. unfold server_upgrade.
  destruct (read_request_sim F a Hinv HF) as [Hs _]. rewrite Hs.
  destruct (read_request rd_reader F a) as [[[[[m u] q] h]|e|p] a1]; cbn [fst snd];
    rewrite ?r_eof_abs, ?r_rest_abs; reflexivity.
Qed.

Lemma server_sim tls c F a : inv a -> (length (stream a) < F)%nat ->
  server rd_reader tls c F a = server sr_reader tls c F (abs a).
Proof.
  intros Hinv HF. unfold server.
  destruct (read_request_sim F a Hinv HF) as [Hs Hinv1].
  destruct (read_request_good F (abs a) ltac:(rewrite slen_abs; exact HF)) as [_ Hle].
  rewrite Hs in Hle |- *. cbn [fst snd] in Hle. rewrite !slen_abs in Hle.
  destruct (read_request rd_reader F a) as [[[[[m u] q] h]|e|p] a1]; cbn [fst snd] in *;
    rewrite ?r_eof_abs; try reflexivity.
  destruct (negb (bytes_eqb m request_method)); [reflexivity|].
  destruct (negotiate_version (hget k_accepts h)); [reflexivity|].
  apply server_upgrade_sim; [exact Hinv1|lia].
Qed.

Lemma total_len_concat segs : total_len segs = length (concat segs).
Proof. reflexivity. Qed.

(* the outcome of the server is a function of the concatenated input *)
Theorem server_run_stream : forall tls c segs,
  server_run_with tls c segs = server_stream_with tls c (concat segs).
Proof.
  intros tls c segs. unfold server_run_with, server_stream_with.
  rewrite total_len_concat, <- abs_init.
  apply server_sim; [apply inv_init|]. unfold fuel_for, stream, rd_init. simpl. lia.
Qed.

Lemma client_upgrade_sim tls sec F nv st more a : inv a ->
  (length (stream a) + length (concat more) < F)%nat ->
  client_upgrade rd_reader tls sec F nv st more a =
  client_upgrade sr_reader tls sec F nv st [concat more] (abs a).
Proof.
  intros Hinv HF. unfold client_upgrade.
  destruct (rd_feed_sim more a) as [Hfeed Hinvf]. specialize (Hinvf Hinv).
  assert (Hfeed' : r_feed sr_reader [concat more] (abs a) = abs (r_feed rd_reader more a)).
  { rewrite <- Hfeed. cbn [r_feed sr_reader]. simpl concat. rewrite app_nil_r. reflexivity. }
  rewrite Hfeed'.
  assert (HF' : (length (stream (r_feed rd_reader more a)) < F)%nat).
  { cbn [r_feed rd_reader]. unfold stream in *. cbn [rbuf rsegs]. rewrite concat_app, !app_length in *. lia. }
  destruct (read_response_sim F _ Hinvf HF') as [Hs _]. rewrite Hs.
  destruct (read_response rd_reader F (r_feed rd_reader more a)) as [[[code h]|e|p] a1]; cbn [fst snd];
    rewrite ?r_eof_abs, ?r_rest_abs; reflexivity.
Qed.

Lemma client_sim tls sec F more a : inv a ->
  (length (stream a) + length (concat more) < F)%nat ->
  client rd_reader tls sec F more a = client sr_reader tls sec F [concat more] (abs a).
Proof.
  intros Hinv HF. unfold client.
  destruct (read_response_sim F a Hinv ltac:(lia)) as [Hs Hinv1].
  destruct (read_response_good F (abs a) ltac:(rewrite slen_abs; lia)) as [_ Hle].
  rewrite Hs in Hle |- *. cbn [fst snd] in Hle. rewrite !slen_abs in Hle.
  destruct (read_response rd_reader F a) as [[[code h]|e|p] a1]; cbn [fst snd] in *;
    rewrite ?r_eof_abs; try reflexivity.
  destruct (negb (code =? 200)%Z); [reflexivity|].
  apply client_upgrade_sim; [exact Hinv1|lia].
Qed.

Theorem client_run_stream : forall tls sec segs1 segs2,
  client_run_with tls sec segs1 segs2 = client_stream_with tls sec (concat segs1) (concat segs2).
Proof.
  intros tls sec segs1 segs2. unfold client_run_with, client_stream_with.
  rewrite total_len_concat, concat_app, <- abs_init.
  apply client_sim; [apply inv_init|]. unfold fuel_for, stream, rd_init. simpl. rewrite app_length. lia.
Qed.

(* ------------------------------------------------------------------ *)
(* (3) chunking: the observation does not depend on how the bytes are cut into transport segments *)

Theorem chunking_with : forall tls c segs, server_run_with tls c segs = server_run_with tls c [concat segs].
Proof.
  intros. rewrite (server_run_stream tls c segs), (server_run_stream tls c [concat segs]).
  simpl concat. rewrite app_nil_r. reflexivity.
Qed.

Theorem chunking : forall c segs, server_run c segs = server_run c [concat segs].
Proof. intros. apply chunking_with. Qed.

(* two segmentations of the same bytes are indistinguishable *)
Corollary chunking_any : forall c segs segs', concat segs = concat segs' -> server_run c segs = server_run c segs'.
Proof. intros c segs segs' H. rewrite (chunking c segs), (chunking c segs'), H. reflexivity. Qed.

(* client role: segs1 is what arrives before the second request is written, segs2 what arrives after *)
Theorem chunking_client_with : forall tls sec segs1 segs2,
  client_run_with tls sec segs1 segs2 = client_run_with tls sec [concat segs1] [concat segs2].
Proof.
  intros. rewrite (client_run_stream tls sec segs1 segs2), (client_run_stream tls sec [concat segs1] [concat segs2]).
  simpl concat. rewrite !app_nil_r. reflexivity.
Qed.

Theorem chunking_client : forall sec segs1 segs2,
  client_run sec segs1 segs2 = client_run sec [concat segs1] [concat segs2].
Proof. intros. apply chunking_client_with. Qed.

(* ------------------------------------------------------------------ *)
(* (4) totality: no input makes either role panic (nor run out of loop fuel) *)

Lemma server_upgrade_stream_total tls c F nv b : (slen b < F)%nat ->
  forall p, server_upgrade sr_reader tls c F nv b <> Panic p.
Proof.
  intros HF p. unfold server_upgrade.
  destruct (read_request_good F b HF) as [Hnp _].
  destruct (read_request sr_reader F b) as [[[[[m u] q] h]|e|p0] b1]; cbn [fst snd] in *.
  - repeat match goal with |- context [if ?x then _ else _] => destruct x end; discriminate.
  - discriminate.
  - exfalso. eapply Hnp; reflexivity.
Qed.

Lemma server_stream_total tls c F b : (slen b < F)%nat -> forall p, server sr_reader tls c F b <> Panic p.
Proof.
  intros HF p. unfold server.
  destruct (read_request_good F b HF) as [Hnp Hle].
  destruct (read_request sr_reader F b) as [[[[[m u] q] h]|e|p0] b1]; cbn [fst snd] in *.
  - destruct (negb (bytes_eqb m request_method)); [discriminate|].
    destruct (negotiate_version (hget k_accepts h)); [discriminate|].
    apply server_upgrade_stream_total. lia.
  - discriminate.
  - exfalso. eapply Hnp; reflexivity.
Qed.

Lemma client_stream_total tls sec F more b : (slen b + length (concat more) < F)%nat ->
  forall p, client sr_reader tls sec F more b <> Panic p.
Proof.
  intros HF p. unfold client.
  destruct (read_response_good F b ltac:(lia)) as [Hnp Hle].
  destruct (read_response sr_reader F b) as [[[code h]|e|p0] b1]; cbn [fst snd] in *.
  - destruct (negb (code =? 200)%Z); [discriminate|].
    unfold client_upgrade.
    assert (HF' : (slen (r_feed sr_reader more b1) < F)%nat).
    { unfold slen in *. cbn [r_feed sr_reader sbytes]. rewrite app_length. lia. }
    destruct (read_response_good F _ HF') as [Hnp2 _].
    destruct (read_response sr_reader F (r_feed sr_reader more b1)) as [[[code2 h2]|e|p0] b2]; cbn [fst snd] in *.
    + repeat match goal with |- context [if ?x then _ else _] => destruct x end; discriminate.
    + discriminate.
    + exfalso. eapply Hnp2; reflexivity.
  - discriminate.
  - exfalso. eapply Hnp; reflexivity.
Qed.

Theorem server_run_total : forall tls c segs p, server_run_with tls c segs <> Panic p.
Proof.
  intros tls c segs p. rewrite server_run_stream. unfold server_stream_with.
  apply server_stream_total. unfold slen, sr_init, fuel_for. simpl. lia.
Qed.

Theorem client_run_total : forall tls sec segs1 segs2 p, client_run_with tls sec segs1 segs2 <> Panic p.
Proof.
  intros tls sec segs1 segs2 p. rewrite client_run_stream. unfold client_stream_with.
  apply client_stream_total. unfold slen, sr_init, fuel_for. cbn [sbytes concat]. rewrite !app_length. simpl. lia.
Qed.

Theorem total : forall b,
  (forall p, parse_request_line b <> Panic p) /\ (forall p, parse_response_line b <> Panic p) /\
  forall c sec segs segs2,
    (forall p, server_run c segs <> Panic p) /\ (forall p, client_run sec segs segs2 <> Panic p).
Proof.
  intros b. split; [apply parse_request_line_total|]. split; [apply parse_response_line_total|].
  intros c sec segs segs2. split; intros p; [apply server_run_total|apply client_run_total].
Qed.

(* ------------------------------------------------------------------ *)
(* (2) anything but an established session is answered with an error status or a close *)

Definition error_status (code : N) : Prop := 400 <= code /\ code < 600.

Definition refusal_shape (tls : bool) (c : cfg) (st : list N) : Prop :=
  (exists pre code, st = pre ++ [code] /\ error_status code /\ (pre = [] \/ pre = [200]))  (* an error status is the last thing written *)
  \/ st = [200]                                                   (* announce accepted, then closed without a response *)
  \/ (st = [200; 101] /\ tls = false /\ c_secure c = false /\ c_cert c = true). (* StartTLS accepted, TLS handshake failed *)

Definition else_error_statement (tls : bool) (c : cfg) (o : sobs) : Prop :=
  match sout o with
  | Established _ _ _ _ => statuses o = [200; 101]
  | Refused _ => refusal_shape tls c (statuses o)
  end.

Lemma err_last pre code : error_status code -> (pre = [] \/ pre = [200]) ->
  exists pre' code', pre ++ [code] = pre' ++ [code'] /\ error_status code' /\ (pre' = [] \/ pre' = [200]).
Proof. intros. exists pre, code. auto. Qed.

Lemma server_else_error {St} (R : reader St) tls c F s :
  (exists o, server R tls c F s = Ok o /\ else_error_statement tls c o) \/ (exists p, server R tls c F s = Panic p).
Proof.
  assert (E400 : error_status 400) by (unfold error_status; lia).
  assert (E405 : error_status 405) by (unfold error_status; lia).
  assert (E406 : error_status 406) by (unfold error_status; lia).
  assert (E409 : error_status 409) by (unfold error_status; lia).
  assert (E503 : error_status 503) by (unfold error_status; lia).
  assert (E403 : error_status 403) by (unfold error_status; lia).
  unfold server.
  destruct (read_request R F s) as [[[[[m u] q] h]|e|p] s1]; [| |right; eexists; reflexivity].
  2:{ left. eexists; split; [reflexivity|]. left. exists [], 400. auto. }
  destruct (negb (bytes_eqb m request_method)).
  { left. eexists; split; [reflexivity|]. left. exists [], 405. auto. }
  destruct (negotiate_version (hget k_accepts h)) as [|v0 vt].
  { left. eexists; split; [reflexivity|]. left. exists [], 409. auto. }
  unfold server_upgrade.
  destruct (read_request R F s1) as [[[[[m2 u2] q2] h2]|e|p] s2]; [| |right; eexists; reflexivity].
  2:{ left. eexists; split; [reflexivity|]. right. left. reflexivity. }
  left.
  destruct (negb (bytes_eqb m2 (wd "GET"))).
  { eexists; split; [reflexivity|]. left. exists [200], 405. auto. }
  destruct (negb (bytes_eqb (to_lower (hget k_connection h2)) (wd "upgrade"))).
  { eexists; split; [reflexivity|]. left. exists [200], 406. auto. }
  destruct (negb (bytes_eqb (hget k_upgrade h2) (upgrade_token (v0 :: vt)))).
  { eexists; split; [reflexivity|]. left. exists [200], 406. auto. }
  destruct (bytes_eqb (to_upper (hget k_security h2)) (wd "STARTTLS")).
  - destruct (negb (c_secure c) && c_cert c) eqn:Esup.
    + destruct tls.
      * eexists; split; reflexivity.
      * eexists; split; [reflexivity|]. right. right.
        apply andb_true_iff in Esup. destruct Esup as [H1 H2]. apply negb_true_iff in H1. auto.
    + eexists; split; [reflexivity|]. left. exists [200], 503. auto.
  - destruct (negb (c_secure c) && c_cert c && c_reqcc c).
    + eexists; split; [reflexivity|]. left. exists [200], 403. auto.
    + eexists; split; reflexivity.
Qed.

(* the server always produces an observation, and it has the shape above *)
Theorem else_error : forall tls c segs,
  exists o, server_run_with tls c segs = Ok o /\ else_error_statement tls c o.
Proof.
  intros tls c segs. unfold server_run_with.
  destruct (server_else_error rd_reader tls c (fuel_for (total_len segs)) (rd_init segs)) as [H|[p Hp]]; [exact H|].
  exfalso. exact (server_run_total tls c segs p Hp).
Qed.

(* in particular: never a session together with an error status *)
Corollary established_statuses : forall tls c segs o v sec t rest,
  server_run_with tls c segs = Ok o -> sout o = Established v sec t rest -> statuses o = [200; 101].
Proof.
  intros tls c segs o v sec t rest Ho Hs.
  destruct (else_error tls c segs) as (o' & Ho' & H). rewrite Ho in Ho'. inversion Ho'; subst o'.
  unfold else_error_statement in H. rewrite Hs in H. exact H.
Qed.
