(* C06 - computed examples: the model machines interoperate, and the hypotheses of the theorems are inhabited. *)
From Coq Require Import String Ascii.
From Coq Require Import List ZArith NArith Bool Lia.
From SA Require Import Base.Tok.
From SA.Hs Require Import Parse Machine Grammar Parse_proofs Machine_proofs Grammar_proofs Admit_proofs.
Import ListNotations.
Open Scope N_scope.

Definition plain := mkcfg false false false.
Definition with_cert := mkcfg false true false.
Definition secure_carrier := mkcfg true true false.

(* the server admits what the client writes, whatever follows is handed on *)
Example server_admits_client :
  server_run plain [announce_request; upgrade_request protocol_version false ++ wd "PAYLOAD"] =
  Ok (mksobs [200; 101] (Established protocol_version false TechNone (wd "PAYLOAD"))).
Proof. vm_compute. reflexivity. Qed.

Example server_admits_client_bytewise :
  server_run plain (bytewise (announce_request ++ upgrade_request protocol_version false ++ wd "PAYLOAD")) =
  Ok (mksobs [200; 101] (Established protocol_version false TechNone (wd "PAYLOAD"))).
Proof. vm_compute. reflexivity. Qed.

Example server_secure_carrier :
  server_run secure_carrier [announce_request ++ upgrade_request protocol_version false] =
  Ok (mksobs [200; 101] (Established protocol_version true TechUnderlying [])).
Proof. vm_compute. reflexivity. Qed.

(* StartTLS: accepted with a certificate (then the TLS oracle decides), 503 without *)
Example server_starttls_ok :
  server_run_with true with_cert [announce_request; upgrade_request protocol_version true] =
  Ok (mksobs [200; 101] (Established protocol_version true TechTls [])).
Proof. vm_compute. reflexivity. Qed.
Example server_starttls_tls_fails :
  server_run_with false with_cert [announce_request; upgrade_request protocol_version true] =
  Ok (mksobs [200; 101] (Refused true)).
Proof. vm_compute. reflexivity. Qed.
Example server_starttls_no_cert :
  server_run plain [announce_request; upgrade_request protocol_version true] =
  Ok (mksobs [200; 503] (Refused false)).
Proof. vm_compute. reflexivity. Qed.

(* a server that requires client certificates: StartTLS or nothing on an unencrypted carrier *)
Definition with_cert_reqcc := mkcfg false true true.
Example server_reqcc_plain_refused :
  server_run with_cert_reqcc [announce_request; upgrade_request protocol_version false] = Ok (mksobs [200; 403] (Refused false)).
Proof. vm_compute. reflexivity. Qed.
Example server_reqcc_starttls_ok :
  server_run_with true with_cert_reqcc [announce_request; upgrade_request protocol_version true] =
  Ok (mksobs [200; 101] (Established protocol_version true TechTls [])).
Proof. vm_compute. reflexivity. Qed.

(* refusals *)
Example server_wrong_method :
  server_run plain [wd "GET / HTTP/1.1" ++ crlf ++ crlf] = Ok (mksobs [405] (Refused false)).
Proof. vm_compute. reflexivity. Qed.
Example server_no_version :
  server_run plain [wd "X-SOCKETACE / HTTP/1.1" ++ crlf ++ wd "Accepts-Protocol-Version: v1" ++ crlf ++ crlf] =
  Ok (mksobs [409] (Refused false)).
Proof. vm_compute. reflexivity. Qed.
Example server_one_space :
  server_run plain [wd "X-SOCKETACE /" ++ crlf ++ crlf] = Ok (mksobs [400] (Refused false)).
Proof. vm_compute. reflexivity. Qed.
Example server_truncated :
  server_run plain [wd "X-SOCKETACE / HTTP/1.1" ++ crlf] = Ok (mksobs [400] (Refused true)).
Proof. vm_compute. reflexivity. Qed.

(* the client admits what the server writes *)
Example client_admits_server :
  client_run false [ok_response false protocol_version] [switching_response protocol_version ++ wd "REST"] =
  Ok (mkcobs (announce_request ++ upgrade_request protocol_version false)
             (Established protocol_version false TechNone (wd "REST"))).
Proof. vm_compute. reflexivity. Qed.
Example client_starttls :
  client_run_with true false [ok_response true protocol_version] [switching_response protocol_version] =
  Ok (mkcobs (announce_request ++ upgrade_request protocol_version true)
             (Established protocol_version true TechTls [])).
Proof. vm_compute. reflexivity. Qed.
Example client_no_starttls_on_secure_carrier :
  client_run true [ok_response true protocol_version] [switching_response protocol_version] =
  Ok (mkcobs (announce_request ++ upgrade_request protocol_version false)
             (Established protocol_version true TechUnderlying [])).
Proof. vm_compute. reflexivity. Qed.

(* the right-hand side of admit_iff is inhabited: what the client writes is a well-formed, compatible exchange *)
Example grammar_inhabited :
  exists r1 r2 accepted security,
    announce_request ++ upgrade_request protocol_version false ++ wd "PAYLOAD" = r1 ++ r2 ++ wd "PAYLOAD" /\
    wf_announce r1 accepted /\ supported protocol_version /\ offers accepted protocol_version /\
    wf_upgrade protocol_version r2 security /\ starttls_consistent false plain security false TechNone.
Proof.
  apply admit_sound. vm_compute. reflexivity.
Qed.

(* a line longer than the buffer is assembled from fragments, a CR at the fragment boundary is kept in place *)
Example long_line_cr_boundary :
  let first := wd "X-SOCKETACE /" ++ repeat 97 4082 ++ [CR] ++ wd " H" in
  length (wd "X-SOCKETACE /" ++ repeat 97 4082 ++ [CR]) = 4096%nat /\
  server_run plain [first ++ crlf ++ wd "Accepts-Protocol-Version: v2.0.0" ++ crlf ++ crlf ++
                    upgrade_request protocol_version false ++ wd "TAIL"] =
  Ok (mksobs [200; 101] (Established protocol_version false TechNone (wd "TAIL"))).
Proof. vm_compute. split; reflexivity. Qed.
