From Coq Require Import String List NArith ZArith Bool Arith Lia.
From SA Require Import Base.Tok Wrappers.Tree.
Import ListNotations.

(* Base.Tok exports a global [Open Scope N_scope]; the counts of Wrappers.Tree are nat, so the
   numerals in the statements below ([c <= 1], [c = 1]) must be read in nat_scope. *)
Local Open Scope nat_scope.

(* ------------------------------------------------------------------ *)
(* basic predicates                                                     *)

Definition is_safe (n : node) : Prop := match n with NSafe _ _ _ _ => True | _ => False end.
Definition wrapper (n : node) : Prop := match n with NRaw _ _ _ => False | _ => True end.
Definition raw0 (n : node) : Prop := match n with NRaw _ _ c => c = 0 | _ => True end.
Definition all1 (n : node) : Prop := Forall (fun c => c = 1) (counts n).

Lemma safe_wrapper : forall n, is_safe n -> wrapper n.
Proof. destruct n; simpl; tauto. Qed.

Lemma wrapper_raw0 : forall n, wrapper n -> raw0 n.
Proof. destruct n; simpl; tauto. Qed.

(* well-formedness invariant *)
Fixpoint inv (n : node) : Prop :=
  match n with
  | NRaw _ _ c => c <= 1
  | NSafe _ _ cl i => inv i /\ (cl = true -> all1 i) /\ (cl = false -> raw0 i)
  | NNamed i => is_safe i /\ inv i
  | NPair r w => is_safe r /\ is_safe w /\ inv r /\ inv w
  | NSim i => is_safe i /\ inv i
  end.

(* freshly built: nothing closed *)
Fixpoint fresh (n : node) : Prop :=
  match n with
  | NRaw _ _ c => c = 0
  | NSafe _ _ cl i => cl = false /\ fresh i
  | NNamed i => is_safe i /\ fresh i
  | NPair r w => is_safe r /\ is_safe w /\ fresh r /\ fresh w
  | NSim i => is_safe i /\ fresh i
  end.

(* monotone evolution: same shape, flags and counts only grow *)
Fixpoint nle (a b : node) : Prop :=
  match a, b with
  | NRaw hc f c, NRaw hc' f' c' => hc = hc' /\ f = f' /\ c <= c'
  | NSafe nb fl cl i, NSafe nb' fl' cl' i' => nb = nb' /\ fl = fl' /\ (cl = true -> cl' = true) /\ nle i i'
  | NNamed i, NNamed i' => nle i i'
  | NPair r w, NPair r' w' => nle r r' /\ nle w w'
  | NSim i, NSim i' => nle i i'
  | _, _ => False
  end.

Lemma nle_refl : forall n, nle n n.
Proof. induction n; simpl; auto. Qed.

Lemma nle_trans : forall a b c, nle a b -> nle b c -> nle a c.
Proof.
  induction a; destruct b; simpl; try tauto; destruct c; simpl; try tauto; intros.
  - destruct H as (? & ? & ?), H0 as (? & ? & ?). subst. repeat split; auto. lia.
  - destruct H as (? & ? & ? & ?), H0 as (? & ? & ? & ?). subst. repeat split; auto. eapply IHa; eauto.
  - eapply IHa; eauto.
  - destruct H, H0. split; [eapply IHa1 | eapply IHa2]; eauto.
  - eapply IHa; eauto.
Qed.

Lemma nle_size : forall a b, nle a b -> size b = size a.
Proof.
  induction a; destruct b; simpl; try tauto; intros.
  - destruct H as (? & ? & ? & Hl). subst. rewrite (IHa _ Hl). reflexivity.
  - rewrite (IHa _ H). reflexivity.
  - destruct H as [H1 H2]. rewrite (IHa1 _ H1), (IHa2 _ H2). reflexivity.
  - rewrite (IHa _ H). reflexivity.
Qed.

Lemma nle_safe : forall a b, nle a b -> is_safe a -> is_safe b.
Proof. destruct a; destruct b; simpl; tauto. Qed.

Lemma nle_closed : forall a b, nle a b -> is_closed a = Some true -> is_closed b = Some true.
Proof.
  induction a; destruct b; simpl; try tauto; intros.
  - destruct H as (<- & <- & Hc). destruct has_closed; try discriminate.
    injection H0 as H1. apply Nat.ltb_lt in H1. f_equal. apply Nat.ltb_lt. lia.
  - destruct H as (_ & _ & Hc & _). inversion H0; subst. rewrite Hc; auto.
  - auto.
  - destruct H as [Hr Hw].
    destruct (is_closed a1) as [x|] eqn:E1; try discriminate.
    destruct (is_closed a2) as [y|] eqn:E2; try discriminate.
    inversion H0. apply andb_true_iff in H1. destruct H1; subst.
    rewrite (IHa1 _ Hr eq_refl), (IHa2 _ Hw eq_refl). reflexivity.
  - auto.
Qed.

Lemma inv_le1 : forall n, inv n -> Forall (fun c => c <= 1) (counts n).
Proof.
  induction n; simpl; intros.
  - constructor; auto.
  - apply IHn; tauto.
  - apply IHn; tauto.
  - apply Forall_app; split; [apply IHn1 | apply IHn2]; tauto.
  - apply IHn; tauto.
Qed.

Lemma nle_all1 : forall a b, nle a b -> inv b -> all1 a -> all1 b.
Proof.
  unfold all1. induction a; destruct b; simpl; try tauto; intros.
  - inversion H1; subst. constructor; auto. lia.
  - apply IHa; tauto.
  - apply IHa; tauto.
  - apply Forall_app in H1. destruct H1. apply Forall_app; split; [apply IHa1 | apply IHa2]; tauto.
  - apply IHa; tauto.
Qed.

(* ------------------------------------------------------------------ *)
(* close                                                                *)

Lemma closed_all1 : forall n, inv n -> is_closed n = Some true -> all1 n.
Proof.
  unfold all1. induction n; simpl; intros.
  - destruct has_closed; try discriminate. inversion H0. apply Nat.ltb_lt in H2.
    constructor; auto. lia.
  - inversion H0; subst. apply H; auto.
  - apply IHn; tauto.
  - destruct (is_closed n1) as [x|] eqn:E1; try discriminate.
    destruct (is_closed n2) as [y|] eqn:E2; try discriminate.
    inversion H0. apply andb_true_iff in H2. destruct H2; subst.
    apply Forall_app; split; [apply IHn1 | apply IHn2]; tauto.
  - apply IHn; tauto.
Qed.

Lemma close_nle : forall n, nle n (fst (close n)).
Proof.
  induction n; simpl.
  - auto.
  - destruct closed; simpl.
    + repeat split; auto. apply nle_refl.
    + destruct (is_closed n) as [[|]|]; simpl.
      * repeat split; auto. apply nle_refl.
      * destruct (close n); simpl in *. repeat split; auto.
      * destruct (close n); simpl in *. repeat split; auto.
  - destruct (close n); simpl in *. auto.
  - assert (Hr : nle n1 (fst (match is_closed n1 with Some true => (n1, false) | _ => close n1 end))).
    { destruct (is_closed n1) as [[|]|]; simpl; auto using nle_refl. }
    assert (Hw : nle n2 (fst (match is_closed n2 with Some true => (n2, false) | _ => close n2 end))).
    { destruct (is_closed n2) as [[|]|]; simpl; auto using nle_refl. }
    destruct (match is_closed n1 with Some true => (n1, false) | _ => close n1 end).
    destruct (match is_closed n2 with Some true => (n2, false) | _ => close n2 end).
    simpl in *. auto.
  - destruct (close n); simpl in *. auto.
Qed.

(* closing a well-formed node (a raw only when its count is 0) closes everything below exactly once *)
Lemma close_spec : forall n, inv n -> raw0 n ->
  inv (fst (close n)) /\ all1 (fst (close n)).
Proof.
  induction n; simpl; intros; unfold all1 in *; simpl in *.
  - subst. split; auto.
  - destruct H as (Hi & Ht & Hf). destruct closed; simpl.
    + repeat split; auto.
    + destruct (is_closed n) as [[|]|] eqn:E; simpl.
      * assert (all1 n) by (apply closed_all1; auto). repeat split; auto; try discriminate.
      * destruct (IHn Hi (Hf eq_refl)). destruct (close n); simpl in *.
        repeat split; auto; try discriminate.
      * destruct (IHn Hi (Hf eq_refl)). destruct (close n); simpl in *.
        repeat split; auto; try discriminate.
  - destruct H as [Hs Hi]. destruct (IHn Hi (wrapper_raw0 _ (safe_wrapper _ Hs))).
    pose proof (close_nle n) as Hl. destruct (close n); simpl in *.
    repeat split; auto. eapply nle_safe; eauto.
  - destruct H as (Hs1 & Hs2 & Hi1 & Hi2).
    assert (Hr : let x := fst (match is_closed n1 with Some true => (n1, false) | _ => close n1 end) in
                 is_safe x /\ inv x /\ all1 x).
    { pose proof (close_nle n1) as Hl.
      destruct (IHn1 Hi1 (wrapper_raw0 _ (safe_wrapper _ Hs1))).
      destruct (is_closed n1) as [[|]|] eqn:E; simpl.
      - repeat split; auto. apply closed_all1; auto.
      - repeat split; auto. eapply nle_safe; eauto.
      - repeat split; auto. eapply nle_safe; eauto. }
    assert (Hw : let x := fst (match is_closed n2 with Some true => (n2, false) | _ => close n2 end) in
                 is_safe x /\ inv x /\ all1 x).
    { pose proof (close_nle n2) as Hl.
      destruct (IHn2 Hi2 (wrapper_raw0 _ (safe_wrapper _ Hs2))).
      destruct (is_closed n2) as [[|]|] eqn:E; simpl.
      - repeat split; auto. apply closed_all1; auto.
      - repeat split; auto. eapply nle_safe; eauto.
      - repeat split; auto. eapply nle_safe; eauto. }
    destruct (match is_closed n1 with Some true => (n1, false) | _ => close n1 end).
    destruct (match is_closed n2 with Some true => (n2, false) | _ => close n2 end).
    simpl in *. unfold all1 in *. intuition. apply Forall_app; auto.
  - destruct H as [Hs Hi]. destruct (IHn Hi (wrapper_raw0 _ (safe_wrapper _ Hs))).
    pose proof (close_nle n) as Hl. destruct (close n); simpl in *.
    repeat split; auto. eapply nle_safe; eauto.
Qed.

Lemma close_safe_closed : forall n, is_safe n -> is_closed (fst (close n)) = Some true.
Proof.
  destruct n; simpl; try tauto. intros _.
  destruct closed; simpl; auto.
  destruct (is_closed n) as [[|]|]; simpl; auto; destruct (close n); auto.
Qed.

(* after Close, a wrapper reports closed *)
Lemma close_closed : forall n, inv n -> wrapper n -> is_closed (fst (close n)) = Some true.
Proof.
  destruct n; simpl; intros; try tauto.
  - apply (close_safe_closed (NSafe numbered fl closed n)); simpl; auto.
  - destruct H as [Hs _]. pose proof (close_safe_closed n Hs). destruct (close n); auto.
  - destruct H as (Hs1 & Hs2 & _).
    assert (Hr : is_closed (fst (match is_closed n1 with Some true => (n1, false) | _ => close n1 end)) = Some true).
    { destruct (is_closed n1) as [[|]|] eqn:E; simpl; auto using close_safe_closed. }
    assert (Hw : is_closed (fst (match is_closed n2 with Some true => (n2, false) | _ => close n2 end)) = Some true).
    { destruct (is_closed n2) as [[|]|] eqn:E; simpl; auto using close_safe_closed. }
    destruct (match is_closed n1 with Some true => (n1, false) | _ => close n1 end).
    destruct (match is_closed n2 with Some true => (n2, false) | _ => close n2 end).
    simpl in *. rewrite Hr, Hw. reflexivity.
  - destruct H as [Hs _]. pose proof (close_safe_closed n Hs). destruct (close n); auto.
Qed.

Lemma close_safe_again : forall n, is_safe n -> is_closed n = Some true -> snd (close n) = false.
Proof.
  destruct n; simpl; try tauto. intros _ H. inversion H; subst. reflexivity.
Qed.

(* Close on a wrapper that reports closed returns nil *)
Lemma close_again : forall n, inv n -> wrapper n -> is_closed n = Some true -> snd (close n) = false.
Proof.
  destruct n; simpl; intros; try tauto.
  - inversion H1; subst. reflexivity.
  - destruct H as [Hs _]. pose proof (close_safe_again n Hs H1). destruct (close n); auto.
  - destruct (is_closed n1) as [x|]; try discriminate.
    destruct (is_closed n2) as [y|]; try discriminate.
    inversion H1. apply andb_true_iff in H3. destruct H3; subst. reflexivity.
  - destruct H as [Hs _]. pose proof (close_safe_again n Hs H1). destruct (close n); auto.
Qed.

(* ------------------------------------------------------------------ *)
(* at_ / sub                                                            *)

Lemma inv_sub : forall n k s, inv n -> sub k n = Some s -> inv s /\ wrapper s.
Proof.
  induction n; simpl; intros.
  - discriminate.
  - destruct (numbered && (k =? size n)).
    + inversion H0; subst; simpl; auto.
    + eapply IHn; eauto; tauto.
  - destruct (k =? size n).
    + inversion H0; subst; simpl; auto.
    + eapply IHn; eauto; tauto.
  - destruct (k <? size n1).
    + eapply IHn1; eauto; tauto.
    + destruct (k <? size n1 + size n2).
      * eapply IHn2; eauto; tauto.
      * destruct (k =? size n1 + size n2); try discriminate.
        inversion H0; subst; simpl; auto.
  - destruct (k =? size n).
    + inversion H0; subst; simpl; auto.
    + eapply IHn; eauto; tauto.
Qed.

Lemma at_none : forall A (f : node -> node * A) n k, at_ f k n = None -> sub k n = None.
Proof.
  induction n; simpl; intros; auto.
  - destruct (numbered && (k =? size n)); try discriminate.
    destruct (at_ f k n) as [[? ?]|] eqn:E; try discriminate. auto.
  - destruct (k =? size n); try discriminate.
    destruct (at_ f k n) as [[? ?]|] eqn:E; try discriminate. auto.
  - destruct (k <? size n1).
    + destruct (at_ f k n1) as [[? ?]|] eqn:E; try discriminate. auto.
    + destruct (k <? size n1 + size n2).
      * destruct (at_ f (k - size n1) n2) as [[? ?]|] eqn:E; try discriminate. auto.
      * destruct (k =? size n1 + size n2); try discriminate. auto.
  - destruct (k =? size n); try discriminate.
    destruct (at_ f k n) as [[? ?]|] eqn:E; try discriminate. auto.
Qed.

Definition hit (k : nat) (x : node) : Prop :=
  match x with
  | NRaw _ _ _ => False
  | NSafe nb _ _ i => nb && (k =? size i) = true
  | NNamed i | NSim i => (k =? size i) = true
  | NPair r w => (k <? size r) = false /\ (k <? size r + size w) = false /\ (k =? size r + size w) = true
  end.

Lemma sub_self : forall x y k, nle x y -> hit k x -> sub k y = Some y.
Proof.
  destruct x; destruct y; simpl; try tauto; intros.
  - destruct H as (<- & _ & _ & Hl). rewrite (nle_size _ _ Hl), H0. reflexivity.
  - rewrite (nle_size _ _ H), H0. reflexivity.
  - destruct H as [Hl1 Hl2]. rewrite (nle_size _ _ Hl1), (nle_size _ _ Hl2).
    destruct H0 as (-> & -> & ->). reflexivity.
  - rewrite (nle_size _ _ H), H0. reflexivity.
Qed.

Lemma at_hit : forall A (f : node -> node * A), (forall x, nle x (fst (f x))) ->
  forall x k n' a, hit k x -> f x = (n', a) ->
  nle x n' /\ exists s, sub k x = Some s /\ sub k n' = Some (fst (f s)) /\ a = snd (f s).
Proof.
  intros A f Hf x k n' a Hh Hx.
  pose proof (Hf x) as Hl. rewrite Hx in Hl. simpl in Hl.
  split; auto. exists x. rewrite Hx. simpl. repeat split.
  - eapply sub_self; eauto using nle_refl.
  - eapply sub_self; eauto.
Qed.

(* an update at k with a monotone function: what it touches, what it returns *)
Lemma at_sub : forall A (f : node -> node * A), (forall x, nle x (fst (f x))) ->
  forall n k n' a, at_ f k n = Some (n', a) ->
  nle n n' /\ exists s, sub k n = Some s /\ sub k n' = Some (fst (f s)) /\ a = snd (f s).
Proof.
  intros A f Hf. induction n; intros k n' a H; simpl in H.
  - discriminate.
  - destruct (numbered && (k =? size n)) eqn:Ek.
    + injection H as H1. apply (at_hit _ f Hf (NSafe numbered fl closed n)); simpl; auto.
    + destruct (at_ f k n) as [[i' a']|] eqn:E; try discriminate. inversion H; subst.
      destruct (IHn _ _ _ E) as (Hl & s & Hs & Hs' & Ha).
      split; [simpl; auto|]. exists s. simpl. rewrite (nle_size _ _ Hl), Ek. auto.
  - destruct (k =? size n) eqn:Ek.
    + injection H as H1. apply (at_hit _ f Hf (NNamed n)); simpl; auto.
    + destruct (at_ f k n) as [[i' a']|] eqn:E; try discriminate. inversion H; subst.
      destruct (IHn _ _ _ E) as (Hl & s & Hs & Hs' & Ha).
      split; [simpl; auto|]. exists s. simpl. rewrite (nle_size _ _ Hl), Ek. auto.
  - destruct (k <? size n1) eqn:E1.
    + destruct (at_ f k n1) as [[i' a']|] eqn:E; try discriminate. inversion H; subst.
      destruct (IHn1 _ _ _ E) as (Hl & s & Hs & Hs' & Ha).
      split; [simpl; auto using nle_refl|]. exists s. simpl. rewrite (nle_size _ _ Hl), E1. auto.
    + destruct (k <? size n1 + size n2) eqn:E2.
      * destruct (at_ f (k - size n1) n2) as [[i' a']|] eqn:E; try discriminate. inversion H; subst.
        destruct (IHn2 _ _ _ E) as (Hl & s & Hs & Hs' & Ha).
        split; [simpl; auto using nle_refl|]. exists s. simpl. rewrite (nle_size _ _ Hl), E1, E2. auto.
      * destruct (k =? size n1 + size n2) eqn:E3; try discriminate.
        injection H as H1. apply (at_hit _ f Hf (NPair n1 n2)); simpl; auto.
  - destruct (k =? size n) eqn:Ek.
    + injection H as H1. apply (at_hit _ f Hf (NSim n)); simpl; auto.
    + destruct (at_ f k n) as [[i' a']|] eqn:E; try discriminate. inversion H; subst.
      destruct (IHn _ _ _ E) as (Hl & s & Hs & Hs' & Ha).
      split; [simpl; auto|]. exists s. simpl. rewrite (nle_size _ _ Hl), Ek. auto.
Qed.

(* an update that leaves the addressed object alone leaves the tree alone *)
Lemma at_id : forall A (f : node -> node * A), (forall x, fst (f x) = x) ->
  forall n k n' a, at_ f k n = Some (n', a) -> n' = n.
Proof.
  intros A f Hf. induction n; simpl; intros.
  - discriminate.
  - destruct (numbered && (k =? size n)).
    + inversion H. rewrite <- (Hf (NSafe numbered fl closed n)). rewrite H1. reflexivity.
    + destruct (at_ f k n) as [[i' a']|] eqn:E; try discriminate. inversion H; subst.
      f_equal. eauto.
  - destruct (k =? size n).
    + inversion H. rewrite <- (Hf (NNamed n)). rewrite H1. reflexivity.
    + destruct (at_ f k n) as [[i' a']|] eqn:E; try discriminate. inversion H; subst.
      f_equal. eauto.
  - destruct (k <? size n1).
    + destruct (at_ f k n1) as [[i' a']|] eqn:E; try discriminate. inversion H; subst.
      f_equal. eauto.
    + destruct (k <? size n1 + size n2).
      * destruct (at_ f (k - size n1) n2) as [[i' a']|] eqn:E; try discriminate. inversion H; subst.
        f_equal. eauto.
      * destruct (k =? size n1 + size n2); try discriminate.
        inversion H. rewrite <- (Hf (NPair n1 n2)). rewrite H1. reflexivity.
  - destruct (k =? size n).
    + inversion H. rewrite <- (Hf (NSim n)). rewrite H1. reflexivity.
    + destruct (at_ f k n) as [[i' a']|] eqn:E; try discriminate. inversion H; subst.
      f_equal. eauto.
Qed.

Lemma nle_sub : forall a b k s, nle a b -> sub k a = Some s -> exists s', sub k b = Some s' /\ nle s s'.
Proof.
  induction a; destruct b; simpl; try tauto; intros.
  - discriminate.
  - destruct H as (<- & <- & Hc & Hl). rewrite (nle_size _ _ Hl).
    destruct (numbered && (k =? size a)).
    + inversion H0; subst. eexists; split; eauto. simpl; auto.
    + eauto.
  - rewrite (nle_size _ _ H). destruct (k =? size a).
    + inversion H0; subst. eexists; split; eauto.
    + eauto.
  - destruct H as [H1 H2]. rewrite (nle_size _ _ H1), (nle_size _ _ H2).
    destruct (k <? size a1); eauto.
    destruct (k <? size a1 + size a2); eauto.
    destruct (k =? size a1 + size a2); try discriminate.
    inversion H0; subst. eexists; split; eauto. simpl; auto.
  - rewrite (nle_size _ _ H). destruct (k =? size a).
    + inversion H0; subst. eexists; split; eauto.
    + eauto.
Qed.

Definition closef (x : node) : node * N := let (x', e) := close x in (x', b2n e).

Lemma closef_fst : forall x, fst (closef x) = fst (close x).
Proof. intros; unfold closef; destruct (close x); reflexivity. Qed.
Lemma closef_snd : forall x, snd (closef x) = b2n (snd (close x)).
Proof. intros; unfold closef; destruct (close x); reflexivity. Qed.
Lemma closef_nle : forall x, nle x (fst (closef x)).
Proof. intros; rewrite closef_fst; apply close_nle. Qed.

Lemma closef_hit_inv : forall x n' a, inv x -> wrapper x -> closef x = (n', a) -> inv n'.
Proof.
  intros. assert (n' = fst (closef x)) by (rewrite H1; reflexivity). subst.
  rewrite closef_fst. apply close_spec; auto using wrapper_raw0.
Qed.

(* a Close somewhere in the tree keeps the invariant *)
Lemma at_close_inv : forall n k n' a, inv n -> at_ closef k n = Some (n', a) -> inv n'.
Proof.
  induction n; simpl; intros.
  - discriminate.
  - destruct (numbered && (k =? size n)).
    + injection H0 as H1. apply (closef_hit_inv (NSafe numbered fl closed n) n' a); simpl; auto.
    + destruct (at_ closef k n) as [[i' a']|] eqn:E; try discriminate. inversion H0; subst.
      destruct H as (Hi & Ht & Hf).
      pose proof (IHn _ _ _ Hi E) as Hi'.
      destruct (at_sub _ closef closef_nle _ _ _ _ E) as [Hl _].
      simpl. repeat split; auto.
      * intros. eapply nle_all1; eauto.
      * intros. destruct n; simpl in E; try discriminate; destruct i'; simpl in Hl; try tauto; exact I.
  - destruct (k =? size n).
    + injection H0 as H1. apply (closef_hit_inv (NNamed n) n' a); simpl; auto.
    + destruct (at_ closef k n) as [[i' a']|] eqn:E; try discriminate. inversion H0; subst.
      destruct H as (Hs & Hi).
      destruct (at_sub _ closef closef_nle _ _ _ _ E) as [Hl _].
      simpl. split; eauto using nle_safe.
  - destruct H as (Hs1 & Hs2 & Hi1 & Hi2). destruct (k <? size n1).
    + destruct (at_ closef k n1) as [[i' a']|] eqn:E; try discriminate. inversion H0; subst.
      destruct (at_sub _ closef closef_nle _ _ _ _ E) as [Hl _].
      simpl. repeat split; eauto using nle_safe.
    + destruct (k <? size n1 + size n2).
      * destruct (at_ closef (k - size n1) n2) as [[i' a']|] eqn:E; try discriminate. inversion H0; subst.
        destruct (at_sub _ closef closef_nle _ _ _ _ E) as [Hl _].
        simpl. repeat split; eauto using nle_safe.
      * destruct (k =? size n1 + size n2); try discriminate.
        injection H0 as H1. apply (closef_hit_inv (NPair n1 n2) n' a); simpl; auto.
  - destruct (k =? size n).
    + injection H0 as H1. apply (closef_hit_inv (NSim n) n' a); simpl; auto.
    + destruct (at_ closef k n) as [[i' a']|] eqn:E; try discriminate. inversion H0; subst.
      destruct H as (Hs & Hi).
      destruct (at_sub _ closef closef_nle _ _ _ _ E) as [Hl _].
      simpl. split; eauto using nle_safe.
Qed.

(* ------------------------------------------------------------------ *)
(* step / run                                                           *)

Definition closedf (x : node) : node * N := (x, match is_closed x with Some b => b2n b | None => 8%N end).
Definition otherf (x : node) : node * N := (x, 0%N).

Lemma step_close : forall n k,
  step n (OClose k) = match at_ closef k n with Some r => r | None => (n, 9%N) end.
Proof. reflexivity. Qed.
Lemma step_closed : forall n k,
  step n (OClosed k) = match at_ closedf k n with Some r => r | None => (n, 9%N) end.
Proof. reflexivity. Qed.
Lemma step_other : forall n k,
  step n (OOther k) = match at_ otherf k n with Some r => r | None => (n, 9%N) end.
Proof. reflexivity. Qed.

(* 6. operations other than Close never change any state *)
Lemma other_inert : forall n k, fst (step n (OOther k)) = n /\ fst (step n (OClosed k)) = n.
Proof.
  intros; split.
  - rewrite step_other. destruct (at_ otherf k n) as [[n' a]|] eqn:E; auto.
    simpl. eapply at_id; eauto. reflexivity.
  - rewrite step_closed. destruct (at_ closedf k n) as [[n' a]|] eqn:E; auto.
    simpl. eapply at_id; eauto. reflexivity.
Qed.

Lemma step_inv_le : forall n o, inv n -> inv (fst (step n o)) /\ nle n (fst (step n o)).
Proof.
  intros. destruct o.
  - rewrite step_close. destruct (at_ closef k n) as [[n' a]|] eqn:E; simpl.
    + split. eapply at_close_inv; eauto. eapply at_sub; eauto using closef_nle.
    + auto using nle_refl.
  - destruct (other_inert n k) as [_ ->]. auto using nle_refl.
  - destruct (other_inert n k) as [-> _]. auto using nle_refl.
Qed.

Lemma run_inv_le : forall ops n, inv n -> inv (fst (run n ops)) /\ nle n (fst (run n ops)).
Proof.
  induction ops; simpl; intros.
  - auto using nle_refl.
  - destruct (step_inv_le n a H) as [Hi Hl]. destruct (step n a) as [n1 r]; simpl in *.
    destruct (IHops n1 Hi) as [Hi2 Hl2]. destruct (run n1 ops) as [n2 rs]; simpl in *.
    split; auto. eapply nle_trans; eauto.
Qed.

Lemma run_app : forall a b n,
  run n (a ++ b) = (fst (run (fst (run n a)) b), snd (run n a) ++ snd (run (fst (run n a)) b)).
Proof.
  induction a; simpl; intros.
  - destruct (run n b); reflexivity.
  - destruct (step n a) as [n1 r]. rewrite IHa.
    destruct (run n1 a0) as [n2 rs]; simpl. reflexivity.
Qed.

Lemma run_one : forall n o, run n [o] = (fst (step n o), [snd (step n o)]).
Proof. intros; simpl. destruct (step n o); reflexivity. Qed.

Lemma run_snoc_last : forall n ops o d,
  last (snd (run n (ops ++ [o]))) d = snd (step (fst (run n ops)) o).
Proof.
  intros. rewrite run_app, run_one. simpl. apply last_last.
Qed.

Lemma run_snoc_fst : forall n ops o,
  fst (run n (ops ++ [o])) = fst (step (fst (run n ops)) o).
Proof. intros. rewrite run_app, run_one. reflexivity. Qed.

(* ------------------------------------------------------------------ *)
(* build                                                                *)

Lemma new_safe_fresh : forall nb fl n, fresh n -> fresh (new_safe nb fl n) /\ is_safe (new_safe nb fl n).
Proof.
  intros. destruct n; simpl; auto.
  destruct (flavour_eqb fl fl0); simpl; auto.
Qed.

Lemma build_fresh : forall t, fresh (build t).
Proof.
  induction t; simpl; auto.
  - apply new_safe_fresh; auto.
  - destruct (new_safe_fresh false fl _ IHt); auto.
  - destruct (new_safe_fresh false FReader _ IHt1), (new_safe_fresh false FWriter _ IHt2); auto.
  - destruct (new_safe_fresh false FStream _ IHt); auto.
Qed.

Lemma fresh_raw0 : forall n, fresh n -> raw0 n.
Proof. destruct n; simpl; auto. Qed.

Lemma fresh_inv : forall n, fresh n -> inv n.
Proof.
  induction n; simpl; intros.
  - lia.
  - destruct H; subst. repeat split; auto; try discriminate. intros; apply fresh_raw0; auto.
  - tauto.
  - tauto.
  - tauto.
Qed.

Lemma build_inv : forall t, inv (build t).
Proof. intros; apply fresh_inv, build_fresh. Qed.

Lemma fresh_safe_open : forall n, fresh n -> is_safe n -> is_closed n = Some false.
Proof. destruct n; simpl; try tauto. intros [-> _] _. reflexivity. Qed.

Lemma fresh_open : forall n, fresh n -> wrapper n -> is_closed n = Some false.
Proof.
  destruct n; simpl; intros; try tauto.
  - destruct H; subst; auto.
  - apply fresh_safe_open; tauto.
  - destruct H as (S1 & S2 & F1 & F2).
    rewrite (fresh_safe_open _ F1 S1), (fresh_safe_open _ F2 S2). reflexivity.
  - apply fresh_safe_open; tauto.
Qed.

Lemma fresh_sub : forall n k s, fresh n -> sub k n = Some s -> fresh s.
Proof.
  induction n; simpl; intros.
  - discriminate.
  - destruct (numbered && (k =? size n)).
    + inversion H0; subst; simpl; auto.
    + eapply IHn; eauto; tauto.
  - destruct (k =? size n).
    + inversion H0; subst; simpl; auto.
    + eapply IHn; eauto; tauto.
  - destruct (k <? size n1).
    + eapply IHn1; eauto; tauto.
    + destruct (k <? size n1 + size n2).
      * eapply IHn2; eauto; tauto.
      * destruct (k =? size n1 + size n2); try discriminate.
        inversion H0; subst; simpl; auto.
  - destruct (k =? size n).
    + inversion H0; subst; simpl; auto.
    + eapply IHn; eauto; tauto.
Qed.

(* ------------------------------------------------------------------ *)
(* the six statements                                                   *)

(* 1. no raw resource is ever closed twice *)
Lemma once : forall t ops, Forall (fun c => c <= 1) (counts (fst (run (build t) ops))).
Proof.
  intros. apply inv_le1. apply run_inv_le. apply build_inv.
Qed.

(* what a Close at k does, on a well-formed tree where k is an object *)
Lemma step_close_spec : forall n k, inv n ->
  (sub k n = None /\ step n (OClose k) = (n, 9%N)) \/
  (exists s, sub k n = Some s /\ inv s /\ wrapper s /\
     sub k (fst (step n (OClose k))) = Some (fst (close s)) /\
     snd (step n (OClose k)) = b2n (snd (close s))).
Proof.
  intros. rewrite step_close. destruct (at_ closef k n) as [[n' a]|] eqn:E.
  - right. destruct (at_sub _ closef closef_nle _ _ _ _ E) as (Hl & s & Hs & Hs' & Ha).
    exists s. destruct (inv_sub _ _ _ H Hs). rewrite closef_fst in Hs'. rewrite closef_snd in Ha.
    simpl. auto.
  - left. split; auto. eapply at_none; eauto.
Qed.

(* 2. after a Close addressed to wrapper k, every raw resource below k has been closed exactly once *)
Lemma closes : forall t ops k s,
  sub k (fst (run (build t) (ops ++ [OClose k]))) = Some s -> Forall (fun c => c = 1) (counts s).
Proof.
  intros t ops k s. rewrite run_snoc_fst.
  pose proof (proj1 (run_inv_le ops _ (build_inv t))) as Hi.
  set (n := fst (run (build t) ops)) in *.
  destruct (step_close_spec n k Hi) as [[Hn He] | (s0 & Hs0 & His & Hw & Hs' & _)].
  - rewrite He. simpl. congruence.
  - rewrite Hs'. intros Heq; inversion Heq; subst.
    apply close_spec; auto using wrapper_raw0.
Qed.

(* after ops1 ++ [OClose k] ++ ops2, object k exists, is well-formed, and reports closed *)
Lemma closed_after : forall t ops1 ops2 k,
  sub k (build t) <> None ->
  let n := fst (run (build t) (ops1 ++ [OClose k] ++ ops2)) in
  inv n /\ exists s, sub k n = Some s /\ inv s /\ wrapper s /\ is_closed s = Some true.
Proof.
  intros t ops1 ops2 k Hk n. subst n.
  rewrite app_assoc, run_app, run_snoc_fst. simpl fst.
  destruct (run_inv_le ops1 _ (build_inv t)) as [Hi1 Hl1].
  set (n1 := fst (run (build t) ops1)) in *.
  destruct (sub k (build t)) as [s0|] eqn:Es0; try congruence.
  destruct (nle_sub _ _ _ _ Hl1 Es0) as (s1 & Hs1 & _).
  destruct (step_inv_le n1 (OClose k) Hi1) as [Hi2 _].
  destruct (step_close_spec n1 k Hi1) as [[Hn _] | (s1' & Hs1' & His & Hw & Hs2 & _)]; try congruence.
  set (n2 := fst (step n1 (OClose k))) in *.
  destruct (run_inv_le ops2 n2 Hi2) as [Hi3 Hl3].
  split; auto.
  destruct (nle_sub _ _ _ _ Hl3 Hs2) as (s3 & Hs3 & Hl).
  exists s3. destruct (inv_sub _ _ _ Hi3 Hs3). repeat split; auto.
  eapply nle_closed; eauto. apply close_closed; auto.
Qed.

(* 3. a repeated Close on the same wrapper returns nil *)
Lemma repeat_ok : forall t ops1 ops2 k,
  sub k (build t) <> None ->
  last (snd (run (build t) (ops1 ++ [OClose k] ++ ops2 ++ [OClose k]))) 9%N = 0%N.
Proof.
  intros.
  replace (ops1 ++ [OClose k] ++ ops2 ++ [OClose k]) with ((ops1 ++ [OClose k] ++ ops2) ++ [OClose k])
    by (repeat rewrite <- app_assoc; reflexivity).
  rewrite run_snoc_last.
  destruct (closed_after t ops1 ops2 k H) as (Hi & s & Hs & His & Hw & Hc).
  set (n := fst (run (build t) (ops1 ++ [OClose k] ++ ops2))) in *.
  destruct (step_close_spec n k Hi) as [[Hn _] | (s' & Hs' & _ & _ & _ & Hr)]; try congruence.
  rewrite Hr. assert (s' = s) by congruence. subst.
  rewrite close_again; auto.
Qed.

Lemma step_closed_spec : forall n k s, sub k n = Some s ->
  snd (step n (OClosed k)) = match is_closed s with Some b => b2n b | None => 8%N end.
Proof.
  intros. rewrite step_closed. destruct (at_ closedf k n) as [[n' a]|] eqn:E.
  - destruct (at_sub _ closedf (fun x => nle_refl x) _ _ _ _ E) as (_ & s' & Hs' & _ & Ha).
    assert (s' = s) by congruence. subst. reflexivity.
  - apply at_none in E. congruence.
Qed.

(* 4. the status query answers false as long as nothing has been closed ... *)
Definition no_close (ops : list op) : Prop := forall k, ~ In (OClose k) ops.

Lemma run_no_close : forall ops n, no_close ops -> fst (run n ops) = n.
Proof.
  induction ops; simpl; intros; auto.
  assert (Hn : fst (step n a) = n).
  { destruct a.
    - exfalso. apply (H k). simpl; auto.
    - apply other_inert.
    - apply other_inert. }
  destruct (step n a) as [n1 r]; simpl in *; subst.
  specialize (IHops n). destruct (run n ops); simpl in *. apply IHops.
  intros k Hin. apply (H k). simpl; auto.
Qed.

Lemma status_before : forall t ops k,
  no_close ops -> sub k (build t) <> None ->
  last (snd (run (build t) (ops ++ [OClosed k]))) 9%N = 0%N.
Proof.
  intros. rewrite run_snoc_last, run_no_close; auto.
  destruct (sub k (build t)) as [s|] eqn:Es; try congruence.
  rewrite (step_closed_spec _ _ _ Es).
  pose proof (fresh_sub _ _ _ (build_fresh t) Es) as Hf.
  destruct (inv_sub _ _ _ (build_inv t) Es) as [_ Hw].
  rewrite fresh_open; auto.
Qed.

(* 5. ... and true after a Close of that wrapper, for ever *)
Lemma status_after : forall t ops1 ops2 k,
  sub k (build t) <> None ->
  last (snd (run (build t) (ops1 ++ [OClose k] ++ ops2 ++ [OClosed k]))) 9%N = 1%N.
Proof.
  intros.
  replace (ops1 ++ [OClose k] ++ ops2 ++ [OClosed k]) with ((ops1 ++ [OClose k] ++ ops2) ++ [OClosed k])
    by (repeat rewrite <- app_assoc; reflexivity).
  rewrite run_snoc_last.
  destruct (closed_after t ops1 ops2 k H) as (Hi & s & Hs & His & Hw & Hc).
  rewrite (step_closed_spec _ _ _ Hs), Hc. reflexivity.
Qed.

Print Assumptions once.
Print Assumptions closes.
Print Assumptions repeat_ok.
Print Assumptions status_before.
Print Assumptions status_after.
Print Assumptions other_inert.
