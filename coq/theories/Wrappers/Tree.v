(* C19: the Safe* / Named* / ReadWriteCloser / Simulated / StreamWrapped wrappers of internal/streams as a tree
   of objects with explicit close state. Raw resources count the Close calls that reach them. *)
From Coq Require Import String List NArith ZArith Bool Arith.
From SA Require Import Base.Tok.
Import ListNotations.

(* Go static flavour of a value: which NewSafeX re-uses it *)
Inductive flavour := FConn | FStream | FReader | FWriter.
Definition flavour_eqb (a b : flavour) : bool :=
  match a, b with FConn, FConn | FStream, FStream | FReader, FReader | FWriter, FWriter => true | _, _ => false end.

Inductive node :=
| NRaw (has_closed fails : bool) (count : nat)                  (* fake resource; Closed() = (0 < count) when implemented *)
| NSafe (numbered : bool) (fl : flavour) (closed : bool) (inner : node)
| NNamed (inner : node)                                          (* inner is an NSafe *)
| NPair (r w : node)                                             (* both NSafe (reader, writer) *)
| NSim (inner : node).                                           (* SimulatedConnection / StreamWrappedConnection over an NSafe stream *)

(* terms the harness builds with the real constructors *)
Inductive term :=
| TRaw (has_closed fails : bool)
| TSafe (fl : flavour) (t : term)
| TNamed (fl : flavour) (t : term)
| TPair (r w : term)
| TSim (t : term).

(* NewSafeX: re-use the argument when it is already a SafeX of the same flavour *)
Definition new_safe (numbered : bool) (fl : flavour) (n : node) : node :=
  match n with
  | NSafe _ fl' _ _ => if flavour_eqb fl fl' then n else NSafe numbered fl false n
  | _ => NSafe numbered fl false n
  end.

Fixpoint build (t : term) : node :=
  match t with
  | TRaw hc f => NRaw hc f 0
  | TSafe fl t => new_safe true fl (build t)
  | TNamed fl t => NNamed (new_safe false fl (build t))
  | TPair r w => NPair (new_safe false FReader (build r)) (new_safe false FWriter (build w))
  | TSim t => NSim (new_safe false FStream (build t))
  end.

(* x.Closed() for values that implement it *)
Fixpoint is_closed (n : node) : option bool :=
  match n with
  | NRaw hc _ c => if hc then Some (Nat.ltb 0 c) else None
  | NSafe _ _ closed _ => Some closed
  | NNamed i => is_closed i
  | NPair r w =>
    match is_closed r, is_closed w with
    | Some a, Some b => Some (a && b)
    | _, _ => None
    end
  | NSim i => is_closed i
  end.

(* x.Close(): new state and whether an error was returned.
   log_close x = if x implements Closed and x.Closed() then nil else x.Close() *)
Fixpoint close (n : node) : node * bool :=
  match n with
  | NRaw hc f c => (NRaw hc f (S c), f)
  | NSafe nb fl closed i =>
    if closed then (n, false)
    else
      match is_closed i with
      | Some true => (NSafe nb fl true i, false)
      | _ => let (i', e) := close i in (NSafe nb fl true i', e)
      end
  | NNamed i => let (i', e) := close i in (NNamed i', e)
  | NPair r w =>
    let (r', e1) := match is_closed r with Some true => (r, false) | _ => close r end in
    let (w', e2) := match is_closed w with Some true => (w, false) | _ => close w end in
    (NPair r' w', e1 || e2)
  | NSim i => let (i', e) := close i in (NSim i', e)
  end.

(* objects are numbered in creation order (post-order), implicit safes are not numbered *)
Fixpoint size (n : node) : nat :=
  match n with
  | NRaw _ _ _ => 1
  | NSafe nb _ _ i => (if nb then 1 else 0) + size i
  | NNamed i => 1 + size i
  | NPair r w => 1 + size r + size w
  | NSim i => 1 + size i
  end.

Definition is_raw (n : node) : bool := match n with NRaw _ _ _ => true | _ => false end.

(* apply f at object k; None when k is out of range or addresses a raw resource *)
Fixpoint at_ {A} (f : node -> node * A) (k : nat) (n : node) : option (node * A) :=
  match n with
  | NRaw _ _ _ => None
  | NSafe nb fl c i =>
    if nb && Nat.eqb k (size i) then Some (f n)
    else match at_ f k i with Some (i', a) => Some (NSafe nb fl c i', a) | None => None end
  | NNamed i =>
    if Nat.eqb k (size i) then Some (f n)
    else match at_ f k i with Some (i', a) => Some (NNamed i', a) | None => None end
  | NPair r w =>
    if Nat.ltb k (size r) then match at_ f k r with Some (r', a) => Some (NPair r' w, a) | None => None end
    else if Nat.ltb k (size r + size w) then match at_ f (k - size r) w with Some (w', a) => Some (NPair r w', a) | None => None end
    else if Nat.eqb k (size r + size w) then Some (f n) else None
  | NSim i =>
    if Nat.eqb k (size i) then Some (f n)
    else match at_ f k i with Some (i', a) => Some (NSim i', a) | None => None end
  end.

(* the object numbered k (same navigation as at_) *)
Fixpoint sub (k : nat) (n : node) : option node :=
  match n with
  | NRaw _ _ _ => None
  | NSafe nb fl c i => if nb && Nat.eqb k (size i) then Some n else sub k i
  | NNamed i => if Nat.eqb k (size i) then Some n else sub k i
  | NPair r w =>
    if Nat.ltb k (size r) then sub k r
    else if Nat.ltb k (size r + size w) then sub (k - size r) w
    else if Nat.eqb k (size r + size w) then Some n else None
  | NSim i => if Nat.eqb k (size i) then Some n else sub k i
  end.

Inductive op := OClose (k : nat) | OClosed (k : nat) | OOther (k : nat).   (* OOther: Read / Write / String *)

Definition b2n (b : bool) : N := if b then 1%N else 0%N.

Definition step (n : node) (o : op) : node * N :=
  match o with
  | OClose k => match at_ (fun x => let (x', e) := close x in (x', b2n e)) k n with Some r => r | None => (n, 9%N) end
  | OClosed k =>
    match at_ (fun x => (x, match is_closed x with Some b => b2n b | None => 8%N end)) k n with Some r => r | None => (n, 9%N) end
  | OOther k => match at_ (fun x => (x, 0%N)) k n with Some r => r | None => (n, 9%N) end
  end.

Fixpoint run (n : node) (ops : list op) : node * list N :=
  match ops with
  | [] => (n, [])
  | o :: rest => let (n1, r) := step n o in let (n2, rs) := run n1 rest in (n2, r :: rs)
  end.

Fixpoint counts (n : node) : list nat :=
  match n with
  | NRaw _ _ c => [c]
  | NSafe _ _ _ i => counts i
  | NNamed i => counts i
  | NPair r w => counts r ++ counts w
  | NSim i => counts i
  end.

(* ---- harness protocol:  c19 <term tokens> ops <op tokens>
   term:  raw hc fails | safe fl T | named fl T | pair T T | sim T      (fl: 0 conn 1 stream 2 reader 3 writer)
   ops :  close k | closed k | other k *)
Definition fl_of (z : Z) : flavour :=
  match z with 0%Z => FConn | 1%Z => FStream | 2%Z => FReader | _ => FWriter end.

Fixpoint parse_term (fuel : nat) (ts : list tok) : option (term * list tok) :=
  match fuel with
  | O => None
  | S f =>
    match ts with
    | t :: TI a :: TI b :: rest =>
      if is_word "raw" t then Some (TRaw (Z.eqb a 1) (Z.eqb b 1), rest) else parse_term1 f ts
    | _ => parse_term1 f ts
    end
  end
with parse_term1 (fuel : nat) (ts : list tok) : option (term * list tok) :=
  match fuel with
  | O => None
  | S f =>
    match ts with
    | t :: rest =>
      if is_word "pair" t then
        match parse_term f rest with
        | Some (r, rest1) =>
          match parse_term f rest1 with Some (w0, rest2) => Some (TPair r w0, rest2) | None => None end
        | None => None
        end
      else if is_word "sim" t || is_word "simw" t then
        match parse_term f rest with Some (x, rest1) => Some (TSim x, rest1) | None => None end
      else
        match rest with
        | TI fl :: rest0 =>
          if is_word "safe" t then
            match parse_term f rest0 with Some (x, rest1) => Some (TSafe (fl_of fl) x, rest1) | None => None end
          else if is_word "named" t then
            match parse_term f rest0 with Some (x, rest1) => Some (TNamed (fl_of fl) x, rest1) | None => None end
          else None
        | _ => None
        end
    | [] => None
    end
  end.

Fixpoint parse_ops (ts : list tok) : list op :=
  match ts with
  | t :: TI k :: rest =>
    (if is_word "close" t then OClose (Z.to_nat k) else if is_word "closed" t then OClosed (Z.to_nat k) else OOther (Z.to_nat k))
      :: parse_ops rest
  | _ => []
  end.

Definition dispatch_c19 (ts : list tok) : list tok :=
  match ts with
  | t :: rest =>
    if is_word "c19" t then
      match parse_term (2 * List.length rest + 2) rest with
      | Some (tm, _ :: opsts) =>
        let (n, rs) := run (build tm) (parse_ops opsts) in
        map TN rs ++ [W "counts"] ++ map Tnat (counts n)
      | _ => [W "model-error"]
      end
    else [W "model-error"]
  | _ => [W "model-error"]
  end.
