(* Token interchange format shared by the extracted model drivers and the Go harness.
   A case is a list of tokens in, an observation is a list of tokens out. *)
From Coq Require Import List ZArith NArith String Ascii Bool.
Import ListNotations.
Open Scope N_scope.

Definition bytes := list N.

Inductive tok :=
| TI (z : Z)        (* decimal integer *)
| TB (b : bytes)    (* byte string, written #hex *)
| TW (w : bytes).   (* bare word, the list of its character codes *)

(* word literal *)
Definition wd (s : string) : bytes := map N_of_ascii (list_ascii_of_string s).
Definition W (s : string) : tok := TW (wd s).
Definition TN (n : N) : tok := TI (Z.of_N n).
Definition Tnat (n : nat) : tok := TI (Z.of_nat n).
Definition Tbool (b : bool) : tok := TI (if b then 1 else 0)%Z.

Fixpoint bytes_eqb (a b : bytes) : bool :=
  match a, b with
  | [], [] => true
  | x :: a', y :: b' => N.eqb x y && bytes_eqb a' b'
  | _, _ => false
  end.

Definition is_word (s : string) (t : tok) : bool :=
  match t with TW x => bytes_eqb x (wd s) | _ => false end.

(* results of modelled Go functions: value, error value, or a run-time panic *)
Inductive res (A : Type) :=
| Ok (a : A)
| Err (e : bytes)     (* error class as a word *)
| Panic (site : bytes).
Arguments Ok {A} a.
Arguments Err {A} e.
Arguments Panic {A} site.

Definition bind {A B} (r : res A) (f : A -> res B) : res B :=
  match r with Ok a => f a | Err e => Err e | Panic s => Panic s end.
Notation "'do' x <- r ;; k" := (bind r (fun x => k)) (at level 200, x name, r at level 100, k at level 200).
Notation "'do' ' p <- r ;; k" := (bind r (fun x => let 'p := x in k)) (at level 200, p pattern, r at level 100, k at level 200).

Definition wf_bytes (l : bytes) : Prop := Forall (fun b => b < 256) l.
Definition wf_bytesb (l : bytes) : bool := forallb (fun b => b <? 256) l.

Lemma wf_bytesb_spec l : wf_bytesb l = true <-> wf_bytes l.
Proof.
  unfold wf_bytesb, wf_bytes. rewrite forallb_forall, Forall_forall.
  split; intros H x Hx; specialize (H x Hx); apply N.ltb_lt; exact H.
Qed.

(* DNS-safe octet for C08: printable-or-high, never a dot, backslash, space, control character or DEL *)
Definition dns_safeb (b : N) : bool :=
  (33 <=? b) && (b <? 256) && negb (b =? 46) && negb (b =? 92) && negb (b =? 127).

Fixpoint nodupb (l : list N) : bool :=
  match l with
  | [] => true
  | x :: r => negb (existsb (N.eqb x) r) && nodupb r
  end.

(* an alphabet for w-bit digits: exactly 2^w distinct DNS-safe characters *)
Definition good_alpha (w : nat) (alpha : list N) : bool :=
  Nat.eqb (List.length alpha) (2 ^ w) && nodupb alpha && forallb dns_safeb alpha.

(* reverse in linear time (List.rev appends at the end at every step; the extracted models run on inputs of several thousand octets) *)
Definition frev {A} (l : list A) : list A := rev_append l [].
Lemma frev_rev {A} (l : list A) : frev l = rev l.
Proof. unfold frev. symmetry. apply rev_alt. Qed.
