From Coq Require Extraction.
From Coq Require Import ExtrOcamlBasic.
From SA Require Import Base.Tok Cfg.TlsCfg.
Definition dispatch := dispatch_c05.
Extraction "model.ml" dispatch.
