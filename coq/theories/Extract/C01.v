From Coq Require Extraction.
From Coq Require Import ExtrOcamlBasic.
From SA Require Import Base.Tok Mux.Runtime.
Definition dispatch := dispatch_runtime.
Extraction "model.ml" dispatch.
