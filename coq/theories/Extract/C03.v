From Coq Require Extraction.
From Coq Require Import ExtrOcamlBasic.
From SA Require Import Base.Tok Mux.Routing.
Definition dispatch := dispatch_c03.
Extraction "model.ml" dispatch.
