From Coq Require Extraction.
From Coq Require Import ExtrOcamlBasic.
From SA Require Import Base.Tok Nego.Dispatch.
Definition dispatch := dispatch_c11.
Extraction "model.ml" dispatch.
