From Coq Require Extraction.
From Coq Require Import ExtrOcamlBasic.
From SA Require Import Base.Tok Mux.Policy.
Definition dispatch := dispatch_c16.
Extraction "model.ml" dispatch.
