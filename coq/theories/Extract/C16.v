From Coq Require Extraction.
From Coq Require Import ExtrOcamlBasic.
From SA Require Import Base.Tok Mux.Policy Mux.Connect.
Definition dispatch := dispatch_c16_all.
Extraction "model.ml" dispatch.
