From Coq Require Extraction.
From Coq Require Import ExtrOcamlBasic.
From SA Require Import Base.Tok.
From SA.Hs Require Import Parse Machine.
Definition dispatch := dispatch_c06.
Extraction "model.ml" dispatch.
