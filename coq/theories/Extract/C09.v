From Coq Require Extraction.
From Coq Require Import ExtrOcamlBasic.
From SA.Wire Require Import Name Requests.
Definition dispatch := dispatch_c09.
Extraction "model.ml" dispatch.
