From Coq Require Extraction.
From Coq Require Import ExtrOcamlBasic.
From SA Require Import Base.Tok Queue.Queues Queue.Link.
Definition dispatch := dispatch_c07.
Extraction "model.ml" dispatch.
