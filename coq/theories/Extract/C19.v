From Coq Require Extraction.
From Coq Require Import ExtrOcamlBasic.
From SA Require Import Base.Tok Wrappers.Tree.
Definition dispatch := dispatch_c19.
Extraction "model.ml" dispatch.
