From Coq Require Extraction.
From Coq Require Import ExtrOcamlBasic.
From SA Require Import Base.Tok Codec.Codec.
Definition dispatch := dispatch_c08.
Extraction "model.ml" dispatch.
