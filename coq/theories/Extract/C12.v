From Coq Require Extraction.
From Coq Require Import ExtrOcamlBasic.
From SA Require Import Base.Tok.
From SA.Srv Require Import Server.
Definition dispatch := dispatch_c12.
Extraction "model.ml" dispatch.
