From Coq Require Extraction.
From Coq Require Import ExtrOcamlBasic.
From SA Require Import Base.Tok Cfg.Schemes.
Definition dispatch := dispatch_c18.
Extraction "model.ml" dispatch.
