From Coq Require Extraction.
From Coq Require Import ExtrOcamlBasic.
From SA Require Import Base.Tok.
From SA.Wrap Require Import Wrap Responses.
Definition dispatch := dispatch_c10.
Extraction "model.ml" dispatch.
