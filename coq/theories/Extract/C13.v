From Coq Require Extraction.
From Coq Require Import ExtrOcamlBasic.
From SA Require Import Base.Tok Queue.Queues Sessions.UserTable.
Definition dispatch := dispatch_c13.
Extraction "model.ml" dispatch.
