From Coq Require Extraction.
From Coq Require Import ExtrOcamlBasic.
From SA Require Import Base.Tok Cfg.Security.
Definition dispatch := dispatch_c04.
Extraction "model.ml" dispatch.
