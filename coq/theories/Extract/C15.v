From Coq Require Extraction.
From Coq Require Import ExtrOcamlBasic.
From Coq Require Import List String.
Open Scope string_scope.
From SA Require Import Base.Tok Mux.Runtime Mux.EndpointRun.
Definition dispatch (ts : list tok) : list tok :=
  match ts with
  | op :: _ => if is_word "c15m" op then dispatch_c15m ts else dispatch_runtime ts
  | nil => dispatch_runtime ts
  end.
Extraction "model.ml" dispatch.
