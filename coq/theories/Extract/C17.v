From Coq Require Extraction.
From Coq Require Import ExtrOcamlBasic.
From Coq Require Import Bool List String.
Open Scope string_scope.
From SA Require Import Base.Tok Mux.Runtime Queue.Close.
Definition dispatch (ts : list tok) : list tok :=
  match ts with
  | op :: _ => if is_word "c17q" op || is_word "c17qd" op then dispatch_c17q ts else if is_word "c17p" op then dispatch_c17p ts else dispatch_runtime ts
  | nil => dispatch_runtime ts
  end.
Extraction "model.ml" dispatch.
