(* C09, request layer: the command table, the request header, the six request layouts, the serializer
   (UseMultiQuery = false), getUpstreamMtu, and the harness protocol.  Definitions only. *)
From Coq Require Import List NArith ZArith Bool String Arith.
From SA Require Import Base.Tok Codec.Bits Codec.Codec Gen.Alphabets.
From SA.Wire Require Import Name.
Import ListNotations.
Open Scope N_scope.
Local Notation length := List.length.

(* ------------------------------------------------------------------ *)
(* requests *)

Inductive request :=
| RVersion (version : N)
| RPacket (uid ack : N) (pkt : option (N * bytes))                 (* Packet: SeqNo, Data *)
| RSetOptions (uid : N) (lazy multi closed : option bool) (down up : option codec) (frag : option N)
| RFragSize (uid size : N)
| RUpTest (uid : N) (pattern : bytes)
| RDownTest (down : codec).

(* commands.Commands, in order: code, NeedsUserId, which request NewRequest builds (None = nil func) *)
Inductive kind := KVersion | KSetOptions | KFragSize | KDownTest | KUpTest | KPacket.

Record command := { cmd_code : N; cmd_needs_uid : bool; cmd_new : option kind }.

Definition cmd_version  := {| cmd_code := 118; cmd_needs_uid := false; cmd_new := Some KVersion |}.    (* 'v' *)
Definition cmd_login    := {| cmd_code := 108; cmd_needs_uid := false; cmd_new := None |}.             (* 'l' *)
Definition cmd_options  := {| cmd_code := 111; cmd_needs_uid := true;  cmd_new := Some KSetOptions |}. (* 'o' *)
Definition cmd_fragsize := {| cmd_code := 114; cmd_needs_uid := true;  cmd_new := Some KFragSize |}.   (* 'r' *)
Definition cmd_downtest := {| cmd_code := 121; cmd_needs_uid := false; cmd_new := Some KDownTest |}.   (* 'y' *)
Definition cmd_uptest   := {| cmd_code := 122; cmd_needs_uid := true;  cmd_new := Some KUpTest |}.     (* 'z' *)
Definition cmd_multiq   := {| cmd_code := 109; cmd_needs_uid := false; cmd_new := None |}.             (* 'm' *)
Definition cmd_packet   := {| cmd_code := 99;  cmd_needs_uid := true;  cmd_new := Some KPacket |}.     (* 'c' *)
Definition cmd_error    := {| cmd_code := 101; cmd_needs_uid := false; cmd_new := None |}.             (* 'e' *)

Definition commands : list command :=
  [cmd_version; cmd_login; cmd_options; cmd_fragsize; cmd_downtest; cmd_uptest; cmd_multiq; cmd_packet; cmd_error].

Definition command_of (r : request) : command :=
  match r with
  | RVersion _ => cmd_version
  | RPacket _ _ _ => cmd_packet
  | RSetOptions _ _ _ _ _ _ _ => cmd_options
  | RFragSize _ _ => cmd_fragsize
  | RUpTest _ _ => cmd_uptest
  | RDownTest _ => cmd_downtest
  end.

(* strings.ToLower(string(data[0:1]))[0]: ASCII upper case is lowered; an octet >= 128 is not valid
   UTF-8 on its own and becomes U+FFFD, whose first octet is 0xEF *)
Definition lower_first (b : N) : N :=
  if (65 <=? b) && (b <=? 90) then b + 32 else if 128 <=? b then 239 else b.

(* Command.IsOfType on a non-empty slice *)
Definition is_of_type (c : command) (b : N) : bool := (b =? cmd_code c) || (lower_first b =? cmd_code c).

(* ------------------------------------------------------------------ *)
(* header *)

Definition digit36 (d : N) : N := if d <? 10 then 48 + d else 87 + d.     (* strconv.FormatInt(.., 36) *)
Definition max_user_id : N := 1296.
Definition encode_user_id (uid : N) : bytes :=
  let u := uid mod max_user_id in [digit36 (u / 36); digit36 (u mod 36)].

(* r: the three cache characters of randomChars *)
Definition encode_header (c : command) (uid : N) (r : bytes) : bytes :=
  cmd_code c :: r ++ (if cmd_needs_uid c then encode_user_id uid else []).

(* strconv.ParseUint(s, 36, 16) on a two-character string *)
Definition undigit36 (c : N) : option N :=
  if (48 <=? c) && (c <=? 57) then Some (c - 48)
  else if (97 <=? c) && (c <=? 122) then Some (c - 87)
  else if (65 <=? c) && (c <=? 90) then Some (c - 55)
  else None.

(* DecodeRequestHeader after ValidateType has succeeded: a request shorter than the four octets of command
   letter and cache characters, or (for a command that carries one) shorter than the user id behind them,
   is an error ("Request too short"); so is a user id that ParseUint(.., 36, 16) does not accept. *)
Definition decode_header (c : command) (req : bytes) : res (bytes * N) :=
  match req with
  | _ :: _ :: _ :: _ :: rest =>
    if cmd_needs_uid c then
      match rest with
      | a :: b :: rest' =>
        match undigit36 a, undigit36 b with
        | Some x, Some y => Ok (rest', x * 36 + y)
        | _, _ => Err (wd "syntax")
        end
      | _ => Err (wd "short")
      end
    else Ok (rest, 0)
  | _ => Err (wd "short")
  end.

(* ------------------------------------------------------------------ *)
(* encoding/binary little endian; bytes.Buffer *)

Definition le16 (n : N) : bytes := [n mod 256; (n / 256) mod 256].
Definition le32 (n : N) : bytes := [n mod 256; (n / 256) mod 256; (n / 65536) mod 256; (n / 16777216) mod 256].

(* binary.Read of a uint16 / uint32: io.EOF or io.ErrUnexpectedEOF on a short buffer *)
Definition read_le16 (b : bytes) : res (N * bytes) :=
  match b with
  | x :: y :: rest => Ok (x + 256 * y, rest)
  | _ => Err (wd "eof")
  end.
Definition read_le32 (b : bytes) : res (N * bytes) :=
  match b with
  | x :: y :: z :: u :: rest => Ok (x + 256 * y + 65536 * z + 16777216 * u, rest)
  | _ => Err (wd "eof")
  end.
Definition read_byte (b : bytes) : res (N * bytes) :=
  match b with
  | x :: rest => Ok (x, rest)
  | [] => Err (wd "eof")
  end.

(* ------------------------------------------------------------------ *)
(* Encode *)

Definition write_bool (b : option bool) : N :=
  match b with None => 255 | Some true => 1 | Some false => 0 end.
Definition codec_byte (c : option codec) : N :=
  match c with None => 32 | Some e => code e end.
Definition no_size : N := 4294967295.

Definition encode_request (e : codec) (req : request) (r : bytes) : bytes :=
  match req with
  | RVersion v => encode_header cmd_version 0 r ++ encode Base32 (le32 v)
  | RPacket uid ack pkt =>
    let body := le16 ack ++ match pkt with
                            | Some (seq, data) => 255 :: le16 seq ++ data
                            | None => [0]
                            end in
    encode_header cmd_packet uid r ++ encode e body
  | RSetOptions uid lz mq cl down up frag =>
    let body := [write_bool lz; write_bool mq; write_bool cl; codec_byte down; codec_byte up]
                ++ le32 (match frag with Some f => f | None => no_size end) in
    encode_header cmd_options uid r ++ encode Base32 body
  | RFragSize uid size => encode_header cmd_fragsize uid r ++ encode Base32 (le32 size)
  | RUpTest uid pattern => encode_header cmd_uptest uid r ++ pattern
  | RDownTest d => encode_header cmd_downtest 0 r ++ [code d]
  end.

(* ------------------------------------------------------------------ *)
(* Decode *)

Definition read_bool (b : bytes) : res (option bool * bytes) :=
  do '(v, rest) <- read_byte b ;;
  Ok (if v =? 1 then Some true else if v =? 0 then Some false else None, rest).

(* enc.FromCode on an octet read from the buffer, unless it is ' ' *)
Definition read_codec (b : bytes) : res (option codec * bytes) :=
  do '(v, rest) <- read_byte b ;;
  if v =? 32 then Ok (None, rest)
  else match from_code v with
       | Some c => Ok (Some c, rest)
       | None => Err (wd "codec")
       end.

(* SetOptionsRequest.Decode after the header: a body that ends inside the three flags is accepted
   (`return nil`) with the fields read so far *)
Definition decode_options (uid : N) (body : bytes) : res request :=
  match read_bool body with
  | Err _ => Ok (RSetOptions uid None None None None None None)
  | Panic s => Panic s
  | Ok (lz, b1) =>
    match read_bool b1 with
    | Err _ => Ok (RSetOptions uid lz None None None None None)
    | Panic s => Panic s
    | Ok (mq, b2) =>
      match read_bool b2 with
      | Err _ => Ok (RSetOptions uid lz mq None None None None)
      | Panic s => Panic s
      | Ok (cl, b3) =>
        do '(down, b4) <- read_codec b3 ;;
        do '(up, b5) <- read_codec b4 ;;
        do '(f, _) <- read_le32 b5 ;;
        Ok (RSetOptions uid lz mq cl down up (if f =? no_size then None else Some f))
      end
    end
  end.

Definition decode_packet (uid : N) (body : bytes) : res request :=
  do '(ack, b1) <- read_le16 body ;;
  do '(has, b2) <- read_byte b1 ;;
  if N.land has 1 =? 0 then Ok (RPacket uid ack None)
  else
    do '(seq, data) <- read_le16 b2 ;;
    Ok (RPacket uid ack (Some (seq, data))).

Definition decode_kind (e : codec) (k : kind) (c : command) (req : bytes) : res request :=
  do '(rest, uid) <- decode_header c req ;;
  match k with
  | KVersion =>
    do d <- decode Base32 rest ;;
    do '(v, _) <- read_le32 d ;; Ok (RVersion v)
  | KPacket =>
    do d <- decode e rest ;; decode_packet uid d
  | KSetOptions =>
    do d <- decode Base32 rest ;; decode_options uid d
  | KFragSize =>
    do d <- decode Base32 rest ;;
    do '(v, _) <- read_le32 d ;; Ok (RFragSize uid v)
  | KUpTest => Ok (RUpTest uid rest)
  | KDownTest =>
    match rest with
    | [] => Err (wd "nocodec")                              (* "Missing downstream encoder code" *)
    | b :: _ =>
      match from_code b with
      | Some c => Ok (RDownTest c)
      | None => Err (wd "codec")
      end
    end
  end.

(* Serializer.DecodeDnsRequest.  On an empty request IsOfType answers false for every command; a reserved
   command (login, multi-query, error) has no NewRequest and leaves the loop: both end in the "Invalid request"
   error. *)
Definition decode_request (e : codec) (x : bytes) : res request :=
  match x with
  | [] => Err (wd "command")
  | b :: _ =>
    match find (fun c => is_of_type c b) commands with
    | None => Err (wd "command")
    | Some c =>
      match cmd_new c with
      | None => Err (wd "command")                          (* c.NewRequest == nil *)
      | Some k => decode_kind e k c x
      end
    end
  end.

(* ------------------------------------------------------------------ *)
(* Serializer.EncodeDnsRequestWithParams with UseMultiQuery = false *)

Definition encode_dns_request (e : codec) (dom : bytes) (req : request) (r : bytes) : res bytes :=
  prepare_hostname (encode_request e req r) dom.

Definition cache0 : bytes := [97; 97; 97].

Definition fits (dom : bytes) (e : codec) (req : request) : bool :=
  fits_len (length (encode_request e req cache0)) (length dom).

(* client serializer -> wire -> server serializer *)
Definition wire_roundtrip (e : codec) (dom : bytes) (req : request) (r : bytes) : res request :=
  do name <- encode_dns_request e dom req r ;;
  do w <- pack_name name ;;
  do name' <- unpack_name w ;;
  do x <- compose_request name' dom ;;
  decode_request e x.

Definition reduce_uid (uid : N) : N := uid mod max_user_id.

(* the request as the server sees it: the user id is reduced mod 1296; the fragment size 0xFFFFFFFF
   is the encoding of "no size" *)
Definition normalise (req : request) : request :=
  match req with
  | RVersion v => RVersion v
  | RPacket uid ack pkt => RPacket (reduce_uid uid) ack pkt
  | RSetOptions uid lz mq cl down up frag =>
    RSetOptions (reduce_uid uid) lz mq cl down up
                (match frag with Some f => if f =? no_size then None else Some f | None => None end)
  | RFragSize uid size => RFragSize (reduce_uid uid) size
  | RUpTest uid p => RUpTest (reduce_uid uid) p
  | RDownTest d => RDownTest d
  end.

(* ------------------------------------------------------------------ *)
(* ClientDnsConnection.getUpstreamMtu with UseMultiQuery = false, in exact rationals:
     space = ((253 - len(domain) - 2 - 4) / ratio - 10) * (1 - 1/60), floor, converted to uint32 *)
Definition upstream_mtu_z (dlen : nat) (e : codec) : Z :=
  let num := Z.of_N (ratio_num e) in
  let den := Z.of_N (ratio_den e) in
  let a := ((Z.of_nat hostname_maxlen - Z.of_nat dlen - 2 - 4) * den - 10 * num)%Z in   (* (space - 10) * num *)
  ((a * 59) / (num * 60))%Z.

Definition upstream_mtu_len (dlen : nat) (e : codec) : nat := Z.to_nat (upstream_mtu_z dlen e).
Definition upstream_mtu (dom : bytes) (e : codec) : nat := upstream_mtu_len (length dom) e.

(* ------------------------------------------------------------------ *)
(* harness protocol *)

Definition opt_bool_of (z : Z) : option bool := if (z =? 2)%Z then None else Some (z =? 1)%Z.
Definition opt_bool_tok (b : option bool) : tok :=
  match b with None => TI 2 | Some b => Tbool b end.
Definition codec_of_z (z : Z) : option codec := from_code (Z.to_N (z mod 256)).
Definition codec_tok (c : option codec) : tok :=
  match c with None => TI 32 | Some c => TN (code c) end.
Definition u16 (z : Z) : N := Z.to_N (z mod 65536).
Definition u32 (z : Z) : N := Z.to_N (z mod 4294967296).

Definition parse_req (ts : list tok) : option request :=
  match ts with
  | [TW k; TI v] =>
    if bytes_eqb k (wd "ver") then Some (RVersion (u32 v))
    else if bytes_eqb k (wd "down") then
      match codec_of_z v with Some c => Some (RDownTest c) | None => None end
    else None
  | [TW k; TI uid; TI ack; TI has; TI seq; TB data] =>
    if bytes_eqb k (wd "pkt") then
      Some (RPacket (u16 uid) (u16 ack) (if (has =? 1)%Z then Some (u16 seq, data) else None))
    else None
  | [TW k; TI uid; TI lz; TI mq; TI cl; TI down; TI up; TI frag] =>
    if bytes_eqb k (wd "opt") then
      match (if (down =? 32)%Z then Some None else option_map Some (codec_of_z down)),
            (if (up =? 32)%Z then Some None else option_map Some (codec_of_z up)) with
      | Some d, Some u =>
        Some (RSetOptions (u16 uid) (opt_bool_of lz) (opt_bool_of mq) (opt_bool_of cl) d u
                          (if (0 <=? frag)%Z then Some (u32 frag) else None))
      | _, _ => None
      end
    else None
  | [TW k; TI uid; TI size] =>
    if bytes_eqb k (wd "frag") then Some (RFragSize (u16 uid) (u32 size)) else None
  | [TW k; TI uid; TB p] =>
    if bytes_eqb k (wd "up") then Some (RUpTest (u16 uid) p) else None
  | _ => None
  end.

Definition req_toks (r : request) : list tok :=
  match r with
  | RVersion v => [W "ver"; TN v]
  | RPacket uid ack (Some (seq, data)) => [W "pkt"; TN uid; TN ack; TI 1; TN seq; TB data]
  | RPacket uid ack None => [W "pkt"; TN uid; TN ack; TI 0; TI 0; TB []]
  | RSetOptions uid lz mq cl down up frag =>
    [W "opt"; TN uid; opt_bool_tok lz; opt_bool_tok mq; opt_bool_tok cl; codec_tok down; codec_tok up;
     match frag with Some f => TN f | None => TI (-1) end]
  | RFragSize uid size => [W "frag"; TN uid; TN size]
  | RUpTest uid p => [W "up"; TN uid; TB p]
  | RDownTest d => [W "down"; TN (code d)]
  end.

Definition c09_obs (e : codec) (qt : N) (dom : bytes) (req : request) : list tok :=
  match encode_dns_request e dom req cache0 with
  | Err _ => [W "encerr"; W "toolong"]
  | Panic s => [W "panic"; TW s]
  | Ok name =>
    let pre := [W "name"; Tnat (name_total name); Tnat (max_label name)] in
    match pack_question name qt with
    | Panic s => [W "panic"; TW s]
    | Err _ => pre ++ [W "packerr"]
    | Ok w =>
      match unpack_question w with
      | Panic s => [W "panic"; TW s]
      | Err _ => pre ++ [W "unpackerr"]
      | Ok (name', qt') =>
        let pre2 := pre ++ [W "wire"; TI 1; TN qt'] in
        match compose_request name' dom with
        | Panic s => [W "panic"; TW s]
        | Err _ => [W "model-limit"]
        | Ok x =>
          match decode_request e x with
          | Panic s => [W "panic"; TW s]
          | Err _ => pre2 ++ [W "decerr"]
          | Ok got => pre2 ++ req_toks got
          end
        end
      end
    end
  end.

Definition dispatch_c09 (ts : list tok) : list tok :=
  match ts with
  | [t; TI k; TB dom] =>
    if is_word "mtu" t then
      match codec_of_z k with
      | Some e => [TI ((upstream_mtu_z (length dom) e) mod 4294967296)%Z]
      | None => [W "model-error"]
      end
    else [W "model-error"]
  | t :: TI k :: TI qt :: TB dom :: rest =>
    if is_word "c09" t then
      match codec_of_z k, parse_req rest with
      | Some e, Some req => c09_obs e (u16 qt) dom req
      | _, _ => [W "model-error"]
      end
    else [W "model-error"]
  | _ => [W "model-error"]
  end.

(* ------------------------------------------------------------------ *)
(* hypotheses of the theorems *)

(* the upstream codecs the client can commit to *)
Definition selectable_up (c : codec) : bool :=
  match c with
  | Base32 | Base64 | Base64u | Base85 | Base91 | Base128 => true
  | Base192 | Raw => false
  end.

Definition base36_char (b : N) : bool := ((97 <=? b) && (b <=? 122)) || ((48 <=? b) && (b <=? 57)).
Definition cache_ok (r : bytes) : bool := (length r =? 3)%nat && forallb base36_char r.

(* field ranges of the Go types (uint16, uint32, []byte); an upstream probe pattern must not contain a
   dot or a backslash *)
Definition req_wf (req : request) : bool :=
  match req with
  | RVersion v => v <? 4294967296
  | RPacket uid ack pkt =>
    (uid <? 65536) && (ack <? 65536) &&
    match pkt with Some (seq, data) => (seq <? 65536) && wf_bytesb data | None => true end
  | RSetOptions uid _ _ _ _ _ frag =>
    (uid <? 65536) && match frag with Some f => f <? 4294967296 | None => true end
  | RFragSize uid size => (uid <? 65536) && (size <? 4294967296)
  | RUpTest uid p => (uid <? 65536) && wire_ok p
  | RDownTest _ => true
  end.

Definition is_panic {A} (r : res A) : bool := match r with Panic _ => true | _ => false end.
