(* C09, name layer proofs. *)
From Coq Require Import List NArith ZArith Bool Arith Lia.
From Coq Require Import ZifyN ZifyNat ZifyBool.
From SA Require Import Base.Tok Codec.Bits_proofs.
From SA.Wire Require Import Name.
Import ListNotations.
Open Scope N_scope.
Local Notation length := List.length.
Ltac Zify.zify_post_hook ::= Z.div_mod_to_equations.

(* ------------------------------------------------------------------ *)
(* labels and names *)

Definition name_of (ls : list bytes) : bytes := flat_map (fun l => l ++ [c_dot]) ls.

Definition nodot (l : bytes) : Prop := Forall (fun b => b <> c_dot) l.
Definition plain (l : bytes) : Prop := Forall (fun b => b <> c_dot /\ b <> c_bsl) l.

Lemma name_of_app a b : name_of (a ++ b) = name_of a ++ name_of b.
Proof. unfold name_of. apply flat_map_app. Qed.

Lemma name_of_length ls : length (name_of ls) = fold_right (fun l n => (length l + 1 + n)%nat) O ls.
Proof.
  induction ls as [|l ls IH]; [reflexivity|].
  cbn [name_of flat_map fold_right]. rewrite !app_length. fold (name_of ls). rewrite IH. cbn [length]. lia.
Qed.

(* ------------------------------------------------------------------ *)
(* Dotify *)

Fixpoint chunks (fuel : nat) (buf : bytes) : list bytes :=
  match fuel with
  | O => [buf]
  | S f => if (57 <? length buf)%nat then firstn 57 buf :: chunks f (skipn 57 buf) else [buf]
  end.

Lemma dotify_chunks fuel : forall buf, dotify_fuel fuel buf ++ [c_dot] = name_of (chunks fuel buf).
Proof.
  induction fuel as [|f IH]; intros buf; cbn [dotify_fuel chunks].
  - cbn. rewrite app_nil_r. reflexivity.
  - destruct (57 <? length buf)%nat.
    + cbn [name_of flat_map]. fold (name_of (chunks f (skipn 57 buf))). rewrite <- IH.
      rewrite <- !app_assoc. reflexivity.
    + cbn. rewrite app_nil_r. reflexivity.
Qed.

Lemma chunks_concat fuel : forall buf, concat (chunks fuel buf) = buf.
Proof.
  induction fuel as [|f IH]; intros buf; cbn [chunks].
  - cbn. apply app_nil_r.
  - destruct (57 <? length buf)%nat.
    + cbn [concat]. rewrite IH. apply firstn_skipn.
    + cbn. apply app_nil_r.
Qed.

Lemma chunks_len fuel : forall buf, (length buf <= fuel)%nat -> (1 <= length buf)%nat ->
  Forall (fun l => (1 <= length l <= 57)%nat) (chunks fuel buf).
Proof.
  induction fuel as [|f IH]; intros buf Hf Hn; cbn [chunks].
  - lia.
  - destruct (Nat.ltb_spec 57 (length buf)).
    + constructor.
      * rewrite firstn_length. lia.
      * apply IH; rewrite skipn_length; lia.
    + constructor; [lia | constructor].
Qed.

Lemma chunks_elems (P : N -> Prop) fuel : forall buf, Forall P buf -> Forall (Forall P) (chunks fuel buf).
Proof.
  induction fuel as [|f IH]; intros buf H; cbn [chunks].
  - constructor; [exact H | constructor].
  - destruct (57 <? length buf)%nat.
    + constructor.
      * rewrite <- (firstn_skipn 57 buf) in H. apply Forall_app in H. apply H.
      * apply IH. rewrite <- (firstn_skipn 57 buf) in H. apply Forall_app in H. apply H.
    + constructor; [exact H | constructor].
Qed.

Lemma chunks_nonnil fuel buf : chunks fuel buf <> [].
Proof. destruct fuel; cbn [chunks]; [discriminate|]. destruct (57 <? length buf)%nat; discriminate. Qed.

Lemma dotify_fuel_length fuel : forall buf, (length buf <= fuel)%nat ->
  length (dotify_fuel fuel buf) = (length buf + (length buf - 1) / 57)%nat.
Proof.
  induction fuel as [|f IH]; intros buf Hf; cbn [dotify_fuel].
  - assert (length buf = 0)%nat by lia. rewrite H. reflexivity.
  - destruct (Nat.ltb_spec 57 (length buf)).
    + rewrite app_length. cbn [length]. rewrite IH by (rewrite skipn_length; lia).
      rewrite firstn_length, skipn_length. lia.
    + lia.
Qed.

Lemma dotify_length buf : length (dotify buf) = (length buf + (length buf - 1) / 57)%nat.
Proof. apply dotify_fuel_length. lia. Qed.

(* the labels PrepareHostname makes of the body *)
Definition body_labels (body : bytes) : list bytes :=
  if (label_maxlen <? length body)%nat then chunks (length body) body else [body].

Lemma body_labels_name body :
  (if (label_maxlen <? length body)%nat then dotify body else body) ++ [c_dot] = name_of (body_labels body).
Proof.
  unfold body_labels, dotify. destruct (label_maxlen <? length body)%nat.
  - apply dotify_chunks.
  - cbn. rewrite app_nil_r. reflexivity.
Qed.

Lemma body_labels_concat body : concat (body_labels body) = body.
Proof.
  unfold body_labels. destruct (label_maxlen <? length body)%nat.
  - apply chunks_concat.
  - cbn. apply app_nil_r.
Qed.

Lemma body_labels_len body : (1 <= length body)%nat ->
  Forall (fun l => (1 <= length l <= 60)%nat) (body_labels body).
Proof.
  intros Hn. unfold body_labels, label_maxlen. destruct (Nat.ltb_spec 60 (length body)).
  - eapply Forall_impl; [|apply chunks_len; lia]. cbv beta. intros; lia.
  - constructor; [lia | constructor].
Qed.

Lemma body_labels_elems (P : N -> Prop) body : Forall P body -> Forall (Forall P) (body_labels body).
Proof.
  intros H. unfold body_labels. destruct (label_maxlen <? length body)%nat.
  - apply chunks_elems, H.
  - constructor; [exact H | constructor].
Qed.

Lemma body_labels_nonnil body : body_labels body <> [].
Proof. unfold body_labels. destruct (label_maxlen <? length body)%nat; [apply chunks_nonnil | discriminate]. Qed.

Lemma dotted_len_spec body :
  length (if (label_maxlen <? length body)%nat then dotify body else body) = dotted_len (length body).
Proof.
  unfold dotted_len. destruct (label_maxlen <? length body)%nat; [apply dotify_length | reflexivity].
Qed.

(* ------------------------------------------------------------------ *)
(* packDomainName on names without escapes *)

Lemma pack_loop_other c t lab wd out :
  c <> c_bsl -> c <> c_dot -> pack_loop (c :: t) lab wd out = pack_loop t (c :: lab) false out.
Proof.
  intros H1 H2. cbn [pack_loop].
  rewrite (proj2 (N.eqb_neq _ _) H1), (proj2 (N.eqb_neq _ _) H2). reflexivity.
Qed.

Lemma pack_loop_dot t lab out :
  (length lab < 64)%nat -> pack_loop (c_dot :: t) lab false out = pack_loop t [] true (rev lab :: out).
Proof.
  intros H. cbn [pack_loop]. change (c_dot =? c_bsl) with false. change (c_dot =? c_dot) with true.
  cbv iota. destruct (Nat.leb_spec 64 (length lab)); [lia | reflexivity].
Qed.

Lemma pack_loop_plain l : plain l -> forall s lab wd out,
  pack_loop (l ++ s) lab wd out = pack_loop s (rev l ++ lab) (match l with [] => wd | _ => false end) out.
Proof.
  induction 1 as [|c l [Hc1 Hc2] Hl IH]; intros s lab wd out; [reflexivity|].
  cbn [app]. rewrite pack_loop_other by assumption. rewrite IH.
  cbn [rev]. rewrite <- app_assoc. cbn [app]. destruct l; reflexivity.
Qed.

Definition label_ok (l : bytes) : Prop := plain l /\ (1 <= length l <= 63)%nat.

Lemma pack_loop_labels ls : Forall label_ok ls -> forall wd out,
  pack_loop (name_of ls) [] wd out = Ok (rev out ++ ls).
Proof.
  induction 1 as [|l ls [Hp Hl] Hls IH]; intros wd out.
  - cbn. rewrite app_nil_r. reflexivity.
  - cbn [name_of flat_map]. fold (name_of ls). rewrite <- app_assoc. cbn [app].
    rewrite pack_loop_plain by exact Hp. rewrite app_nil_r.
    assert (E : match l with [] => wd | _ => false end = false) by (destruct l; [cbn in Hl; lia | reflexivity]).
    rewrite E. rewrite pack_loop_dot by (rewrite rev_length; lia).
    rewrite IH. rewrite rev_involutive. cbn [rev]. rewrite <- app_assoc. reflexivity.
Qed.

Lemma is_fqdn_ascii s x : x < 128 -> x <> c_bsl -> is_fqdn (s ++ [x; c_dot]) = true.
Proof.
  intros Hx Hb. unfold is_fqdn. rewrite rev_app_distr. cbn [rev app].
  change (c_dot =? c_dot) with true. cbv iota. cbn [count_bsl].
  rewrite (proj2 (N.eqb_neq _ _) Hb). cbn [skipn last_rune_width Nat.add].
  rewrite (proj2 (N.ltb_lt _ _) Hx). reflexivity.
Qed.

Lemma bytes_eqb_false_len a b : length a <> length b -> bytes_eqb a b = false.
Proof.
  revert b; induction a as [|x a IH]; intros [|y b] H; cbn in *; try reflexivity; try lia.
  rewrite IH by lia. apply andb_false_r.
Qed.

Lemma pack_name_labels ls s x :
  Forall label_ok ls -> name_of ls = s ++ [x; c_dot] -> x < 128 -> x <> c_bsl ->
  pack_name (name_of ls) = Ok (wire_of_labels ls ++ [0]).
Proof.
  intros Hls Hs Hx Hb. unfold pack_name.
  rewrite pack_loop_labels by exact Hls. cbn [rev app bind].
  rewrite Hs. rewrite is_fqdn_ascii by assumption.
  rewrite bytes_eqb_false_len by (rewrite app_length; cbn; lia).
  destruct (s ++ [x; c_dot]) eqn:E; [destruct s; discriminate | reflexivity].
Qed.

(* ------------------------------------------------------------------ *)
(* UnpackDomainName on what packDomainName wrote *)

Lemma land_192 c : c < 64 -> N.land c 192 = 0.
Proof.
  intros H. rewrite <- (N.mod_small c 64) by exact H. change 64 with (2 ^ 6).
  rewrite <- N.land_ones. rewrite <- N.land_assoc. change (N.land (N.ones 6) 192) with 0.
  apply N.land_0_r.
Qed.

Definition escaped_name (ls : list bytes) : bytes := flat_map (fun l => escape_label l ++ [c_dot]) ls.

Lemma unpack_loop_labels ls : Forall (fun l => (1 <= length l <= 63)%nat) ls ->
  forall fuel rest budget acc, (length ls < fuel)%nat -> (Z.of_nat (length (name_of ls)) < budget)%Z ->
  unpack_loop fuel (wire_of_labels ls ++ 0 :: rest) budget acc = Ok (acc ++ escaped_name ls, rest).
Proof.
  induction 1 as [|l ls Hl Hls IH]; intros fuel rest budget acc Hf Hb.
  - destruct fuel; [cbn in Hf; lia|]. cbn. rewrite app_nil_r. reflexivity.
  - destruct fuel as [|f]; [lia|].
    cbn [wire_of_labels flat_map]. fold (wire_of_labels ls). cbn [app unpack_loop].
    assert (Hc : N.of_nat (length l) <> 0) by lia.
    rewrite (proj2 (N.eqb_neq _ _) Hc).
    rewrite land_192 by lia. change (0 =? 0) with true. cbv iota.
    rewrite Nat2N.id. rewrite <- app_assoc.
    destruct (Nat.ltb_spec (length (l ++ wire_of_labels ls ++ 0 :: rest)) (length l)) as [Hlt|_];
      [rewrite app_length in Hlt; lia|].
    cbn [name_of flat_map] in Hb. fold (name_of ls) in Hb. rewrite !app_length in Hb. cbn [length] in Hb.
    destruct (Z.leb_spec (budget - (Z.of_N (N.of_nat (length l)) + 1)) 0) as [Hle|_]; [lia|].
    rewrite Bits_proofs.firstn_app_len, Bits_proofs.skipn_app_len.
    rewrite IH by (cbn [length] in Hf; lia).
    cbn [escaped_name flat_map]. fold (escaped_name ls). rewrite <- !app_assoc. reflexivity.
Qed.

Lemma wire_of_labels_length ls : (length ls <= length (wire_of_labels ls))%nat.
Proof.
  induction ls as [|l ls IH]; [cbn; lia|].
  cbn [wire_of_labels flat_map]. fold (wire_of_labels ls). cbn [length app]. rewrite app_length. lia.
Qed.

Lemma escaped_name_nonnil l ls : escaped_name (l :: ls) <> [].
Proof.
  cbn [escaped_name flat_map]. destruct (escape_label l); discriminate.
Qed.

Lemma unpack_name_rest_labels ls rest :
  ls <> [] -> Forall (fun l => (1 <= length l <= 63)%nat) ls -> (length (name_of ls) <= 254)%nat ->
  unpack_name_rest (wire_of_labels ls ++ 0 :: rest) = Ok (escaped_name ls, rest).
Proof.
  intros Hn Hls Hb. unfold unpack_name_rest.
  rewrite unpack_loop_labels; [| exact Hls | | lia].
  - cbn [bind app]. destruct ls as [|l ls]; [exfalso; apply Hn; reflexivity|].
    pose proof (escaped_name_nonnil l ls) as Hne.
    destruct (escaped_name (l :: ls)) eqn:E; [exfalso; apply Hne; exact E | reflexivity].
  - rewrite app_length. pose proof (wire_of_labels_length ls). cbn [length]. unfold bytes in *. lia.
Qed.

Lemma unpack_name_labels ls :
  ls <> [] -> Forall (fun l => (1 <= length l <= 63)%nat) ls -> (length (name_of ls) <= 254)%nat ->
  unpack_name (wire_of_labels ls ++ [0]) = Ok (escaped_name ls).
Proof.
  intros. unfold unpack_name. rewrite unpack_name_rest_labels by assumption. reflexivity.
Qed.

(* the question section is transparent: the name is unpacked as above and the query type is carried *)
Lemma question_labels ls s x qt :
  Forall label_ok ls -> name_of ls = s ++ [x; c_dot] -> x < 128 -> x <> c_bsl ->
  ls <> [] -> (length (name_of ls) <= 254)%nat -> qt < 65536 ->
  exists q, pack_question (name_of ls) qt = Ok q /\ unpack_question q = Ok (escaped_name ls, qt).
Proof.
  intros Hls Hs Hx Hb Hn Hlen Hq. unfold pack_question.
  rewrite (pack_name_labels ls s x) by assumption. cbn [bind].
  eexists; split; [reflexivity|]. unfold unpack_question. rewrite <- app_assoc. cbn [app].
  rewrite unpack_name_rest_labels; [| assumption | | assumption].
  - cbn [bind be16 app]. f_equal. f_equal. lia.
  - eapply Forall_impl; [|exact Hls]. cbv beta. intros l [_ H]. exact H.
Qed.

(* ------------------------------------------------------------------ *)
(* escaping and StripDomain *)

Lemma special_not_digit b : is_special b = true -> is_digit b = false.
Proof.
  unfold is_special, is_digit. intros H.
  repeat (apply orb_prop in H; destruct H as [H|H]); apply N.eqb_eq in H; subst; reflexivity.
Qed.

Lemma special_false b : is_special b = false -> b <> c_dot /\ b <> c_bsl.
Proof.
  unfold is_special. intros H. repeat (apply orb_false_elim in H; destruct H as [H ?]).
  split; apply N.eqb_neq; assumption.
Qed.

Lemma strip_loop_dot t acc : strip_loop (c_dot :: t) acc = strip_loop t acc.
Proof. reflexivity. Qed.

Lemma strip_loop_plain c t acc : c <> c_dot -> c <> c_bsl -> strip_loop (c :: t) acc = strip_loop t (c :: acc).
Proof.
  intros H1 H2. cbn [strip_loop].
  rewrite (proj2 (N.eqb_neq _ _) H1), (proj2 (N.eqb_neq _ _) H2). reflexivity.
Qed.

Lemma strip_loop_esc a rest acc : is_digit a = false ->
  strip_loop (c_bsl :: a :: rest) acc = strip_loop rest (a :: acc).
Proof.
  intros Ha. cbn [strip_loop]. change (c_bsl =? c_dot) with false. change (c_bsl =? c_bsl) with true.
  cbn [negb]. cbv iota. destruct rest as [|b [|d t']]; try reflexivity.
  rewrite Ha. reflexivity.
Qed.

Lemma strip_loop_ddd a b d rest acc : is_digit a = true -> is_digit b = true -> is_digit d = true ->
  strip_loop (c_bsl :: a :: b :: d :: rest) acc = strip_loop rest (ddd_to_byte a b d :: acc).
Proof.
  intros Ha Hb Hd. cbn [strip_loop]. change (c_bsl =? c_dot) with false. change (c_bsl =? c_bsl) with true.
  cbn [negb]. cbv iota. rewrite Ha, Hb, Hd. reflexivity.
Qed.

Lemma strip_escape_byte b rest acc : b < 256 ->
  strip_loop (escape_byte b ++ rest) acc = strip_loop rest (b :: acc).
Proof.
  intros Hb. unfold escape_byte. destruct (is_special b) eqn:Hs.
  - cbn [app]. apply strip_loop_esc, special_not_digit, Hs.
  - destruct (special_false b Hs) as [H1 H2].
    destruct ((b <? 32) || (126 <? b)) eqn:Hr.
    + cbn [app]. rewrite strip_loop_ddd.
      * f_equal. f_equal. unfold ddd_to_byte. lia.
      * unfold is_digit. lia.
      * unfold is_digit. lia.
      * unfold is_digit. lia.
    + cbn [app]. apply strip_loop_plain; assumption.
Qed.

Lemma strip_escape_label l : Forall (fun b => b < 256) l -> forall rest acc,
  strip_loop (escape_label l ++ rest) acc = strip_loop rest (rev l ++ acc).
Proof.
  induction 1 as [|b l Hb Hl IH]; intros rest acc; [reflexivity|].
  cbn [escape_label flat_map]. fold (escape_label l). rewrite <- app_assoc.
  rewrite strip_escape_byte by exact Hb. rewrite IH. cbn [rev]. rewrite <- app_assoc. reflexivity.
Qed.

Lemma strip_escaped_name ls : Forall (Forall (fun b => b < 256)) ls -> forall rest acc,
  strip_loop (escaped_name ls ++ rest) acc = strip_loop rest (rev (concat ls) ++ acc).
Proof.
  induction 1 as [|l ls Hl Hls IH]; intros rest acc; [reflexivity|].
  cbn [escaped_name flat_map]. fold (escaped_name ls). rewrite <- !app_assoc.
  rewrite strip_escape_label by exact Hl. cbn [app]. rewrite strip_loop_dot. rewrite IH.
  cbn [concat]. rewrite rev_app_distr, <- app_assoc. reflexivity.
Qed.

Lemma escape_byte_ascii b : b < 256 -> Forall (fun x => x < 128) (escape_byte b).
Proof.
  intros Hb. unfold escape_byte. destruct (is_special b) eqn:Hs.
  - unfold is_special in Hs.
    repeat (apply orb_prop in Hs; destruct Hs as [Hs|Hs]); apply N.eqb_eq in Hs; subst;
      repeat constructor.
  - destruct ((b <? 32) || (126 <? b)) eqn:Hr.
    + repeat constructor; unfold c_bsl; lia.
    + repeat constructor. lia.
Qed.

Lemma escaped_name_ascii ls : Forall (Forall (fun b => b < 256)) ls -> Forall (fun x => x < 128) (escaped_name ls).
Proof.
  induction 1 as [|l ls Hl Hls IH]; [constructor|].
  cbn [escaped_name flat_map]. fold (escaped_name ls). apply Forall_app; split; [|exact IH].
  apply Forall_app; split; [| repeat constructor].
  induction Hl as [|b l Hb Hl IHl]; [constructor|].
  cbn [escape_label flat_map]. apply Forall_app; split; [apply escape_byte_ascii, Hb | exact IHl].
Qed.

Lemma all_ascii_spec l : all_ascii l = true <-> Forall (fun x => x < 128) l.
Proof.
  unfold all_ascii. rewrite forallb_forall, Forall_forall.
  split; intros H x Hx; specialize (H x Hx); lia.
Qed.

(* domain labels are not touched by the escaping *)
Lemma dom_char_facts b : dom_char b = true ->
  b < 128 /\ b <> c_dot /\ b <> c_bsl /\ escape_byte b = [b] /\ lower_ascii b = b.
Proof.
  unfold dom_char, escape_byte, is_special, lower_ascii, c_dot, c_bsl. intros H.
  assert (Hr : (97 <= b <= 122) \/ (48 <= b <= 57) \/ b = 45) by lia.
  repeat split; try lia.
  - replace ((b =? 46) || (b =? 32) || (b =? 39) || (b =? 64) || (b =? 59) || (b =? 40) || (b =? 41) || (b =? 34) || (b =? 92)) with false by lia.
    replace ((b <? 32) || (126 <? b)) with false by lia. reflexivity.
  - replace ((65 <=? b) && (b <=? 90)) with false by lia. reflexivity.
Qed.

Lemma escape_label_dom l : forallb dom_char l = true -> escape_label l = l.
Proof.
  induction l as [|b l IH]; [reflexivity|]. cbn [forallb]. intros H. apply andb_prop in H. destruct H as [Hb Hl].
  cbn [escape_label flat_map]. fold (escape_label l). rewrite IH by exact Hl.
  destruct (dom_char_facts b Hb) as (_ & _ & _ & E & _). rewrite E. reflexivity.
Qed.

Lemma escaped_name_dom ls : Forall (fun l => forallb dom_char l = true) ls -> escaped_name ls = name_of ls.
Proof.
  induction 1 as [|l ls Hl Hls IH]; [reflexivity|].
  cbn [escaped_name name_of flat_map]. fold (escaped_name ls). fold (name_of ls).
  rewrite IH, escape_label_dom by exact Hl. reflexivity.
Qed.

(* ------------------------------------------------------------------ *)
(* splitting on dots *)

Lemma split_dots_join s : forall cur, name_of (split_dots s cur) = rev cur ++ s ++ [c_dot].
Proof.
  induction s as [|c s IH]; intros cur; cbn [split_dots].
  - cbn. rewrite app_nil_r. reflexivity.
  - destruct (N.eqb_spec c c_dot) as [->|Hc].
    + cbn [name_of flat_map]. fold (name_of (split_dots s [])). rewrite IH. cbn [rev app].
      rewrite <- app_assoc. reflexivity.
    + rewrite IH. cbn [rev]. rewrite <- app_assoc. reflexivity.
Qed.

Lemma split_dots_snoc s : forall cur, split_dots (s ++ [c_dot]) cur = split_dots s cur ++ [[]].
Proof.
  induction s as [|c s IH]; intros cur; cbn [split_dots app].
  - change (c_dot =? c_dot) with true. reflexivity.
  - destruct (c =? c_dot); rewrite IH; reflexivity.
Qed.

Lemma split_dots_nodot l : nodot l -> forall s cur, split_dots (l ++ s) cur = split_dots s (rev l ++ cur).
Proof.
  induction 1 as [|c l Hc Hl IH]; intros s cur; [reflexivity|].
  cbn [app split_dots]. rewrite (proj2 (N.eqb_neq _ _) Hc). rewrite IH. cbn [rev]. rewrite <- app_assoc. reflexivity.
Qed.

Lemma split_dots_name_of ls : Forall nodot ls -> split_dots (name_of ls) [] = ls ++ [[]].
Proof.
  induction 1 as [|l ls Hl Hls IH]; [reflexivity|].
  cbn [name_of flat_map]. fold (name_of ls). rewrite <- app_assoc.
  rewrite split_dots_nodot by exact Hl. cbn [app split_dots]. change (c_dot =? c_dot) with true. cbv iota.
  rewrite IH, app_nil_r, rev_involutive. reflexivity.
Qed.

Lemma name_of_snoc ls : ls <> [] -> exists s, name_of ls = s ++ [c_dot].
Proof.
  intros H. destruct (exists_last H) as (ls' & l & ->).
  rewrite name_of_app. cbn [name_of flat_map]. rewrite app_nil_r. exists (name_of ls' ++ l).
  fold (name_of ls'). rewrite app_assoc. reflexivity.
Qed.

Lemma trim_dot_snoc s : trim_dot (s ++ [c_dot]) = s.
Proof.
  unfold trim_dot. rewrite rev_app_distr. cbn [rev app]. change (c_dot =? c_dot) with true. cbv iota.
  apply rev_involutive.
Qed.

Lemma name_labels_name_of ls : ls <> [] -> Forall nodot ls -> name_labels (name_of ls) = ls.
Proof.
  intros Hn Hd. destruct (name_of_snoc ls Hn) as (s & Hs).
  unfold name_labels. rewrite Hs, trim_dot_snoc.
  pose proof (split_dots_name_of ls Hd) as H. rewrite Hs, split_dots_snoc in H.
  apply app_inj_tail in H. apply H.
Qed.

Lemma name_total_name_of ls : ls <> [] -> name_total (name_of ls) = (length (name_of ls) - 1)%nat.
Proof.
  intros Hn. destruct (name_of_snoc ls Hn) as (s & Hs). unfold name_total. rewrite Hs, trim_dot_snoc.
  rewrite app_length. cbn. lia.
Qed.

(* ------------------------------------------------------------------ *)
(* StripDomain on what the resolver path delivers *)

Lemma is_prefix_app p q : is_prefix p (p ++ q) = true.
Proof. induction p as [|x p IH]; [destruct q; reflexivity|]. cbn. rewrite N.eqb_refl, IH. reflexivity. Qed.

Lemma has_suffix_app a suf : has_suffix (a ++ suf) suf = true.
Proof. unfold has_suffix. rewrite rev_app_distr. apply is_prefix_app. Qed.

Lemma escaped_name_app a b : escaped_name (a ++ b) = escaped_name a ++ escaped_name b.
Proof. unfold escaped_name. apply flat_map_app. Qed.

Lemma escaped_name_one l : escaped_name [l] = escape_label l ++ [c_dot].
Proof. unfold escaped_name. cbn [flat_map]. apply app_nil_r. Qed.

Lemma strip_domain_escaped bl dom :
  bl <> [] -> Forall (Forall (fun b => b < 256)) bl -> all_ascii dom = true ->
  strip_domain (escaped_name bl ++ dom ++ [c_dot]) dom = Ok (concat bl).
Proof.
  intros Hn Hbl Hd. destruct (exists_last Hn) as (bl' & bx & ->).
  apply Forall_app in Hbl. destruct Hbl as [Hbl' Hbx]. inversion Hbx as [|? ? Hbx' _]; subst.
  rewrite escaped_name_app, escaped_name_one.
  set (Y := escaped_name bl' ++ escape_label bx).
  assert (EY : (escaped_name bl' ++ escape_label bx ++ [c_dot]) ++ dom ++ [c_dot] = Y ++ c_dot :: dom ++ [c_dot]).
  { unfold Y. rewrite <- !app_assoc. reflexivity. }
  rewrite EY. unfold strip_domain, cut_domain.
  assert (HY : Forall (fun x => x < 128) Y).
  { unfold Y. apply Forall_app. split.
    - apply escaped_name_ascii, Hbl'.
    - pose proof (escaped_name_ascii [bx] (Forall_cons _ Hbx' (Forall_nil _))) as H.
      cbn [escaped_name flat_map] in H. rewrite app_nil_r in H. apply Forall_app in H. apply H. }
  assert (HA : all_ascii (Y ++ c_dot :: dom ++ [c_dot]) = true).
  { apply all_ascii_spec. apply Forall_app. split; [exact HY|].
    constructor; [reflexivity|]. apply Forall_app. split; [apply all_ascii_spec, Hd | repeat constructor]. }
  rewrite HA, Hd. cbn [andb].
  rewrite map_app. cbn [map]. rewrite map_app. cbn [map].
  change (lower_ascii c_dot) with c_dot. rewrite has_suffix_app.
  replace (length (Y ++ c_dot :: dom ++ [c_dot]) - (length dom + 2))%nat with (length Y)
    by (rewrite app_length; cbn [length]; rewrite app_length; cbn [length]; lia).
  rewrite firstn_app_len.
  unfold Y. rewrite strip_escaped_name by exact Hbl'.
  rewrite <- (app_nil_r (escape_label bx)). rewrite strip_escape_label by exact Hbx'.
  cbn [strip_loop]. rewrite !app_nil_r. rewrite rev_app_distr, !rev_involutive.
  rewrite concat_app. cbn [concat]. rewrite app_nil_r. reflexivity.
Qed.

(* ------------------------------------------------------------------ *)
(* facts about well-formed domains and bodies *)

Lemma dom_ok_facts dom : dom_ok dom = true ->
  (1 <= length dom <= 200)%nat /\
  Forall (fun l => forallb dom_char l = true /\ (1 <= length l <= 63)%nat) (split_dots dom []).
Proof.
  unfold dom_ok. intros H. apply andb_prop in H. destruct H as [H H3]. apply andb_prop in H. destruct H as [H1 H2].
  split; [lia|]. rewrite forallb_forall in H3. apply Forall_forall. intros l Hl. specialize (H3 l Hl).
  unfold dom_label_ok in H3. apply andb_prop in H3. destruct H3 as [H3 H6]. apply andb_prop in H3. destruct H3 as [H4 H5].
  split; [exact H6 | lia].
Qed.

Lemma forallb_dom_char_plain l : forallb dom_char l = true -> plain l /\ Forall (fun b => b < 128) l.
Proof.
  rewrite forallb_forall. intros H. split; apply Forall_forall; intros b Hb;
    destruct (dom_char_facts b (H b Hb)) as (? & ? & ? & _); auto.
Qed.

Lemma dom_ascii dom : dom_ok dom = true -> all_ascii dom = true.
Proof.
  intros H. destruct (dom_ok_facts dom H) as (_ & Hl).
  apply all_ascii_spec.
  assert (E : Forall (fun x => x < 128) (name_of (split_dots dom []))).
  { induction Hl as [|l ls [Hc _] _ IH]; [constructor|].
    cbn [name_of flat_map]. apply Forall_app. split; [|exact IH].
    apply Forall_app. split; [apply forallb_dom_char_plain, Hc | repeat constructor]. }
  rewrite split_dots_join in E. cbn [rev app] in E. apply Forall_app in E. apply E.
Qed.

Lemma wire_ok_facts body : wire_ok body = true -> plain body /\ Forall (fun b => b < 256) body.
Proof.
  unfold wire_ok. rewrite forallb_forall. intros H.
  split; apply Forall_forall; intros b Hb; specialize (H b Hb); unfold wire_char in H;
    apply andb_prop in H; destruct H as [H H3]; apply andb_prop in H; destruct H as [H1 H2].
  - split; apply N.eqb_neq; apply negb_true_iff; assumption.
  - apply N.ltb_lt, H1.
Qed.

Lemma body_ok_wire_ok body : body_ok body = true -> wire_ok body = true.
Proof.
  unfold body_ok, wire_ok. rewrite !forallb_forall. intros H b Hb. specialize (H b Hb).
  unfold dns_safeb in H. unfold wire_char, c_dot, c_bsl.
  repeat (apply andb_prop in H; destruct H as [H ?]). rewrite !andb_true_iff. repeat split; assumption.
Qed.

Lemma plain_nodot l : plain l -> nodot l.
Proof. intros H. eapply Forall_impl; [|exact H]. cbv beta. intros a [? _]. assumption. Qed.

(* ------------------------------------------------------------------ *)
(* (1) the name layer *)

(* the same with the three strings spelled out: the name is the labels of the body followed by the labels of the domain, the
   wire form is those labels, and what the DNS library hands to the server is their escaped presentation form *)
Theorem name_layer_explicit : forall dom body,
  dom_ok dom = true -> wire_ok body = true -> body <> [] ->
  fits_len (length body) (length dom) = true ->
  let ls := body_labels body ++ split_dots dom [] in
  let name := name_of ls in let w := wire_of_labels ls ++ [0] in let name' := escaped_name ls in
    (Forall label_ok ls /\ (length name <= 251)%nat) /\
    prepare_hostname body dom = Ok name /\ pack_name name = Ok w /\ unpack_name w = Ok name' /\
    strip_domain name' dom = Ok body /\
    Forall (fun l => (length l <= 63)%nat) (name_labels name) /\ (name_total name <= 253)%nat /\
    (forall qt, qt < 65536 -> exists q, pack_question name qt = Ok q /\ unpack_question q = Ok (name', qt)).
Proof.
  intros dom body Hdom Hbody Hne Hfit. cbv zeta.
  destruct (dom_ok_facts dom Hdom) as (Hdl & Hdls).
  destruct (wire_ok_facts body Hbody) as (Hplain & Hlt).
  assert (Hblen : (1 <= length body)%nat) by (destruct body; [congruence | cbn; lia]).
  set (bl := body_labels body). set (dl := split_dots dom []). set (ls := bl ++ dl).
  set (d := if (label_maxlen <? length body)%nat then dotify body else body).
  assert (Ename : d ++ c_dot :: dom ++ [c_dot] = name_of ls).
  { unfold ls. rewrite name_of_app. unfold bl, dl. rewrite <- body_labels_name, split_dots_join.
    fold d. cbn [rev app]. rewrite <- app_assoc. reflexivity. }
  assert (Hlen : (length (name_of ls) <= 251)%nat).
  { rewrite <- Ename. rewrite app_length. cbn [length]. rewrite app_length. cbn [length].
    unfold d. rewrite dotted_len_spec. unfold fits_len, hostname_maxlen in Hfit. lia. }
  assert (Hbl_ok : Forall label_ok bl).
  { unfold bl. pose proof (body_labels_len body Hblen) as H1.
    pose proof (body_labels_elems _ body Hplain) as H2.
    rewrite Forall_forall in *. intros l Hl. split; [apply H2, Hl | specialize (H1 l Hl); lia]. }
  assert (Hdl_ok : Forall label_ok dl).
  { unfold dl. eapply Forall_impl; [|exact Hdls]. cbv beta. intros l [Hc Hl].
    split; [apply forallb_dom_char_plain, Hc | exact Hl]. }
  assert (Hls_ok : Forall label_ok ls) by (apply Forall_app; split; assumption).
  assert (Hls_ne : ls <> []).
  { unfold ls. pose proof (body_labels_nonnil body). fold bl in H. destruct bl; [congruence | discriminate]. }
  assert (Hls_len : Forall (fun l => (1 <= length l <= 63)%nat) ls).
  { eapply Forall_impl; [|exact Hls_ok]. cbv beta. intros l [_ H]. exact H. }
  (* the last character of the name before the final dot *)
  assert (Hlast : exists s x, name_of ls = s ++ [x; c_dot] /\ x < 128 /\ x <> c_bsl).
  { assert (Hdne : dl <> []).
    { unfold dl. destruct dom; [cbn in Hdl; lia|]. cbn [split_dots]. destruct (n =? c_dot); [discriminate|].
      intros E. pose proof (f_equal name_of E) as E'. rewrite split_dots_join in E'. cbn in E'.
      destruct dom; discriminate. }
    destruct (exists_last Hdne) as (dl' & l & Edl).
    assert (Hl : forallb dom_char l = true /\ (1 <= length l <= 63)%nat).
    { fold dl in Hdls. rewrite Edl in Hdls. apply Forall_app in Hdls. destruct Hdls as [_ H]. inversion H; subst; assumption. }
    destruct Hl as [Hc Hll].
    assert (Hlne : l <> []) by (destruct l; [cbn in Hll; lia | discriminate]).
    destruct (exists_last Hlne) as (l' & x & ->).
    exists (name_of (bl ++ dl') ++ l'), x. split.
    - unfold ls. rewrite Edl. rewrite app_assoc. rewrite name_of_app. cbn [name_of flat_map].
      rewrite app_nil_r. rewrite <- !app_assoc. reflexivity.
    - rewrite forallb_app in Hc. apply andb_prop in Hc. destruct Hc as [_ Hx]. cbn in Hx.
      rewrite andb_true_r in Hx. destruct (dom_char_facts x Hx) as (? & _ & ? & _). split; assumption. }
  destruct Hlast as (s & x & Es & Hx & Hxb).
  fold bl dl ls.
  split; [split; assumption|]. split; [|split; [|split; [|split; [|split; [|split]]]]].
  - unfold prepare_hostname. fold d. rewrite Ename.
    destruct (Nat.ltb_spec (hostname_maxlen - 2) (length (name_of ls))) as [H|_]; [unfold hostname_maxlen in H; lia | reflexivity].
  - eapply pack_name_labels; eassumption.
  - apply unpack_name_labels; [assumption | assumption | lia].
  - unfold ls. rewrite escaped_name_app.
    rewrite (escaped_name_dom dl) by (eapply Forall_impl; [|exact Hdls]; cbv beta; intros l [H _]; exact H).
    unfold dl. rewrite split_dots_join. cbn [rev app].
    rewrite strip_domain_escaped.
    + f_equal. apply body_labels_concat.
    + apply body_labels_nonnil.
    + apply body_labels_elems, Hlt.
    + apply dom_ascii, Hdom.
  - rewrite name_labels_name_of; [| assumption |].
    + eapply Forall_impl; [|exact Hls_len]. cbv beta. intros; lia.
    + eapply Forall_impl; [|exact Hls_ok]. cbv beta. intros l [H _]. apply plain_nodot, H.
  - rewrite name_total_name_of by assumption. lia.
  - intros qt Hq. eapply question_labels; try eassumption. lia.
Qed.

Theorem name_layer_full : forall dom body,
  dom_ok dom = true -> wire_ok body = true -> body <> [] ->
  fits_len (length body) (length dom) = true ->
  exists name w name',
    prepare_hostname body dom = Ok name /\ pack_name name = Ok w /\ unpack_name w = Ok name' /\
    strip_domain name' dom = Ok body /\
    Forall (fun l => (length l <= 63)%nat) (name_labels name) /\ (name_total name <= 253)%nat /\
    (forall qt, qt < 65536 -> exists q, pack_question name qt = Ok q /\ unpack_question q = Ok (name', qt)).
Proof.
  intros dom body H1 H2 H3 H4.
  destruct (name_layer_explicit dom body H1 H2 H3 H4) as (_ & H).
  eexists; eexists; eexists; exact H.
Qed.

Theorem name_layer_wire : forall dom body,
  dom_ok dom = true -> wire_ok body = true -> body <> [] ->
  fits_len (length body) (length dom) = true ->
  exists name w name',
    prepare_hostname body dom = Ok name /\ pack_name name = Ok w /\ unpack_name w = Ok name' /\
    strip_domain name' dom = Ok body /\
    Forall (fun l => (length l <= 63)%nat) (name_labels name) /\ (name_total name <= 253)%nat.
Proof.
  intros dom body H1 H2 H3 H4.
  destruct (name_layer_full dom body H1 H2 H3 H4) as (name & w & name' & A & B & C & D & E & F & _).
  exists name, w, name'. auto 10.
Qed.

(* the statement for DNS-safe bodies in the sense of C08 *)
Theorem name_layer : forall dom body,
  dom_ok dom = true -> body_ok body = true -> body <> [] ->
  fits_len (length body) (length dom) = true ->
  exists name w name',
    prepare_hostname body dom = Ok name /\ pack_name name = Ok w /\ unpack_name w = Ok name' /\
    strip_domain name' dom = Ok body /\
    Forall (fun l => (length l <= 63)%nat) (name_labels name) /\ (name_total name <= 253)%nat.
Proof. intros dom body H1 H2. apply name_layer_wire; [exact H1 | apply body_ok_wire_ok, H2]. Qed.

(* the condition in closed form is sufficient *)
Lemma fits_len_closed n d : (n + (n - 1) / 57 + d + 2 <= 251)%nat -> fits_len n d = true.
Proof.
  intros H. unfold fits_len, dotted_len, hostname_maxlen, label_maxlen.
  destruct (60 <? n)%nat; apply Nat.leb_le; lia.
Qed.

(* the statement with the budget in closed form *)
Corollary name_layer_closed : forall dom body,
  dom_ok dom = true -> body_ok body = true -> body <> [] ->
  (length body + (length body - 1) / 57 + length dom + 2 <= 251)%nat ->
  exists name w name',
    prepare_hostname body dom = Ok name /\ pack_name name = Ok w /\ unpack_name w = Ok name' /\
    strip_domain name' dom = Ok body /\
    Forall (fun l => (length l <= 63)%nat) (name_labels name) /\ (name_total name <= 253)%nat.
Proof. intros dom body H1 H2 H3 H4. apply name_layer; auto using fits_len_closed. Qed.

(* what UnpackDomainName returns is printable ASCII: the ToLower restriction of strip_domain is never met
   on the server path *)
Lemma unpack_loop_ascii fuel : forall w budget acc s rest,
  wf_bytes w -> Forall (fun x => x < 128) acc -> unpack_loop fuel w budget acc = Ok (s, rest) ->
  Forall (fun x => x < 128) s.
Proof.
  induction fuel as [|f IH]; intros w budget acc s rest Hw Hacc; cbn [unpack_loop]; [discriminate|].
  destruct w as [|c t]; [discriminate|].
  destruct (c =? 0); [intros E; injection E as <- _; exact Hacc|].
  destruct (N.land c 192 =? 0); [| destruct (N.land c 192 =? 192); discriminate].
  destruct (length t <? N.to_nat c)%nat; [discriminate|].
  destruct (budget - (Z.of_N c + 1) <=? 0)%Z; [discriminate|].
  inversion Hw as [|? ? _ Ht]; subst. apply IH.
  - unfold wf_bytes. rewrite <- (firstn_skipn (N.to_nat c) t) in Ht. apply Forall_app in Ht. apply Ht.
  - apply Forall_app. split; [exact Hacc|]. apply Forall_app. split; [|repeat constructor].
    assert (Hf : Forall (fun b => b < 256) (firstn (N.to_nat c) t)).
    { rewrite <- (firstn_skipn (N.to_nat c) t) in Ht. apply Forall_app in Ht. apply Ht. }
    induction Hf as [|b l Hb Hl IHl]; [constructor|].
    cbn [escape_label flat_map]. apply Forall_app. split; [apply escape_byte_ascii, Hb | exact IHl].
Qed.

Theorem unpack_name_ascii w s : wf_bytes w -> unpack_name w = Ok s -> all_ascii s = true.
Proof.
  intros Hw. unfold unpack_name, unpack_name_rest.
  destruct (unpack_loop (length w) w 255 []) as [[s0 rest]| |] eqn:E; cbn [bind]; try discriminate.
  apply unpack_loop_ascii in E; [| exact Hw | constructor].
  destruct s0; intros H; injection H as <-; apply all_ascii_spec; [repeat constructor | exact E].
Qed.

Print Assumptions name_layer_full.
Print Assumptions unpack_name_ascii.
Print Assumptions name_layer_wire.
Print Assumptions name_layer.
