(* C09, the fragment-size budget. *)
From Coq Require Import List NArith ZArith Bool Arith Lia.
From Coq Require Import ZifyN ZifyNat ZifyBool.
From SA Require Import Base.Tok Codec.Bits Codec.Codec Gen.Alphabets Codec.Bits_proofs Codec.B128_proofs Codec.B85_proofs Codec.B91_proofs Codec.Codec_proofs.
From SA.Wire Require Import Name Requests Name_proofs.
Import ListNotations.
Open Scope N_scope.
Local Notation length := List.length.
Ltac Zify.zify_post_hook ::= Z.div_mod_to_equations.

(* ------------------------------------------------------------------ *)
(* (3) the fragment size the client computes fits the name budget *)

Definition enc_len_bound (c : codec) (n : nat) : nat :=
  match c with
  | Base32 => (8 * n + 4) / 5
  | Base64 | Base64u => (8 * n + 5) / 6
  | Base85 => (5 * n + 4) / 4
  | Base91 => (16 * n + 26) / 13
  | Base128 => (8 * n + 6) / 7
  | Base192 | Raw => n
  end%nat.

Lemma encode_len_le c x : selectable_up c = true -> (length (encode c x) <= enc_len_bound c (length x))%nat.
Proof.
  intros Hc. destruct c; try discriminate Hc; cbn [encode enc_len_bound].
  - rewrite regroup_length by lia. cbn. lia.
  - rewrite regroup_length by lia. cbn. lia.
  - rewrite regroup_length by lia. cbn. lia.
  - pose proof (b85_length_bound x). lia.
  - pose proof (b91_length_bound x). lia.
  - rewrite b128_length. lia.
Qed.

Lemma enc_len_bound_mono c n m : (n <= m)%nat -> (enc_len_bound c n <= enc_len_bound c m)%nat.
Proof. intros H. destruct c; cbn [enc_len_bound]; lia. Qed.

Lemma fits_len_mono n m d : (n <= m)%nat -> fits_len m d = true -> fits_len n d = true.
Proof.
  unfold fits_len, dotted_len, label_maxlen, hostname_maxlen. intros H.
  destruct (Nat.ltb_spec 60 n), (Nat.ltb_spec 60 m); intros Hm; apply Nat.leb_le; apply Nat.leb_le in Hm.
  all: lia.
Qed.

Definition up_codecs : list codec := [Base32; Base64; Base64u; Base85; Base91; Base128].

Definition mtu_sweep : bool :=
  forallb (fun d => forallb (fun c => fits_len (6 + enc_len_bound c (upstream_mtu_len d c + 5)) d) up_codecs)
          (seq 1 200).

Lemma mtu_sweep_ok : mtu_sweep = true.
Proof. vm_compute. reflexivity. Qed.

Lemma mtu_sweep_at d c : (1 <= d <= 200)%nat -> selectable_up c = true ->
  fits_len (6 + enc_len_bound c (upstream_mtu_len d c + 5)) d = true.
Proof.
  intros Hd Hc. pose proof mtu_sweep_ok as H. unfold mtu_sweep in H. rewrite forallb_forall in H.
  specialize (H d). rewrite forallb_forall in H. apply H.
  - apply in_seq. lia.
  - destruct c; try discriminate Hc; cbn; auto 8.
Qed.

Theorem mtu_fits : forall dom c data uid ack seq,
  dom_ok dom = true -> selectable_up c = true ->
  (length data <= upstream_mtu dom c)%nat ->
  fits dom c (RPacket uid ack (Some (seq, data))) = true.
Proof.
  intros dom c data uid ack seq Hdom Hc Hlen.
  destruct (dom_ok_facts dom Hdom) as (Hd & _).
  unfold fits. cbn [encode_request]. rewrite app_length.
  change (length (encode_header cmd_packet uid cache0)) with 6%nat.
  eapply fits_len_mono; [| apply (mtu_sweep_at (length dom) c Hd Hc)].
  apply Nat.add_le_mono_l.
  etransitivity; [apply encode_len_le, Hc|]. apply enc_len_bound_mono.
  unfold upstream_mtu in Hlen. rewrite app_length. cbn [length le16]. rewrite app_length. cbn [length le16]. unfold bytes in *. lia.
Qed.

(* the budget is not vacuous: on every well-formed domain it is positive *)
Lemma mtu_positive_sweep : forallb (fun d => forallb (fun c => (1 <=? upstream_mtu_len d c)%nat) up_codecs) (seq 1 200) = true.
Proof. vm_compute. reflexivity. Qed.

Print Assumptions mtu_fits.
