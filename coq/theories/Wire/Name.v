(* C09, name layer: util.Dotify, util.PrepareHostname, miekg/dns v1.1.34 packDomainName / UnpackDomainName
   and the question section at specification level, commands.StripDomain and commands.ComposeRequest for
   one question.  Definitions only. *)
From Coq Require Import List NArith ZArith Bool String Arith.
From SA Require Import Base.Tok.
Import ListNotations.
Open Scope N_scope.
Local Notation length := List.length.

Definition c_dot : N := 46.
Definition c_bsl : N := 92.

(* ------------------------------------------------------------------ *)
(* util.Dotify: a dot after every 57 characters while more than 57 remain *)

Fixpoint dotify_fuel (fuel : nat) (buf : bytes) : bytes :=
  match fuel with
  | O => buf
  | S f =>
    if (57 <? length buf)%nat then firstn 57 buf ++ c_dot :: dotify_fuel f (skipn 57 buf)
    else buf
  end.
Definition dotify (buf : bytes) : bytes := dotify_fuel (length buf) buf.

(* util.PrepareHostname, LabelMaxlen = 60, HostnameMaxLen = 253 *)
Definition label_maxlen : nat := 60.
Definition hostname_maxlen : nat := 253.

Definition prepare_hostname (data dom : bytes) : res bytes :=
  let d := if (label_maxlen <? length data)%nat then dotify data else data in
  let h := d ++ c_dot :: dom ++ [c_dot] in
  if (hostname_maxlen - 2 <? length h)%nat then Err (wd "toolong") else Ok h.

(* length of the dotted body, and the exact fitting condition of PrepareHostname *)
Definition dotted_len (n : nat) : nat := if (label_maxlen <? n)%nat then (n + (n - 1) / 57)%nat else n.
Definition fits_len (n d : nat) : bool := (dotted_len n + d + 2 <=? hostname_maxlen - 2)%nat.

(* ------------------------------------------------------------------ *)
(* miekg/dns: presentation format -> wire *)

Definition is_digit (b : N) : bool := (48 <=? b) && (b <=? 57).
(* dddToByte: byte arithmetic *)
Definition ddd_to_byte (a b c : N) : N := ((a - 48) * 100 + (b - 48) * 10 + (c - 48)) mod 256.

(* utf8.DecodeLastRuneInString: width of the last rune of a string given reversed, whose last octet
   is b0 >= 128.  A well-formed multi-octet rune that ends the string has its full width; everything
   else is RuneError with width 1. *)
Definition is_cont (b : N) : bool := (128 <=? b) && (b <? 192).
Definition valid2 (b1 b0 : N) : bool := (194 <=? b1) && (b1 <=? 223) && is_cont b0.
Definition valid3 (b2 b1 b0 : N) : bool :=
  is_cont b0 &&
  (((b2 =? 224) && (160 <=? b1) && (b1 <=? 191)) ||
   ((225 <=? b2) && (b2 <=? 239) && negb (b2 =? 237) && is_cont b1) ||
   ((b2 =? 237) && (128 <=? b1) && (b1 <=? 159))).
Definition valid4 (b3 b2 b1 b0 : N) : bool :=
  is_cont b0 && is_cont b1 &&
  (((b3 =? 240) && (144 <=? b2) && (b2 <=? 191)) ||
   ((241 <=? b3) && (b3 <=? 243) && is_cont b2) ||
   ((b3 =? 244) && (128 <=? b2) && (b2 <=? 143))).

Definition last_rune_width (r : bytes) : nat :=
  match r with
  | [] => 1%nat
  | b0 :: r1 =>
    if b0 <? 128 then 1%nat
    else match r1 with
         | [] => 1%nat
         | b1 :: r2 =>
           if negb (is_cont b1) then (if valid2 b1 b0 then 2 else 1)%nat
           else match r2 with
                | [] => 1%nat
                | b2 :: r3 =>
                  if negb (is_cont b2) then (if valid3 b2 b1 b0 then 3 else 1)%nat
                  else match r3 with
                       | [] => 1%nat
                       | b3 :: _ => if negb (is_cont b3) && valid4 b3 b2 b1 b0 then 4%nat else 1%nat
                       end
                end
         end
  end.

(* dns.IsFqdn: one trailing dot is trimmed; the number of octets from the start of the last rune that
   is not a backslash to the end of the trimmed string must be odd (index -1 when there is none). *)
Fixpoint count_bsl (r : bytes) : nat :=
  match r with
  | c :: t => if c =? c_bsl then S (count_bsl t) else O
  | [] => O
  end.

Definition is_fqdn (s : bytes) : bool :=
  match rev s with
  | c :: r =>
    if c =? c_dot then
      let k := count_bsl r in
      Nat.odd (k + last_rune_width (skipn k r))
    else false
  | [] => false
  end.

(* the loop of packDomainName; lab = current label reversed, out = finished labels reversed *)
Fixpoint pack_loop (s : bytes) (lab : bytes) (wasdot : bool) (out : list bytes) : res (list bytes) :=
  match s with
  | [] => Ok (rev out)                      (* whatever follows the last unescaped dot is not emitted *)
  | c :: t =>
    if c =? c_bsl then
      match t with
      | [] => Ok (rev out)                  (* a final backslash is dropped *)
      | a :: t1 =>
        match t1 with
        | b :: d :: t' =>
          if is_digit a && is_digit b && is_digit d
          then pack_loop t' (ddd_to_byte a b d :: lab) false out
          else pack_loop t1 (a :: lab) false out
        | _ => pack_loop t1 (a :: lab) false out
        end
      end
    else if c =? c_dot then
      if wasdot then Err (wd "rdata")                       (* two dots back to back *)
      else if (64 <=? length lab)%nat then Err (wd "rdata") (* labelLen >= 1<<6 *)
      else pack_loop t [] true (rev lab :: out)
    else pack_loop t (c :: lab) false out
  end.

Definition wire_of_labels (ls : list bytes) : bytes :=
  flat_map (fun l => N.of_nat (length l) :: l) ls.

(* packDomainName without compression; the result is the wire form including the root octet. *)
Definition pack_name (s : bytes) : res bytes :=
  match s with
  | [] => Ok []                                             (* ls == 0: nothing is written *)
  | _ =>
    if is_fqdn s then
      do ls <- pack_loop s [] false [] ;;
      if bytes_eqb s [c_dot] then Ok (wire_of_labels ls)    (* root label: no second zero octet *)
      else Ok (wire_of_labels ls ++ [0])
    else Err (wd "fqdn")
  end.

(* ------------------------------------------------------------------ *)
(* miekg/dns: wire -> presentation format *)

Definition is_special (b : N) : bool :=
  (b =? 46) || (b =? 32) || (b =? 39) || (b =? 64) || (b =? 59) || (b =? 40) || (b =? 41) || (b =? 34) || (b =? 92).

Definition escape_byte (b : N) : bytes :=
  if is_special b then [c_bsl; b]
  else if (b <? 32) || (126 <? b) then [c_bsl; 48 + b / 100; 48 + (b / 10) mod 10; 48 + b mod 10]
  else [b].

Definition escape_label (l : bytes) : bytes := flat_map escape_byte l.

(* UnpackDomainName on the octets from the name's offset to the end of the message.
   budget: maxDomainNameWireOctets = 255.  Compression pointers are not modelled (Err "pointer"):
   packDomainName never writes a length octet above 63.  Returns the name and the remaining octets. *)
Fixpoint unpack_loop (fuel : nat) (w : bytes) (budget : Z) (acc : bytes) : res (bytes * bytes) :=
  match fuel with
  | O => Err (wd "buf")
  | S f =>
    match w with
    | [] => Err (wd "buf")
    | c :: t =>
      if c =? 0 then Ok (acc, t)
      else if N.land c 192 =? 0 then
        if (length t <? N.to_nat c)%nat then Err (wd "buf")
        else
          let budget' := (budget - (Z.of_N c + 1))%Z in
          if (budget' <=? 0)%Z then Err (wd "longdomain")
          else unpack_loop f (skipn (N.to_nat c) t) budget' (acc ++ escape_label (firstn (N.to_nat c) t) ++ [c_dot])
      else if N.land c 192 =? 192 then Err (wd "pointer")
      else Err (wd "rdata")
    end
  end.

Definition unpack_name_rest (w : bytes) : res (bytes * bytes) :=
  do '(s, rest) <- unpack_loop (length w) w 255%Z [] ;;
  match s with
  | [] => Ok ([c_dot], rest)
  | _ => Ok (s, rest)
  end.

Definition unpack_name (w : bytes) : res bytes :=
  do '(s, _) <- unpack_name_rest w ;; Ok s.

(* ------------------------------------------------------------------ *)
(* question section: name, qtype, qclass = IN; the 12-octet header is transparent *)

Definition be16 (n : N) : bytes := [(n / 256) mod 256; n mod 256].

Definition pack_question (name : bytes) (qtype : N) : res bytes :=
  do w <- pack_name name ;; Ok (w ++ be16 qtype ++ be16 1).

(* unpackQuestion: returns early with zero fields when the message ends; a truncated qclass is not an
   error (unpackUint16 reports len(msg) as the new offset and that is tested first) *)
Definition unpack_question (w : bytes) : res (bytes * N) :=
  do '(s, rest) <- unpack_name_rest w ;;
  match rest with
  | [] => Ok (s, 0)
  | [_] => Err (wd "overflow")
  | hi :: lo :: _ => Ok (s, hi * 256 + lo)
  end.

(* ------------------------------------------------------------------ *)
(* commands.StripDomain *)

Definition lower_ascii (b : N) : N := if (65 <=? b) && (b <=? 90) then b + 32 else b.
Definition all_ascii (l : bytes) : bool := forallb (fun b => b <? 128) l.

Fixpoint is_prefix (p l : bytes) : bool :=
  match p, l with
  | [], _ => true
  | x :: p', y :: l' => (x =? y) && is_prefix p' l'
  | _, [] => false
  end.
Definition has_suffix (l suf : bytes) : bool := is_prefix (rev suf) (rev l).

(* the un-escaping loop; res accumulates reversed *)
Fixpoint strip_loop (data : bytes) (acc : bytes) : res bytes :=
  match data with
  | [] => Ok (rev acc)
  | c :: t =>
    if c =? c_dot then strip_loop t acc
    else if negb (c =? c_bsl) then strip_loop t (c :: acc)
    else
      match t with
      | [] => Ok (rev acc)                                 (* a lone backslash at the end carries nothing *)
      | a :: t1 =>
        match t1 with
        | b :: d :: t' =>
          if is_digit a && is_digit b && is_digit d
          then strip_loop t' (ddd_to_byte a b d :: acc)       (* ParseInt, then byte(num) *)
          else strip_loop t1 (a :: acc)
        | _ => strip_loop t1 (a :: acc)
        end
      end
  end.

(* the suffix test and cut of StripDomain, for ASCII strings *)
Definition cut_domain (data dom : bytes) : bytes :=
  let suf := c_dot :: map lower_ascii dom ++ [c_dot] in
  if has_suffix (map lower_ascii data) suf
  then firstn (length data - (length dom + 2)) data else data.

(* strings.ToLower is modelled for ASCII strings only (what UnpackDomainName produces, and what a
   well-formed domain is); anything else is reported as outside the model. *)
Definition strip_domain (data dom : bytes) : res bytes :=
  if all_ascii data && all_ascii dom then strip_loop (cut_domain data dom) []
  else Err (wd "unmodelled").

(* commands.ComposeRequest for a message with one question *)
Definition compose_request (name dom : bytes) : res bytes := strip_domain name dom.

(* ------------------------------------------------------------------ *)
(* what the harness reports about the emitted name: length without the trailing dot, longest label
   (labels split on every dot of the raw name) *)
Fixpoint split_dots (s : bytes) (cur : bytes) : list bytes :=
  match s with
  | [] => [rev cur]
  | c :: t => if c =? c_dot then rev cur :: split_dots t [] else split_dots t (c :: cur)
  end.

Definition trim_dot (s : bytes) : bytes :=
  match rev s with
  | c :: r => if c =? c_dot then rev r else s
  | [] => s
  end.

Definition name_labels (name : bytes) : list bytes := split_dots (trim_dot name) [].
Definition name_total (name : bytes) : nat := length (trim_dot name).
Definition max_label (name : bytes) : nat := fold_right Nat.max O (map (@length N) (name_labels name)).

(* ------------------------------------------------------------------ *)
(* hypotheses of the theorems *)

(* a tunnel domain: 1..200 octets, labels of [a-z0-9-], each 1..63 octets, separated by single dots,
   no leading or trailing dot *)
Definition dom_char (b : N) : bool :=
  ((97 <=? b) && (b <=? 122)) || ((48 <=? b) && (b <=? 57)) || (b =? 45).
Definition dom_label_ok (l : bytes) : bool :=
  (1 <=? length l)%nat && (length l <=? 63)%nat && forallb dom_char l.
Definition dom_ok (dom : bytes) : bool :=
  (1 <=? length dom)%nat && (length dom <=? 200)%nat && forallb dom_label_ok (split_dots dom []).

(* the part of the name before the domain: every octet DNS-safe in the sense of C08 *)
Definition body_ok (b : bytes) : bool := forallb dns_safeb b.

(* what the name layer actually needs of the body: octets, none of them a dot or a backslash *)
Definition wire_char (b : N) : bool := (b <? 256) && negb (b =? c_dot) && negb (b =? c_bsl).
Definition wire_ok (b : bytes) : bool := forallb wire_char b.
