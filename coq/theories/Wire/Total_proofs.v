(* C09: letter case, cache characters, and exactly when the request decoder panics. *)
From Coq Require Import List NArith ZArith Bool Arith Lia String.
From Coq Require Import ZifyN ZifyNat ZifyBool.
From SA Require Import Base.Tok Codec.Bits Codec.B85 Codec.B91 Codec.B128 Codec.B192 Codec.Codec Gen.Alphabets.
From SA.Wire Require Import Name Requests.
Import ListNotations.
Open Scope N_scope.
Local Notation length := List.length.

(* ------------------------------------------------------------------ *)
(* (4) the command letter is recognised in either case; the cache characters are ignored *)

Lemma is_of_type_upper c l : In c commands -> 97 <= l <= 122 -> is_of_type c (l - 32) = is_of_type c l.
Proof.
  intros Hin Hl. unfold is_of_type, lower_first.
  replace ((65 <=? l - 32) && (l - 32 <=? 90)) with true by lia.
  replace ((65 <=? l) && (l <=? 90)) with false by lia.
  replace (128 <=? l) with false by lia.
  replace (l - 32 + 32) with l by lia.
  cbn in Hin. repeat (destruct Hin as [<-|Hin]; [cbn; lia|]). contradiction.
Qed.

Lemma find_ext {A} (f g : A -> bool) l : (forall x, In x l -> f x = g x) -> find f l = find g l.
Proof.
  induction l as [|a l IH]; intros H; [reflexivity|]. cbn [find].
  rewrite (H a) by (left; reflexivity). destruct (g a); [reflexivity|]. apply IH. intros x Hx. apply H. right. exact Hx.
Qed.

Theorem letter_case : forall e l r1 r2 r3 r1' r2' r3' rest, 97 <= l <= 122 ->
  decode_request e ((l - 32) :: r1 :: r2 :: r3 :: rest) = decode_request e (l :: r1' :: r2' :: r3' :: rest).
Proof.
  intros e l r1 r2 r3 r1' r2' r3' rest Hl. unfold decode_request.
  rewrite (find_ext (fun c => is_of_type c (l - 32)) (fun c => is_of_type c l))
    by (intros c Hc; apply is_of_type_upper; assumption).
  destruct (find (fun c => is_of_type c l) commands) as [c|]; [|reflexivity].
  destruct (cmd_new c) as [k|]; reflexivity.
Qed.

(* the cache characters alone *)
Corollary cache_ignored : forall e l r1 r2 r3 r1' r2' r3' rest,
  decode_request e (l :: r1 :: r2 :: r3 :: rest) = decode_request e (l :: r1' :: r2' :: r3' :: rest).
Proof.
  intros. unfold decode_request.
  destruct (find (fun c => is_of_type c l) commands) as [c|]; [|reflexivity].
  destruct (cmd_new c) as [k|]; reflexivity.
Qed.

(* ------------------------------------------------------------------ *)
(* (5) panics *)

Lemma np_bind {A B} (r : res A) (f : A -> res B) :
  is_panic r = false -> (forall a, is_panic (f a) = false) -> is_panic (bind r f) = false.
Proof. destruct r; cbn; auto. Qed.

Lemma a85_np src : forall nb v out, is_panic (a85_decode src nb v out) = false.
Proof.
  induction src as [|c rest IH]; intros nb v out; cbn [a85_decode].
  - destruct nb as [|[|nb]]; reflexivity.
  - destruct (c <=? 32); [apply IH|].
    destruct (N.eqb c 122 && Nat.eqb nb 0); [apply IH|].
    destruct ((33 <=? c) && (c <=? 117)); [|reflexivity].
    destruct (Nat.eqb nb 4); apply IH.
Qed.

Lemma decode_no_panic c y : is_panic (decode c y) = false.
Proof.
  destruct c; cbn [decode].
  - unfold dec32, regroup_dec. destruct (unmap cb32 (strip_crlf y)); [|reflexivity]. destruct (tail32 _); reflexivity.
  - unfold dec64, regroup_dec. destruct (unmap cb64 (strip_crlf y)); [|reflexivity]. destruct (tail64 _); reflexivity.
  - unfold dec64, regroup_dec. destruct (unmap cb64u (strip_crlf y)); [|reflexivity]. destruct (tail64 _); reflexivity.
  - apply a85_np.
  - unfold b91_decode. destruct (unmap cb91 y); [|reflexivity].
    destruct (fold_left b91_dec_step l (0, 0, None, [])) as [[[q n] v] out]. destruct v; reflexivity.
  - unfold b128_decode, luci_decode. destruct (negb _); [reflexivity|].
    destruct (fold_left luci_step (unescape128 y) (1, 0, [], false)) as [[[a b] o] bad]. destruct bad; reflexivity.
  - reflexivity.
  - reflexivity.
Qed.

Lemma read_le32_np b : is_panic (read_le32 b) = false.
Proof. destruct b as [|? [|? [|? [|? ?]]]]; reflexivity. Qed.
Lemma read_le16_np b : is_panic (read_le16 b) = false.
Proof. destruct b as [|? [|? ?]]; reflexivity. Qed.
Lemma read_byte_np b : is_panic (read_byte b) = false.
Proof. destruct b; reflexivity. Qed.
Lemma read_codec_np b : is_panic (read_codec b) = false.
Proof.
  destruct b as [|v rest]; [reflexivity|]. unfold read_codec, read_byte. cbn [bind].
  destruct (v =? 32); [reflexivity|]. destruct (from_code v); reflexivity.
Qed.

Lemma decode_packet_np uid d : is_panic (decode_packet uid d) = false.
Proof.
  unfold decode_packet. apply np_bind; [apply read_le16_np|]. intros [ack b1].
  apply np_bind; [apply read_byte_np|]. intros [has b2].
  destruct (N.land has 1 =? 0); [reflexivity|].
  apply np_bind; [apply read_le16_np|]. intros [seq data]. reflexivity.
Qed.

Lemma decode_options_np uid d : is_panic (decode_options uid d) = false.
Proof.
  unfold decode_options, read_bool.
  destruct d as [|a [|b [|c rest]]]; try reflexivity. cbn [read_byte bind].
  apply np_bind; [apply read_codec_np|]. intros [down b4].
  apply np_bind; [apply read_codec_np|]. intros [up b5].
  apply np_bind; [apply read_le32_np|]. intros [f ?]. reflexivity.
Qed.

Lemma header_ok c b r1 r2 r3 rest :
  is_panic (decode_header c (b :: r1 :: r2 :: r3 :: rest)) = false.
Proof.
  unfold decode_header. destruct (cmd_needs_uid c); [|reflexivity].
  destruct rest as [|x [|y rest']]; try reflexivity. destruct (undigit36 x), (undigit36 y); reflexivity.
Qed.

Lemma body_np e k rest uid : (k = KDownTest -> rest <> []) ->
  is_panic (match k with
            | KVersion => do d <- decode Base32 rest ;; do '(v, _) <- read_le32 d ;; Ok (RVersion v)
            | KPacket => do d <- decode e rest ;; decode_packet uid d
            | KSetOptions => do d <- decode Base32 rest ;; decode_options uid d
            | KFragSize => do d <- decode Base32 rest ;; do '(v, _) <- read_le32 d ;; Ok (RFragSize uid v)
            | KUpTest => Ok (RUpTest uid rest)
            | KDownTest =>
              match rest with
              | [] => Panic site_downtest
              | b :: _ => match from_code b with Some c => Ok (RDownTest c) | None => Err (wd "codec") end
              end
            end) = false.
Proof.
  intros Hk. destruct k.
  - apply np_bind; [apply decode_no_panic|]. intros d. apply np_bind; [apply read_le32_np|]. intros [v ?]. reflexivity.
  - apply np_bind; [apply decode_no_panic|]. intros d. apply decode_options_np.
  - apply np_bind; [apply decode_no_panic|]. intros d. apply np_bind; [apply read_le32_np|]. intros [v ?]. reflexivity.
  - destruct rest as [|b rest']; [exfalso; apply Hk; reflexivity|]. destruct (from_code b); reflexivity.
  - reflexivity.
  - apply np_bind; [apply decode_no_panic|]. intros d. apply decode_packet_np.
Qed.

(* DecodeDnsRequest panics exactly when the guard fails *)
Theorem request_total_partial : forall e x, is_panic (decode_request e x) = negb (no_panic_guard x).
Proof.
  intros e x. destruct x as [|b t]; [reflexivity|].
  unfold decode_request, no_panic_guard.
  destruct (find (fun c => is_of_type c b) commands) as [c|] eqn:Ef; [|reflexivity].
  apply find_some in Ef. destruct Ef as [Hin _].
  destruct (cmd_new c) as [k|] eqn:Ek; [|reflexivity].
  destruct t as [|r1 [|r2 [|r3 rest]]]; try reflexivity.
  cbn in Hin.
  destruct Hin as [<-|[<-|[<-|[<-|[<-|[<-|[<-|[<-|[<-|[]]]]]]]]]]; cbn in Ek; try discriminate Ek.
  all: injection Ek as Ek'; subst k.
  all: unfold decode_kind, decode_header; cbn [cmd_needs_uid cmd_version cmd_options cmd_fragsize cmd_downtest cmd_uptest cmd_packet].
  - (* v *) cbn [bind]. apply (body_np e KVersion rest 0). intros H; discriminate H.
  - (* o *) destruct rest as [|x [|y rest']]; try reflexivity.
    destruct (undigit36 x), (undigit36 y); try reflexivity. cbn [bind].
    apply (body_np e KSetOptions). intros H; discriminate H.
  - (* r *) destruct rest as [|x [|y rest']]; try reflexivity.
    destruct (undigit36 x), (undigit36 y); try reflexivity. cbn [bind].
    apply (body_np e KFragSize). intros H; discriminate H.
  - (* y *) cbn [bind]. destruct rest as [|x rest']; [reflexivity|]. cbn [is_nil negb].
    destruct (from_code x); reflexivity.
  - (* z *) destruct rest as [|x [|y rest']]; try reflexivity.
    destruct (undigit36 x), (undigit36 y); reflexivity.
  - (* c *) destruct rest as [|x [|y rest']]; try reflexivity.
    destruct (undigit36 x), (undigit36 y); try reflexivity. cbn [bind].
    apply (body_np e KPacket). intros H; discriminate H.
Qed.

Corollary request_no_panic : forall e x, no_panic_guard x = true -> forall s, decode_request e x <> Panic s.
Proof.
  intros e x Hg s E. pose proof (request_total_partial e x) as H. rewrite E, Hg in H. discriminate H.
Qed.

(* total decoding is refuted: a name such as mail.<domain>. reaches a command without a request type;
   a bare command letter is sliced beyond its length *)
Theorem request_panics_refuted : exists x e s, decode_request e x = Panic s.
Proof. exists [109; 97; 105; 108], Base32, site_decode. reflexivity. Qed.

Example request_panics_short : decode_request Base32 [118; 97] = Panic site_header.
Proof. reflexivity. Qed.
Example request_panics_probe : decode_request Base32 [121; 97; 97; 97] = Panic site_downtest.
Proof. reflexivity. Qed.
Example request_panics_empty : decode_request Base32 [] = Panic site_decode.
Proof. reflexivity. Qed.

Print Assumptions letter_case.
Print Assumptions cache_ignored.
Print Assumptions request_total_partial.
Print Assumptions request_panics_refuted.
