(* C09 / C12: letter case, cache characters, and totality of the request decoder. *)
From Coq Require Import List NArith ZArith Bool Arith Lia String.
From Coq Require Import ZifyN ZifyNat ZifyBool.
From SA Require Import Base.Tok Codec.Bits Codec.B85 Codec.B91 Codec.B128 Codec.B192 Codec.Codec Gen.Alphabets.
From SA.Wire Require Import Name Requests.
Import ListNotations.
Open Scope N_scope.
Local Notation length := List.length.

(* ------------------------------------------------------------------ *)
(* (4) the command letter is recognised in either case; the cache characters are ignored *)

Lemma is_of_type_upper c l : In c commands -> 97 <= l <= 122 -> is_of_type c (l - 32) = is_of_type c l.
Proof.
  intros Hin Hl. unfold is_of_type, lower_first.
  replace ((65 <=? l - 32) && (l - 32 <=? 90)) with true by lia.
  replace ((65 <=? l) && (l <=? 90)) with false by lia.
  replace (128 <=? l) with false by lia.
  replace (l - 32 + 32) with l by lia.
  cbn in Hin. repeat (destruct Hin as [<-|Hin]; [cbn; lia|]). contradiction.
Qed.

Lemma find_ext {A} (f g : A -> bool) l : (forall x, In x l -> f x = g x) -> find f l = find g l.
Proof.
  induction l as [|a l IH]; intros H; [reflexivity|]. cbn [find].
  rewrite (H a) by (left; reflexivity). destruct (g a); [reflexivity|]. apply IH. intros x Hx. apply H. right. exact Hx.
Qed.

Theorem letter_case : forall e l r1 r2 r3 r1' r2' r3' rest, 97 <= l <= 122 ->
  decode_request e ((l - 32) :: r1 :: r2 :: r3 :: rest) = decode_request e (l :: r1' :: r2' :: r3' :: rest).
Proof.
  intros e l r1 r2 r3 r1' r2' r3' rest Hl. unfold decode_request.
  rewrite (find_ext (fun c => is_of_type c (l - 32)) (fun c => is_of_type c l))
    by (intros c Hc; apply is_of_type_upper; assumption).
  destruct (find (fun c => is_of_type c l) commands) as [c|]; [|reflexivity].
  destruct (cmd_new c) as [k|]; reflexivity.
Qed.

(* the cache characters alone *)
Corollary cache_ignored : forall e l r1 r2 r3 r1' r2' r3' rest,
  decode_request e (l :: r1 :: r2 :: r3 :: rest) = decode_request e (l :: r1' :: r2' :: r3' :: rest).
Proof.
  intros. unfold decode_request.
  destruct (find (fun c => is_of_type c l) commands) as [c|]; [|reflexivity].
  destruct (cmd_new c) as [k|]; reflexivity.
Qed.

(* ------------------------------------------------------------------ *)
(* (5) panics *)

Lemma np_bind {A B} (r : res A) (f : A -> res B) :
  is_panic r = false -> (forall a, is_panic (f a) = false) -> is_panic (bind r f) = false.
Proof. destruct r; cbn; auto. Qed.

Lemma a85_np src : forall nb v out, is_panic (a85_decode src nb v out) = false.
Proof.
  induction src as [|c rest IH]; intros nb v out; cbn [a85_decode].
  - destruct nb as [|[|nb]]; reflexivity.
  - destruct (c <=? 32); [apply IH|].
    destruct (N.eqb c 122 && Nat.eqb nb 0); [apply IH|].
    destruct ((33 <=? c) && (c <=? 117)); [|reflexivity].
    destruct (Nat.eqb nb 4); apply IH.
Qed.

Lemma decode_no_panic c y : is_panic (decode c y) = false.
Proof.
  destruct c; cbn [decode].
  - unfold dec32, regroup_dec. destruct (unmap cb32 (strip_crlf y)); [|reflexivity]. destruct (tail32 _); reflexivity.
  - unfold dec64, regroup_dec. destruct (unmap cb64 (strip_crlf y)); [|reflexivity]. destruct (tail64 _); reflexivity.
  - unfold dec64, regroup_dec. destruct (unmap cb64u (strip_crlf y)); [|reflexivity]. destruct (tail64 _); reflexivity.
  - apply a85_np.
  - unfold b91_decode. destruct (unmap cb91 y); [|reflexivity].
    destruct (fold_left b91_dec_step l (0, 0, None, [])) as [[[q n] v] out]. destruct v; reflexivity.
  - unfold b128_decode, luci_decode. destruct (negb _); [reflexivity|].
    destruct (fold_left luci_step (unescape128 y) (1, 0, [], false)) as [[[a b] o] bad]. destruct bad; reflexivity.
  - reflexivity.
  - reflexivity.
Qed.

Lemma read_le32_np b : is_panic (read_le32 b) = false.
Proof. destruct b as [|? [|? [|? [|? ?]]]]; reflexivity. Qed.
Lemma read_le16_np b : is_panic (read_le16 b) = false.
Proof. destruct b as [|? [|? ?]]; reflexivity. Qed.
Lemma read_byte_np b : is_panic (read_byte b) = false.
Proof. destruct b; reflexivity. Qed.
Lemma read_codec_np b : is_panic (read_codec b) = false.
Proof.
  destruct b as [|v rest]; [reflexivity|]. unfold read_codec, read_byte. cbn [bind].
  destruct (v =? 32); [reflexivity|]. destruct (from_code v); reflexivity.
Qed.

Lemma decode_packet_np uid d : is_panic (decode_packet uid d) = false.
Proof.
  unfold decode_packet. apply np_bind; [apply read_le16_np|]. intros [ack b1].
  apply np_bind; [apply read_byte_np|]. intros [has b2].
  destruct (N.land has 1 =? 0); [reflexivity|].
  apply np_bind; [apply read_le16_np|]. intros [seq data]. reflexivity.
Qed.

Lemma decode_options_np uid d : is_panic (decode_options uid d) = false.
Proof.
  unfold decode_options, read_bool.
  destruct d as [|a [|b [|c rest]]]; try reflexivity. cbn [read_byte bind].
  apply np_bind; [apply read_codec_np|]. intros [down b4].
  apply np_bind; [apply read_codec_np|]. intros [up b5].
  apply np_bind; [apply read_le32_np|]. intros [f ?]. reflexivity.
Qed.

Lemma decode_header_np c req : is_panic (decode_header c req) = false.
Proof.
  unfold decode_header. destruct req as [|? [|? [|? [|? rest]]]]; try reflexivity.
  destruct (cmd_needs_uid c); [|reflexivity].
  destruct rest as [|x [|y rest']]; try reflexivity. destruct (undigit36 x), (undigit36 y); reflexivity.
Qed.

Lemma decode_kind_np e k c req : is_panic (decode_kind e k c req) = false.
Proof.
  unfold decode_kind. apply np_bind; [apply decode_header_np|]. intros [rest uid]. destruct k.
  - apply np_bind; [apply decode_no_panic|]. intros d. apply np_bind; [apply read_le32_np|]. intros [v ?]. reflexivity.
  - apply np_bind; [apply decode_no_panic|]. intros d. apply decode_options_np.
  - apply np_bind; [apply decode_no_panic|]. intros d. apply np_bind; [apply read_le32_np|]. intros [v ?]. reflexivity.
  - destruct rest as [|b rest']; [reflexivity|]. destruct (from_code b); reflexivity.
  - reflexivity.
  - apply np_bind; [apply decode_no_panic|]. intros d. apply decode_packet_np.
Qed.

(* DecodeDnsRequest never panics: for every upstream codec and every octet string, the empty one included *)
Theorem request_total : forall e x, is_panic (decode_request e x) = false.
Proof.
  intros e x. destruct x as [|b t]; [reflexivity|]. unfold decode_request.
  destruct (find (fun c => is_of_type c b) commands) as [c|]; [|reflexivity].
  destruct (cmd_new c) as [k|]; [|reflexivity]. apply decode_kind_np.
Qed.

Corollary request_no_panic : forall e x s, decode_request e x <> Panic s.
Proof. intros e x s E. pose proof (request_total e x) as H. rewrite E in H. discriminate H. Qed.

(* the inputs that used to panic are errors now *)
Example request_reserved : decode_request Base32 [109; 97; 105; 108] = Err (wd "command").
Proof. reflexivity. Qed.
Example request_short : decode_request Base32 [118; 97] = Err (wd "short").
Proof. reflexivity. Qed.
Example request_probe : decode_request Base32 [121; 97; 97; 97] = Err (wd "nocodec").
Proof. reflexivity. Qed.
Example request_empty : decode_request Base32 [] = Err (wd "command").
Proof. reflexivity. Qed.

(* ------------------------------------------------------------------ *)
(* StripDomain / ComposeRequest for one question never panic *)

Lemma strip_loop_np : forall n data acc, (length data <= n)%nat -> exists r, strip_loop data acc = Ok r.
Proof.
  induction n as [|n IH]; intros data acc Hn.
  - destruct data; [eexists; reflexivity | cbn in Hn; lia].
  - destruct data as [|c t]; [eexists; reflexivity|]. cbn [length] in Hn. cbn [strip_loop].
    destruct (c =? c_dot); [apply IH; lia|].
    destruct (negb (c =? c_bsl)); [apply IH; lia|].
    destruct t as [|a t1]; [eexists; reflexivity|]. cbn [length] in Hn.
    destruct t1 as [|b [|d t']]; try (apply IH; cbn [length] in *; lia).
    destruct (is_digit a && is_digit b && is_digit d); apply IH; cbn [length] in *; lia.
Qed.

Theorem strip_domain_total : forall data dom, is_panic (strip_domain data dom) = false.
Proof.
  intros data dom. unfold strip_domain. destruct (all_ascii data && all_ascii dom); [|reflexivity].
  destruct (strip_loop_np _ (cut_domain data dom) [] (le_n _)) as [r ->]. reflexivity.
Qed.

Print Assumptions letter_case.
Print Assumptions cache_ignored.
Print Assumptions request_total.
Print Assumptions strip_domain_total.
