(* C09, request layer proofs. *)
From Coq Require Import List NArith ZArith Bool Arith Lia String.
From Coq Require Import ZifyN ZifyNat ZifyBool.
From SA Require Import Base.Tok Codec.Bits Codec.Codec Gen.Alphabets Codec.Bits_proofs Codec.B128_proofs Codec.B85_proofs Codec.B91_proofs Codec.Codec_proofs.
From SA.Wire Require Import Name Requests Name_proofs.
Import ListNotations.
Open Scope N_scope.
Local Notation length := List.length.
Ltac Zify.zify_post_hook ::= Z.div_mod_to_equations.

(* ------------------------------------------------------------------ *)
(* fields *)

Lemma read_le16_le16 n rest : n < 65536 -> read_le16 (le16 n ++ rest) = Ok (n, rest).
Proof. intros H. unfold le16, read_le16. cbn [app]. f_equal. f_equal. lia. Qed.

Lemma read_le32_le32 n rest : n < 4294967296 -> read_le32 (le32 n ++ rest) = Ok (n, rest).
Proof. intros H. unfold le32, read_le32. cbn [app]. f_equal. f_equal. lia. Qed.

Lemma le16_wf n : wf_bytes (le16 n).
Proof. unfold le16. repeat constructor; lia. Qed.
Lemma le32_wf n : wf_bytes (le32 n).
Proof. unfold le32. repeat constructor; lia. Qed.

Lemma read_bool_write b rest : read_bool (write_bool b :: rest) = Ok (b, rest).
Proof. destruct b as [[|]|]; reflexivity. Qed.

Lemma code_facts c : 82 <= code c <= 89.
Proof. destruct c; cbv; split; discriminate. Qed.

Lemma read_codec_byte c rest : read_codec (codec_byte c :: rest) = Ok (c, rest).
Proof.
  destruct c as [c|]; [|reflexivity]. unfold read_codec, read_byte, codec_byte. cbn [bind].
  pose proof (code_facts c). destruct (N.eqb_spec (code c) 32); [lia|].
  destruct (registry_codes c) as [E _]. rewrite E. reflexivity.
Qed.

Lemma undigit_digit d : d < 36 -> undigit36 (digit36 d) = Some d.
Proof.
  intros H. unfold digit36, undigit36. destruct (N.ltb_spec d 10).
  - replace ((48 <=? 48 + d) && (48 + d <=? 57)) with true by lia. f_equal. lia.
  - replace ((48 <=? 87 + d) && (87 + d <=? 57)) with false by lia.
    replace ((97 <=? 87 + d) && (87 + d <=? 122)) with true by lia. f_equal. lia.
Qed.

Lemma digit36_base36 d : d < 36 -> base36_char (digit36 d) = true.
Proof. intros H. unfold digit36, base36_char. destruct (N.ltb_spec d 10); lia. Qed.

Lemma base36_wire b : base36_char b = true -> wire_char b = true.
Proof. unfold base36_char, wire_char, c_dot, c_bsl. lia. Qed.

Lemma dns_safe_wire b : dns_safeb b = true -> wire_char b = true.
Proof. unfold dns_safeb, wire_char, c_dot, c_bsl. lia. Qed.

(* ------------------------------------------------------------------ *)
(* header *)

Lemma decode_header_encode c uid r1 r2 r3 payload :
  decode_header c (encode_header c uid [r1; r2; r3] ++ payload) =
  Ok (payload, if cmd_needs_uid c then reduce_uid uid else 0).
Proof.
  unfold encode_header, decode_header. cbn [app]. destruct (cmd_needs_uid c).
  - unfold encode_user_id. cbn [app].
    assert (H : uid mod max_user_id < 1296) by (apply N.mod_lt; discriminate).
    rewrite !undigit_digit by (unfold max_user_id in *; lia).
    f_equal. f_equal. unfold reduce_uid. lia.
  - reflexivity.
Qed.

Lemma find_command c : In c commands -> cmd_new c <> None ->
  find (fun k => is_of_type k (cmd_code c)) commands = Some c.
Proof.
  intros Hin Hn. cbn in Hin.
  repeat (destruct Hin as [<-|Hin]; [try reflexivity; exfalso; apply Hn; reflexivity|]). contradiction.
Qed.

(* ------------------------------------------------------------------ *)
(* decode after encode, without the wire *)

Lemma selectable_lossless c : selectable_up c = true -> (match c with Base192 => false | _ => true end) = true.
Proof. destruct c; auto. Qed.

Lemma selectable_alpha c : selectable_up c = true -> (match c with Base192 | Raw => false | _ => true end) = true.
Proof. destruct c; auto. Qed.

Lemma wf_app a b : wf_bytes a -> wf_bytes b -> wf_bytes (a ++ b).
Proof. intros; apply Forall_app; split; assumption. Qed.

Lemma decode_request_encoded e c k uid r1 r2 r3 payload :
  In c commands -> cmd_new c = Some k ->
  decode_request e (encode_header c uid [r1; r2; r3] ++ payload) =
  decode_kind e k c (encode_header c uid [r1; r2; r3] ++ payload).
Proof.
  intros Hin Hk. unfold decode_request, encode_header. cbn [app].
  rewrite find_command by (auto; congruence). rewrite Hk. reflexivity.
Qed.

Ltac start_cmd := 
  rewrite decode_request_encoded with (k := _) by (cbn; auto 12);
  unfold decode_kind; rewrite decode_header_encode; cbn [bind cmd_needs_uid cmd_version cmd_packet cmd_options cmd_fragsize cmd_uptest cmd_downtest].

Lemma decode_encode e req r1 r2 r3 :
  selectable_up e = true -> req_wf req = true ->
  decode_request e (encode_request e req [r1; r2; r3]) = Ok (normalise req).
Proof.
  intros He Hwf. destruct req as [v | uid ack pkt | uid lz mq cl down up frag | uid size | uid p | d];
    cbn [encode_request]; cbn [req_wf] in Hwf.
  - (* version *)
    rewrite decode_request_encoded with (k := KVersion) by (cbn; auto 12).
    unfold decode_kind. rewrite decode_header_encode. cbn [bind cmd_needs_uid cmd_version].
    rewrite codec_roundtrip by (auto using le32_wf). cbn [bind].
    rewrite <- (app_nil_r (le32 v)). rewrite read_le32_le32 by lia. reflexivity.
  - (* packet *)
    rewrite decode_request_encoded with (k := KPacket) by (cbn; auto 12).
    unfold decode_kind. rewrite decode_header_encode. cbn [bind cmd_needs_uid cmd_packet].
    destruct pkt as [[seq data]|]; cbv iota beta in Hwf.
    + assert (Hd : wf_bytes data).
      { apply wf_bytesb_spec. apply andb_prop in Hwf. destruct Hwf as [_ Hwf]. apply andb_prop in Hwf. apply Hwf. }
      rewrite codec_roundtrip; [| apply selectable_lossless, He |].
      2:{ apply wf_app; [apply le16_wf|]. constructor; [reflexivity|]. apply wf_app; [apply le16_wf | exact Hd]. }
      cbn [bind]. unfold decode_packet. rewrite read_le16_le16 by lia. cbn [bind read_byte].
      change (N.land 255 1 =? 0) with false. cbv iota.
      rewrite read_le16_le16 by lia. reflexivity.
    + rewrite codec_roundtrip; [| apply selectable_lossless, He |].
      2:{ apply wf_app; [apply le16_wf|]. repeat constructor. }
      cbn [bind]. unfold decode_packet. rewrite read_le16_le16 by lia. reflexivity.
  - (* options *)
    rewrite decode_request_encoded with (k := KSetOptions) by (cbn; auto 12).
    unfold decode_kind. rewrite decode_header_encode. cbn [bind cmd_needs_uid cmd_options].
    rewrite codec_roundtrip; [| reflexivity |].
    2:{ pose proof (le32_wf (match frag with Some f => f | None => no_size end)).
        repeat (constructor; [destruct lz as [[|]|], mq as [[|]|], cl as [[|]|], down as [[]|], up as [[]|]; reflexivity|]).
        assumption. }
    cbn [bind app]. unfold decode_options.
    rewrite !read_bool_write. rewrite read_codec_byte. cbn [bind]. rewrite read_codec_byte. cbn [bind].
    rewrite <- (app_nil_r (le32 _)). rewrite read_le32_le32.
    2:{ destruct frag; [lia | reflexivity]. }
    cbn [bind normalise]. destruct frag as [f|]; reflexivity.
  - (* fragment size *)
    rewrite decode_request_encoded with (k := KFragSize) by (cbn; auto 12).
    unfold decode_kind. rewrite decode_header_encode. cbn [bind cmd_needs_uid cmd_fragsize].
    rewrite codec_roundtrip by (auto using le32_wf). cbn [bind].
    rewrite <- (app_nil_r (le32 size)). rewrite read_le32_le32 by lia. reflexivity.
  - (* upstream probe *)
    rewrite decode_request_encoded with (k := KUpTest) by (cbn; auto 12).
    unfold decode_kind. rewrite decode_header_encode. reflexivity.
  - (* downstream probe *)
    rewrite decode_request_encoded with (k := KDownTest) by (cbn; auto 12).
    unfold decode_kind. rewrite decode_header_encode. cbn [bind cmd_needs_uid cmd_downtest].
    destruct (registry_codes d) as [E _]. rewrite E. reflexivity.
Qed.

(* ------------------------------------------------------------------ *)
(* the encoded request is a body the name layer carries *)

Lemma wire_ok_app a b : wire_ok a = true -> wire_ok b = true -> wire_ok (a ++ b) = true.
Proof. unfold wire_ok. rewrite forallb_app. intros -> ->. reflexivity. Qed.

Lemma wire_ok_encode c x : (match c with Base192 | Raw => false | _ => true end) = true -> wf_bytes x ->
  wire_ok (encode c x) = true.
Proof.
  intros Hc Hx. pose proof (codec_alphabet c x Hc Hx) as H. unfold wire_ok.
  apply forallb_forall. rewrite Forall_forall in H. intros b Hb. apply dns_safe_wire, H, Hb.
Qed.

Lemma wire_ok_header c uid r : In c commands -> cache_ok r = true -> wire_ok (encode_header c uid r) = true.
Proof.
  intros Hin Hr. unfold cache_ok in Hr. apply andb_prop in Hr. destruct Hr as [_ Hr].
  unfold encode_header. change (cmd_code c :: r ++ ?t) with ([cmd_code c] ++ r ++ t).
  apply wire_ok_app; [|apply wire_ok_app].
  - cbn in Hin. repeat (destruct Hin as [<-|Hin]; [reflexivity|]). contradiction.
  - unfold wire_ok. apply forallb_forall. rewrite forallb_forall in Hr. intros b Hb. apply base36_wire, Hr, Hb.
  - destruct (cmd_needs_uid c); [|reflexivity]. unfold encode_user_id.
    assert (H : uid mod max_user_id < 1296) by (apply N.mod_lt; discriminate).
    unfold wire_ok. cbn [forallb]. rewrite !base36_wire by (apply digit36_base36; unfold max_user_id in *; lia).
    reflexivity.
Qed.

Lemma encode_request_wire_ok e req r :
  selectable_up e = true -> req_wf req = true -> cache_ok r = true -> wire_ok (encode_request e req r) = true.
Proof.
  intros He Hwf Hr. destruct req as [v | uid ack pkt | uid lz mq cl down up frag | uid size | uid p | d];
    cbn [encode_request]; cbn [req_wf] in Hwf; apply wire_ok_app;
    try (apply wire_ok_header; [cbn; auto 12 | exact Hr]).
  - apply wire_ok_encode; [reflexivity | apply le32_wf].
  - apply wire_ok_encode; [apply selectable_alpha, He|].
    apply wf_app; [apply le16_wf|]. destruct pkt as [[seq data]|]; cbv iota beta in Hwf.
    + constructor; [reflexivity|]. apply wf_app; [apply le16_wf|].
      apply wf_bytesb_spec. apply andb_prop in Hwf. destruct Hwf as [_ Hwf]. apply andb_prop in Hwf. apply Hwf.
    + repeat constructor.
  - apply wire_ok_encode; [reflexivity|].
    pose proof (le32_wf (match frag with Some f => f | None => no_size end)).
    repeat (constructor; [destruct lz as [[|]|], mq as [[|]|], cl as [[|]|], down as [[]|], up as [[]|]; reflexivity|]).
    assumption.
  - apply wire_ok_encode; [reflexivity | apply le32_wf].
  - apply andb_prop in Hwf. apply Hwf.
  - destruct d; reflexivity.
Qed.

Lemma encode_request_nonnil e req r : encode_request e req r <> [].
Proof. destruct req; cbn [encode_request encode_header app]; discriminate. Qed.

Lemma encode_header_length c uid r r' : length r = length r' ->
  length (encode_header c uid r) = length (encode_header c uid r').
Proof. intros H. unfold encode_header. cbn [length]. rewrite !app_length, H. reflexivity. Qed.

Lemma encode_request_length e req r r' : length r = length r' ->
  length (encode_request e req r) = length (encode_request e req r').
Proof.
  intros H. destruct req; cbn [encode_request]; rewrite !app_length; f_equal; apply encode_header_length, H.
Qed.

(* ------------------------------------------------------------------ *)
(* (2) every request within the name budget survives the wire *)

Theorem request_roundtrip : forall c req r dom,
  selectable_up c = true -> dom_ok dom = true -> req_wf req = true -> cache_ok r = true ->
  fits dom c req = true ->
  wire_roundtrip c dom req r = Ok (normalise req).
Proof.
  intros c req r dom Hc Hdom Hwf Hr Hfit.
  assert (Hlen : length r = 3%nat).
  { unfold cache_ok in Hr. apply andb_prop in Hr. destruct Hr as [Hr _]. apply Nat.eqb_eq, Hr. }
  destruct (name_layer_wire dom (encode_request c req r)) as (name & w & name' & E1 & E2 & E3 & E4 & _).
  - exact Hdom.
  - apply encode_request_wire_ok; assumption.
  - apply encode_request_nonnil.
  - unfold fits in Hfit. rewrite (encode_request_length c req r cache0) by (rewrite Hlen; reflexivity). exact Hfit.
  - unfold wire_roundtrip, encode_dns_request, compose_request.
    rewrite E1. cbn [bind]. rewrite E2. cbn [bind]. rewrite E3. cbn [bind]. rewrite E4. cbn [bind].
    destruct r as [|r1 [|r2 [|r3 [|]]]]; try discriminate Hlen.
    apply decode_encode; assumption.
Qed.

(* the emitted question is valid for every such request *)
Theorem request_name_valid : forall c req r dom,
  selectable_up c = true -> dom_ok dom = true -> req_wf req = true -> cache_ok r = true ->
  fits dom c req = true ->
  exists name, encode_dns_request c dom req r = Ok name /\
    Forall (fun l => (length l <= 63)%nat) (name_labels name) /\ (name_total name <= 253)%nat.
Proof.
  intros c req r dom Hc Hdom Hwf Hr Hfit.
  assert (Hlen : length r = 3%nat).
  { unfold cache_ok in Hr. apply andb_prop in Hr. destruct Hr as [Hr _]. apply Nat.eqb_eq, Hr. }
  destruct (name_layer_wire dom (encode_request c req r)) as (name & w & name' & E1 & _ & _ & _ & L1 & L2).
  - exact Hdom.
  - apply encode_request_wire_ok; assumption.
  - apply encode_request_nonnil.
  - unfold fits in Hfit. rewrite (encode_request_length c req r cache0) by (rewrite Hlen; reflexivity). exact Hfit.
  - exists name. auto.
Qed.

Print Assumptions request_roundtrip.
Print Assumptions request_name_valid.


(* ------------------------------------------------------------------ *)
(* the observation the harness protocol prescribes, for every request within the budget:
   name <len> <longest label> wire 1 <qtype> <the normalised request>, with the limits respected *)

Lemma max_label_le name : Forall (fun l => (length l <= 63)%nat) (name_labels name) -> (max_label name <= 63)%nat.
Proof.
  unfold max_label. induction 1 as [|l ls Hl _ IH]; cbn [map fold_right]; [lia|].
  apply Nat.max_lub; assumption.
Qed.

Theorem c09_observation : forall c req dom qt,
  selectable_up c = true -> dom_ok dom = true -> req_wf req = true -> fits dom c req = true -> qt < 65536 ->
  exists tot ml,
    c09_obs c qt dom req = [W "name"; Tnat tot; Tnat ml; W "wire"; TI 1; TN qt] ++ req_toks (normalise req) /\
    (ml <= 63)%nat /\ (tot <= 253)%nat.
Proof.
  intros c req dom qt Hc Hdom Hwf Hfit Hq.
  destruct (name_layer_full dom (encode_request c req cache0)) as (name & w & name' & E1 & _ & _ & E4 & L1 & L2 & Q).
  - exact Hdom.
  - apply encode_request_wire_ok; auto.
  - apply encode_request_nonnil.
  - exact Hfit.
  - destruct (Q qt Hq) as (q & Q1 & Q2).
    exists (name_total name), (max_label name). split; [|split; [apply max_label_le, L1 | exact L2]].
    unfold c09_obs, encode_dns_request, compose_request. rewrite E1, Q1, Q2, E4.
    unfold cache0. rewrite decode_encode by assumption. reflexivity.
Qed.

Print Assumptions c09_observation.
