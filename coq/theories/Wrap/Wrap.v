(* C10 - model of internal/streams/dns/util/wrap.go (the eight WrapDnsResponse* splitters, TypePriority,
   Unescape, UnwrapDnsResponse), util/consts.go (GetLongestDataString, PrepareHostname), util/dotify.go, and a
   specification-level model of miekg/dns v1.1.34 Msg.Pack / Msg.Unpack for the record types the tunnel uses.
   Definitions only; proofs are in Wrap_proofs.v. *)
From Coq Require Import String List NArith ZArith Bool.
From SA Require Import Base.Tok Codec.Bits Codec.Codec Gen.Alphabets.
Import ListNotations.
Open Scope N_scope.

(* ------------------------------------------------------------------------------------------------ *)
(* record types (util/query_types.go) *)

Inductive rtype := RNull | RPrivate | RTxt | RSrv | RMx | RCname | RAAAA | RA.

Definition rtype_code (rt : rtype) : N :=
  match rt with
  | RNull => 10 | RPrivate => 65000 | RTxt => 16 | RSrv => 33 | RMx => 15 | RCname => 5 | RAAAA => 28 | RA => 1
  end.

Definition all_rtypes : list rtype := [RNull; RPrivate; RTxt; RSrv; RMx; RCname; RAAAA; RA].

Definition rtype_of_code (n : N) : option rtype := find (fun rt => N.eqb (rtype_code rt) n) all_rtypes.

(* ------------------------------------------------------------------------------------------------ *)
(* small helpers *)

Definition zlen (b : bytes) : Z := Z.of_nat (length b).
Definition nlen (b : bytes) : N := N.of_nat (length b).

(* Go s[lo:hi] on a string, or on a slice whose capacity equals its length: a run-time panic outside
   0 <= lo <= hi <= len(s) *)
Definition slice (site : bytes) (s : bytes) (lo hi : Z) : res bytes :=
  if ((0 <=? lo) && (lo <=? hi) && (hi <=? zlen s))%Z
  then Ok (firstn (Z.to_nat (hi - lo)) (skipn (Z.to_nat lo) s))
  else Panic site.

Definition le16 (n : N) : bytes := [n mod 256; (n / 256) mod 256].
Definition be16 (n : N) : bytes := [(n / 256) mod 256; n mod 256].
Definition le32 (n : N) : bytes := [n mod 256; (n / 256) mod 256; (n / 65536) mod 256; (n / 16777216) mod 256].
Definition rd_le16 (a b : N) : N := a + 256 * b.
Definition rd_be16 (a b : N) : N := 256 * a + b.

Definition u16 (n : N) : N := n mod 65536.
Definition u32z (z : Z) : Z := (z mod 4294967296)%Z.

Fixpoint map_res {A B} (f : A -> res B) (l : list A) : res (list B) :=
  match l with
  | [] => Ok []
  | x :: r => do y <- f x ;; do ys <- map_res f r ;; Ok (y :: ys)
  end.

Fixpoint mapi {A B} (f : N -> A -> B) (i : N) (l : list A) : list B :=
  match l with
  | [] => []
  | x :: r => f i x :: mapi f (i + 1) r
  end.

(* the splitting loop shared by all the wrappers:
     for len(data) > 0 { if len(data) > k { d = data[0:k]; data = data[k:] } else { d = data; data = data[0:0] } ... } *)
Fixpoint chunks {A} (fuel : nat) (k : nat) (data : list A) : list (list A) :=
  match fuel with
  | O => []
  | S f =>
    match data with
    | [] => []
    | _ => firstn k data :: chunks f k (skipn k data)
    end
  end.

(* enc.IntToBase32Char / enc.Base32CharToInt *)
Definition int_to_b32 (n : N) : N := lookup cb32 (N.land n 31).

Definition b32_to_int (c : N) : Z :=
  match index_of cb32 c 0 with
  | Some i => Z.of_N i
  | None => match index_of cb32Ucase c 0 with Some i => Z.of_N i | None => (-1)%Z end
  end.

(* the two-character order tag:  d[0] = IntToBase32Char(order); d[1] = IntToBase32Char(order >> 4) *)
Definition tag2 (order : N) : bytes := [int_to_b32 order; int_to_b32 (N.shiftr order 4)].

Definition is_digit (b : N) : bool := (48 <=? b) && (b <=? 57).
(* byte((a-'0')*100 + (b-'0')*10 + (c-'0')), Go byte arithmetic *)
Definition ddd_val (a b c : N) : N := ((a - 48) * 100 + (b - 48) * 10 + (c - 48)) mod 256.
Definition ddd_of (b : N) : bytes := [92; 48 + b / 100; 48 + (b / 10) mod 10; 48 + b mod 10].

(* util.Unescape; miekg's packTxtString applies the very same automaton to a TXT string:
   \DDD -> the octet, \X -> X, a lone trailing backslash is dropped *)
Fixpoint unescape (fuel : nat) (d : bytes) : bytes :=
  match fuel with
  | O => []
  | S f =>
    match d with
    | [] => []
    | c :: r =>
      if c =? 92 then
        match r with
        | [] => []
        | d1 :: r1 =>
          match r1 with
          | d2 :: d3 :: r3 =>
            if is_digit d1 && is_digit d2 && is_digit d3 then ddd_val d1 d2 d3 :: unescape f r3
            else d1 :: unescape f r1
          | _ => d1 :: unescape f r1
          end
        end
      else c :: unescape f r
    end
  end.
Definition unesc (d : bytes) : bytes := unescape (length d) d.

(* ------------------------------------------------------------------------------------------------ *)
(* util/dotify.go, util/consts.go *)

Definition DOT : N := 46.
Definition BSL : N := 92.

Fixpoint dotify (fuel : nat) (buf : bytes) : bytes :=
  match fuel with
  | O => buf
  | S f => if (57 <? length buf)%nat then firstn 57 buf ++ DOT :: dotify f (skipn 57 buf) else buf
  end.

Definition undotify (s : bytes) : bytes := filter (fun c => negb (c =? DOT)) s.

(* GetLongestDataString; Go's integer division truncates toward zero *)
Definition longest_data_string (dom : bytes) : Z :=
  let space := (253 - 2 - zlen dom - 2)%Z in
  let space := (space - Z.quot space 58)%Z in
  (space - 2)%Z.

Definition prepare_hostname (d dom : bytes) : res bytes :=
  let d' := if (60 <? length d)%nat then dotify (length d) d else d in
  let h := d' ++ DOT :: dom ++ [DOT] in
  if (251 <? length h)%nat then Err (wd "toolong") else Ok h.

(* ------------------------------------------------------------------------------------------------ *)
(* resource records as the tunnel builds them and as miekg hands them back *)

Inductive rr :=
| RRNull (data : bytes)
| RRPrivate (data : bytes)
| RRTxt (txt : list bytes)
| RRMx (pref : N) (mx : bytes)
| RRSrv (prio weight port : N) (target : bytes)
| RRCname (target : bytes)
| RRAAAA (ip : bytes)
| RRA (ip : bytes)
| RROther (rrtype : N).      (* any other type: RFC3597, ignored by the tunnel *)

Record msg := { m_q : bytes; m_answers : list rr }.

(* ------------------------------------------------------------------------------------------------ *)
(* the eight splitters.  order is a uint16 *)

Definition BIG : nat := N.to_nat 65530.

Definition wrap_null (data : bytes) : list rr :=
  mapi (fun i d => RRNull (le16 (u16 (i + 1)) ++ d)) 0 (chunks (length data) BIG data).

Definition wrap_private (data : bytes) : list rr :=
  mapi (fun i d => RRPrivate (le16 (u16 (i + 1)) ++ d)) 0 (chunks (length data) BIG data).

Definition wrap_aaaa (data : bytes) : list rr :=
  mapi (fun i d => RRAAAA (le16 (u16 (i + 1)) ++ d)) 0 (chunks (length data) 14 data).

(* if order > 255 { return errors.Errorf("Message too long.") } *)
Definition wrap_a (data : bytes) : res (list rr) :=
  let cs := chunks (length data) 3 data in
  if (255 <? length cs)%nat then Err (wd "other")
  else Ok (mapi (fun i d => RRA ((i + 1) mod 256 :: d)) 0 cs).

(* strings.Replace(string(d), "\\", "\\\\", -1) *)
Definition txt_dbl (s : bytes) : bytes := flat_map (fun c => if c =? BSL then [BSL; BSL] else [c]) s.

(* 253 octets per string, 250 strings per record, the tag (order starts at 0 here) in front of the first
   string of every record *)
Definition wrap_txt (data : bytes) : list rr :=
  let strs := chunks (length data) 253 data in
  mapi (fun k ss =>
          match ss with
          | [] => RRTxt []
          | s0 :: rest => RRTxt (map txt_dbl ((tag2 (u16 k) ++ s0) :: rest))
          end) 0 (chunks (length strs) 250 strs).

(* the chunking of the three name-carrying types:  maxLen := GetLongestDataString(domain);
   data[0:maxLen] panics for a negative maxLen, and maxLen = 0 never consumes anything *)
Definition name_chunks (site : bytes) (dom data : bytes) : res (list bytes) :=
  match data with
  | [] => Ok []
  | _ =>
    let ml := longest_data_string dom in
    if (ml <? 0)%Z then Panic site
    else if (ml =? 0)%Z then Panic (wd "diverges")
    else Ok (chunks (length data) (Z.to_nat ml) data)
  end.

Definition wrap_cname (data dom : bytes) : res (list rr) :=
  do cs <- name_chunks (wd "util.WrapDnsResponseCname") dom data ;;
  map_res (fun x => x)
    (mapi (fun i d => do t <- prepare_hostname (tag2 (u16 (i + 1)) ++ d) dom ;; Ok (RRCname t)) 0 cs).

Definition wrap_srv (data dom : bytes) : res (list rr) :=
  do cs <- name_chunks (wd "util.WrapDnsResponseSrv") dom data ;;
  map_res (fun x => x)
    (mapi (fun i d => do t <- prepare_hostname d dom ;; Ok (RRSrv (u16 (i + 1)) 0 0 t)) 0 cs).

Definition wrap_mx (data dom : bytes) : res (list rr) :=
  do cs <- name_chunks (wd "util.WrapDnsResponseMx") dom data ;;
  map_res (fun x => x)
    (mapi (fun i d => do t <- prepare_hostname d dom ;; Ok (RRMx (u16 (10 * (i + 1))) t)) 0 cs).

Definition wrap_answers (rt : rtype) (data dom : bytes) : res (list rr) :=
  match rt with
  | RNull => Ok (wrap_null data)
  | RPrivate => Ok (wrap_private data)
  | RTxt => Ok (wrap_txt data)
  | RMx => wrap_mx data dom
  | RSrv => wrap_srv data dom
  | RCname => wrap_cname data dom
  | RAAAA => Ok (wrap_aaaa data)
  | RA => wrap_a data
  end.

(* WrapDnsResponse on msg.SetReply(request): every answer is owned by the question name q *)
Definition wrap (rt : rtype) (data dom q : bytes) : res msg :=
  do a <- wrap_answers rt data dom ;; Ok {| m_q := q; m_answers := a |}.

(* ------------------------------------------------------------------------------------------------ *)
(* miekg/dns: domain names *)

(* utf8.DecodeRuneInString on exactly the octets given: the width of the first rune if it is a valid
   multi-octet encoding, otherwise 1 *)
Definition cont (b : N) : bool := (128 <=? b) && (b <=? 191).
Definition rune_width (s : bytes) : nat :=
  match s with
  | b0 :: b1 :: r =>
    if (194 <=? b0) && (b0 <=? 223) then (if cont b1 then 2 else 1)%nat
    else match r with
         | b2 :: r' =>
           let three :=
             ((b0 =? 224) && (160 <=? b1) && (b1 <=? 191) && cont b2)
             || ((((225 <=? b0) && (b0 <=? 236)) || (b0 =? 238) || (b0 =? 239)) && cont b1 && cont b2)
             || ((b0 =? 237) && (128 <=? b1) && (b1 <=? 159) && cont b2) in
           if (224 <=? b0) && (b0 <=? 239) then (if three then 3 else 1)%nat
           else match r' with
                | b3 :: _ =>
                  let four :=
                    ((b0 =? 240) && (144 <=? b1) && (b1 <=? 191) && cont b2 && cont b3)
                    || ((241 <=? b0) && (b0 <=? 243) && cont b1 && cont b2 && cont b3)
                    || ((b0 =? 244) && (128 <=? b1) && (b1 <=? 143) && cont b2 && cont b3) in
                  if four then 4%nat else 1%nat
                | [] => 1%nat
                end
         | [] => 1%nat
         end
  | _ => 1%nat
  end.

(* utf8.DecodeLastRuneInString: the width of the last rune.  rs is the string REVERSED. *)
Definition is_rune_start (b : N) : bool := negb (cont b).
Definition last_rune_width (rs : bytes) : nat :=
  match rs with
  | [] => 0%nat
  | b :: _ =>
    if b <? 128 then 1%nat else
    (* walk back at most 3 further octets looking for a rune start *)
    let fix back (k : nat) (seen : nat) (l : bytes) : nat :=
        match k, l with
        | S k', c :: l' => if is_rune_start c then S seen else back k' (S seen) l'
        | _, _ => seen      (* lim reached (then start = lim) or start of string *)
        end in
    let n := match rs with _ :: tl => back 3%nat 1%nat tl | [] => 1%nat end in
    let n := Nat.min n (length rs) in
    let cand := rev (firstn n rs) in
    if Nat.eqb (rune_width cand) n then n else 1%nat
  end.

(* strings.LastIndexFunc(s2, r != '\\'): skip trailing backslashes (each one rune), then one rune *)
Fixpoint strip_bsl (rs : bytes) : nat * bytes :=
  match rs with
  | c :: r => if c =? BSL then let '(n, t) := strip_bsl r in (S n, t) else (O, rs)
  | [] => (O, [])
  end.

(* dns.IsFqdn *)
Definition is_fqdn (s : bytes) : bool :=
  match rev s with
  | c :: rs2 =>
    if c =? DOT then
      let '(nb, t) := strip_bsl rs2 in
      (* i = index of the last rune that is not a backslash, or -1; the test is (len(s2)-i) odd *)
      match t with
      | [] => Nat.even nb              (* i = -1 : len(s2)+1 odd *)
      | _ => Nat.odd (nb + last_rune_width t)
      end
    else false
  | [] => false
  end.

(* the label loop of packDomainName; cur is the current label reversed *)
Fixpoint name_labels (fuel : nat) (s cur : bytes) (wasdot : bool) : res (list bytes) :=
  match fuel with
  | O => Ok []
  | S f =>
    match s with
    | [] => Ok []
    | c :: r =>
      if c =? BSL then
        match r with
        | [] => Ok []
        | d1 :: r1 =>
          match r1 with
          | d2 :: d3 :: r3 =>
            if is_digit d1 && is_digit d2 && is_digit d3 then name_labels f r3 (ddd_val d1 d2 d3 :: cur) false
            else name_labels f r1 (d1 :: cur) false
          | _ => name_labels f r1 (d1 :: cur) false
          end
        end
      else if c =? DOT then
        if wasdot then Err (wd "rdata")
        else if (64 <=? length cur)%nat then Err (wd "rdata")
        else do rest <- name_labels f r [] true ;; Ok (rev cur :: rest)
      else name_labels f r (c :: cur) false
    end
  end.

Definition wire_of_labels (ls : list bytes) : bytes := flat_map (fun l => nlen l :: l) ls ++ [0].

(* packDomainName without compression (Msg.Compress is never set by the tunnel) *)
Definition pack_name (s : bytes) : res bytes :=
  match s with
  | [] => Ok []
  | _ =>
    if negb (is_fqdn s) then Err (wd "fqdn")
    else if bytes_eqb s [DOT] then Ok [0]
    else do ls <- name_labels (length s) s [] false ;; Ok (wire_of_labels ls)
  end.

Definition name_special (b : N) : bool :=
  (b =? 46) || (b =? 32) || (b =? 39) || (b =? 64) || (b =? 59) || (b =? 40) || (b =? 41) || (b =? 34) || (b =? 92).

Definition esc_name_byte (b : N) : bytes :=
  if name_special b then [BSL; b] else if (b <? 32) || (126 <? b) then ddd_of b else [b].

Definition esc_txt_byte (b : N) : bytes :=
  if (b =? 34) || (b =? 92) then [BSL; b] else if (b <? 32) || (126 <? b) then ddd_of b else [b].

(* UnpackDomainName on an uncompressed name: (presentation without the "." for the root, rest) *)
Fixpoint unpack_name_loop (fuel : nat) (w : bytes) (budget : Z) : res (bytes * bytes) :=
  match fuel with
  | O => Err (wd "buf")
  | S f =>
    match w with
    | [] => Err (wd "buf")
    | c :: r =>
      if c =? 0 then Ok ([], r)
      else if c <? 64 then
        if (length r <? N.to_nat c)%nat then Err (wd "buf")
        else
          let budget' := (budget - (Z.of_N c + 1))%Z in
          if (budget' <=? 0)%Z then Err (wd "longdomain")
          else
            do sr <- unpack_name_loop f (skipn (N.to_nat c) r) budget' ;;
            Ok (flat_map esc_name_byte (firstn (N.to_nat c) r) ++ DOT :: fst sr, snd sr)
      else if 192 <=? c then Err (wd "pointer")      (* compression is absent from this model *)
      else Err (wd "rdata")
    end
  end.

Definition unpack_name (w : bytes) : res (bytes * bytes) :=
  do sr <- unpack_name_loop (length w) w 255 ;;
  Ok (match fst sr with [] => [DOT] | s => s end, snd sr).

(* ------------------------------------------------------------------------------------------------ *)
(* miekg/dns: rdata *)

(* packTxtString: the scratch buffer holds 256*4+1 octets; a string longer than 255 after un-escaping is refused *)
Definition pack_txt_string (s : bytes) : res bytes :=
  if (1025 <? length s)%nat then Err (wd "buf")
  else
    let u := unesc s in
    if (255 <? length u)%nat then Err (wd "txt255") else Ok (nlen u :: u).

Fixpoint concat_res (l : list (res bytes)) : res bytes :=
  match l with
  | [] => Ok []
  | x :: r => do a <- x ;; do b <- concat_res r ;; Ok (a ++ b)
  end.

(* net.IP.To4 on a 16-octet address *)
Definition to4_of16 (ip : bytes) : bytes :=
  if bytes_eqb (firstn 12 ip) [0; 0; 0; 0; 0; 0; 0; 0; 0; 0; 255; 255] then skipn 12 ip else [0; 0; 0; 0].

Definition pack_rdata (r : rr) : res bytes :=
  match r with
  | RRNull d => Ok d
  | RRPrivate d => Ok d
  | RRTxt l => concat_res (map pack_txt_string l)       (* an empty list packs to nothing *)
  | RRMx p n => do w <- pack_name n ;; Ok (be16 p ++ w)
  | RRSrv p we po n => do w <- pack_name n ;; Ok (be16 p ++ be16 we ++ be16 po ++ w)
  | RRCname n => pack_name n
  | RRAAAA ip =>
    match length ip with
    | 16%nat => Ok ip
    | O => Ok []
    | _ => Err (wd "aaaa")
    end
  | RRA ip =>
    match length ip with
    | 4%nat => Ok ip
    | 16%nat => Ok (to4_of16 ip)
    | O => Ok []
    | _ => Err (wd "a")
    end
  | RROther _ => Ok []
  end.

Definition rr_code (r : rr) : N :=
  match r with
  | RRNull _ => 10 | RRPrivate _ => 65000 | RRTxt _ => 16 | RRMx _ _ => 15 | RRSrv _ _ _ _ => 33
  | RRCname _ => 5 | RRAAAA _ => 28 | RRA _ => 1 | RROther t => t
  end.

(* the packed message, at specification level: the wire form of the question name (which is also the owner
   name of every answer), the ANCOUNT field, and the (type, rdata) of every answer *)
Record wire := { w_q : bytes; w_ancount : N; w_rrs : list (N * bytes) }.

Definition pack_rr (r : rr) : res (N * bytes) :=
  do rd <- pack_rdata r ;;
  if 65535 <? nlen rd then Err (wd "rdlength") else Ok (rr_code r, rd).

Definition pack (m : msg) : res wire :=
  do qw <- pack_name (m_q m) ;;
  do rs <- map_res pack_rr (m_answers m) ;;
  Ok {| w_q := qw; w_ancount := u16 (N.of_nat (length (m_answers m))); w_rrs := rs |}.

(* len(buf): 12 octets of header, the question, and per answer the owner name, 10 octets of fixed fields and the rdata *)
Definition wire_len (w : wire) : N :=
  12 + (nlen (w_q w) + 4) + fold_right (fun x acc => nlen (w_q w) + 10 + nlen (snd x) + acc) 0 (w_rrs w).

(* unpackString / unpackTxt *)
Fixpoint unpack_txt (fuel : nat) (rd : bytes) : res (list bytes) :=
  match fuel with
  | O => Ok []
  | S f =>
    match rd with
    | [] => Ok []
    | l :: r =>
      if (length r <? N.to_nat l)%nat then Err (wd "txt")
      else do rest <- unpack_txt f (skipn (N.to_nat l) r) ;;
           Ok (flat_map esc_txt_byte (firstn (N.to_nat l) r) :: rest)
    end
  end.

(* a name that must fill the rest of the rdata ("bad rdlength" otherwise) *)
Definition unpack_last_name (rd : bytes) : res bytes :=
  do sr <- unpack_name rd ;;
  match snd sr with [] => Ok (fst sr) | _ => Err (wd "rdlength") end.

(* Types the tunnel never uses but the DNS library knows (c10raw feeds NS, SOA, OPT and SPF records to the client):
   only whether their rdata unpacks matters, the record itself is ignored by UnwrapDnsResponse. *)
Definition unpack_soa (rd : bytes) : res unit :=
  do sr <- unpack_name rd ;;
  match snd sr with
  | [] => Ok tt
  | r1 =>
    do sr2 <- unpack_name r1 ;;
    (* Serial, Refresh, Retry, Expire, Minttl: the rdata may end after any of them *)
    let n := length (snd sr2) in
    if (Nat.eqb (n mod 4) 0) && (n <=? 20)%nat then Ok tt else Err (wd "soa")
  end.

(* EDNS0 options whose unpack can fail: LLQ (1), UL (2), SUBNET (8), EXPIRE (9) *)
Definition opt_ok (code : N) (b : bytes) : bool :=
  if code =? 1 then (18 <=? length b)%nat
  else if code =? 2 then Nat.eqb (length b) 4 || Nat.eqb (length b) 8
  else if code =? 8 then
    match b with
    | f1 :: f0 :: mask :: scope :: _ =>
      let fam := 256 * f1 + f0 in
      if fam =? 0 then mask =? 0
      else if fam =? 1 then (mask <=? 32) && (scope <=? 32)
      else if fam =? 2 then (mask <=? 128) && (scope <=? 128)
      else false
    | _ => false
    end
  else if code =? 9 then Nat.eqb (length b) 0 || (4 <=? length b)%nat
  else true.

(* unpackDataOpt *)
Fixpoint unpack_opt (fuel : nat) (rd : bytes) : res unit :=
  match fuel with
  | O => Err (wd "opt")
  | S f =>
    match rd with
    | c1 :: c0 :: l1 :: l0 :: r =>
      let len := N.to_nat (256 * l1 + l0) in
      if (length r <? len)%nat then Err (wd "opt")
      else if opt_ok (256 * c1 + c0) (firstn len r) then
        match skipn len r with
        | [] => Ok tt
        | r' => unpack_opt f r'
        end
      else Err (wd "opt")
    | _ => Err (wd "opt")
    end
  end.

(* UnpackRRWithHeader: an empty rdata leaves the freshly made record untouched *)
Definition unpack_rr (x : N * bytes) : res rr :=
  let '(t, rd) := x in
  match rd with
  | [] =>
    Ok (if t =? 10 then RRNull [] else if t =? 65000 then RRPrivate [] else if t =? 16 then RRTxt []
        else if t =? 15 then RRMx 0 [] else if t =? 33 then RRSrv 0 0 0 [] else if t =? 5 then RRCname []
        else if t =? 28 then RRAAAA [] else if t =? 1 then RRA [] else RROther t)
  | _ =>
    if t =? 10 then Ok (RRNull rd)
    else if t =? 65000 then Ok (RRPrivate rd)
    else if t =? 16 then do l <- unpack_txt (length rd) rd ;; Ok (RRTxt l)
    else if t =? 15 then
      match rd with
      | a :: b :: r =>
        match r with
        | [] => Ok (RRMx (rd_be16 a b) [])
        | _ => do n <- unpack_last_name r ;; Ok (RRMx (rd_be16 a b) n)
        end
      | _ => Err (wd "uint16")
      end
    else if t =? 33 then
      match rd with
      | a :: b :: r =>
        match r with
        | [] => Ok (RRSrv (rd_be16 a b) 0 0 [])
        | c :: d :: r' =>
          match r' with
          | [] => Ok (RRSrv (rd_be16 a b) (rd_be16 c d) 0 [])
          | e :: g :: r'' =>
            match r'' with
            | [] => Ok (RRSrv (rd_be16 a b) (rd_be16 c d) (rd_be16 e g) [])
            | _ => do n <- unpack_last_name r'' ;; Ok (RRSrv (rd_be16 a b) (rd_be16 c d) (rd_be16 e g) n)
            end
          | _ => Err (wd "uint16")
          end
        | _ => Err (wd "uint16")
        end
      | _ => Err (wd "uint16")
      end
    else if t =? 5 then do n <- unpack_last_name rd ;; Ok (RRCname n)
    else if t =? 28 then (if Nat.eqb (length rd) 16 then Ok (RRAAAA rd) else Err (wd "aaaa"))
    else if t =? 1 then (if Nat.eqb (length rd) 4 then Ok (RRA rd) else Err (wd "a"))
    else if t =? 2 then do n <- unpack_last_name rd ;; Ok (RROther t)
    else if t =? 6 then do _u <- unpack_soa rd ;; Ok (RROther t)
    else if t =? 41 then do _u <- unpack_opt (length rd) rd ;; Ok (RROther t)
    else if t =? 99 then do l <- unpack_txt (length rd) rd ;; Ok (RROther t)
    else Ok (RROther t)
  end.

(* Msg.Unpack: the question, then ANCOUNT answers (the counter is 16 bits wide; what follows is ignored) *)
Definition unpack (w : wire) : res msg :=
  do q <- unpack_last_name (w_q w) ;;
  do a <- map_res unpack_rr (firstn (N.to_nat (w_ancount w)) (w_rrs w)) ;;
  Ok {| m_q := q; m_answers := a |}.

(* ------------------------------------------------------------------------------------------------ *)
(* TypePriority and UnwrapDnsResponse *)

Definition tag_prio (base : Z) (c0 c1 : N) : Z :=
  u32z (base + u32z (b32_to_int c0 + b32_to_int c1 * 32)).

(* a record too short to carry its order tag (and any type the tunnel does not use) sorts last, with priority 90000 *)
Definition type_priority (r : rr) : res Z :=
  match r with
  | RRNull d => match d with a :: b :: _ => Ok (10000 + Z.of_N (rd_le16 a b))%Z | _ => Ok 90000%Z end
  | RRPrivate d => match d with a :: b :: _ => Ok (20000 + Z.of_N (rd_le16 a b))%Z | _ => Ok 90000%Z end
  | RRTxt l =>
    match l with
    | (c0 :: c1 :: _) :: _ => Ok (tag_prio 30000 c0 c1)
    | _ => Ok 90000%Z
    end
  | RRMx p _ => Ok (40000 + Z.of_N p)%Z
  | RRSrv p _ _ _ => Ok (50000 + Z.of_N p)%Z
  | RRCname t => match t with c0 :: c1 :: _ => Ok (tag_prio 60000 c0 c1) | _ => Ok 90000%Z end
  | RRAAAA ip => match ip with a :: b :: _ => Ok (70000 + Z.of_N (rd_le16 a b))%Z | _ => Ok 90000%Z end
  | RRA ip => match ip with a :: _ => Ok (80000 + Z.of_N a)%Z | _ => Ok 90000%Z end
  | RROther _ => Ok 90000%Z
  end.

(* sort.Slice with a strict "less": modelled as a stable insertion sort (exactly Go's algorithm up to 12 records;
   for more records Go's pdqsort gives the same result whenever the priorities are pairwise distinct) *)
Fixpoint insert_by (x : Z * rr) (l : list (Z * rr)) : list (Z * rr) :=
  match l with
  | [] => [x]
  | y :: r => if (fst y <? fst x)%Z then y :: insert_by x r else x :: l
  end.
Definition sort_by (l : list (Z * rr)) : list (Z * rr) := fold_right insert_by [] l.

(* the closure stripDomain of UnwrapDnsResponse: a name shorter than ".<domain>." holds no data *)
Definition strip_domain (n dom : bytes) : option bytes :=
  let l := (zlen n - zlen dom - 2)%Z in
  if (l <? 0)%Z then None else Some (firstn (Z.to_nat l) n).

(* if len(d) >= k { resp = append(resp, d[k:]...) }: a record shorter than its order tag is skipped *)
Definition drop_tag (k : nat) (d : bytes) : bytes := if (k <=? length d)%nat then skipn k d else [].

Definition target_piece (n dom : bytes) : bytes :=
  match strip_domain n dom with
  | Some x => unesc (undotify x)
  | None => []
  end.

Definition piece (dom : bytes) (r : rr) : res bytes :=
  match r with
  | RRNull d => Ok (drop_tag 2 d)
  | RRPrivate d => Ok (drop_tag 2 d)
  | RRTxt l => Ok (drop_tag 2 (unesc (concat l)))
  | RRMx _ n => Ok (target_piece n dom)
  | RRSrv _ _ _ n => Ok (target_piece n dom)
  | RRCname t => if (length t <? 2)%nat then Ok [] else Ok (target_piece (skipn 2 t) dom)
  | RRAAAA ip => Ok (drop_tag 2 ip)
  | RRA ip => Ok (drop_tag 1 ip)
  | RROther _ => Ok []
  end.

(* the less function is only ever called when there are at least two answers *)
Definition sorted_answers (l : list rr) : res (list rr) :=
  match l with
  | _ :: _ :: _ =>
    do ps <- map_res type_priority l ;;
    Ok (map snd (sort_by (combine ps l)))
  | _ => Ok l
  end.

Definition unwrap (m : msg) (dom : bytes) : res bytes :=
  do l <- sorted_answers (m_answers m) ;;
  concat_res (map (piece dom) l).

(* ------------------------------------------------------------------------------------------------ *)
(* vocabulary of the theorems (Wrap_proofs.v, Responses_proofs.v) *)

(* the (record type, downstream codec) combinations for which the round trip is claimed *)
Definition carries (rt : rtype) (c : codec) : bool :=
  match rt with
  | RA | RAAAA => false
  | RNull | RPrivate | RTxt => match c with Base192 => false | _ => true end
  | RSrv | RMx | RCname => match c with Base192 | Raw => false | _ => true end
  end.

Definition name_carrying (rt : rtype) : bool :=
  match rt with RSrv | RMx | RCname => true | _ => false end.

(* a tunnel domain: dot-separated labels of 1..63 printable characters none of which needs escaping, short enough
   for GetLongestDataString to leave room for at least one payload octet per record *)
Definition plain_char (b : N) : bool := (33 <=? b) && (b <=? 126) && negb (name_special b).

Fixpoint split_dots (s cur : bytes) : list bytes :=
  match s with
  | [] => [rev cur]
  | c :: r => if c =? DOT then rev cur :: split_dots r [] else split_dots r (c :: cur)
  end.
Definition dom_labels (dom : bytes) : list bytes := split_dots dom [].

Definition label_ok (l : bytes) : bool := (1 <=? length l)%nat && (length l <=? 63)%nat && forallb plain_char l.
Definition dom_ok (dom : bytes) : bool := forallb label_ok (dom_labels dom) && (length dom <=? 246)%nat.

(* the question name (= owner name of every answer) packs and unpacks *)
Definition qname_ok (q : bytes) : bool :=
  match pack_name q with
  | Ok w => match unpack_last_name w with Ok _ => true | _ => false end
  | _ => false
  end.

(* octets; DNS-safe octets (what every codec but Raw and Base192 emits) for the types that carry the payload in a name *)
Definition payload_ok (rt : rtype) (p : bytes) : bool :=
  wf_bytesb p && (if name_carrying rt then forallb dns_safeb p else true).

(* the number of answer records the splitter makes, and the number its order tag can tell apart *)
Definition nrecords (rt : rtype) (dom p : bytes) : nat :=
  match rt with
  | RNull | RPrivate => length (chunks (length p) BIG p)
  | RTxt => let strs := chunks (length p) 253 p in length (chunks (length strs) 250 strs)
  | RAAAA => length (chunks (length p) 14 p)
  | RA => length (chunks (length p) 3 p)
  | RSrv | RMx | RCname => length (chunks (length p) (Z.to_nat (longest_data_string dom)) p)
  end.

Definition max_records (rt : rtype) : N :=
  match rt with
  | RNull | RPrivate | RSrv | RAAAA => 65535
  | RTxt => 512
  | RCname => 511
  | RMx => 6553
  | RA => 255
  end.

Definition size_ok (rt : rtype) (dom p : bytes) : bool := N.of_nat (nrecords rt dom p) <=? max_records rt.
