(* C10 - proofs about Responses.v *)
From Coq Require Import String List NArith ZArith Bool Lia Arith Sorted.
From Coq Require Import ZifyN ZifyNat ZifyBool.
From SA Require Import Base.Tok Codec.Bits Codec.Codec Codec.Codec_proofs Gen.Alphabets.
From SA.Wrap Require Import Wrap Responses Wrap_proofs.
Import ListNotations.
Open Scope N_scope.
Ltac Zify.zify_post_hook ::= Z.div_mod_to_equations.

(* ------------------------------------------------------------------------------------------------ *)
(* errors *)

Lemma bad_errors_fact :
  forallb (fun i => match err_of_string (nth i bad_errors []) with EBad j => Nat.eqb i j | _ => false end
                    && wf_bytesb (nth i bad_errors []) && negb (existsb (fun b => b =? 0) (nth i bad_errors [])))
          (seq 0 14) = true.
Proof. vm_compute. reflexivity. Qed.

Lemma bad_error_facts i : (i < 14)%nat ->
  err_of_string (nth i bad_errors []) = EBad i /\ wf_bytes (nth i bad_errors []) /\
  existsb (fun b => b =? 0) (nth i bad_errors []) = false.
Proof.
  intros Hi. pose proof bad_errors_fact as H. rewrite forallb_forall in H.
  specialize (H i ltac:(apply in_seq; lia)).
  apply andb_prop in H. destruct H as [H H3]. apply andb_prop in H. destruct H as [H1 H2].
  split; [| split].
  - destruct (err_of_string (nth i bad_errors [])); try discriminate. apply Nat.eqb_eq in H1. congruence.
  - apply wf_bytesb_spec; exact H2.
  - apply negb_true_iff; exact H3.
Qed.

Lemma err_text_wf e t : err_wf e = true -> err_text e = Some t -> wf_bytes t.
Proof.
  destruct e as [| i | m]; cbn [err_wf err_text]; intros Hw Ht; inversion Ht; subst.
  - apply bad_error_facts. apply Nat.ltb_lt; exact Hw.
  - apply wf_bytesb_spec; exact Hw.
Qed.

Lemma err_of_string_norm e t : err_wf e = true -> err_text e = Some t -> err_of_string t = norm_err e.
Proof.
  destruct e as [| i | m]; cbn [err_wf err_text norm_err]; intros Hw Ht; inversion Ht; subst.
  - apply bad_error_facts. apply Nat.ltb_lt; exact Hw.
  - reflexivity.
Qed.

Lemma read_err_ok e t : err_wf e = true -> err_no_nul e = true -> err_text e = Some t ->
  read_err_string t = Some (norm_err e).
Proof.
  intros Hw Hn Ht. unfold read_err_string.
  assert (Hz : existsb (fun b => b =? 0) t = false).
  { destruct e as [| i | m]; cbn [err_text] in Ht; inversion Ht; subst.
    - apply bad_error_facts. apply Nat.ltb_lt; exact Hw.
    - cbn [err_no_nul] in Hn. apply negb_true_iff; exact Hn. }
  rewrite Hz. f_equal. eapply err_of_string_norm; eassumption.
Qed.

Lemma norm_err_none e : err_text e = None -> e = ENone.
Proof. destruct e; cbn; intros; congruence. Qed.

(* ------------------------------------------------------------------------------------------------ *)
(* small encodings *)

Lemma b32_roundtrip x : wf_bytes x -> decode Base32 (b32e x) = Ok x.
Proof. intros. unfold b32e. apply codec_roundtrip; [reflexivity | assumption]. Qed.

Lemma wf_cons b x : b < 256 -> wf_bytes x -> wf_bytes (b :: x).
Proof. intros. constructor; assumption. Qed.

Lemma wf_app x y : wf_bytes x -> wf_bytes y -> wf_bytes (x ++ y).
Proof. unfold wf_bytes. intros. apply Forall_app; split; assumption. Qed.

Lemma wf_le32 n : wf_bytes (le32 n).
Proof. unfold le32. repeat constructor; lia. Qed.

Lemma digit36_roundtrip d : d < 36 -> digit36_val (digit36 d) = Some d /\ digit36 d <> 43 /\ digit36 d <> 45.
Proof.
  intros Hd. unfold digit36, digit36_val.
  destruct (N.ltb_spec d 10).
  - replace ((48 <=? 48 + d) && (48 + d <=? 57)) with true by lia. split; [f_equal; lia | lia].
  - replace ((48 <=? 87 + d) && (87 + d <=? 57)) with false by lia.
    replace ((97 <=? 87 + d) && (87 + d <=? 122)) with true by lia. split; [f_equal; lia | lia].
Qed.

Lemma parse_enc_uid u : parse_uid (enc_uid u) = Ok (u mod 1296).
Proof.
  unfold enc_uid, parse_uid. set (v := u mod 1296).
  assert (Hv : v < 1296) by (apply N.mod_lt; discriminate).
  destruct (digit36_roundtrip (v / 36) ltac:(lia)) as [E0 [N0 N1]].
  destruct (digit36_roundtrip (v mod 36) ltac:(lia)) as [E1 _].
  rewrite E1.
  destruct (N.eqb_spec (digit36 (v / 36)) 43); [contradiction |].
  destruct (N.eqb_spec (digit36 (v / 36)) 45); [contradiction |].
  rewrite E0. f_equal. lia.
Qed.

(* ------------------------------------------------------------------------------------------------ *)
(* (2) every well-formed response survives its own serialisation, for every lossless downstream codec *)

Theorem response_roundtrip c r :
  lossless c = true -> resp_wf r = true ->
  exists p, encode_resp c r = Ok p /\ decode_resp c p = Ok (normalise r).
Proof.
  intros Hc Hwf.
  assert (RT : forall x, wf_bytes x -> decode c (encode c x) = Ok x).
  { intros x Hx. apply codec_roundtrip; [destruct c; try reflexivity; discriminate | exact Hx]. }
  destruct r as [sv uid e | e ack pkt | e | e size d | e d | e d | e]; cbn [resp_wf] in Hwf;
    repeat (apply andb_prop in Hwf; destruct Hwf as [Hwf ?]).
  - (* version *)
    eexists; split; [reflexivity |].
    change (decode_resp c (CODE_V :: enc_uid uid ++ b32e (le32 sv ++ match err_text e with Some t => 255 :: t | None => [0] end)))
      with (decode_ver (CODE_V :: enc_uid uid ++ b32e (le32 sv ++ match err_text e with Some t => 255 :: t | None => [0] end))).
    unfold decode_ver. cbn [tl].
    replace (length (enc_uid uid ++ _) <? 2)%nat with false by reflexivity.
    replace (firstn 2 (enc_uid uid ++ _)) with (enc_uid uid) by reflexivity.
    rewrite parse_enc_uid. cbn [bind].
    replace (skipn 2 (enc_uid uid ++ b32e (le32 sv ++ match err_text e with Some t => 255 :: t | None => [0] end)))
      with (b32e (le32 sv ++ match err_text e with Some t => 255 :: t | None => [0] end)) by reflexivity.
    destruct (err_text e) as [t |] eqn:Et.
    + rewrite b32_roundtrip.
      2:{ apply wf_app; [apply wf_le32 | apply wf_cons; [lia | eapply err_text_wf; eassumption]]. }
      cbn [bind le32 app]. change (odd_byte 255) with true. cbv iota. unfold status_err.
      rewrite (read_err_ok e t) by assumption.
      cbn [normalise]. do 2 f_equal. lia.
    + rewrite b32_roundtrip by (apply wf_app; [apply wf_le32 | repeat constructor; lia]).
      cbn [bind le32 app]. change (odd_byte 0) with false. cbv iota.
      cbn [normalise]. rewrite (norm_err_none e Et). cbn [norm_err]. do 2 f_equal. lia.
  - (* packet *)
    eexists; split; [reflexivity |].
    match goal with |- decode_resp c (CODE_C :: ?x) = _ => change (decode_resp c (CODE_C :: x)) with (decode_pkt c (CODE_C :: x)) end.
    unfold decode_pkt. cbn [tl].
    destruct (err_text e) as [t |] eqn:Et.
    + rewrite RT by (apply wf_cons; [lia | eapply err_text_wf; eassumption]).
      cbn [bind]. change (255 =? 255) with true. cbv iota. unfold status_err.
      rewrite (read_err_ok e t) by assumption.
      cbn [normalise]. destruct e; [discriminate | reflexivity | reflexivity].
    + rewrite (norm_err_none e Et). cbn [normalise].
      destruct pkt as [[seq d] |].
      * apply andb_prop in H. destruct H as [Hseq Hd]. apply wf_bytesb_spec in Hd.
        rewrite RT by (apply wf_cons; [lia |]; apply wf_app; [apply wf_le16 |]; apply wf_app; [apply wf_le16 | exact Hd]).
        cbn [bind le16 app]. change (1 =? 255) with false. change (1 =? 1) with true. cbv iota.
        unfold rd_le16. do 3 f_equal; [lia | f_equal; lia].
      * rewrite RT by (apply wf_cons; [lia | apply wf_le16]).
        cbn [bind le16 app]. change (0 =? 255) with false. change (0 =? 1) with false. change (0 =? 0) with true. cbv iota.
        unfold rd_le16. do 2 f_equal. lia.
  - (* set options *)
    eexists; split; [reflexivity |].
    match goal with |- decode_resp c (CODE_O :: ?x) = _ => change (decode_resp c (CODE_O :: x)) with (decode_opt (CODE_O :: x)) end.
    unfold decode_opt. cbn [tl].
    destruct (err_text e) as [t |] eqn:Et.
    + rewrite b32_roundtrip by (apply wf_cons; [lia | eapply err_text_wf; eassumption]).
      cbn [bind]. change (odd_byte 255) with true. cbv iota. unfold status_err.
      rewrite (read_err_ok e t) by assumption. reflexivity.
    + rewrite b32_roundtrip by (repeat constructor; lia).
      cbn [bind]. change (odd_byte 0) with false. cbv iota. rewrite (norm_err_none e Et). reflexivity.
  - (* fragment size probe *)
    eexists; split; [reflexivity |].
    match goal with |- decode_resp c (CODE_R :: ?x) = _ => change (decode_resp c (CODE_R :: x)) with (decode_frag c (CODE_R :: x)) end.
    unfold decode_frag. cbn [tl]. apply wf_bytesb_spec in H.
    destruct (err_text e) as [t |] eqn:Et.
    + rewrite RT by (apply wf_cons; [lia | eapply err_text_wf; eassumption]).
      cbn [bind]. change (odd_byte 255) with true. cbv iota. unfold status_err.
      rewrite (read_err_ok e t) by assumption.
      cbn [normalise]. destruct e; [discriminate | reflexivity | reflexivity].
    + rewrite RT by (apply wf_cons; [lia |]; apply wf_app; [apply wf_le32 | exact H]).
      cbn [bind le32 app]. change (odd_byte 0) with false. cbv iota.
      rewrite (norm_err_none e Et). cbn [normalise]. do 2 f_equal. lia.
  - (* upstream codec probe *)
    eexists; split; [reflexivity |].
    match goal with |- decode_resp c (CODE_Z :: ?x) = _ => change (decode_resp c (CODE_Z :: x)) with (decode_up (CODE_Z :: x)) end.
    unfold decode_up. cbn [tl]. apply wf_bytesb_spec in H.
    destruct (err_text e) as [t |] eqn:Et.
    + rewrite b32_roundtrip by (apply wf_cons; [lia | eapply err_text_wf; eassumption]).
      cbn [bind]. change (odd_byte 255) with true. cbv iota. unfold status_err.
      rewrite (read_err_ok e t) by assumption.
      cbn [normalise]. destruct e; [discriminate | reflexivity | reflexivity].
    + rewrite b32_roundtrip by (apply wf_cons; [lia | exact H]).
      cbn [bind]. change (odd_byte 0) with false. cbv iota.
      rewrite (norm_err_none e Et). reflexivity.
  - (* downstream codec probe *)
    apply wf_bytesb_spec in H. cbn [encode_resp].
    destruct (err_text e) as [t |] eqn:Et.
    + eexists; split; [reflexivity |].
      match goal with |- decode_resp c (CODE_Y :: ?x) = _ => change (decode_resp c (CODE_Y :: x)) with (decode_down c (CODE_Y :: x)) end.
      unfold decode_down. change (101 =? 101) with true. cbv iota.
      rewrite b32_roundtrip by (eapply err_text_wf; eassumption). cbn [bind].
      rewrite (err_of_string_norm e t) by assumption.
      cbn [normalise]. destruct e; [discriminate | reflexivity | reflexivity].
    + eexists; split; [reflexivity |].
      match goal with |- decode_resp c (CODE_Y :: ?x) = _ => change (decode_resp c (CODE_Y :: x)) with (decode_down c (CODE_Y :: x)) end.
      unfold decode_down. change (111 =? 101) with false. change (111 =? 111) with true. cbv iota.
      rewrite RT by exact H. cbn [bind]. rewrite (norm_err_none e Et). reflexivity.
  - (* error *)
    cbn [encode_resp].
    destruct (err_text e) as [t |] eqn:Et.
    + eexists; split; [reflexivity |].
      match goal with |- decode_resp c (CODE_E :: ?x) = _ => change (decode_resp c (CODE_E :: x)) with (decode_error (CODE_E :: x)) end.
      unfold decode_error. cbn [tl].
      rewrite b32_roundtrip by (eapply err_text_wf; eassumption). cbn [bind]. unfold status_err.
      rewrite (read_err_ok e t) by assumption. reflexivity.
    + rewrite (norm_err_none e Et) in *. discriminate.
Qed.

(* a custom error message containing a NUL octet is silently dropped by ReadString(0): the client sees "no error" *)
Theorem custom_error_nul_refuted :
  exists c r p r', lossless c = true /\ err_wf (ECustom [65; 0; 66]) = true /\ r = ROpt (ECustom [65; 0; 66]) /\
                   encode_resp c r = Ok p /\ decode_resp c p = Ok r' /\ r' = ROpt ENone /\ r' <> normalise r.
Proof.
  exists Base32, (ROpt (ECustom [65; 0; 66])). eexists. eexists.
  split; [reflexivity |]. split; [reflexivity |]. split; [reflexivity |].
  split; [vm_compute; reflexivity |]. split; [vm_compute; reflexivity |]. split; [reflexivity |].
  vm_compute. discriminate.
Qed.

(* ------------------------------------------------------------------------------------------------ *)
(* the serialised form of a response is a payload the carried record types accept *)

Definition safe (p : bytes) : Prop := Forall (fun b => dns_safeb b = true) p.

Lemma safe_wf p : safe p -> wf_bytes p.
Proof. apply Forall_impl. intros b. apply dns_safe_lt. Qed.

Lemma safe_b32e x : wf_bytes x -> safe (b32e x).
Proof. intros. unfold b32e. apply codec_alphabet; [reflexivity | assumption]. Qed.

Lemma safe_enc_uid u : safe (enc_uid u).
Proof.
  unfold enc_uid. set (v := u mod 1296). assert (Hv : v < 1296) by (apply N.mod_lt; discriminate).
  assert (G : forall d, d < 36 -> dns_safeb (digit36 d) = true).
  { intros d Hd. unfold digit36, dns_safeb. destruct (N.ltb_spec d 10); lia. }
  repeat constructor; apply G; lia.
Qed.

Ltac wf_tac :=
  repeat first [ assumption | apply wf_le32 | apply wf_le16 | apply wf_app | apply wf_cons
               | (eapply err_text_wf; eassumption) | apply Forall_nil | lia ].

Lemma ok_inj {A} (a b : A) : @Ok A a = Ok b -> a = b.
Proof. intros H. injection H. auto. Qed.

(* payload of an arbitrary-octet record type: octets *)
Lemma encode_resp_wf c r p : lossless c = true -> resp_wf r = true -> encode_resp c r = Ok p -> wf_bytes p.
Proof.
  intros Hc Hwf He.
  assert (CW : forall x, wf_bytes x -> wf_bytes (encode c x)).
  { intros x Hx. apply codec_wf; [destruct c; try reflexivity; discriminate | exact Hx]. }
  assert (BW : forall x, wf_bytes x -> wf_bytes (b32e x)) by (intros; apply safe_wf, safe_b32e; assumption).
  destruct r as [sv uid e | e ack pkt | e | e size d | e d | e d | e]; cbn [resp_wf] in Hwf;
    repeat (apply andb_prop in Hwf; destruct Hwf as [Hwf ?]); cbn [encode_resp] in He;
    try (match goal with H : wf_bytesb _ = true |- _ => apply wf_bytesb_spec in H end).
  - apply ok_inj in He; subst p. apply wf_cons; [unfold CODE_V; lia |]. apply wf_app; [apply safe_wf, safe_enc_uid |].
    apply BW. destruct (err_text e) eqn:Et; wf_tac.
  - apply ok_inj in He; subst p. apply wf_cons; [unfold CODE_C; lia |]. apply CW.
    destruct (err_text e) eqn:Et; [wf_tac |].
    destruct pkt as [[seq d] |]; [| wf_tac].
    apply andb_prop in H. destruct H as [_ Hd]. apply wf_bytesb_spec in Hd. wf_tac.
  - apply ok_inj in He; subst p. apply wf_cons; [unfold CODE_O; lia |]. apply BW. destruct (err_text e) eqn:Et; wf_tac.
  - apply ok_inj in He; subst p. apply wf_cons; [unfold CODE_R; lia |]. apply CW. destruct (err_text e) eqn:Et; wf_tac.
  - apply ok_inj in He; subst p. apply wf_cons; [unfold CODE_Z; lia |]. apply BW. destruct (err_text e) eqn:Et; wf_tac.
  - destruct (err_text e) eqn:Et; apply ok_inj in He; subst p.
    + apply wf_cons; [unfold CODE_Y; lia |]. apply wf_cons; [lia |]. apply BW. wf_tac.
    + apply wf_cons; [unfold CODE_Y; lia |]. apply wf_cons; [lia |]. apply CW. wf_tac.
  - destruct (err_text e) eqn:Et; [| discriminate He]. apply ok_inj in He; subst p.
    apply wf_cons; [unfold CODE_E; lia |]. apply BW. wf_tac.
Qed.

(* payload of a name-carrying record type: DNS-safe octets, for every codec but Raw (and Base192) *)
Lemma encode_resp_safe c r p :
  (match c with Base192 | Raw => false | _ => true end) = true -> resp_wf r = true -> encode_resp c r = Ok p -> safe p.
Proof.
  intros Hc Hwf He.
  assert (CS : forall x, wf_bytes x -> safe (encode c x)).
  { intros x Hx. apply codec_alphabet; assumption. }
  pose proof safe_b32e as BS.
  assert (K : forall b x, dns_safeb b = true -> safe x -> safe (b :: x)) by (intros; constructor; assumption).
  destruct r as [sv uid e | e ack pkt | e | e size d | e d | e d | e]; cbn [resp_wf] in Hwf;
    repeat (apply andb_prop in Hwf; destruct Hwf as [Hwf ?]); cbn [encode_resp] in He;
    try (match goal with H : wf_bytesb _ = true |- _ => apply wf_bytesb_spec in H end).
  - apply ok_inj in He; subst p. apply K; [reflexivity |]. apply Forall_app. split; [apply safe_enc_uid |].
    apply BS. destruct (err_text e) eqn:Et; wf_tac.
  - apply ok_inj in He; subst p. apply K; [reflexivity |]. apply CS.
    destruct (err_text e) eqn:Et; [wf_tac |].
    destruct pkt as [[seq d] |]; [| wf_tac].
    apply andb_prop in H. destruct H as [_ Hd]. apply wf_bytesb_spec in Hd. wf_tac.
  - apply ok_inj in He; subst p. apply K; [reflexivity |]. apply BS. destruct (err_text e) eqn:Et; wf_tac.
  - apply ok_inj in He; subst p. apply K; [reflexivity |]. apply CS. destruct (err_text e) eqn:Et; wf_tac.
  - apply ok_inj in He; subst p. apply K; [reflexivity |]. apply BS. destruct (err_text e) eqn:Et; wf_tac.
  - destruct (err_text e) eqn:Et; apply ok_inj in He; subst p.
    + apply K; [reflexivity |]. apply K; [reflexivity |]. apply BS. wf_tac.
    + apply K; [reflexivity |]. apply K; [reflexivity |]. apply CS. wf_tac.
  - destruct (err_text e) eqn:Et; [| discriminate He]. apply ok_inj in He; subst p.
    apply K; [reflexivity |]. apply BS. wf_tac.
Qed.

Lemma carries_lossless rt c : carries rt c = true -> lossless c = true.
Proof. destruct rt, c; cbn; intros; congruence. Qed.

Lemma encode_resp_payload_ok rt c r p :
  carries rt c = true -> resp_wf r = true -> encode_resp c r = Ok p -> payload_ok rt p = true.
Proof.
  intros Hc Hwf He. unfold payload_ok. apply andb_true_intro. split.
  - apply wf_bytesb_spec. eapply encode_resp_wf; [eapply carries_lossless | |]; eassumption.
  - destruct (name_carrying rt) eqn:Hn; [| reflexivity].
    apply forallb_forall. intros b Hb.
    assert (Hs : safe p).
    { eapply encode_resp_safe; [| eassumption | eassumption]. destruct rt, c; cbn in *; congruence. }
    unfold safe in Hs. rewrite Forall_forall in Hs. apply Hs. exact Hb.
Qed.

(* ------------------------------------------------------------------------------------------------ *)
(* (3) for every carried (record type, codec) and every well-formed response: as long as the number of records stays
   within what the order tag can tell apart, every stage succeeds and the client decodes exactly the normalised
   response - never an error, never a different response *)

Theorem c10_reported rt c r dom q :
  carries rt c = true -> dom_ok dom = true -> qname_ok q = true -> resp_wf r = true ->
  exists p, encode_resp c r = Ok p /\
    (size_ok rt dom p = true ->
     exists m w m', wrap rt p dom q = Ok m /\ pack m = Ok w /\ unpack w = Ok m' /\ unwrap m' dom = Ok p /\
                    decode_resp c p = Ok (normalise r)).
Proof.
  intros Hc Hd Hq Hwf.
  destruct (response_roundtrip c r (carries_lossless rt c Hc) Hwf) as [p [He Hdec]].
  exists p. split; [exact He |]. intros Hs.
  destruct (wrap_roundtrip rt c dom q p Hc Hd Hq (encode_resp_payload_ok rt c r p Hc Hwf He) Hs) as [m [w [m' [H1 [H2 [H3 H4]]]]]].
  exists m, w, m'. repeat split; assumption.
Qed.

(* the same over the harness pipeline (question name caaa00abcdefgh.<domain>.) *)
Theorem c10_pipeline rt c r dom :
  carries rt c = true -> dom_ok dom = true -> (length dom <= 238)%nat -> resp_wf r = true ->
  (forall p, encode_resp c r = Ok p -> size_ok rt dom p = true) ->
  exists n len, pipeline (Some rt) c dom r = ODecoded n n len (normalise r).
Proof.
  intros Hc Hd Hl Hwf Hs.
  assert (Hq : qname_ok (question_name dom) = true).
  { unfold question_name. change (wd "caaa00abcdefgh." ++ dom ++ [DOT]) with (wd "caaa00abcdefgh" ++ DOT :: dom ++ [DOT]).
    apply question_name_ok; [| exact Hd | cbn [length wd]; simpl; lia].
    split; [discriminate |]. split; [simpl; lia |]. unfold nodot. vm_compute. repeat constructor; discriminate. }
  destruct (c10_reported rt c r dom (question_name dom) Hc Hd Hq Hwf) as [p [He Hrest]].
  destruct (Hrest (Hs p He)) as [m [w [m' [H1 [H2 [H3 [H4 H5]]]]]]].
  destruct (order rt c dom (question_name dom) p Hc Hd Hq (encode_resp_payload_ok rt c r p Hc Hwf He) (Hs p He))
    as [m0 [w0 [m0' [G1 [G2 [G3 [G4 _]]]]]]].
  rewrite H1 in G1. inversion G1; subst m0. rewrite H2 in G2. inversion G2; subst w0. rewrite H3 in G3. inversion G3; subst m0'.
  unfold pipeline. rewrite He, H1, H2, H3, H4, H5.
  assert (Hn : length (m_answers m) = length (m_answers m')).
  { rewrite G4. unfold wrap in H1. destruct (wrap_answers rt p dom) as [a | |] eqn:Ea; try discriminate.
    cbn [bind] in H1. inversion H1; subst m. cbn [m_answers].
    apply wrap_answers_length; [| exact Ea]. lia. }
  rewrite Hn. eexists; eexists; reflexivity.
Qed.

(* ------------------------------------------------------------------------------------------------ *)
(* (6) DecodeDnsResponseWithParams: exactly when it panics *)

From SA Require Import Codec.B85 Codec.B91 Codec.B128 Codec.B192.

Lemma a85_no_panic s : forall src nb v out, a85_decode src nb v out <> Panic s.
Proof.
  induction src as [| c rest IH]; intros nb v out; cbn [a85_decode].
  - destruct nb as [| [| nb']]; discriminate.
  - destruct (c <=? 32); [apply IH |].
    destruct (N.eqb c 122 && Nat.eqb nb 0); [apply IH |].
    destruct ((33 <=? c) && (c <=? 117)); [| discriminate].
    destruct (Nat.eqb nb 4); apply IH.
Qed.

Lemma regroup_dec_no_panic w dpq bpq tail alpha y s : regroup_dec w dpq bpq tail alpha y <> Panic s.
Proof.
  unfold regroup_dec. destruct (unmap alpha (strip_crlf y)); [| discriminate].
  destruct (tail _); discriminate.
Qed.

Lemma decode_no_panic c y s : decode c y <> Panic s.
Proof.
  destruct c; cbn [decode].
  - apply regroup_dec_no_panic.
  - apply regroup_dec_no_panic.
  - apply regroup_dec_no_panic.
  - apply a85_no_panic.
  - unfold b91_decode. destruct (unmap cb91 y); [| discriminate].
    destruct (fold_left b91_dec_step l (0, 0, None, [])) as [[[q nb] v] out]. destruct v; discriminate.
  - unfold b128_decode, luci_decode. destruct (negb _); [discriminate |].
    destruct (fold_left luci_step (unescape128 y) (1, 0, [], false)) as [[[a b] out] bad]. destruct bad; discriminate.
  - discriminate.
  - discriminate.
Qed.

Lemma status_err_no_panic rest dflt mk s : status_err rest dflt mk <> Panic s.
Proof. unfold status_err. destruct (read_err_string rest); discriminate. Qed.

Lemma parse_uid_no_panic u s : parse_uid u <> Panic s.
Proof.
  unfold parse_uid. destruct u as [| c0 [| c1 [| ? ?]]]; try discriminate.
  destruct (digit36_val c1); [| discriminate].
  destruct (c0 =? 43); [discriminate |]. destruct (c0 =? 45); [discriminate |].
  destruct (digit36_val c0); discriminate.
Qed.

Ltac bind_case H :=
  match type of H with
  | bind ?x _ = Panic _ =>
    let E := fresh "E" in destruct x eqn:E; cbn [bind] in H;
    [ | discriminate H | first [ exfalso; eapply decode_no_panic; exact E | exfalso; eapply parse_uid_no_panic; exact E ] ]
  end.

Lemma decode_ver_no_panic r s : decode_ver r <> Panic s.
Proof.
  unfold decode_ver. intros H. destruct (length (tl r) <? 2)%nat; [discriminate |]. bind_case H. bind_case H.
  destruct a0 as [| a1 [| b [| c [| d rest]]]]; try discriminate.
  destruct rest as [| st rest']; [discriminate |].
  destruct (odd_byte st); [eapply status_err_no_panic; exact H | discriminate].
Qed.

Lemma decode_pkt_no_panic c r s : decode_pkt c r <> Panic s.
Proof.
  unfold decode_pkt. intros H. bind_case H.
  destruct a as [| st rest]; [discriminate |].
  destruct (st =? 255); [eapply status_err_no_panic; exact H |].
  destruct (st =? 1); [destruct rest as [| ? [| ? [| ? [| ? ?]]]]; discriminate |].
  destruct (st =? 0); [destruct rest as [| ? [| ? ?]]; discriminate | discriminate].
Qed.

Lemma decode_opt_no_panic r s : decode_opt r <> Panic s.
Proof.
  unfold decode_opt. intros H. bind_case H.
  destruct a as [| st rest]; [discriminate |].
  destruct (odd_byte st); [eapply status_err_no_panic; exact H | discriminate].
Qed.

Lemma decode_frag_no_panic c r s : decode_frag c r <> Panic s.
Proof.
  unfold decode_frag. intros H. bind_case H.
  destruct a as [| st rest]; [discriminate |].
  destruct (odd_byte st); [eapply status_err_no_panic; exact H |].
  destruct rest as [| ? [| ? [| ? [| ? ?]]]]; discriminate.
Qed.

Lemma decode_up_no_panic r s : decode_up r <> Panic s.
Proof.
  unfold decode_up. intros H. bind_case H.
  destruct a as [| st rest]; [discriminate |].
  destruct (odd_byte st); [eapply status_err_no_panic; exact H | discriminate].
Qed.

Lemma decode_down_no_panic c r s : decode_down c r <> Panic s.
Proof.
  unfold decode_down. intros H. destruct r as [| ? [| k rest]]; try discriminate.
  destruct (k =? 101); [bind_case H; discriminate |].
  destruct (k =? 111); [bind_case H; discriminate | discriminate].
Qed.

Lemma decode_error_no_panic r s : decode_error r <> Panic s.
Proof.
  unfold decode_error. intros H. bind_case H. eapply status_err_no_panic; exact H.
Qed.

(* DecodeDnsResponseWithParams never panics: for every downstream codec and every octet string, the empty one included *)
Theorem decode_resp_total c data s : decode_resp c data <> Panic s.
Proof.
  unfold decode_resp. destruct data as [| b rest]; [discriminate |].
  destruct (is_of_type CODE_V b); [apply decode_ver_no_panic |].
  destruct (is_of_type CODE_L b); [discriminate |].
  destruct (is_of_type CODE_O b); [apply decode_opt_no_panic |].
  destruct (is_of_type CODE_R b); [apply decode_frag_no_panic |].
  destruct (is_of_type CODE_Y b); [apply decode_down_no_panic |].
  destruct (is_of_type CODE_Z b); [apply decode_up_no_panic |].
  destruct (is_of_type CODE_M b); [discriminate |].
  destruct (is_of_type CODE_C b); [apply decode_pkt_no_panic |].
  destruct (is_of_type CODE_E b); [apply decode_error_no_panic |].
  discriminate.
Qed.

(* an answer section without usable records unwraps to the empty payload: an error now, as is a reserved command letter *)
Theorem decode_empty_is_error :
  (exists w m', w_rrs w = [] /\ unpack w = Ok m' /\ unwrap m' (wd "example.org") = Ok [] /\
                decode_resp Base32 [] = Err (wd "unknown")) /\
  (exists w m', w_rrs w = [(65001, [1; 2])] /\ unpack w = Ok m' /\ unwrap m' (wd "example.org") = Ok [] /\
                decode_resp Base32 [] = Err (wd "unknown")) /\
  (exists w m' p, w_rrs w = [(10, [1; 0; 108; 97; 98])] /\ unpack w = Ok m' /\ unwrap m' (wd "example.org") = Ok p /\
                  decode_resp Base32 p = Err (wd "unknown")).
Proof.
  split; [| split].
  - exists {| w_q := [1; 120; 0]; w_ancount := 0; w_rrs := [] |}. eexists. repeat split; vm_compute; reflexivity.
  - exists {| w_q := [1; 120; 0]; w_ancount := 1; w_rrs := [(65001, [1; 2])] |}. eexists. repeat split; vm_compute; reflexivity.
  - exists {| w_q := [1; 120; 0]; w_ancount := 1; w_rrs := [(10, [1; 0; 108; 97; 98])] |}. eexists. eexists.
    split; [reflexivity |]. split; [vm_compute; reflexivity |]. split; vm_compute; reflexivity.
Qed.

(* the client's whole decoding path on an arbitrary answer section: never the panic token *)
Theorem client_side_total c dom w : forall s, client_side c dom w <> [W "panic"; TW s] /\ hd_error (client_side c dom w) <> Some (W "panic").
Proof.
  intros s. unfold client_side.
  destruct (unpack w) as [m' | e | s'] eqn:EU.
  - destruct (unwrap_total m' dom) as [p ->].
    destruct (decode_resp c p) as [r | e | s'] eqn:ED.
    + split; [discriminate | cbn; discriminate].
    + split; [discriminate | cbn; discriminate].
    + exfalso. eapply decode_resp_total; exact ED.
  - split; cbn; discriminate.
  - exfalso. eapply unpack_no_panic; exact EU.
Qed.
