(* C10 - proofs about Wrap.v *)
From Coq Require Import String List NArith ZArith Bool Lia Arith Sorted.
From Coq Require Import ZifyN ZifyNat ZifyBool.
From SA Require Import Base.Tok Codec.Bits Codec.Bits_proofs Gen.Alphabets.
From SA.Wrap Require Import Wrap.
Import ListNotations.
Open Scope N_scope.

(* ------------------------------------------------------------------------------------------------ *)
(* generic list facts *)

Lemma chunks_concat {A} k : (0 < k)%nat -> forall fuel (d : list A), (length d <= fuel)%nat ->
  concat (chunks fuel k d) = d.
Proof.
  intros Hk fuel; induction fuel as [| f IH]; intros d Hd.
  - destruct d; [reflexivity | simpl in Hd; lia].
  - destruct d as [| x d']; [reflexivity |].
    cbn [chunks concat]. rewrite IH.
    + apply firstn_skipn.
    + rewrite skipn_length. cbn [length] in *. lia.
Qed.

Lemma chunks_each {A} k : (0 < k)%nat -> forall fuel (d : list A),
  Forall (fun c => c <> [] /\ (length c <= k)%nat) (chunks fuel k d).
Proof.
  intros Hk fuel; induction fuel as [| f IH]; intros d; [constructor |].
  destruct d as [| x d']; [constructor |].
  cbn [chunks]. constructor; [| apply IH].
  split.
  - destruct k; [lia | simpl; discriminate].
  - rewrite firstn_length. lia.
Qed.

Lemma chunks_nil {A} fuel k : @chunks A fuel k [] = [].
Proof. destruct fuel; reflexivity. Qed.

Lemma map_res_ok {A B} (f : A -> res B) (g : A -> B) l :
  Forall (fun x => f x = Ok (g x)) l -> map_res f l = Ok (map g l).
Proof.
  induction 1 as [| x l Hx _ IH]; [reflexivity |].
  cbn [map_res map]. rewrite Hx, IH. reflexivity.
Qed.

Lemma map_res_Forall2 {A B} (f : A -> res B) l l' :
  Forall2 (fun x y => f x = Ok y) l l' -> map_res f l = Ok l'.
Proof.
  induction 1 as [| x y l l' Hx _ IH]; [reflexivity |].
  cbn [map_res]. rewrite Hx, IH. reflexivity.
Qed.

Lemma map_res_inv {A B} (f : A -> res B) l l' :
  map_res f l = Ok l' -> Forall2 (fun x y => f x = Ok y) l l'.
Proof.
  revert l'; induction l as [| x l IH]; intros l' H.
  - inversion H. constructor.
  - cbn [map_res] in H. destruct (f x) as [y | |] eqn:Hx; try discriminate.
    cbn [bind] in H. destruct (map_res f l) as [ys | |] eqn:Hl; try discriminate.
    inversion H; subst. constructor; [exact Hx | apply IH; reflexivity].
Qed.

Lemma concat_res_ok (l : list bytes) : concat_res (map Ok l) = Ok (concat l).
Proof. induction l as [| x l IH]; [reflexivity |]. cbn [map concat_res concat bind]. rewrite IH. reflexivity. Qed.

Lemma mapi_length {A B} (f : N -> A -> B) l : forall i, length (mapi f i l) = length l.
Proof. induction l as [| x l IH]; intros i; [reflexivity |]. cbn [mapi length]. rewrite IH. reflexivity. Qed.

Lemma mapi_Forall2 {A B} (P : A -> B -> Prop) (f : N -> A -> B) l : forall i,
  (forall k x, In x l -> i <= k < i + N.of_nat (length l) -> P x (f k x)) ->
  Forall2 P l (mapi f i l).
Proof.
  induction l as [| x l IH]; intros i H; [constructor |].
  cbn [mapi]. constructor.
  - apply H; [left; reflexivity | cbn [length]; lia].
  - apply IH. intros k y Hy Hk. apply H; [right; exact Hy | cbn [length]; lia].
Qed.

Lemma mapi_map {A B C} (g : B -> C) (f : N -> A -> B) l : forall i,
  map g (mapi f i l) = mapi (fun k x => g (f k x)) i l.
Proof. induction l as [| x l IH]; intros i; [reflexivity |]. cbn [mapi map]. rewrite IH. reflexivity. Qed.

Lemma mapi_const {A} (l : list A) : forall i, mapi (fun _ x => x) i l = l.
Proof. induction l as [| x l IH]; intros i; [reflexivity |]. cbn [mapi]. rewrite IH. reflexivity. Qed.

(* strictly increasing index functions give strictly sorted lists *)
Lemma mapi_sorted {A} (p : N -> Z) (l : list A) : forall i,
  (forall a b, i <= a -> a < b -> b < i + N.of_nat (length l) -> (p a < p b)%Z) ->
  StronglySorted Z.lt (mapi (fun k _ => p k) i l).
Proof.
  induction l as [| x l IH]; intros i H; [constructor |].
  cbn [mapi]. constructor.
  - apply IH. intros a b Ha Hab Hb. apply H; cbn [length]; lia.
  - rewrite Forall_forall. intros z Hz.
    assert (Hgen : forall (l' : list A) j, In z (mapi (fun k _ => p k) j l') ->
                   exists b, j <= b < j + N.of_nat (length l') /\ z = p b).
    { clear. induction l' as [| y l' IH']; intros j Hin; [destruct Hin |].
      cbn [mapi] in Hin. destruct Hin as [<- | Hin].
      - exists j. cbn [length]. split; [lia | reflexivity].
      - destruct (IH' _ Hin) as [b [Hb ->]]. exists b. cbn [length]. split; [lia | reflexivity]. }
    destruct (Hgen _ _ Hz) as [b [Hb ->]]. apply H; cbn [length]; lia.
Qed.

(* ------------------------------------------------------------------------------------------------ *)
(* the stable insertion sort leaves a sorted list alone *)

Lemma sort_by_sorted (l : list (Z * rr)) :
  StronglySorted Z.lt (map fst l) -> sort_by l = l.
Proof.
  induction l as [| x l IH]; intros H; [reflexivity |].
  cbn [map] in H. inversion H as [| ? ? Hs Hall]; subst.
  unfold sort_by in *. cbn [fold_right]. rewrite (IH Hs).
  destruct l as [| y l']; [reflexivity |].
  cbn [insert_by]. cbn [map] in Hall. inversion Hall as [| ? ? Hxy _]; subst.
  destruct (Z.ltb_spec (fst y) (fst x)); [lia | reflexivity].
Qed.

Lemma map_eq_Forall2 {A B} (f : A -> res B) l ps :
  map f l = map Ok ps -> Forall2 (fun x y => f x = Ok y) l ps.
Proof.
  revert ps; induction l as [| x l IH]; intros ps Hp; destruct ps as [| p ps]; try discriminate; [constructor |].
  cbn [map] in Hp. inversion Hp. constructor; [assumption | apply IH; assumption].
Qed.

Lemma sorted_answers_sorted (l : list rr) (ps : list Z) :
  map type_priority l = map Ok ps -> StronglySorted Z.lt ps -> sorted_answers l = Ok l.
Proof.
  intros Hp Hs. unfold sorted_answers.
  destruct l as [| a [| b l']]; try reflexivity.
  assert (Hm : map_res type_priority (a :: b :: l') = Ok ps).
  { apply map_res_Forall2. apply map_eq_Forall2. exact Hp. }
  rewrite Hm. cbn [bind].
  assert (Hlen : length ps = length (a :: b :: l')).
  { apply (f_equal (@length _)) in Hp. rewrite !map_length in Hp. symmetry; exact Hp. }
  rewrite sort_by_sorted.
  - f_equal. clear -Hlen. revert ps Hlen. generalize (a :: b :: l') as l.
    induction l as [| x l IH]; intros ps Hlen; destruct ps; try discriminate; [reflexivity |].
    cbn [combine map snd]. f_equal. apply IH. simpl in Hlen. lia.
  - replace (map fst (combine ps (a :: b :: l'))) with ps; [exact Hs |].
    clear -Hlen. revert ps Hlen. generalize (a :: b :: l') as l.
    induction l as [| x l IH]; intros ps Hlen; destruct ps; try discriminate; [reflexivity |].
    cbn [combine map fst]. f_equal. apply IH. simpl in Hlen. lia.
Qed.

(* ------------------------------------------------------------------------------------------------ *)
(* little-endian words *)

Lemma le16_rd n : n < 65536 -> match le16 n with [a; b] => rd_le16 a b = n | _ => False end.
Proof. intros H. unfold le16, rd_le16. Ltac Zify.zify_post_hook ::= Z.div_mod_to_equations. lia. Qed.

Lemma be16_rd n : n < 65536 -> match be16 n with [a; b] => rd_be16 a b = n | _ => False end.
Proof. intros H. unfold be16, rd_be16. lia. Qed.

Lemma wf_le16 n : wf_bytes (le16 n).
Proof. unfold le16. repeat constructor; lia. Qed.

(* ------------------------------------------------------------------------------------------------ *)
(* slices *)

Lemma slice_drop site s k : (k <= length s)%nat -> slice site s (Z.of_nat k) (zlen s) = Ok (skipn k s).
Proof.
  intros H. unfold slice, zlen.
  replace ((0 <=? Z.of_nat k)%Z && (Z.of_nat k <=? Z.of_nat (length s))%Z && (Z.of_nat (length s) <=? Z.of_nat (length s))%Z)
    with true by lia.
  rewrite Nat2Z.id. f_equal. apply firstn_all2. rewrite skipn_length. lia.
Qed.

Lemma slice_take site s k : (k <= length s)%nat -> slice site s 0 (Z.of_nat k) = Ok (firstn k s).
Proof.
  intros H. unfold slice, zlen.
  replace ((0 <=? 0)%Z && (0 <=? Z.of_nat k)%Z && (Z.of_nat k <=? Z.of_nat (length s))%Z) with true by lia.
  rewrite Z.sub_0_r, Nat2Z.id. reflexivity.
Qed.

Lemma drop_tag_ok k d : (k <= length d)%nat -> drop_tag k d = skipn k d.
Proof. intros H. unfold drop_tag. destruct (Nat.leb_spec k (length d)); [reflexivity | lia]. Qed.


(* ------------------------------------------------------------------------------------------------ *)
(* Unescape *)

Lemma unescape_irrel : forall f1 f2 d, (length d <= f1)%nat -> (length d <= f2)%nat ->
  unescape f1 d = unescape f2 d.
Proof.
  induction f1 as [| f1 IH]; intros f2 d H1 H2.
  - destruct d; [| simpl in H1; lia]. destruct f2; reflexivity.
  - destruct f2 as [| f2]; [destruct d; [reflexivity | simpl in H2; lia] |].
    destruct d as [| c r]; [reflexivity |].
    cbn [unescape]. simpl in H1, H2.
    destruct (c =? 92).
    + destruct r as [| d1 r1]; [reflexivity |].
      simpl in H1, H2.
      destruct r1 as [| d2 [| d3 r3]].
      * f_equal. apply IH; simpl; lia.
      * f_equal. apply IH; simpl; lia.
      * destruct (is_digit d1 && is_digit d2 && is_digit d3).
        -- f_equal. apply IH; simpl in *; lia.
        -- f_equal. apply IH; simpl in *; lia.
    + f_equal. apply IH; lia.
Qed.

Lemma unescape_S f c r :
  unescape (S f) (c :: r) =
  if c =? 92 then
    match r with
    | [] => []
    | d1 :: r1 =>
      match r1 with
      | d2 :: d3 :: r3 =>
        if is_digit d1 && is_digit d2 && is_digit d3 then ddd_val d1 d2 d3 :: unescape f r3
        else d1 :: unescape f r1
      | _ => d1 :: unescape f r1
      end
    end
  else c :: unescape f r.
Proof. reflexivity. Qed.

Lemma unesc_plain c r : c <> 92 -> unesc (c :: r) = c :: unesc r.
Proof.
  intros Hc. unfold unesc. cbn [length]. rewrite unescape_S.
  destruct (N.eqb_spec c 92); [contradiction | reflexivity].
Qed.

Lemma unesc_bsl_char d1 r : is_digit d1 = false -> unesc (92 :: d1 :: r) = d1 :: unesc r.
Proof.
  intros Hd. unfold unesc. cbn [length]. rewrite unescape_S. change (92 =? 92) with true. cbv iota.
  rewrite Hd. cbn [andb].
  destruct r as [| d2 [| d3 r3]]; f_equal; apply unescape_irrel; cbn [length]; lia.
Qed.

Lemma unesc_ddd d1 d2 d3 r : is_digit d1 = true -> is_digit d2 = true -> is_digit d3 = true ->
  unesc (92 :: d1 :: d2 :: d3 :: r) = ddd_val d1 d2 d3 :: unesc r.
Proof.
  intros H1 H2 H3. unfold unesc. cbn [length]. rewrite unescape_S. change (92 =? 92) with true. cbv iota.
  rewrite H1, H2, H3. cbn [andb]. f_equal. apply unescape_irrel; cbn [length]; lia.
Qed.

Lemma unesc_nil : unesc [] = [].
Proof. reflexivity. Qed.

Lemma ddd_of_unesc b r : b < 256 -> unesc (ddd_of b ++ r) = b :: unesc r.
Proof.
  intros Hb. unfold ddd_of. cbn [app].
  rewrite unesc_ddd; try (unfold is_digit; lia).
  f_equal. unfold ddd_val. lia.
Qed.

Lemma unesc_esc_txt_byte b r : b < 256 -> unesc (esc_txt_byte b ++ r) = b :: unesc r.
Proof.
  intros Hb. unfold esc_txt_byte.
  destruct ((b =? 34) || (b =? 92)) eqn:H1.
  - cbn [app]. apply unesc_bsl_char. unfold is_digit. lia.
  - destruct ((b <? 32) || (126 <? b)) eqn:H2.
    + apply ddd_of_unesc; exact Hb.
    + cbn [app]. apply unesc_plain. lia.
Qed.

Lemma unesc_esc_txt x : wf_bytes x -> forall r, unesc (flat_map esc_txt_byte x ++ r) = x ++ unesc r.
Proof.
  induction 1 as [| b x Hb _ IH]; intros r; [reflexivity |].
  cbn [flat_map]. rewrite <- app_assoc, unesc_esc_txt_byte by exact Hb. rewrite IH. reflexivity.
Qed.

Lemma unesc_esc_name_byte b r : b < 256 -> unesc (esc_name_byte b ++ r) = b :: unesc r.
Proof.
  intros Hb. unfold esc_name_byte.
  destruct (name_special b) eqn:H1.
  - cbn [app]. apply unesc_bsl_char. unfold name_special in H1. unfold is_digit. lia.
  - destruct ((b <? 32) || (126 <? b)) eqn:H2.
    + apply ddd_of_unesc; exact Hb.
    + cbn [app]. apply unesc_plain. unfold name_special in H1. lia.
Qed.

Lemma unesc_esc_name x : wf_bytes x -> forall r, unesc (flat_map esc_name_byte x ++ r) = x ++ unesc r.
Proof.
  induction 1 as [| b x Hb _ IH]; intros r; [reflexivity |].
  cbn [flat_map]. rewrite <- app_assoc, unesc_esc_name_byte by exact Hb. rewrite IH. reflexivity.
Qed.

(* doubling the backslashes is undone by the TXT packer *)
Lemma unesc_txt_dbl x : forall r, unesc (txt_dbl x ++ r) = x ++ unesc r.
Proof.
  induction x as [| b x IH]; intros r; [reflexivity |].
  unfold txt_dbl in *. cbn [flat_map]. unfold BSL.
  destruct (N.eqb_spec b 92) as [-> | Hb].
  - cbn [app]. rewrite unesc_bsl_char by reflexivity. rewrite IH. reflexivity.
  - cbn [app]. rewrite unesc_plain by exact Hb. rewrite IH. reflexivity.
Qed.

Lemma txt_dbl_length x : (length (txt_dbl x) <= 2 * length x)%nat.
Proof.
  induction x as [| b x IH]; [simpl; lia |].
  unfold txt_dbl in *. cbn [flat_map]. rewrite app_length. destruct (b =? BSL); simpl in *; lia.
Qed.

(* ------------------------------------------------------------------------------------------------ *)
(* the generic pipeline lemma: records that individually survive packing, carry strictly increasing priorities
   and yield the pieces cs, give back concat cs *)

Definition rec_ok (dom : bytes) (r : rr) (pc : Z * bytes) : Prop :=
  exists x r', pack_rr r = Ok x /\ unpack_rr x = Ok r' /\ type_priority r' = Ok (fst pc) /\ piece dom r' = Ok (snd pc).

Lemma Forall2_rec_ok_split dom rs pcs :
  Forall2 (rec_ok dom) rs pcs ->
  exists xs rs', Forall2 (fun r x => pack_rr r = Ok x) rs xs /\
                 Forall2 (fun x r' => unpack_rr x = Ok r') xs rs' /\
                 map type_priority rs' = map Ok (map fst pcs) /\
                 map (piece dom) rs' = map Ok (map snd pcs).
Proof.
  induction 1 as [| r pc rs pcs [x [r' [H1 [H2 [H3 H4]]]]] _ [xs [rs' [I1 [I2 [I3 I4]]]]]].
  - exists [], []. repeat split; constructor.
  - exists (x :: xs), (r' :: rs'). repeat split; try (constructor; assumption).
    + cbn [map]. rewrite H3, I3. reflexivity.
    + cbn [map]. rewrite H4, I4. reflexivity.
Qed.

Lemma Forall2_length {A B} (P : A -> B -> Prop) l l' : Forall2 P l l' -> length l = length l'.
Proof. induction 1; simpl; congruence. Qed.

Lemma records_roundtrip dom q rs pcs :
  qname_ok q = true -> Forall2 (rec_ok dom) rs pcs -> StronglySorted Z.lt (map fst pcs) ->
  N.of_nat (length rs) < 65536 ->
  exists w m', pack {| m_q := q; m_answers := rs |} = Ok w /\ unpack w = Ok m' /\
               unwrap m' dom = Ok (concat (map snd pcs)) /\
               length (m_answers m') = length rs /\
               map type_priority (m_answers m') = map Ok (map fst pcs) /\
               sorted_answers (m_answers m') = Ok (m_answers m').
Proof.
  intros Hq HF Hs Hn.
  destruct (Forall2_rec_ok_split _ _ _ HF) as [xs [rs' [I1 [I2 [I3 I4]]]]].
  unfold qname_ok in Hq.
  destruct (pack_name q) as [qw | |] eqn:Hpq; try discriminate.
  destruct (unpack_last_name qw) as [q' | |] eqn:Huq; try discriminate.
  pose proof (Forall2_length _ _ _ I1) as L1. pose proof (Forall2_length _ _ _ I2) as L2.
  exists {| w_q := qw; w_ancount := u16 (N.of_nat (length rs)); w_rrs := xs |}, {| m_q := q'; m_answers := rs' |}.
  assert (Hsa : sorted_answers rs' = Ok rs') by (eapply sorted_answers_sorted; eassumption).
  repeat split.
  - unfold pack. cbn [m_q m_answers]. rewrite Hpq. cbn [bind]. rewrite (map_res_Forall2 _ _ _ I1). reflexivity.
  - unfold unpack. cbn [w_q w_ancount w_rrs]. rewrite Huq. cbn [bind].
    unfold u16. rewrite N.mod_small by exact Hn. rewrite Nat2N.id, L1, firstn_all.
    rewrite (map_res_Forall2 _ _ _ I2). reflexivity.
  - unfold unwrap. cbn [m_answers]. rewrite Hsa. cbn [bind]. rewrite I4. apply concat_res_ok.
  - cbn [m_answers]. congruence.
  - exact I3.
  - exact Hsa.
Qed.

(* ------------------------------------------------------------------------------------------------ *)
(* NULL and PRIVATE *)

Lemma BIG_val : BIG = N.to_nat 65530. Proof. reflexivity. Qed.

Lemma rec_ok_null dom k c : c <> [] -> (length c <= BIG)%nat -> k + 1 < 65536 ->
  rec_ok dom (RRNull (le16 (u16 (k + 1)) ++ c)) ((10000 + Z.of_N (k + 1))%Z, c).
Proof.
  intros Hc Hl Hk. unfold u16. rewrite N.mod_small by exact Hk.
  exists (10, le16 (k + 1) ++ c), (RRNull (le16 (k + 1) ++ c)).
  split; [| split; [| split]].
  - unfold pack_rr. cbn [pack_rdata bind rr_code].
    replace (65535 <? nlen (le16 (k + 1) ++ c)) with false; [reflexivity |].
    unfold nlen. rewrite app_length. unfold le16. cbn [length]. rewrite BIG_val in Hl. lia.
  - reflexivity.
  - cbn [type_priority fst]. pose proof (le16_rd (k + 1) Hk) as H. unfold le16 in *. cbn [app]. rewrite H. reflexivity.
  - cbn [piece snd]. rewrite drop_tag_ok; [reflexivity |].
    rewrite app_length. unfold le16. cbn [length]. lia.
Qed.

Lemma rec_ok_private dom k c : c <> [] -> (length c <= BIG)%nat -> k + 1 < 65536 ->
  rec_ok dom (RRPrivate (le16 (u16 (k + 1)) ++ c)) ((20000 + Z.of_N (k + 1))%Z, c).
Proof.
  intros Hc Hl Hk. unfold u16. rewrite N.mod_small by exact Hk.
  exists (65000, le16 (k + 1) ++ c), (RRPrivate (le16 (k + 1) ++ c)).
  split; [| split; [| split]].
  - unfold pack_rr. cbn [pack_rdata bind rr_code].
    replace (65535 <? nlen (le16 (k + 1) ++ c)) with false; [reflexivity |].
    unfold nlen. rewrite app_length. unfold le16. cbn [length]. rewrite BIG_val in Hl. lia.
  - reflexivity.
  - cbn [type_priority fst]. pose proof (le16_rd (k + 1) Hk) as H. unfold le16 in *. cbn [app]. rewrite H. reflexivity.
  - cbn [piece snd]. rewrite drop_tag_ok; [reflexivity |].
    rewrite app_length. unfold le16. cbn [length]. lia.
Qed.

Lemma BIG_pos : (0 < BIG)%nat. Proof. rewrite BIG_val. lia. Qed.

(* (5) the records come back in wrap order: as many as were made, with strictly increasing priorities, so that the
   client's sort leaves them where they are *)
Definition in_order (m' : msg) (n : nat) : Prop :=
  length (m_answers m') = n /\ sorted_answers (m_answers m') = Ok (m_answers m') /\
  exists ps, map type_priority (m_answers m') = map Ok ps /\ StronglySorted Z.lt ps.

(* a splitter of the shape  mapi (fun i d => mk i d) 0 items  against the generic lemma *)
Lemma splitter_roundtrip {A} dom q (mk : N -> A -> rr) (prio : N -> Z) (pc : A -> bytes) (cs : list A) (bound : N) :
  qname_ok q = true ->
  N.of_nat (length cs) <= bound -> bound < 65536 ->
  (forall k c, In c cs -> k < bound -> rec_ok dom (mk k c) (prio k, pc c)) ->
  (forall a b, a < b -> b < bound -> (prio a < prio b)%Z) ->
  exists w m', pack {| m_q := q; m_answers := mapi mk 0 cs |} = Ok w /\ unpack w = Ok m' /\
               unwrap m' dom = Ok (concat (map pc cs)) /\ in_order m' (length cs).
Proof.
  intros Hq Hn Hb Hrec Hmono.
  destruct (records_roundtrip dom q (mapi mk 0 cs) (mapi (fun k c => (prio k, pc c)) 0 cs)) as [w [m' [H1 [H2 [H3 [H4 [H5 H6]]]]]]].
  - exact Hq.
  - assert (G : forall (l : list A) i, (forall c, In c l -> In c cs) -> i + N.of_nat (length l) <= bound ->
                Forall2 (rec_ok dom) (mapi mk i l) (mapi (fun k c => (prio k, pc c)) i l)).
    { induction l as [| c l IH]; intros i Hin Hi; [constructor |].
      cbn [mapi]. constructor.
      - apply Hrec; [apply Hin; left; reflexivity | cbn [length] in Hi; lia].
      - apply IH; [intros; apply Hin; right; assumption | cbn [length] in Hi; lia]. }
    apply G; [auto | lia].
  - rewrite mapi_map. cbn [fst]. apply mapi_sorted. intros a b Ha Hab Hbb. apply Hmono; lia.
  - rewrite mapi_length. lia.
  - exists w, m'. rewrite mapi_map in H3. rewrite mapi_map in H5. cbn [snd fst] in H3, H5.
    replace (mapi (fun (_ : N) (x : A) => pc x) 0 cs) with (map pc cs) in H3.
    + rewrite mapi_length in H4. split; [assumption |]. split; [assumption |]. split; [assumption |].
      split; [assumption |]. split; [assumption |].
      eexists. split; [exact H5 |]. apply mapi_sorted. intros a b Ha Hab Hbb. apply Hmono; lia.
    + clear. generalize 0. induction cs as [| x l IH]; intros i; [reflexivity |]. cbn [map mapi]. rewrite <- IH. reflexivity.
Qed.

Lemma null_roundtrip dom q p : qname_ok q = true -> size_ok RNull dom p = true ->
  exists m w m', wrap RNull p dom q = Ok m /\ pack m = Ok w /\ unpack w = Ok m' /\ unwrap m' dom = Ok p /\
                 in_order m' (nrecords RNull dom p).
Proof.
  intros Hq Hs. unfold size_ok, nrecords, max_records in Hs.
  unfold wrap, wrap_answers, wrap_null. cbn [bind].
  set (cs := chunks (length p) BIG p) in *. apply N.leb_le in Hs.
  assert (Hrec : forall k c, In c cs -> k < 65535 ->
            rec_ok dom (RRNull (le16 (u16 (k + 1)) ++ c)) ((10000 + Z.of_N (k + 1))%Z, c)).
  { intros k c Hin Hk.
    pose proof (chunks_each BIG BIG_pos (length p) p) as HF. rewrite Forall_forall in HF. destruct (HF c Hin).
    apply rec_ok_null; [assumption | assumption | lia]. }
  destruct (splitter_roundtrip dom q (fun i d => RRNull (le16 (u16 (i + 1)) ++ d)) (fun k => (10000 + Z.of_N (k + 1))%Z) (fun c => c) cs 65535
              Hq Hs ltac:(reflexivity) Hrec ltac:(intros; cbv beta; lia))
    as [w [m' [H1 [H2 [H3 H4]]]]].
  eexists; exists w, m'. split; [reflexivity |]. split; [exact H1 |]. split; [exact H2 |]. split; [| exact H4].
  rewrite H3, map_id. f_equal. apply chunks_concat; [apply BIG_pos | lia].
Qed.

Lemma private_roundtrip dom q p : qname_ok q = true -> size_ok RPrivate dom p = true ->
  exists m w m', wrap RPrivate p dom q = Ok m /\ pack m = Ok w /\ unpack w = Ok m' /\ unwrap m' dom = Ok p /\
                 in_order m' (nrecords RPrivate dom p).
Proof.
  intros Hq Hs. unfold size_ok, nrecords, max_records in Hs.
  unfold wrap, wrap_answers, wrap_private. cbn [bind].
  set (cs := chunks (length p) BIG p) in *. apply N.leb_le in Hs.
  assert (Hrec : forall k c, In c cs -> k < 65535 ->
            rec_ok dom (RRPrivate (le16 (u16 (k + 1)) ++ c)) ((20000 + Z.of_N (k + 1))%Z, c)).
  { intros k c Hin Hk.
    pose proof (chunks_each BIG BIG_pos (length p) p) as HF. rewrite Forall_forall in HF. destruct (HF c Hin).
    apply rec_ok_private; [assumption | assumption | lia]. }
  destruct (splitter_roundtrip dom q (fun i d => RRPrivate (le16 (u16 (i + 1)) ++ d)) (fun k => (20000 + Z.of_N (k + 1))%Z) (fun c => c) cs 65535
              Hq Hs ltac:(reflexivity) Hrec ltac:(intros; cbv beta; lia))
    as [w [m' [H1 [H2 [H3 H4]]]]].
  eexists; exists w, m'. split; [reflexivity |]. split; [exact H1 |]. split; [exact H2 |]. split; [| exact H4].
  rewrite H3, map_id. f_equal. apply chunks_concat; [apply BIG_pos | lia].
Qed.

(* ------------------------------------------------------------------------------------------------ *)
(* TXT *)

Lemma Forall_firstn' {A} (P : A -> Prop) : forall k (d : list A), Forall P d -> Forall P (firstn k d).
Proof. induction k as [| k IH]; intros d H; [constructor |]. destruct H; cbn [firstn]; constructor; auto. Qed.

Lemma Forall_skipn' {A} (P : A -> Prop) : forall k (d : list A), Forall P d -> Forall P (skipn k d).
Proof. induction k as [| k IH]; intros d H; [exact H |]. destruct H; cbn [skipn]; [constructor | auto]. Qed.

Lemma chunks_Forall {A} (P : A -> Prop) k : forall fuel (d : list A), Forall P d -> Forall (Forall P) (chunks fuel k d).
Proof.
  induction fuel as [| f IH]; intros d Hd; [constructor |].
  destruct d as [| x d']; [constructor |].
  cbn [chunks]. constructor.
  - apply Forall_firstn'; exact Hd.
  - apply IH. apply Forall_skipn'; exact Hd.
Qed.

(* facts about the 32 base-32 characters, by enumeration *)
Definition b32_fact (j : N) : bool :=
  let c := lookup cb32 j in
  bytes_eqb (esc_txt_byte c) [c] && bytes_eqb (esc_name_byte c) [c] && (b32_to_int c =? Z.of_N j)%Z && (c <? 256)
  && negb (c =? 46) && negb (c =? 92).

Lemma b32_facts_all : forallb b32_fact (map N.of_nat (seq 0 32)) = true.
Proof. vm_compute. reflexivity. Qed.

Lemma bytes_eqb_eq a : forall b, bytes_eqb a b = true -> a = b.
Proof.
  induction a as [| x a IH]; intros [| y b] H; try discriminate; [reflexivity |].
  cbn [bytes_eqb] in H. apply andb_prop in H. destruct H as [H1 H2]. apply N.eqb_eq in H1. f_equal; auto.
Qed.

Lemma b32_char n :
  let c := int_to_b32 n in
  esc_txt_byte c = [c] /\ esc_name_byte c = [c] /\ b32_to_int c = Z.of_N (N.land n 31) /\ c < 256 /\ c <> 46 /\ c <> 92.
Proof.
  unfold int_to_b32. set (j := N.land n 31).
  assert (Hj : j < 32).
  { unfold j. change 31 with (N.ones 5). rewrite N.land_ones. apply N.mod_lt. discriminate. }
  pose proof b32_facts_all as H. rewrite forallb_forall in H.
  specialize (H j). unfold b32_fact in H.
  assert (Hin : In j (map N.of_nat (seq 0 32))).
  { apply in_map_iff. exists (N.to_nat j). split; [lia | apply in_seq; lia]. }
  specialize (H Hin). cbv zeta.
  repeat (apply andb_prop in H; destruct H as [H ?]).
  repeat split.
  - apply bytes_eqb_eq; assumption.
  - apply bytes_eqb_eq; assumption.
  - lia.
  - lia.
  - lia.
  - lia.
Qed.

(* the priority of the tag written for order k (the >>4 quirk), and its strict monotonicity below 512 *)
Definition tag_key (k : N) : Z := Z.of_N (N.land k 31) + Z.of_N (N.land (N.shiftr k 4) 31) * 32.

Lemma tag_key_step_all : forallb (fun k => (tag_key k <? tag_key (k + 1))%Z) (map N.of_nat (seq 0 511)) = true.
Proof. vm_compute. reflexivity. Qed.

Lemma tag_key_step k : k < 511 -> (tag_key k < tag_key (k + 1))%Z.
Proof.
  intros Hk. pose proof tag_key_step_all as H. rewrite forallb_forall in H.
  specialize (H k). apply Z.ltb_lt. apply H.
  apply in_map_iff. exists (N.to_nat k). split; [lia | apply in_seq; lia].
Qed.

Lemma tag_key_mono a b : a < b -> b < 512 -> (tag_key a < tag_key b)%Z.
Proof.
  intros Hab Hb.
  assert (G : forall n : nat, forall a, a + N.of_nat n + 1 < 512 -> (tag_key a < tag_key (a + N.of_nat n + 1))%Z).
  { induction n as [| n IH]; intros a0 H0.
    - replace (a0 + N.of_nat 0 + 1) with (a0 + 1) by lia. apply tag_key_step. lia.
    - eapply Z.lt_trans; [apply (IH a0); lia |].
      replace (a0 + N.of_nat (S n) + 1) with (a0 + N.of_nat n + 1 + 1) by lia. apply tag_key_step. lia. }
  replace b with (a + N.of_nat (N.to_nat (b - a - 1)) + 1) by lia. apply G. lia.
Qed.

Lemma tag_key_bound k : (0 <= tag_key k < 1024)%Z.
Proof.
  unfold tag_key.
  assert (H1 : N.land k 31 < 32) by (change 31 with (N.ones 5); rewrite N.land_ones; apply N.mod_lt; discriminate).
  assert (H2 : N.land (N.shiftr k 4) 31 < 32) by (change 31 with (N.ones 5); rewrite N.land_ones; apply N.mod_lt; discriminate).
  lia.
Qed.

Lemma tag_prio_tag2 base k : (0 <= base < 100000)%Z ->
  match tag2 k with [c0; c1] => tag_prio base c0 c1 = (base + tag_key k)%Z | _ => False end.
Proof.
  intros Hb. unfold tag2, tag_prio.
  destruct (b32_char k) as [_ [_ [H0 _]]]. destruct (b32_char (N.shiftr k 4)) as [_ [_ [H1 _]]].
  cbv zeta in H0, H1. rewrite H0, H1. fold (tag_key k).
  pose proof (tag_key_bound k). unfold u32z.
  rewrite (Z.mod_small (tag_key k)) by lia. rewrite Z.mod_small by lia. reflexivity.
Qed.

Lemma flat_map_concat {A B} (f : A -> list B) (ls : list (list A)) :
  flat_map f (concat ls) = concat (map (flat_map f) ls).
Proof.
  induction ls as [| l ls IH]; [reflexivity |].
  cbn [concat map]. rewrite flat_map_app, IH. reflexivity.
Qed.

Lemma pack_txt_string_dbl s : (length s <= 255)%nat -> pack_txt_string (txt_dbl s) = Ok (nlen s :: s).
Proof.
  intros H. unfold pack_txt_string.
  pose proof (txt_dbl_length s).
  replace (1025 <? length (txt_dbl s))%nat with false by lia.
  pose proof (unesc_txt_dbl s []) as Hu. rewrite app_nil_r in Hu. rewrite unesc_nil, app_nil_r in Hu.
  rewrite Hu. replace (255 <? length s)%nat with false by lia. reflexivity.
Qed.

Definition txt_wire (strs : list bytes) : bytes := concat (map (fun s => nlen s :: s) strs).

Lemma pack_txt_strings strs : Forall (fun s => (length s <= 255)%nat) strs ->
  concat_res (map pack_txt_string (map txt_dbl strs)) = Ok (txt_wire strs).
Proof.
  induction 1 as [| s strs Hs _ IH]; [reflexivity |].
  cbn [map concat_res]. rewrite pack_txt_string_dbl by exact Hs. cbn [bind]. rewrite IH. reflexivity.
Qed.

Lemma txt_wire_length strs : Forall (fun s => (length s <= 255)%nat) strs ->
  (length (txt_wire strs) <= 256 * length strs)%nat.
Proof.
  induction 1 as [| s strs Hs _ IH]; [simpl; lia |].
  unfold txt_wire in *. cbn [map concat]. rewrite app_length. cbn [length]. lia.
Qed.

Lemma unpack_txt_wire strs : Forall (fun s => (length s <= 255)%nat) strs -> forall fuel,
  (length (txt_wire strs) <= fuel)%nat ->
  unpack_txt fuel (txt_wire strs) = Ok (map (flat_map esc_txt_byte) strs).
Proof.
  induction 1 as [| s strs Hs _ IH]; intros fuel Hf.
  - destruct fuel; reflexivity.
  - unfold txt_wire in *. cbn [map concat] in *. rewrite app_length in Hf. cbn [length] in Hf.
    destruct fuel as [| f]; [lia |].
    cbn [app unpack_txt]. unfold nlen. rewrite Nat2N.id.
    match goal with |- context [(?a <? ?b)%nat] => destruct (Nat.ltb_spec a b) as [HH | HH] end;
      [rewrite app_length in HH; lia |].
    rewrite skipn_app_len, firstn_app_len. rewrite IH by lia. reflexivity.
Qed.

Lemma rec_ok_txt dom k s0 rest :
  k < 512 -> Forall wf_bytes (s0 :: rest) -> Forall (fun s => (length s <= 253)%nat) (s0 :: rest) -> (length rest < 250)%nat ->
  rec_ok dom (RRTxt (map txt_dbl ((tag2 (u16 k) ++ s0) :: rest))) ((30000 + tag_key k)%Z, concat (s0 :: rest)).
Proof.
  intros Hk Hwf Hlen Hn.
  unfold u16. rewrite N.mod_small by lia.
  set (strs := (tag2 k ++ s0) :: rest).
  assert (Hstrs : Forall (fun s => (length s <= 255)%nat) strs).
  { inversion Hlen; subst. constructor.
    - rewrite app_length. unfold tag2. cbn [length]. lia.
    - eapply Forall_impl; [| eassumption]. cbv beta. intros; lia. }
  exists (16, txt_wire strs), (RRTxt (map (flat_map esc_txt_byte) strs)).
  split; [| split; [| split]].
  - unfold pack_rr. cbn [pack_rdata rr_code]. rewrite pack_txt_strings by exact Hstrs. cbn [bind].
    pose proof (txt_wire_length strs Hstrs) as HL.
    replace (65535 <? nlen (txt_wire strs)) with false; [reflexivity |].
    unfold nlen. assert (length strs = S (length rest)) by reflexivity. lia.
  - unfold unpack_rr.
    assert (Hne : txt_wire strs <> []) by (unfold strs, txt_wire; cbn [map concat app]; discriminate).
    destruct (txt_wire strs) as [| b rd] eqn:E; [contradiction |]. rewrite <- E.
    change (16 =? 10) with false. change (16 =? 65000) with false. change (16 =? 16) with true. cbv iota.
    rewrite unpack_txt_wire by (try exact Hstrs; lia). reflexivity.
  - cbn [fst]. unfold strs. cbn [map type_priority].
    pose proof (tag_prio_tag2 30000 k ltac:(lia)) as HT. unfold tag2 in *.
    destruct (b32_char k) as [E0 _]. destruct (b32_char (N.shiftr k 4)) as [E1 _]. cbv zeta in E0, E1.
    cbn [app flat_map]. rewrite E0, E1. cbn [app]. rewrite HT. reflexivity.
  - cbn [snd piece]. rewrite <- flat_map_concat.
    assert (Hw : wf_bytes (concat strs)).
    { unfold strs. cbn [concat]. inversion Hwf; subst. unfold wf_bytes in *.
      rewrite !Forall_app. split; [split |].
      - unfold tag2. destruct (b32_char k) as [_ [_ [_ [? _]]]]. destruct (b32_char (N.shiftr k 4)) as [_ [_ [_ [? _]]]].
        repeat constructor; assumption.
      - assumption.
      - rewrite Forall_concat. assumption. }
    pose proof (unesc_esc_txt (concat strs) Hw []) as Hu. rewrite app_nil_r, unesc_nil, app_nil_r in Hu.
    rewrite Hu. rewrite drop_tag_ok.
    + unfold strs. cbn [concat]. unfold tag2. reflexivity.
    + unfold strs. cbn [concat]. rewrite !app_length. unfold tag2. cbn [length]. lia.
Qed.

Lemma concat_map_concat {A} (ls : list (list (list A))) : concat (map (@concat A) ls) = concat (concat ls).
Proof. induction ls as [| l ls IH]; [reflexivity |]. cbn [map concat]. rewrite concat_app, IH. reflexivity. Qed.

Lemma txt_roundtrip dom q p : qname_ok q = true -> wf_bytes p -> size_ok RTxt dom p = true ->
  exists m w m', wrap RTxt p dom q = Ok m /\ pack m = Ok w /\ unpack w = Ok m' /\ unwrap m' dom = Ok p /\
                 in_order m' (nrecords RTxt dom p).
Proof.
  intros Hq Hwf Hs. unfold size_ok, nrecords, max_records in Hs.
  unfold wrap, wrap_answers, wrap_txt. cbn [bind].
  set (strs := chunks (length p) 253 p) in *.
  set (recs := chunks (length strs) 250 strs) in *. apply N.leb_le in Hs.
  set (mk := fun (k : N) (ss : list (list N)) => match ss with
                               | [] => RRTxt []
                               | s0 :: rest => RRTxt (map txt_dbl ((tag2 (u16 k) ++ s0) :: rest))
                               end).
  assert (Hstr_each : Forall (fun c => c <> [] /\ (length c <= 253)%nat) strs) by (apply chunks_each; lia).
  assert (Hstr_wf : Forall wf_bytes strs) by (apply chunks_Forall; exact Hwf).
  assert (Hrec_each : Forall (fun c => c <> [] /\ (length c <= 250)%nat) recs) by (apply chunks_each; lia).
  assert (Hrec_all : Forall (Forall (fun s => wf_bytes s /\ (length s <= 253)%nat)) recs).
  { apply chunks_Forall. rewrite Forall_forall in *. intros s Hin. split; [apply Hstr_wf | apply Hstr_each]; assumption. }
  assert (Hrec : forall k ss, In ss recs -> k < 512 -> rec_ok dom (mk k ss) ((30000 + tag_key k)%Z, concat ss)).
  { intros k ss Hin Hk. rewrite Forall_forall in Hrec_each, Hrec_all.
    destruct (Hrec_each ss Hin) as [Hne Hl]. specialize (Hrec_all ss Hin).
    destruct ss as [| s0 rest]; [contradiction |]. unfold mk.
    apply rec_ok_txt; try assumption.
    - eapply Forall_impl; [| exact Hrec_all]. cbv beta. tauto.
    - eapply Forall_impl; [| exact Hrec_all]. cbv beta. tauto. }
  destruct (splitter_roundtrip dom q mk (fun k => (30000 + tag_key k)%Z) (@concat N) recs 512
              Hq Hs ltac:(reflexivity) Hrec ltac:(intros a b Hab Hb; cbv beta; pose proof (tag_key_mono a b Hab Hb); lia))
    as [w [m' [H1 [H2 [H3 H4]]]]].
  eexists; exists w, m'. split; [reflexivity |]. split; [exact H1 |]. split; [exact H2 |]. split; [| exact H4].
  rewrite H3. f_equal. transitivity (concat (concat recs)); [apply concat_map_concat |].
  unfold recs. rewrite chunks_concat by lia. unfold strs. apply chunks_concat; lia.
Qed.

(* ------------------------------------------------------------------------------------------------ *)
(* (4) the known finding: the short final chunk of an A or AAAA answer cannot be packed *)

Theorem a_tail_refuted :
  exists payload dom q m e, qname_ok q = true /\ wrap RA payload dom q = Ok m /\ pack m = Err e.
Proof.
  exists [118; 1; 2; 3], (wd "a.b"), (wd "q.a.b."). eexists. eexists.
  split; [vm_compute; reflexivity |]. split; vm_compute; reflexivity.
Qed.

Theorem aaaa_tail_refuted :
  exists payload dom q m e, qname_ok q = true /\ wrap RAAAA payload dom q = Ok m /\ pack m = Err e.
Proof.
  exists [118; 1; 2; 3], (wd "a.b"), (wd "q.a.b."). eexists. eexists.
  split; [vm_compute; reflexivity |]. split; vm_compute; reflexivity.
Qed.

(* ------------------------------------------------------------------------------------------------ *)
(* domain names *)

Ltac Zify.zify_post_hook ::= Z.div_mod_to_equations.

Definition join (ls : list bytes) : bytes := concat (map (fun l => l ++ [DOT]) ls).

Lemma join_cons l ls : join (l :: ls) = l ++ DOT :: join ls.
Proof. unfold join. cbn [map concat]. rewrite <- app_assoc. reflexivity. Qed.

Lemma join_app a b : join (a ++ b) = join a ++ join b.
Proof. unfold join. rewrite map_app, concat_app. reflexivity. Qed.

Lemma join_length ls : length (join ls) = fold_right (fun l acc => (length l + 1 + acc)%nat) 0%nat ls.
Proof.
  induction ls as [| l ls IH]; [reflexivity |].
  rewrite join_cons, app_length. cbn [length fold_right]. rewrite IH. lia.
Qed.

Definition nodot (l : bytes) : Prop := Forall (fun b => b <> 46 /\ b <> 92) l.

Lemma name_labels_S f c r cur wd :
  name_labels (S f) (c :: r) cur wd =
  if c =? BSL then
    match r with
    | [] => Ok []
    | d1 :: r1 =>
      match r1 with
      | d2 :: d3 :: r3 =>
        if is_digit d1 && is_digit d2 && is_digit d3 then name_labels f r3 (ddd_val d1 d2 d3 :: cur) false
        else name_labels f r1 (d1 :: cur) false
      | _ => name_labels f r1 (d1 :: cur) false
      end
    end
  else if c =? DOT then
    if wd then Err (Tok.wd "rdata")
    else if (64 <=? length cur)%nat then Err (Tok.wd "rdata")
    else do rest <- name_labels f r [] true ;; Ok (rev cur :: rest)
  else name_labels f r (c :: cur) false.
Proof. reflexivity. Qed.

Lemma name_labels_label l : nodot l -> forall cur wd f rest,
  name_labels (length l + S f) (l ++ DOT :: rest) cur wd =
  if (match l with [] => wd | _ => false end) then Err (Tok.wd "rdata")
  else if (64 <=? length (rev l ++ cur))%nat then Err (Tok.wd "rdata")
  else do r <- name_labels f rest [] true ;; Ok (rev (rev l ++ cur) :: r).
Proof.
  induction 1 as [| c l [Hc1 Hc2] _ IH]; intros cur wd f rest.
  - cbn [length app Nat.add rev]. rewrite name_labels_S. reflexivity.
  - cbn [length app Nat.add]. rewrite name_labels_S. unfold BSL, DOT in *.
    destruct (N.eqb_spec c 92); [contradiction |]. destruct (N.eqb_spec c 46); [contradiction |].
    rewrite IH. cbn [rev]. rewrite <- !app_assoc. cbn [app].
    destruct l; reflexivity.
Qed.

Definition label_pack_ok (l : bytes) : Prop := l <> [] /\ (length l <= 63)%nat /\ nodot l.

Lemma name_labels_join ls : Forall label_pack_ok ls -> forall fuel wd, (length (join ls) <= fuel)%nat ->
  name_labels fuel (join ls) [] wd = Ok ls.
Proof.
  induction 1 as [| l ls [Hne [Hlen Hnd]] _ IH]; intros fuel wd Hf.
  - destruct fuel; reflexivity.
  - rewrite join_cons in *. rewrite app_length in Hf. cbn [length] in Hf.
    replace fuel with (length l + S (fuel - length l - 1))%nat by lia.
    rewrite name_labels_label by exact Hnd.
    destruct l as [| c l']; [contradiction |].
    rewrite app_nil_r, rev_length.
    replace (64 <=? length (c :: l'))%nat with false by lia.
    rewrite IH by lia. cbn [bind]. rewrite rev_involutive. reflexivity.
Qed.

Lemma is_fqdn_ascii s x : x < 128 -> x <> 92 -> is_fqdn (s ++ [x; DOT]) = true.
Proof.
  intros Hx Hb. unfold is_fqdn. rewrite rev_app_distr. cbn [rev app]. unfold DOT at 1. change (46 =? 46) with true. cbv iota.
  cbn [strip_bsl]. unfold BSL. destruct (N.eqb_spec x 92); [contradiction |].
  cbn [last_rune_width]. replace (x <? 128) with true by lia. reflexivity.
Qed.

Lemma join_last ls l x : join (ls ++ [l ++ [x]]) = join ls ++ l ++ [x; DOT].
Proof. rewrite join_app. unfold join at 2. cbn [map concat]. rewrite app_nil_r, <- app_assoc. reflexivity. Qed.

Lemma wire_of_labels_length ls : length (wire_of_labels ls) = S (length (join ls)).
Proof.
  unfold wire_of_labels. rewrite app_length. cbn [length].
  induction ls as [| l ls IH]; [reflexivity |].
  rewrite join_cons. cbn [flat_map]. rewrite ?app_length in *. cbn [length] in *. rewrite ?app_length. cbn [length]. lia.
Qed.

(* a name made of sane labels whose last character is ASCII packs to its labels *)
Lemma pack_name_join ls l x :
  Forall label_pack_ok (ls ++ [l ++ [x]]) -> x < 128 ->
  pack_name (join (ls ++ [l ++ [x]])) = Ok (wire_of_labels (ls ++ [l ++ [x]])).
Proof.
  intros HF Hx.
  assert (Hx92 : x <> 92).
  { rewrite Forall_app in HF. destruct HF as [_ HF]. inversion HF as [| ? ? [_ [_ Hnd]] _]; subst.
    unfold nodot in Hnd. rewrite Forall_app in Hnd. destruct Hnd as [_ Hnd]. inversion Hnd as [| ? ? [_ ?] _]; subst. assumption. }
  unfold pack_name.
  destruct (join (ls ++ [l ++ [x]])) as [| c0 s0] eqn:E.
  - rewrite join_last in E. destruct (join ls); destruct l; discriminate.
  - rewrite <- E. rewrite join_last at 1. rewrite app_assoc. rewrite is_fqdn_ascii by assumption. cbn [negb].
    destruct (bytes_eqb (join (ls ++ [l ++ [x]])) [DOT]) eqn:Eb.
    + apply bytes_eqb_eq in Eb. rewrite join_last in Eb.
      apply (f_equal (@length _)) in Eb. rewrite !app_length in Eb. cbn [length] in Eb. lia.
    + rewrite name_labels_join by (try exact HF; lia). reflexivity.
Qed.

Lemma esc_name_plain l : Forall (fun b => plain_char b = true) l -> flat_map esc_name_byte l = l.
Proof.
  induction 1 as [| b l Hb _ IH]; [reflexivity |].
  cbn [flat_map]. rewrite IH. unfold esc_name_byte, plain_char in *.
  apply andb_prop in Hb. destruct Hb as [Hb Hs]. apply negb_true_iff in Hs. rewrite Hs.
  replace ((b <? 32) || (126 <? b)) with false by lia. reflexivity.
Qed.

Definition pres (ls : list bytes) : bytes := concat (map (fun l => flat_map esc_name_byte l ++ [DOT]) ls).

Lemma unpack_name_loop_labels ls : Forall (fun l => l <> [] /\ (length l <= 63)%nat) ls ->
  forall fuel budget rest,
    (length (flat_map (fun l => nlen l :: l) ls) < fuel)%nat ->
    (Z.of_nat (length (join ls)) < budget)%Z ->
    unpack_name_loop fuel (flat_map (fun l => nlen l :: l) ls ++ 0 :: rest) budget = Ok (pres ls, rest).
Proof.
  induction 1 as [| l ls [Hne Hlen] _ IH]; intros fuel budget rest Hf Hb.
  - destruct fuel; [simpl in Hf; lia | reflexivity].
  - cbn [flat_map] in *. rewrite join_cons in Hb. rewrite !app_length in *. cbn [length] in *.
    destruct fuel as [| f]; [lia |].
    rewrite <- !app_assoc. cbn [app unpack_name_loop].
    assert (Hl0 : nlen l <> 0) by (unfold nlen; destruct l; [contradiction | cbn [length]; lia]).
    destruct (N.eqb_spec (nlen l) 0); [contradiction |].
    replace (nlen l <? 64) with true by (unfold nlen; lia).
    assert (E : N.to_nat (nlen l) = length l) by (unfold nlen; apply Nat2N.id).
    assert (Ez : Z.of_N (nlen l) = Z.of_nat (length l)) by (unfold nlen; lia).
    rewrite !E, Ez.
    match goal with |- context [(?a <? ?b)%nat] => destruct (Nat.ltb_spec a b) as [HH | HH] end;
      [rewrite app_length in HH; lia |].
    match goal with |- context [(?a <=? 0)%Z] => destruct (Z.leb_spec a 0) as [HH2 | HH2] end; [lia |].
    rewrite skipn_app_len, firstn_app_len.
    rewrite IH by (try rewrite app_length in Hf; lia).
    cbn [bind fst snd]. unfold pres. cbn [map concat]. rewrite <- app_assoc. reflexivity.
Qed.

Lemma unpack_last_name_labels ls : ls <> [] -> Forall (fun l => l <> [] /\ (length l <= 63)%nat) ls ->
  (length (join ls) < 255)%nat ->
  unpack_last_name (wire_of_labels ls) = Ok (pres ls).
Proof.
  intros Hne HF Hb. unfold unpack_last_name, unpack_name, wire_of_labels.
  rewrite unpack_name_loop_labels; try assumption.
  - cbn [bind fst snd]. destruct ls as [| l ls']; [contradiction |].
    unfold pres. cbn [map concat]. destruct (flat_map esc_name_byte l ++ [DOT]) eqn:E.
    + destruct (flat_map esc_name_byte l); discriminate.
    + reflexivity.
  - rewrite app_length. cbn [length]. lia.
  - lia.
Qed.

(* ------------------------------------------------------------------------------------------------ *)
(* PrepareHostname / Dotify / the tunnel domain *)

Definition body_labels (d : bytes) : list bytes := if (60 <? length d)%nat then chunks (length d) 57 d else [d].

Lemma dotify_join : forall fuel d, d <> [] -> (length d <= fuel)%nat -> dotify fuel d ++ [DOT] = join (chunks fuel 57 d).
Proof.
  induction fuel as [| f IH]; intros d Hne Hf.
  - destruct d; [contradiction | simpl in Hf; lia].
  - destruct d as [| x d']; [contradiction |].
    cbn [dotify chunks]. rewrite join_cons.
    destruct (Nat.ltb_spec 57 (length (x :: d'))) as [H | H].
    + rewrite <- app_assoc. cbn [app]. rewrite IH; [reflexivity | |].
      * intros E. apply (f_equal (@length _)) in E. rewrite skipn_length in E. cbn [length] in *. lia.
      * rewrite skipn_length. cbn [length] in *. lia.
    + rewrite firstn_all2 by lia. rewrite skipn_all2 by lia. rewrite chunks_nil. reflexivity.
Qed.

Lemma dotify_length : forall fuel d, d <> [] -> (length d <= fuel)%nat ->
  (length (dotify fuel d) <= length d + (length d - 1) / 57)%nat.
Proof.
  induction fuel as [| f IH]; intros d Hne Hf.
  - destruct d; [contradiction | simpl in Hf; lia].
  - cbn [dotify]. destruct (Nat.ltb_spec 57 (length d)) as [H | H]; [| lia].
    rewrite app_length. cbn [length]. rewrite firstn_length.
    assert (Hs : skipn 57 d <> []).
    { intros E. apply (f_equal (@length _)) in E. rewrite skipn_length in E. cbn [length] in E. lia. }
    specialize (IH (skipn 57 d) Hs). rewrite skipn_length in IH. specialize (IH ltac:(lia)). lia.
Qed.

Lemma body_labels_join d : d <> [] ->
  (if (60 <? length d)%nat then dotify (length d) d else d) ++ [DOT] = join (body_labels d).
Proof.
  intros Hne. unfold body_labels. destruct (60 <? length d)%nat.
  - apply dotify_join; [exact Hne | lia].
  - unfold join. cbn [map concat]. rewrite app_nil_r. reflexivity.
Qed.

Lemma body_labels_concat d : concat (body_labels d) = d.
Proof.
  unfold body_labels. destruct (60 <? length d)%nat.
  - apply chunks_concat; lia.
  - cbn [concat]. apply app_nil_r.
Qed.

Lemma body_labels_ok d : d <> [] -> nodot d -> Forall label_pack_ok (body_labels d).
Proof.
  intros Hne Hnd. unfold body_labels. destruct (Nat.ltb_spec 60 (length d)) as [H | H].
  - pose proof (chunks_each 57 ltac:(lia) (length d) d) as H1.
    pose proof (chunks_Forall _ 57 (length d) d Hnd) as H2.
    rewrite Forall_forall in *. intros l Hl. destruct (H1 l Hl). repeat split; [assumption | lia | apply H2; assumption].
  - constructor; [| constructor]. repeat split; [assumption | lia | assumption].
Qed.

Lemma body_labels_nonempty d : d <> [] -> body_labels d <> [].
Proof.
  intros Hne E. pose proof (body_labels_concat d) as H. rewrite E in H. cbn in H. congruence.
Qed.

Lemma split_dots_join : forall s cur, join (split_dots s cur) = rev cur ++ s ++ [DOT].
Proof.
  induction s as [| c r IH]; intros cur.
  - cbn [split_dots]. unfold join. cbn [map concat app]. rewrite app_nil_r. reflexivity.
  - cbn [split_dots]. destruct (N.eqb_spec c DOT) as [-> | Hc].
    + rewrite join_cons, IH. cbn [rev app]. reflexivity.
    + rewrite IH. cbn [rev]. rewrite <- app_assoc. reflexivity.
Qed.

Lemma dom_labels_join dom : join (dom_labels dom) = dom ++ [DOT].
Proof. unfold dom_labels. rewrite split_dots_join. reflexivity. Qed.

Lemma split_dots_nonempty : forall s cur, split_dots s cur <> [].
Proof. induction s as [| c r IH]; intros cur; cbn [split_dots]; [discriminate |]. destruct (c =? DOT); [discriminate | apply IH]. Qed.

Lemma label_ok_spec l : label_ok l = true ->
  l <> [] /\ (length l <= 63)%nat /\ Forall (fun b => plain_char b = true) l.
Proof.
  unfold label_ok. intros H. apply andb_prop in H. destruct H as [H H3]. apply andb_prop in H. destruct H as [H1 H2].
  split; [| split].
  - destruct l; [simpl in H1; discriminate | discriminate].
  - apply Nat.leb_le; exact H2.
  - rewrite forallb_forall in H3. apply Forall_forall. exact H3.
Qed.

Lemma plain_nodot l : Forall (fun b => plain_char b = true) l -> nodot l.
Proof.
  apply Forall_impl. intros b Hb. unfold plain_char in Hb.
  apply andb_prop in Hb. destruct Hb as [_ Hs]. apply negb_true_iff in Hs. unfold name_special in Hs. lia.
Qed.

Lemma dom_ok_labels dom : dom_ok dom = true ->
  Forall (fun l => l <> [] /\ (length l <= 63)%nat /\ Forall (fun b => plain_char b = true) l) (dom_labels dom)
  /\ (length dom <= 246)%nat.
Proof.
  unfold dom_ok. intros H. apply andb_prop in H. destruct H as [H1 H2]. split.
  - rewrite forallb_forall in H1. apply Forall_forall. intros l Hl. apply label_ok_spec. apply H1. exact Hl.
  - apply Nat.leb_le; exact H2.
Qed.

(* the last label of the domain ends in an ASCII character *)
Lemma dom_labels_last dom : dom_ok dom = true ->
  exists ls l x, dom_labels dom = ls ++ [l ++ [x]] /\ x < 128.
Proof.
  intros Hd. destruct (dom_ok_labels dom Hd) as [HF _].
  pose proof (split_dots_nonempty dom []) as Hne. fold (dom_labels dom) in Hne.
  destruct (exists_last Hne) as [ls [ll E]]. rewrite E in HF.
  rewrite Forall_app in HF. destruct HF as [_ HF]. inversion HF as [| ? ? [Hn [_ Hp]] _]; subst.
  destruct (exists_last Hn) as [l [x E2]]. subst ll.
  exists ls, l, x. split; [exact E |].
  rewrite Forall_app in Hp. destruct Hp as [_ Hp]. inversion Hp as [| ? ? Hx _]; subst.
  unfold plain_char in Hx. lia.
Qed.

Lemma dom_pres dom : dom_ok dom = true -> pres (dom_labels dom) = dom ++ [DOT].
Proof.
  intros Hd. destruct (dom_ok_labels dom Hd) as [HF _].
  rewrite <- dom_labels_join. unfold pres, join. f_equal.
  apply map_ext_in. intros l Hl. rewrite Forall_forall in HF. destruct (HF l Hl) as [_ [_ Hp]].
  rewrite esc_name_plain by exact Hp. reflexivity.
Qed.

Lemma pres_app a b : pres (a ++ b) = pres a ++ pres b.
Proof. unfold pres. rewrite map_app, concat_app. reflexivity. Qed.

(* the full name of an answer: packs, unpacks, and its presentation form *)
Lemma hostname_roundtrip d dom :
  d <> [] -> nodot d -> dom_ok dom = true ->
  (length d + (length d - 1) / 57 + length dom + 2 <= 251)%nat ->
  exists w, prepare_hostname d dom = Ok (join (body_labels d ++ dom_labels dom)) /\
            pack_name (join (body_labels d ++ dom_labels dom)) = Ok w /\
            (length w <= 253)%nat /\ w <> [] /\
            unpack_last_name w = Ok (pres (body_labels d) ++ dom ++ [DOT]).
Proof.
  intros Hne Hnd Hd Hlen.
  destruct (dom_ok_labels dom Hd) as [HF Hdl].
  destruct (dom_labels_last dom Hd) as [ls [l [x [E Hx]]]].
  assert (Hh : (if (60 <? length d)%nat then dotify (length d) d else d) ++ DOT :: dom ++ [DOT]
               = join (body_labels d ++ dom_labels dom)).
  { rewrite join_app, <- body_labels_join by exact Hne. rewrite dom_labels_join, <- app_assoc. reflexivity. }
  assert (Hjl : (length (join (body_labels d ++ dom_labels dom)) <= 251)%nat).
  { rewrite <- Hh. rewrite app_length. cbn [length]. rewrite app_length. cbn [length].
    destruct (Nat.ltb_spec 60 (length d)).
    - pose proof (dotify_length (length d) d Hne ltac:(lia)). lia.
    - lia. }
  assert (Hall : Forall label_pack_ok (body_labels d ++ dom_labels dom)).
  { apply Forall_app. split; [apply body_labels_ok; assumption |].
    eapply Forall_impl; [| exact HF]. cbv beta. intros a [H1 [H2 H3]]. repeat split; [assumption | assumption | apply plain_nodot; assumption]. }
  exists (wire_of_labels (body_labels d ++ dom_labels dom)).
  split; [| split; [| split; [| split]]].
  - unfold prepare_hostname. cbv zeta.
    match goal with |- context [Ok (?X ++ DOT :: dom ++ [DOT])] => set (h := X ++ DOT :: dom ++ [DOT]) end.
    assert (Eh : h = join (body_labels d ++ dom_labels dom)) by exact Hh. rewrite Eh.
    replace (251 <? length (join (body_labels d ++ dom_labels dom)))%nat with false by lia. reflexivity.
  - rewrite E, app_assoc in *. apply pack_name_join; assumption.
  - rewrite wire_of_labels_length. lia.
  - unfold wire_of_labels. destruct (flat_map _ _); discriminate.
  - rewrite unpack_last_name_labels.
    + rewrite pres_app, dom_pres by exact Hd. reflexivity.
    + intros E0. apply app_eq_nil in E0. destruct E0 as [E0 _]. apply (body_labels_nonempty d Hne E0).
    + eapply Forall_impl; [| exact Hall]. cbv beta. intros a [H1 [H2 _]]. split; assumption.
    + lia.
Qed.

(* what UnwrapDnsResponse recovers from the presentation form *)
Lemma undotify_app a b : undotify (a ++ b) = undotify a ++ undotify b.
Proof. unfold undotify. apply filter_app. Qed.

Lemma undotify_esc l : nodot l -> undotify (flat_map esc_name_byte l) = flat_map esc_name_byte l.
Proof.
  induction 1 as [| b l [Hb1 Hb2] _ IH]; [reflexivity |].
  cbn [flat_map]. rewrite undotify_app, IH. f_equal.
  unfold esc_name_byte. destruct (name_special b).
  - unfold undotify, BSL, DOT. cbn [filter]. change (92 =? 46) with false. cbn [negb].
    destruct (N.eqb_spec b 46); [contradiction | reflexivity].
  - destruct ((b <? 32) || (126 <? b)).
    + unfold ddd_of, undotify, DOT. cbn [filter]. change (92 =? 46) with false. cbn [negb].
      replace (48 + b / 100 =? 46) with false by lia.
      replace (48 + (b / 10) mod 10 =? 46) with false by lia.
      replace (48 + b mod 10 =? 46) with false by lia. reflexivity.
    + unfold undotify, DOT. cbn [filter]. destruct (N.eqb_spec b 46); [contradiction | reflexivity].
Qed.

Lemma undotify_pres ls : Forall nodot ls -> undotify (pres ls) = flat_map esc_name_byte (concat ls).
Proof.
  induction 1 as [| l ls Hl _ IH]; [reflexivity |].
  unfold pres in *. cbn [map concat]. rewrite !undotify_app, IH, undotify_esc by exact Hl.
  rewrite flat_map_app. f_equal. rewrite <- app_nil_r. f_equal.
Qed.

Lemma pres_nonempty_last ls : ls <> [] -> exists p0, pres ls = p0 ++ [DOT].
Proof.
  intros Hne. destruct (exists_last Hne) as [ls' [l E]]. subst ls.
  rewrite pres_app. unfold pres at 2. cbn [map concat]. rewrite app_nil_r.
  exists (pres ls' ++ flat_map esc_name_byte l). rewrite <- app_assoc. reflexivity.
Qed.

Lemma strip_domain_pres p0 dom : strip_domain ((p0 ++ [DOT]) ++ dom ++ [DOT]) dom = Some p0.
Proof.
  unfold strip_domain.
  replace (zlen ((p0 ++ [DOT]) ++ dom ++ [DOT]) - zlen dom - 2)%Z with (Z.of_nat (length p0)).
  - replace (Z.of_nat (length p0) <? 0)%Z with false by lia. rewrite Nat2Z.id.
    rewrite <- !app_assoc. rewrite firstn_app_len. reflexivity.
  - unfold zlen. rewrite !app_length. cbn [length]. lia.
Qed.

Lemma name_piece d dom : d <> [] -> nodot d -> wf_bytes d ->
  exists p0, pres (body_labels d) = p0 ++ [DOT] /\
             strip_domain (pres (body_labels d) ++ dom ++ [DOT]) dom = Some p0 /\
             unesc (undotify p0) = d.
Proof.
  intros Hne Hnd Hwf.
  destruct (pres_nonempty_last (body_labels d) (body_labels_nonempty d Hne)) as [p0 E].
  exists p0. split; [exact E |]. split; [rewrite E; apply strip_domain_pres |].
  assert (Hu : undotify (pres (body_labels d)) = flat_map esc_name_byte d).
  { rewrite undotify_pres.
    - rewrite body_labels_concat. reflexivity.
    - pose proof (body_labels_ok d Hne Hnd) as H. eapply Forall_impl; [| exact H]. cbv beta. intros a [_ [_ Ha]]. exact Ha. }
  rewrite E, undotify_app in Hu. unfold undotify at 2 in Hu. cbn [filter] in Hu. unfold DOT in Hu at 2 3.
  change (46 =? 46) with true in Hu. cbn [negb] in Hu. rewrite app_nil_r in Hu.
  rewrite Hu. pose proof (unesc_esc_name d Hwf []) as H. rewrite app_nil_r, unesc_nil, app_nil_r in H. exact H.
Qed.

(* ------------------------------------------------------------------------------------------------ *)
(* MX, SRV, CNAME *)

Lemma ml_facts dom : (length dom <= 246)%nat ->
  (1 <= longest_data_string dom)%Z /\
  forall n : nat, (1 <= n)%nat -> (Z.of_nat n <= longest_data_string dom + 2)%Z ->
                  (n + (n - 1) / 57 + length dom + 2 <= 251)%nat.
Proof.
  intros Hd. unfold longest_data_string, zlen.
  assert (Hq : (Z.quot (253 - 2 - Z.of_nat (length dom) - 2) 58 = (253 - 2 - Z.of_nat (length dom) - 2) / 58)%Z)
    by (apply Z.quot_div_nonneg; lia).
  rewrite Hq. split; [lia |]. intros n Hn Hle. lia.
Qed.

Definition hn (dom d : bytes) : bytes := join (body_labels d ++ dom_labels dom).

Lemma dns_safe_facts b : dns_safeb b = true -> b < 256 /\ b <> 46 /\ b <> 92.
Proof. unfold dns_safeb. lia. Qed.

Lemma safe_nodot_wf p : forallb dns_safeb p = true -> nodot p /\ wf_bytes p.
Proof.
  intros H. rewrite forallb_forall in H. split; apply Forall_forall; intros b Hb; destruct (dns_safe_facts b (H b Hb)); tauto.
Qed.

Lemma map_res_mapi_bind {A} (f : A -> res bytes) (h : A -> bytes) (g : N -> bytes -> rr) (cs : list A) : forall i,
  (forall d, In d cs -> f d = Ok (h d)) ->
  map_res (fun x => x) (mapi (fun i d => do t <- f d ;; Ok (g i t)) i cs) = Ok (mapi (fun i d => g i (h d)) i cs).
Proof.
  induction cs as [| d cs IH]; intros i H; [reflexivity |].
  cbn [mapi map_res]. rewrite (H d) by (left; reflexivity). cbn [bind].
  rewrite IH by (intros; apply H; right; assumption). reflexivity.
Qed.

Lemma name_chunks_ok site dom p : (length dom <= 246)%nat ->
  name_chunks site dom p = Ok (chunks (length p) (Z.to_nat (longest_data_string dom)) p).
Proof.
  intros Hd. destruct (ml_facts dom Hd) as [Hml _]. unfold name_chunks.
  destruct p as [| x p']; [reflexivity |].
  destruct (Z.ltb_spec (longest_data_string dom) 0); [lia |].
  destruct (Z.eqb_spec (longest_data_string dom) 0); [lia | reflexivity].
Qed.

Lemma rec_ok_mx dom k c : dom_ok dom = true -> c <> [] -> nodot c -> wf_bytes c ->
  (Z.of_nat (length c) <= longest_data_string dom)%Z -> 10 * (k + 1) < 65536 ->
  prepare_hostname c dom = Ok (hn dom c) /\
  rec_ok dom (RRMx (u16 (10 * (k + 1))) (hn dom c)) ((40000 + Z.of_N (10 * (k + 1)))%Z, c).
Proof.
  intros Hd Hne Hnd Hwf Hl Hk.
  destruct (dom_ok_labels dom Hd) as [_ Hdl]. destruct (ml_facts dom Hdl) as [_ Har].
  assert (Hc1 : (1 <= length c)%nat) by (destruct c; [contradiction | cbn [length]; lia]).
  destruct (hostname_roundtrip c dom Hne Hnd Hd (Har _ Hc1 ltac:(lia))) as [w [P1 [P2 [P3 [P4 P5]]]]].
  split; [exact P1 |].
  unfold u16. rewrite N.mod_small by exact Hk. fold (hn dom c) in *.
  destruct (name_piece c dom Hne Hnd Hwf) as [p0 [Q1 [Q2 Q3]]].
  exists (15, be16 (10 * (k + 1)) ++ w), (RRMx (10 * (k + 1)) (pres (body_labels c) ++ dom ++ [DOT])).
  split; [| split; [| split]].
  - unfold pack_rr. cbn [pack_rdata rr_code]. rewrite P2. cbn [bind].
    replace (65535 <? nlen (be16 (10 * (k + 1)) ++ w)) with false; [reflexivity |].
    unfold nlen. rewrite app_length. unfold be16. cbn [length]. lia.
  - unfold unpack_rr. unfold be16. cbn [app].
    change (15 =? 10) with false. change (15 =? 65000) with false. change (15 =? 16) with false. change (15 =? 15) with true. cbv iota.
    destruct w as [| w0 w']; [contradiction |]. rewrite P5. cbn [bind].
    pose proof (be16_rd (10 * (k + 1)) Hk) as Hb. unfold be16 in Hb. rewrite Hb. reflexivity.
  - reflexivity.
  - cbn [piece snd]. unfold target_piece. rewrite Q2. rewrite Q3. reflexivity.
Qed.

Lemma rec_ok_srv dom k c : dom_ok dom = true -> c <> [] -> nodot c -> wf_bytes c ->
  (Z.of_nat (length c) <= longest_data_string dom)%Z -> k + 1 < 65536 ->
  prepare_hostname c dom = Ok (hn dom c) /\
  rec_ok dom (RRSrv (u16 (k + 1)) 0 0 (hn dom c)) ((50000 + Z.of_N (k + 1))%Z, c).
Proof.
  intros Hd Hne Hnd Hwf Hl Hk.
  destruct (dom_ok_labels dom Hd) as [_ Hdl]. destruct (ml_facts dom Hdl) as [_ Har].
  assert (Hc1 : (1 <= length c)%nat) by (destruct c; [contradiction | cbn [length]; lia]).
  destruct (hostname_roundtrip c dom Hne Hnd Hd (Har _ Hc1 ltac:(lia))) as [w [P1 [P2 [P3 [P4 P5]]]]].
  split; [exact P1 |].
  unfold u16. rewrite N.mod_small by exact Hk. fold (hn dom c) in *.
  destruct (name_piece c dom Hne Hnd Hwf) as [p0 [Q1 [Q2 Q3]]].
  exists (33, be16 (k + 1) ++ be16 0 ++ be16 0 ++ w), (RRSrv (k + 1) 0 0 (pres (body_labels c) ++ dom ++ [DOT])).
  split; [| split; [| split]].
  - unfold pack_rr. cbn [pack_rdata rr_code]. rewrite P2. cbn [bind].
    replace (65535 <? nlen (be16 (k + 1) ++ be16 0 ++ be16 0 ++ w)) with false; [reflexivity |].
    unfold nlen. rewrite !app_length. unfold be16. cbn [length]. lia.
  - unfold unpack_rr. unfold be16. cbn [app].
    change (33 =? 10) with false. change (33 =? 65000) with false. change (33 =? 16) with false.
    change (33 =? 15) with false. change (33 =? 33) with true. cbv iota.
    destruct w as [| w0 w']; [contradiction |]. rewrite P5. cbn [bind].
    pose proof (be16_rd (k + 1) Hk) as Hb. unfold be16 in Hb. rewrite Hb. reflexivity.
  - reflexivity.
  - cbn [piece snd]. unfold target_piece. rewrite Q2. rewrite Q3. reflexivity.
Qed.

Lemma rec_ok_cname dom k c : dom_ok dom = true -> c <> [] -> nodot c -> wf_bytes c ->
  (Z.of_nat (length c) <= longest_data_string dom)%Z -> k + 1 < 512 ->
  prepare_hostname (tag2 (u16 (k + 1)) ++ c) dom = Ok (hn dom (tag2 (k + 1) ++ c)) /\
  rec_ok dom (RRCname (hn dom (tag2 (k + 1) ++ c))) ((60000 + tag_key (k + 1))%Z, c).
Proof.
  intros Hd Hne Hnd Hwf Hl Hk.
  unfold u16. rewrite N.mod_small by lia.
  destruct (dom_ok_labels dom Hd) as [_ Hdl]. destruct (ml_facts dom Hdl) as [_ Har].
  pose proof (tag_prio_tag2 60000 (k + 1) ltac:(lia)) as HT.
  destruct (b32_char (k + 1)) as [_ [A0 [_ [A1 [A2 A3]]]]].
  destruct (b32_char (N.shiftr (k + 1) 4)) as [_ [B0 [_ [B1 [B2 B3]]]]]. cbv zeta in *.
  unfold tag2 in *. remember (int_to_b32 (k + 1)) as t0 eqn:Et0 in *. remember (int_to_b32 (N.shiftr (k + 1) 4)) as t1 eqn:Et1 in *.
  clear Et0 Et1.
  cbn [app] in *. set (d := t0 :: t1 :: c).
  assert (Hdne : d <> []) by discriminate.
  assert (Hdnd : nodot d) by (repeat constructor; assumption).
  assert (Hdwf : wf_bytes d) by (repeat constructor; assumption).
  assert (Hd1 : (1 <= length d)%nat) by (unfold d; cbn [length]; lia).
  destruct (hostname_roundtrip d dom Hdne Hdnd Hd (Har _ Hd1 ltac:(unfold d; cbn [length]; lia))) as [w [P1 [P2 [P3 [P4 P5]]]]].
  split; [exact P1 |]. fold (hn dom d) in *.
  destruct (name_piece d dom Hdne Hdnd Hdwf) as [p0 [Q1 [Q2 Q3]]].
  (* the presentation form starts with the two tag characters *)
  assert (Hp : exists Z0, pres (body_labels d) = t0 :: t1 :: Z0).
  { unfold body_labels. destruct (60 <? length d)%nat.
    - unfold d. cbn [length chunks firstn]. unfold pres. cbn [map concat flat_map].
      rewrite A0, B0. cbn [app]. eexists; reflexivity.
    - unfold pres, d. cbn [map concat flat_map]. rewrite A0, B0. cbn [app]. eexists; reflexivity. }
  destruct Hp as [Z0 Hp].
  assert (Hp0 : exists Y, p0 = t0 :: t1 :: Y).
  { rewrite Q1 in Hp. destruct p0 as [| a [| b Y]]; cbn [app] in Hp; inversion Hp; subst.
    - exfalso. apply B2. reflexivity.
    - exists Y. reflexivity. }
  destruct Hp0 as [Y ->].
  exists (5, w), (RRCname (pres (body_labels d) ++ dom ++ [DOT])).
  split; [| split; [| split]].
  - unfold pack_rr. cbn [pack_rdata rr_code]. rewrite P2. cbn [bind].
    replace (65535 <? nlen w) with false; [reflexivity |]. unfold nlen. lia.
  - unfold unpack_rr. destruct w as [| w0 w']; [contradiction |].
    change (5 =? 10) with false. change (5 =? 65000) with false. change (5 =? 16) with false.
    change (5 =? 15) with false. change (5 =? 33) with false. change (5 =? 5) with true. cbv iota.
    rewrite P5. reflexivity.
  - cbn [fst type_priority]. rewrite Hp. cbn [app]. rewrite HT. reflexivity.
  - cbn [snd piece]. rewrite Q1. cbn [app].
    replace (length (t0 :: t1 :: (Y ++ [DOT]) ++ dom ++ [DOT]) <? 2)%nat with false by (cbn [length]; lia).
    cbn [skipn]. unfold target_piece.
    rewrite (strip_domain_pres Y dom).
    unfold undotify in Q3. cbn [filter] in Q3. unfold DOT in Q3 at 1 2.
    destruct (N.eqb_spec t0 46); [contradiction |]. destruct (N.eqb_spec t1 46); [contradiction |].
    cbn [negb] in Q3. fold (undotify Y) in Q3.
    rewrite unesc_plain in Q3 by assumption. rewrite unesc_plain in Q3 by assumption.
    unfold d in Q3. inversion Q3. reflexivity.
Qed.

Lemma name_chunk_facts dom p : forallb dns_safeb p = true -> (length dom <= 246)%nat ->
  let cs := chunks (length p) (Z.to_nat (longest_data_string dom)) p in
  concat cs = p /\
  forall c, In c cs -> c <> [] /\ nodot c /\ wf_bytes c /\ (Z.of_nat (length c) <= longest_data_string dom)%Z.
Proof.
  intros Hs Hd. destruct (ml_facts dom Hd) as [Hml _]. cbv zeta.
  destruct (safe_nodot_wf p Hs) as [Hnd Hwf]. split.
  - apply chunks_concat; lia.
  - intros c Hc.
    pose proof (chunks_each (Z.to_nat (longest_data_string dom)) ltac:(lia) (length p) p) as H1.
    pose proof (chunks_Forall _ (Z.to_nat (longest_data_string dom)) (length p) p Hnd) as H2.
    pose proof (chunks_Forall _ (Z.to_nat (longest_data_string dom)) (length p) p Hwf) as H3.
    rewrite Forall_forall in *. destruct (H1 c Hc). repeat split; [assumption | apply H2; assumption | apply H3; assumption | lia].
Qed.

Lemma mx_roundtrip dom q p : qname_ok q = true -> dom_ok dom = true -> forallb dns_safeb p = true ->
  size_ok RMx dom p = true ->
  exists m w m', wrap RMx p dom q = Ok m /\ pack m = Ok w /\ unpack w = Ok m' /\ unwrap m' dom = Ok p /\
                 in_order m' (nrecords RMx dom p).
Proof.
  intros Hq Hd Hsafe Hs. destruct (dom_ok_labels dom Hd) as [_ Hdl].
  unfold size_ok, nrecords, max_records in Hs. apply N.leb_le in Hs.
  destruct (name_chunk_facts dom p Hsafe Hdl) as [Hcat Hcs]. cbv zeta in *.
  set (cs := chunks (length p) (Z.to_nat (longest_data_string dom)) p) in *.
  unfold wrap, wrap_answers, wrap_mx. rewrite name_chunks_ok by exact Hdl. fold cs. cbn [bind].
  assert (Hall : forall k c, In c cs -> k < 6553 ->
            prepare_hostname c dom = Ok (hn dom c) /\
            rec_ok dom (RRMx (u16 (10 * (k + 1))) (hn dom c)) ((40000 + Z.of_N (10 * (k + 1)))%Z, c)).
  { intros k c Hc Hk. destruct (Hcs c Hc) as [H1 [H2 [H3 H4]]]. apply rec_ok_mx; try assumption. lia. }
  rewrite (map_res_mapi_bind (fun d => prepare_hostname d dom) (hn dom) (fun i t => RRMx (u16 (10 * (i + 1))) t))
    by (intros d Hdin; apply (Hall 0 d Hdin); lia).
  cbn [bind].
  destruct (splitter_roundtrip dom q (fun i d => RRMx (u16 (10 * (i + 1))) (hn dom d)) (fun k => (40000 + Z.of_N (10 * (k + 1)))%Z)
              (fun c => c) cs 6553 Hq Hs ltac:(reflexivity) ltac:(intros k c Hc Hk; apply (Hall k c Hc Hk)) ltac:(intros; cbv beta; lia))
    as [w [m' [H1 [H2 [H3 H4]]]]].
  eexists; exists w, m'. split; [reflexivity |]. split; [exact H1 |]. split; [exact H2 |]. split; [| exact H4].
  rewrite H3, map_id, Hcat. reflexivity.
Qed.

Lemma srv_roundtrip dom q p : qname_ok q = true -> dom_ok dom = true -> forallb dns_safeb p = true ->
  size_ok RSrv dom p = true ->
  exists m w m', wrap RSrv p dom q = Ok m /\ pack m = Ok w /\ unpack w = Ok m' /\ unwrap m' dom = Ok p /\
                 in_order m' (nrecords RSrv dom p).
Proof.
  intros Hq Hd Hsafe Hs. destruct (dom_ok_labels dom Hd) as [_ Hdl].
  unfold size_ok, nrecords, max_records in Hs. apply N.leb_le in Hs.
  destruct (name_chunk_facts dom p Hsafe Hdl) as [Hcat Hcs]. cbv zeta in *.
  set (cs := chunks (length p) (Z.to_nat (longest_data_string dom)) p) in *.
  unfold wrap, wrap_answers, wrap_srv. rewrite name_chunks_ok by exact Hdl. fold cs. cbn [bind].
  assert (Hall : forall k c, In c cs -> k < 65535 ->
            prepare_hostname c dom = Ok (hn dom c) /\
            rec_ok dom (RRSrv (u16 (k + 1)) 0 0 (hn dom c)) ((50000 + Z.of_N (k + 1))%Z, c)).
  { intros k c Hc Hk. destruct (Hcs c Hc) as [H1 [H2 [H3 H4]]]. apply rec_ok_srv; try assumption. lia. }
  rewrite (map_res_mapi_bind (fun d => prepare_hostname d dom) (hn dom) (fun i t => RRSrv (u16 (i + 1)) 0 0 t))
    by (intros d Hdin; apply (Hall 0 d Hdin); lia).
  cbn [bind].
  destruct (splitter_roundtrip dom q (fun i d => RRSrv (u16 (i + 1)) 0 0 (hn dom d)) (fun k => (50000 + Z.of_N (k + 1))%Z)
              (fun c => c) cs 65535 Hq Hs ltac:(reflexivity) ltac:(intros k c Hc Hk; apply (Hall k c Hc Hk)) ltac:(intros; cbv beta; lia))
    as [w [m' [H1 [H2 [H3 H4]]]]].
  eexists; exists w, m'. split; [reflexivity |]. split; [exact H1 |]. split; [exact H2 |]. split; [| exact H4].
  rewrite H3, map_id, Hcat. reflexivity.
Qed.

Lemma cname_roundtrip dom q p : qname_ok q = true -> dom_ok dom = true -> forallb dns_safeb p = true ->
  size_ok RCname dom p = true ->
  exists m w m', wrap RCname p dom q = Ok m /\ pack m = Ok w /\ unpack w = Ok m' /\ unwrap m' dom = Ok p /\
                 in_order m' (nrecords RCname dom p).
Proof.
  intros Hq Hd Hsafe Hs. destruct (dom_ok_labels dom Hd) as [_ Hdl].
  unfold size_ok, nrecords, max_records in Hs. apply N.leb_le in Hs.
  destruct (name_chunk_facts dom p Hsafe Hdl) as [Hcat Hcs]. cbv zeta in *.
  set (cs := chunks (length p) (Z.to_nat (longest_data_string dom)) p) in *.
  unfold wrap, wrap_answers, wrap_cname. rewrite name_chunks_ok by exact Hdl. fold cs. cbn [bind].
  assert (Hall : forall k c, In c cs -> k < 511 ->
            prepare_hostname (tag2 (u16 (k + 1)) ++ c) dom = Ok (hn dom (tag2 (k + 1) ++ c)) /\
            rec_ok dom (RRCname (hn dom (tag2 (k + 1) ++ c))) ((60000 + tag_key (k + 1))%Z, c)).
  { intros k c Hc Hk. destruct (Hcs c Hc) as [H1 [H2 [H3 H4]]]. apply rec_ok_cname; try assumption. lia. }
  (* the tag depends on the index: a variant of map_res_mapi_bind *)
  assert (Hmr : forall (l : list bytes) i, (forall c, In c l -> In c cs) -> i + N.of_nat (length l) <= 511 ->
            map_res (fun x => x) (mapi (fun i d => do t <- prepare_hostname (tag2 (u16 (i + 1)) ++ d) dom ;; Ok (RRCname t)) i l)
            = Ok (mapi (fun i d => RRCname (hn dom (tag2 (i + 1) ++ d))) i l)).
  { induction l as [| c l IH]; intros i Hin Hi; [reflexivity |].
    cbn [mapi map_res]. cbn [length] in Hi.
    destruct (Hall i c (Hin c (or_introl eq_refl)) ltac:(lia)) as [E _]. rewrite E. cbn [bind].
    rewrite IH by (try (intros; apply Hin; right; assumption); lia). reflexivity. }
  rewrite Hmr by (auto; lia). cbn [bind].
  destruct (splitter_roundtrip dom q (fun i d => RRCname (hn dom (tag2 (i + 1) ++ d))) (fun k => (60000 + tag_key (k + 1))%Z)
              (fun c => c) cs 511 Hq Hs ltac:(reflexivity) ltac:(intros k c Hc Hk; apply (Hall k c Hc Hk))
              ltac:(intros a b Hab Hb; cbv beta; pose proof (tag_key_mono (a + 1) (b + 1) ltac:(lia) ltac:(lia)); lia))
    as [w [m' [H1 [H2 [H3 H4]]]]].
  eexists; exists w, m'. split; [reflexivity |]. split; [exact H1 |]. split; [exact H2 |]. split; [| exact H4].
  rewrite H3, map_id, Hcat. reflexivity.
Qed.

(* ------------------------------------------------------------------------------------------------ *)
(* (1) and (5): the wrapped payload survives real packing for every carried record type, and the records come
   back in wrap order *)

Lemma payload_ok_spec rt p : payload_ok rt p = true ->
  wf_bytes p /\ (name_carrying rt = true -> forallb dns_safeb p = true).
Proof.
  unfold payload_ok. intros H. apply andb_prop in H. destruct H as [H1 H2].
  split; [apply wf_bytesb_spec; exact H1 |]. intros Hn. rewrite Hn in H2. exact H2.
Qed.

Theorem wrap_roundtrip_order rt c dom q payload :
  carries rt c = true -> dom_ok dom = true -> qname_ok q = true -> payload_ok rt payload = true ->
  size_ok rt dom payload = true ->
  exists m w m', wrap rt payload dom q = Ok m /\ pack m = Ok w /\ unpack w = Ok m' /\ unwrap m' dom = Ok payload /\
                 in_order m' (nrecords rt dom payload).
Proof.
  intros Hc Hd Hq Hp Hs. destruct (payload_ok_spec rt payload Hp) as [Hwf Hsafe].
  destruct rt; try discriminate Hc.
  - apply null_roundtrip; assumption.
  - apply private_roundtrip; assumption.
  - apply txt_roundtrip; assumption.
  - apply srv_roundtrip; auto.
  - apply mx_roundtrip; auto.
  - apply cname_roundtrip; auto.
Qed.

Theorem wrap_roundtrip rt c dom q payload :
  carries rt c = true -> dom_ok dom = true -> qname_ok q = true -> payload_ok rt payload = true ->
  size_ok rt dom payload = true ->
  exists m w m', wrap rt payload dom q = Ok m /\ pack m = Ok w /\ unpack w = Ok m' /\ unwrap m' dom = Ok payload.
Proof.
  intros Hc Hd Hq Hp Hs.
  destruct (wrap_roundtrip_order rt c dom q payload Hc Hd Hq Hp Hs) as [m [w [m' [H1 [H2 [H3 [H4 _]]]]]]].
  exists m, w, m'. repeat split; assumption.
Qed.

Theorem order rt c dom q payload :
  carries rt c = true -> dom_ok dom = true -> qname_ok q = true -> payload_ok rt payload = true ->
  size_ok rt dom payload = true ->
  exists m w m', wrap rt payload dom q = Ok m /\ pack m = Ok w /\ unpack w = Ok m' /\
                 in_order m' (nrecords rt dom payload).
Proof.
  intros Hc Hd Hq Hp Hs.
  destruct (wrap_roundtrip_order rt c dom q payload Hc Hd Hq Hp Hs) as [m [w [m' [H1 [H2 [H3 [_ H5]]]]]]].
  exists m, w, m'. repeat split; try assumption; apply H5.
Qed.

(* the question name the harness (and the tunnel client) uses is a valid owner name *)
Lemma question_name_ok prefix dom :
  label_pack_ok prefix -> dom_ok dom = true -> (length prefix + length dom + 2 < 255)%nat ->
  qname_ok (prefix ++ DOT :: dom ++ [DOT]) = true.
Proof.
  intros Hp Hd Hl.
  destruct (dom_ok_labels dom Hd) as [HF _].
  destruct (dom_labels_last dom Hd) as [ls [l [x [E Hx]]]].
  assert (Hj : prefix ++ DOT :: dom ++ [DOT] = join ([prefix] ++ dom_labels dom)).
  { rewrite join_app, dom_labels_join. unfold join. cbn [map concat]. rewrite app_nil_r, <- app_assoc. reflexivity. }
  assert (Hall : Forall label_pack_ok ([prefix] ++ dom_labels dom)).
  { apply Forall_app. split; [constructor; [exact Hp | constructor] |].
    eapply Forall_impl; [| exact HF]. cbv beta. intros a [H1 [H2 H3]]. repeat split; [assumption | assumption | apply plain_nodot; assumption]. }
  unfold qname_ok. rewrite Hj.
  assert (Hpk : pack_name (join ([prefix] ++ dom_labels dom)) = Ok (wire_of_labels ([prefix] ++ dom_labels dom))).
  { rewrite E, app_assoc in *. apply pack_name_join; assumption. }
  rewrite Hpk. rewrite unpack_last_name_labels; [reflexivity | discriminate | |].
  - eapply Forall_impl; [| exact Hall]. cbv beta. intros a [H1 [H2 _]]. split; assumption.
  - rewrite <- Hj. rewrite app_length. cbn [length]. rewrite app_length. cbn [length]. lia.
Qed.

(* the splitter makes nrecords records *)
Lemma wrap_answers_length rt p dom a : (length dom <= 246)%nat ->
  wrap_answers rt p dom = Ok a -> length a = nrecords rt dom p.
Proof.
  intros Hd H. destruct rt; cbn [wrap_answers nrecords] in *.
  - inversion H. unfold wrap_null. apply mapi_length.
  - inversion H. unfold wrap_private. apply mapi_length.
  - inversion H. unfold wrap_txt. apply mapi_length.
  - unfold wrap_srv in H. rewrite name_chunks_ok in H by exact Hd. cbn [bind] in H.
    apply map_res_inv in H. apply Forall2_length in H. rewrite mapi_length in H. symmetry. exact H.
  - unfold wrap_mx in H. rewrite name_chunks_ok in H by exact Hd. cbn [bind] in H.
    apply map_res_inv in H. apply Forall2_length in H. rewrite mapi_length in H. symmetry. exact H.
  - unfold wrap_cname in H. rewrite name_chunks_ok in H by exact Hd. cbn [bind] in H.
    apply map_res_inv in H. apply Forall2_length in H. rewrite mapi_length in H. symmetry. exact H.
  - inversion H. unfold wrap_aaaa. apply mapi_length.
  - unfold wrap_a in H. destruct (255 <? length (chunks (length p) 3 p))%nat; [discriminate |].
    inversion H. apply mapi_length.
Qed.

(* ------------------------------------------------------------------------------------------------ *)
(* (6) UnwrapDnsResponse is total (property C12) *)

From Coq Require Import Permutation.

Lemma type_priority_total r : exists p, type_priority r = Ok p.
Proof.
  destruct r as [d | d | l | p n | p w po n | t | ip | ip | t]; cbn [type_priority]; try (eexists; reflexivity).
  - destruct d as [| a [| b d']]; eexists; reflexivity.
  - destruct d as [| a [| b d']]; eexists; reflexivity.
  - destruct l as [| [| a [| b s]] l']; eexists; reflexivity.
  - destruct t as [| a [| b d']]; eexists; reflexivity.
  - destruct ip as [| a [| b d']]; eexists; reflexivity.
  - destruct ip as [| a d']; eexists; reflexivity.
Qed.

Lemma piece_total dom r : exists c, piece dom r = Ok c.
Proof.
  destruct r as [d | d | l | p n | p w po n | t | ip | ip | t]; cbn [piece]; try (eexists; reflexivity).
  destruct (length t <? 2)%nat; eexists; reflexivity.
Qed.

Lemma map_res_all_ok {A B} (f : A -> res B) l : Forall (fun x => exists y, f x = Ok y) l -> exists ys, map_res f l = Ok ys.
Proof.
  induction 1 as [| x l [y Hy] _ [ys IH]]; [eexists; reflexivity |].
  cbn [map_res]. rewrite Hy, IH. eexists; reflexivity.
Qed.

Lemma concat_res_all_ok l : Forall (fun x => exists y, x = Ok y) l -> exists ys, concat_res l = Ok ys.
Proof.
  induction 1 as [| x l [y Hy] _ [ys IH]]; [eexists; reflexivity |].
  cbn [concat_res]. rewrite Hy, IH. eexists; reflexivity.
Qed.

Lemma insert_by_perm x l : Permutation (insert_by x l) (x :: l).
Proof.
  induction l as [| y l IH]; [apply Permutation_refl |].
  cbn [insert_by]. destruct (fst y <? fst x)%Z; [| apply Permutation_refl].
  eapply Permutation_trans; [apply perm_skip; exact IH | apply perm_swap].
Qed.

Lemma sort_by_perm l : Permutation (sort_by l) l.
Proof.
  induction l as [| x l IH]; [apply Permutation_refl |].
  unfold sort_by in *. cbn [fold_right].
  eapply Permutation_trans; [apply insert_by_perm | apply perm_skip; exact IH].
Qed.

Lemma combine_map_snd {A B} (ps : list A) (l : list B) : length ps = length l -> map snd (combine ps l) = l.
Proof.
  revert l; induction ps as [| p ps IH]; intros [| x l] H; try discriminate; [reflexivity |].
  cbn [combine map snd]. f_equal. apply IH. simpl in H. lia.
Qed.

Lemma sorted_answers_perm l l' : sorted_answers l = Ok l' -> Permutation l' l.
Proof.
  unfold sorted_answers. destruct l as [| a [| b l0]]; try (intros H; inversion H; apply Permutation_refl).
  destruct (map_res type_priority (a :: b :: l0)) as [ps | |] eqn:E; cbn [bind]; try discriminate.
  intros H. inversion H; subst l'.
  pose proof (Forall2_length _ _ _ (map_res_inv _ _ _ E)) as HL.
  eapply Permutation_trans; [apply Permutation_map; apply sort_by_perm |].
  rewrite combine_map_snd by (symmetry; exact HL). apply Permutation_refl.
Qed.

Lemma sorted_answers_total l : exists l', sorted_answers l = Ok l'.
Proof.
  unfold sorted_answers. destruct l as [| a [| b l0]]; try (eexists; reflexivity).
  destruct (map_res_all_ok type_priority (a :: b :: l0)) as [ps Eps].
  - apply Forall_forall. intros r _. apply type_priority_total.
  - rewrite Eps. eexists; reflexivity.
Qed.

(* every answer section, whatever its records hold, unwraps to some octet string: never a panic, never an error *)
Theorem unwrap_total m dom : exists p, unwrap m dom = Ok p.
Proof.
  unfold unwrap. destruct (sorted_answers_total (m_answers m)) as [l' E]. rewrite E. cbn [bind].
  apply concat_res_all_ok. apply Forall_forall. intros x Hx. apply in_map_iff in Hx. destruct Hx as [r [<- _]].
  apply piece_total.
Qed.

(* the specification-level model of Msg.Unpack has no panic outcome either *)
Lemma unpack_name_loop_no_panic : forall fuel w budget s, unpack_name_loop fuel w budget <> Panic s.
Proof.
  induction fuel as [| f IH]; intros w budget s; cbn [unpack_name_loop]; [discriminate |].
  destruct w as [| c r]; [discriminate |].
  destruct (c =? 0); [discriminate |].
  destruct (c <? 64).
  - destruct (length r <? N.to_nat c)%nat; [discriminate |].
    destruct (budget - (Z.of_N c + 1) <=? 0)%Z; [discriminate |].
    destruct (unpack_name_loop f (skipn (N.to_nat c) r) (budget - (Z.of_N c + 1))) as [sr | |] eqn:E; cbn [bind]; try discriminate.
    intros _. eapply IH; exact E.
  - destruct (192 <=? c); discriminate.
Qed.

Lemma unpack_name_no_panic w s : unpack_name w <> Panic s.
Proof.
  unfold unpack_name. destruct (unpack_name_loop (length w) w 255) as [sr | |] eqn:E; cbn [bind]; try discriminate.
  intros _. eapply unpack_name_loop_no_panic; exact E.
Qed.

Lemma unpack_last_name_no_panic rd s : unpack_last_name rd <> Panic s.
Proof.
  unfold unpack_last_name. destruct (unpack_name rd) as [sr | |] eqn:E; cbn [bind].
  - destruct (snd sr); discriminate.
  - discriminate.
  - intros _. eapply unpack_name_no_panic; exact E.
Qed.

Lemma unpack_txt_no_panic : forall fuel rd s, unpack_txt fuel rd <> Panic s.
Proof.
  induction fuel as [| f IH]; intros rd s; cbn [unpack_txt]; [discriminate |].
  destruct rd as [| l r]; [discriminate |].
  destruct (length r <? N.to_nat l)%nat; [discriminate |].
  destruct (unpack_txt f (skipn (N.to_nat l) r)) as [rest | |] eqn:E; cbn [bind]; try discriminate.
  intros _. eapply IH; exact E.
Qed.

Lemma unpack_soa_no_panic rd s : unpack_soa rd <> Panic s.
Proof.
  unfold unpack_soa. destruct (unpack_name rd) as [sr | |] eqn:E; cbn [bind].
  - destruct (snd sr) as [| x r1]; [discriminate |].
    destruct (unpack_name (x :: r1)) as [sr2 | |] eqn:E2; cbn [bind].
    + destruct (Nat.eqb _ 0 && _); discriminate.
    + discriminate.
    + intros _. eapply unpack_name_no_panic; exact E2.
  - discriminate.
  - intros _. eapply unpack_name_no_panic; exact E.
Qed.

Lemma unpack_opt_no_panic : forall fuel rd s, unpack_opt fuel rd <> Panic s.
Proof.
  induction fuel as [| f IH]; intros rd s; cbn [unpack_opt]; [discriminate |].
  destruct rd as [| c1 [| c0 [| l1 [| l0 r]]]]; try discriminate.
  destruct (length r <? N.to_nat (256 * l1 + l0))%nat; [discriminate |].
  destruct (opt_ok _ _); [| discriminate].
  destruct (skipn _ r); [discriminate | apply IH].
Qed.

Lemma unpack_rr_no_panic x s : unpack_rr x <> Panic s.
Proof.
  destruct x as [t rd]. unfold unpack_rr. destruct rd as [| r0 rd']; [discriminate |].
  destruct (t =? 10); [discriminate |]. destruct (t =? 65000); [discriminate |].
  destruct (t =? 16).
  { destruct (unpack_txt (length (r0 :: rd')) (r0 :: rd')) as [l | |] eqn:E; cbn [bind]; try discriminate.
    intros _. eapply unpack_txt_no_panic; exact E. }
  destruct (t =? 15).
  { destruct rd' as [| b r]; [discriminate |]. destruct r as [| r1 r']; [discriminate |].
    destruct (unpack_last_name (r1 :: r')) as [n | |] eqn:E; cbn [bind]; try discriminate.
    intros _. eapply unpack_last_name_no_panic; exact E. }
  destruct (t =? 33).
  { destruct rd' as [| b r]; [discriminate |]. destruct r as [| c [| d r']]; try discriminate.
    destruct r' as [| e [| g r'']]; try discriminate. destruct r'' as [| r1 r2]; [discriminate |].
    destruct (unpack_last_name (r1 :: r2)) as [n | |] eqn:E; cbn [bind]; try discriminate.
    intros _. eapply unpack_last_name_no_panic; exact E. }
  destruct (t =? 5).
  { destruct (unpack_last_name (r0 :: rd')) as [n | |] eqn:E; cbn [bind]; try discriminate.
    intros _. eapply unpack_last_name_no_panic; exact E. }
  destruct (t =? 28); [destruct (Nat.eqb _ 16); discriminate |].
  destruct (t =? 1); [destruct (Nat.eqb _ 4); discriminate |].
  destruct (t =? 2).
  { destruct (unpack_last_name (r0 :: rd')) as [n | |] eqn:E; cbn [bind]; try discriminate.
    intros _. eapply unpack_last_name_no_panic; exact E. }
  destruct (t =? 6).
  { destruct (unpack_soa (r0 :: rd')) as [n | |] eqn:E; cbn [bind]; try discriminate.
    intros _. eapply unpack_soa_no_panic; exact E. }
  destruct (t =? 41).
  { destruct (unpack_opt (length (r0 :: rd')) (r0 :: rd')) as [n | |] eqn:E; cbn [bind]; try discriminate.
    intros _. eapply unpack_opt_no_panic; exact E. }
  destruct (t =? 99).
  { destruct (unpack_txt (length (r0 :: rd')) (r0 :: rd')) as [l | |] eqn:E; cbn [bind]; try discriminate.
    intros _. eapply unpack_txt_no_panic; exact E. }
  discriminate.
Qed.

Lemma map_res_no_panic {A B} (f : A -> res B) : (forall x s, f x <> Panic s) -> forall l s, map_res f l <> Panic s.
Proof.
  intros Hf. induction l as [| x l IH]; intros s; cbn [map_res]; [discriminate |].
  destruct (f x) as [y | |] eqn:EX; cbn [bind].
  - destruct (map_res f l) as [ys | |] eqn:EL; cbn [bind]; try discriminate. intros _. eapply IH; reflexivity.
  - discriminate.
  - intros _. eapply Hf; exact EX.
Qed.

Theorem unpack_no_panic w s : unpack w <> Panic s.
Proof.
  unfold unpack. destruct (unpack_last_name (w_q w)) as [q | |] eqn:EQ; cbn [bind].
  - destruct (map_res unpack_rr (firstn (N.to_nat (w_ancount w)) (w_rrs w))) as [a | |] eqn:EA; cbn [bind]; try discriminate.
    intros _. eapply (map_res_no_panic unpack_rr); [apply unpack_rr_no_panic | exact EA].
  - discriminate.
  - intros _. eapply unpack_last_name_no_panic; exact EQ.
Qed.

(* the answer sections that used to crash the client are skipped now *)
Theorem unwrap_short_records_skipped :
  (* a record shorter than its order tag *)
  (exists w m', unpack w = Ok m' /\ unwrap m' (wd "example.org") = Ok [] /\ w_rrs w = [(10, [7])]) /\
  (* an MX name shorter than the domain *)
  (exists w m', unpack w = Ok m' /\ unwrap m' (wd "example.org") = Ok [] /\ w_rrs w = [(15, [0; 10; 1; 97; 0])]) /\
  (* two TXT records, one with a one-character first string: it sorts last and is skipped *)
  (exists w m', unpack w = Ok m' /\ unwrap m' (wd "example.org") = Ok [118]
                /\ w_rrs w = [(16, [3; 97; 97; 118]); (16, [1; 98])]).
Proof.
  split; [| split].
  - exists {| w_q := [1; 120; 0]; w_ancount := 1; w_rrs := [(10, [7])] |}. eexists.
    split; [vm_compute; reflexivity |]. split; vm_compute; reflexivity.
  - exists {| w_q := [1; 120; 0]; w_ancount := 1; w_rrs := [(15, [0; 10; 1; 97; 0])] |}. eexists.
    split; [vm_compute; reflexivity |]. split; vm_compute; reflexivity.
  - exists {| w_q := [1; 120; 0]; w_ancount := 2; w_rrs := [(16, [3; 97; 97; 118]); (16, [1; 98])] |}. eexists.
    split; [vm_compute; reflexivity |]. split; vm_compute; reflexivity.
Qed.

(* beyond the range of the order tag nothing is reported: with a 246-octet domain every CNAME answer carries one octet,
   the 512th answer gets the tag of order 0 and is sorted to the front by the client *)
Definition long_dom : bytes :=
  repeat 100 62 ++ [DOT] ++ repeat 101 62 ++ [DOT] ++ repeat 102 62 ++ [DOT] ++ repeat 103 57.

Definition wit_q : bytes := wd "q." ++ long_dom ++ [DOT].
Definition wit_p : bytes := repeat 97 511 ++ [98].
Definition res_get {A} (d : A) (r : res A) : A := match r with Ok a => a | _ => d end.
Definition wit_m : msg := res_get {| m_q := []; m_answers := [] |} (wrap RCname wit_p long_dom wit_q).
Definition wit_w : wire := res_get {| w_q := []; w_ancount := 0; w_rrs := [] |} (pack wit_m).
Definition wit_m' : msg := res_get {| m_q := []; m_answers := [] |} (unpack wit_w).
Definition wit_p' : bytes := res_get [] (unwrap wit_m' long_dom).

Lemma bytes_eqb_refl a : bytes_eqb a a = true.
Proof. induction a as [| x a IH]; [reflexivity |]. cbn [bytes_eqb]. rewrite N.eqb_refl, IH. reflexivity. Qed.

Lemma wrap_witness_stages :
  wrap RCname wit_p long_dom wit_q = Ok wit_m /\ pack wit_m = Ok wit_w /\ unpack wit_w = Ok wit_m' /\
  unwrap wit_m' long_dom = Ok wit_p' /\ bytes_eqb wit_p' wit_p = false.
Proof.
  split; [vm_cast_no_check (@eq_refl _ (Ok wit_m)) |].
  split; [vm_cast_no_check (@eq_refl _ (Ok wit_w)) |].
  split; [vm_cast_no_check (@eq_refl _ (Ok wit_m')) |].
  split; [vm_cast_no_check (@eq_refl _ (Ok wit_p')) |].
  vm_cast_no_check (@eq_refl _ false).
Qed.

Lemma wrap_witness_side :
  dom_ok long_dom = true /\ qname_ok wit_q = true /\ payload_ok RCname wit_p = true /\ size_ok RCname long_dom wit_p = false.
Proof. vm_compute. repeat split; reflexivity. Qed.

Theorem cname_tag_wrap_refuted :
  exists dom q p m w m' p',
    dom_ok dom = true /\ qname_ok q = true /\ payload_ok RCname p = true /\ size_ok RCname dom p = false /\
    wrap RCname p dom q = Ok m /\ pack m = Ok w /\ unpack w = Ok m' /\ unwrap m' dom = Ok p' /\ p' <> p.
Proof.
  destruct wrap_witness_stages as [H1 [H2 [H3 [H4 H5]]]]. destruct wrap_witness_side as [S1 [S2 [S3 S4]]].
  exists long_dom, wit_q, wit_p, wit_m, wit_w, wit_m', wit_p'.
  repeat (split; [assumption |]).
  intros E. rewrite E, bytes_eqb_refl in H5. discriminate H5.
Qed.
