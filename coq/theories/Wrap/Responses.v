(* C10 - model of internal/streams/dns/commands: the seven response types' Encode/Decode, BadErrors,
   Serializer.EncodeDnsResponseWithParams / DecodeDnsResponseWithParams, and the c10 harness protocol.
   Definitions only; proofs are in Responses_proofs.v. *)
From Coq Require Import String List NArith ZArith Bool.
From SA Require Import Base.Tok Codec.Bits Codec.Codec Gen.Alphabets.
From SA.Wrap Require Import Wrap.
Import ListNotations.
Open Scope N_scope.

(* ------------------------------------------------------------------------------------------------ *)
(* commands/errors.go *)

Definition bad_errors : list bytes :=
  [wd "BADVER"; wd "BADLEN"; wd "BADIP"; wd "BADCOMMAND"; wd "BADCODEC"; wd "BADFRAG"; wd "BADUSER"; wd "BADCONN";
   wd "VFUL"; wd "VOK"; wd "VACK"; wd "VNAK"; wd "LACK"; wd "TIMEOUT"].

(* an error value: nil, one of the BadErrors (by identity: its index), or any other error with its message *)
Inductive rerr := ENone | EBad (i : nat) | ECustom (m : bytes).

Definition err_text (e : rerr) : option bytes :=
  match e with
  | ENone => None
  | EBad i => Some (nth i bad_errors [])
  | ECustom m => Some m
  end.

Fixpoint find_index (s : bytes) (l : list bytes) (i : nat) : option nat :=
  match l with
  | [] => None
  | x :: r => if bytes_eqb x s then Some i else find_index s r (S i)
  end.

(* for _, e := range BadErrors { if e.Error() == str { vr.Err = e; return nil } } ; vr.Err = errors.New(str) *)
Definition err_of_string (s : bytes) : rerr :=
  match find_index s bad_errors 0 with
  | Some i => EBad i
  | None => ECustom s
  end.

(* str, err := data.ReadString(0); if err != io.EOF { return errors.WithStack(err) }
   A NUL inside the message makes err == nil, and WithStack(nil) is nil: the decoder returns "no error" without
   setting the Err field.  None stands for that silent return. *)
Definition read_err_string (rest : bytes) : option rerr :=
  if existsb (fun b => b =? 0) rest then None else Some (err_of_string rest).

(* ------------------------------------------------------------------------------------------------ *)
(* the seven responses *)

Inductive resp :=
| RVer (sv uid : N) (e : rerr)
| RPkt (e : rerr) (ack : N) (pkt : option (N * bytes))
| ROpt (e : rerr)
| RFrag (e : rerr) (size : N) (data : bytes)
| RUp (e : rerr) (data : bytes)
| RDown (e : rerr) (data : bytes)
| RError (e : rerr).

Definition CODE_V : N := 118. Definition CODE_L : N := 108. Definition CODE_O : N := 111. Definition CODE_R : N := 114.
Definition CODE_Y : N := 121. Definition CODE_Z : N := 122. Definition CODE_M : N := 109. Definition CODE_C : N := 99.
Definition CODE_E : N := 101.

(* EncodeUserId: strconv.FormatInt(userId % 1296, 36) left-padded with "0" to two characters *)
Definition digit36 (d : N) : N := if d <? 10 then 48 + d else 87 + d.
Definition enc_uid (u : N) : bytes := let v := u mod 1296 in [digit36 (v / 36); digit36 (v mod 36)].

Definition b32e (x : bytes) : bytes := encode Base32 x.

Definition encode_resp (c : codec) (r : resp) : res bytes :=
  match r with
  | RVer sv uid e =>
    let data := le32 sv ++ match err_text e with Some t => 255 :: t | None => [0] end in
    Ok (CODE_V :: enc_uid uid ++ b32e data)
  | RPkt e ack pkt =>
    let data :=
        match err_text e with
        | Some t => 255 :: t
        | None =>
          match pkt with
          | Some (seq, d) => 1 :: le16 ack ++ le16 seq ++ d
          | None => 0 :: le16 ack
          end
        end in
    Ok (CODE_C :: encode c data)
  | ROpt e =>
    Ok (CODE_O :: b32e (match err_text e with Some t => 255 :: t | None => [0] end))
  | RFrag e size d =>
    Ok (CODE_R :: encode c (match err_text e with Some t => 255 :: t | None => 0 :: le32 size ++ d end))
  | RUp e d =>
    Ok (CODE_Z :: b32e (match err_text e with Some t => 255 :: t | None => 0 :: d end))
  | RDown e d =>
    match err_text e with
    | Some t => Ok (CODE_Y :: 101 :: b32e t)
    | None => Ok (CODE_Y :: 111 :: encode c d)
    end
  | RError e =>
    match err_text e with
    | Some t => Ok (CODE_E :: b32e t)
    | None => Panic (wd "commands.(*ErrorResponse).Encode")       (* vr.Err.Error() on a nil error *)
    end
  end.

(* strconv.ParseInt(string(response[0:2]), 36, 16) followed by uint16(u): an optional sign, then base-36 digits of
   either case *)
Definition digit36_val (c : N) : option N :=
  if (48 <=? c) && (c <=? 57) then Some (c - 48)
  else if (97 <=? c) && (c <=? 122) then Some (c - 87)
  else if (65 <=? c) && (c <=? 90) then Some (c - 55)
  else None.

Definition parse_uid (s : bytes) : res N :=
  match s with
  | [c0; c1] =>
    match digit36_val c1 with
    | None => Err (wd "syntax")
    | Some d1 =>
      if c0 =? 43 then Ok d1
      else if c0 =? 45 then Ok ((65536 - d1) mod 65536)
      else match digit36_val c0 with
           | Some d0 => Ok (36 * d0 + d1)
           | None => Err (wd "syntax")
           end
    end
  | _ => Err (wd "syntax")
  end.

Definition odd_byte (b : N) : bool := N.odd b.

Definition EOF : bytes := wd "EOF".

(* the "status, then either an error string or ..." tail shared by several decoders *)
Definition status_err (rest : bytes) (dflt : resp) (mk : rerr -> resp) : res resp :=
  match read_err_string rest with
  | None => Ok dflt
  | Some e => Ok (mk e)
  end.

(* VersionResponse.Decode: a response too short to hold the two characters of the user id is an error *)
Definition decode_ver (r : bytes) : res resp :=
  let r1 := tl r in
  if (length r1 <? 2)%nat then Err (wd "short") else
  do uid <- parse_uid (firstn 2 r1) ;;
  do val <- decode Base32 (skipn 2 r1) ;;
  match val with
  | a :: b :: c :: d :: rest =>
    let sv := a + 256 * b + 65536 * c + 16777216 * d in
    match rest with
    | [] => Err EOF
    | status :: rest' =>
      if odd_byte status then status_err rest' (RVer sv uid ENone) (fun e => RVer sv uid e)
      else Ok (RVer sv uid ENone)
    end
  | _ => Err EOF
  end.

Definition decode_pkt (c : codec) (r : bytes) : res resp :=
  do val <- decode c (tl r) ;;
  match val with
  | [] => Err EOF
  | status :: rest =>
    if status =? 255 then status_err rest (RPkt ENone 0 None) (fun e => RPkt e 0 None)
    else if status =? 1 then
      match rest with
      | a :: b :: s0 :: s1 :: d => Ok (RPkt ENone (rd_le16 a b) (Some (rd_le16 s0 s1, d)))
      | _ => Err EOF
      end
    else if status =? 0 then
      match rest with
      | a :: b :: _ => Ok (RPkt ENone (rd_le16 a b) None)
      | _ => Err EOF
      end
    else Ok (RPkt ENone 0 None)
  end.

Definition decode_opt (r : bytes) : res resp :=
  do val <- decode Base32 (tl r) ;;
  match val with
  | [] => Err EOF
  | status :: rest =>
    if odd_byte status then status_err rest (ROpt ENone) (fun e => ROpt e) else Ok (ROpt ENone)
  end.

Definition decode_frag (c : codec) (r : bytes) : res resp :=
  do val <- decode c (tl r) ;;
  match val with
  | [] => Err EOF
  | status :: rest =>
    if odd_byte status then status_err rest (RFrag ENone 0 []) (fun e => RFrag e 0 [])
    else match rest with
         | a :: b :: c :: d :: data => Ok (RFrag ENone (a + 256 * b + 65536 * c + 16777216 * d) data)
         | _ => Err EOF
         end
  end.

Definition decode_up (r : bytes) : res resp :=
  do val <- decode Base32 (tl r) ;;
  match val with
  | [] => Err EOF
  | status :: rest =>
    if odd_byte status then status_err rest (RUp ENone []) (fun e => RUp e []) else Ok (RUp ENone rest)
  end.

Definition decode_down (c : codec) (r : bytes) : res resp :=
  match r with
  | _ :: k :: rest =>
    if k =? 101 then do d <- decode Base32 rest ;; Ok (RDown (err_of_string d) [])
    else if k =? 111 then do d <- decode c rest ;; Ok (RDown ENone d)
    else Err (wd "invalid")
  | _ => Err (wd "nodata")
  end.

Definition decode_error (r : bytes) : res resp :=
  do val <- decode Base32 (tl r) ;;
  status_err val (RError ENone) (fun e => RError e).

(* strings.ToLower(string(data[0:1]))[0]: ASCII upper case only; an octet >= 0x80 is not valid UTF-8 on its own and
   becomes U+FFFD, whose first octet is 0xEF *)
Definition lower_first (b : N) : N :=
  if (65 <=? b) && (b <=? 90) then b + 32 else if 128 <=? b then 239 else b.

Definition is_of_type (code b : N) : bool := (b =? code) || (lower_first b =? code).

(* Serializer.DecodeDnsResponseWithParams after UnwrapDnsResponse: Commands is scanned in its declared order
   v l o r y z m c e; IsOfType answers false on an empty payload; the reserved commands l and m have no NewResponse
   and leave the loop: all of these end in the "Invalid response from server" error *)
Definition decode_resp (c : codec) (data : bytes) : res resp :=
  match data with
  | [] => Err (wd "unknown")
  | b :: _ =>
    if is_of_type CODE_V b then decode_ver data
    else if is_of_type CODE_L b then Err (wd "unknown")
    else if is_of_type CODE_O b then decode_opt data
    else if is_of_type CODE_R b then decode_frag c data
    else if is_of_type CODE_Y b then decode_down c data
    else if is_of_type CODE_Z b then decode_up data
    else if is_of_type CODE_M b then Err (wd "unknown")
    else if is_of_type CODE_C b then decode_pkt c data
    else if is_of_type CODE_E b then decode_error data
    else Err (wd "unknown")
  end.

(* ------------------------------------------------------------------------------------------------ *)
(* what the client is expected to see for a response the server sent *)

Definition norm_err (e : rerr) : rerr :=
  match e with
  | ECustom m => err_of_string m       (* a custom error spelled like one of the BadErrors comes back as that one *)
  | _ => e
  end.

Definition normalise (r : resp) : resp :=
  match r with
  | RVer sv uid e => RVer sv (uid mod 1296) (norm_err e)
  | RPkt e ack pkt =>
    match e with
    | ENone => RPkt ENone ack pkt
    | _ => RPkt (norm_err e) 0 None
    end
  | ROpt e => ROpt (norm_err e)
  | RFrag e size d => match e with ENone => r | _ => RFrag (norm_err e) 0 [] end
  | RUp e d => match e with ENone => r | _ => RUp (norm_err e) [] end
  | RDown e d => match e with ENone => r | _ => RDown (norm_err e) [] end
  | RError e => RError (norm_err e)
  end.

(* ------------------------------------------------------------------------------------------------ *)
(* the whole pipeline *)

Inductive outcome :=
| OEncErr (toolong : bool)
| OPackErr (n : nat)
| OUnpackErr (n : nat)
| ODecErr (n : nat) (n2 : nat) (len : N)
| ODecoded (n : nat) (n2 : nat) (len : N) (r : resp)
| OPanic (site : bytes).

Definition question_name (dom : bytes) : bytes := wd "caaa00abcdefgh." ++ dom ++ [DOT].

Definition pipeline (rt : option rtype) (c : codec) (dom : bytes) (r : resp) : outcome :=
  match encode_resp c r with
  | Panic s => OPanic s
  | Err _ => OEncErr false
  | Ok payload =>
    match rt with
    | None => OEncErr false                         (* errors.Errorf("Unknown query type: %v", queryType) *)
    | Some rt =>
      match wrap rt payload dom (question_name dom) with
      | Panic s => OPanic s
      | Err e => OEncErr (bytes_eqb e (wd "toolong"))
      | Ok m =>
        let n := length (m_answers m) in
        match pack m with
        | Panic s => OPanic s
        | Err _ => OPackErr n
        | Ok w =>
          match unpack w with
          | Panic s => OPanic s
          | Err _ => OUnpackErr n
          | Ok m' =>
            let n2 := length (m_answers m') in
            match unwrap m' dom with
            | Panic s => OPanic s
            | Err _ => ODecErr n n2 (wire_len w)
            | Ok data =>
              match decode_resp c data with
              | Panic s => OPanic s
              | Err _ => ODecErr n n2 (wire_len w)
              | Ok r' => ODecoded n n2 (wire_len w) r'
              end
            end
          end
        end
      end
    end
  end.

(* ------------------------------------------------------------------------------------------------ *)
(* token protocol of /verif/harness/cmd/verifharness/c10.go *)

Definition hexval (c : N) : option N :=
  if (48 <=? c) && (c <=? 57) then Some (c - 48)
  else if (97 <=? c) && (c <=? 102) then Some (c - 87)
  else if (65 <=? c) && (c <=? 70) then Some (c - 55)
  else None.

(* hex.DecodeString with the error ignored: what was decoded before the first bad character *)
Fixpoint unhex (s : bytes) : bytes :=
  match s with
  | p :: q :: r =>
    match hexval p, hexval q with
    | Some a, Some b => (16 * a + b) :: unhex r
    | _, _ => []
    end
  | _ => []
  end.

Definition hexdigit (d : N) : N := if d <? 10 then 48 + d else 87 + d.
Definition hex (b : bytes) : bytes := flat_map (fun x => [hexdigit (x / 16); hexdigit (x mod 16)]) b.

Definition parse_err (t : tok) : option rerr :=
  match t with
  | TW w =>
    if bytes_eqb w (wd "none") then Some ENone
    else match find_index w bad_errors 0 with
         | Some i => Some (EBad i)
         | None =>
           if bytes_eqb (firstn 7 w) (wd "custom:") then Some (ECustom (unhex (skipn 7 w))) else None
         end
  | _ => None
  end.

Definition err_tok (e : rerr) : tok :=
  match e with
  | ENone => W "none"
  | EBad i => TW (nth i bad_errors [])
  | ECustom m => TW (wd "custom:" ++ hex m)
  end.

Definition zu32 (z : Z) : N := Z.to_N (z mod 4294967296)%Z.
Definition zu16 (z : Z) : N := Z.to_N (z mod 65536)%Z.

Definition parse_resp (ts : list tok) : option resp :=
  match ts with
  | k :: rest =>
    if is_word "ver" k then
      match rest with
      | TI sv :: TI uid :: e :: _ => option_map (fun e => RVer (zu32 sv) (zu16 uid) e) (parse_err e)
      | _ => None
      end
    else if is_word "pkt" k then
      match rest with
      | e :: TI ack :: TI has :: TI seq :: TB d :: _ =>
        option_map (fun e => RPkt e (zu16 ack) (if (has =? 1)%Z then Some (zu16 seq, d) else None)) (parse_err e)
      | _ => None
      end
    else if is_word "opt" k then
      match rest with e :: _ => option_map ROpt (parse_err e) | _ => None end
    else if is_word "frag" k then
      match rest with
      | e :: TI size :: TB d :: _ => option_map (fun e => RFrag e (zu32 size) d) (parse_err e)
      | _ => None
      end
    else if is_word "up" k then
      match rest with e :: TB d :: _ => option_map (fun e => RUp e d) (parse_err e) | _ => None end
    else if is_word "down" k then
      match rest with e :: TB d :: _ => option_map (fun e => RDown e d) (parse_err e) | _ => None end
    else if is_word "error" k then
      match rest with e :: _ => option_map RError (parse_err e) | _ => None end
    else None
  | [] => None
  end.

Definition resp_toks (r : resp) : list tok :=
  match r with
  | RVer sv uid e => [W "ver"; TN sv; TN uid; err_tok e]
  | RPkt e ack (Some (seq, d)) => [W "pkt"; err_tok e; TN ack; TI 1; TN seq; TB d]
  | RPkt e ack None => [W "pkt"; err_tok e; TN ack; TI 0; TI 0; TB []]
  | ROpt e => [W "opt"; err_tok e]
  | RFrag e size d => [W "frag"; err_tok e; TN size; TB d]
  | RUp e d => [W "up"; err_tok e; TB d]
  | RDown e d => [W "down"; err_tok e; TB d]
  | RError e => [W "error"; err_tok e]
  end.

Definition outcome_toks (o : outcome) : list tok :=
  match o with
  | OEncErr true => [W "encerr"; W "toolong"]
  | OEncErr false => [W "encerr"; W "other"]
  | OPackErr n => [W "records"; Tnat n; W "packerr"]
  | OUnpackErr n => [W "records"; Tnat n; W "unpackerr"]
  | ODecErr n n2 len => [W "records"; Tnat n; W "wire"; Tnat n2; TN len; W "decerr"]
  | ODecoded n n2 len r => [W "records"; Tnat n; W "wire"; Tnat n2; TN len] ++ resp_toks r
  | OPanic s => [W "panic"; TW s]
  end.

Definition dispatch_c10 (ts : list tok) : list tok :=
  match ts with
  | op :: TI qt :: TI cc :: TB dom :: rtoks =>
    if is_word "c10" op then
      match from_code (Z.to_N (cc mod 256)%Z), parse_resp rtoks with
      | Some c, Some r => outcome_toks (pipeline (rtype_of_code (zu16 qt)) c dom r)
      | _, _ => [W "model-error"]
      end
    else [W "model-error"]
  | _ => [W "model-error"]
  end.

(* ------------------------------------------------------------------------------------------------ *)
(* a second operation, used only to calibrate unpack / unwrap / decode_resp on hand-made answer sections
   (private harness in goh/c10raw.go):   c10raw <codec> <#domain> (<rrtype> <#rdata>)*  *)

Fixpoint parse_raw (ts : list tok) : option (list (N * bytes)) :=
  match ts with
  | [] => Some []
  | TI t :: TB rd :: r => option_map (fun l => (zu16 t, rd) :: l) (parse_raw r)
  | _ => None
  end.

Definition client_side (c : codec) (dom : bytes) (w : wire) : list tok :=
  match unpack w with
  | Panic s => [W "panic"; TW s]
  | Err _ => [W "unpackerr"]
  | Ok m' =>
    let hd := [W "wire"; Tnat (length (m_answers m'))] in
    match unwrap m' dom with
    | Panic s => [W "panic"; TW s]
    | Err _ => hd ++ [W "decerr"]
    | Ok data =>
      match decode_resp c data with
      | Panic s => [W "panic"; TW s]
      | Err _ => hd ++ [W "decerr"]
      | Ok r => hd ++ resp_toks r
      end
    end
  end.

Definition dispatch_c10raw (ts : list tok) : list tok :=
  match ts with
  | op :: TI cc :: TB dom :: rest =>
    match from_code (Z.to_N (cc mod 256)%Z), parse_raw rest with
    | Some c, Some rrs =>
      client_side c dom {| w_q := [1; 120; 0]; w_ancount := u16 (N.of_nat (length rrs)); w_rrs := rrs |}
    | _, _ => [W "model-error"]
    end
  | _ => [W "model-error"]
  end.

Definition dispatch_c10_all (ts : list tok) : list tok :=
  match ts with
  | op :: _ => if is_word "c10raw" op then dispatch_c10raw ts else dispatch_c10 ts
  | [] => [W "model-error"]
  end.

(* ------------------------------------------------------------------------------------------------ *)
(* vocabulary of the theorems (Responses_proofs.v) *)

Definition err_wf (e : rerr) : bool :=
  match e with ENone => true | EBad i => (i <? 14)%nat | ECustom m => wf_bytesb m end.

(* ReadString(0) silently drops an error message that contains a NUL octet *)
Definition err_no_nul (e : rerr) : bool :=
  match e with ECustom m => negb (existsb (fun b => b =? 0) m) | _ => true end.

Definition resp_wf (r : resp) : bool :=
  match r with
  | RVer sv uid e => (sv <? 4294967296) && (uid <? 65536) && err_wf e && err_no_nul e
  | RPkt e ack pkt =>
    err_wf e && err_no_nul e && (ack <? 65536)
    && match pkt with Some (seq, d) => (seq <? 65536) && wf_bytesb d | None => true end
  | ROpt e => err_wf e && err_no_nul e
  | RFrag e size d => err_wf e && err_no_nul e && (size <? 4294967296) && wf_bytesb d
  | RUp e d => err_wf e && err_no_nul e && wf_bytesb d
  | RDown e d => err_wf e && wf_bytesb d                   (* no ReadString here: any message survives *)
  | RError e => err_wf e && err_no_nul e && match e with ENone => false | _ => true end
  end.

Definition lossless (c : codec) : bool := match c with Base192 => false | _ => true end.
