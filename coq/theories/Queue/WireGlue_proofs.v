(* Glue between the request pipeline (Wire/: C09), the response pipeline (Wrap/: C10) and the link (Queue/: C07), used by
   WireLink_proofs.v:
   - the two domain predicates, and the question name the server copies into its answer (what the DNS library unpacked from the
     query is a name the DNS library packs again: Wrap.qname_ok);
   - a query formed by the client decodes at the server to exactly the packet request (query_roundtrip);
   - an answer formed by the server decodes at the client to exactly the packet response (answer_roundtrip), with the number of
     answer records within what the order tags can count for every payload up to the fragment-size bound (size_ok_bound);
   - the text of the sequence error. *)
From Coq Require Import List NArith ZArith Bool Arith Lia String.
From Coq Require Import ZifyN ZifyNat ZifyBool.
From SA Require Import Base.Tok Codec.Bits Codec.Codec Codec.Bits_proofs Codec.Codec_proofs Codec.B85_proofs Codec.B91_proofs Codec.B128_proofs.
From SA Require Wire.Name Wire.Requests Wire.Name_proofs Wire.Requests_proofs Wire.Mtu_proofs.
From SA Require Wrap.Wrap Wrap.Responses Wrap.Wrap_proofs Wrap.Responses_proofs.
From SA Require Import Queue.Queues Queue.Link Queue.WireLink.
Import ListNotations.
Open Scope N_scope.
Local Notation length := List.length.
Ltac Zify.zify_post_hook ::= Z.div_mod_to_equations.

(* ------------------------------------------------------------------------------------------------ *)
(* A. names *)

Lemma split_dots_same s : forall cur, Wrap.split_dots s cur = Name.split_dots s cur.
Proof. induction s as [|c s IH]; intros cur; cbn [Wrap.split_dots Name.split_dots]; [reflexivity|]. rewrite !IH. reflexivity. Qed.

Lemma dom_char_plain b : Name.dom_char b = true -> Wrap.plain_char b = true.
Proof. unfold Name.dom_char, Wrap.plain_char, Wrap.name_special. lia. Qed.

(* a tunnel domain in the sense of C09 is one in the sense of C10 *)
Lemma dom_ok_wrap dom : Name.dom_ok dom = true -> Wrap.dom_ok dom = true.
Proof.
  intros H. destruct (Name_proofs.dom_ok_facts dom H) as [Hl HF].
  unfold Wrap.dom_ok, Wrap.dom_labels. rewrite split_dots_same. apply andb_true_intro. split; [|apply Nat.leb_le; lia].
  apply forallb_forall. intros l Hl'. rewrite Forall_forall in HF. destruct (HF l Hl') as [Hc Hn].
  unfold Wrap.label_ok. rewrite !andb_true_iff. repeat split; try (apply Nat.leb_le; lia).
  apply forallb_forall. intros b Hb. rewrite forallb_forall in Hc. apply dom_char_plain, Hc, Hb.
Qed.

Lemma escape_byte_same b : Name.escape_byte b = Wrap.esc_name_byte b.
Proof. reflexivity. Qed.

Lemma escaped_name_pres ls : Name_proofs.escaped_name ls = Wrap_proofs.pres ls.
Proof.
  unfold Name_proofs.escaped_name, Wrap_proofs.pres. rewrite flat_map_concat_map. f_equal.
Qed.

Lemma name_of_join ls : Name_proofs.name_of ls = Wrap_proofs.join ls.
Proof. unfold Name_proofs.name_of, Wrap_proofs.join. apply flat_map_concat_map. Qed.

Lemma ddd_digits b : b < 256 ->
  Wrap.is_digit (48 + b / 100) = true /\ Wrap.is_digit (48 + (b / 10) mod 10) = true /\ Wrap.is_digit (48 + b mod 10) = true /\
  Wrap.ddd_val (48 + b / 100) (48 + (b / 10) mod 10) (48 + b mod 10) = b.
Proof. intros H. unfold Wrap.is_digit, Wrap.ddd_val. repeat split; lia. Qed.

Lemma special_not_digit b : Wrap.name_special b = true -> Wrap.is_digit b = false.
Proof. unfold Wrap.name_special, Wrap.is_digit. lia. Qed.

(* the label loop of packDomainName over one ESCAPED label (the presentation form the DNS library itself produced) *)
Lemma name_labels_esc l : wf_bytes l -> forall cur wd f rest,
  Wrap.name_labels (length l + S f) (flat_map Wrap.esc_name_byte l ++ Wrap.DOT :: rest) cur wd =
  if (match l with [] => wd | _ => false end) then Err (Tok.wd "rdata")
  else if (64 <=? length (rev l ++ cur))%nat then Err (Tok.wd "rdata")
  else do r <- Wrap.name_labels f rest [] true ;; Ok (rev (rev l ++ cur) :: r).
Proof.
  induction 1 as [| b l Hb _ IH]; intros cur wd f rest.
  - cbn [length app Nat.add rev flat_map]. rewrite Wrap_proofs.name_labels_S. reflexivity.
  - cbn [length Nat.add flat_map]. rewrite <- app_assoc.
    assert (Hnext : forall cur', Wrap.name_labels (length l + S f) (flat_map Wrap.esc_name_byte l ++ Wrap.DOT :: rest) (b :: cur') false =
                     (if (64 <=? length (rev (b :: l) ++ cur'))%nat then Err (Tok.wd "rdata")
                      else do r <- Wrap.name_labels f rest [] true ;; Ok (rev (rev (b :: l) ++ cur') :: r))).
    { intros cur'. rewrite IH. cbn [rev]. rewrite <- !app_assoc. cbn [app]. destruct l; reflexivity. }
    set (tail := flat_map Wrap.esc_name_byte l ++ Wrap.DOT :: rest) in *.
    unfold Wrap.esc_name_byte.
    destruct (Wrap.name_special b) eqn:Es.
    + cbn [app]. rewrite Wrap_proofs.name_labels_S. unfold Wrap.BSL. change (92 =? 92) with true. cbv iota.
      rewrite (special_not_digit b Es). cbn [andb].
      destruct tail as [|d2 [|d3 r3]]; apply Hnext.
    + destruct ((b <? 32) || (126 <? b)) eqn:Er.
      * unfold Wrap.ddd_of. cbn [app]. rewrite Wrap_proofs.name_labels_S. unfold Wrap.BSL. change (92 =? 92) with true. cbv iota.
        destruct (ddd_digits b Hb) as [D1 [D2 [D3 D4]]]. rewrite D1, D2, D3, D4. cbn [andb]. apply Hnext.
      * cbn [app]. rewrite Wrap_proofs.name_labels_S. unfold Wrap.BSL, Wrap.DOT.
        assert (b <> 92 /\ b <> 46) as [H92 H46] by (unfold Wrap.name_special in Es; lia).
        destruct (N.eqb_spec b 92); [contradiction|]. destruct (N.eqb_spec b 46); [contradiction|]. apply Hnext.
Qed.

Definition wlabel (l : bytes) : Prop := l <> [] /\ (length l <= 63)%nat /\ wf_bytes l.

Lemma pres_cons l ls : Wrap_proofs.pres (l :: ls) = flat_map Wrap.esc_name_byte l ++ Wrap.DOT :: Wrap_proofs.pres ls.
Proof. unfold Wrap_proofs.pres. cbn [map List.concat]. rewrite <- app_assoc. reflexivity. Qed.

Lemma name_labels_pres ls : Forall wlabel ls -> forall fuel wd, (length (Wrap_proofs.join ls) <= fuel)%nat ->
  Wrap.name_labels fuel (Wrap_proofs.pres ls) [] wd = Ok ls.
Proof.
  induction 1 as [| l ls [Hne [Hlen Hwf]] _ IH]; intros fuel wd Hf.
  - destruct fuel; reflexivity.
  - rewrite Wrap_proofs.join_cons in Hf. rewrite app_length in Hf. cbn [length] in Hf.
    rewrite pres_cons.
    replace fuel with (length l + S (fuel - length l - 1))%nat by lia.
    rewrite name_labels_esc by exact Hwf.
    destruct l as [| c l']; [contradiction |].
    rewrite app_nil_r, rev_length.
    replace (64 <=? length (c :: l'))%nat with false by lia.
    rewrite IH by lia. cbn [bind]. rewrite rev_involutive. reflexivity.
Qed.

Lemma esc_len_ge l : (length l <= length (flat_map Wrap.esc_name_byte l))%nat.
Proof.
  induction l as [|b l IH]; [reflexivity|]. cbn [flat_map length]. rewrite app_length.
  assert (1 <= length (Wrap.esc_name_byte b))%nat; [|lia].
  unfold Wrap.esc_name_byte, Wrap.ddd_of. destruct (Wrap.name_special b); [cbn; lia|]. destruct ((b <? 32) || (126 <? b)); cbn; lia.
Qed.

Lemma pres_len_ge ls : (length (Wrap_proofs.join ls) <= length (Wrap_proofs.pres ls))%nat.
Proof.
  induction ls as [|l ls IH]; [reflexivity|]. rewrite Wrap_proofs.join_cons, pres_cons, !app_length. cbn [length].
  pose proof (esc_len_ge l). lia.
Qed.

(* a name of escaped labels whose last character is a plain ASCII one is an owner name the DNS library packs and unpacks *)
Lemma qname_ok_pres ls s x :
  ls <> [] -> Forall wlabel ls -> (length (Wrap_proofs.join ls) < 255)%nat ->
  Wrap_proofs.pres ls = s ++ [x; Wrap.DOT] -> x < 128 -> x <> 92 ->
  Wrap.qname_ok (Wrap_proofs.pres ls) = true.
Proof.
  intros Hne HF Hlen Es Hx Hx92.
  assert (Hpk : Wrap.pack_name (Wrap_proofs.pres ls) = Ok (Wrap.wire_of_labels ls)).
  { assert (Hpn : forall s0, s0 <> [] -> Wrap.pack_name s0 =
              if negb (Wrap.is_fqdn s0) then Err (wd "fqdn")
              else if bytes_eqb s0 [Wrap.DOT] then Ok [0]
              else do ls0 <- Wrap.name_labels (length s0) s0 [] false ;; Ok (Wrap.wire_of_labels ls0)).
    { intros [|c0 s0] H0; [congruence | reflexivity]. }
    rewrite Hpn by (rewrite Es; destruct s; discriminate).
    rewrite Es at 1. rewrite Wrap_proofs.is_fqdn_ascii by assumption. cbn [negb].
    destruct (bytes_eqb (Wrap_proofs.pres ls) [Wrap.DOT]) eqn:Eb.
    - apply Wrap_proofs.bytes_eqb_eq in Eb. rewrite Es in Eb. apply (f_equal (@length _)) in Eb.
      rewrite app_length in Eb. cbn [length] in Eb. lia.
    - rewrite name_labels_pres; [reflexivity | exact HF | apply pres_len_ge]. }
  unfold Wrap.qname_ok. rewrite Hpk. rewrite Wrap_proofs.unpack_last_name_labels; [reflexivity | exact Hne | | exact Hlen].
  eapply Forall_impl; [|exact HF]. cbv beta. intros a [H1 [H2 _]]. split; assumption.
Qed.

(* the name the server finds in a query of the tunnel (labels of the request body, then the labels of the domain, escaped by the DNS
   library) is one it can put on its answer *)
Lemma query_name_ok dom body :
  Name.dom_ok dom = true -> Name.wire_ok body = true -> body <> [] ->
  Name.fits_len (length body) (length dom) = true ->
  Wrap.qname_ok (Name_proofs.escaped_name (Name_proofs.body_labels body ++ Name.split_dots dom [])) = true.
Proof.
  intros Hdom Hbody Hne Hfit.
  destruct (Name_proofs.name_layer_explicit dom body Hdom Hbody Hne Hfit) as [[Hls Hlen] _].
  destruct (Name_proofs.dom_ok_facts dom Hdom) as [Hdl Hdls].
  destruct (Name_proofs.wire_ok_facts body Hbody) as [_ Hlt].
  set (bl := Name_proofs.body_labels body) in *. set (dl := Name.split_dots dom []) in *.
  assert (Hwl : Forall wlabel (bl ++ dl)).
  { assert (Hwf : Forall wf_bytes (bl ++ dl)).
    { apply Forall_app. split; [apply Name_proofs.body_labels_elems, Hlt|].
      eapply Forall_impl; [|exact Hdls]. cbv beta. intros l [Hc _].
      destruct (Name_proofs.forallb_dom_char_plain l Hc) as [_ H]. eapply Forall_impl; [|exact H]. cbv beta. intros; lia. }
    rewrite Forall_forall in *. intros l Hl. destruct (Hls l Hl) as [_ Hn]. split; [|split; [lia | apply Hwf, Hl]].
    destruct l; [cbn in Hn; lia | discriminate]. }
  assert (Hdne : dl <> []).
  { intros E. pose proof (Name_proofs.split_dots_join dom []) as J. fold dl in J. rewrite E in J. cbn in J. destruct dom; discriminate. }
  destruct (exists_last Hdne) as (dl' & l & Edl).
  assert (Hl : forallb Name.dom_char l = true /\ (1 <= length l <= 63)%nat).
  { rewrite Edl in Hdls. apply Forall_app in Hdls. destruct Hdls as [_ H]. inversion H; subst; assumption. }
  destruct Hl as [Hc Hll].
  assert (Hlne : l <> []) by (destruct l; [cbn in Hll; lia | discriminate]).
  destruct (exists_last Hlne) as (l' & x & ->).
  rewrite forallb_app in Hc. apply andb_prop in Hc. destruct Hc as [_ Hx]. cbn in Hx. rewrite andb_true_r in Hx.
  destruct (Name_proofs.dom_char_facts x Hx) as (Hx128 & _ & Hx92 & _).
  rewrite escaped_name_pres.
  apply (qname_ok_pres (bl ++ dl) (Wrap_proofs.pres bl ++ Wrap_proofs.join dl' ++ l') x).
  - intros E. apply app_eq_nil in E. destruct E as [_ E]. contradiction.
  - exact Hwl.
  - rewrite <- name_of_join. lia.
  - rewrite Wrap_proofs.pres_app. rewrite <- !app_assoc. f_equal.
    rewrite <- escaped_name_pres. rewrite Name_proofs.escaped_name_dom.
    + rewrite name_of_join, Edl. rewrite Wrap_proofs.join_app. f_equal. unfold Wrap_proofs.join. cbn [map List.concat].
      rewrite app_nil_r, <- app_assoc. reflexivity.
    + eapply Forall_impl; [|exact Hdls]. cbv beta. intros a [H _]. exact H.
  - exact Hx128.
  - exact Hx92.
Qed.

(* ------------------------------------------------------------------------------------------------ *)
(* B. the query: client -> wire -> server *)

(* what the model needs of a packet that is about to be sent: 16-bit number, octets, at most `bound` of them *)
Definition chunk_ok (bound : nat) (p : packet) : Prop :=
  p_seq p < 65536 /\ wf_bytes (p_data p) /\ (length (p_data p) <= bound)%nat.
Definition ochunk_ok (bound : nat) (p : option packet) : Prop := match p with Some x => chunk_ok bound x | None => True end.

Lemma fields_pkt_fields p : fields_pkt (pkt_fields p) = p.
Proof. destruct p as [[s d]|]; reflexivity. Qed.

(* a poll without data fits whenever a full fragment does *)
Lemma ping_fits dom c uid ack :
  Name.dom_ok dom = true -> Requests.selectable_up c = true -> Requests.fits dom c (Requests.RPacket uid ack None) = true.
Proof.
  intros Hdom Hc.
  destruct (Name_proofs.dom_ok_facts dom Hdom) as (Hd & _).
  unfold Requests.fits. cbn [Requests.encode_request]. rewrite app_length.
  change (length (Requests.encode_header Requests.cmd_packet uid Requests.cache0)) with 6%nat.
  eapply Mtu_proofs.fits_len_mono; [| apply (Mtu_proofs.mtu_sweep_at (length dom) c Hd Hc)].
  apply Nat.add_le_mono_l.
  etransitivity; [apply Mtu_proofs.encode_len_le, Hc|]. apply Mtu_proofs.enc_len_bound_mono.
  rewrite app_length. cbn [length Requests.le16]. lia.
Qed.

Section QUERY.
Variable P : wparams.
Hypothesis Hdom : Name.dom_ok (wp_dom P) = true.
Hypothesis Hcu : Requests.selectable_up (wp_cu P) = true.
Hypothesis Huid : wp_uid P < 1296.

Lemma rtype_code_lt rt : Wrap.rtype_code rt < 65536.
Proof. destruct rt; cbn; lia. Qed.
Lemma rtype_of_code_code rt : Wrap.rtype_of_code (Wrap.rtype_code rt) = Some rt.
Proof. destruct rt; reflexivity. Qed.

Theorem query_roundtrip ack p r :
  Requests.cache_ok r = true -> ack < 65536 -> ochunk_ok (Requests.upstream_mtu (wp_dom P) (wp_cu P)) p ->
  exists wq qname,
    form_query P ack p r = Ok wq /\
    decode_query P wq = Ok (qname, Wrap.rtype_code (wp_rt P), Requests.RPacket (wp_uid P) ack (pkt_fields p)) /\
    Wrap.qname_ok qname = true.
Proof.
  intros Hr Hack Hp.
  set (req := Requests.RPacket (wp_uid P) ack (pkt_fields p)).
  assert (Hwf : Requests.req_wf req = true).
  { unfold req. cbn [Requests.req_wf]. replace (wp_uid P <? 65536) with true by lia. replace (ack <? 65536) with true by lia.
    destruct p as [x|]; [|reflexivity]. destruct Hp as [H1 [H2 _]]. cbn [pkt_fields]. apply wf_bytesb_spec in H2. rewrite H2.
    replace (p_seq x <? 65536) with true by lia. reflexivity. }
  assert (Hfit : Requests.fits (wp_dom P) (wp_cu P) req = true).
  { unfold req. destruct p as [x|]; cbn [pkt_fields].
    - apply Mtu_proofs.mtu_fits; [exact Hdom | exact Hcu | apply Hp].
    - apply ping_fits; assumption. }
  assert (Hlen : length r = 3%nat).
  { unfold Requests.cache_ok in Hr. apply andb_prop in Hr. destruct Hr as [Hr' _]. apply Nat.eqb_eq, Hr'. }
  set (body := Requests.encode_request (wp_cu P) req r).
  assert (Hbody : Name.wire_ok body = true) by (apply Requests_proofs.encode_request_wire_ok; assumption).
  assert (Hbne : body <> []) by apply Requests_proofs.encode_request_nonnil.
  assert (Hbfit : Name.fits_len (length body) (length (wp_dom P)) = true).
  { unfold Requests.fits in Hfit. unfold body.
    rewrite (Requests_proofs.encode_request_length (wp_cu P) req r Requests.cache0) by (rewrite Hlen; reflexivity). exact Hfit. }
  destruct (Name_proofs.name_layer_explicit (wp_dom P) body Hdom Hbody Hbne Hbfit) as (_ & E1 & _ & _ & E4 & _ & _ & Q).
  destruct (Q (Wrap.rtype_code (wp_rt P)) (rtype_code_lt _)) as (wq & Q1 & Q2).
  exists wq. eexists. split; [|split].
  - unfold form_query. fold req. unfold Requests.encode_dns_request. fold body. rewrite E1. cbn [bind]. exact Q1.
  - unfold decode_query. rewrite Q2. cbn [bind]. unfold Name.compose_request. rewrite E4. cbn [bind].
    unfold body. destruct r as [|r1 [|r2 [|r3 [|]]]]; try discriminate Hlen.
    rewrite Requests_proofs.decode_encode by assumption. cbn [bind]. unfold req. cbn [Requests.normalise].
    unfold Requests.reduce_uid, Requests.max_user_id. rewrite N.mod_small by exact Huid. reflexivity.
  - apply query_name_ok; assumption.
Qed.
End QUERY.

(* ------------------------------------------------------------------------------------------------ *)
(* C. how many answer records a payload makes *)

Lemma chunks_count {A} k : (0 < k)%nat -> forall fuel (d : list A), (length (Wrap.chunks fuel k d) * k <= length d + k - 1)%nat.
Proof.
  intros Hk. induction fuel as [|f IH]; intros d; cbn [Wrap.chunks]; [cbn; lia|].
  destruct d as [|a d']; [cbn; lia|]. cbn [length]. specialize (IH (skipn k (a :: d'))).
  rewrite skipn_length in IH. cbn [length] in IH.
  destruct (Nat.le_gt_cases k (S (length d'))).
  - nia.
  - rewrite skipn_all2 in * by (cbn [length]; lia). rewrite Wrap_proofs.chunks_nil in *. cbn [length] in *. lia.
Qed.

(* octets one answer of this record type can carry with at most 510 records (one record for NULL, PRIVATE and TXT) *)
Definition capacity (rt : Wrap.rtype) (dom : bytes) : Z :=
  match rt with
  | Wrap.RNull | Wrap.RPrivate => 65530
  | Wrap.RTxt => 63250
  | Wrap.RSrv | Wrap.RMx | Wrap.RCname => 510 * Wrap.longest_data_string dom
  | Wrap.RAAAA | Wrap.RA => 0
  end.

Lemma size_ok_capacity rt dom p : (Z.of_nat (length p) <= capacity rt dom)%Z -> Wrap.size_ok rt dom p = true.
Proof.
  intros H. unfold Wrap.size_ok. apply N.leb_le. destruct rt; cbn [capacity Wrap.nrecords Wrap.max_records] in *.
  - pose proof (chunks_count Wrap.BIG Wrap_proofs.BIG_pos (length p) p). rewrite Wrap_proofs.BIG_val in *. nia.
  - pose proof (chunks_count Wrap.BIG Wrap_proofs.BIG_pos (length p) p). rewrite Wrap_proofs.BIG_val in *. nia.
  - pose proof (chunks_count 253 ltac:(lia) (length p) p) as H1.
    set (strs := Wrap.chunks (length p) 253 p) in *.
    pose proof (chunks_count 250 ltac:(lia) (length strs) strs) as H2. nia.
  - destruct p as [|b p']; [cbn; lia|]. cbn [length] in H.
    assert (0 < Wrap.longest_data_string dom)%Z by lia.
    pose proof (chunks_count (Z.to_nat (Wrap.longest_data_string dom)) ltac:(lia) (length (b :: p')) (b :: p')). cbn [length] in *. nia.
  - destruct p as [|b p']; [cbn; lia|]. cbn [length] in H.
    assert (0 < Wrap.longest_data_string dom)%Z by lia.
    pose proof (chunks_count (Z.to_nat (Wrap.longest_data_string dom)) ltac:(lia) (length (b :: p')) (b :: p')). cbn [length] in *. nia.
  - destruct p as [|b p']; [cbn; lia|]. cbn [length] in H.
    assert (0 < Wrap.longest_data_string dom)%Z by lia.
    pose proof (chunks_count (Z.to_nat (Wrap.longest_data_string dom)) ltac:(lia) (length (b :: p')) (b :: p')). cbn [length] in *. nia.
  - destruct p; [cbn; lia | cbn [length] in H; lia].
  - destruct p; [cbn; lia | cbn [length] in H; lia].
Qed.

Lemma enc_len_all c x : Responses.lossless c = true -> (length (encode c x) <= 2 * length x + 2)%nat.
Proof.
  intros Hc. destruct c; try discriminate Hc.
  1-6: (etransitivity; [apply Mtu_proofs.encode_len_le; reflexivity|]; cbn [Mtu_proofs.enc_len_bound]; lia).
  cbn [encode]. lia.
Qed.

(* ------------------------------------------------------------------------------------------------ *)
(* D. the text of the sequence error: printable octets, no NUL, of bounded length *)

Definition printable (b : N) : Prop := 1 <= b < 128.

Lemma dec_fuel_printable fuel : forall n acc, Forall printable acc -> Forall printable (dec_fuel fuel n acc).
Proof.
  induction fuel as [|f IH]; intros n acc Ha; cbn [dec_fuel]; [exact Ha|].
  assert (Forall printable ((48 + n mod 10) :: acc)) by (constructor; [unfold printable; lia | exact Ha]).
  destruct (n <? 10); [assumption | apply IH; assumption].
Qed.

Lemma dec_printable n : Forall printable (dec n).
Proof. apply dec_fuel_printable. constructor. Qed.

Lemma dec_len n : n < 65536 -> (length (dec n) <= 5)%nat.
Proof.
  intros H. unfold dec.
  do 5 (cbn [dec_fuel]; match goal with |- context [?a <? 10] => destruct (N.ltb_spec a 10) end; [cbn [length]; lia|]).
  exfalso. lia.
Qed.

Lemma join_sp_printable l : Forall (Forall printable) l -> Forall printable (join_sp l).
Proof.
  induction 1 as [|x l Hx Hl IH]; [constructor|]. cbn [join_sp]. destruct l as [|y l']; [exact Hx|].
  apply Forall_app. split; [exact Hx|]. constructor; [unfold printable; lia | exact IH].
Qed.

Lemma join_sp_len l k : Forall (fun x => (length x <= k)%nat) l -> (length (join_sp l) <= (k + 1) * length l)%nat.
Proof.
  induction 1 as [|x l Hx Hl IH]; [cbn; lia|]. cbn [join_sp]. destruct l as [|y l']; [cbn [length]; nia|].
  rewrite app_length. cbn [length] in *. nia.
Qed.

Lemma wd_printable s : forallb (fun b => (1 <=? b) && (b <? 128)) (wd s) = true -> Forall printable (wd s).
Proof. rewrite forallb_forall. intros H. apply Forall_forall. intros b Hb. specialize (H b Hb). unfold printable. lia. Qed.

Lemma seq_err_text_printable got next acked : Forall printable (seq_err_text got next acked).
Proof.
  unfold seq_err_text. repeat (apply Forall_app; split); try (apply wd_printable; reflexivity); try apply dec_printable.
  apply join_sp_printable. apply Forall_forall. intros x Hx. apply in_map_iff in Hx. destruct Hx as [n [<- _]]. apply dec_printable.
Qed.

Definition ERR_MAX : nat := 70 + 6 * 128.

Lemma seq_err_text_len got next acked :
  got < 65536 -> next < 65536 -> Forall (fun a => a < 65536) acked -> (length acked <= 128)%nat ->
  (length (seq_err_text got next acked) <= ERR_MAX)%nat.
Proof.
  intros Hg Hn Ha Hl. unfold seq_err_text, ERR_MAX. rewrite !app_length.
  pose proof (dec_len got Hg). pose proof (dec_len next Hn).
  assert (length (join_sp (map dec acked)) <= 6 * length acked)%nat.
  { pose proof (join_sp_len (map dec acked) 5) as J. rewrite map_length in J. apply J.
    apply Forall_forall. intros x Hx. apply in_map_iff in Hx. destruct Hx as [n [<- Hin]]. rewrite Forall_forall in Ha. apply dec_len, Ha, Hin. }
  change (length (wd "Received #")) with 10%nat. change (length (wd " but expected #")) with 15%nat.
  change (length (wd ". Acked: [")) with 10%nat. change (length (wd "]: invalid chunk sequence")) with 25%nat. lia.
Qed.

Lemma printable_wf t : Forall printable t -> wf_bytesb t = true /\ existsb (fun b => b =? 0) t = false.
Proof.
  intros H. split.
  - apply wf_bytesb_spec. eapply Forall_impl; [|exact H]. unfold printable. intros; lia.
  - destruct (existsb (fun b => b =? 0) t) eqn:E; [|reflexivity]. apply existsb_exists in E. destruct E as [b [Hb Eb]].
    rewrite Forall_forall in H. specialize (H b Hb). unfold printable in H. lia.
Qed.

(* ------------------------------------------------------------------------------------------------ *)
(* E. the answer: server -> wire -> client *)

(* the largest packet-response body: status, acknowledgement, sequence number and a full fragment - or the error text *)
Definition body_max (fd : nat) : nat := Nat.max (fd + 5) (S ERR_MAX).

(* the downstream fragment size is within what one answer of this record type can carry *)
Definition fd_ok (rt : Wrap.rtype) (dom : bytes) (fd : nat) : bool :=
  (2 * Z.of_nat (body_max fd) + 3 <=? capacity rt dom)%Z.

Section ANSWER.
Variables (P : wparams) (fd : nat).
Hypothesis Hdom : Name.dom_ok (wp_dom P) = true.
Hypothesis Hcd : Wrap.carries (wp_rt P) (wp_cd P) = true.
Hypothesis Hfd : fd_ok (wp_rt P) (wp_dom P) fd = true.

Lemma answer_roundtrip qname r :
  Wrap.qname_ok qname = true -> Responses.resp_wf r = true ->
  (forall p, Responses.encode_resp (wp_cd P) r = Ok p -> (length p <= 2 * body_max fd + 3)%nat) ->
  exists w n, form_answer P (Wrap.rtype_code (wp_rt P)) qname r = FOk w n /\ decode_answer P w = Ok (Responses.normalise r).
Proof.
  intros Hq Hwf Hsz.
  destruct (Responses_proofs.c10_reported (wp_rt P) (wp_cd P) r (wp_dom P) qname Hcd (dom_ok_wrap _ Hdom) Hq Hwf) as [p [He Hrest]].
  destruct Hrest as [m [w [m' [H1 [H2 [H3 [H4 H5]]]]]]].
  { apply size_ok_capacity. specialize (Hsz p He). unfold fd_ok in Hfd. lia. }
  exists w, (length (Wrap.m_answers m)). split.
  - unfold form_answer. rewrite He, rtype_of_code_code, H1, H2. reflexivity.
  - unfold decode_answer. rewrite H3. cbn [bind]. rewrite H4. cbn [bind]. exact H5.
Qed.

(* a packet response with data or without *)
Theorem answer_roundtrip_packet qname ack p :
  Wrap.qname_ok qname = true -> ack < 65536 -> ochunk_ok fd p ->
  exists w n, form_answer P (Wrap.rtype_code (wp_rt P)) qname (Responses.RPkt Responses.ENone ack (pkt_fields p)) = FOk w n /\
              client_view P w = VPacket false ack p.
Proof.
  intros Hq Hack Hp.
  destruct (answer_roundtrip qname (Responses.RPkt Responses.ENone ack (pkt_fields p)) Hq) as [w [n [F D]]].
  - cbn [Responses.resp_wf Responses.err_wf Responses.err_no_nul andb]. replace (ack <? 65536) with true by lia.
    destruct p as [x|]; [|reflexivity]. destruct Hp as [H1 [H2 _]]. cbn [pkt_fields]. apply wf_bytesb_spec in H2. rewrite H2.
    replace (p_seq x <? 65536) with true by lia. reflexivity.
  - intros pl E. cbn [Responses.encode_resp Responses.err_text] in E. injection E as <-. cbn [length].
    pose proof (Responses_proofs.carries_lossless _ _ Hcd) as Hl.
    unfold body_max. destruct p as [x|]; cbn [pkt_fields].
    + destruct Hp as [_ [_ H3]].
      pose proof (enc_len_all (wp_cd P) (1 :: Wrap.le16 ack ++ Wrap.le16 (p_seq x) ++ p_data x) Hl) as B.
      cbn [Wrap.le16 app length] in B. lia.
    + pose proof (enc_len_all (wp_cd P) (0 :: Wrap.le16 ack) Hl) as B. cbn [Wrap.le16 app length] in B. lia.
  - exists w, n. split; [exact F|]. unfold client_view. rewrite D. cbn [Responses.normalise]. rewrite fields_pkt_fields. reflexivity.
Qed.

(* a packet response that reports the sequence error *)
Theorem answer_roundtrip_error qname got next acked :
  Wrap.qname_ok qname = true -> got < 65536 -> next < 65536 -> Forall (fun a => a < 65536) acked -> (length acked <= 128)%nat ->
  exists w n, form_answer P (Wrap.rtype_code (wp_rt P)) qname
                (Responses.RPkt (Responses.ECustom (seq_err_text got next acked)) 0 None) = FOk w n /\
              client_view P w = VPacket true 0 None.
Proof.
  intros Hq Hg Hn Ha Hl.
  pose proof (seq_err_text_printable got next acked) as Hp. destruct (printable_wf _ Hp) as [W1 W2].
  destruct (answer_roundtrip qname (Responses.RPkt (Responses.ECustom (seq_err_text got next acked)) 0 None) Hq) as [w [n [F D]]].
  - cbn [Responses.resp_wf Responses.err_wf Responses.err_no_nul]. rewrite W1, W2. reflexivity.
  - intros pl E. cbn [Responses.encode_resp Responses.err_text] in E. injection E as <-. cbn [length].
    pose proof (enc_len_all (wp_cd P) (255 :: seq_err_text got next acked) (Responses_proofs.carries_lossless _ _ Hcd)) as B.
    cbn [length] in B. pose proof (seq_err_text_len got next acked Hg Hn Ha Hl). unfold body_max. lia.
  - exists w, n. split; [exact F|]. unfold client_view. rewrite D. cbn [Responses.normalise Responses.norm_err].
    unfold Responses.err_of_string. destruct (Responses.find_index _ _ _); reflexivity.
Qed.
End ANSWER.

(* the bound is generous: every fragment size up to 10 000 octets qualifies, on every tunnel domain and every carrying record type
   (the server's default is 1534, the largest the client ever asks for is below 8192) *)
Lemma fd_ok_default rt dom fd c : Name.dom_ok dom = true -> Wrap.carries rt c = true -> N.of_nat fd <= 10000 -> fd_ok rt dom fd = true.
Proof.
  intros Hd Hc Hf. destruct (Name_proofs.dom_ok_facts dom Hd) as [Hl _].
  unfold fd_ok, body_max, ERR_MAX. apply Z.leb_le.
  assert (47 <= Wrap.longest_data_string dom)%Z.
  { unfold Wrap.longest_data_string, Wrap.zlen. lia. }
  destruct rt; cbn [capacity]; try discriminate Hc; lia.
Qed.

Print Assumptions query_roundtrip.
Print Assumptions answer_roundtrip_packet.
Print Assumptions answer_roundtrip_error.
